(* C02 -- executable model of the genetic operators of i_mep / team<i_mep>
   (kernel/gp/mep/i_mep.cc, i_mep_iterator.tcc, kernel/gp/gene.tcc,
   kernel/symbol_set.cc, kernel/individual.tcc, kernel/gp/team.tcc), built on
   the shared genome model Mep/Genome.v.  Function by function, same branch
   structure, same order of random draws (Mep/Draws.v).  Definitions only. *)
From Coq Require Import ZArith List Bool Arith.
Local Ltac c02_scan0 := idtac. (* separates the Require lines for the dependency scanner of lib/vv.py *)
From VV Require Import Base.F64 Mep.Genome Mep.Draws.
Local Ltac c02_scan1 := idtac.
Import ListNotations.
Local Open Scope Z_scope.

(* ------------------------------------------------------------------ misc *)
Fixpoint list_eqb {A} (eqb : A -> A -> bool) (a b : list A) : bool :=
  match a, b with
  | [], [] => true
  | x :: a', y :: b' => eqb x y && list_eqb eqb a' b'
  | _, _ => false
  end.

Fixpoint mapO {A B} (f : A -> option B) (l : list A) : option (list B) :=
  match l with
  | [] => Some []
  | a :: r => match f a with
              | Some b => match mapO f r with Some bs => Some (b :: bs) | None => None end
              | None => None
              end
  end.

Fixpoint foldO {S A} (f : S -> A -> option S) (l : list A) (s : S) : option S :=
  match l with
  | [] => Some s
  | a :: r => match f s a with Some s' => foldO f r s' | None => None end
  end.

(* ------------------------------------------------------------ symbol set *)
(* symbol_set::collection::sum_container : the symbols of one kind and one
   category in the order of elems_ (sorted by descending weight at insertion),
   each with its weight (weight_t = unsigned) *)
Definition wheel := list (sym * Z).
Record sset := { ss_cats : nat; ss_funs : list wheel; ss_terms : list wheel }.
Definition funs_of (ss : sset) (c : nat) : wheel := nth c (ss_funs ss) [].
Definition terms_of (ss : sset) (c : nat) : wheel := nth c (ss_terms ss) [].
Definition wheel_sum (w : wheel) : Z := fold_right (fun e a => snd e + a) 0 w.
Definition all_syms (ss : sset) : list sym := map fst (concat (ss_funs ss) ++ concat (ss_terms ss)).

(* two symbol records describe the same symbol as far as typing goes *)
Definition sym_same_b (a b : sym) : bool :=
  Nat.eqb (s_cat a) (s_cat b) && list_eqb Nat.eqb (s_argcats a) (s_argcats b) &&
  Bool.eqb (s_parametric a) (s_parametric b).
(* opcodes are primary keys (symbol.h) *)
Definition coherent_b (l : list sym) : bool :=
  forallb (fun a => forallb (fun b => if s_opcode a =? s_opcode b then sym_same_b a b else true) l) l.
Definition sym_in_b (ss : sset) (s : sym) : bool :=
  existsb (fun s' => (s_opcode s =? s_opcode s') && sym_same_b s s') (all_syms ss).

(* what symbol_set::insert / enough_terminals guarantee *)
Definition wf_sset_b (ss : sset) : bool :=
  Nat.leb 1 (ss_cats ss) && Nat.eqb (length (ss_funs ss)) (ss_cats ss) &&
  Nat.eqb (length (ss_terms ss)) (ss_cats ss) &&
  forallb (fun c =>
    forallb (fun e => Nat.eqb (s_cat (fst e)) c && negb (is_terminal (fst e)) &&
                      forallb (fun ac => Nat.ltb ac (ss_cats ss)) (s_argcats (fst e)) && (0 <=? snd e))
            (funs_of ss c) &&
    forallb (fun e => Nat.eqb (s_cat (fst e)) c && is_terminal (fst e) && (0 <=? snd e)) (terms_of ss c))
    (seq 0 (ss_cats ss)) &&
  coherent_b (all_syms ss).

(* sum_container::roulette():  slot = random::sup(sum());
   for (wedge = elems_[0].weight; wedge <= slot; wedge += elems_[++i].weight) {}  *)
Fixpoint wheel_pick (w : wheel) (slot : Z) : option sym :=
  match w with
  | [] => None                                  (* reading past elems_ *)
  | (s, wt) :: r => if slot <? wt then Some s else wheel_pick r (slot - wt)
  end.
Definition wheel_roulette (w : wheel) : M sym :=
  slot <- between 0 (wheel_sum w) ;;
  match wheel_pick w slot with Some s => ret s | None => fail end.

(* symbol_set::roulette(c): if (random::boolean() && functions.size()) ... *)
Definition roulette (ss : sset) (c : nat) : M sym :=
  b <- boolean half_bits ;;
  if b && negb (match funs_of ss c with [] => true | _ => false end)
  then wheel_roulette (funs_of ss c)
  else wheel_roulette (terms_of ss c).
Definition roulette_terminal (ss : sset) (c : nat) : M sym := wheel_roulette (terms_of ss c).

(* ------------------------------------------------------------------ genes *)
(* terminal::init() of a parametric terminal (real::real, real::integer,
   integer::number): exactly one draw, whose value is the parameter *)
Definition init_par : M f64 := fun ds =>
  match ds with
  | DInt lo hi v :: r => if valid_draw_b (DInt lo hi v) then Some (F64.of_Z v, r) else None
  | DReal b :: r => if F64.is_nan (F64.of_bits b) then None else Some (F64.of_bits b, r)
  | _ => None                 (* random::between<double> never returns a NaN (H_draws) *)
  end.

(* basic_gene(const terminal &) *)
Definition gene_of_terminal (t : sym) : M gene :=
  if s_parametric t
  then p <- init_par ;; ret {| g_sym := t; g_par := p; g_args := [] |}
  else ret {| g_sym := t; g_par := F64.zero; g_args := [] |}.

Fixpoint draw_args (n : nat) (from sup : Z) : M (list nat) :=
  match n with
  | O => ret []
  | S k => v <- between from sup ;; l <- draw_args k from sup ;; ret (Z.to_nat v :: l)
  end.

(* basic_gene(const symbol &, index_t from, index_t sup) *)
Definition gene_random (s : sym) (from sup : nat) : M gene :=
  if is_terminal s then gene_of_terminal s
  else a <- draw_args (arity s) (Z.of_nat from) (Z.of_nat sup) ;;
       ret {| g_sym := s; g_par := F64.zero; g_args := a |}.

(* gene::arguments() *)
Definition arguments (ge : gene) : list locus :=
  map (fun ac => {| l_index := fst ac; l_cat := snd ac |}) (combine (g_args ge) (s_argcats (g_sym ge))).

(* utility.h issmall / almost_equal on doubles *)
Definition eps2 : f64 := F64.of_bits 0x3CC0000000000000.     (* 2 * DBL_EPSILON *)
Definition e5 : f64 := F64.of_bits 0x3EE4F8B588E368F1.       (* 0.00001 *)
Definition issmall (v : f64) : bool := F64.ltb (F64.abs v) eps2.
Definition almost_equal (v1 v2 : f64) : bool :=
  let diff := F64.abs (F64.sub v1 v2) in
  if issmall diff then true
  else let a1 := F64.abs v1 in let a2 := F64.abs v2 in
       let largest := if F64.ltb a1 a2 then a2 else a1 in
       F64.leb diff (F64.mul largest e5).

(* operator==(gene, gene); symbol identity = opcode identity *)
Definition gene_eqb (a b : gene) : bool :=
  if negb (s_opcode (g_sym a) =? s_opcode (g_sym b)) then false
  else if negb (is_terminal (g_sym a)) then list_eqb Nat.eqb (g_args a) (g_args b)
  else negb (s_parametric (g_sym a)) || almost_equal (g_par a) (g_par b).

(* ---------------------------------------------------------------- genomes *)
Definition put_cell (g : genome) (r c : nat) (o : option gene) : genome :=
  {| rows := rows g; cats := cats g;
     cell := fun r' c' => if Nat.eqb r' r && Nat.eqb c' c then o else cell g r' c';
     best := best g |}.
Definition set_cell (g : genome) (r c : nat) (ge : gene) : genome := put_cell g r c (Some ge).
Definition set_best (g : genome) (l : locus) : genome :=
  {| rows := rows g; cats := cats g; cell := cell g; best := l |}.
Definition empty_genome (R C : nat) : genome :=
  {| rows := R; cats := C; cell := fun _ _ => None; best := {| l_index := 0; l_cat := 0 |} |}.
Definition all_loci (R C : nat) : list (nat * nat) :=
  flat_map (fun r => map (fun c => (r, c)) (seq 0 C)) (seq 0 R).
Definition inside_b (g : genome) (l : locus) : bool :=
  Nat.ltb (l_index l) (rows g) && Nat.ltb (l_cat l) (cats g).

(* The well-formedness the property is about, relative to a symbol set and
   the patch length of the problem (stronger than Genome.wf_genome_b: every
   cell is populated, symbols come from the symbol set, the patch section
   holds terminals). *)
Definition gene_ok_b (ss : sset) (R C patch r c : nat) (ge : gene) : bool :=
  sym_in_b ss (g_sym ge) &&
  Nat.eqb (s_cat (g_sym ge)) c &&
  Nat.eqb (length (g_args ge)) (arity (g_sym ge)) &&
  forallb (fun a => Nat.ltb r a && Nat.ltb a R) (g_args ge) &&
  forallb (fun ac => Nat.ltb ac C) (s_argcats (g_sym ge)) &&
  (if Nat.leb (R - patch) r then is_terminal (g_sym ge) else true) &&
  (if s_parametric (g_sym ge) then negb (F64.is_nan (g_par ge)) else true).   (* an ephemeral constant is a number *)

Definition ind_ok_b (ss : sset) (patch : nat) (g : genome) : bool :=
  Nat.leb 1 patch && Nat.ltb patch (rows g) && Nat.eqb (cats g) (ss_cats ss) &&
  forallb (fun r => forallb (fun c =>
     match cell g r c with
     | Some ge => gene_ok_b ss (rows g) (cats g) patch r c ge
     | None => false
     end) (seq 0 (cats g))) (seq 0 (rows g)) &&
  inside_b g (best g).

(* ------------------------------------------------------------ individuals *)
(* i_mep::crossover_t {one_point, two_points, tree, uniform} *)
Inductive xover := OnePoint | TwoPoints | TreeX | UniformX.
Definition xover_of_Z (z : Z) : xover :=
  if z =? 0 then OnePoint else if z =? 1 then TwoPoints else if z =? 2 then TreeX else UniformX.
Definition Z_of_xover (x : xover) : Z :=
  match x with OnePoint => 0 | TwoPoints => 1 | TreeX => 2 | UniformX => 3 end.

Record ind := { i_gen : genome; i_age : N; i_xt : xover }.
Definition with_gen (i : ind) (g : genome) : ind := {| i_gen := g; i_age := i_age i; i_xt := i_xt i |}.

(* the random gene i_mep(problem) and i_mep::mutation put at row [r],
   category [c]:
     ix < patch ? gene(sset.roulette(ct), ix + 1, size) : gene(sset.roulette_terminal(ct)) *)
Definition new_gene (ss : sset) (R patch r c : nat) : M gene :=
  if Nat.ltb r (R - patch)
  then s <- roulette ss c ;; gene_random s (S r) R
  else t <- roulette_terminal ss c ;; gene_of_terminal t.

(* i_mep::i_mep(const problem &) *)
Definition fill_cell (ss : sset) (R patch : nat) (g : genome) (rc : nat * nat) : M genome :=
  ge <- new_gene ss R patch (fst rc) (snd rc) ;; ret (set_cell g (fst rc) (snd rc) ge).
Definition random_ind (ss : sset) (R patch : nat) : M ind :=
  if Nat.leb 1 patch && Nat.ltb patch R && Nat.leb 1 (ss_cats ss)       (* the constructor's Expects *)
  then x <- between 0 4 ;;                              (* active_crossover_type_(random::sup(NUM_CROSSOVERS)) *)
       g <- foldM (fill_cell ss R patch) (all_loci R (ss_cats ss)) (empty_genome R (ss_cats ss)) ;;
       ret {| i_gen := g; i_age := 0%N; i_xt := xover_of_Z x |}
  else fail.

(* std::set<locus>: sorted, without duplicates *)
Fixpoint set_insert (l : locus) (s : list locus) : list locus :=
  match s with
  | [] => [l]
  | x :: r => if locus_ltb l x then l :: s else if locus_eqb l x then s else x :: set_insert l r
  end.
Definition set_union (ls : list locus) (s : list locus) : list locus :=
  fold_left (fun acc l => set_insert l acc) ls s.

(* i_mep::begin() .. end(): the loci the iterator visits, in order.  operator++ erases the
   current (smallest) locus and inserts the arguments of the gene that is there. *)
Fixpoint walk (fuel : nat) (g : genome) (loci : list locus) : option (list locus) :=
  match fuel with
  | O => None
  | S f =>
      match loci with
      | [] => Some []
      | l :: rest =>
          match gene_at g l with
          | None => None
          | Some ge => match walk f g (set_union (arguments ge) rest) with
                       | Some w => Some (l :: w)
                       | None => None
                       end
          end
      end
  end.
Definition active_loci (g : genome) : option (list locus) := walk (S (rows g * cats g)) g [best g].
(* i_mep::active_symbols() = std::distance(begin(), end()) *)
Definition active_symbols (g : genome) : option nat := option_map (@length locus) (active_loci g).
(* i_mep::blocks(): the active loci that hold a function *)
Definition blocks (g : genome) : option (list locus) :=
  option_map (filter (fun l => match gene_at g l with
                               | Some ge => negb (is_terminal (g_sym ge))
                               | None => false end)) (active_loci g).

(* i_mep::mutation(pgm, prb): the iterator walks the active loci in locus
   order; ++ replaces the current locus by the arguments of the gene that is
   there NOW (i.e. after a mutation of that gene).  Returns the genome and the
   number of mutations. *)
Fixpoint mut_loop (fuel : nat) (ss : sset) (patch : nat) (pgm : Z)
         (g : genome) (loci : list locus) (n : nat) : M (genome * nat) :=
  match fuel with
  | O => fail
  | S f =>
      match loci with
      | [] => ret (g, n)
      | l :: rest =>
          b <- boolean pgm ;;
          gn <- (if b
                 then ge <- new_gene ss (rows g) patch (l_index l) (l_cat l) ;;
                      match gene_at g l with
                      | None => fail
                      | Some old => if gene_eqb old ge then ret (g, n)
                                    else ret (set_cell g (l_index l) (l_cat l) ge, S n)
                      end
                 else ret (g, n)) ;;
          match gene_at (fst gn) l with
          | None => fail
          | Some cur => mut_loop f ss patch pgm (fst gn) (set_union (arguments cur) rest) (snd gn)
          end
      end
  end.
Definition mutation (ss : sset) (patch : nat) (pgm : Z) (i : ind) : M (ind * nat) :=
  gn <- mut_loop (S (rows (i_gen i) * cats (i_gen i))) ss patch pgm (i_gen i) [best (i_gen i)] 0 ;;
  ret (with_gen i (fst gn), snd gn).

(* -------------------------------------------------------------- crossover *)
(* to.genome_(l) = from[l] *)
Definition copy_cell (from to : genome) (r c : nat) : genome := put_cell to r c (cell from r c).
Definition copy_rows (from to : genome) (rs : list nat) : genome :=
  fold_left (fun t r => fold_left (fun t' c => copy_cell from t' r c) (seq 0 (cats from)) t) rs to.

(* rows cut, cut+1, ..., R-1 (none when cut >= R) *)
Definition rows_from (cut : Z) (R : nat) : list nat :=
  if (cut <? Z.of_nat R)%Z then seq (Z.to_nat cut) (R - Z.to_nat cut) else [].
(* between(lo, hi) when lo < hi; any size_t for an empty range (see OnePoint below) *)
Definition between_or_any (lo hi : Z) : M Z := fun ds =>
  if (lo <? hi)%Z then between lo hi ds
  else match ds with
       | DInt lo' hi' v :: r =>
           if (lo =? lo') && (hi =? hi') && (0 <=? v) && (v <? 2 ^ 64) then Some (v, r) else None
       | _ => None
       end.

(* random_locus(prg): the exon set, grown while it is iterated *)
Definition next_after (cur : locus) (s : list locus) : option locus := find (fun x => locus_ltb cur x) s.
Fixpoint exons_loop (fuel : nat) (g : genome) (s : list locus) (cur : locus) : option (list locus) :=
  match fuel with
  | O => None
  | S f =>
      match gene_at g cur with
      | None => None
      | Some ge =>
          let s' := set_union (arguments ge) s in
          match next_after cur s' with
          | None => Some s'
          | Some nx => exons_loop f g s' nx
          end
      end
  end.
Definition random_locus (g : genome) : M locus :=
  match exons_loop (S (rows g * cats g)) g [best g] (best g) with
  | None => fail
  | Some ex =>
      k <- between 0 (Z.of_nat (length ex)) ;;           (* random::element: sup(size) *)
      match nth_error ex (Z.to_nat k) with Some l => ret l | None => fail end
  end.

(* the recursive lambda of tree crossover *)
Fixpoint copy_tree (fuel : nat) (from to : genome) (l : locus) : option genome :=
  match fuel with
  | O => None
  | S f =>
      match gene_at from l with
      | None => None
      | Some ge =>
          fold_left (fun acc al => match acc with Some t => copy_tree f from t al | None => None end)
                    (arguments ge) (Some (set_cell to (l_index l) (l_cat l) ge))
      end
  end.

Definition uniform_cell (from : genome) (t : genome) (rc : nat * nat) : M genome :=
  b <- boolean half_bits ;; ret (if b then copy_cell from t (fst rc) (snd rc) else t).

Definition crossover_genome (x : xover) (from to : genome) : M genome :=
  let R := rows from in
  match x with
  | OnePoint =>
      (* cut = random::between<index_t>(1, i_sup - 1).  With 2 rows the range is empty:
         std::uniform_int_distribution<size_t>(1, 0) is outside its contract; libstdc++ then
         computes the range b - a = 2^64 - 1 and returns engine() + 1 modulo 2^64, i.e. ANY
         size_t.  The model accepts every such value ([between_or_any]); the loop
         "for (i = cut; i < i_sup; ++i)" copies rows cut..R-1, none when cut >= R. *)
      cut <- between_or_any 1 (Z.of_nat R - 1) ;;
      ret (copy_rows from to (rows_from cut R))
  | TwoPoints =>
      cut1 <- between 0 (Z.of_nat R - 1) ;;
      cut2 <- between (cut1 + 1) (Z.of_nat R) ;;
      ret (copy_rows from to (seq (Z.to_nat cut1) (Z.to_nat cut2 - Z.to_nat cut1)))
  | UniformX => foldM (uniform_cell from) (all_loci R (cats from)) to
  | TreeX =>
      l <- random_locus from ;;
      match copy_tree (S R) from to l with Some t => ret t | None => fail end
  end.

(* crossover(lhs, rhs) *)
Definition crossover (lhs rhs : ind) : M ind :=
  if Nat.eqb (rows (i_gen lhs)) (rows (i_gen rhs)) && Nat.eqb (cats (i_gen lhs)) (cats (i_gen rhs))
  then
    b <- boolean half_bits ;;
    let from := if b then rhs else lhs in
    let to := if b then lhs else rhs in
    g <- crossover_genome (i_xt from) (i_gen from) (i_gen to) ;;
    ret {| i_gen := g; i_age := N.max (i_age to) (i_age from); i_xt := i_xt from |}
  else fail.

(* ------------------------------------------------- blocks, replace, destroy *)
Definition get_block (i : ind) (l : locus) : ind := with_gen i (set_best (i_gen i) l).
Definition replace (i : ind) (l : locus) (ge : gene) : ind :=
  with_gen i (set_cell (i_gen i) (l_index l) (l_cat l) ge).
Definition destroy_cell (ss : sset) (index : nat) (g : genome) (c : nat) : M genome :=
  t <- roulette_terminal ss c ;; ge <- gene_of_terminal t ;; ret (set_cell g index c ge).
Definition destroy_block (ss : sset) (i : ind) (index : nat) : M ind :=
  if Nat.ltb index (rows (i_gen i))
  then g <- foldM (destroy_cell ss index) (seq 0 (cats (i_gen i))) (i_gen i) ;; ret (with_gen i g)
  else fail.
Definition inc_age (i : ind) : ind := {| i_gen := i_gen i; i_age := N.succ (i_age i); i_xt := i_xt i |}.
Definition force_xover (i : ind) (x : xover) : ind := {| i_gen := i_gen i; i_age := i_age i; i_xt := x |}.

(* -------------------------------------------------------------------- cse *)
Fixpoint lex_ltb (a b : list nat) : bool :=         (* std::lexicographical_compare *)
  match a, b with
  | _, [] => false
  | [], _ :: _ => true
  | x :: a', y :: b' => if Nat.ltb x y then true else if Nat.ltb y x then false else lex_ltb a' b'
  end.
Fixpoint any_ltb (a b : list nat) : bool :=          (* the loop of the pinned gene_cmp *)
  match a, b with
  | x :: a', y :: b' => Nat.ltb x y || any_ltb a' b'
  | _, _ => false
  end.

(* std::memcmp(&a.par, &b.par, sizeof(double)) < 0: the 8 bytes of the object
   representation, lowest address (least significant byte, x86-64) first *)
Definition par_bytes (p : f64) : list Z :=
  let b := F64.to_bits p in map (fun k => Z.land (Z.shiftr b (8 * k)) 255) [0; 1; 2; 3; 4; 5; 6; 7].
Fixpoint bytes_ltb (a b : list Z) : bool :=
  match a, b with
  | x :: a', y :: b' => if x <? y then true else if y <? x then false else bytes_ltb a' b'
  | _, _ => false
  end.

(* gene_cmp of the current cse() (after "fix: gene_cmp ... is not a strict weak ordering" and
   "fix: i_mep::cse() merges the constants +0.0 and -0.0"): lexicographic on
   (opcode, object representation of the parameter | arguments) *)
Definition gene_cmp_mem (a b : gene) : bool :=
  if negb (s_opcode (g_sym a) =? s_opcode (g_sym b)) then s_opcode (g_sym a) <? s_opcode (g_sym b)
  else if is_terminal (g_sym a)
       then (if s_parametric (g_sym a) then bytes_ltb (par_bytes (g_par a)) (par_bytes (g_par b)) else false)
       else lex_ltb (g_args a) (g_args b).

(* gene_cmp between those two fixes: the parameters compared with operator< (kept: the C03
   development states the +0.0 / -0.0 finding about it) *)
Definition gene_cmp (a b : gene) : bool :=
  if negb (s_opcode (g_sym a) =? s_opcode (g_sym b)) then s_opcode (g_sym a) <? s_opcode (g_sym b)
  else if is_terminal (g_sym a) then (if s_parametric (g_sym a) then F64.ltb (g_par a) (g_par b) else false)
  else lex_ltb (g_args a) (g_args b).

(* gene_cmp of the pinned tree: "some argument is smaller" *)
Definition gene_cmp_old (a b : gene) : bool :=
  if s_opcode (g_sym a) <? s_opcode (g_sym b) then true
  else if s_opcode (g_sym a) =? s_opcode (g_sym b)
       then if is_terminal (g_sym a) then (if s_parametric (g_sym a) then F64.ltb (g_par a) (g_par b) else false)
            else any_ltb (g_args a) (g_args b)
       else false.

(* std::map<gene, locus, cmp>.  For a strict weak order the container is
   determined by its set of (pairwise inequivalent) keys: find returns the
   unique equivalent entry, try_emplace inserts iff there is none. *)
Definition kmap := list (gene * locus).
Section Cse.
Variable cmp : gene -> gene -> bool.
Definition gene_equiv (a b : gene) : bool := negb (cmp a b) && negb (cmp b a).
Definition kfind (k : gene) (m : kmap) : option locus :=
  match find (fun e => gene_equiv k (fst e)) m with Some e => Some (snd e) | None => None end.
Definition kemplace (k : gene) (v : locus) (m : kmap) : kmap :=
  match kfind k m with Some _ => m | None => (k, v) :: m end.

(* the lambda of std::transform: ret[g.locus_of_argument(i)] looked up in new_locus *)
Definition cse_arg (g : genome) (m : kmap) (al : locus) : option nat :=
  match gene_at g al with
  | None => None
  | Some ga => match kfind ga m with Some w => Some (l_index w) | None => Some (l_index al) end
  end.
Definition cse_cell (st : genome * kmap) (rc : nat * nat) : option (genome * kmap) :=
  match cell (fst st) (fst rc) (snd rc) with
  | None => None
  | Some ge =>
      match mapO (cse_arg (fst st) (snd st)) (arguments ge) with
      | None => None
      | Some args' =>
          let ge' := {| g_sym := g_sym ge; g_par := g_par ge; g_args := args' |} in
          Some (set_cell (fst st) (fst rc) (snd rc) ge',
                kemplace ge' {| l_index := fst rc; l_cat := snd rc |} (snd st))
      end
  end.
(* for (i = size(); i > 0; --i) for (c = 0; c < cols; ++c) *)
Definition cse_loci (R C : nat) : list (nat * nat) :=
  flat_map (fun r => map (fun c => (r, c)) (seq 0 C)) (rev (seq 0 R)).
Definition cse_genome (g : genome) : option genome :=
  match foldO cse_cell (cse_loci (rows g) (cats g)) (g, []) with
  | Some st => Some (fst st)
  | None => None
  end.
End Cse.

Definition cse (i : ind) : option ind :=
  match cse_genome gene_cmp_mem (i_gen i) with Some g => Some (with_gen i g) | None => None end.

(* The pinned comparator [gene_cmp_old] is not a strict weak order (see
   Props/Refuted_C02.v), so std::map gives no guarantee at all for it; it is
   kept only to state that refutation and is not used by any operator. *)

(* "neither is less" for the exact order on doubles *)
Definition par_incomp (x y : f64) : bool := negb (F64.ltb x y) && negb (F64.ltb y x).

(* ------------------------------------------------------------------ teams *)
(* team<i_mep>: a vector of individuals; the operators are applied member by
   member, in order *)
Definition team := list ind.
Fixpoint random_team (ss : sset) (R patch : nat) (n : nat) : M team :=
  match n with
  | O => ret []
  | S k => i <- random_ind ss R patch ;; t <- random_team ss R patch k ;; ret (i :: t)
  end.
Fixpoint team_mutation (ss : sset) (patch : nat) (pgm : Z) (t : team) : M (team * nat) :=
  match t with
  | [] => ret ([], O)
  | i :: r => a <- mutation ss patch pgm i ;; b <- team_mutation ss patch pgm r ;;
              ret (fst a :: fst b, (snd a + snd b)%nat)
  end.
Fixpoint team_crossover (lhs rhs : team) : M team :=
  match lhs, rhs with
  | [], [] => ret []
  | a :: l, b :: r => c <- crossover a b ;; t <- team_crossover l r ;; ret (c :: t)
  | _, _ => fail                                   (* Expects(lhs.individuals() == rhs.individuals()) *)
  end.

(* ---------------------------------------------------- executable oracles *)
(* each gene of the child is the gene one of the parents has at that position *)
Definition opt_gene_same (a b : option gene) : bool :=
  match a, b with
  | None, None => true
  | Some x, Some y =>
      (s_opcode (g_sym x) =? s_opcode (g_sym y)) && list_eqb Nat.eqb (g_args x) (g_args y) &&
      (F64.to_bits (g_par x) =? F64.to_bits (g_par y))
  | _, _ => false
  end.
Definition provenance_b (p1 p2 child : genome) : bool :=
  Nat.eqb (rows child) (rows p1) && Nat.eqb (cats child) (cats p1) &&
  forallb (fun r => forallb (fun c =>
     opt_gene_same (cell child r c) (cell p1 r c) || opt_gene_same (cell child r c) (cell p2 r c))
     (seq 0 (cats child))) (seq 0 (rows child)).
Definition crossover_ok_b (p1 p2 child : ind) : bool :=
  provenance_b (i_gen p1) (i_gen p2) (i_gen child) &&
  N.eqb (i_age child) (N.max (i_age p1) (i_age p2)).
Definition genome_same_b (a b : genome) : bool :=
  Nat.eqb (rows a) (rows b) && Nat.eqb (cats a) (cats b) && locus_eqb (best a) (best b) &&
  forallb (fun r => forallb (fun c => opt_gene_same (cell a r c) (cell b r c)) (seq 0 (cats a))) (seq 0 (rows a)).
Definition ind_same_b (a b : ind) : bool :=
  genome_same_b (i_gen a) (i_gen b) && N.eqb (i_age a) (i_age b) &&
  (Z_of_xover (i_xt a) =? Z_of_xover (i_xt b)).
