(* C02 -- the pinned comparator of cse(): a concrete two-category individual
   on which a std::map that only honours "the node returned by find is
   equivalent to the key" redirects an argument to the gene's own row.  The
   real pinned code (libstdc++'s red-black tree) makes exactly these choices
   on this individual: the check replays it. *)
From Coq Require Import ZArith List Bool Arith.
Local Ltac c02_scan0 := idtac. (* separates the Require lines for the dependency scanner of lib/vv.py *)
From VV Require Import Base.F64 Mep.Genome Mep.Draws Mep.OpsDefs Mep.OpsProofs Mep.CseProofs Mep.CseAnyDefs.
Local Ltac c02_scan1 := idtac.
Import ListNotations.

Definition w_verdict (o : option genome) : bool :=
  match o with
  | Some g' => negb (ind_ok_b w_ss 1 g') &&
               match cell g' 2 1 with Some ge => list_eqb Nat.eqb (g_args ge) [2] | None => false end
  | None => false
  end.

Lemma w_verdict_inv o : w_verdict o = true ->
  exists g', o = Some g' /\ ind_ok_b w_ss 1 g' = false /\ exists ge, cell g' 2 1 = Some ge /\ g_args ge = [2].
Proof.
  destruct o as [g'|]; [|discriminate]. cbn [w_verdict]. intros H. apply andb_true_iff in H. destruct H as [H1 H2].
  exists g'. split; [reflexivity|]. split; [apply negb_true_iff; exact H1|].
  destruct (cell g' 2 1) as [ge|]; [|discriminate]. exists ge. split; [reflexivity|].
  apply list_eqb_nat_eq. exact H2.
Qed.

Lemma w_inputs_ok : wf_sset_b w_ss = true /\ ind_ok_b w_ss 1 w_genome = true.
Proof. vm_compute. split; reflexivity. Qed.
Lemma w_old_verdict : w_verdict (cse_genome_any gene_cmp_old w_genome w_choices) = true.
Proof. vm_compute. reflexivity. Qed.

Lemma cse_old_witness :
  wf_sset_b w_ss = true /\ ind_ok_b w_ss 1 w_genome = true /\
  exists g', cse_genome_any gene_cmp_old w_genome w_choices = Some g' /\
             ind_ok_b w_ss 1 g' = false /\
             exists ge, cell g' 2 1 = Some ge /\ g_args ge = [2].
Proof.
  destruct w_inputs_ok as [H1 H2]. split; [exact H1|]. split; [exact H2|].
  apply w_verdict_inv. exact w_old_verdict.
Qed.

(* on the same individual the repaired cse() keeps [2,1] G 3 *)
Definition w_new_verdict_b : bool :=
  match cse_genome gene_cmp_mem w_genome with
  | Some g' => ind_ok_b w_ss 1 g' &&
               match cell g' 2 1 with Some ge => list_eqb Nat.eqb (g_args ge) [3] | None => false end
  | None => false
  end.
Lemma w_new_verdict : w_new_verdict_b = true.
Proof. vm_compute. reflexivity. Qed.
