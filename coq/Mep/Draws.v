(* Randomness as an oracle stream (kernel/random.h).

   Every stochastic model function has type [M A = list draw -> option (A *
   list draw)] and consumes draws in exactly the order in which the C++ code
   calls random::between / sup / element / boolean.  A draw records what hook
   H1 logs: the kind, the bounds the caller passed and the value returned.

   The primitives below check (a) that the next draw has the kind and the
   bounds the model expects at this point (otherwise the stream does not
   belong to this execution: [None]) and (b) the CONTRACT of the C++ function
   (H_draws of DESIGN section 6):  between(lo,hi) requires lo < hi and returns
   lo <= v < hi;  boolean(0) = false, boolean(1) = true.  A stream that breaks
   the contract, or a call whose precondition is violated (between(1,1): an
   empty range is undefined behaviour for std::uniform_int_distribution),
   gives [None].  Theorems of the form "forall ds, op ds = Some r -> ..." hence
   quantify over every draw stream that the real generator can produce,
   whatever the seed and the engine.  Definitions only. *)
From Coq Require Import ZArith List Bool.
Import ListNotations.
Local Open Scope Z_scope.

Inductive draw :=
| DInt (lo hi v : Z)        (* random::between<integral>(lo, hi) returned v *)
| DBool (p : Z) (v : bool)  (* random::boolean(p) returned v; p = bit pattern of the double *)
| DReal (bits : Z).         (* a real-valued draw (ephemeral constants); value as bit pattern *)

Definition zero_bits : Z := 0.
Definition half_bits : Z := 0x3FE0000000000000.
Definition one_bits  : Z := 0x3FF0000000000000.

Definition valid_draw_b (d : draw) : bool :=
  match d with
  | DInt lo hi v => (lo <=? v) && (v <? hi)
  | DBool p v => (if p =? zero_bits then negb v else true) && (if p =? one_bits then v else true)
  | DReal _ => true
  end.
Definition valid_draws (ds : list draw) : Prop := Forall (fun d => valid_draw_b d = true) ds.

Definition M (A : Type) : Type := list draw -> option (A * list draw).
Definition ret {A} (a : A) : M A := fun ds => Some (a, ds).
Definition fail {A} : M A := fun _ => None.
Definition bind {A B} (m : M A) (k : A -> M B) : M B :=
  fun ds => match m ds with Some (a, ds') => k a ds' | None => None end.
Notation "x <- m ;; k" := (bind m (fun x => k)) (at level 61, m at next level, right associativity).

(* random::between<T>(lo, hi), T integral; random::sup(n) = between(0, n) *)
Definition between (lo hi : Z) : M Z := fun ds =>
  match ds with
  | DInt lo' hi' v :: r =>
      if (lo =? lo') && (hi =? hi') && (lo <? hi) && valid_draw_b (DInt lo' hi' v)
      then Some (v, r) else None
  | _ => None
  end.

(* random::boolean(p) *)
Definition boolean (p : Z) : M bool := fun ds =>
  match ds with
  | DBool p' v :: r => if (p =? p') && valid_draw_b (DBool p' v) then Some (v, r) else None
  | _ => None
  end.

(* monadic iteration in list order *)
Fixpoint foldM {S A} (f : S -> A -> M S) (l : list A) (s : S) : M S :=
  match l with
  | [] => ret s
  | a :: r => s' <- f s a ;; foldM f r s'
  end.
