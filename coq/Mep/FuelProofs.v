(* C02 -- the fuel of the model loops is sufficient: on a well-formed genome
   the iterator walk, tree crossover's copy, random_locus's exon loop and cse
   always return a result, and the mutation loop does not depend on its fuel;
   so [None] from an operator only ever means that the draw stream does not
   fit (or breaks the contract of the generator), never exhaustion. *)
From Coq Require Import ZArith List Bool Arith Lia ZifyBool.
Local Ltac c02_scan0 := idtac. (* separates the Require lines for the dependency scanner of lib/vv.py *)
From VV Require Import Base.F64 Mep.Genome Mep.Draws Mep.OpsDefs Mep.OpsProofs Mep.CseProofs.
Local Ltac c02_scan1 := idtac.
Import ListNotations.
Local Open Scope nat_scope.

(* ------------------------------------------------- the order on loci *)
Definition llt (a b : locus) : Prop := locus_ltb a b = true.

Lemma locus_ltb_iff a b : locus_ltb a b = true <->
  l_index a < l_index b \/ (l_index a = l_index b /\ l_cat a < l_cat b).
Proof. unfold locus_ltb. rewrite orb_true_iff, andb_true_iff, !Nat.ltb_lt, Nat.eqb_eq. tauto. Qed.
Lemma locus_eqb_iff a b : locus_eqb a b = true <-> a = b.
Proof.
  unfold locus_eqb. rewrite andb_true_iff, !Nat.eqb_eq. destruct a, b. cbn. split; [intros [-> ->]; reflexivity|].
  intros H. inversion H. auto.
Qed.
Lemma llt_trans a b c : llt a b -> llt b c -> llt a c.
Proof. unfold llt. rewrite !locus_ltb_iff. lia. Qed.
Lemma llt_total a b : locus_ltb a b = false -> locus_eqb a b = false -> llt b a.
Proof.
  unfold llt. intros H1 H2. rewrite locus_ltb_iff.
  assert (N1 : ~ (l_index a < l_index b \/ (l_index a = l_index b /\ l_cat a < l_cat b)))
    by (rewrite <- locus_ltb_iff; congruence).
  assert (N2 : a <> b) by (rewrite <- locus_eqb_iff; congruence).
  destruct a, b. cbn in *. assert (~ (l_index = l_index0 /\ l_cat = l_cat0)) by (intros [-> ->]; auto). lia.
Qed.

Fixpoint sorted (l : list locus) : Prop :=
  match l with [] => True | x :: r => Forall (llt x) r /\ sorted r end.

Lemma set_insert_sorted l s : sorted s -> sorted (set_insert l s).
Proof.
  induction s as [|x s IH]; cbn [set_insert sorted]; [intros _; split; [constructor|exact I]|].
  intros [Hx Hs]. destruct (locus_ltb l x) eqn:E1.
  - cbn [sorted]. split; [|split; assumption]. constructor; [exact E1|].
    eapply Forall_impl; [|exact Hx]. intros y Hy. eapply llt_trans; [exact E1|exact Hy].
  - destruct (locus_eqb l x) eqn:E2; [cbn [sorted]; split; assumption|].
    cbn [sorted]. split; [|apply IH; exact Hs].
    apply Forall_forall. intros y Hy. apply set_insert_in in Hy. destruct Hy as [->|Hy].
    + apply llt_total; assumption.
    + rewrite Forall_forall in Hx. apply Hx. exact Hy.
Qed.
Lemma set_union_sorted ls : forall s, sorted s -> sorted (set_union ls s).
Proof.
  unfold set_union. induction ls as [|l ls IH]; intros s Hs; cbn [fold_left]; [exact Hs|].
  apply IH. apply set_insert_sorted. exact Hs.
Qed.

(* ------------------------------------------------------- the measure *)
Section Fuel.
Variable ss : sset.
Hypothesis Hss : wf_sset_b ss = true.
Variable patch : nat.

Definition pos (g : genome) (l : locus) : nat := l_index l * cats g + l_cat l.
Definition todo (g : genome) (loci : list locus) : nat :=
  match loci with [] => 0 | l :: _ => rows g * cats g - pos g l end.

Lemma pos_lt g a b : l_cat a < cats g -> l_cat b < cats g -> llt a b -> pos g a < pos g b.
Proof. unfold llt, pos. rewrite locus_ltb_iff. nia. Qed.
Lemma pos_bound g l : inside g l -> pos g l < rows g * cats g.
Proof. unfold inside, pos. nia. Qed.

(* one step of the iterator: the worklist stays sorted and inside, and its
   head moves strictly forward *)
Lemma worklist_step g l rest ge :
  ind_ok_b ss patch g = true -> sorted (l :: rest) -> Forall (inside g) (l :: rest) ->
  gene_at g l = Some ge ->
  let loci' := set_union (arguments ge) rest in
  sorted loci' /\ Forall (inside g) loci' /\ S (todo g loci') <= todo g (l :: rest).
Proof.
  intros Hg [Hl Hs] Hin Hge loci'. inversion Hin as [|? ? Hil Hir]. subst.
  apply gene_at_inside in Hge. destruct Hge as (C1 & C2 & C3).
  pose proof (proj1 (ind_ok_iff _ _ _) Hg) as (_ & _ & Hcells & _).
  destruct (Hcells _ _ C1 C2) as (ge0 & Hge0 & Hok). rewrite C3 in Hge0. inversion Hge0. subst ge0.
  assert (Hall : forall x, In x loci' -> inside g x /\ llt l x).
  { intros x Hx. apply set_union_in in Hx. destruct Hx as [Hx|Hx].
    - destruct (gene_ok_args ss Hss _ _ _ _ _ _ _ Hok Hx) as [[A1 A2] A3]. split; [split; assumption|].
      unfold llt. rewrite locus_ltb_iff. left. exact A1.
    - rewrite Forall_forall in Hir, Hl. auto. }
  split; [apply set_union_sorted; exact Hs|]. split; [apply Forall_forall; intros x Hx; apply Hall; exact Hx|].
  unfold todo. destruct loci' as [|x r] eqn:El; [pose proof (pos_bound g l Hil); lia|].
  destruct (Hall x (or_introl eq_refl)) as [[X1 X2] X3].
  pose proof (pos_lt g l x C2 X2 X3) as Q1. pose proof (pos_bound g x (conj X1 X2)) as Q2.
  clear - Q1 Q2. remember (rows g * cats g) as N. remember (pos g l) as a. remember (pos g x) as b. clear - Q1 Q2. lia.
Qed.

(* ---------------------------------------------- begin() .. end() walk *)
Lemma walk_total g : ind_ok_b ss patch g = true -> forall fuel loci,
  sorted loci -> Forall (inside g) loci -> S (todo g loci) <= fuel ->
  exists w, walk fuel g loci = Some w /\ Forall (inside g) w.
Proof.
  intros Hg. induction fuel as [|f IH]; intros loci Hs Hin Hf; [lia|]. cbn [walk].
  destruct loci as [|l rest]; [exists []; split; [reflexivity|constructor]|].
  inversion Hin as [|? ? Hil Hir]. subst.
  destruct (gene_at g l) as [ge|] eqn:Ege.
  - destruct (worklist_step g l rest ge Hg Hs Hin Ege) as (S1 & S2 & S3).
    destruct (IH _ S1 S2) as (w & Hw & Hwi); [lia|]. rewrite Hw. exists (l :: w). split; [reflexivity|].
    constructor; assumption.
  - exfalso. unfold gene_at in Ege. destruct Hil as [I1 I2].
    replace (Nat.ltb (l_index l) (rows g)) with true in Ege by (symmetry; apply Nat.ltb_lt; exact I1).
    replace (Nat.ltb (l_cat l) (cats g)) with true in Ege by (symmetry; apply Nat.ltb_lt; exact I2).
    cbn [andb] in Ege. pose proof (proj1 (ind_ok_iff _ _ _) Hg) as (_ & _ & Hcells & _).
    destruct (Hcells _ _ I1 I2) as (ge & Hge & _). congruence.
Qed.

Lemma start_ok g : ind_ok_b ss patch g = true ->
  sorted [best g] /\ Forall (inside g) [best g] /\ S (todo g [best g]) <= S (rows g * cats g).
Proof.
  intros Hg. pose proof (best_inside ss patch g Hg) as Hb. cbn [sorted todo].
  split; [split; [constructor|exact I]|]. split; [constructor; [exact Hb|constructor]|].
  apply le_n_S. apply Nat.le_sub_l.
Qed.

(* the walk of a well-formed individual terminates within the fuel and never
   leaves the genome; active_symbols() and blocks() are defined *)
Lemma active_loci_total g : ind_ok_b ss patch g = true ->
  exists w, active_loci g = Some w /\ Forall (inside g) w.
Proof.
  intros Hg. destruct (start_ok g Hg) as (S1 & S2 & S3). unfold active_loci.
  apply walk_total; assumption.
Qed.
Lemma blocks_total g : ind_ok_b ss patch g = true ->
  exists b, blocks g = Some b /\ Forall (inside g) b /\
            Forall (fun l => exists ge, gene_at g l = Some ge /\ is_terminal (g_sym ge) = false) b.
Proof.
  intros Hg. destruct (active_loci_total g Hg) as (w & Hw & Hi). unfold blocks. rewrite Hw. cbn [option_map].
  eexists. split; [reflexivity|]. split.
  - apply Forall_forall. intros l Hl. apply filter_In in Hl. rewrite Forall_forall in Hi. apply Hi. apply Hl.
  - apply Forall_forall. intros l Hl. apply filter_In in Hl. destruct Hl as [_ Hl].
    destruct (gene_at g l) as [ge|]; [|discriminate]. exists ge. split; [reflexivity|].
    apply negb_true_iff. exact Hl.
Qed.

(* ----------------------------------------------------- mutation loop *)
Lemma bind_ext {A B} (m : M A) (k1 k2 : A -> M B) ds :
  (forall a ds', m ds = Some (a, ds') -> k1 a ds' = k2 a ds') -> bind m k1 ds = bind m k2 ds.
Proof. intros H. unfold bind. destruct (m ds) as [[a ds']|]; [apply H; reflexivity|reflexivity]. Qed.

Lemma mut_loop_fuel pgm : forall f1 f2 g loci n ds,
  ind_ok_b ss patch g = true -> sorted loci -> Forall (inside g) loci ->
  S (todo g loci) <= f1 -> S (todo g loci) <= f2 ->
  mut_loop f1 ss patch pgm g loci n ds = mut_loop f2 ss patch pgm g loci n ds.
Proof.
  induction f1 as [|f1 IH]; intros f2 g loci n ds Hg Hs Hin H1 H2; [lia|].
  destruct f2 as [|f2]; [lia|]. cbn [mut_loop]. destruct loci as [|l rest]; [reflexivity|].
  inversion Hin as [|? ? Hil Hir]. subst.
  apply bind_ext. intros b ds1 _. apply bind_ext. intros [g' n'] ds2 Egn. cbn [fst snd].
  assert (Hstep : ind_ok_b ss patch g' = true /\ rows g' = rows g /\ cats g' = cats g).
  { destruct b.
    - mbind Egn. destruct (gene_at g l) as [old|]; [|discriminate].
      destruct (gene_eqb old a); mret Egn; inversion Egn; subst; auto.
      split; [|auto]. destruct Hil as [I1 I2]. apply set_cell_ok; auto.
      pose proof (proj1 (ind_ok_iff _ _ _) Hg) as (_ & Hc & _). rewrite Hc.
      eapply new_gene_ok; eauto. rewrite <- Hc. exact I2.
    - mret Egn. inversion Egn. subst. auto. }
  destruct Hstep as (G1 & G2 & G3).
  destruct (gene_at g' l) as [cur|] eqn:Ecur; [|reflexivity].
  assert (Hin' : Forall (inside g') (l :: rest)).
  { eapply Forall_impl; [|exact Hin]. unfold inside. intros x. rewrite G2, G3. auto. }
  destruct (worklist_step g' l rest cur G1 Hs Hin' Ecur) as (S1 & S2 & S3).
  assert (Ht : todo g' (l :: rest) = todo g (l :: rest)) by (unfold todo, pos; rewrite G2, G3; reflexivity).
  apply IH; auto; lia.
Qed.

(* mutation does not depend on its fuel: any larger fuel gives the same result *)
Lemma mutation_fuel_irrelevant pgm i ds fuel :
  ind_ok_b ss patch (i_gen i) = true -> S (rows (i_gen i) * cats (i_gen i)) <= fuel ->
  mut_loop fuel ss patch pgm (i_gen i) [best (i_gen i)] 0 ds =
  mut_loop (S (rows (i_gen i) * cats (i_gen i))) ss patch pgm (i_gen i) [best (i_gen i)] 0 ds.
Proof.
  intros Hg Hf. destruct (start_ok _ Hg) as (S1 & S2 & S3). apply mut_loop_fuel; auto; lia.
Qed.

(* ------------------------------------------------- tree crossover's copy *)
Lemma copy_tree_total from : ind_ok_b ss patch from = true -> forall fuel to l,
  inside from l -> rows from - l_index l <= fuel -> exists t, copy_tree fuel from to l = Some t.
Proof.
  intros Hg. pose proof (proj1 (ind_ok_iff _ _ _) Hg) as (_ & _ & Hcells & _).
  induction fuel as [|f IH]; intros to l [I1 I2] Hf; [lia|]. cbn [copy_tree].
  unfold gene_at. replace (Nat.ltb (l_index l) (rows from)) with true by (symmetry; apply Nat.ltb_lt; exact I1).
  replace (Nat.ltb (l_cat l) (cats from)) with true by (symmetry; apply Nat.ltb_lt; exact I2). cbn [andb].
  destruct (Hcells _ _ I1 I2) as (ge & -> & Hok).
  assert (Hargs : Forall (fun al => inside from al /\ rows from - l_index al <= f) (arguments ge)).
  { apply Forall_forall. intros al Hal. destruct (gene_ok_args ss Hss _ _ _ _ _ _ _ Hok Hal) as [[A1 A2] A3].
    split; [split; assumption|lia]. }
  generalize (set_cell to (l_index l) (l_cat l) ge). induction (arguments ge) as [|al als IHa]; intros t0; cbn [fold_left].
  - eauto.
  - inversion Hargs as [|? ? [Ha1 Ha2] Hrest]. subst. destruct (IH t0 al Ha1 Ha2) as (t1 & ->). apply IHa. exact Hrest.
Qed.

(* ------------------------------------------------ random_locus's exons *)
Lemma exons_total g : ind_ok_b ss patch g = true -> forall fuel s cur,
  Forall (inside g) s -> inside g cur -> rows g * cats g - pos g cur <= fuel ->
  exists ex, exons_loop fuel g s cur = Some ex /\ Forall (inside g) ex /\ (In cur s -> ex <> []).
Proof.
  intros Hg. pose proof (proj1 (ind_ok_iff _ _ _) Hg) as (_ & _ & Hcells & _).
  induction fuel as [|f IH]; intros s cur Hs Hc Hf; [pose proof (pos_bound g cur Hc); lia|].
  cbn [exons_loop]. destruct Hc as [I1 I2].
  unfold gene_at. replace (Nat.ltb (l_index cur) (rows g)) with true by (symmetry; apply Nat.ltb_lt; exact I1).
  replace (Nat.ltb (l_cat cur) (cats g)) with true by (symmetry; apply Nat.ltb_lt; exact I2). cbn [andb].
  destruct (Hcells _ _ I1 I2) as (ge & -> & Hok).
  assert (Hs' : Forall (inside g) (set_union (arguments ge) s)).
  { apply Forall_forall. intros x Hx. apply set_union_in in Hx. destruct Hx as [Hx|Hx].
    - destruct (gene_ok_args ss Hss _ _ _ _ _ _ _ Hok Hx) as [[A1 A2] A3]. split; assumption.
    - rewrite Forall_forall in Hs. auto. }
  destruct (next_after cur (set_union (arguments ge) s)) as [nx|] eqn:En.
  - unfold next_after in En. apply find_some in En. destruct En as [En1 En2].
    rewrite Forall_forall in Hs'. pose proof (Hs' nx En1) as Hnx.
    pose proof (pos_lt g cur nx I2 (proj2 Hnx) En2). pose proof (pos_bound g nx Hnx).
    destruct (IH (set_union (arguments ge) s) nx) as (ex & Hex & Hei & Hne);
      [apply Forall_forall; exact Hs'|exact Hnx|lia|].
    exists ex. split; [exact Hex|]. split; [exact Hei|]. intros _. apply Hne. exact En1.
  - eexists. split; [reflexivity|]. split; [exact Hs'|].
    intros Hin Hnil. assert (In cur (set_union (arguments ge) s)) as Hc.
    { clear - Hin. unfold set_union. revert s Hin. induction (arguments ge) as [|a l IHl]; intros s Hin; cbn [fold_left]; [exact Hin|].
      apply IHl. clear IHl. induction s as [|x s IHs]; cbn [set_insert]; [destruct Hin|].
      destruct (locus_ltb a x); [right; exact Hin|]. destruct (locus_eqb a x); [exact Hin|].
      destruct Hin as [->|Hin]; [left; reflexivity|right; apply IHs; exact Hin]. }
    rewrite Hnil in Hc. destruct Hc.
Qed.

(* random_locus only fails on its draw *)
Lemma random_locus_exons g : ind_ok_b ss patch g = true ->
  exists ex, exons_loop (S (rows g * cats g)) g [best g] (best g) = Some ex /\ ex <> [] /\ Forall (inside g) ex.
Proof.
  intros Hg. pose proof (best_inside ss patch g Hg) as Hb.
  destruct (exons_total g Hg (S (rows g * cats g)) [best g] (best g)) as (ex & H1 & H2 & H3);
    [constructor; [exact Hb|constructor]|exact Hb|lia|].
  exists ex. split; [exact H1|]. split; [apply H3; left; reflexivity|exact H2].
Qed.
End Fuel.
