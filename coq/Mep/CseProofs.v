(* C02 -- common subexpression elimination keeps individuals well-formed
   when the comparator of its std::map is a strict weak ordering (the
   repaired gene_cmp); the pinned gene_cmp is not one. *)
From Coq Require Import ZArith List Bool Arith Lia ZifyBool.
Local Ltac c02_scan0 := idtac. (* separates the Require lines for the dependency scanner of lib/vv.py *)
From VV Require Import Base.F64 Mep.Genome Mep.Draws Mep.OpsDefs Mep.OpsProofs.
Local Ltac c02_scan1 := idtac.
Import ListNotations.
Local Open Scope nat_scope.

Lemma mapO_Forall2 {A B} (f : A -> option B) : forall l l', mapO f l = Some l' ->
  Forall2 (fun a b => f a = Some b) l l'.
Proof.
  induction l as [|a l IH]; intros l' H; cbn [mapO] in H.
  - inversion H. constructor.
  - destruct (f a) as [b|] eqn:Ea; [|discriminate]. destruct (mapO f l) as [bs|]; [|discriminate].
    inversion H. subst. constructor; auto.
Qed.

Lemma Forall2_len {A B} (P : A -> B -> Prop) l l' : Forall2 P l l' -> length l = length l'.
Proof. induction 1; cbn; congruence. Qed.
Lemma Forall2_in_r {A B} (P : A -> B -> Prop) l l' b : Forall2 P l l' -> In b l' -> exists a, In a l /\ P a b.
Proof.
  induction 1 as [|x y l l' Hxy HF IH]; intros Hin; [destruct Hin|].
  destruct Hin as [->|Hin]; [exists x; split; [left; reflexivity|exact Hxy]|].
  destruct (IH Hin) as (a & Ha & Hp). exists a. split; [right; exact Ha|exact Hp].
Qed.

Lemma foldO_app {S A} (f : S -> A -> option S) l1 : forall l2 s,
  foldO f (l1 ++ l2) s = match foldO f l1 s with Some s' => foldO f l2 s' | None => None end.
Proof.
  induction l1 as [|a l1 IH]; intros l2 s; cbn [foldO app]; [reflexivity|].
  destruct (f s a); [apply IH|reflexivity].
Qed.

Lemma cse_loci_S n C : cse_loci (S n) C = map (fun c => (n, c)) (seq 0 C) ++ cse_loci n C.
Proof. unfold cse_loci. rewrite seq_S, rev_unit. cbn [plus flat_map]. reflexivity. Qed.

Section CseGeneric.
Variable cmp : gene -> gene -> bool.
(* the class of keys on which cmp is assumed to behave: depends on the symbol
   and the parameter only (cse never changes them) *)
Variable K0 : sym -> f64 -> Prop.
Definition K (k : gene) : Prop := K0 (g_sym k) (g_par k).
Hypothesis equiv_refl : forall k, K k -> gene_equiv cmp k k = true.
Hypothesis equiv_trans : forall a b c, K a -> K b -> K c ->
  gene_equiv cmp a b = true -> gene_equiv cmp b c = true -> gene_equiv cmp a c = true.

Lemma equiv_sym a b : gene_equiv cmp a b = gene_equiv cmp b a.
Proof. unfold gene_equiv. apply andb_comm. Qed.

Lemma kfind_some k m lw : kfind cmp k m = Some lw ->
  exists k', In (k', lw) m /\ gene_equiv cmp k k' = true.
Proof.
  unfold kfind. destruct (find (fun e => gene_equiv cmp k (fst e)) m) as [[k' l']|] eqn:E; [|discriminate].
  intros H. inversion H. subst. apply find_some in E. destruct E as [E1 E2]. exists k'. auto.
Qed.

Lemma kfind_none k m : kfind cmp k m = None -> forall k' lw, In (k', lw) m -> gene_equiv cmp k k' = false.
Proof.
  unfold kfind. destruct (find (fun e => gene_equiv cmp k (fst e)) m) eqn:E; [discriminate|].
  intros _ k' lw Hin. apply (find_none _ _ E (k', lw) Hin).
Qed.

Variable ss : sset.
Hypothesis Hss : wf_sset_b ss = true.
Variable patch R C : nat.

Definition processed (n c r' c' : nat) : Prop := n <= r' \/ (S r' = n /\ c' < c).

Definition CInv (n c : nat) (st : genome * kmap) : Prop :=
  let g := fst st in let m := snd st in
  ind_ok_b ss patch g = true /\ rows g = R /\ cats g = C /\
  (forall r' c' ge, r' < R -> c' < C -> cell g r' c' = Some ge -> K ge) /\
  (forall k lw, In (k, lw) m -> n <= S (l_index lw) /\ l_index lw < R /\ K k) /\
  (forall r' c', r' < R -> c' < C -> processed n c r' c' ->
     exists ge lw, cell g r' c' = Some ge /\ kfind cmp ge m = Some lw /\ r' <= l_index lw).

Lemma arguments_length ge : length (g_args ge) = arity (g_sym ge) -> length (arguments ge) = length (g_args ge).
Proof. intros H. unfold arguments. rewrite map_length, combine_length. unfold arity in H. lia. Qed.

Lemma gene_ok_parts r c ge : gene_ok_b ss R C patch r c ge = true ->
  length (g_args ge) = arity (g_sym ge).
Proof. intros H. apply gene_ok_inv in H. apply H. Qed.

Lemma gene_ok_args_replace r c ge args' :
  gene_ok_b ss R C patch r c ge = true -> length args' = length (g_args ge) ->
  Forall (fun a => r < a < R) args' ->
  gene_ok_b ss R C patch r c {| g_sym := g_sym ge; g_par := g_par ge; g_args := args' |} = true.
Proof.
  unfold gene_ok_b. cbn [g_sym g_args g_par]. rewrite !andb_true_iff.
  intros [[[[[[H1 H2] H3] _] H5] H6] H7] Hl Hf. rewrite Hl. repeat split; auto.
  apply forallb_forall. intros a Ha. rewrite Forall_forall in Hf. specialize (Hf a Ha).
  apply andb_true_iff. split; apply Nat.ltb_lt; lia.
Qed.

Lemma cse_step r c st st' : r < R -> c < C ->
  CInv (S r) c st -> cse_cell cmp st (r, c) = Some st' -> CInv (S r) (S c) st'.
Proof.
  destruct st as [g m]. intros Hr Hc (I1 & I2 & I3 & I4 & I5 & I6) H. cbn [fst snd] in *.
  unfold cse_cell in H. cbn [fst snd] in H.
  destruct (cell g r c) as [ge|] eqn:Ecell; [|discriminate].
  destruct (mapO (cse_arg cmp g m) (arguments ge)) as [args'|] eqn:Eargs; [|discriminate].
  inversion H. subst st'. clear H. cbn [fst snd].
  pose proof (proj1 (ind_ok_iff _ _ _) I1) as (P1 & P2 & P3 & P4).
  destruct (P3 r c) as (ge0 & Hge0 & Hok); [lia|lia|]. rewrite Ecell in Hge0. inversion Hge0. subst ge0. clear Hge0.
  rewrite I2, I3 in Hok.
  apply mapO_Forall2 in Eargs.
  assert (Hlen : length args' = length (g_args ge)).
  { rewrite <- (Forall2_len _ _ _ Eargs). apply arguments_length. eapply gene_ok_parts. exact Hok. }
  assert (Hargs : Forall (fun a => r < a < R) args').
  { apply Forall_forall. intros a' Ha'. destruct (Forall2_in_r _ _ _ _ Eargs Ha') as (al & Hal & Hf).
    destruct (gene_ok_args ss Hss _ _ _ _ _ _ _ Hok Hal) as [[B1 B2] B3].
    unfold cse_arg in Hf. destruct (gene_at g al) as [ga|] eqn:Ega; [|discriminate].
    apply gene_at_inside in Ega. destruct Ega as (_ & _ & Ega).
    destruct (I6 (l_index al) (l_cat al) B2 B3) as (ge2 & lw2 & G1 & G2 & G3); [left; lia|].
    rewrite Ega in G1. inversion G1. subst ge2. rewrite G2 in Hf. inversion Hf. subst a'.
    apply kfind_some in G2. destruct G2 as (k' & Hin & _). destruct (I5 _ _ Hin) as (_ & J & _). lia. }
  set (ge' := {| g_sym := g_sym ge; g_par := g_par ge; g_args := args' |}).
  assert (Hok' : gene_ok_b ss R C patch r c ge' = true) by (apply gene_ok_args_replace; assumption).
  assert (HK : K ge') by (apply (I4 r c ge Hr Hc Ecell)).
  assert (Hg' : ind_ok_b ss patch (set_cell g r c ge') = true).
  { apply set_cell_ok; try lia; auto. rewrite I2, I3. exact Hok'. }
  unfold CInv. cbn [fst snd]. split; [exact Hg'|]. split; [exact I2|]. split; [exact I3|].
  split; [|split].
  - (* cells are good keys *)
    intros r' c' ge1 Hr' Hc'. cbn [set_cell put_cell cell].
    destruct (Nat.eqb r' r && Nat.eqb c' c) eqn:E.
    + intros He. inversion He. subst. exact HK.
    + apply I4; assumption.
  - (* entries *)
    intros k lw Hin. unfold kemplace in Hin. destruct (kfind cmp ge' m) eqn:Ef.
    + apply I5. exact Hin.
    + destruct Hin as [Hin|Hin]; [|apply I5; exact Hin]. inversion Hin. subst. cbn [l_index]. repeat split; auto.
  - (* processed cells are found at or below their row *)
    intros r' c' Hr' Hc' Hp. cbn [set_cell put_cell cell].
    destruct (Nat.eqb r' r && Nat.eqb c' c) eqn:E.
    + apply andb_true_iff in E. destruct E as [E1 E2]. apply Nat.eqb_eq in E1, E2. subst r' c'.
      exists ge'. unfold kemplace. destruct (kfind cmp ge' m) as [lw|] eqn:Ef.
      * exists lw. split; [reflexivity|]. split; [exact Ef|].
        apply kfind_some in Ef. destruct Ef as (k' & Hin & _). destruct (I5 _ _ Hin) as (J & _). lia.
      * exists {| l_index := r; l_cat := c |}. split; [reflexivity|]. split; [|cbn; lia].
        unfold kfind. cbn [find fst snd]. rewrite (equiv_refl _ HK). reflexivity.
    + assert (Hp' : processed (S r) c r' c').
      { destruct Hp as [Hp|[Hp1 Hp2]]; [left; exact Hp|]. right. split; [exact Hp1|].
        assert (r' = r) by lia. subst r'. rewrite Nat.eqb_refl in E. cbn [andb] in E.
        apply Nat.eqb_neq in E. lia. }
      destruct (I6 r' c' Hr' Hc' Hp') as (ge2 & lw2 & G1 & G2 & G3).
      exists ge2. unfold kemplace. destruct (kfind cmp ge' m) as [lw|] eqn:Ef.
      * exists lw2. auto.
      * exists lw2. split; [exact G1|]. split; [|exact G3].
        unfold kfind. cbn [find fst snd].
        destruct (gene_equiv cmp ge2 ge') eqn:Eq; [|exact G2].
        exfalso. apply kfind_some in G2. destruct G2 as (k2 & Hin2 & Hq2).
        pose proof (kfind_none _ _ Ef _ _ Hin2) as Hn.
        destruct (I5 _ _ Hin2) as (_ & _ & HK2).
        assert (HKge2 : K ge2) by (apply (I4 r' c' ge2 Hr' Hc' G1)).
        rewrite equiv_sym in Eq. rewrite (equiv_trans ge' ge2 k2 HK HKge2 HK2 Eq Hq2) in Hn. discriminate.
Qed.

Lemma cse_row r : r < R -> forall k c0 st st', c0 + k = C ->
  CInv (S r) c0 st -> foldO (cse_cell cmp) (map (fun c => (r, c)) (seq c0 k)) st = Some st' ->
  CInv (S r) C st'.
Proof.
  intros Hr. induction k as [|k IH]; intros c0 st st' Hk Hinv H; cbn [seq map foldO] in H.
  - inversion H. subst. replace C with c0 by lia. exact Hinv.
  - destruct (cse_cell cmp st (r, c0)) as [st1|] eqn:E; [|discriminate].
    eapply (IH (S c0)); [lia| |exact H]. eapply cse_step; [exact Hr|lia|exact Hinv|exact E].
Qed.

Lemma cse_rows : forall n st st', n <= R ->
  CInv n 0 st -> foldO (cse_cell cmp) (cse_loci n C) st = Some st' -> ind_ok_b ss patch (fst st') = true.
Proof.
  induction n as [|n IH]; intros st st' Hn Hinv H.
  - cbn in H. inversion H. subst. apply Hinv.
  - rewrite cse_loci_S, foldO_app in H.
    destruct (foldO (cse_cell cmp) (map (fun c => (n, c)) (seq 0 C)) st) as [st1|] eqn:E; [|discriminate].
    eapply (IH st1); [lia| |exact H].
    pose proof (cse_row n Hn C 0 st st1 (Nat.add_0_l C) Hinv E) as (I1 & I2 & I3 & I4 & I5 & I6).
    unfold CInv. repeat split; auto.
    + destruct (I5 _ _ H0) as (J & _). lia.
    + apply (I5 _ _ H0).
    + apply (I5 _ _ H0).
    + intros r' c' Hr' Hc' Hp. apply I6; auto. destruct Hp as [Hp|[_ Hp]]; [|lia].
      unfold processed. destruct (Nat.eq_dec r' n); [right; split; lia|left; lia].
Qed.

Lemma mapO_total {A B} (f : A -> option B) l :
  (forall a, In a l -> exists b, f a = Some b) -> exists l', mapO f l = Some l'.
Proof.
  induction l as [|a l IH]; intros H; cbn [mapO]; [eauto|].
  destruct (H a (or_introl eq_refl)) as [b ->]. destruct IH as [l' ->]; [intros x Hx; apply H; right; exact Hx|]. eauto.
Qed.

(* cse never gets stuck on a well-formed genome *)
Lemma cse_cell_some r c st : r < R -> c < C -> CInv (S r) c st -> exists st', cse_cell cmp st (r, c) = Some st'.
Proof.
  destruct st as [g m]. intros Hr Hc (I1 & I2 & I3 & _). cbn [fst snd] in *. unfold cse_cell. cbn [fst snd].
  pose proof (proj1 (ind_ok_iff _ _ _) I1) as (_ & _ & P3 & _).
  destruct (P3 r c) as (ge & -> & Hok); [lia|lia|]. rewrite I2, I3 in Hok.
  destruct (mapO_total (cse_arg cmp g m) (arguments ge)) as [args' ->]; [|eauto].
  intros al Hal. destruct (gene_ok_args ss Hss _ _ _ _ _ _ _ Hok Hal) as [[B1 B2] B3].
  unfold cse_arg, gene_at. rewrite I2, I3.
  replace (Nat.ltb (l_index al) R) with true by (symmetry; apply Nat.ltb_lt; exact B2).
  replace (Nat.ltb (l_cat al) C) with true by (symmetry; apply Nat.ltb_lt; exact B3). cbn [andb].
  destruct (P3 (l_index al) (l_cat al)) as (ga & -> & _); [lia|lia|].
  destruct (kfind cmp ga m); eauto.
Qed.

Lemma cse_row_some r : r < R -> forall k c0 st, c0 + k = C -> CInv (S r) c0 st ->
  exists st', foldO (cse_cell cmp) (map (fun c => (r, c)) (seq c0 k)) st = Some st'.
Proof.
  intros Hr. induction k as [|k IH]; intros c0 st Hk Hinv; cbn [seq map foldO]; [eauto|].
  destruct (cse_cell_some r c0 st Hr) as [st1 E]; [lia|exact Hinv|]. rewrite E.
  apply (IH (S c0)); [lia|]. eapply cse_step; [exact Hr|lia|exact Hinv|exact E].
Qed.

Lemma cse_rows_some : forall n st, n <= R -> CInv n 0 st ->
  exists st', foldO (cse_cell cmp) (cse_loci n C) st = Some st'.
Proof.
  induction n as [|n IH]; intros st Hn Hinv; [cbn; eauto|].
  rewrite cse_loci_S, foldO_app.
  destruct (cse_row_some n Hn C 0 st (Nat.add_0_l C) Hinv) as [st1 E]. rewrite E.
  apply IH; [lia|].
  pose proof (cse_row n Hn C 0 st st1 (Nat.add_0_l C) Hinv E) as (I1 & I2 & I3 & I4 & I5 & I6).
  unfold CInv. split; [exact I1|]. split; [exact I2|]. split; [exact I3|]. split; [exact I4|]. split.
  - intros k lw Hin. destruct (I5 _ _ Hin) as (J1 & J2 & J3). repeat split; auto. lia.
  - intros r' c' Hr' Hc' Hp. apply I6; auto. destruct Hp as [Hp|[_ Hp]]; [|lia].
    unfold processed. destruct (Nat.eq_dec r' n); [right; split; lia|left; lia].
Qed.

Lemma cse_genome_total g :
  ind_ok_b ss patch g = true -> rows g = R -> cats g = C ->
  (forall r c ge, r < R -> c < C -> cell g r c = Some ge -> K ge) ->
  exists g', cse_genome cmp g = Some g'.
Proof.
  intros Hg HR HC HK. unfold cse_genome. rewrite HR, HC.
  destruct (cse_rows_some R (g, [])) as [st ->]; [lia| |eauto].
  unfold CInv. cbn [fst snd]. split; [exact Hg|]. split; [exact HR|]. split; [exact HC|]. split; [exact HK|]. split.
  - intros k lw [].
  - intros r' c' Hr' _ [Hp|[Hp Hq]]; lia.
Qed.

Lemma cse_genome_wf g g' :
  ind_ok_b ss patch g = true -> rows g = R -> cats g = C ->
  (forall r c ge, r < R -> c < C -> cell g r c = Some ge -> K ge) ->
  cse_genome cmp g = Some g' -> ind_ok_b ss patch g' = true.
Proof.
  intros Hg HR HC HK H. unfold cse_genome in H. rewrite HR, HC in H.
  destruct (foldO (cse_cell cmp) (cse_loci R C) (g, [])) as [st|] eqn:E; [|discriminate].
  inversion H as [Hst]. eapply (cse_rows R); [lia| |exact E].
  unfold CInv. cbn [fst snd]. split; [exact Hg|]. split; [exact HR|]. split; [exact HC|]. split; [exact HK|]. split.
  - intros k lw [].
  - intros r' c' Hr' _ [Hp|[Hp Hq]]; lia.
Qed.
End CseGeneric.

(* ------------------------------------------ the repaired comparator *)
Lemma lex_ltb_irrefl a : lex_ltb a a = false.
Proof. induction a as [|x a IH]; cbn [lex_ltb]; [reflexivity|]. rewrite Nat.ltb_irrefl. exact IH. Qed.

Lemma lex_incomp_eq : forall a b, lex_ltb a b = false -> lex_ltb b a = false -> a = b.
Proof.
  induction a as [|x a IH]; intros [|y b] H1 H2; cbn [lex_ltb] in *; try discriminate; [reflexivity|].
  destruct (Nat.ltb x y) eqn:E1; [discriminate|]. destruct (Nat.ltb y x) eqn:E2; [discriminate|].
  apply Nat.ltb_ge in E1, E2. assert (x = y) by lia. subst. f_equal. apply IH; assumption.
Qed.

Lemma list_eqb_nat_eq : forall a b, list_eqb Nat.eqb a b = true -> a = b.
Proof.
  induction a as [|x a IH]; intros [|y b] H; cbn [list_eqb] in H; try discriminate; [reflexivity|].
  apply andb_true_iff in H. destruct H as [H1 H2]. apply Nat.eqb_eq in H1. subst. f_equal. apply IH. exact H2.
Qed.

Lemma sym_same_eq a b : sym_same_b a b = true ->
  s_cat a = s_cat b /\ s_argcats a = s_argcats b /\ s_parametric a = s_parametric b.
Proof.
  unfold sym_same_b. rewrite !andb_true_iff. intros [[H1 H2] H3].
  apply Nat.eqb_eq in H1. apply list_eqb_nat_eq in H2. apply Bool.eqb_prop in H3. auto.
Qed.

Lemma sym_in_coherent ss a b : wf_sset_b ss = true ->
  sym_in_b ss a = true -> sym_in_b ss b = true -> s_opcode a = s_opcode b ->
  s_argcats a = s_argcats b /\ s_parametric a = s_parametric b.
Proof.
  intros Hss Ha Hb Hop. unfold wf_sset_b in Hss. rewrite !andb_true_iff in Hss. destruct Hss as [_ Hcoh].
  unfold sym_in_b in Ha, Hb. apply existsb_exists in Ha, Hb.
  destruct Ha as (a' & Ia & Ha). destruct Hb as (b' & Ib & Hb).
  apply andb_true_iff in Ha, Hb. destruct Ha as [Oa Sa]. destruct Hb as [Ob Sb].
  apply Z.eqb_eq in Oa, Ob. apply sym_same_eq in Sa, Sb.
  unfold coherent_b in Hcoh. rewrite forallb_forall in Hcoh. specialize (Hcoh a' Ia).
  rewrite forallb_forall in Hcoh. specialize (Hcoh b' Ib).
  replace (s_opcode a' =? s_opcode b')%Z with true in Hcoh by (symmetry; apply Z.eqb_eq; congruence).
  apply sym_same_eq in Hcoh. destruct Sa as (_ & A2 & A3). destruct Sb as (_ & B2 & B3). destruct Hcoh as (_ & C2 & C3).
  split; congruence.
Qed.

Lemma gene_equiv_char a b :
  (s_opcode (g_sym a) = s_opcode (g_sym b) ->
   s_argcats (g_sym a) = s_argcats (g_sym b) /\ s_parametric (g_sym a) = s_parametric (g_sym b)) ->
  (gene_equiv gene_cmp a b = true <->
   s_opcode (g_sym a) = s_opcode (g_sym b) /\
   (if is_terminal (g_sym a)
    then (if s_parametric (g_sym a) then par_incomp (g_par a) (g_par b) = true else True)
    else g_args a = g_args b)).
Proof.
  intros Hcoh. unfold gene_equiv, gene_cmp.
  destruct (Z.eqb_spec (s_opcode (g_sym a)) (s_opcode (g_sym b))) as [Eop|Nop].
  - destruct (Hcoh Eop) as [Hac Hpar].
    replace (s_opcode (g_sym b) =? s_opcode (g_sym a))%Z with true by (symmetry; apply Z.eqb_eq; congruence).
    cbn [negb]. unfold is_terminal. rewrite <- Hac, <- Hpar.
    destruct (s_argcats (g_sym a)) eqn:Eac.
    + destruct (s_parametric (g_sym a)).
      * unfold par_incomp. tauto.
      * cbn. tauto.
    + split.
      * intros H. apply andb_true_iff in H. destruct H as [H1 H2]. apply negb_true_iff in H1, H2.
        split; [exact Eop|]. apply lex_incomp_eq; assumption.
      * intros [_ ->]. rewrite lex_ltb_irrefl. reflexivity.
  - replace (s_opcode (g_sym b) =? s_opcode (g_sym a))%Z with false
      by (symmetry; apply Z.eqb_neq; congruence).
    cbn [negb]. split; [|intros [H _]; contradiction].
    intros H. apply andb_true_iff in H. destruct H as [H1 H2]. apply negb_true_iff in H1, H2. lia.
Qed.

(* ------------------------------------------ the current comparator (memcmp) *)
Lemma bytes_ltb_irrefl a : bytes_ltb a a = false.
Proof. induction a as [|x a IH]; cbn [bytes_ltb]; [reflexivity|]. rewrite Z.ltb_irrefl. exact IH. Qed.

Lemma bytes_incomp_eq : forall a b, length a = length b ->
  bytes_ltb a b = false -> bytes_ltb b a = false -> a = b.
Proof.
  induction a as [|x a IH]; intros [|y b] Hl H1 H2; cbn [bytes_ltb length] in *; try discriminate; [reflexivity|].
  destruct (Z.ltb x y) eqn:E1; [discriminate|]. destruct (Z.ltb y x) eqn:E2; [discriminate|].
  assert (x = y) by lia. subst. f_equal. apply IH; [lia|assumption|assumption].
Qed.

Lemma par_bytes_length p : length (par_bytes p) = 8.
Proof. reflexivity. Qed.

Lemma gene_equiv_mem_char a b :
  (s_opcode (g_sym a) = s_opcode (g_sym b) ->
   s_argcats (g_sym a) = s_argcats (g_sym b) /\ s_parametric (g_sym a) = s_parametric (g_sym b)) ->
  (gene_equiv gene_cmp_mem a b = true <->
   s_opcode (g_sym a) = s_opcode (g_sym b) /\
   (if is_terminal (g_sym a)
    then (if s_parametric (g_sym a) then par_bytes (g_par a) = par_bytes (g_par b) else True)
    else g_args a = g_args b)).
Proof.
  intros Hcoh. unfold gene_equiv, gene_cmp_mem.
  destruct (Z.eqb_spec (s_opcode (g_sym a)) (s_opcode (g_sym b))) as [Eop|Nop].
  - destruct (Hcoh Eop) as [Hac Hpar].
    replace (s_opcode (g_sym b) =? s_opcode (g_sym a))%Z with true by (symmetry; apply Z.eqb_eq; congruence).
    cbn [negb]. unfold is_terminal. rewrite <- Hac, <- Hpar.
    destruct (s_argcats (g_sym a)) eqn:Eac.
    + destruct (s_parametric (g_sym a)).
      * split.
        -- intros H. apply andb_true_iff in H. destruct H as [H1 H2]. apply negb_true_iff in H1, H2.
           split; [exact Eop|]. apply bytes_incomp_eq; [rewrite !par_bytes_length; reflexivity|assumption|assumption].
        -- intros [_ ->]. rewrite bytes_ltb_irrefl. reflexivity.
      * cbn. tauto.
    + split.
      * intros H. apply andb_true_iff in H. destruct H as [H1 H2]. apply negb_true_iff in H1, H2.
        split; [exact Eop|]. apply lex_incomp_eq; assumption.
      * intros [_ ->]. rewrite lex_ltb_irrefl. reflexivity.
  - replace (s_opcode (g_sym b) =? s_opcode (g_sym a))%Z with false
      by (symmetry; apply Z.eqb_neq; congruence).
    cbn [negb]. split; [|intros [H _]; contradiction].
    intros H. apply andb_true_iff in H. destruct H as [H1 H2]. apply negb_true_iff in H1, H2. lia.
Qed.

(* the keys of cse(): genes whose symbol belongs to the symbol set (any parameter, NaN included) *)
Definition K0m (ss : sset) : sym -> f64 -> Prop := fun s _ => sym_in_b ss s = true.

Section Repaired.
Variable ss : sset.
Hypothesis Hss : wf_sset_b ss = true.

Lemma K_coherent a b : K (K0m ss) a -> K (K0m ss) b -> s_opcode (g_sym a) = s_opcode (g_sym b) ->
  s_argcats (g_sym a) = s_argcats (g_sym b) /\ s_parametric (g_sym a) = s_parametric (g_sym b).
Proof. intros Ha Hb Hop. eapply sym_in_coherent; eauto. Qed.

(* on such keys the current gene_cmp induces an equivalence (equal opcode and equal bytes of the
   parameter / equal arguments): it is a strict weak ordering, for every parameter *)
Lemma gene_cmp_equiv_refl k : K (K0m ss) k -> gene_equiv gene_cmp_mem k k = true.
Proof.
  intros Hk. apply gene_equiv_mem_char; [intros _; auto|]. split; [reflexivity|].
  destruct (is_terminal (g_sym k)); [|reflexivity]. destruct (s_parametric (g_sym k)); [reflexivity|exact I].
Qed.

Lemma gene_cmp_equiv_trans a b c : K (K0m ss) a -> K (K0m ss) b -> K (K0m ss) c ->
  gene_equiv gene_cmp_mem a b = true -> gene_equiv gene_cmp_mem b c = true -> gene_equiv gene_cmp_mem a c = true.
Proof.
  intros Ha Hb Hc Hab Hbc.
  apply gene_equiv_mem_char in Hab; [|apply K_coherent; assumption].
  apply gene_equiv_mem_char in Hbc; [|apply K_coherent; assumption].
  destruct Hab as [O1 H1]. destruct Hbc as [O2 H2].
  apply gene_equiv_mem_char; [apply K_coherent; assumption|]. split; [congruence|].
  destruct (K_coherent a b Ha Hb O1) as [Cac Cpar].
  unfold is_terminal in *. rewrite <- Cac, <- Cpar in H2.
  destruct (s_argcats (g_sym a)).
  - destruct (s_parametric (g_sym a)); [congruence|exact I].
  - congruence.
Qed.

Lemma gene_cmp_irrefl k : K (K0m ss) k -> gene_cmp_mem k k = false.
Proof.
  intros Hk. pose proof (gene_cmp_equiv_refl k Hk) as H. unfold gene_equiv in H.
  apply andb_true_iff in H. destruct H as [H _]. apply negb_true_iff in H. exact H.
Qed.

Lemma cells_are_keys patch g : ind_ok_b ss patch g = true ->
  forall r c ge, r < rows g -> c < cats g -> cell g r c = Some ge -> K (K0m ss) ge.
Proof.
  intros Hg r c ge Hr Hc Hcell. unfold K, K0m.
  pose proof (proj1 (ind_ok_iff _ _ _) Hg) as (_ & _ & P3 & _).
  destruct (P3 r c Hr Hc) as (ge0 & Hge0 & Hok). rewrite Hcell in Hge0. inversion Hge0. subst ge0.
  apply gene_ok_inv in Hok. apply Hok.
Qed.

(* cse() of the repaired tree keeps individuals well-formed ... *)
Lemma cse_wf patch i i' :
  ind_ok_b ss patch (i_gen i) = true -> cse i = Some i' ->
  ind_ok_b ss patch (i_gen i') = true /\ i_age i' = i_age i /\ i_xt i' = i_xt i.
Proof.
  intros Hg H. unfold cse in H.
  destruct (cse_genome gene_cmp_mem (i_gen i)) as [g'|] eqn:E; [|discriminate].
  inversion H. subst. cbn [with_gen i_gen i_age i_xt]. split; [|auto].
  eapply (cse_genome_wf gene_cmp_mem (K0m ss) gene_cmp_equiv_refl gene_cmp_equiv_trans ss Hss patch
            (rows (i_gen i)) (cats (i_gen i))); [exact Hg|reflexivity|reflexivity| |exact E].
  apply (cells_are_keys patch). exact Hg.
Qed.

(* ... and always returns a result *)
Lemma cse_total patch i : ind_ok_b ss patch (i_gen i) = true -> exists i', cse i = Some i'.
Proof.
  intros Hg. unfold cse.
  destruct (cse_genome_total gene_cmp_mem (K0m ss) gene_cmp_equiv_refl gene_cmp_equiv_trans ss Hss patch
              (rows (i_gen i)) (cats (i_gen i)) (i_gen i) Hg eq_refl eq_refl (cells_are_keys patch _ Hg)) as [g' ->].
  eauto.
Qed.
End Repaired.

Lemma gene_cmp_swo ss : wf_sset_b ss = true ->
  (forall k, K (K0m ss) k -> gene_cmp_mem k k = false) /\
  (forall a b c, K (K0m ss) a -> K (K0m ss) b -> K (K0m ss) c ->
     gene_equiv gene_cmp_mem a b = true -> gene_equiv gene_cmp_mem b c = true -> gene_equiv gene_cmp_mem a c = true).
Proof.
  intros H. split.
  - intros k Hk. eapply gene_cmp_irrefl. exact Hk.
  - intros a b c. eapply gene_cmp_equiv_trans. exact H.
Qed.

(* the constants +0.0 and -0.0 are different keys for the current comparator, the same key for
   operator< (the finding fixed by "i_mep::cse() merges the constants +0.0 and -0.0") *)
Definition zero_witness_sym : sym :=
  {| s_opcode := 9; s_cat := 0; s_argcats := []; s_parametric := true; s_strat := Interp.Strategy.Ret Values.Stuck |}.
Definition pz : gene := {| g_sym := zero_witness_sym; g_par := F64.of_bits 0; g_args := [] |}.
Definition nz : gene := {| g_sym := zero_witness_sym; g_par := F64.of_bits 0x8000000000000000; g_args := [] |}.
Lemma signed_zeros_are_distinct_keys :
  gene_equiv gene_cmp_mem pz nz = false /\ gene_equiv gene_cmp pz nz = true.
Proof. vm_compute. split; reflexivity. Qed.

(* the pinned comparator is not a strict weak ordering: two genes with the
   same function symbol, arguments [1;5] and [2;3], are each "less" than the
   other (asymmetry fails) *)
Definition swo_witness_sym : sym :=
  {| s_opcode := 7; s_cat := 0; s_argcats := [0; 0]; s_parametric := false; s_strat := Interp.Strategy.Ret Values.Stuck |}.
Definition swo_witness_a : gene := {| g_sym := swo_witness_sym; g_par := F64.zero; g_args := [1; 5] |}.
Definition swo_witness_b : gene := {| g_sym := swo_witness_sym; g_par := F64.zero; g_args := [2; 3] |}.
Lemma gene_cmp_old_not_asymmetric :
  gene_cmp_old swo_witness_a swo_witness_b = true /\ gene_cmp_old swo_witness_b swo_witness_a = true.
Proof. split; reflexivity. Qed.
Lemma gene_cmp_asymmetric_on_witness :
  gene_cmp swo_witness_a swo_witness_b = true /\ gene_cmp swo_witness_b swo_witness_a = false.
Proof. split; reflexivity. Qed.
