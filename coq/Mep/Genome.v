(* Shared model of MEP individuals (kernel/gp/mep/i_mep.h, kernel/gp/gene.h,
   kernel/gp/locus.h): symbols, genes, the genome matrix, loci, well-formedness
   and the unfolded expression tree.  Definitions only; used by C01, C02, C03,
   C19. *)
From Coq Require Import ZArith List Bool Arith.
From VV Require Import Base.F64 Base.Values Interp.Strategy.
Import ListNotations.

(* a symbol: opcode identifies it (symbol.h: opcode_t, unique per symbol),
   category of the value it returns, categories of its arguments (empty for a
   terminal), whether it is a parametric terminal (ephemeral constant), and
   its behaviour *)
Record sym := {
  s_opcode : Z;
  s_cat : nat;
  s_argcats : list nat;
  s_parametric : bool;
  s_strat : strategy
}.
Definition arity (s : sym) : nat := length (s_argcats s).
Definition is_terminal (s : sym) : bool := match s_argcats s with [] => true | _ => false end.

Record gene := { g_sym : sym; g_par : f64; g_args : list nat }.

Record locus := { l_index : nat; l_cat : nat }.
Definition locus_eqb (a b : locus) : bool :=
  Nat.eqb (l_index a) (l_index b) && Nat.eqb (l_cat a) (l_cat b).
(* locus.h operator< : by index, then category *)
Definition locus_ltb (a b : locus) : bool :=
  Nat.ltb (l_index a) (l_index b) ||
  (Nat.eqb (l_index a) (l_index b) && Nat.ltb (l_cat a) (l_cat b)).

(* the genome is a rows x cats matrix of genes; [None] models a cell that
   holds a default-constructed gene (i_mep(std::vector<gene>) leaves the cells
   of the other categories untouched) *)
Record genome := {
  rows : nat;
  cats : nat;
  cell : nat -> nat -> option gene;
  best : locus
}.

Definition gene_at (g : genome) (l : locus) : option gene :=
  if Nat.ltb (l_index l) (rows g) && Nat.ltb (l_cat l) (cats g)
  then cell g (l_index l) (l_cat l) else None.

(* gene::locus_of_argument(i) = {args[i], function::arg_category(i)} *)
Definition arg_locus (ge : gene) (i : nat) : option locus :=
  match nth_error (g_args ge) i, nth_error (s_argcats (g_sym ge)) i with
  | Some a, Some c => Some {| l_index := a; l_cat := c |}
  | _, _ => None
  end.

(* Well-formedness of one gene sitting at row [r], category [c]. *)
Definition wf_gene_b (g : genome) (r c : nat) (ge : gene) : bool :=
  Nat.eqb (s_cat (g_sym ge)) c &&
  Nat.eqb (length (g_args ge)) (arity (g_sym ge)) &&
  forallb (fun a => Nat.ltb r a && Nat.ltb a (rows g)) (g_args ge) &&
  forallb (fun ac => Nat.ltb ac (cats g)) (s_argcats (g_sym ge)).

(* the cells an argument designates must be populated with a gene of the
   required category: checked over the whole matrix *)
Definition wf_cell_b (g : genome) (r c : nat) : bool :=
  match cell g r c with
  | None => true
  | Some ge =>
      wf_gene_b g r c ge &&
      forallb (fun i => match arg_locus ge i with
                        | Some l => match gene_at g l with Some _ => true | None => false end
                        | None => false
                        end) (seq 0 (arity (g_sym ge)))
  end.

Definition wf_genome_b (g : genome) : bool :=
  forallb (fun r => forallb (fun c => wf_cell_b g r c) (seq 0 (cats g))) (seq 0 (rows g)) &&
  match gene_at g (best g) with Some _ => true | None => false end.

Definition wf_genome (g : genome) : Prop := wf_genome_b g = true.

(* the active expression tree rooted at a locus: symbols and parameters, not
   positions *)
Inductive tree := Node (s : sym) (par : f64) (children : list tree).

(* unfolding with fuel; [None] when the fuel runs out or the walk leaves the
   genome (impossible for a well-formed genome with fuel >= rows) *)
Fixpoint tree_of (fuel : nat) (g : genome) (l : locus) : option tree :=
  match fuel with
  | O => None
  | S f =>
      match gene_at g l with
      | None => None
      | Some ge =>
          let kids :=
            map (fun i => match arg_locus ge i with
                          | Some la => tree_of f g la
                          | None => None
                          end) (seq 0 (arity (g_sym ge))) in
          if forallb (fun o => match o with Some _ => true | None => false end) kids
          then Some (Node (g_sym ge) (g_par ge)
                          (flat_map (fun o => match o with Some t => [t] | None => [] end) kids))
          else None
      end
  end.

Definition active_tree (g : genome) : option tree := tree_of (S (rows g)) g (best g).
