(* C02 -- execution safety, teams, and the closure over all histories *)
From Coq Require Import ZArith List Bool Arith Lia ZifyBool.
Local Ltac c02_scan0 := idtac. (* separates the Require lines for the dependency scanner of lib/vv.py *)
From VV Require Import Base.F64 Mep.Genome Mep.Draws Mep.OpsDefs Mep.OpsProofs Mep.CseProofs.
Local Ltac c02_scan1 := idtac.
Import ListNotations.
Local Open Scope nat_scope.

(* ------------------------------------------------- relation to Genome.v *)
Lemma gene_ok_wf_gene ss g patch r c ge :
  gene_ok_b ss (rows g) (cats g) patch r c ge = true -> wf_gene_b g r c ge = true.
Proof.
  intros H. apply gene_ok_inv in H. destruct H as (_ & H2 & H3 & H4 & H5 & _).
  unfold wf_gene_b. rewrite H2, H3, H4, H5, !Nat.eqb_refl. reflexivity.
Qed.

Lemma ind_ok_wf_genome ss patch g : ind_ok_b ss patch g = true -> wf_genome_b g = true.
Proof.
  intros H. pose proof (proj1 (ind_ok_iff _ _ _) H) as (P1 & P2 & P3 & P4).
  unfold wf_genome_b. apply andb_true_iff. split.
  - apply forallb_seq. intros r Hr. apply forallb_seq. intros c Hc.
    destruct (P3 r c Hr Hc) as (ge & Hge & Hok). unfold wf_cell_b. rewrite Hge.
    apply andb_true_iff. split; [eapply gene_ok_wf_gene; exact Hok|].
    apply forallb_seq. intros i Hi. unfold arg_locus.
    pose proof (gene_ok_inv _ _ _ _ _ _ _ Hok) as (_ & _ & Hlen & Hargs & Hcats & _). unfold arity in *.
    destruct (nth_error (g_args ge) i) as [a|] eqn:Ea; [|apply nth_error_None in Ea; lia].
    destruct (nth_error (s_argcats (g_sym ge)) i) as [ac|] eqn:Eac; [|apply nth_error_None in Eac; lia].
    apply nth_error_In in Ea, Eac. rewrite forallb_forall in Hargs, Hcats.
    specialize (Hargs a Ea). specialize (Hcats ac Eac). apply andb_true_iff in Hargs. destruct Hargs as [_ Ha].
    unfold gene_at. cbn [l_index l_cat]. rewrite Ha, Hcats. cbn [andb].
    apply Nat.ltb_lt in Ha, Hcats. destruct (P3 a ac Ha Hcats) as (ge2 & -> & _). reflexivity.
  - unfold inside_b in P4. unfold gene_at. rewrite P4. apply andb_true_iff in P4. destruct P4 as [B1 B2].
    apply Nat.ltb_lt in B1, B2. destruct (P3 _ _ B1 B2) as (ge & -> & _). reflexivity.
Qed.

(* ------------------------------------------------------ execution safety *)
(* following the arguments from any locus inside a well-formed genome never
   leaves the genome: the unfolding of Genome.tree_of succeeds as soon as the
   fuel covers the remaining rows *)
Lemma tree_of_safe ss patch g : ind_ok_b ss patch g = true ->
  forall fuel l, l_index l < rows g -> l_cat l < cats g -> rows g - l_index l <= fuel ->
  tree_of fuel g l <> None.
Proof.
  intros H. pose proof (proj1 (ind_ok_iff _ _ _) H) as (P1 & P2 & P3 & P4).
  induction fuel as [|f IH]; intros l Hi Hc Hf; [lia|]. cbn [tree_of].
  unfold gene_at. replace (Nat.ltb (l_index l) (rows g)) with true by (symmetry; apply Nat.ltb_lt; exact Hi).
  replace (Nat.ltb (l_cat l) (cats g)) with true by (symmetry; apply Nat.ltb_lt; exact Hc). cbn [andb].
  destruct (P3 _ _ Hi Hc) as (ge & -> & Hok).
  match goal with |- context [forallb ?p ?kids] => assert (Hall : forallb p kids = true) end.
  { apply forallb_forall. intros o Ho. apply in_map_iff in Ho. destruct Ho as (i & <- & Hin).
    apply in_seq in Hin. unfold arg_locus.
    pose proof (gene_ok_inv _ _ _ _ _ _ _ Hok) as (_ & _ & Hlen & Hargs & Hcats & _). unfold arity in *.
    destruct (nth_error (g_args ge) i) as [a|] eqn:Ea; [|apply nth_error_None in Ea; lia].
    destruct (nth_error (s_argcats (g_sym ge)) i) as [ac|] eqn:Eac; [|apply nth_error_None in Eac; lia].
    apply nth_error_In in Ea, Eac. rewrite forallb_forall in Hargs, Hcats.
    specialize (Hargs a Ea). specialize (Hcats ac Eac). apply andb_true_iff in Hargs. destruct Hargs as [Ha1 Ha2].
    apply Nat.ltb_lt in Ha1, Ha2, Hcats.
    destruct (tree_of f g {| l_index := a; l_cat := ac |}) eqn:Et; [reflexivity|].
    exfalso. apply (IH {| l_index := a; l_cat := ac |}); cbn [l_index l_cat]; auto. lia. }
  rewrite Hall. discriminate.
Qed.

Lemma wf_exec_safe ss patch g : ind_ok_b ss patch g = true -> active_tree g <> None.
Proof.
  intros H. unfold active_tree. destruct (best_inside ss patch g H) as [B1 B2].
  eapply tree_of_safe; eauto. lia.
Qed.

(* ------------------------------------------------------------------ teams *)
Section Teams.
Variable ss : sset.
Hypothesis Hss : wf_sset_b ss = true.
Variable patch : nat.
Definition team_ok (R : nat) (t : team) : Prop :=
  Forall (fun i => ind_ok_b ss patch (i_gen i) = true /\ rows (i_gen i) = R) t.

Lemma random_team_wf R n : forall ds t ds', random_team ss R patch n ds = Some (t, ds') ->
  team_ok R t /\ length t = n.
Proof.
  induction n as [|n IH]; intros ds t ds' H; cbn [random_team] in H.
  - mret H. inversion H. subst. split; [constructor|reflexivity].
  - mbind H. mbind H. mret H. inversion H. subst. apply (random_ind_wf ss Hss) in E. destruct E as (E1 & E2 & _).
    destruct (IH _ _ _ E0) as [I1 I2]. split; [constructor; auto|cbn; lia].
Qed.

Lemma team_mutation_wf R pgm : forall t ds t' n ds', team_ok R t ->
  team_mutation ss patch pgm t ds = Some (t', n, ds') -> team_ok R t' /\ length t' = length t.
Proof.
  induction t as [|i t IH]; intros ds t' n ds' Ht H; cbn [team_mutation] in H.
  - mret H. inversion H. subst. split; [constructor|reflexivity].
  - inversion Ht as [|? ? [H1 H2] Ht']. subst. mbind H. mbind H. mret H. inversion H. subst.
    destruct a as [i' k]. destruct a0 as [t2 k2]. cbn [fst snd].
    apply (mutation_wf ss Hss) in E; [|exact H1]. destruct E as (M1 & M2 & _).
    destruct (IH _ _ _ _ Ht' E0) as [I1 I2]. split; [constructor; [split; congruence|exact I1]|cbn; lia].
Qed.

Lemma team_mutation_zero : forall t ds t' n ds',
  team_mutation ss patch zero_bits t ds = Some (t', n, ds') -> t' = t /\ n = 0.
Proof.
  induction t as [|i t IH]; intros ds t' n ds' H; cbn [team_mutation] in H.
  - mret H. inversion H. subst. auto.
  - mbind H. mbind H. mret H. inversion H. subst. destruct a as [i' k]. destruct a0 as [t2 k2]. cbn [fst snd].
    apply mutation_zero_is_identity in E. destruct E as [-> ->].
    destruct (IH _ _ _ _ E0) as [-> ->]. auto.
Qed.

Lemma team_crossover_wf R : forall l r ds t ds', team_ok R l -> team_ok R r ->
  team_crossover l r ds = Some (t, ds') -> team_ok R t /\ length t = length l.
Proof.
  clear Hss. induction l as [|a l IH]; intros [|b r] ds t ds' Hl Hr H; cbn [team_crossover] in H; try discriminate.
  - mret H. inversion H. subst. split; [constructor|reflexivity].
  - inversion Hl as [|? ? [A1 A2] Hl']. inversion Hr as [|? ? [B1 B2] Hr']. subst l0 l1 x x0.
    mbind H. mbind H. mret H. inversion H. subst t ds'.
    pose proof (crossover_wf ss patch _ _ _ _ _ A1 B1 E) as C1.
    apply crossover_spec in E. destruct E as (C2 & _).
    destruct (IH _ _ _ _ Hl' Hr' E0) as [I1 I2]. split; [constructor; [split; [exact C1|congruence]|exact I1]|cbn; lia].
Qed.
End Teams.

(* -------------------------------------------- closure over all histories *)
(* every individual obtained from randomly created ones by any finite
   sequence of the public operators, whatever the draws *)
Section Closure.
Variable ss : sset.
Variable R patch : nat.

Inductive reachable : ind -> Prop :=
| R_random ds i ds' : random_ind ss R patch ds = Some (i, ds') -> reachable i
| R_mutation i pgm ds i' n ds' : reachable i -> mutation ss patch pgm i ds = Some (i', n, ds') -> reachable i'
| R_crossover a b ds c ds' : reachable a -> reachable b -> crossover a b ds = Some (c, ds') -> reachable c
| R_get_block i l : reachable i -> inside_b (i_gen i) l = true -> reachable (get_block i l)
| R_replace i l ge : reachable i -> inside_b (i_gen i) l = true ->
    gene_ok_b ss (rows (i_gen i)) (cats (i_gen i)) patch (l_index l) (l_cat l) ge = true ->
    reachable (replace i l ge)
| R_destroy i index ds i' ds' : reachable i -> destroy_block ss i index ds = Some (i', ds') -> reachable i'
| R_cse i i' : reachable i -> cse i = Some i' -> reachable i'
| R_inc_age i : reachable i -> reachable (inc_age i).

Hypothesis Hss : wf_sset_b ss = true.

Lemma reachable_wf i : reachable i ->
  ind_ok_b ss patch (i_gen i) = true /\ rows (i_gen i) = R /\ cats (i_gen i) = ss_cats ss.
Proof.
  assert (Hcats : forall g, ind_ok_b ss patch g = true -> cats g = ss_cats ss).
  { intros g Hg. apply ind_ok_iff in Hg. apply Hg. }
  induction 1 as [ds i ds' H|i pgm ds i' n ds' Hr IH H|a b ds c ds' Ha IHa Hb IHb H|i l Hr IH Hl
                 |i l ge Hr IH Hl Hg|i index ds i' ds' Hr IH H|i i' Hr IH H|i Hr IH].
  - apply (random_ind_wf ss Hss) in H. destruct H as (H1 & H2 & _). auto.
  - destruct IH as (I1 & I2 & I3). apply (mutation_wf ss Hss) in H; [|exact I1].
    destruct H as (M1 & M2 & M3 & _). repeat split; congruence.
  - destruct IHa as (A1 & A2 & A3). destruct IHb as (B1 & B2 & B3).
    pose proof (crossover_wf ss patch _ _ _ _ _ A1 B1 H) as C1. apply crossover_spec in H.
    destruct H as (C2 & C3 & _). repeat split; congruence.
  - destruct IH as (I1 & I2 & I3). split; [apply get_block_wf; assumption|]. cbn. auto.
  - destruct IH as (I1 & I2 & I3). split; [apply replace_wf; assumption|]. cbn. auto.
  - destruct IH as (I1 & I2 & I3). apply (destroy_block_wf ss Hss patch) in H; [|exact I1].
    destruct H as (D1 & D2 & D3). repeat split; congruence.
  - destruct IH as (I1 & I2 & I3). destruct (cse_wf ss Hss patch i i' I1 H) as (C1 & _).
    split; [exact C1|]. split; [|apply Hcats; exact C1].
    unfold cse in H. destruct (cse_genome gene_cmp_mem (i_gen i)) as [g'|] eqn:E; [|discriminate].
    inversion H as [Hi']. cbn [with_gen i_gen]. rewrite <- I2. clear - E. unfold cse_genome in E.
    destruct (foldO (cse_cell gene_cmp_mem) (cse_loci (rows (i_gen i)) (cats (i_gen i))) (i_gen i, [])) as [st|] eqn:F;
      [|discriminate]. inversion E as [Hg'].
    assert (G : forall l st st', foldO (cse_cell gene_cmp_mem) l st = Some st' -> rows (fst st') = rows (fst st)).
    { induction l as [|x l IHl]; intros s s' Hf; cbn [foldO] in Hf; [inversion Hf; reflexivity|].
      destruct (cse_cell gene_cmp_mem s x) as [s1|] eqn:Ec; [|discriminate]. rewrite (IHl _ _ Hf).
      unfold cse_cell in Ec. destruct (cell (fst s) (fst x) (snd x)); [|discriminate].
      destruct (mapO _ _); [|discriminate]. inversion Ec. reflexivity. }
    apply (G _ _ _ F).
  - exact IH.
Qed.

(* ... and executing any of them never leaves the genome *)
Lemma reachable_exec_safe i : reachable i -> active_tree (i_gen i) <> None.
Proof. intros H. apply reachable_wf in H. eapply wf_exec_safe. apply H. Qed.
End Closure.
