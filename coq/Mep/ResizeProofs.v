(* C02 -- one problem object reused with another code / patch length:
   mutation(pgm, prb) of an individual created under a different problem.
   The model (like the source) takes the boundary of the patch section from
   the INDIVIDUAL's size and the problem's patch length; well-formedness is
   monotone in the patch length, so the result is well-formed relative to the
   smaller of the two patch lengths, whatever the problem's code length. *)
From Coq Require Import ZArith List Bool Arith Lia ZifyBool.
Local Ltac c02_scan0 := idtac. (* separates the Require lines for the dependency scanner of lib/vv.py *)
From VV Require Import Base.F64 Mep.Genome Mep.Draws Mep.OpsDefs Mep.OpsProofs.
Local Ltac c02_scan1 := idtac.
Import ListNotations.
Local Open Scope nat_scope.

Lemma gene_ok_patch_mono ss R C p q r c ge : q <= p ->
  gene_ok_b ss R C p r c ge = true -> gene_ok_b ss R C q r c ge = true.
Proof.
  unfold gene_ok_b. rewrite !andb_true_iff. intros Hq [[[[[[H1 H2] H3] H4] H5] H6] H7].
  repeat split; auto. destruct (Nat.leb (R - q) r) eqn:E; [|reflexivity].
  apply Nat.leb_le in E. assert (Hp : R - p <= r) by lia. apply Nat.leb_le in Hp. rewrite Hp in H6. exact H6.
Qed.

Lemma ind_ok_patch_mono ss p q g : 1 <= q <= p ->
  ind_ok_b ss p g = true -> ind_ok_b ss q g = true.
Proof.
  intros Hq H. apply ind_ok_iff in H. destruct H as (H1 & H2 & H3 & H4). apply ind_ok_iff.
  split; [lia|]. split; [exact H2|]. split; [|exact H4].
  intros r c Hr Hc. destruct (H3 r c Hr Hc) as (ge & Hge & Hok). exists ge. split; [exact Hge|].
  eapply gene_ok_patch_mono; [|exact Hok]. lia.
Qed.

Section Resize.
Variable ss : sset.
Hypothesis Hss : wf_sset_b ss = true.

Lemma mut_loop_wf_q patch q pgm fuel : 1 <= q <= patch -> forall g loci n ds g' n' ds',
  ind_ok_b ss q g = true -> Forall (inside g) loci ->
  mut_loop fuel ss patch pgm g loci n ds = Some ((g', n'), ds') ->
  ind_ok_b ss q g' = true /\ rows g' = rows g /\ cats g' = cats g /\ best g' = best g.
Proof.
  intros Hq. induction fuel as [|f IH]; intros g loci n ds g' n' ds' Hg Hl H; [discriminate|].
  cbn [mut_loop] in H. destruct loci as [|l rest].
  - mret H. inversion H. subst. auto.
  - inversion Hl as [|? ? [Hl1 Hl2] Hrest]. subst. mbind H. mbind H.
    assert (Hstep : ind_ok_b ss q (fst a0) = true /\ rows (fst a0) = rows g /\ cats (fst a0) = cats g
                    /\ best (fst a0) = best g).
    { destruct a.
      - mbind E0. destruct (gene_at g l) as [old|]; [|discriminate].
        destruct (gene_eqb old a); mret E0; inversion E0; subst; cbn [fst]; auto.
        split; [|auto]. apply set_cell_ok; auto.
        pose proof (proj1 (ind_ok_iff _ _ _) Hg) as (_ & Hc & _). rewrite Hc.
        apply (gene_ok_patch_mono ss _ _ patch q); [lia|].
        eapply new_gene_ok; eauto. rewrite <- Hc. exact Hl2.
      - mret E0. inversion E0. subst. auto. }
    destruct Hstep as (S1 & S2 & S3 & S4).
    destruct (gene_at (fst a0) l) as [cur|] eqn:Ecur; [|discriminate].
    apply IH in H; auto.
    + destruct H as (K1 & K2 & K3 & K4). rewrite K2, K3, K4. auto.
    + apply Forall_forall. intros x Hx. apply set_union_in in Hx. destruct Hx as [Hx|Hx].
      * apply gene_at_inside in Ecur. destruct Ecur as (C1 & C2 & C3).
        pose proof (proj1 (ind_ok_iff _ _ _) S1) as (_ & _ & Hcells & _).
        destruct (Hcells _ _ C1 C2) as (ge & Hge & Hok). rewrite C3 in Hge. inversion Hge. subst ge.
        destruct (gene_ok_args ss Hss _ _ _ _ _ _ _ Hok Hx). unfold inside. lia.
      * rewrite Forall_forall in Hrest. specialize (Hrest _ Hx). unfold inside in *. rewrite S2, S3. exact Hrest.
Qed.

(* an individual that is well-formed for patch length p1, mutated through a
   problem with patch length p2 (and any code length), is well-formed for the
   smaller of the two and keeps its size *)
Lemma mutation_wf_other_problem p1 p2 pgm i ds i' n ds' :
  ind_ok_b ss p1 (i_gen i) = true -> 1 <= p2 ->
  mutation ss p2 pgm i ds = Some (i', n, ds') ->
  ind_ok_b ss (Nat.min p1 p2) (i_gen i') = true /\ rows (i_gen i') = rows (i_gen i) /\
  cats (i_gen i') = cats (i_gen i) /\ best (i_gen i') = best (i_gen i).
Proof.
  intros Hg Hp H. unfold mutation in H. mbind H. mret H. inversion H. subst. destruct a as [g' k].
  pose proof (proj1 (ind_ok_iff _ _ _) Hg) as ((P1 & _) & _).
  assert (Hq : ind_ok_b ss (Nat.min p1 p2) (i_gen i) = true) by (eapply ind_ok_patch_mono; [|exact Hg]; lia).
  apply (mut_loop_wf_q p2 (Nat.min p1 p2)) in E; [|lia|exact Hq|].
  - cbn [with_gen i_gen fst]. exact E.
  - constructor; [|constructor]. eapply best_inside. exact Hq.
Qed.
End Resize.
