(* Memory-safety (no OOB outcome) of the repaired reader variant [fixed_v]
   of the checked CSV/XRFF model of Csv/CsvDefs.v, for ALL inputs. *)
From Coq Require Import ZArith List Bool Lia ZifyBool Arith.
From VV Require Import Csv.CsvDefs.
Import ListNotations.

Definition safe {A} (r : res A) : Prop := forall s, r <> OOB s.
Definition uniform_input_width (df : dataframe) : Prop :=
  exists n, Forall (fun e => length (e_input e) = n) (dataset df).

(* ------------------------------------------------------------ a small Hoare logic on [res] *)
(* [sp r Q]: r is not OOB, and when it is [Ok a], [Q a] holds *)
Definition sp {A} (r : res A) (Q : A -> Prop) : Prop :=
  safe r /\ forall a, r = Ok a -> Q a.

Lemma safe_Ok : forall A (a : A), safe (Ok a).
Proof. intros A a s. discriminate. Qed.
Lemma safe_Exn : forall A e, safe (@Exn A e).
Proof. intros A e s. discriminate. Qed.

Lemma sp_Ok : forall A (a : A) (Q : A -> Prop), Q a -> sp (Ok a) Q.
Proof. intros A a Q H. split; [apply safe_Ok|]. intros a' E. inversion E; subst; assumption. Qed.
Lemma sp_Exn : forall A e (Q : A -> Prop), sp (Exn e) Q.
Proof. intros A e Q. split; [apply safe_Exn|]. intros a' E. discriminate. Qed.

Lemma sp_bind : forall A B (r : res A) (f : A -> res B) (P : A -> Prop) (Q : B -> Prop),
  sp r P -> (forall a, P a -> sp (f a) Q) -> sp (bind r f) Q.
Proof.
  intros A B r f P Q [Hs Hp] Hf. destruct r as [a|e|s]; cbn [bind].
  - apply Hf. apply Hp. reflexivity.
  - apply sp_Exn.
  - exfalso. eapply Hs. reflexivity.
Qed.

Lemma sp_weaken : forall A (r : res A) (P Q : A -> Prop),
  sp r P -> (forall a, P a -> Q a) -> sp r Q.
Proof. intros A r P Q [Hs Hp] H. split; [assumption|]. intros a E. apply H. apply Hp. assumption. Qed.

Lemma sp_safe : forall A (r : res A) (Q : A -> Prop), sp r Q -> safe r.
Proof. intros A r Q [H _]. assumption. Qed.
Lemma sp_post : forall A (r : res A) (Q : A -> Prop) a, sp r Q -> r = Ok a -> Q a.
Proof. intros A r Q a [_ H] E. apply H. assumption. Qed.
Lemma sp_intro_eq : forall A (r : res A) (Q : A -> Prop),
  sp r (fun _ => True) -> (forall a, r = Ok a -> Q a) -> sp r Q.
Proof. intros A r Q [Hs _] H. split; assumption. Qed.

Lemma sp_get : forall A s (l : list A) i, i < length l ->
  sp (get s l i) (fun x => nth_error l i = Some x).
Proof.
  intros A s l i Hi. unfold get. destruct (nth_error l i) as [x|] eqn:E.
  - apply sp_Ok. reflexivity.
  - apply nth_error_None in E. lia.
Qed.

Lemma set_nth_length : forall A (l : list A) i x, length (set_nth l i x) = length l.
Proof.
  induction l as [|y l IH]; intros i x; [reflexivity|].
  destruct i as [|j]; cbn [set_nth length]; [reflexivity|]. rewrite IH. reflexivity.
Qed.

(* loop rule, invariant independent of the index *)
Lemma for_ck_rule : forall S (Inv : S -> Prop) (body : nat -> S -> res S) idxs s,
  Inv s ->
  (forall i s, In i idxs -> Inv s -> sp (body i s) Inv) ->
  sp (for_ck idxs body s) Inv.
Proof.
  intros S Inv body. induction idxs as [|i r IH]; intros s HI Hb; cbn [for_ck].
  - apply sp_Ok. assumption.
  - eapply sp_bind.
    + apply Hb; [left; reflexivity|assumption].
    + intros s1 H1. apply IH; [assumption|]. intros j s2 Hj H2. apply Hb; [right|]; assumption.
Qed.

(* loop rule over [seq k n], invariant indexed by the position *)
Lemma for_ck_seq_rule : forall S (Inv : nat -> S -> Prop) (body : nat -> S -> res S) n k s,
  Inv k s ->
  (forall i s, k <= i < k + n -> Inv i s -> sp (body i s) (Inv (Datatypes.S i))) ->
  sp (for_ck (seq k n) body s) (Inv (k + n)).
Proof.
  intros S Inv body. induction n as [|n IH]; intros k s HI Hb; cbn [seq for_ck].
  - apply sp_Ok. rewrite Nat.add_0_r. assumption.
  - eapply sp_bind.
    + apply Hb; [lia|eassumption].
    + intros s1 H1. replace (k + Datatypes.S n) with (Datatypes.S k + n) by lia.
      apply IH; [assumption|]. intros j s2 Hj H2. apply Hb; [lia|assumption].
Qed.

(* ------------------------------------------------------------ sniffer *)
Section Sniffer.
Variable is_number : bytes -> bool.

Lemma hh_field_sp : forall header row n field types,
  length header = n -> length row = n -> length types = n -> field < n ->
  sp (hh_field is_number header row field types) (fun t => length t = n).
Proof.
  intros header row n field types Hh Hr Ht Hf. unfold hh_field.
  eapply sp_bind; [apply sp_get; lia|]. intros ty _.
  destruct (Z.eqb ty skip_tag); [apply sp_Ok; assumption|].
  eapply sp_bind; [apply sp_get; lia|]. intros cell _.
  destruct (blank cell); [apply sp_Ok; assumption|].
  destruct (Z.eqb ty (find_column_tag is_number cell)); [apply sp_Ok; assumption|].
  eapply sp_bind; [apply sp_get; lia|]. intros h _.
  repeat match goal with |- context [if ?b then _ else _] => destruct b end;
  apply sp_Ok; rewrite set_nth_length; assumption.
Qed.

Lemma hh_rows_sp : forall header n rows types checked lines,
  length header = n -> length types = n ->
  sp (hh_rows is_number header n rows types checked lines) (fun t => length t = n).
Proof.
  intros header n rows. induction rows as [|row rest IH]; intros types checked lines Hh Ht; cbn [hh_rows].
  - apply sp_Ok; assumption.
  - destruct (Nat.eqb (length row) n) eqn:E.
    + apply Nat.eqb_eq in E. eapply sp_bind.
      * apply for_ck_rule with (Inv := fun t => length t = n); [assumption|].
        intros i t Hi Hl. apply in_seq in Hi. apply hh_field_sp; auto; lia.
      * intros t' Ht'. cbv beta in Ht'.
        destruct (Nat.ltb lines checked); [apply sp_Ok; assumption|]. apply IH; assumption.
    + apply IH; assumption.
Qed.

Lemma hh_vote_sp : forall header n field types vote,
  length header = n -> length types = n -> field < n ->
  sp (hh_vote is_number header field types vote) (fun _ => True).
Proof.
  intros header n field types vote Hh Ht Hf. unfold hh_vote.
  eapply sp_bind; [apply sp_get; lia|]. intros ty _.
  eapply sp_bind; [apply sp_get; lia|]. intros h _.
  repeat match goal with |- context [if ?b then _ else _] => destruct b end;
  apply sp_Ok; exact I.
Qed.

Lemma sniff_has_header_sp : forall text lines delim,
  sp (sniff_has_header is_number text lines delim) (fun _ => True).
Proof.
  intros text lines delim. unfold sniff_has_header. cbv zeta.
  eapply sp_bind.
  - apply hh_rows_sp; [reflexivity|apply repeat_length].
  - intros types Ht. cbv beta in Ht. eapply sp_bind.
    + apply for_ck_rule with (Inv := fun _ : Z => True); [exact I|].
      intros i vote Hi _. apply in_seq in Hi.
      eapply hh_vote_sp; [reflexivity|exact Ht|lia].
    + intros vote _. apply sp_Ok. exact I.
Qed.

Lemma sniffer_sp : forall text, sp (sniffer is_number text) (fun _ => True).
Proof.
  intros text. unfold sniffer. cbv zeta.
  eapply sp_bind; [apply sniff_has_header_sp|]. intros h _. apply sp_Ok. exact I.
Qed.
End Sniffer.

(* ------------------------------------------------------------ domains of the columns *)
Definition nonvoid (d : domain) : bool := negb (domain_eqb d DVoid).
Definition nvd (ds : list domain) : nat := length (filter nonvoid ds).
Definition doms (cols : list column) : list domain := map c_domain cols.

Lemma nvd_app : forall a b, nvd (a ++ b) = nvd a + nvd b.
Proof. intros a b. unfold nvd. rewrite filter_app, app_length. reflexivity. Qed.

Lemma firstn_snoc : forall A (l : list A) i x,
  nth_error l i = Some x -> firstn (S i) l = firstn i l ++ [x].
Proof.
  induction l as [|y l IH]; intros i x H; destruct i as [|j]; cbn in *; try discriminate.
  - inversion H; reflexivity.
  - f_equal. apply IH. assumption.
Qed.

Lemma nvd_step : forall D i d, nth_error D i = Some d ->
  nvd (tl (firstn (S i) D)) =
  match i with 0 => 0 | S _ => nvd (tl (firstn i D)) + (if nonvoid d then 1 else 0) end.
Proof.
  intros D i d H. rewrite (firstn_snoc _ _ _ _ H). destruct i as [|j].
  - reflexivity.
  - destruct D as [|d0 D']; [discriminate|]. cbn [firstn app tl]. rewrite nvd_app.
    unfold nvd. cbn [filter]. destruct (nonvoid d); reflexivity.
Qed.

Lemma doms_set_nth : forall cols i c c',
  nth_error cols i = Some c -> c_domain c' = c_domain c -> doms (set_nth cols i c') = doms cols.
Proof.
  induction cols as [|y cols IH]; intros i c c' H Hd; destruct i as [|j]; cbn in *; try discriminate.
  - inversion H; subst. rewrite Hd. reflexivity.
  - f_equal. eapply IH; eassumption.
Qed.

(* ------------------------------------------------------------ build, to_example, read_record *)
Definition build_post (cols : list column) (r : record) (cols' : list column) : Prop :=
  length cols' = length r \/ (cols' = cols /\ length cols <> length r).

Definition TInv (D : list domain) (n : nat) (i : nat) (st : toex_state) : Prop :=
  length (snd (fst st)) = n /\ doms (snd (fst st)) = D /\
  length (e_input (fst (fst st))) = nvd (tl (firstn i D)).

Definition rr_post (df : dataframe) (r : record) (df' : dataframe) : Prop :=
  (length r <> length (columns df) /\ df' = df) \/
  (length r = length (columns df) /\ exists ex, dataset df' = dataset df ++ [ex] /\
     length (e_input ex) = nvd (tl (doms (columns df'))) /\
     doms (columns df') = doms (columns df)).

Section Frame.
Variable is_number : bytes -> bool.
Variable stod : bytes -> conv.
Variable stoi : bytes -> conv.

Lemma set_domain_sp : forall v r idx cols, length cols = length r -> idx < length r ->
  sp (set_domain is_number v r idx cols) (fun c' => length c' = length r).
Proof.
  intros v r idx cols Hl Hi. unfold set_domain.
  eapply sp_bind; [apply sp_get; lia|]. intros cell _. cbv zeta.
  destruct (is_nil (trim cell)); [apply sp_Ok; assumption|].
  eapply sp_bind; [apply sp_get; lia|]. intros c _.
  destruct (c_domain c); apply sp_Ok; rewrite ?set_nth_length; assumption.
Qed.

Lemma build_go_sp : forall cols r,
  sp (if g_build fixed_v && negb (Nat.eqb (length cols) (length r)) then Ok cols
      else for_ck (seq 0 (length r)) (set_domain is_number fixed_v r) cols) (build_post cols r).
Proof.
  intros cols r. cbn [g_build fixed_v andb].
  destruct (Nat.eqb (length cols) (length r)) eqn:E; cbn [negb].
  - apply Nat.eqb_eq in E. eapply sp_weaken.
    + apply for_ck_rule with (Inv := fun c => length c = length r); [assumption|].
      intros i c Hi Hc. apply in_seq in Hi. apply set_domain_sp; [assumption|lia].
    + intros c Hc. left; assumption.
  - apply Nat.eqb_neq in E. apply sp_Ok. right; auto.
Qed.

Lemma build_sp : forall cols r hf, sp (build is_number fixed_v cols r hf) (build_post cols r).
Proof.
  intros cols r hf. unfold build. cbv beta zeta. destruct (is_nil cols) eqn:En.
  - destruct cols; [|discriminate]. destruct hf.
    + apply sp_Ok. left. apply map_length.
    + eapply sp_weaken; [apply build_go_sp|]. intros c [H|[H1 H2]].
      * left; assumption.
      * rewrite repeat_length in H2. congruence.
  - apply build_go_sp.
Qed.

Lemma convert_sp : forall s d, sp (convert stod stoi s d) (fun _ => True).
Proof.
  intros s d. unfold convert. destruct d.
  - apply sp_Ok; exact I.
  - destruct (stoi s); [apply sp_Ok; exact I|apply sp_Exn|apply sp_Exn].
  - destruct (stod s); [apply sp_Ok; exact I|apply sp_Exn|apply sp_Exn].
  - apply sp_Ok; exact I.
Qed.

Lemma toex_step_sp : forall D v add i st, i < length v -> TInv D (length v) i st ->
  sp (toex_step is_number stod stoi v add i st) (TInv D (length v) (S i)).
Proof.
  intros D v add i [[ex cols] cm] Hi (Hl & Hd & He). cbn [fst snd] in Hl, Hd, He. unfold toex_step.
  eapply sp_bind; [apply sp_get; lia|]. intros c Hc. cbv zeta.
  assert (HD : nth_error D i = Some (c_domain c))
    by (rewrite <- Hd; unfold doms; apply map_nth_error; assumption).
  pose proof (nvd_step _ _ _ HD) as Hstep.
  destruct (domain_eqb (c_domain c) DVoid) eqn:Ev.
  - apply sp_Ok. unfold TInv. cbn [fst snd]. repeat split; try assumption.
    rewrite Hstep. unfold nonvoid. rewrite Ev. cbn [negb]. destruct i; [exact He|lia].
  - eapply sp_bind; [apply sp_get; lia|]. intros cell _.
    eapply sp_bind with (P := fun st1 => length (e_input (fst st1)) = nvd (tl (firstn (S i) D))).
    + rewrite Hstep. unfold nonvoid; rewrite Ev; cbn [negb]. destruct i as [|j]; cbn [Nat.eqb].
      * eapply sp_bind; [apply sp_get; lia|]. intros front _. destruct (negb (is_number front)).
        -- destruct (encode cm (trim cell)) as [id cm']. apply sp_Ok. cbn [fst e_input]. exact He.
        -- eapply sp_bind; [apply convert_sp|]. intros o _. apply sp_Ok. cbn [fst e_input]. exact He.
      * eapply sp_bind; [apply convert_sp|]. intros x _. apply sp_Ok. cbn [fst e_input].
        rewrite app_length. cbn [length]. lia.
    + intros [ex1 cm1] H1. cbn [fst] in H1.
      destruct (add && domain_eqb (c_domain c) DString); apply sp_Ok; unfold TInv; cbn [fst snd];
        repeat split; try assumption.
      * rewrite set_nth_length; assumption.
      * rewrite <- Hd. apply doms_set_nth with (c := c); [assumption|reflexivity].
Qed.

Lemma to_example_sp : forall df r add, length r = length (columns df) ->
  sp (to_example is_number stod stoi df r add)
     (fun p => length (e_input (fst p)) = nvd (tl (doms (columns (snd p)))) /\
               doms (columns (snd p)) = doms (columns df) /\ dataset (snd p) = dataset df).
Proof.
  intros df r add E. unfold to_example. eapply sp_bind.
  - apply for_ck_seq_rule with (Inv := TInv (doms (columns df)) (length r)).
    + unfold TInv. cbn [fst snd e_input]. repeat split; auto.
    + intros i st Hi HI. apply toex_step_sp; [lia|assumption].
  - intros [[ex cols] cm] (Hl & Hd & He). cbn [fst snd plus] in Hl, Hd, He.
    apply sp_Ok. cbn [fst snd columns dataset].
    rewrite firstn_all2 in He by (unfold doms; rewrite map_length; lia).
    rewrite Hd. auto.
Qed.

Lemma read_record_sp : forall df r add,
  sp (read_record is_number stod stoi df r add) (rr_post df r).
Proof.
  intros df r add. unfold read_record.
  destruct (Nat.eqb (length r) (length (columns df))) eqn:E; cbn [negb].
  - apply Nat.eqb_eq in E. eapply sp_bind; [apply to_example_sp; assumption|].
    intros [ex df'] (H1 & H2 & H3). cbn [fst snd] in H1, H2, H3.
    apply sp_Ok. right. split; [assumption|]. exists ex. cbn [dataset columns].
    rewrite H3. auto.
  - apply Nat.eqb_neq in E. apply sp_Ok. left. auto.
Qed.
End Frame.

(* ------------------------------------------------------------ is_valid *)
Lemma valid_examples_sp : forall l n cl,
  sp (valid_examples l n cl) (fun ok => ok = true -> Forall (fun e => length (e_input e) = n) l).
Proof.
  induction l as [|e l IH]; intros n cl; cbn [valid_examples].
  - apply sp_Ok. intros _. constructor.
  - destruct (Nat.eqb (length (e_input e)) n) eqn:E; cbn [negb].
    + apply Nat.eqb_eq in E.
      assert (Hrec : sp (valid_examples l n cl)
                (fun ok => ok = true -> Forall (fun e => length (e_input e) = n) (e :: l))).
      { eapply sp_weaken; [apply IH|]. intros ok H Hok. constructor; auto. }
      destruct (negb (Z.eqb cl 0)); [|exact Hrec].
      destruct (e_output e); try apply sp_Exn.
      destruct ((z <? 0)%Z || (cl <=? z)%Z); [apply sp_Ok; discriminate|exact Hrec].
    + apply sp_Ok. discriminate.
Qed.

Lemma is_valid_sp : forall df, sp (is_valid df) (fun ok => ok = true -> uniform_input_width df).
Proof.
  intros df. unfold is_valid, uniform_input_width. destruct (dataset df) as [|e0 l] eqn:Ed.
  - apply sp_Ok. intros _. exists 0. constructor.
  - cbv zeta. destruct (Z.eqb (Z.of_nat (length (classes df))) 1); [apply sp_Ok; discriminate|].
    eapply sp_bind; [apply sp_get; cbn [length]; lia|]. intros front _.
    eapply sp_bind; [apply valid_examples_sp|]. intros ok Hok. cbv beta in Hok.
    destruct ok; [|apply sp_Ok; discriminate].
    apply sp_Ok. intros _. exists (length (e_input front)). auto.
Qed.

(* ------------------------------------------------------------ ingest *)
(* the last example has as many inputs as there are non-void columns after the first *)
Definition LW (df : dataframe) : Prop :=
  forall l e, dataset df = l ++ [e] -> length (e_input e) = nvd (tl (doms (columns df))).
Definition IInv (count : nat) (df : dataframe) : Prop :=
  (count = 0 -> dataset df = [] /\ columns df = []) /\ LW df.

Lemma LW_of_append : forall df df' ex,
  dataset df' = dataset df ++ [ex] -> length (e_input ex) = nvd (tl (doms (columns df'))) -> LW df'.
Proof.
  intros df df' ex Hd Hw l e H. rewrite Hd in H. apply app_inj_tail in H. destruct H; subst. assumption.
Qed.

Lemma rotate_front_sp : forall s r k, k < length r -> sp (rotate_front s r k) (fun _ => True).
Proof.
  intros s r k H. unfold rotate_front. eapply sp_bind; [apply sp_get; assumption|].
  intros x _. apply sp_Ok. exact I.
Qed.

Section Readers.
Variable is_number : bytes -> bool.
Variable stod : bytes -> conv.
Variable stoi : bytes -> conv.

Definition cont (v : variant) (oi : option nat) (hh : bool) (rest : list record) (count : nat)
           (df : dataframe) (rcd' : record) : res dataframe :=
  bind (if Nat.ltb count 10 then build is_number v (columns df) rcd' hh else Ok (columns df))
    (fun cols =>
       let df1 := {| columns := cols; classes := classes df; dataset := dataset df |} in
       bind (if negb hh || negb (Nat.eqb count 0)
             then read_record is_number stod stoi df1 rcd' true else Ok df1)
         (fun df2 => ingest is_number stod stoi v oi hh rest (S count) df2)).

Lemma ingest_cons : forall v oi hh rcd rest count df,
  ingest is_number stod stoi v oi hh (rcd :: rest) count df =
  match oi with
  | Some k =>
    if g_rotate_csv v && Nat.leb (length rcd) k then ingest is_number stod stoi v oi hh rest count df
    else if Nat.ltb 0 k
         then bind (rotate_front S_rotate_csv rcd k) (fun rcd' => cont v oi hh rest count df rcd')
         else cont v oi hh rest count df rcd
  | None => cont v oi hh rest count df ([] :: rcd)
  end.
Proof. reflexivity. Qed.

Lemma cont_sp : forall oi hh rest count df rcd' (Q : dataframe -> Prop),
  IInv count df ->
  (forall df2, IInv (S count) df2 ->
     sp (ingest is_number stod stoi fixed_v oi hh rest (S count) df2) Q) ->
  sp (cont fixed_v oi hh rest count df rcd') Q.
Proof.
  intros oi hh rest count df rcd' Q [H0 HL] HK. unfold cont.
  eapply sp_bind with (P := fun cols => length cols = length rcd' \/ cols = columns df).
  - destruct (Nat.ltb count 10).
    + eapply sp_weaken; [apply build_sp|]. intros c [H|[H _]]; auto.
    + apply sp_Ok. right; reflexivity.
  - intros cols Hc. cbv zeta.
    eapply sp_bind with (P := LW).
    + assert (Hrr : sp (read_record is_number stod stoi
                          {| columns := cols; classes := classes df; dataset := dataset df |} rcd' true) LW).
      { eapply sp_weaken; [apply read_record_sp|].
        intros df2 [[Hne ->]|[He (ex & Hd & Hw & _)]].
        - cbn [columns] in Hne. destruct Hc as [Hc|Hc]; [congruence|].
          intros l e Hl. cbn [dataset columns] in *. rewrite Hc. eapply HL; eassumption.
        - eapply LW_of_append; eassumption. }
      destruct (negb hh || negb (Nat.eqb count 0)) eqn:Eg; [exact Hrr|].
      apply sp_Ok. apply orb_false_iff in Eg. destruct Eg as [_ Eg].
      apply negb_false_iff in Eg. apply Nat.eqb_eq in Eg. destruct (H0 Eg) as [Hd0 Hc0].
      intros l e Hl. cbn [dataset] in Hl. rewrite Hd0 in Hl. destruct l; discriminate.
    + intros df2 H2. apply HK. split; [intros; discriminate|assumption].
Qed.

Lemma ingest_sp : forall oi hh recs count df, IInv count df ->
  sp (ingest is_number stod stoi fixed_v oi hh recs count df) LW.
Proof.
  intros oi hh. induction recs as [|rcd rest IH]; intros count df HI.
  - cbn [ingest]. apply sp_Ok. apply HI.
  - rewrite ingest_cons. destruct oi as [k|].
    + cbn [g_rotate_csv fixed_v andb]. destruct (Nat.leb (length rcd) k) eqn:E.
      * apply IH; assumption.
      * apply Nat.leb_gt in E. destruct (Nat.ltb 0 k).
        -- eapply sp_bind; [apply rotate_front_sp; assumption|]. intros rcd' _.
           apply cont_sp; auto.
        -- apply cont_sp; auto.
    + apply cont_sp; auto.
Qed.

Lemma IInv_empty : IInv 0 empty_df.
Proof. split; [auto|]. intros l e H. cbn in H. destruct l; discriminate. Qed.

Lemma finish_csv_sp : forall df,
  sp (finish_csv df)
     (fun df' => df' = df /\ is_valid df = Ok true /\ dataset df <> [] /\ uniform_input_width df).
Proof.
  intros df. unfold finish_csv. destruct (is_valid_sp df) as [Hs Hp].
  destruct (is_valid df) as [ok|e|s] eqn:Ev; cbn [bind].
  - destruct ok; cbn [negb orb]; [|apply sp_Exn].
    destruct (dataset df) as [|e0 l] eqn:Ed; cbn [is_nil]; [apply sp_Exn|].
    apply sp_Ok. split; [reflexivity|]. split; [reflexivity|]. split; [discriminate|].
    apply (Hp true); reflexivity.
  - apply sp_Exn.
  - exfalso. eapply Hs. reflexivity.
Qed.

Lemma read_csv_sp : forall text p,
  sp (read_csv is_number stod stoi fixed_v text p)
     (fun df => is_valid df = Ok true /\ dataset df <> [] /\ uniform_input_width df /\ LW df).
Proof.
  intros text p. unfold read_csv. cbv zeta.
  eapply sp_bind with (P := fun _ => True).
  - destruct (has_header (p_dialect p)); destruct (Z.eqb (delimiter (p_dialect p)) 0);
      try (apply sp_Ok; exact I);
      (eapply sp_bind; [apply sniffer_sp|intros sn _; apply sp_Ok; exact I]).
  - intros d _. eapply sp_bind; [apply ingest_sp; apply IInv_empty|].
    intros df HL. eapply sp_weaken; [apply finish_csv_sp|].
    intros df' (-> & H1 & H2 & H3). auto.
Qed.
End Readers.

Lemma read_csv_total_safe_lemma : forall is_number stod stoi (text : bytes) (p : params),
  safe (read_csv is_number stod stoi fixed_v text p)
  /\ (forall df, read_csv is_number stod stoi fixed_v text p = Ok df ->
        is_valid df = Ok true /\ dataset df <> [] /\ uniform_input_width df).
Proof.
  intros is_number stod stoi text p.
  destruct (read_csv_sp is_number stod stoi text p) as [Hs Hp]. split; [assumption|].
  intros df E. destruct (Hp df E) as (H1 & H2 & H3 & _). auto.
Qed.

(* ------------------------------------------------------------ XRFF *)
Lemma xrff_attrs_sp : forall l n_output output_index index cols,
  sp (xrff_attrs l n_output output_index index cols) (fun _ => True).
Proof.
  induction l as [|a r IH]; intros n_output output_index index cols; cbn [xrff_attrs].
  - apply sp_Ok. exact I.
  - cbv zeta. destruct (xa_class_yes a && Nat.ltb 1 (if xa_class_yes a then S n_output else n_output)).
    + apply sp_Exn.
    + apply IH.
Qed.

Section Xrff.
Variable is_number : bytes -> bool.
Variable stod : bytes -> conv.
Variable stoi : bytes -> conv.

Lemma xrff_instances_sp : forall flt output_index l df,
  sp (xrff_instances is_number stod stoi fixed_v flt output_index l df) (fun _ => True).
Proof.
  intros flt output_index. induction l as [|rcd0 rest IH]; intros df; cbn [xrff_instances].
  - apply sp_Ok. exact I.
  - destruct (flt rcd0) as [rcd|]; [|apply IH].
    cbn [g_rotate_xrff fixed_v andb]. destruct (Nat.leb (length rcd) output_index) eqn:E; [apply IH|].
    apply Nat.leb_gt in E.
    eapply sp_bind; [apply rotate_front_sp; assumption|]. intros rcd' _.
    eapply sp_bind; [apply read_record_sp|]. intros df' _. apply IH.
Qed.

Lemma read_xrff_sp : forall dom flt,
  sp (read_xrff is_number stod stoi fixed_v dom flt)
     (fun p => snd p = 0 \/
               (snd p = length (dataset (fst p)) /\ is_valid (fst p) = Ok true /\
                uniform_input_width (fst p))).
Proof.
  intros dom flt. unfold read_xrff.
  destruct (x_attributes dom) as [attrs|]; [|apply sp_Exn].
  eapply sp_bind; [apply xrff_attrs_sp|]. intros [[[n_output output_index] index] cols] _.
  destruct (is_nil cols); [apply sp_Exn|]. cbv zeta.
  destruct (x_instances dom) as [insts|]; [|apply sp_Exn].
  eapply sp_bind; [apply xrff_instances_sp|]. intros df _.
  destruct (is_valid_sp df) as [Hs Hp].
  destruct (is_valid df) as [ok|e|s] eqn:Ev; cbn [bind].
  - apply sp_Ok. cbn [fst snd]. destruct ok; [right|left; reflexivity].
    split; [reflexivity|]. split; [assumption|]. apply (Hp true); reflexivity.
  - apply sp_Exn.
  - exfalso. eapply Hs. reflexivity.
Qed.
End Xrff.

Lemma read_xrff_total_safe_lemma : forall is_number stod stoi (dom : xdom) (flt : filter_t),
  safe (read_xrff is_number stod stoi fixed_v dom flt)
  /\ (forall df n, read_xrff is_number stod stoi fixed_v dom flt = Ok (df, n) ->
        n = 0%nat \/ (n = length (dataset df) /\ is_valid df = Ok true /\ uniform_input_width df)).
Proof.
  intros is_number stod stoi dom flt.
  destruct (read_xrff_sp is_number stod stoi dom flt) as [Hs Hp]. split; [assumption|].
  intros df n E. exact (Hp (df, n) E).
Qed.

(* ------------------------------------------------------------ terminals / fetch_var *)
Lemma category_set_length : forall cols strong categories acc,
  length (category_set cols strong categories acc) = length acc + length cols.
Proof.
  induction cols as [|c r IH]; intros strong categories acc; cbn [category_set length]; [lia|].
  cbv zeta.
  destruct (domain_eqb (c_domain c) DVoid); [rewrite IH, app_length; cbn [length]; lia|].
  destruct (strong || domain_eqb (c_domain c) DString); [rewrite IH, app_length; cbn [length]; lia|].
  destruct (find_domain acc (c_domain c)); rewrite IH, app_length; cbn [length]; lia.
Qed.

Definition MInv (D : list domain) (i : nat) (st : nat * list var_info) : Prop :=
  fst st = nvd (tl (firstn i D)) /\ Forall (fun vi => v_id vi < fst st) (snd st).

Lemma term_step_sp : forall cols cats i st,
  length cats = length cols -> 1 <= i < length cols -> MInv (doms cols) i st ->
  sp (term_step fixed_v cols cats i st) (MInv (doms cols) (S i)).
Proof.
  intros cols cats i [next vars] Hl Hi [Hn HF]. cbn [fst snd] in Hn, HF. unfold term_step.
  destruct (nth_error cols i) as [c|] eqn:En; [|apply nth_error_None in En; lia].
  assert (HD : nth_error (doms cols) i = Some (c_domain c))
    by (unfold doms; apply map_nth_error; assumption).
  pose proof (nvd_step _ _ _ HD) as Hstep. destruct i as [|j]; [lia|].
  unfold nonvoid in Hstep. cbn [g_terminals fixed_v andb].
  destruct (domain_eqb (c_domain c) DVoid) eqn:Ev; cbn [negb] in Hstep.
  - apply sp_Ok. split; cbn [fst snd]; [lia|assumption].
  - eapply sp_bind; [apply sp_get; lia|]. intros cat _. apply sp_Ok. split; cbn [fst snd]; [lia|].
    apply Forall_app. split.
    + eapply Forall_impl; [|exact HF]. cbv beta. intros vi H. lia.
    + constructor; [cbn [v_id]; lia|constructor].
Qed.

Lemma setup_terminals_sp : forall cols strong,
  sp (setup_terminals fixed_v cols strong)
     (fun vars => Forall (fun vi => v_id vi < nvd (tl (doms cols))) vars).
Proof.
  intros cols strong. unfold setup_terminals.
  destruct (Nat.ltb (length cols) 2) eqn:E; [apply sp_Exn|]. apply Nat.ltb_ge in E.
  eapply sp_bind.
  - apply for_ck_seq_rule with (Inv := MInv (doms cols)).
    + split; cbn [fst snd]; [|constructor]. destruct cols; reflexivity.
    + intros i st Hi HI. apply term_step_sp; [|lia|assumption].
      rewrite category_set_length. reflexivity.
  - intros [next vars] [Hn HF]. cbn [fst snd] in Hn, HF. apply sp_Ok. cbn [snd].
    rewrite firstn_all2 in Hn by (unfold doms; rewrite map_length; lia).
    rewrite <- Hn. assumption.
Qed.

Lemma terminals_fetch_safe_lemma : forall is_number stod stoi (text : bytes) (p : params) df strong,
  read_csv is_number stod stoi fixed_v text p = Ok df ->
  safe (setup_terminals fixed_v (columns df) strong) /\
  (forall vars, setup_terminals fixed_v (columns df) strong = Ok vars ->
     forall vi e, In vi vars -> In e (dataset df) ->
       v_id vi < length (e_input e) /\ safe (run_variable vi e)).
Proof.
  intros is_number stod stoi text p df strong E.
  destruct (read_csv_sp is_number stod stoi text p) as [_ Hp].
  destruct (Hp df E) as (Hv & Hne & [n Hu] & HL).
  destruct (setup_terminals_sp (columns df) strong) as [Hs Hq]. split; [assumption|].
  intros vars Ev vi e Hvi He.
  destruct (exists_last Hne) as (l & elast & Hd).
  pose proof (HL l elast Hd) as Hw.
  rewrite Forall_forall in Hu.
  assert (Hn : n = nvd (tl (doms (columns df)))).
  { rewrite <- Hw. symmetry. apply Hu. rewrite Hd. apply in_or_app. right. left. reflexivity. }
  pose proof (Hq vars Ev) as HF. rewrite Forall_forall in HF.
  assert (Hlt : v_id vi < length (e_input e)).
  { rewrite (Hu e He), Hn. apply HF. assumption. }
  split; [assumption|]. unfold run_variable. eapply sp_safe. apply sp_get. assumption.
Qed.
