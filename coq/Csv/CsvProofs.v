(* Lemmas about the CSV line parser and the RFC-4180 writer (C09). *)
From Coq Require Import ZArith List Bool Lia ZifyBool.
From VV Require Import Csv.CsvDefs.
Import ListNotations.
Local Open Scope Z_scope.
Local Open Scope bool_scope.

(* a character that may appear in a cell: anything but NUL, LF, CR *)
Definition ok_char (c : Z) : Prop := c <> 0 /\ c <> 10 /\ c <> 13.
Definition ok_field (f : bytes) : Prop := Forall ok_char f.
Definition usual_delimiter (d : Z) : Prop := In d [44; 59; 9; 58; 124].

Definition field_out (dl : dialect) (f : bytes) : bytes := if trim_ws dl then trim f else f.

Lemma add_field_eq : forall dl rcd cur, add_field dl rcd cur = rcd ++ [field_out dl cur].
Proof. reflexivity. Qed.

Section ParseRender.
Variable dl : dialect.
Hypothesis Hq : quoting dl = REMOVE_QUOTES.
Hypothesis Hd0 : delimiter dl <> 0.
Hypothesis Hd34 : delimiter dl <> 34.

Lemma keepq_false : keepq dl = false.
Proof. unfold keepq. rewrite Hq. reflexivity. Qed.

Definition plain (c : Z) : Prop := c <> 0 /\ c <> 34 /\ c <> delimiter dl /\ c <> 10 /\ c <> 13.

Lemma pl_plain : forall f rest cur rcd, Forall plain f ->
  pl dl (f ++ rest) false cur rcd = pl dl rest false (cur ++ f) rcd.
Proof.
  induction f as [|c f IH]; intros rest cur rcd HF.
  - rewrite app_nil_r. reflexivity.
  - inversion HF as [|? ? Hc HF']; subst. destruct Hc as (H0 & H34 & Hdl & H10 & H13).
    cbn [app pl].
    replace (c =? 0) with false by lia.
    replace (c =? 34) with false by lia.
    replace (c =? delimiter dl) with false by lia.
    replace (c =? 13) with false by lia.
    replace (c =? 10) with false by lia.
    rewrite andb_false_r. cbn [negb andb orb].
    rewrite IH by assumption. rewrite <- app_assoc. reflexivity.
Qed.

Definition no_quote_next (rest : bytes) : Prop := match rest with [] => True | c :: _ => c <> 34 end.

Lemma pl_quoted_body : forall f rest cur rcd, ok_field f -> no_quote_next rest ->
  pl dl (escape_quotes f ++ 34 :: rest) true cur rcd = pl dl rest false (cur ++ f) rcd.
Proof.
  induction f as [|c f IH]; intros rest cur rcd HF Hn.
  - cbn [escape_quotes app pl]. cbn [Z.eqb Pos.eqb negb andb]. rewrite keepq_false.
    rewrite app_nil_r.
    destruct rest as [|c2 r]; [reflexivity|].
    cbn in Hn. replace (c2 =? 34) with false by lia. reflexivity.
  - inversion HF as [|? ? Hc HF']; subst. destruct Hc as (H0 & H10 & H13).
    cbn [escape_quotes].
    destruct (c =? 34) eqn:E.
    + assert (c = 34) by lia. subst c.
      cbn [app pl]. cbn [Z.eqb Pos.eqb negb andb].
      rewrite IH by assumption. rewrite <- app_assoc. reflexivity.
    + cbn [app pl]. rewrite E.
      replace (c =? 0) with false by lia.
      cbn [negb andb]. rewrite IH by assumption. rewrite <- app_assoc. reflexivity.
Qed.

Definition rest_ok (rest : bytes) : Prop := rest = [] \/ exists r, rest = delimiter dl :: r.

Lemma rest_ok_no_quote : forall rest, rest_ok rest -> no_quote_next rest.
Proof. intros rest [->|[r ->]]; cbn; auto. Qed.

Lemma needs_quote_false_plain : forall f, ok_field f -> needs_quote (delimiter dl) f = false -> Forall plain f.
Proof.
  intros f HF Hn. unfold needs_quote in Hn.
  apply orb_false_iff in Hn. destruct Hn as [Hn _]. apply orb_false_iff in Hn. destruct Hn as [Hn _].
  induction f as [|c f IH]; [constructor|].
  inversion HF as [|? ? Hc HF']; subst. cbn [existsb] in Hn. apply orb_false_iff in Hn. destruct Hn as [Hc2 Hn].
  constructor; [|auto]. destruct Hc as (H0 & H10 & H13). unfold plain. lia.
Qed.

Lemma pl_field : forall f rest rcd, ok_field f -> rest_ok rest ->
  pl dl (render_field (delimiter dl) f ++ rest) false [] rcd = pl dl rest false f rcd.
Proof.
  intros f rest rcd HF Hr. unfold render_field.
  destruct (needs_quote (delimiter dl) f) eqn:E.
  - cbn [app pl]. cbn [Z.eqb Pos.eqb negb andb]. unfold blank at 1. cbn [trim drop_space rev app is_nil andb].
    rewrite keepq_false. rewrite <- app_assoc. cbn [app].
    rewrite pl_quoted_body by (auto using rest_ok_no_quote). reflexivity.
  - rewrite pl_plain by (apply needs_quote_false_plain; assumption). reflexivity.
Qed.

Lemma render_line_cons : forall d f f2 r,
  render_line d (f :: f2 :: r) = render_field d f ++ d :: render_line d (f2 :: r).
Proof. reflexivity. Qed.

Lemma pl_delim : forall rest cur rcd,
  pl dl (delimiter dl :: rest) false cur rcd = pl dl rest false [] (add_field dl rcd cur).
Proof.
  intros. cbn [pl].
  replace (delimiter dl =? 0) with false by lia.
  replace (delimiter dl =? 34) with false by lia.
  rewrite andb_false_r. cbn [negb andb]. rewrite Z.eqb_refl. reflexivity.
Qed.

Lemma pl_line : forall fs f rcd, Forall ok_field (f :: fs) ->
  pl dl (render_line (delimiter dl) (f :: fs)) false [] rcd = rcd ++ map (field_out dl) (f :: fs).
Proof.
  induction fs as [|f2 fs IH]; intros f rcd HF; inversion HF as [|? ? Hf HF']; subst.
  - cbn [render_line]. rewrite <- (app_nil_r (render_field _ f)).
    rewrite pl_field by (auto; left; reflexivity). cbn [pl map]. apply add_field_eq.
  - rewrite render_line_cons.
    rewrite pl_field by (auto; right; eexists; reflexivity).
    rewrite pl_delim. rewrite IH by assumption. rewrite add_field_eq. rewrite <- app_assoc. reflexivity.
Qed.

Lemma parse_render_gen : forall fields, fields <> [] -> Forall ok_field fields ->
  parse_line dl (render_line (delimiter dl) fields) = map (field_out dl) fields.
Proof.
  intros [|f fs] Hne HF; [congruence|]. unfold parse_line. rewrite pl_line by assumption. reflexivity.
Qed.
End ParseRender.

Lemma usual_delimiter_ok : forall d, usual_delimiter d -> d <> 0 /\ d <> 34.
Proof. unfold usual_delimiter. cbn. intros d H. lia. Qed.

Lemma parse_render_lemma : forall dl fields,
  quoting dl = REMOVE_QUOTES -> usual_delimiter (delimiter dl) ->
  fields <> [] -> Forall ok_field fields ->
  parse_line dl (render_line (delimiter dl) fields) = map (field_out dl) fields.
Proof.
  intros dl fields Hq Hd. destruct (usual_delimiter_ok _ Hd). apply parse_render_gen; assumption.
Qed.
