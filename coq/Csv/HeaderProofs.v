(* The header heuristic of pocket_csv (C09), column by column.

   SniffProofs.v characterises has_header on tables whose columns all vote
   the same way.  Here the restriction is removed: the answer is the sign of
   the SUM of one vote per column, the vote of a column depends only on its
   name and on the cells of that column in the rows that are looked at, and
   the classes of columns with their votes are listed.  The last part states
   where the heuristic must fail. *)
From Coq Require Import ZArith List Bool Lia ZifyBool Arith.
From VV Require Import Csv.CsvDefs Csv.SniffProofs.
Import ListNotations.

Definition zsum (l : list Z) : Z := fold_right Z.add 0%Z l.

Lemma for_ck_zsum : forall n a (body : nat -> Z -> res Z) (d : nat -> Z) v0,
  (forall i v, a <= i < a + n -> body i v = Ok (v + d i)%Z) ->
  for_ck (seq a n) body v0 = Ok (v0 + zsum (map d (seq a n)))%Z.
Proof.
  induction n as [|n IH]; intros a body d v0 H; cbn [seq for_ck map]; unfold zsum; cbn [fold_right].
  - f_equal. lia.
  - rewrite H by lia. cbn [bind]. rewrite (IH (S a) body d).
    + f_equal. unfold zsum. lia.
    + intros i v Hi. apply H. lia.
Qed.

Lemma Forall_firstn' : forall A (P : A -> Prop) n l, Forall P l -> Forall P (firstn n l).
Proof.
  intros A P n. induction n as [|n IH]; intros l H; [constructor|].
  destruct H as [|x l Hx Hl]; cbn [firstn]; constructor; [exact Hx|apply IH; exact Hl].
Qed.

(* the two record streams has_header reads: the header with the quotes kept,
   the rows (all but the first record) with the quotes removed *)
Definition sniff_input (delim : Z) (text : bytes) (header : record) (rows : list record) : Prop :=
  (exists tlk, records {| delimiter := delim; trim_ws := false; has_header := HAS_HEADER; quoting := KEEP_QUOTES |}
                       no_filter text = header :: tlk) /\
  (exists first, records {| delimiter := delim; trim_ws := false; has_header := HAS_HEADER; quoting := REMOVE_QUOTES |}
                         no_filter text = first :: rows).

Section Columns.
Variable is_number : bytes -> bool.

(* ------------------------------------------------------------ one column *)
Definition col_tag_from (h : bytes) (cells : list bytes) (t0 : Z) : Z :=
  fold_left (fun t c => new_tag is_number h c t) cells t0.

(* the tag the column named h ends with after its cells have been seen *)
Definition col_tag (h : bytes) (cells : list bytes) : Z := col_tag_from h cells none_tag.

(* the vote of a column from its final tag and its name (hh_vote) *)
Definition col_vote (h : bytes) (ty : Z) : Z :=
  if (ty =? none_tag)%Z then (if is_nil h then -1 else 1)%Z
  else if (ty =? skip_tag)%Z then 0%Z
  else if (ty =? number_tag)%Z then (if is_number h then -1 else 1)%Z
  else if (ty =? string_tag)%Z then 1%Z
  else if (Z.of_nat (length h) =? ty)%Z then (-1)%Z else 1%Z.

Definition column (j : nat) (rows : list record) : list bytes := map (fun r => nth j r []) rows.

(* the rows has_header looks at: rows of another width are skipped (and not
   counted), the loop stops after lines + 2 rows (if (checked++ > lines) break
   is tested after the row has been used) *)
Definition looked (columns lines : nat) (rows : list record) : list record :=
  firstn (lines + 2) (filter (fun r => Nat.eqb (length r) columns) rows).

Definition total_vote (header : record) (rws : list record) : Z :=
  zsum (map (fun j => col_vote (nth j header []) (col_tag (nth j header []) (column j rws)))
            (seq 0 (length header))).

Lemma looked_width : forall columns lines rows,
  Forall (fun r => length r = columns) (looked columns lines rows).
Proof.
  intros columns lines rows. unfold looked. apply Forall_firstn'. apply Forall_forall.
  intros r Hr. apply filter_In in Hr. destruct Hr as [_ Hr]. apply Nat.eqb_eq. exact Hr.
Qed.

Lemma looked_all : forall columns lines rows,
  Forall (fun r => length r = columns) rows -> length rows <= lines + 2 ->
  looked columns lines rows = rows.
Proof.
  intros columns lines rows Hw Hl. unfold looked.
  assert (Hf : filter (fun r => Nat.eqb (length r) columns) rows = rows).
  { clear Hl. induction Hw as [|r rows Hr _ IH]; [reflexivity|]. cbn [filter]. rewrite Hr, Nat.eqb_refl, IH. reflexivity. }
  rewrite Hf. apply firstn_all2. exact Hl.
Qed.

(* ------------------------------------------------------------ the rows loop is a fold *)
Definition step (header : record) (ts : list Z) (row : record) : list Z := upd is_number header row ts.

Lemma upd_length : forall hs rs ts, length rs = length hs -> length ts = length hs ->
  length (upd is_number hs rs ts) = length hs.
Proof.
  induction hs as [|h hs IH]; intros [|c rs] [|t ts] Hr Ht; try discriminate; [reflexivity|].
  cbn [upd length] in *. rewrite IH; lia.
Qed.

Lemma upd_nth : forall hs rs ts j, length rs = length hs -> length ts = length hs -> j < length hs ->
  nth j (upd is_number hs rs ts) 0%Z = new_tag is_number (nth j hs []) (nth j rs []) (nth j ts 0%Z).
Proof.
  induction hs as [|h hs IH]; intros [|c rs] [|t ts] j Hr Ht Hj; try discriminate; cbn [length] in *; [lia|].
  destruct j as [|j]; cbn [upd nth]; [reflexivity|]. apply IH; lia.
Qed.

Lemma row_step_gen : forall header row ts, length row = length header -> length ts = length header ->
  for_ck (seq 0 (length header)) (hh_field is_number header row) ts = Ok (upd is_number header row ts).
Proof.
  intros header row ts Hr Hts.
  apply (for_ck_fields is_number header row ts [] [] [] 0); try reflexivity; assumption.
Qed.

Lemma fold_step_length : forall header rows ts,
  Forall (fun r => length r = length header) rows -> length ts = length header ->
  length (fold_left (step header) rows ts) = length header.
Proof.
  intros header rows. induction rows as [|r rows IH]; intros ts Hw Hts; [exact Hts|].
  inversion Hw as [|? ? Hr Hrest]; subst. cbn [fold_left]. apply IH; [exact Hrest|].
  unfold step. apply upd_length; assumption.
Qed.

Lemma hh_rows_fold : forall header lines rows ts checked,
  length ts = length header -> checked <= lines + 1 ->
  hh_rows is_number header (length header) rows ts checked lines
  = Ok (fold_left (step header)
          (firstn (lines + 2 - checked) (filter (fun r => Nat.eqb (length r) (length header)) rows)) ts).
Proof.
  intros header lines rows. induction rows as [|row rest IH]; intros ts checked Hts Hck.
  - cbn [hh_rows filter]. rewrite firstn_nil. reflexivity.
  - cbn [hh_rows filter]. destruct (Nat.eqb (length row) (length header)) eqn:Ew.
    + apply Nat.eqb_eq in Ew. rewrite (row_step_gen header row ts Ew Hts). cbn [bind].
      destruct (Nat.ltb lines checked) eqn:El.
      * replace (lines + 2 - checked) with 1 by lia. cbn [firstn fold_left]. reflexivity.
      * replace (lines + 2 - checked) with (S (lines + 2 - S checked)) by lia. cbn [firstn fold_left].
        apply IH; [|lia]. apply upd_length; assumption.
    + apply IH; assumption.
Qed.

Lemma fold_step_nth : forall header rows ts j,
  Forall (fun r => length r = length header) rows -> length ts = length header -> j < length header ->
  nth j (fold_left (step header) rows ts) 0%Z
  = col_tag_from (nth j header []) (column j rows) (nth j ts 0%Z).
Proof.
  intros header rows. induction rows as [|r rows IH]; intros ts j Hw Hts Hj; [reflexivity|].
  inversion Hw as [|? ? Hr Hrest]; subst. unfold col_tag_from, column in *. cbn [fold_left map].
  rewrite IH; [|exact Hrest|unfold step; apply upd_length; assumption|exact Hj].
  unfold step. rewrite upd_nth by assumption. reflexivity.
Qed.

Lemma hh_vote_col : forall header types j v, j < length header -> length types = length header ->
  hh_vote is_number header j types v = Ok (v + col_vote (nth j header []) (nth j types 0%Z))%Z.
Proof.
  intros header types j v Hj Hl. unfold hh_vote, get.
  rewrite (nth_error_nth' types 0%Z) by lia. rewrite (nth_error_nth' header []) by lia. cbn [bind].
  unfold col_vote.
  destruct (nth j types 0 =? none_tag)%Z; [destruct (is_nil (nth j header [])); f_equal; lia|].
  destruct (nth j types 0 =? skip_tag)%Z; [f_equal; lia|].
  destruct (nth j types 0 =? number_tag)%Z; [destruct (is_number (nth j header [])); f_equal; lia|].
  destruct (nth j types 0 =? string_tag)%Z; [reflexivity|].
  destruct (Z.of_nat (length (nth j header [])) =? nth j types 0)%Z; f_equal; lia.
Qed.

(* ------------------------------------------------------------ (1) the answer is the sign of the sum of the
   column votes.  Nothing is assumed about the cells; rows of another width
   and rows after the first lines + 2 do not matter ([looked]). *)
Theorem sniff_has_header_columns : forall text lines delim header rows,
  sniff_input delim text header rows ->
  sniff_has_header is_number text lines delim
  = Ok (if (0 <? total_vote header (looked (length header) lines rows))%Z then HAS_HEADER else NO_HEADER).
Proof.
  intros text lines delim header rows ((tlk & Hk) & (first & Hr)).
  unfold sniff_has_header. cbv zeta. rewrite Hk, Hr. cbn [tl].
  rewrite (hh_rows_fold header lines rows (repeat none_tag (length header)) 0) by (try apply repeat_length; lia).
  cbn [bind]. rewrite Nat.sub_0_r. fold (looked (length header) lines rows).
  pose proof (looked_width (length header) lines rows) as Hw.
  set (rws := looked (length header) lines rows) in *.
  assert (Hlen : length (fold_left (step header) rws (repeat none_tag (length header))) = length header)
    by (apply fold_step_length; [exact Hw|apply repeat_length]).
  rewrite (for_ck_zsum (length header) 0 _
             (fun j => col_vote (nth j header []) (col_tag (nth j header []) (column j rws))) 0%Z).
  - cbn [bind]. reflexivity.
  - intros i v Hi. rewrite hh_vote_col by (try exact Hlen; lia). do 2 f_equal.
    rewrite fold_step_nth by (try exact Hw; try apply repeat_length; lia).
    unfold col_tag. change 0%Z with none_tag. rewrite nth_repeat. reflexivity.
Qed.

(* ------------------------------------------------------------ (2) classes of columns and their votes *)
Lemma col_tag_from_skip : forall h cells, col_tag_from h cells skip_tag = skip_tag.
Proof. intros h cells. induction cells as [|c cells IH]; [reflexivity|exact IH]. Qed.

(* blank cells never matter (hh_field returns before looking at the tag) *)
Definition nonblank (cells : list bytes) : list bytes := filter (fun c => negb (blank c)) cells.

Lemma col_tag_nonblank : forall h cells, col_tag h cells = col_tag h (nonblank cells).
Proof.
  intros h cells. unfold col_tag. generalize none_tag as t0.
  induction cells as [|c cells IH]; intros t0; [reflexivity|].
  unfold col_tag_from, nonblank in *. cbn [fold_left filter]. destruct (blank c) eqn:Eb; cbn [negb].
  - replace (new_tag is_number h c t0) with t0; [apply IH|].
    unfold new_tag. rewrite Eb. destruct (t0 =? skip_tag)%Z; reflexivity.
  - cbn [fold_left]. apply IH.
Qed.

Lemma nonblank_all : forall cells, Forall (fun c => blank c = false) cells -> nonblank cells = cells.
Proof.
  intros cells H. induction H as [|c cells Hc _ IH]; [reflexivity|].
  unfold nonblank in *. cbn [filter]. rewrite Hc, IH. reflexivity.
Qed.

Lemma col_vote_tagf : forall h, col_vote h (tagf h) = vote_of is_number h.
Proof. intros h. unfold tagf, vote_of, col_vote. destruct (capitalized h); reflexivity. Qed.

Lemma nonblank_length : forall c, blank c = false -> 1 <= length c.
Proof. intros [|x c] H; [discriminate|cbn [length]; lia]. Qed.

(* numeric columns (2a) (2a') (2b): the cells are [good_cell]s of SniffProofs *)
Lemma good_col_tag : forall h cells, cells <> [] -> Forall (good_cell is_number h) cells ->
  col_tag h cells = tagf h.
Proof.
  intros h [|c cells] Hne HF; [congruence|]. inversion HF as [|? ? Hc Hrest]; subst.
  unfold col_tag, col_tag_from. cbn [fold_left]. rewrite (new_tag_none is_number h c Hc).
  clear Hc HF Hne. induction Hrest as [|c' cells Hc' _ IH]; [reflexivity|].
  cbn [fold_left]. rewrite (new_tag_tagf is_number h c' Hc'). exact IH.
Qed.

Definition num_cell (c : bytes) : Prop := blank c = false /\ is_number (trim c) = true.

(* (2a) letter-free numbers under a name that is not a number *)
Definition cls_named_numeric (h : bytes) (cells : list bytes) : Prop :=
  is_number h = false /\ cells <> [] /\ Forall (fun c => num_cell c /\ plain_num c) cells.

(* (2a') numbers in any spelling under a name that is not a number and is
   neither capitalized nor upper case *)
Definition cls_lowname_numeric (h : bytes) (cells : list bytes) : Prop :=
  is_number h = false /\ capitalized h = false /\ upper_case h = false /\
  cells <> [] /\ Forall num_cell cells.

(* (2b) letter-free numbers under a letter-free number *)
Definition cls_all_numeric (h : bytes) (cells : list bytes) : Prop :=
  is_number h = true /\ plain_num h /\ cells <> [] /\ Forall (fun c => num_cell c /\ plain_num c) cells.

Lemma vote_named_numeric : forall h cells, cls_named_numeric h cells ->
  col_tag h cells = tagf h /\ col_vote h (col_tag h cells) = 1%Z.
Proof.
  intros h cells (Hn & Hne & HF).
  assert (Ht : col_tag h cells = tagf h).
  { apply good_col_tag; [exact Hne|]. eapply Forall_impl; [|exact HF].
    intros c ((Hb & Hnum) & Hp). unfold good_cell. auto. }
  split; [exact Ht|]. rewrite Ht, col_vote_tagf. unfold vote_of. rewrite Hn. destruct (capitalized h); reflexivity.
Qed.

Lemma vote_lowname_numeric : forall h cells, cls_lowname_numeric h cells ->
  col_tag h cells = number_tag /\ col_vote h (col_tag h cells) = 1%Z.
Proof.
  intros h cells (Hn & Hc & Hu & Hne & HF).
  assert (Ht : col_tag h cells = tagf h).
  { apply good_col_tag; [exact Hne|]. eapply Forall_impl; [|exact HF].
    intros c (Hb & Hnum). unfold good_cell. auto. }
  rewrite Ht, col_vote_tagf. unfold vote_of, tagf. rewrite Hn, Hc. split; reflexivity.
Qed.

Lemma vote_all_numeric : forall h cells, cls_all_numeric h cells ->
  col_tag h cells = number_tag /\ col_vote h (col_tag h cells) = (-1)%Z.
Proof.
  intros h cells (Hn & Hp & Hne & HF).
  assert (Ht : col_tag h cells = tagf h).
  { apply good_col_tag; [exact Hne|]. eapply Forall_impl; [|exact HF].
    intros c ((Hb & Hnum) & Hpc). unfold good_cell. auto. }
  rewrite Ht, col_vote_tagf. unfold vote_of, tagf. rewrite (plain_not_capitalized h Hp), Hn. split; reflexivity.
Qed.

(* text cells on which neither case rule fires *)
Definition text_cell (h c : bytes) : Prop :=
  blank c = false /\ is_number (trim c) = false /\
  capitalized h && lower_case c = false /\ upper_case h && negb (upper_case c) = false.

Lemma text_new_tag : forall h c ty, text_cell h c ->
  new_tag is_number h c ty
  = if (ty =? skip_tag)%Z then ty else if (ty =? Z.of_nat (length c))%Z then ty
    else if (ty =? none_tag)%Z then Z.of_nat (length c) else skip_tag.
Proof.
  intros h c ty (Hb & Hn & H1 & H2). unfold new_tag, find_column_tag. cbv zeta.
  unfold blank in Hb. unfold blank. rewrite Hb, Hn, H1, H2. reflexivity.
Qed.

Lemma text_from_width : forall h cells w, 1 <= w -> Forall (text_cell h) cells ->
  col_tag_from h cells (Z.of_nat w)
  = if forallb (fun c => Nat.eqb (length c) w) cells then Z.of_nat w else skip_tag.
Proof.
  intros h cells w Hw HF. induction HF as [|c cells Hc _ IH]; [reflexivity|].
  unfold col_tag_from in *. cbn [fold_left forallb]. rewrite (text_new_tag h c _ Hc).
  unfold skip_tag, none_tag in *.
  destruct (Z.of_nat w =? -1)%Z eqn:E1; [lia|].
  destruct (Nat.eqb (length c) w) eqn:E2.
  - replace (Z.of_nat w =? Z.of_nat (length c))%Z with true by lia. cbn [andb]. exact IH.
  - replace (Z.of_nat w =? Z.of_nat (length c))%Z with false by lia.
    replace (Z.of_nat w =? 0)%Z with false by lia. cbn [andb].
    exact (col_tag_from_skip h cells).
Qed.

Lemma text_first : forall h c, text_cell h c -> new_tag is_number h c none_tag = Z.of_nat (length c).
Proof.
  intros h c Hc. rewrite (text_new_tag h c _ Hc). pose proof (nonblank_length c (proj1 Hc)) as Hl.
  unfold none_tag, skip_tag. destruct (0 =? Z.of_nat (length c))%Z eqn:E; [lia|reflexivity].
Qed.

(* (2c) fixed-width text *)
Definition cls_fixed_text (w : nat) (h : bytes) (cells : list bytes) : Prop :=
  cells <> [] /\ Forall (fun c => text_cell h c /\ length c = w) cells.

(* (2d) variable-width text *)
Definition cls_variable_text (h : bytes) (cells : list bytes) : Prop :=
  Forall (text_cell h) cells /\
  exists c1 c2, In c1 cells /\ In c2 cells /\ length c1 <> length c2.

Lemma tag_fixed_text : forall w h cells, cls_fixed_text w h cells ->
  1 <= w /\ col_tag h cells = Z.of_nat w.
Proof.
  intros w h [|c cells] (Hne & HF); [congruence|]. inversion HF as [|? ? (Hc & Hl) Hrest]; subst.
  pose proof (nonblank_length c (proj1 Hc)) as Hw. split; [exact Hw|].
  unfold col_tag, col_tag_from. cbn [fold_left]. rewrite (text_first h c Hc).
  fold (col_tag_from h cells (Z.of_nat (length c))). rewrite text_from_width.
  - replace (forallb (fun c0 => Nat.eqb (length c0) (length c)) cells) with true; [reflexivity|].
    symmetry. apply forallb_forall. intros x Hx. rewrite Forall_forall in Hrest.
    apply Nat.eqb_eq. exact (proj2 (Hrest x Hx)).
  - exact Hw.
  - eapply Forall_impl; [|exact Hrest]. intros x Hx. exact (proj1 Hx).
Qed.

Lemma vote_fixed_text : forall w h cells, cls_fixed_text w h cells ->
  col_vote h (col_tag h cells) = if Nat.eqb (length h) w then (-1)%Z else 1%Z.
Proof.
  intros w h cells Hc. destruct (tag_fixed_text w h cells Hc) as (Hw & Ht). rewrite Ht.
  unfold col_vote, none_tag, skip_tag, number_tag, string_tag.
  replace (Z.of_nat w =? 0)%Z with false by lia. replace (Z.of_nat w =? -1)%Z with false by lia.
  replace (Z.of_nat w =? -2)%Z with false by lia. replace (Z.of_nat w =? -3)%Z with false by lia.
  destruct (Nat.eqb (length h) w) eqn:E.
  - replace (Z.of_nat (length h) =? Z.of_nat w)%Z with true by lia. reflexivity.
  - replace (Z.of_nat (length h) =? Z.of_nat w)%Z with false by lia. reflexivity.
Qed.

Lemma vote_variable_text : forall h cells, cls_variable_text h cells ->
  col_tag h cells = skip_tag /\ col_vote h (col_tag h cells) = 0%Z.
Proof.
  intros h cells (HF & c1 & c2 & H1 & H2 & Hd).
  assert (Ht : col_tag h cells = skip_tag).
  { destruct cells as [|c cells]; [destruct H1|]. inversion HF as [|? ? Hc Hrest]; subst.
    pose proof (nonblank_length c (proj1 Hc)) as Hw.
    unfold col_tag, col_tag_from. cbn [fold_left]. rewrite (text_first h c Hc).
    fold (col_tag_from h cells (Z.of_nat (length c))). rewrite (text_from_width h cells _ Hw Hrest).
    destruct (forallb (fun c0 => Nat.eqb (length c0) (length c)) cells) eqn:E; [|reflexivity].
    exfalso. rewrite forallb_forall in E.
    assert (Hall : forall x, In x (c :: cells) -> length x = length c).
    { intros x [<-|Hx]; [reflexivity|]. apply Nat.eqb_eq. apply E. exact Hx. }
    rewrite (Hall c1 H1), (Hall c2 H2) in Hd. congruence. }
  split; [exact Ht|]. rewrite Ht. reflexivity.
Qed.

(* (2e) a capitalized name over lower-case cells (text of any width, or
   numbers: "123" is lower case): rule 1 fires on every cell *)
Definition cls_cap_lower (h : bytes) (cells : list bytes) : Prop :=
  capitalized h = true /\ cells <> [] /\ Forall (fun c => blank c = false /\ lower_case c = true) cells.

Lemma cap_lower_new_tag : forall h c ty, capitalized h = true -> blank c = false -> lower_case c = true ->
  ty = none_tag \/ ty = string_tag -> new_tag is_number h c ty = string_tag.
Proof.
  intros h c ty Hh Hb Hl Hty. unfold new_tag. rewrite Hb, Hh, Hl. cbn [andb].
  pose proof (nonblank_length c Hb) as Hlen.
  assert (Hne : (ty =? find_column_tag is_number c)%Z = false).
  { unfold find_column_tag. cbv zeta. unfold blank in Hb. rewrite Hb.
    unfold none_tag, string_tag, number_tag in *. destruct (is_number (trim c)); lia. }
  rewrite Hne. unfold none_tag, string_tag, skip_tag in *. destruct Hty; subst ty; reflexivity.
Qed.

Lemma vote_cap_lower : forall h cells, cls_cap_lower h cells ->
  col_tag h cells = string_tag /\ col_vote h (col_tag h cells) = 1%Z.
Proof.
  intros h cells (Hh & Hne & HF).
  assert (Hgen : forall ty, ty = none_tag \/ ty = string_tag -> cells <> [] ->
                            col_tag_from h cells ty = string_tag).
  { clear Hne. induction HF as [|c cells (Hb & Hl) _ IH]; intros ty Hty Hne; [congruence|].
    unfold col_tag_from in *. cbn [fold_left]. rewrite (cap_lower_new_tag h c ty Hh Hb Hl Hty).
    destruct cells as [|c' cells']; [reflexivity|]. apply IH; [right; reflexivity|discriminate]. }
  assert (Ht : col_tag h cells = string_tag) by (apply Hgen; [left; reflexivity|exact Hne]).
  split; [exact Ht|]. rewrite Ht. reflexivity.
Qed.

(* (2f) a blank column *)
Definition cls_blank (cells : list bytes) : Prop := Forall (fun c => blank c = true) cells.

Lemma vote_blank : forall h cells, cls_blank cells ->
  col_tag h cells = none_tag /\ col_vote h (col_tag h cells) = if is_nil h then (-1)%Z else 1%Z.
Proof.
  intros h cells HF.
  assert (Ht : col_tag h cells = none_tag).
  { unfold col_tag, col_tag_from. induction HF as [|c cells Hc _ IH]; [reflexivity|].
    cbn [fold_left]. replace (new_tag is_number h c none_tag) with none_tag; [exact IH|].
    unfold new_tag. rewrite Hc. reflexivity. }
  split; [exact Ht|]. rewrite Ht. reflexivity.
Qed.

(* ------------------------------------------------------------ sums of votes *)
Lemma col_vote_bounds : forall h ty, (-1 <= col_vote h ty <= 1)%Z.
Proof.
  intros h ty. unfold col_vote.
  destruct (ty =? none_tag)%Z; [destruct (is_nil h); lia|].
  destruct (ty =? skip_tag)%Z; [lia|].
  destruct (ty =? number_tag)%Z; [destruct (is_number h); lia|].
  destruct (ty =? string_tag)%Z; [lia|].
  destruct (Z.of_nat (length h) =? ty)%Z; lia.
Qed.

Lemma zsum_nonpos : forall (f : nat -> Z) l, (forall j, In j l -> (f j <= 0)%Z) -> (zsum (map f l) <= 0)%Z.
Proof.
  intros f l. induction l as [|x l IH]; intros H; unfold zsum in *; cbn [map fold_right]; [lia|].
  pose proof (H x (or_introl eq_refl)) as Hx.
  assert (Hl : (fold_right Z.add 0 (map f l) <= 0)%Z) by (apply IH; intros j Hj; apply H; right; exact Hj).
  lia.
Qed.

Lemma zsum_nonneg : forall (f : nat -> Z) l, (forall j, In j l -> (0 <= f j)%Z) -> (0 <= zsum (map f l))%Z.
Proof.
  intros f l. induction l as [|x l IH]; intros H; unfold zsum in *; cbn [map fold_right]; [lia|].
  pose proof (H x (or_introl eq_refl)) as Hx.
  assert (Hl : (0 <= fold_right Z.add 0 (map f l))%Z) by (apply IH; intros j Hj; apply H; right; exact Hj).
  lia.
Qed.

Lemma zsum_pos : forall (f : nat -> Z) l, (forall j, In j l -> (0 <= f j)%Z) ->
  (exists j, In j l /\ (0 < f j)%Z) -> (0 < zsum (map f l))%Z.
Proof.
  intros f l. induction l as [|x l IH]; intros H (j & Hj & Hp); [destruct Hj|].
  assert (Hrest : forall i, In i l -> (0 <= f i)%Z) by (intros i Hi; apply H; right; exact Hi).
  pose proof (H x (or_introl eq_refl)) as Hx.
  pose proof (zsum_nonneg f l Hrest) as Hl.
  unfold zsum in *; cbn [map fold_right]. destruct Hj as [<-|Hj]; [lia|].
  assert (0 < fold_right Z.add 0 (map f l))%Z by (apply IH; [exact Hrest|exists j; auto]). lia.
Qed.

Lemma zsum_outvote : forall (f : nat -> Z) (p q : nat -> bool) l,
  (forall j, In j l -> p j = true -> f j = 1%Z) ->
  (forall j, In j l -> p j = false -> q j = false -> f j = 0%Z) ->
  (forall j, (-1 <= f j)%Z) ->
  (Z.of_nat (length (filter p l)) - Z.of_nat (length (filter q l)) <= zsum (map f l))%Z.
Proof.
  intros f p q l. induction l as [|x l IH]; intros Hp Hz Hb; unfold zsum in *; cbn [map fold_right filter length]; [lia|].
  assert (Hl : (Z.of_nat (length (filter p l)) - Z.of_nat (length (filter q l)) <= fold_right Z.add 0 (map f l))%Z).
  { apply IH; [intros j Hj; apply Hp; right; exact Hj|intros j Hj; apply Hz; right; exact Hj|exact Hb]. }
  pose proof (Hp x (or_introl eq_refl)) as Hpx. pose proof (Hz x (or_introl eq_refl)) as Hzx.
  pose proof (Hb x) as Hbx.
  destruct (p x), (q x); cbn [length]; try specialize (Hpx eq_refl); try specialize (Hzx eq_refl eq_refl); lia.
Qed.

(* ------------------------------------------------------------ (3) agreement *)
(* every column / some column of the table satisfies P (name, non-blank
   cells of the column in the rows looked at); missing values are allowed in
   every class since blank cells never matter (col_tag_nonblank) *)
Definition data_cells (j : nat) (rws : list record) : list bytes := nonblank (column j rws).
Definition columns_all (P : bytes -> list bytes -> Prop) (header : record) (rws : list record) : Prop :=
  forall j, j < length header -> P (nth j header []) (data_cells j rws).
Definition columns_some (P : bytes -> list bytes -> Prop) (header : record) (rws : list record) : Prop :=
  exists j, j < length header /\ P (nth j header []) (data_cells j rws).

Lemma cls_blank_data : forall cells, cls_blank cells -> cls_blank (nonblank cells).
Proof.
  intros cells H. unfold cls_blank, nonblank in *. rewrite Forall_forall in *.
  intros c Hc. apply filter_In in Hc. apply H. exact (proj1 Hc).
Qed.

(* the classes that vote for a header, against it, and not at all *)
Definition votes_plus (h : bytes) (cells : list bytes) : Prop :=
  cls_named_numeric h cells \/ cls_lowname_numeric h cells \/
  (exists w, cls_fixed_text w h cells /\ length h <> w) \/
  cls_cap_lower h cells \/ (cls_blank cells /\ h <> []).
Definition votes_minus (h : bytes) (cells : list bytes) : Prop :=
  cls_all_numeric h cells \/ cls_fixed_text (length h) h cells \/ (cls_blank cells /\ h = []).

Lemma votes_plus_vote : forall h cells, votes_plus h cells -> col_vote h (col_tag h cells) = 1%Z.
Proof.
  intros h cells [H|[H|[(w & H & Hw)|[H|(H & Hh)]]]].
  - exact (proj2 (vote_named_numeric h cells H)).
  - exact (proj2 (vote_lowname_numeric h cells H)).
  - rewrite (vote_fixed_text w h cells H). replace (Nat.eqb (length h) w) with false by lia. reflexivity.
  - exact (proj2 (vote_cap_lower h cells H)).
  - rewrite (proj2 (vote_blank h cells H)). destruct h; [congruence|reflexivity].
Qed.

Lemma votes_minus_vote : forall h cells, votes_minus h cells -> col_vote h (col_tag h cells) = (-1)%Z.
Proof.
  intros h cells [H|[H|(H & Hh)]].
  - exact (proj2 (vote_all_numeric h cells H)).
  - rewrite (vote_fixed_text (length h) h cells H), Nat.eqb_refl. reflexivity.
  - rewrite (proj2 (vote_blank h cells H)). subst h. reflexivity.
Qed.

(* WITH a header: every column votes for it or abstains, one at least votes *)
Theorem has_header_agrees_with_header : forall text lines delim header rows,
  sniff_input delim text header rows ->
  columns_all (fun h cells => votes_plus h cells \/ cls_variable_text h cells)
              header (looked (length header) lines rows) ->
  columns_some votes_plus header (looked (length header) lines rows) ->
  sniff_has_header is_number text lines delim = Ok HAS_HEADER.
Proof.
  intros text lines delim header rows Hin Hall (j0 & Hj0 & Hsome).
  rewrite (sniff_has_header_columns text lines delim header rows Hin). unfold total_vote.
  set (rws := looked (length header) lines rows) in *.
  set (f := fun j => col_vote (nth j header []) (col_tag (nth j header []) (column j rws))).
  assert (Hpos : (0 < zsum (map f (seq 0 (length header))))%Z).
  { apply zsum_pos.
    - intros j Hj. apply in_seq in Hj. unfold f. rewrite col_tag_nonblank. fold (data_cells j rws). destruct (Hall j) as [H|H]; [lia| |].
      + rewrite (votes_plus_vote _ _ H). lia.
      + rewrite (proj2 (vote_variable_text _ _ H)). lia.
    - exists j0. split; [apply in_seq; lia|]. unfold f. rewrite col_tag_nonblank. fold (data_cells j0 rws).
      rewrite (votes_plus_vote _ _ Hsome). lia. }
  replace (0 <? zsum (map f (seq 0 (length header))))%Z with true by lia. reflexivity.
Qed.

(* WITHOUT a header (header is then the first data row): every column votes
   against or abstains *)
Theorem has_header_agrees_without_header : forall text lines delim header rows,
  sniff_input delim text header rows ->
  columns_all (fun h cells => votes_minus h cells \/ cls_variable_text h cells)
              header (looked (length header) lines rows) ->
  sniff_has_header is_number text lines delim = Ok NO_HEADER.
Proof.
  intros text lines delim header rows Hin Hall.
  rewrite (sniff_has_header_columns text lines delim header rows Hin). unfold total_vote.
  set (rws := looked (length header) lines rows) in *.
  set (f := fun j => col_vote (nth j header []) (col_tag (nth j header []) (column j rws))).
  assert (Hle : (zsum (map f (seq 0 (length header))) <= 0)%Z).
  { apply zsum_nonpos. intros j Hj. apply in_seq in Hj. unfold f. rewrite col_tag_nonblank. fold (data_cells j rws).
    destruct (Hall j) as [H|H]; [lia| |].
    - rewrite (votes_minus_vote _ _ H). lia.
    - rewrite (proj2 (vote_variable_text _ _ H)). lia. }
  replace (0 <? zsum (map f (seq 0 (length header))))%Z with false by lia. reflexivity.
Qed.

(* ------------------------------------------------------------ (4) where the heuristic must fail *)
(* a real header over columns of variable-width text: nobody votes *)
Theorem has_header_must_fail_variable_text : forall text lines delim header rows,
  sniff_input delim text header rows ->
  columns_all cls_variable_text header (looked (length header) lines rows) ->
  sniff_has_header is_number text lines delim = Ok NO_HEADER.
Proof.
  intros text lines delim header rows Hin Hall.
  apply (has_header_agrees_without_header text lines delim header rows Hin).
  intros j Hj. right. exact (Hall j Hj).
Qed.

(* a real header whose names happen to be as wide as the fixed-width text below *)
Theorem has_header_must_fail_same_width_names : forall text lines delim header rows,
  sniff_input delim text header rows ->
  columns_all (fun h cells => cls_fixed_text (length h) h cells) header (looked (length header) lines rows) ->
  sniff_has_header is_number text lines delim = Ok NO_HEADER.
Proof.
  intros text lines delim header rows Hin Hall.
  apply (has_header_agrees_without_header text lines delim header rows Hin).
  intros j Hj. left. right. left. exact (Hall j Hj).
Qed.

(* no header, but the first row is capitalized over lower-case cells in the
   columns [cap]; the columns [any] are arbitrary, the others variable-width
   text: HAS_HEADER as soon as cap outnumbers any *)
Theorem has_header_must_fail_capitalized_outvote : forall text lines delim header rows (cap any : nat -> bool),
  sniff_input delim text header rows ->
  (forall j, j < length header -> cap j = true ->
             cls_cap_lower (nth j header []) (data_cells j (looked (length header) lines rows))) ->
  (forall j, j < length header -> cap j = false -> any j = false ->
             cls_variable_text (nth j header []) (data_cells j (looked (length header) lines rows))) ->
  length (filter any (seq 0 (length header))) < length (filter cap (seq 0 (length header))) ->
  sniff_has_header is_number text lines delim = Ok HAS_HEADER.
Proof.
  intros text lines delim header rows cap any Hin Hcap Hrest Hlt.
  rewrite (sniff_has_header_columns text lines delim header rows Hin). unfold total_vote.
  set (rws := looked (length header) lines rows) in *.
  set (f := fun j => col_vote (nth j header []) (col_tag (nth j header []) (column j rws))).
  pose proof (zsum_outvote f cap any (seq 0 (length header))) as Hs.
  assert (Hpos : (0 < zsum (map f (seq 0 (length header))))%Z).
  { assert (Z.of_nat (length (filter cap (seq 0 (length header)))) -
            Z.of_nat (length (filter any (seq 0 (length header)))) <= zsum (map f (seq 0 (length header))))%Z; [|lia].
    apply Hs.
    - intros j Hj Hc. apply in_seq in Hj. unfold f. rewrite col_tag_nonblank. fold (data_cells j rws).
      apply (proj2 (vote_cap_lower _ _ (Hcap j ltac:(lia) Hc))).
    - intros j Hj Hc Ha. apply in_seq in Hj. unfold f. rewrite col_tag_nonblank. fold (data_cells j rws).
      apply (proj2 (vote_variable_text _ _ (Hrest j ltac:(lia) Hc Ha))).
    - intros j. unfold f. apply col_vote_bounds. }
  replace (0 <? zsum (map f (seq 0 (length header))))%Z with true by lia. reflexivity.
Qed.

Lemma filter_true_seq : forall l : list nat, filter (fun _ => true) l = l.
Proof. induction l as [|x l IH]; [reflexivity|]. cbn [filter]. rewrite IH. reflexivity. Qed.

Lemma filter_false_seq : forall l : list nat, filter (fun _ => false) l = [].
Proof. induction l as [|x l IH]; [reflexivity|]. exact IH. Qed.

(* in particular: a header-less table whose first row is capitalized text
   over lower-case cells in every column *)
Theorem has_header_must_fail_capitalized_first_row : forall text lines delim header rows,
  sniff_input delim text header rows ->
  header <> [] ->
  columns_all cls_cap_lower header (looked (length header) lines rows) ->
  sniff_has_header is_number text lines delim = Ok HAS_HEADER.
Proof.
  intros text lines delim header rows Hin Hne Hall.
  apply (has_header_must_fail_capitalized_outvote text lines delim header rows (fun _ => true) (fun _ => false) Hin).
  - intros j Hj _. exact (Hall j Hj).
  - intros j _ Hc. discriminate.
  - rewrite filter_true_seq, filter_false_seq, seq_length. destruct header; [congruence|cbn [length]; lia].
Qed.

End Columns.

(* ------------------------------------------------------------ examples: a numeric column, a fixed-width code, a
   variable-width text *)
Definition ex_is_number (s : bytes) : bool :=
  match s with c :: _ => (48 <=? c)%Z && (c <=? 57)%Z | [] => false end.

(* "id,code,name\n1,ab,alice\n2,cd,bob\n": votes +1 (a'), +1 (c, 4 <> 2), 0 (d) *)
Definition ex_with_header : bytes := [105; 100; 44; 99; 111; 100; 101; 44; 110; 97; 109; 101; 10; 49; 44; 97; 98; 44; 97; 108; 105; 99; 101; 10; 50; 44; 99; 100; 44; 98; 111; 98; 10]%Z.
(* "1,ab,alice\n2,cd,bob\n3,ef,carol\n": votes -1 (b), -1 (c, 2 = 2), 0 (d) *)
Definition ex_without_header : bytes := [49; 44; 97; 98; 44; 97; 108; 105; 99; 101; 10; 50; 44; 99; 100; 44; 98; 111; 98; 10; 51; 44; 101; 102; 44; 99; 97; 114; 111; 108; 10]%Z.
(* "name,city\nalice,rome\nbob,paris\n": a real header, votes 0 and 0 *)
Definition ex_text_header : bytes := [110; 97; 109; 101; 44; 99; 105; 116; 121; 10; 97; 108; 105; 99; 101; 44; 114; 111; 109; 101; 10; 98; 111; 98; 44; 112; 97; 114; 105; 115; 10]%Z.
(* "Rome,Lazio\nmilan,lombardy\nturin,piedmont\n" *)
Definition ex_cap_first_row : bytes := [82; 111; 109; 101; 44; 76; 97; 122; 105; 111; 10; 109; 105; 108; 97; 110; 44; 108; 111; 109; 98; 97; 114; 100; 121; 10; 116; 117; 114; 105; 110; 44; 112; 105; 101; 100; 109; 111; 110; 116; 10]%Z.

Example ex_mixed_with_header : sniff_has_header ex_is_number ex_with_header 20 44%Z = Ok HAS_HEADER.
Proof. vm_compute. reflexivity. Qed.

Example ex_mixed_without_header : sniff_has_header ex_is_number ex_without_header 20 44%Z = Ok NO_HEADER.
Proof. vm_compute. reflexivity. Qed.

Example ex_text_header_missed : sniff_has_header ex_is_number ex_text_header 20 44%Z = Ok NO_HEADER.
Proof. vm_compute. reflexivity. Qed.

Example ex_cap_first_row_invented : sniff_has_header ex_is_number ex_cap_first_row 20 44%Z = Ok HAS_HEADER.
Proof. vm_compute. reflexivity. Qed.

(* the hypotheses of the theorems are satisfiable: the same answers obtained
   from the theorems *)
Ltac two_cells a b :=
  exists a, b; split; [cbv; auto|split; [cbv; auto|cbv; discriminate]].

Example ex_text_header_by_theorem : sniff_has_header ex_is_number ex_text_header 20 44%Z = Ok NO_HEADER.
Proof.
  apply (has_header_must_fail_variable_text ex_is_number ex_text_header 20 44%Z
           [[110; 97; 109; 101]%Z; [99; 105; 116; 121]%Z]
           [[[97; 108; 105; 99; 101]%Z; [114; 111; 109; 101]%Z]; [[98; 111; 98]%Z; [112; 97; 114; 105; 115]%Z]]).
  - split; eexists; lazy; reflexivity.
  - intros j Hj. cbn [length] in Hj. destruct j as [|[|j]]; [| |lia]; (split; [vm_compute; repeat constructor|]).
    + two_cells [97; 108; 105; 99; 101]%Z [98; 111; 98]%Z.
    + two_cells [114; 111; 109; 101]%Z [112; 97; 114; 105; 115]%Z.
Qed.

Example ex_mixed_with_header_by_theorem : sniff_has_header ex_is_number ex_with_header 20 44%Z = Ok HAS_HEADER.
Proof.
  apply (has_header_agrees_with_header ex_is_number ex_with_header 20 44%Z
           [[105; 100]%Z; [99; 111; 100; 101]%Z; [110; 97; 109; 101]%Z]
           [[[49]%Z; [97; 98]%Z; [97; 108; 105; 99; 101]%Z]; [[50]%Z; [99; 100]%Z; [98; 111; 98]%Z]]).
  - split; eexists; lazy; reflexivity.
  - intros j Hj. cbn [length] in Hj. destruct j as [|[|[|j]]]; [| | |lia].
    + left. right. left. vm_compute. repeat split; try discriminate; repeat constructor.
    + left. right. right. left. exists 2. split; [|cbv; discriminate]. vm_compute.
      split; [discriminate|repeat constructor].
    + right. split; [vm_compute; repeat constructor|]. two_cells [97; 108; 105; 99; 101]%Z [98; 111; 98]%Z.
  - exists 0. split; [cbn [length]; lia|]. right. left. vm_compute.
    repeat split; try discriminate; repeat constructor.
Qed.

Example ex_mixed_without_header_by_theorem :
  sniff_has_header ex_is_number ex_without_header 20 44%Z = Ok NO_HEADER.
Proof.
  apply (has_header_agrees_without_header ex_is_number ex_without_header 20 44%Z
           [[49]%Z; [97; 98]%Z; [97; 108; 105; 99; 101]%Z]
           [[[50]%Z; [99; 100]%Z; [98; 111; 98]%Z]; [[51]%Z; [101; 102]%Z; [99; 97; 114; 111; 108]%Z]]).
  - split; eexists; lazy; reflexivity.
  - intros j Hj. cbn [length] in Hj. destruct j as [|[|[|j]]]; [| | |lia].
    + left. left. vm_compute. repeat split; try discriminate; repeat constructor.
    + left. right. left. vm_compute. split; [discriminate|repeat constructor].
    + right. split; [vm_compute; repeat constructor|]. two_cells [98; 111; 98]%Z [99; 97; 114; 111; 108]%Z.
Qed.

Example ex_cap_first_row_by_theorem :
  sniff_has_header ex_is_number ex_cap_first_row 20 44%Z = Ok HAS_HEADER.
Proof.
  apply (has_header_must_fail_capitalized_first_row ex_is_number ex_cap_first_row 20 44%Z
           [[82; 111; 109; 101]%Z; [76; 97; 122; 105; 111]%Z]
           [[[109; 105; 108; 97; 110]%Z; [108; 111; 109; 98; 97; 114; 100; 121]%Z]; [[116; 117; 114; 105; 110]%Z; [112; 105; 101; 100; 109; 111; 110; 116]%Z]]).
  - split; eexists; lazy; reflexivity.
  - discriminate.
  - intros j Hj. cbn [length] in Hj. destruct j as [|[|j]]; [| |lia];
      vm_compute; repeat split; try discriminate; repeat constructor.
Qed.

(* the cut-off: with lines = 0 two rows are looked at ("cd", "ef": width 2,
   name of width 3, +1); with lines = 1 the third ("ghi") is seen too and the
   column is skipped *)
Definition ex_cutoff : bytes := [97; 98; 99; 10; 99; 100; 10; 101; 102; 10; 103; 104; 105; 10]%Z.
Example ex_cutoff_0 : sniff_has_header ex_is_number ex_cutoff 0 44%Z = Ok HAS_HEADER.
Proof. vm_compute. reflexivity. Qed.
Example ex_cutoff_1 : sniff_has_header ex_is_number ex_cutoff 1 44%Z = Ok NO_HEADER.
Proof. vm_compute. reflexivity. Qed.
