(* C09, XRFF end to end (model level, repaired variant): from ANY DOM with a
   non-empty attribute list (no class="yes" attribute, or exactly one) and
   instances of uniform width to the exact example list [read_xrff] returns.

     - the columns are those of XrffProofs (output first, the others in order);
     - every instance the filter keeps is arranged (output cell first) and gives
       ONE example, in order:
         inputs = the converted cells of the non-void input columns, in order,
         output = VVoid for a void output column, the converted cell when the
                  RAW output cell is a number, else the class id of the trimmed
                  cell, the class map being threaded through [encode];
     - the frame is valid (and the returned count is the number of instances)
       for a regression table and for a classification table with >= 2 labels.

   The expected examples are defined by structural recursion over the columns
   and the rows, not through the loops of the model. *)
From Coq Require Import ZArith List Bool Lia ZifyBool Arith.
From VV Require Import Csv.CsvDefs Csv.CsvProofs Csv.IngestProofs Csv.XrffProofs.
Import ListNotations.
Local Open Scope Z_scope.
Local Open Scope bool_scope.

Lemma domain_eqb_void_false : forall d, domain_eqb d DVoid = false <-> d <> DVoid.
Proof. destruct d; cbn; split; congruence. Qed.

Lemma filter_map_no_filter : forall (l : list record), filter_map no_filter l = l.
Proof. induction l as [|x l IH]; [reflexivity|]. cbn [filter_map no_filter]. fold no_filter. rewrite IH. reflexivity. Qed.

Lemma removelast_length_eq : forall {A} (l : list A), length (removelast l) = (length l - 1)%nat.
Proof.
  intros A l. induction l as [|x l IH]; [reflexivity|].
  destruct l as [|y l]; [reflexivity|].
  change (length (x :: removelast (y :: l)) = (length (x :: y :: l) - 1)%nat).
  cbn [length] in *. lia.
Qed.

Lemma NoDup_two : forall {A} (l : list A) x y, NoDup l -> In x l -> In y l -> x <> y -> (2 <= length l)%nat.
Proof.
  intros A l x y Hnd Hx Hy Hne. destruct l as [|a [|b l]]; cbn [length]; [destruct Hx| |lia].
  destruct Hx as [Hx|[]]. destruct Hy as [Hy|[]]. congruence.
Qed.

(* ------------------------------------------------------------ the expected examples *)
Section XrffEndToEnd.
Variable is_number : bytes -> bool.
Variable stod : bytes -> conv.
Variable stoi : bytes -> conv.

Definition void_col (c : column) : bool := domain_eqb (c_domain c) DVoid.

(* the preconditions make every conversion below succeed; VVoid is never used *)
Definition val_or_void (r : res value) : value := match r with Ok x => x | _ => VVoid end.

Definition cell_value (a : record) (i : nat) (c : column) : value :=
  val_or_void (convert stod stoi (trim (nth i a [])) (c_domain c)).

(* the contribution of the arranged cell i, of column c, to the inputs *)
Definition in_contrib (a : record) (i : nat) (c : column) : list value :=
  if void_col c then [] else [cell_value a i c].

Lemma in_contrib_void : forall (a : record) i c, c_domain c = DVoid -> in_contrib a i c = [].
Proof. intros a i c H. unfold in_contrib, void_col. rewrite H. reflexivity. Qed.

Lemma in_contrib_conv : forall (a : record) i c x, c_domain c <> DVoid ->
  convert stod stoi (trim (nth i a [])) (c_domain c) = Ok x -> in_contrib a i c = [x].
Proof.
  intros a i c x Hd Hx. unfold in_contrib, void_col, cell_value.
  apply domain_eqb_void_false in Hd. rewrite Hd, Hx. reflexivity.
Qed.

Fixpoint inputs_from (a : record) (i : nat) (cs : list column) : list value :=
  match cs with
  | [] => []
  | c :: r => in_contrib a i c ++ inputs_from a (S i) r
  end.

Definition input_vals (cols : list column) (a : record) : list value := inputs_from a 1 (tl cols).

Definition output_of (c0 : column) (cm : classes_t) (a : record) : value * classes_t :=
  if void_col c0 then (VVoid, cm)
  else if is_number (nth 0 a []) then (cell_value a 0 c0, cm)
  else let (id, cm') := encode cm (trim (nth 0 a [])) in (VInt id, cm').

Definition output_val (cols : list column) (cm : classes_t) (a : record) : value * classes_t :=
  match cols with
  | [] => (VVoid, cm)
  | c0 :: _ => output_of c0 cm a
  end.

Definition example_of (cols : list column) (cm : classes_t) (a : record) : example :=
  {| e_input := input_vals cols a; e_output := fst (output_val cols cm a) |}.

(* the examples of a list of arranged rows, and the final class map *)
Fixpoint xrff_examples (cols : list column) (cm : classes_t) (rows : list record) : list example :=
  match rows with
  | [] => []
  | a :: r => example_of cols cm a :: xrff_examples cols (snd (output_val cols cm a)) r
  end.

Fixpoint xrff_classes (cols : list column) (cm : classes_t) (rows : list record) : classes_t :=
  match rows with
  | [] => cm
  | a :: r => xrff_classes cols (snd (output_val cols cm a)) r
  end.

(* every conversion the reader performs on the arranged record succeeds *)
Definition conv_ok (cols : list column) (a : record) : Prop :=
  (forall i c, (1 <= i)%nat -> nth_error cols i = Some c -> c_domain c <> DVoid ->
     exists x, convert stod stoi (trim (nth i a [])) (c_domain c) = Ok x)
  /\
  (forall c0, nth_error cols 0 = Some c0 -> c_domain c0 <> DVoid -> is_number (nth 0 a []) = true ->
     exists o, convert stod stoi (trim (nth 0 a [])) (c_domain c0) = Ok o).

Definition rec_ok (cols : list column) (a : record) : Prop := length a = length cols /\ conv_ok cols a.

(* an instance of the DOM: uniform width, conversions fine once arranged *)
Definition inst_ok (cols : list column) (k : nat) (r : record) : Prop :=
  length r = length cols /\ conv_ok cols (arrange (Some k) r).

Lemma inst_ok_rec_ok : forall cols k r, (k < length cols)%nat -> inst_ok cols k r ->
  (k < length r)%nat /\ rec_ok cols (arrange (Some k) r).
Proof.
  intros cols k r Hk [Hw Hc]. split; [lia|]. split; [|exact Hc].
  rewrite arrange_length by lia. exact Hw.
Qed.

(* ------------------------------------------------------------ (1) to_example, add_instance = false *)
Lemma toex_step_output : forall (a : record) c0 cs cm, (0 < length a)%nat ->
  (c_domain c0 <> DVoid -> is_number (nth 0 a []) = true ->
     exists o, convert stod stoi (trim (nth 0 a [])) (c_domain c0) = Ok o) ->
  toex_step is_number stod stoi a false O ({| e_input := []; e_output := VVoid |}, c0 :: cs, cm)
  = Ok ({| e_input := []; e_output := fst (output_of c0 cm a) |}, c0 :: cs, snd (output_of c0 cm a)).
Proof.
  intros a c0 cs cm Hlen Hconv.
  pose proof (nth_error_nth' a O [] Hlen) as Ea.
  unfold toex_step, output_of, void_col, cell_value.
  rewrite (get_ok S_toex_cols (c0 :: cs) O c0 eq_refl). cbn [bind].
  destruct (domain_eqb (c_domain c0) DVoid) eqn:Ed; [reflexivity|].
  apply domain_eqb_void_false in Ed.
  rewrite !(get_ok _ _ _ _ Ea). cbn [bind Nat.eqb].
  destruct (is_number (nth 0 a [])) eqn:En; cbn [negb]; rewrite ?En.
  - destruct (Hconv Ed eq_refl) as [o Ho]. rewrite Ho. cbn [bind andb val_or_void fst snd e_input]. reflexivity.
  - destruct (encode cm (trim (nth 0 a []))) as [id cm']. cbn [bind andb fst snd e_input]. reflexivity.
Qed.

Lemma toex_step_input : forall (a : record) i ex cols cm c, (1 <= i)%nat -> (i < length a)%nat ->
  nth_error cols i = Some c ->
  (c_domain c <> DVoid -> exists x, convert stod stoi (trim (nth i a [])) (c_domain c) = Ok x) ->
  toex_step is_number stod stoi a false i (ex, cols, cm)
  = Ok ({| e_input := e_input ex ++ in_contrib a i c; e_output := e_output ex |}, cols, cm).
Proof.
  intros a i ex cols cm c Hi Hlen Ec Hconv.
  pose proof (nth_error_nth' a i [] Hlen) as Ea.
  unfold toex_step, in_contrib, void_col, cell_value.
  rewrite (get_ok _ _ _ _ Ec). cbn [bind].
  destruct (domain_eqb (c_domain c) DVoid) eqn:Ed.
  - rewrite app_nil_r. destruct ex; reflexivity.
  - apply domain_eqb_void_false in Ed. destruct (Hconv Ed) as [x Hx].
    rewrite (get_ok _ _ _ _ Ea). cbn [bind].
    replace (Nat.eqb i 0) with false by (symmetry; apply Nat.eqb_neq; lia).
    rewrite Hx. cbn [bind andb val_or_void]. reflexivity.
Qed.

(* the loop over the input columns [cs], the columns before them being [pre] *)
Lemma toex_inputs_loop : forall (a : record) cs pre ex cm, (1 <= length pre)%nat ->
  (length (pre ++ cs) <= length a)%nat ->
  (forall i c, (1 <= i)%nat -> nth_error (pre ++ cs) i = Some c -> c_domain c <> DVoid ->
     exists x, convert stod stoi (trim (nth i a [])) (c_domain c) = Ok x) ->
  for_ck (seq (length pre) (length cs)) (toex_step is_number stod stoi a false) (ex, pre ++ cs, cm)
  = Ok ({| e_input := e_input ex ++ inputs_from a (length pre) cs; e_output := e_output ex |}, pre ++ cs, cm).
Proof.
  intros a cs. induction cs as [|c r IH]; intros pre ex cm Hpre Hlen Hconv.
  - cbn [length seq for_ck inputs_from]. rewrite !app_nil_r. destruct ex; reflexivity.
  - cbn [length seq for_ck inputs_from].
    assert (Ec : nth_error (pre ++ c :: r) (length pre) = Some c).
    { rewrite nth_error_app2 by lia. rewrite Nat.sub_diag. reflexivity. }
    rewrite app_length in Hlen. cbn [length] in Hlen.
    rewrite (toex_step_input a (length pre) ex (pre ++ c :: r) cm c Hpre ltac:(lia) Ec (Hconv _ _ Hpre Ec)).
    cbn [bind].
    replace (pre ++ c :: r) with ((pre ++ [c]) ++ r) in * by (rewrite <- app_assoc; reflexivity).
    replace (S (length pre)) with (length (pre ++ [c])) by (rewrite app_length; cbn [length]; lia).
    rewrite IH.
    + cbn [e_input e_output]. rewrite <- app_assoc. reflexivity.
    + rewrite app_length. cbn [length]. lia.
    + rewrite !app_length. cbn [length]. lia.
    + exact Hconv.
Qed.

Lemma to_example_xrff_spec : forall df (a : record), columns df <> [] -> rec_ok (columns df) a ->
  to_example is_number stod stoi df a false
  = Ok (example_of (columns df) (classes df) a,
        {| columns := columns df; classes := snd (output_val (columns df) (classes df) a); dataset := dataset df |}).
Proof.
  intros df a Hne [Hlen [Hin Hout]]. unfold to_example, example_of, input_vals, output_val.
  destruct (columns df) as [|c0 cs] eqn:Ecols; [congruence|].
  rewrite Hlen. cbn [length seq for_ck tl].
  rewrite toex_step_output; [|rewrite Hlen; cbn [length]; lia|apply Hout; reflexivity].
  cbn [bind].
  pose proof (toex_inputs_loop a cs [c0]
    {| e_input := []; e_output := fst (output_of c0 (classes df) a) |} (snd (output_of c0 (classes df) a))) as L.
  cbn [length app e_input e_output] in L.
  rewrite L; [|lia|rewrite Hlen; cbn [length]; lia|exact Hin].
  cbn [bind]. reflexivity.
Qed.

Lemma read_record_xrff_spec : forall df (a : record), columns df <> [] -> rec_ok (columns df) a ->
  read_record is_number stod stoi df a false
  = Ok {| columns := columns df; classes := snd (output_val (columns df) (classes df) a);
          dataset := dataset df ++ [example_of (columns df) (classes df) a] |}.
Proof.
  intros df a Hne Hok. pose proof Hok as [Hlen _]. unfold read_record.
  rewrite Hlen, Nat.eqb_refl. cbn [negb].
  rewrite to_example_xrff_spec by assumption. cbn [bind columns classes dataset]. reflexivity.
Qed.

(* ------------------------------------------------------------ (2) the instance loop *)
(* the filter hook only selects (and possibly rewrites) the instances *)
Lemma xrff_instances_filter_map : forall v flt k insts df,
  xrff_instances is_number stod stoi v flt k insts df
  = xrff_instances is_number stod stoi v no_filter k (filter_map flt insts) df.
Proof.
  intros v flt k insts. induction insts as [|r rest IH]; intro df; [reflexivity|].
  cbn [xrff_instances filter_map]. destruct (flt r) as [r'|] eqn:E; [|apply IH].
  cbn [xrff_instances no_filter].
  destruct (g_rotate_xrff v && Nat.leb (length r') k); [apply IH|].
  destruct (rotate_front S_rotate_xrff r' k) as [x| |]; cbn [bind]; try reflexivity.
  destruct (read_record is_number stod stoi df x false) as [y| |]; cbn [bind]; try reflexivity. apply IH.
Qed.

Lemma xrff_instances_gen : forall k rows df, columns df <> [] ->
  Forall (fun r => (k < length r)%nat /\ rec_ok (columns df) (arrange (Some k) r)) rows ->
  xrff_instances is_number stod stoi fixed_v no_filter k rows df
  = Ok {| columns := columns df;
          classes := xrff_classes (columns df) (classes df) (map (arrange (Some k)) rows);
          dataset := dataset df ++ xrff_examples (columns df) (classes df) (map (arrange (Some k)) rows) |}.
Proof.
  intros k rows. induction rows as [|r rest IH]; intros df Hne HF.
  - cbn [xrff_instances map xrff_classes xrff_examples]. rewrite app_nil_r. destruct df; reflexivity.
  - inversion HF as [|? ? [Hk Hr] HF']; subst.
    etransitivity; [exact (xrff_instance_step_lemma is_number stod stoi no_filter k r r rest df eq_refl Hk)|].
    rewrite read_record_xrff_spec by assumption. cbn [bind].
    rewrite IH; cbn [columns classes dataset]; [|assumption|assumption].
    cbn [map xrff_classes xrff_examples]. rewrite <- app_assoc. reflexivity.
Qed.

Lemma xrff_instances_spec : forall k cols insts, cols <> [] -> (k < length cols)%nat ->
  Forall (inst_ok cols k) insts ->
  xrff_instances is_number stod stoi fixed_v no_filter k insts {| columns := cols; classes := []; dataset := [] |}
  = Ok {| columns := cols;
          classes := xrff_classes cols [] (map (arrange (Some k)) insts);
          dataset := xrff_examples cols [] (map (arrange (Some k)) insts) |}.
Proof.
  intros k cols insts Hne Hk HF.
  rewrite xrff_instances_gen; cbn [columns classes dataset app]; [reflexivity|assumption|].
  eapply Forall_impl; [|exact HF]. intros r Hr. apply inst_ok_rec_ok; assumption.
Qed.

Lemma xrff_examples_length : forall cols rows cm, length (xrff_examples cols cm rows) = length rows.
Proof. intros cols rows. induction rows as [|a r IH]; intro cm; [reflexivity|]. cbn [xrff_examples length]. rewrite IH. reflexivity. Qed.

(* ------------------------------------------------------------ (3) validity of the resulting frame *)
Definition n_inputs (cols : list column) : nat := length (filter (fun c => negb (void_col c)) (tl cols)).

Lemma inputs_from_length : forall a cs i,
  length (inputs_from a i cs) = length (filter (fun c => negb (void_col c)) cs).
Proof.
  intros a cs. induction cs as [|c r IH]; intro i; [reflexivity|].
  cbn [inputs_from filter]. rewrite app_length, IH. unfold in_contrib. destruct (void_col c); reflexivity.
Qed.

(* uniform input width: it only depends on the columns *)
Lemma input_vals_length : forall cols a, length (input_vals cols a) = n_inputs cols.
Proof. intros cols a. apply inputs_from_length. Qed.

Lemma xrff_examples_width : forall cols rows cm,
  Forall (fun e => length (e_input e) = n_inputs cols) (xrff_examples cols cm rows).
Proof.
  intros cols rows. induction rows as [|a r IH]; intro cm; cbn [xrff_examples]; constructor.
  - apply input_vals_length.
  - apply IH.
Qed.

Lemma valid_examples_true : forall l in_size N,
  Forall (fun e => length (e_input e) = in_size /\ (N = 0 \/ exists z, e_output e = VInt z /\ 0 <= z < N)) l ->
  valid_examples l in_size N = Ok true.
Proof.
  induction l as [|e l IH]; intros in_size N HF; [reflexivity|].
  inversion HF as [|? ? [Hw Ho] HF']; subst. cbn [valid_examples].
  rewrite Nat.eqb_refl. cbn [negb].
  destruct (N =? 0) eqn:EN; cbn [negb]; [apply IH; assumption|].
  destruct Ho as [Ho|[z [Hz Hr]]]; [lia|]. rewrite Hz.
  replace ((z <? 0) || (N <=? z)) with false by lia. apply IH; assumption.
Qed.

Lemma is_valid_true : forall df in_size,
  Z.of_nat (length (classes df)) <> 1 ->
  Forall (fun e => length (e_input e) = in_size /\
                   (Z.of_nat (length (classes df)) = 0 \/
                    exists z, e_output e = VInt z /\ 0 <= z < Z.of_nat (length (classes df)))) (dataset df) ->
  columns_valid (columns df) = true -> is_valid df = Ok true.
Proof.
  intros df in_size H1 HF Hcv. unfold is_valid.
  destruct (dataset df) as [|e es] eqn:Ed; [reflexivity|]. cbv zeta.
  destruct (Z.of_nat (length (classes df)) =? 1) eqn:E1; [lia|].
  cbn [get nth_error bind].
  assert (Hw : length (e_input e) = in_size) by (inversion HF as [|? ? [Hw _] _]; exact Hw).
  rewrite Hw. rewrite (valid_examples_true _ _ _ HF). cbn [bind]. rewrite Hcv. reflexivity.
Qed.

Definition out_col (cols : list column) : column := hd default_column cols.

(* regression: the class map is never touched *)
Definition out_plain (cols : list column) (a : record) : Prop :=
  void_col (out_col cols) = true \/ is_number (nth 0 a []) = true.
Definition regression (cols : list column) (arows : list record) : Prop := Forall (out_plain cols) arows.

(* classification: every output cell is a label, at least two different labels *)
Definition classification (cols : list column) (arows : list record) : Prop :=
  void_col (out_col cols) = false /\
  Forall (fun a : record => is_number (nth 0 a []) = false) arows /\
  exists a1 a2 : record, In a1 arows /\ In a2 arows /\ trim (nth 0 a1 []) <> trim (nth 0 a2 []).

Definition out_kind_ok (cols : list column) (arows : list record) : Prop :=
  regression cols arows \/ classification cols arows.

Lemma output_val_plain : forall cols cm a, out_plain cols a -> snd (output_val cols cm a) = cm.
Proof.
  intros [|c0 cs] cm a H; [reflexivity|]. unfold out_plain, out_col in H. cbn [hd] in H.
  unfold output_val, output_of. destruct H as [H|H]; rewrite H; [reflexivity|].
  destruct (void_col c0); reflexivity.
Qed.

Lemma xrff_classes_regression : forall cols rows cm, regression cols rows -> xrff_classes cols cm rows = cm.
Proof.
  intros cols rows. induction rows as [|a r IH]; intros cm HF; [reflexivity|].
  inversion HF as [|? ? Ha HF']; subst. cbn [xrff_classes]. rewrite output_val_plain by assumption.
  apply IH. assumption.
Qed.

Lemma output_val_label : forall cols cm (a : record), void_col (out_col cols) = false ->
  is_number (nth 0 a []) = false ->
  output_val cols cm a = (VInt (fst (encode cm (trim (nth 0 a [])))), snd (encode cm (trim (nth 0 a [])))).
Proof.
  intros [|c0 cs] cm a Hv Hn; [discriminate Hv|]. unfold out_col in Hv. cbn [hd] in Hv.
  unfold output_val, output_of. rewrite Hv, Hn. destruct (encode cm (trim (nth 0 a []))); reflexivity.
Qed.

Lemma encode_facts : forall m l, wf_classes m ->
  wf_classes (snd (encode m l)) /\ 0 <= fst (encode m l) < Z.of_nat (length (snd (encode m l)))
  /\ (length m <= length (snd (encode m l)))%nat /\ In l (map fst (snd (encode m l)))
  /\ incl (map fst m) (map fst (snd (encode m l))).
Proof.
  intros m l Hwf. split; [apply encode_wf; assumption|].
  destruct Hwf as [Hnd Hid]. unfold encode. destruct (class_find m l) as [i|] eqn:F; cbn [fst snd].
  - apply class_find_some in F. pose proof F as Hin. apply In_nth_error in F. destruct F as [n Hn].
    pose proof (Hid _ _ _ Hn) as Hz. assert (Hlt : (n < length m)%nat) by (apply nth_error_Some; congruence).
    split; [lia|]. split; [lia|]. split; [apply (in_map fst) in Hin; exact Hin|apply incl_refl].
  - rewrite map_app, app_length. cbn [length map fst]. split; [lia|]. split; [lia|].
    split; [apply in_or_app; right; left; reflexivity|apply incl_appl, incl_refl].
Qed.

Lemma classification_facts : forall cols rows cm, void_col (out_col cols) = false ->
  Forall (fun a : record => is_number (nth 0 a []) = false) rows -> wf_classes cm ->
  wf_classes (xrff_classes cols cm rows) /\ (length cm <= length (xrff_classes cols cm rows))%nat
  /\ incl (map fst cm) (map fst (xrff_classes cols cm rows))
  /\ (forall a : record, In a rows -> In (trim (nth 0 a [])) (map fst (xrff_classes cols cm rows)))
  /\ Forall (fun e => exists z, e_output e = VInt z /\ 0 <= z < Z.of_nat (length (xrff_classes cols cm rows)))
            (xrff_examples cols cm rows).
Proof.
  intros cols rows. induction rows as [|a r IH]; intros cm Hv HF Hwf; cbn [xrff_classes xrff_examples].
  - split; [assumption|]. split; [lia|]. split; [apply incl_refl|]. split; [intros ? []|constructor].
  - inversion HF as [|? ? Ha HF']; subst.
    rewrite (output_val_label cols cm a Hv Ha). cbn [snd].
    destruct (encode_facts cm (trim (nth 0 a [])) Hwf) as (Hwf1 & Hz & Hlen & Hin & Hincl).
    destruct (IH _ Hv HF' Hwf1) as (Hwff & Hlenf & Hinclf & Hlab & Hout).
    split; [assumption|]. split; [lia|]. split; [eapply incl_tran; eassumption|].
    split.
    + intros a' [<-|Hin']; [apply Hinclf; assumption|apply Hlab; assumption].
    + constructor; [|assumption]. unfold example_of. cbn [e_output].
      rewrite output_val_label by assumption. cbn [fst]. eexists. split; [reflexivity|lia].
Qed.

Definition xrff_frame (cols : list column) (arows : list record) : dataframe :=
  {| columns := cols; classes := xrff_classes cols [] arows; dataset := xrff_examples cols [] arows |}.

Lemma xrff_is_valid : forall cols arows, columns_valid cols = true -> out_kind_ok cols arows ->
  is_valid (xrff_frame cols arows) = Ok true.
Proof.
  intros cols arows Hcv [Hr|(Hv & Hn & a1 & a2 & H1 & H2 & Hne)]; unfold xrff_frame.
  - apply (is_valid_true _ (n_inputs cols)); cbn [classes dataset columns]; [| |assumption].
    + rewrite xrff_classes_regression by assumption. cbn. lia.
    + rewrite xrff_classes_regression by assumption.
      eapply Forall_impl; [|apply xrff_examples_width]. intros e He. split; [exact He|left; reflexivity].
  - destruct (classification_facts cols arows [] Hv Hn wf_classes_nil) as (Hwf & _ & _ & Hlab & Hout).
    assert (H2len : (2 <= length (xrff_classes cols [] arows))%nat).
    { rewrite <- (map_length fst). destruct Hwf as [Hnd _].
      eapply NoDup_two; [exact Hnd|apply Hlab; exact H1|apply Hlab; exact H2|exact Hne]. }
    apply (is_valid_true _ (n_inputs cols)); cbn [classes dataset columns]; [lia| |assumption].
    apply Forall_forall. intros e He. split.
    + exact (proj1 (Forall_forall _ _) (xrff_examples_width cols arows []) e He).
    + right. exact (proj1 (Forall_forall _ _) Hout e He).
Qed.

(* the columns XrffProofs computes from the attributes are valid *)
Lemma columns_valid_intro : forall cols,
  (forall c, In c cols -> domain_eqb (c_domain c) DVoid && negb (is_nil (c_states c)) = false) ->
  columns_valid cols = true.
Proof.
  intros cols H. unfold columns_valid.
  destruct (existsb (fun c => domain_eqb (c_domain c) DVoid && negb (is_nil (c_states c))) cols) eqn:E; [|reflexivity].
  apply existsb_exists in E. destruct E as (c & Hin & Hc). rewrite (H c Hin) in Hc. discriminate.
Qed.

Lemma attr_column_ok : forall b a,
  domain_eqb (c_domain (attr_column b a)) DVoid && negb (is_nil (c_states (attr_column b a))) = false.
Proof.
  intros b a. unfold attr_column. cbn [c_domain c_states].
  destruct (bytes_eqb (attr_type b a) s_nominal) eqn:E.
  - apply bytes_eqb_eq in E. rewrite E. reflexivity.
  - cbn [is_nil negb]. apply andb_false_r.
Qed.

Lemma attr_columns_valid : forall b a l, columns_valid (attr_column b a :: map (attr_column false) l) = true.
Proof.
  intros b a l. apply columns_valid_intro. intros c [<-|Hin]; [apply attr_column_ok|].
  apply in_map_iff in Hin. destruct Hin as (x & <- & _). apply attr_column_ok.
Qed.

(* ------------------------------------------------------------ (4) end to end *)
(* parameterised by the output index and the columns *)
Theorem xrff_reader_core : forall k cols insts flt, cols <> [] -> (k < length cols)%nat ->
  columns_valid cols = true ->
  Forall (inst_ok cols k) (filter_map flt insts) ->
  out_kind_ok cols (map (arrange (Some k)) (filter_map flt insts)) ->
  bind (xrff_instances is_number stod stoi fixed_v flt k insts {| columns := cols; classes := []; dataset := [] |})
       (fun df => bind (is_valid df) (fun ok => Ok (df, if ok then length (dataset df) else 0%nat)))
  = Ok (xrff_frame cols (map (arrange (Some k)) (filter_map flt insts)), length (filter_map flt insts)).
Proof.
  intros k cols insts flt Hne Hk Hcv Hrows Hkind.
  rewrite xrff_instances_filter_map, xrff_instances_spec by assumption. cbn [bind].
  fold (xrff_frame cols (map (arrange (Some k)) (filter_map flt insts))).
  rewrite xrff_is_valid by assumption. cbn [bind]. unfold xrff_frame at 2. cbn [dataset].
  rewrite xrff_examples_length, map_length. reflexivity.
Qed.

(* exactly one class="yes" attribute: it is the output *)
Theorem read_xrff_end_to_end_one_class_lemma : forall pre a post insts flt,
  Forall (fun x => xa_class_yes x = false) (pre ++ post) -> xa_class_yes a = true ->
  let cols := attr_column true a :: map (attr_column false) (pre ++ post) in
  let k := length pre in
  let rows := filter_map flt insts in
  Forall (inst_ok cols k) rows -> out_kind_ok cols (map (arrange (Some k)) rows) ->
  read_xrff is_number stod stoi fixed_v {| x_attributes := Some (pre ++ a :: post); x_instances := Some insts |} flt
  = Ok (xrff_frame cols (map (arrange (Some k)) rows), length rows).
Proof.
  intros pre a post insts flt HF Ha cols k rows Hrows Hkind.
  rewrite read_xrff_output_column_one_class_lemma by assumption.
  apply xrff_reader_core; try assumption.
  - discriminate.
  - subst cols k. cbn [length]. rewrite map_length, app_length. lia.
  - apply attr_columns_valid.
Qed.

(* no class="yes" attribute: the last attribute is the output *)
Theorem read_xrff_end_to_end_no_class_lemma : forall attrs d insts flt,
  attrs <> [] -> Forall (fun x => xa_class_yes x = false) attrs ->
  let cols := attr_column false (last attrs d) :: map (attr_column false) (removelast attrs) in
  let k := (length attrs - 1)%nat in
  let rows := filter_map flt insts in
  Forall (inst_ok cols k) rows -> out_kind_ok cols (map (arrange (Some k)) rows) ->
  read_xrff is_number stod stoi fixed_v {| x_attributes := Some attrs; x_instances := Some insts |} flt
  = Ok (xrff_frame cols (map (arrange (Some k)) rows), length rows).
Proof.
  intros attrs d insts flt Hne HF cols k rows Hrows Hkind.
  rewrite (read_xrff_output_column_no_class_lemma is_number stod stoi attrs insts flt d) by assumption.
  apply xrff_reader_core; try assumption.
  - discriminate.
  - subst cols k. cbn [length]. rewrite map_length, removelast_length_eq. lia.
  - apply attr_columns_valid.
Qed.

(* the width of an accepted instance is the number of attributes *)
Lemma one_class_cols_length : forall a pre post,
  length (attr_column true a :: map (attr_column false) (pre ++ post)) = length (pre ++ a :: post).
Proof. intros a pre post. cbn [length]. rewrite map_length, !app_length. cbn [length]. lia. Qed.

Lemma no_class_cols_length : forall attrs d, attrs <> [] ->
  length (attr_column false (last attrs d) :: map (attr_column false) (removelast attrs)) = length attrs.
Proof.
  intros attrs d Hne. cbn [length]. rewrite map_length, removelast_length_eq.
  destruct attrs; [congruence|]. cbn [length]. lia.
Qed.

(* both cases, without a filter: one example per instance *)
Theorem read_xrff_end_to_end_lemma : forall (insts : list record),
  (forall attrs d, attrs <> [] -> Forall (fun x => xa_class_yes x = false) attrs ->
     let cols := attr_column false (last attrs d) :: map (attr_column false) (removelast attrs) in
     let k := (length attrs - 1)%nat in
     Forall (inst_ok cols k) insts -> out_kind_ok cols (map (arrange (Some k)) insts) ->
     read_xrff is_number stod stoi fixed_v {| x_attributes := Some attrs; x_instances := Some insts |} no_filter
     = Ok (xrff_frame cols (map (arrange (Some k)) insts), length insts))
  /\
  (forall pre a post, Forall (fun x => xa_class_yes x = false) (pre ++ post) -> xa_class_yes a = true ->
     let cols := attr_column true a :: map (attr_column false) (pre ++ post) in
     let k := length pre in
     Forall (inst_ok cols k) insts -> out_kind_ok cols (map (arrange (Some k)) insts) ->
     read_xrff is_number stod stoi fixed_v {| x_attributes := Some (pre ++ a :: post); x_instances := Some insts |} no_filter
     = Ok (xrff_frame cols (map (arrange (Some k)) insts), length insts)).
Proof.
  intro insts. split.
  - intros attrs d Hne HF cols k Hrows Hkind.
    pose proof (read_xrff_end_to_end_no_class_lemma attrs d insts no_filter Hne HF) as H.
    cbv zeta in H. rewrite filter_map_no_filter in H. apply H; assumption.
  - intros pre a post HF Ha cols k Hrows Hkind.
    pose proof (read_xrff_end_to_end_one_class_lemma pre a post insts no_filter HF Ha) as H.
    cbv zeta in H. rewrite filter_map_no_filter in H. apply H; assumption.
Qed.

End XrffEndToEnd.


(* ------------------------------------------------------------ sanity: the hypotheses are satisfiable *)
Module Sanity.
Definition isdig (c : Z) : bool := (48 <=? c) && (c <=? 57).
Definition isnum (s : bytes) : bool := negb (is_nil s) && forallb isdig s.
Definition sd (s : bytes) : conv := if isnum s then CvOk (fold_left (fun a c => 10 * a + (c - 48)) s 0) else CvInvalid.
Definition si (s : bytes) : conv := CvInvalid.

(* x1 numeric, c nominal {a,b} class="yes", x2 real; the class is in the middle *)
Definition x1 : xattr := {| xa_name := [120; 49]; xa_class_yes := false; xa_type := s_numeric; xa_labels := [] |}.
Definition cl : xattr := {| xa_name := [99]; xa_class_yes := true; xa_type := s_nominal; xa_labels := [[97]; [98]] |}.
Definition x2 : xattr := {| xa_name := [120; 50]; xa_class_yes := false; xa_type := s_real; xa_labels := [] |}.
(* 1,a,2   3, b,4   5,a ,6 *)
Definition insts : list record := [[[49]; [97]; [50]]; [[51]; [32; 98]; [52]]; [[53]; [97; 32]; [54]]].

Ltac conv_cells :=
  split; [reflexivity|]; split;
  [ intros i c Hi Hc Hd;
    do 3 (destruct i as [|i]; [try lia; vm_compute in Hc; inversion Hc; subst; vm_compute; eexists; reflexivity|]);
    destruct i; discriminate Hc
  | intros c0 Hc Hd Hn; vm_compute in Hn; discriminate Hn ].

Example xrff_sanity :
  read_xrff isnum sd si fixed_v {| x_attributes := Some [x1; cl; x2]; x_instances := Some insts |} no_filter
  = Ok ({| columns := [ {| c_name := [99]; c_domain := DDouble; c_states := [] |};
                        {| c_name := [120; 49]; c_domain := DDouble; c_states := [] |};
                        {| c_name := [120; 50]; c_domain := DDouble; c_states := [] |} ];
           classes := [([97], 0); ([98], 1)];
           dataset := [ {| e_input := [VDouble 1; VDouble 2]; e_output := VInt 0 |};
                        {| e_input := [VDouble 3; VDouble 4]; e_output := VInt 1 |};
                        {| e_input := [VDouble 5; VDouble 6]; e_output := VInt 0 |} ] |}, 3%nat).
Proof.
  pose proof (read_xrff_end_to_end_one_class_lemma isnum sd si [x1] cl [x2] insts no_filter) as H.
  cbv zeta in H. etransitivity; [apply H|vm_compute; reflexivity].
  - repeat constructor.
  - reflexivity.
  - constructor; [conv_cells|constructor; [conv_cells|constructor; [conv_cells|constructor]]].
  - right. split; [reflexivity|]. split; [repeat constructor|].
    eexists. eexists. split; [left; reflexivity|]. split; [right; left; reflexivity|].
    vm_compute. discriminate.
Qed.

(* the boundary of [out_kind_ok]: a single label gives a frame that is not
   valid (count 0); a number among the labels of a typed output column makes
   is_valid raise (std::get<D_INT> on a double) *)
Definition one_label : list record := [[[49]; [97]; [50]]; [[51]; [32; 97]; [52]]].
Definition mixed : list record := [[[49]; [97]; [50]]; [[51]; [98]; [52]]; [[53]; [55]; [54]]].

Example xrff_one_label :
  read_xrff isnum sd si fixed_v {| x_attributes := Some [x1; cl; x2]; x_instances := Some one_label |} no_filter
  = Ok (xrff_frame isnum sd si (attr_column true cl :: map (attr_column false) [x1; x2])
                   (map (arrange (Some 1%nat)) one_label), 0%nat).
Proof. vm_compute. reflexivity. Qed.

Example xrff_mixed_output :
  read_xrff isnum sd si fixed_v {| x_attributes := Some [x1; cl; x2]; x_instances := Some mixed |} no_filter
  = Exn E_bad_variant.
Proof. vm_compute. reflexivity. Qed.
End Sanity.
