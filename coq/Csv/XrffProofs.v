(* Lemmas about the XRFF reader of the model (read_xrff): how the DOM chooses
   the output column ("class=yes or the last attribute is the output; the
   output column is always the first column, the others keep their order"),
   and one step of the instance loop on the repaired variant. *)
From Coq Require Import ZArith List Bool Lia ZifyBool Arith.
From VV Require Import Csv.CsvDefs Csv.IngestProofs.
Import ListNotations.
Local Open Scope Z_scope.
Local Open Scope bool_scope.

(* ------------------------------------------------------------ the column of one attribute *)
Definition attr_type (output : bool) (a : xattr) : bytes :=
  if output && (bytes_eqb (xa_type a) s_nominal || bytes_eqb (xa_type a) s_string) then s_numeric else xa_type a.

Definition attr_column (output : bool) (a : xattr) : column :=
  {| c_name := xa_name a; c_domain := from_weka (attr_type output a);
     c_states := if bytes_eqb (attr_type output a) s_nominal then fold_left states_insert (xa_labels a) [] else [] |}.

Definition no_class (a : xattr) : Prop := xa_class_yes a = false.

(* ------------------------------------------------------------ generic list facts *)
Lemma last_map_ne : forall {A B} (f : A -> B) (l : list A) (d : B) (d' : A),
  l <> [] -> last (map f l) d = f (last l d').
Proof.
  intros A B f l d d'. induction l as [|x l IH]; intro Hne; [congruence|].
  destruct l as [|y l]; [reflexivity|].
  change (last (map f (y :: l)) d = f (last (y :: l) d')). apply IH. discriminate.
Qed.

Lemma removelast_map_eq : forall {A B} (f : A -> B) (l : list A),
  removelast (map f l) = map f (removelast l).
Proof.
  intros A B f l. induction l as [|x l IH]; [reflexivity|].
  destruct l as [|y l]; [reflexivity|].
  change (f x :: removelast (map f (y :: l)) = f x :: map f (removelast (y :: l))). rewrite IH. reflexivity.
Qed.

(* ------------------------------------------------------------ the attribute loop *)
(* one step, attribute without class="yes" *)
Lemma xrff_attrs_step_no : forall a r n oi idx cols, xa_class_yes a = false ->
  xrff_attrs (a :: r) n oi idx cols = xrff_attrs r n oi (S idx) (cols ++ [attr_column false a]).
Proof.
  intros a r n oi idx cols Hc. cbn [xrff_attrs]. unfold attr_column, attr_type. rewrite Hc. cbn [andb]. reflexivity.
Qed.

(* one step, the first attribute with class="yes" *)
Lemma xrff_attrs_step_first_yes : forall a r oi idx cols, xa_class_yes a = true ->
  xrff_attrs (a :: r) 0 oi idx cols = xrff_attrs r 1 idx (S idx) (attr_column true a :: cols).
Proof.
  intros a r oi idx cols Hc. cbn [xrff_attrs]. unfold attr_column, attr_type. rewrite Hc. cbn [andb Nat.ltb Nat.leb]. reflexivity.
Qed.

(* one step, a further attribute with class="yes" *)
Lemma xrff_attrs_step_second_yes : forall a r n oi idx cols, xa_class_yes a = true ->
  xrff_attrs (a :: r) (S n) oi idx cols = Exn E_data_format.
Proof.
  intros a r n oi idx cols Hc. cbn [xrff_attrs]. rewrite Hc. cbn [andb Nat.ltb Nat.leb]. reflexivity.
Qed.

(* generalised over the accumulators: n_output and output_index stay, the
   index grows by the length, the columns grow at the back *)
Lemma xrff_attrs_no_class_gen : forall attrs n oi idx cols, Forall no_class attrs ->
  xrff_attrs attrs n oi idx cols = Ok (n, oi, (idx + length attrs)%nat, cols ++ map (attr_column false) attrs).
Proof.
  induction attrs as [|a r IH]; intros n oi idx cols HF.
  - cbn [xrff_attrs length map]. rewrite Nat.add_0_r, app_nil_r. reflexivity.
  - inversion HF as [|a' r' Ha Hr]; subst. rewrite xrff_attrs_step_no by exact Ha.
    rewrite IH by exact Hr. cbn [length map]. rewrite <- app_assoc. cbn [app].
    replace (S idx + length r)%nat with (idx + S (length r))%nat by lia. reflexivity.
Qed.

(* (1) *)
Lemma xrff_attrs_no_class_lemma : forall attrs, Forall (fun a => xa_class_yes a = false) attrs ->
  xrff_attrs attrs 0 0 0 [] = Ok (0%nat, 0%nat, length attrs, map (attr_column false) attrs).
Proof.
  intros attrs HF. rewrite xrff_attrs_no_class_gen by exact HF. reflexivity.
Qed.

Lemma xrff_attrs_one_class_gen : forall pre a post oi idx cols,
  Forall no_class (pre ++ post) -> xa_class_yes a = true ->
  xrff_attrs (pre ++ a :: post) 0 oi idx cols
  = Ok (1%nat, (idx + length pre)%nat, (idx + length (pre ++ a :: post))%nat,
        attr_column true a :: cols ++ map (attr_column false) (pre ++ post)).
Proof.
  induction pre as [|p pre IH]; intros a post oi idx cols HF Ha.
  - cbn [app] in *. rewrite xrff_attrs_step_first_yes by exact Ha.
    rewrite xrff_attrs_no_class_gen by exact HF. cbn [length app].
    rewrite Nat.add_0_r. replace (S idx + length post)%nat with (idx + S (length post))%nat by lia. reflexivity.
  - cbn [app] in *. inversion HF as [|p' r' Hp Hr]; subst.
    rewrite xrff_attrs_step_no by exact Hp. rewrite IH by assumption.
    cbn [length map]. rewrite <- app_assoc. cbn [app].
    replace (S idx + length pre)%nat with (idx + S (length pre))%nat by lia.
    replace (S idx + length (pre ++ a :: post))%nat with (idx + S (length (pre ++ a :: post)))%nat by lia.
    reflexivity.
Qed.

(* (2) *)
Lemma xrff_attrs_one_class_lemma : forall pre a post,
  Forall (fun a => xa_class_yes a = false) (pre ++ post) -> xa_class_yes a = true ->
  xrff_attrs (pre ++ a :: post) 0 0 0 [] =
  Ok (1%nat, length pre, length (pre ++ a :: post), attr_column true a :: map (attr_column false) (pre ++ post)).
Proof.
  intros pre a post HF Ha. rewrite xrff_attrs_one_class_gen by assumption. reflexivity.
Qed.

(* once one class="yes" attribute has been seen, the next one raises *)
Lemma xrff_attrs_second_class_gen : forall l2 b l3 n oi idx cols,
  Forall no_class l2 -> xa_class_yes b = true ->
  xrff_attrs (l2 ++ b :: l3) (S n) oi idx cols = Exn E_data_format.
Proof.
  induction l2 as [|p l2 IH]; intros b l3 n oi idx cols HF Hb.
  - cbn [app]. apply xrff_attrs_step_second_yes. exact Hb.
  - cbn [app]. inversion HF as [|p' r' Hp Hr]; subst.
    rewrite xrff_attrs_step_no by exact Hp. apply IH; assumption.
Qed.

Lemma xrff_attrs_two_classes_gen : forall l1 a l2 b l3 oi idx cols,
  xa_class_yes a = true -> xa_class_yes b = true -> Forall no_class l1 -> Forall no_class l2 ->
  xrff_attrs (l1 ++ a :: l2 ++ b :: l3) 0 oi idx cols = Exn E_data_format.
Proof.
  induction l1 as [|p l1 IH]; intros a l2 b l3 oi idx cols Ha Hb H1 H2.
  - cbn [app]. rewrite xrff_attrs_step_first_yes by exact Ha. apply xrff_attrs_second_class_gen; assumption.
  - cbn [app]. inversion H1 as [|p' r' Hp Hr]; subst.
    rewrite xrff_attrs_step_no by exact Hp. apply IH; assumption.
Qed.

(* (3) *)
Lemma xrff_attrs_two_classes_lemma : forall l1 a l2 b l3,
  xa_class_yes a = true -> xa_class_yes b = true ->
  Forall (fun x => xa_class_yes x = false) l1 -> Forall (fun x => xa_class_yes x = false) l2 ->
  xrff_attrs (l1 ++ a :: l2 ++ b :: l3) 0 0 0 [] = Exn E_data_format.
Proof.
  intros l1 a l2 b l3 Ha Hb H1 H2. apply xrff_attrs_two_classes_gen; assumption.
Qed.

(* ------------------------------------------------------------ the reader as a whole *)
Section Reader.
Variable is_number : bytes -> bool.
Variable stod : bytes -> conv.
Variable stoi : bytes -> conv.

(* (4a) no class="yes": the LAST attribute is the output column, moved to the
   front; the others keep their order *)
Lemma read_xrff_output_column_no_class_lemma : forall (attrs : list xattr) (insts : list record) (flt : filter_t) (d : xattr),
  attrs <> [] -> Forall (fun a => xa_class_yes a = false) attrs ->
  read_xrff is_number stod stoi fixed_v {| x_attributes := Some attrs; x_instances := Some insts |} flt
  = bind (xrff_instances is_number stod stoi fixed_v flt (length attrs - 1) insts
            {| columns := attr_column false (last attrs d) :: map (attr_column false) (removelast attrs);
               classes := []; dataset := [] |})
         (fun df => bind (is_valid df) (fun ok => Ok (df, if ok then length (dataset df) else 0%nat))).
Proof.
  intros attrs insts flt d Hne HF. unfold read_xrff. cbn [x_attributes x_instances].
  rewrite xrff_attrs_no_class_lemma by exact HF. cbn [bind Nat.eqb].
  destruct attrs as [|a0 r0] eqn:Eattrs; [congruence|]. rewrite <- Eattrs in *.
  assert (Hnil : is_nil (map (attr_column false) attrs) = false) by (rewrite Eattrs; reflexivity).
  rewrite Hnil. rewrite (last_map_ne (attr_column false) attrs default_column d) by exact Hne.
  rewrite removelast_map_eq. rewrite <- Nat.sub_1_r. reflexivity.
Qed.

(* (4b) one class="yes" at position length pre: that attribute is the output
   column, moved to the front (and retyped numeric when nominal/string); the
   others keep their order *)
Lemma read_xrff_output_column_one_class_lemma : forall (pre : list xattr) (a : xattr) (post : list xattr) (insts : list record) (flt : filter_t),
  Forall (fun a => xa_class_yes a = false) (pre ++ post) -> xa_class_yes a = true ->
  read_xrff is_number stod stoi fixed_v {| x_attributes := Some (pre ++ a :: post); x_instances := Some insts |} flt
  = bind (xrff_instances is_number stod stoi fixed_v flt (length pre) insts
            {| columns := attr_column true a :: map (attr_column false) (pre ++ post);
               classes := []; dataset := [] |})
         (fun df => bind (is_valid df) (fun ok => Ok (df, if ok then length (dataset df) else 0%nat))).
Proof.
  intros pre a post insts flt HF Ha. unfold read_xrff. cbn [x_attributes x_instances].
  rewrite xrff_attrs_one_class_lemma by assumption. cbn [bind Nat.eqb is_nil]. reflexivity.
Qed.

(* (4) both cases under the name of the property *)
Lemma read_xrff_output_column_lemma : forall (insts : list record) (flt : filter_t),
  (forall (attrs : list xattr) (d : xattr), attrs <> [] -> Forall (fun a => xa_class_yes a = false) attrs ->
     read_xrff is_number stod stoi fixed_v {| x_attributes := Some attrs; x_instances := Some insts |} flt
     = bind (xrff_instances is_number stod stoi fixed_v flt (length attrs - 1) insts
               {| columns := attr_column false (last attrs d) :: map (attr_column false) (removelast attrs);
                  classes := []; dataset := [] |})
            (fun df => bind (is_valid df) (fun ok => Ok (df, if ok then length (dataset df) else 0%nat))))
  /\
  (forall (pre : list xattr) (a : xattr) (post : list xattr),
     Forall (fun a => xa_class_yes a = false) (pre ++ post) -> xa_class_yes a = true ->
     read_xrff is_number stod stoi fixed_v {| x_attributes := Some (pre ++ a :: post); x_instances := Some insts |} flt
     = bind (xrff_instances is_number stod stoi fixed_v flt (length pre) insts
               {| columns := attr_column true a :: map (attr_column false) (pre ++ post);
                  classes := []; dataset := [] |})
            (fun df => bind (is_valid df) (fun ok => Ok (df, if ok then length (dataset df) else 0%nat)))).
Proof.
  intros insts flt. split.
  - intros attrs d Hne HF. apply read_xrff_output_column_no_class_lemma; assumption.
  - intros pre a post HF Ha. apply read_xrff_output_column_one_class_lemma; assumption.
Qed.

(* (4c) two class="yes" attributes: the document is rejected *)
Lemma read_xrff_two_classes_lemma : forall l1 a l2 b l3 (xi : option (list record)) (flt : filter_t) (v : variant),
  xa_class_yes a = true -> xa_class_yes b = true ->
  Forall (fun x => xa_class_yes x = false) l1 -> Forall (fun x => xa_class_yes x = false) l2 ->
  read_xrff is_number stod stoi v {| x_attributes := Some (l1 ++ a :: l2 ++ b :: l3); x_instances := xi |} flt
  = Exn E_data_format.
Proof.
  intros l1 a l2 b l3 xi flt v Ha Hb H1 H2. unfold read_xrff. cbn [x_attributes].
  rewrite xrff_attrs_two_classes_lemma by assumption. reflexivity.
Qed.

(* ------------------------------------------------------------ the instance loop (repaired variant) *)
(* (5) an instance the filter keeps and that is wide enough: the output cell
   is moved to the front and the record is read *)
Lemma xrff_instance_step_lemma : forall (flt : filter_t) (k : nat) (rcd0 rcd : record) (rest : list record) (df : dataframe),
  flt rcd0 = Some rcd -> (k < length rcd)%nat ->
  xrff_instances is_number stod stoi fixed_v flt k (rcd0 :: rest) df
  = bind (read_record is_number stod stoi df (arrange (Some k) rcd) false)
         (fun df' => xrff_instances is_number stod stoi fixed_v flt k rest df').
Proof.
  intros flt k rcd0 rcd rest df Hflt Hk. cbn [xrff_instances]. rewrite Hflt.
  cbn [fixed_v g_rotate_xrff andb].
  destruct (Nat.leb (length rcd) k) eqn:Ele; [apply Nat.leb_le in Ele; lia|].
  rewrite rotate_front_arrange by exact Hk. reflexivity.
Qed.

Lemma xrff_instance_filtered_lemma : forall (v : variant) (flt : filter_t) (k : nat) (rcd0 : record) (rest : list record) (df : dataframe),
  flt rcd0 = None ->
  xrff_instances is_number stod stoi v flt k (rcd0 :: rest) df
  = xrff_instances is_number stod stoi v flt k rest df.
Proof.
  intros v flt k rcd0 rest df Hflt. cbn [xrff_instances]. rewrite Hflt. reflexivity.
Qed.

(* the width guard of the fix: a record without the output cell is skipped *)
Lemma xrff_instance_short_lemma : forall (flt : filter_t) (k : nat) (rcd0 rcd : record) (rest : list record) (df : dataframe),
  flt rcd0 = Some rcd -> (length rcd <= k)%nat ->
  xrff_instances is_number stod stoi fixed_v flt k (rcd0 :: rest) df
  = xrff_instances is_number stod stoi fixed_v flt k rest df.
Proof.
  intros flt k rcd0 rcd rest df Hflt Hk. cbn [xrff_instances]. rewrite Hflt.
  cbn [fixed_v g_rotate_xrff andb].
  destruct (Nat.leb (length rcd) k) eqn:Ele; [reflexivity|]. apply Nat.leb_gt in Ele. lia.
Qed.

(* the same record on the pinned tree: no guard, the rotation reads out of bounds *)
Lemma xrff_instance_short_pinned_lemma : forall (flt : filter_t) (k : nat) (rcd0 rcd : record) (rest : list record) (df : dataframe),
  flt rcd0 = Some rcd -> (length rcd <= k)%nat ->
  xrff_instances is_number stod stoi pinned_v flt k (rcd0 :: rest) df = OOB S_rotate_xrff.
Proof.
  intros flt k rcd0 rcd rest df Hflt Hk. cbn [xrff_instances]. rewrite Hflt.
  cbn [pinned_v g_rotate_xrff andb]. unfold rotate_front, get.
  assert (Hn : nth_error rcd k = None) by (apply nth_error_None; exact Hk).
  rewrite Hn. reflexivity.
Qed.

End Reader.
