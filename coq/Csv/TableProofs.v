(* C09: read_csv imports a typed rectangular table faithfully (model level):
   one example per data row, in order; inputs = the cells of the non-output,
   non-void columns in their original order, numbers as numbers, text as text;
   output = the designated column, class labels threaded through [encode];
   column names from the header. *)
From Coq Require Import ZArith List Bool Lia ZifyBool Arith.
From VV Require Import Csv.CsvDefs Csv.CsvProofs Csv.IngestProofs.
Import ListNotations.
Local Open Scope Z_scope.
Local Open Scope bool_scope.

Inductive kind := KVoid | KNum | KText.

(* every column of the second list keeps the domain and the name it has in the first *)
Definition cols_same (cols cols' : list column) : Prop :=
  length cols' = length cols /\
  forall j c c', nth_error cols j = Some c -> nth_error cols' j = Some c' ->
    c_domain c' = c_domain c /\ c_name c' = c_name c.

Lemma cols_same_refl : forall cols, cols_same cols cols.
Proof. intro cols. split; [reflexivity|]. intros j c c' H1 H2. rewrite H1 in H2. inversion H2. auto. Qed.

Lemma cols_same_trans : forall a b c, cols_same a b -> cols_same b c -> cols_same a c.
Proof.
  intros a b c [L1 H1] [L2 H2]. split; [congruence|].
  intros j x z Hx Hz.
  assert (Hlt : (j < length b)%nat) by (rewrite L1; apply nth_error_Some; congruence).
  pose proof (nth_error_nth' b j default_column Hlt) as Hy.
  destruct (H1 _ _ _ Hx Hy) as [D1 N1]. destruct (H2 _ _ _ Hy Hz) as [D2 N2]. split; congruence.
Qed.

Lemma cols_same_set_nth : forall cols i c x, nth_error cols i = Some c ->
  c_domain x = c_domain c -> c_name x = c_name c -> cols_same cols (set_nth cols i x).
Proof.
  intros cols i c x Hc Hd Hn. split; [apply set_nth_length|].
  intros j y y' Hy Hy'. rewrite nth_error_set_nth in Hy'.
  destruct (Nat.eqb j i) eqn:E.
  - apply Nat.eqb_eq in E. subst j. destruct (Nat.ltb i (length cols)); [|discriminate].
    inversion Hy'; subst. rewrite Hc in Hy. inversion Hy; subst. auto.
  - rewrite Hy in Hy'. inversion Hy'. auto.
Qed.

Section Table.
Variable is_number : bytes -> bool.
Variable stod : bytes -> conv.
Variable stoi : bytes -> conv.
Variable n : nat.                       (* width of the ARRANGED records: output column first *)
Hypothesis Hn : (1 <= n)%nat.
Variable kinds : nat -> kind.           (* kind of arranged column j; kinds 0 describes the output *)

Definition dom_of (j : nat) (k : kind) : domain :=
  match k with KVoid => DVoid | KNum => DDouble | KText => if Nat.eqb j 0 then DDouble else DString end.

(* typing of one cell of an arranged row.  [first] = the first data row (it decides the domains) *)
Definition cell_ok (first : bool) (j : nat) (c : bytes) : Prop :=
  match kinds j with
  | KVoid => blank c = true
  | KNum => blank c = false /\ is_number (trim c) = true /\ (j = O -> is_number c = true) /\ exists b, stod (trim c) = CvOk b
  | KText => (j = O -> is_number c = false) /\ (first = true -> blank c = false /\ is_number (trim c) = false)
  end.
Definition row_ok (first : bool) (a : record) : Prop :=
  length a = n /\ forall j, (j < n)%nat -> cell_ok first j (nth j a []).

Definition num_value (c : bytes) : value := match stod (trim c) with CvOk b => VDouble b | _ => VVoid end.
Definition input_values (a : record) : list value :=
  flat_map (fun j => match kinds j with KVoid => [] | KNum => [num_value (nth j a [])] | KText => [VString (trim (nth j a []))] end) (seq 1 (n - 1)).
Definition output_value (cm : classes_t) (a : record) : value * classes_t :=
  match kinds O with
  | KVoid => (VVoid, cm)
  | KNum => (num_value (nth O a []), cm)
  | KText => let (id, cm') := encode cm (trim (nth O a [])) in (VInt id, cm')
  end.
Fixpoint spec_rows (cm : classes_t) (rows : list record) : list example * classes_t :=
  match rows with
  | [] => ([], cm)
  | a :: r => let (o, cm1) := output_value cm a in
              let (es, cm2) := spec_rows cm1 r in
              ({| e_input := input_values a; e_output := o |} :: es, cm2)
  end.

(* the contribution of arranged column j to the inputs *)
Definition contrib (a : record) (j : nat) : list value :=
  match kinds j with KVoid => [] | KNum => [num_value (nth j a [])] | KText => [VString (trim (nth j a []))] end.

Lemma input_values_eq : forall a, input_values a = flat_map (contrib a) (seq 1 (n - 1)).
Proof. reflexivity. Qed.

(* the columns have their final domains *)
Definition cols_typed (cols : list column) : Prop :=
  length cols = n /\ forall j c, nth_error cols j = Some c -> c_domain c = dom_of j (kinds j).

Lemma cols_typed_same : forall cols cols', cols_typed cols -> cols_same cols cols' -> cols_typed cols'.
Proof.
  intros cols cols' [L H] [L' H']. split; [congruence|].
  intros j c' Hc'.
  assert (Hlt : (j < length cols)%nat) by (rewrite <- L'; apply nth_error_Some; congruence).
  pose proof (nth_error_nth' cols j default_column Hlt) as Hc.
  destruct (H' _ _ _ Hc Hc') as [D _]. rewrite D. apply H. assumption.
Qed.

Lemma row_ok_weaken : forall a, row_ok true a -> row_ok false a.
Proof.
  intros a [L H]. split; [assumption|]. intros j Hj. specialize (H j Hj). unfold cell_ok in *.
  destruct (kinds j); auto. destruct H as [H1 _]. split; [assumption|discriminate].
Qed.

(* ------------------------------------------------------------ (A) to_example *)
Lemma toex_step_out : forall a cols cm, cols_typed cols -> row_ok false a ->
  toex_step is_number stod stoi a true O ({| e_input := []; e_output := VVoid |}, cols, cm)
  = Ok ({| e_input := []; e_output := fst (output_value cm a) |}, cols, snd (output_value cm a)).
Proof.
  intros a cols cm [Lc Hd] [La Hc].
  assert (H0 : (0 < length cols)%nat) by lia.
  pose proof (nth_error_nth' cols O default_column H0) as Ec.
  pose proof (Hd _ _ Ec) as Dc.
  assert (H0a : (0 < length a)%nat) by lia.
  pose proof (nth_error_nth' a O [] H0a) as Ea.
  specialize (Hc O ltac:(lia)). unfold cell_ok in Hc.
  unfold toex_step, output_value.
  rewrite (get_ok _ _ _ _ Ec). cbn [bind]. rewrite Dc.
  destruct (kinds O) eqn:K; cbn [dom_of Nat.eqb domain_eqb].
  - reflexivity.
  - destruct Hc as (Hb & Hnt & Hnu & b & Hs). specialize (Hnu eq_refl).
    rewrite !(get_ok _ _ _ _ Ea). cbn [bind]. rewrite Hnu. cbn [negb].
    unfold convert, num_value. rewrite Hs. cbn [bind andb fst snd e_input]. reflexivity.
  - destruct Hc as (Hnu & _). specialize (Hnu eq_refl).
    rewrite !(get_ok _ _ _ _ Ea). cbn [bind]. rewrite Hnu. cbn [negb].
    destruct (encode cm (trim (nth O a []))) as [id cm'].
    cbn [bind andb fst snd e_input]. reflexivity.
Qed.

Lemma toex_step_in : forall a i ex cols cm, (1 <= i < n)%nat -> cols_typed cols -> row_ok false a ->
  exists cols', toex_step is_number stod stoi a true i (ex, cols, cm)
                = Ok ({| e_input := e_input ex ++ contrib a i; e_output := e_output ex |}, cols', cm)
                /\ cols_same cols cols'.
Proof.
  intros a i ex cols cm Hi [Lc Hd] [La Hc].
  assert (H0 : (i < length cols)%nat) by lia.
  pose proof (nth_error_nth' cols i default_column H0) as Ec.
  pose proof (Hd _ _ Ec) as Dc.
  assert (H0a : (i < length a)%nat) by lia.
  pose proof (nth_error_nth' a i [] H0a) as Ea.
  specialize (Hc i ltac:(lia)). unfold cell_ok in Hc.
  assert (Ei : Nat.eqb i 0 = false) by (apply Nat.eqb_neq; lia).
  unfold toex_step, contrib.
  rewrite (get_ok _ _ _ _ Ec). cbn [bind]. rewrite Dc.
  destruct (kinds i) eqn:K; cbn [dom_of domain_eqb]; rewrite ?Ei; cbn [domain_eqb].
  - exists cols. split; [|apply cols_same_refl]. rewrite app_nil_r. destruct ex; reflexivity.
  - destruct Hc as (Hb & Hnt & Hnu & b & Hs).
    rewrite (get_ok _ _ _ _ Ea). cbn [bind].
    unfold convert, num_value. rewrite Hs. cbn [bind andb]. exists cols. split; [reflexivity|apply cols_same_refl].
  - rewrite (get_ok _ _ _ _ Ea). cbn [bind convert andb]. eexists. split; [reflexivity|].
    eapply cols_same_set_nth; [exact Ec|rewrite Dc; cbn [c_domain dom_of]; rewrite Ei|]; reflexivity.
Qed.

Lemma seq_1_snoc : forall i, (1 <= i)%nat -> seq 1 i = seq 1 (i - 1) ++ [i].
Proof.
  intros i Hi. replace i with (S (i - 1)) at 1 by lia. rewrite seq_S. do 2 f_equal. lia.
Qed.

Lemma seq_0_cons : seq 0 n = O :: seq 1 (n - 1).
Proof. destruct n as [|m]; [lia|]. cbn [seq]. rewrite Nat.sub_succ, Nat.sub_0_r. reflexivity. Qed.

Lemma to_example_spec : forall df a, cols_typed (columns df) -> row_ok false a ->
  exists df', to_example is_number stod stoi df a true
              = Ok ({| e_input := input_values a; e_output := fst (output_value (classes df) a) |}, df')
    /\ classes df' = snd (output_value (classes df) a)
    /\ dataset df' = dataset df
    /\ length (columns df') = n
    /\ cols_same (columns df) (columns df').
Proof.
  intros df a Ht Ha. pose proof Ha as [La _]. pose proof Ht as [Lc _].
  unfold to_example. rewrite La.
  rewrite seq_0_cons. cbn [for_ck].
  rewrite (toex_step_out a _ _ Ht Ha). cbn [bind].
  set (o := fst (output_value (classes df) a)). set (cm' := snd (output_value (classes df) a)).
  destruct (for_ck_seq_inv
    (fun i (st : toex_state) => let '(ex, cols, cm) := st in
       e_input ex = flat_map (contrib a) (seq 1 (i - 1)) /\ e_output ex = o /\ cm = cm'
       /\ cols_same (columns df) cols)
    (toex_step is_number stod stoi a true) (n - 1) 1%nat
    ({| e_input := []; e_output := o |}, columns df, cm')) as ([[ex cols] cm] & E & Hin & Hout & Hcm & Hsame).
  - cbv beta iota. split; [reflexivity|]. split; [reflexivity|]. split; [reflexivity|apply cols_same_refl].
  - intros i [[ex cols] cm] Hi (Hin & Hout & Hcm & Hsame).
    destruct (toex_step_in a i ex cols cm ltac:(lia) (cols_typed_same _ _ Ht Hsame) Ha) as (cols' & E' & Hs').
    eexists. split; [exact E'|]. cbn [e_input e_output].
    split; [|split; [assumption|split; [assumption|apply (cols_same_trans _ _ _ Hsame Hs')]]].
    replace (S i - 1)%nat with i by lia. rewrite (seq_1_snoc i) by lia.
    rewrite flat_map_app. cbn [flat_map]. rewrite app_nil_r. rewrite Hin. reflexivity.
  - rewrite E. cbn [bind]. replace (1 + (n - 1) - 1)%nat with (n - 1)%nat in Hin by lia.
    eexists. split.
    + rewrite input_values_eq, <- Hin, <- Hout. destruct ex; reflexivity.
    + cbn [classes dataset columns]. pose proof Hsame as [L _].
      split; [assumption|]. split; [reflexivity|]. split; [congruence|assumption].
Qed.

(* ------------------------------------------------------------ (B) build is a no-op once the domains are final *)
Lemma for_ck_noop : forall {S} (body : nat -> S -> res S) idxs s,
  (forall i, In i idxs -> body i s = Ok s) -> for_ck idxs body s = Ok s.
Proof.
  intros S body. induction idxs as [|i r IH]; intros s H; [reflexivity|].
  cbn [for_ck]. rewrite (H i) by (left; reflexivity). cbn [bind]. apply IH. intros j Hj. apply H. right. assumption.
Qed.

Lemma set_domain_noop : forall v cols a idx, (idx < n)%nat -> cols_typed cols -> row_ok false a ->
  set_domain is_number v a idx cols = Ok cols.
Proof.
  intros v cols a idx Hi [Lc Hd] [La Hc].
  assert (H0 : (idx < length cols)%nat) by lia.
  pose proof (nth_error_nth' cols idx default_column H0) as Ec.
  pose proof (Hd _ _ Ec) as Dc.
  assert (H0a : (idx < length a)%nat) by lia.
  pose proof (nth_error_nth' a idx [] H0a) as Ea.
  specialize (Hc idx Hi). unfold cell_ok in Hc.
  unfold set_domain. rewrite (get_ok _ _ _ _ Ea). cbn [bind].
  destruct (is_nil (trim (nth idx a []))) eqn:Enil; [reflexivity|].
  rewrite (get_ok _ _ _ _ Ec). cbn [bind]. rewrite Dc.
  destruct (kinds idx) eqn:K; cbn [dom_of].
  - unfold blank in Hc. congruence.
  - reflexivity.
  - destruct (Nat.eqb idx 0); reflexivity.
Qed.

Lemma cols_typed_not_nil : forall cols, cols_typed cols -> is_nil cols = false.
Proof. intros [|c cols] [L _]; [cbn in L; lia|reflexivity]. Qed.

Lemma build_noop : forall cols a hh, cols_typed cols -> row_ok false a ->
  build is_number fixed_v cols a hh = Ok cols.
Proof.
  intros cols a hh Ht Ha. pose proof Ht as [Lc _]. pose proof Ha as [La _].
  unfold build. rewrite (cols_typed_not_nil _ Ht). cbn [g_build fixed_v andb].
  rewrite Lc, La, Nat.eqb_refl. cbn [negb].
  apply for_ck_noop. intros i Hi. apply in_seq in Hi. apply set_domain_noop; [lia|assumption|assumption].
Qed.

(* ------------------------------------------------------------ (C) the first data row fixes the domains *)
Definition retyped (j : nat) (c : column) : column :=
  {| c_name := c_name c; c_domain := dom_of j (kinds j); c_states := c_states c |}.

Lemma set_domain_first : forall v cols a i c, (i < n)%nat -> length cols = n -> length a = n ->
  nth_error cols i = Some c -> c_domain c = DVoid -> cell_ok true i (nth i a []) ->
  exists cols', set_domain is_number v a i cols = Ok cols' /\ length cols' = n /\
    forall j, nth_error cols' j = if Nat.eqb j i then Some (retyped i c) else nth_error cols j.
Proof.
  intros v cols a i c Hi Lc La Ec Dc Hc.
  assert (H0a : (i < length a)%nat) by lia.
  pose proof (nth_error_nth' a i [] H0a) as Ea.
  assert (Hlt : Nat.ltb i (length cols) = true) by (apply Nat.ltb_lt; lia).
  unfold cell_ok in Hc. unfold set_domain, retyped. rewrite (get_ok _ _ _ _ Ea). cbn [bind].
  destruct (kinds i) eqn:K; cbn [dom_of].
  - unfold blank in Hc. rewrite Hc. exists cols. split; [reflexivity|]. split; [assumption|].
    intro j. destruct (Nat.eqb j i) eqn:E; [|reflexivity]. apply Nat.eqb_eq in E. subst j.
    rewrite Ec. destruct c as [nm d st]. cbn in Dc. subst d. reflexivity.
  - destruct Hc as (Hb & Hnt & _). unfold blank in Hb. rewrite Hb.
    rewrite (get_ok _ _ _ _ Ec). cbn [bind]. rewrite Dc, Hnt. cbn [orb].
    eexists. split; [reflexivity|]. split; [rewrite set_nth_length; assumption|].
    intro j. rewrite nth_error_set_nth, Hlt. reflexivity.
  - destruct Hc as (_ & Hf). destruct (Hf eq_refl) as (Hb & Hnt). unfold blank in Hb. rewrite Hb.
    rewrite (get_ok _ _ _ _ Ec). cbn [bind]. rewrite Dc, Hnt. cbn [orb negb]. rewrite andb_true_r.
    eexists. split; [reflexivity|]. split; [rewrite set_nth_length; assumption|].
    intro j. rewrite nth_error_set_nth, Hlt. reflexivity.
Qed.

Lemma build_go_first : forall v cols a, length cols = n ->
  (forall j c, nth_error cols j = Some c -> c_domain c = DVoid) -> row_ok true a ->
  exists cols', for_ck (seq 0 n) (set_domain is_number v a) cols = Ok cols' /\ length cols' = n /\
    forall j c, nth_error cols j = Some c -> nth_error cols' j = Some (retyped j c).
Proof.
  intros v cols a Lc Hv [La Hc].
  destruct (for_ck_seq_inv
    (fun i (cs : list column) => length cs = n /\
       forall j c, nth_error cols j = Some c ->
         nth_error cs j = Some (if Nat.ltb j i then retyped j c else c))
    (set_domain is_number v a) n O cols) as (cols' & E & L' & H').
  - split; [assumption|]. intros j c Hj. assumption.
  - intros i cs Hi [Ls Hs].
    assert (H0 : (i < length cols)%nat) by lia.
    pose proof (nth_error_nth' cols i default_column H0) as Ec0.
    pose proof (Hs _ _ Ec0) as Ec. rewrite Nat.ltb_irrefl in Ec.
    destruct (set_domain_first v cs a i _ ltac:(lia) Ls La Ec (Hv _ _ Ec0) (Hc i ltac:(lia)))
      as (cs' & E' & L' & H').
    exists cs'. split; [assumption|]. split; [assumption|].
    intros j c Hj. rewrite H'. destruct (Nat.eqb j i) eqn:Eji.
    + apply Nat.eqb_eq in Eji. subst j. rewrite Ec0 in Hj. inversion Hj; subst.
      replace (Nat.ltb i (S i)) with true by (symmetry; apply Nat.ltb_lt; lia). reflexivity.
    + apply Nat.eqb_neq in Eji. rewrite (Hs _ _ Hj).
      destruct (Nat.ltb j i) eqn:E1; destruct (Nat.ltb j (S i)) eqn:E2; try reflexivity;
        [apply Nat.ltb_lt in E1; apply Nat.ltb_ge in E2|apply Nat.ltb_ge in E1; apply Nat.ltb_lt in E2]; lia.
  - exists cols'. split; [assumption|]. split; [assumption|].
    intros j c Hj. rewrite (H' _ _ Hj).
    assert (Hlt : (j < n)%nat) by (rewrite <- Lc; apply nth_error_Some; congruence).
    replace (Nat.ltb j (0 + n)) with true by (symmetry; apply Nat.ltb_lt; lia). reflexivity.
Qed.

Lemma build_first : forall cols a hh, length cols = n ->
  (forall j c, nth_error cols j = Some c -> c_domain c = DVoid) -> row_ok true a ->
  exists cols', build is_number fixed_v cols a hh = Ok cols' /\ length cols' = n /\
    forall j c, nth_error cols j = Some c -> nth_error cols' j = Some (retyped j c).
Proof.
  intros cols a hh Lc Hv Ha. pose proof Ha as [La _].
  unfold build. replace (is_nil cols) with false by (destruct cols; [cbn in Lc; lia|reflexivity]).
  cbn [g_build fixed_v andb]. rewrite Lc, La, Nat.eqb_refl. cbn [negb].
  apply build_go_first; assumption.
Qed.

(* no header: the columns are created by the first data row, without names *)
Lemma build_start : forall a, row_ok true a ->
  exists cols', build is_number fixed_v [] a false = Ok cols' /\ length cols' = n /\
    forall j, (j < n)%nat -> nth_error cols' j = Some (retyped j default_column).
Proof.
  intros a Ha. pose proof Ha as [La _].
  unfold build. cbn [is_nil g_build fixed_v andb]. rewrite repeat_length, La, Nat.eqb_refl. cbn [negb].
  destruct (build_go_first fixed_v (repeat default_column n) a) as (cols' & E & L & H).
  - apply repeat_length.
  - intros j c Hj. apply nth_error_In, repeat_spec in Hj. subst c. reflexivity.
  - assumption.
  - exists cols'. split; [assumption|]. split; [assumption|].
    intros j Hj. apply H. apply nth_error_repeat. assumption.
Qed.

(* the header record creates the columns: trimmed names, no domain yet *)
Definition header_column (name : bytes) : column := {| c_name := trim name; c_domain := DVoid; c_states := [] |}.

Lemma build_header : forall h, build is_number fixed_v [] h true = Ok (map header_column h).
Proof. reflexivity. Qed.

(* ------------------------------------------------------------ (D) the read_csv loop *)
Definition example_of (cm : classes_t) (a : record) : example :=
  {| e_input := input_values a; e_output := fst (output_value cm a) |}.

Lemma spec_rows_cons : forall cm a r,
  spec_rows cm (a :: r) =
  (example_of cm a :: fst (spec_rows (snd (output_value cm a)) r), snd (spec_rows (snd (output_value cm a)) r)).
Proof.
  intros cm a r. cbn [spec_rows]. unfold example_of.
  destruct (output_value cm a) as [o cm1]. cbn [fst snd]. destruct (spec_rows cm1 r) as [es cm2]. reflexivity.
Qed.

Lemma read_record_spec : forall df a, cols_typed (columns df) -> row_ok false a ->
  exists df', read_record is_number stod stoi df a true = Ok df'
    /\ dataset df' = dataset df ++ [example_of (classes df) a]
    /\ classes df' = snd (output_value (classes df) a)
    /\ cols_same (columns df) (columns df').
Proof.
  intros df a Ht Ha. pose proof Ht as [Lc _]. pose proof Ha as [La _].
  unfold read_record. rewrite La, Lc, Nat.eqb_refl. cbn [negb].
  destruct (to_example_spec df a Ht Ha) as (df' & E & Hcl & Hds & _ & Hsame).
  rewrite E. cbn [bind]. eexists. split; [reflexivity|]. cbn [dataset classes columns].
  split; [rewrite Hds; reflexivity|]. split; assumption.
Qed.

(* the body of the loop once the record is arranged *)
Definition cont (v : variant) (oi : option nat) (hh : bool) (rest : list record) (count : nat)
           (df : dataframe) (rcd' : record) : res dataframe :=
  cols <- (if Nat.ltb count 10 then build is_number v (columns df) rcd' hh else Ok (columns df)) ;;
  let df1 := {| columns := cols; classes := classes df; dataset := dataset df |} in
  df2 <- (if negb hh || negb (Nat.eqb count 0) then read_record is_number stod stoi df1 rcd' true else Ok df1) ;;
  ingest is_number stod stoi v oi hh rest (S count) df2.

Definition oi_ok (oi : option nat) (r : record) : Prop :=
  match oi with Some k => (k < length r)%nat | None => True end.

Lemma ingest_cons : forall oi hh rcd rest count df, oi_ok oi rcd ->
  ingest is_number stod stoi fixed_v oi hh (rcd :: rest) count df
  = cont fixed_v oi hh rest count df (arrange oi rcd).
Proof.
  intros oi hh rcd rest count df Hok. cbn [ingest]. fold (cont fixed_v oi hh rest count df).
  destruct oi as [k|]; [|reflexivity]. cbn [oi_ok] in Hok.
  cbn [g_rotate_csv fixed_v andb].
  replace (Nat.leb (length rcd) k) with false by (symmetry; apply Nat.leb_gt; assumption).
  destruct (Nat.ltb 0 k) eqn:E.
  - rewrite rotate_front_arrange by assumption. reflexivity.
  - apply Nat.ltb_ge in E. assert (k = O) by lia. subst k.
    rewrite arrange_zero; [reflexivity|]. intro H. subst rcd. cbn in Hok. lia.
Qed.

Lemma oi_ok_of : forall oi rows, (forall k, oi = Some k -> Forall (fun r : record => (k < length r)%nat) rows) ->
  Forall (oi_ok oi) rows.
Proof.
  intros [k|] rows H; [exact (H k eq_refl)|]. apply Forall_forall. intros; exact I.
Qed.

(* one data row, the columns being typed: build changes nothing, the row is read *)
Lemma cont_row : forall oi hh rest count df a, (1 <= count)%nat -> cols_typed (columns df) -> row_ok false a ->
  exists df2, cont fixed_v oi hh rest count df a = ingest is_number stod stoi fixed_v oi hh rest (S count) df2
    /\ dataset df2 = dataset df ++ [example_of (classes df) a]
    /\ classes df2 = snd (output_value (classes df) a)
    /\ cols_same (columns df) (columns df2).
Proof.
  intros oi hh rest count df a Hc Ht Ha. unfold cont.
  replace (if Nat.ltb count 10 then build is_number fixed_v (columns df) a hh else Ok (columns df))
    with (Ok (columns df)) by (destruct (Nat.ltb count 10); [rewrite build_noop by assumption|]; reflexivity).
  cbn [bind]. replace (Nat.eqb count 0) with false by (symmetry; apply Nat.eqb_neq; lia).
  rewrite orb_true_r.
  destruct (read_record_spec {| columns := columns df; classes := classes df; dataset := dataset df |} a Ht Ha)
    as (df2 & E & Hds & Hcl & Hsame).
  rewrite E. cbn [bind]. exists df2. split; [reflexivity|]. auto.
Qed.

Lemma ingest_rest : forall oi hh rest count df, (1 <= count)%nat -> cols_typed (columns df) ->
  Forall (fun r => row_ok false (arrange oi r)) rest -> Forall (oi_ok oi) rest ->
  exists df', ingest is_number stod stoi fixed_v oi hh rest count df = Ok df'
    /\ dataset df' = dataset df ++ fst (spec_rows (classes df) (map (arrange oi) rest))
    /\ classes df' = snd (spec_rows (classes df) (map (arrange oi) rest))
    /\ cols_same (columns df) (columns df').
Proof.
  intros oi hh. induction rest as [|r rest IH]; intros count df Hc Ht Hrows Hoi.
  - exists df. cbn [ingest map spec_rows fst snd]. rewrite app_nil_r.
    split; [reflexivity|]. split; [reflexivity|]. split; [reflexivity|apply cols_same_refl].
  - inversion Hrows as [|? ? Hr Hrows']; subst. inversion Hoi as [|? ? Ho Hoi']; subst.
    rewrite ingest_cons by assumption.
    destruct (cont_row oi hh rest count df (arrange oi r) Hc Ht Hr) as (df2 & E & Hds & Hcl & Hsame).
    rewrite E.
    destruct (IH (S count) df2 ltac:(lia) (cols_typed_same _ _ Ht Hsame) Hrows' Hoi')
      as (df' & E' & Hds' & Hcl' & Hsame').
    exists df'. split; [assumption|]. cbn [map]. rewrite spec_rows_cons. cbn [fst snd].
    split; [rewrite Hds', Hds, Hcl, <- app_assoc; reflexivity|].
    split; [rewrite Hcl', Hcl; reflexivity|]. apply (cols_same_trans _ _ _ Hsame Hsame').
Qed.

(* typed columns with given names *)
Definition cols_named (names : nat -> bytes) (cols : list column) : Prop :=
  length cols = n /\ forall j c, nth_error cols j = Some c -> c_domain c = dom_of j (kinds j) /\ c_name c = names j.

Lemma cols_named_typed : forall names cols, cols_named names cols -> cols_typed cols.
Proof. intros names cols [L H]. split; [assumption|]. intros j c Hj. apply (H j c Hj). Qed.

Lemma cols_named_same : forall names cols cols', cols_named names cols -> cols_same cols cols' -> cols_named names cols'.
Proof.
  intros names cols cols' [L H] [L' H']. split; [congruence|].
  intros j c' Hc'.
  assert (Hlt : (j < length cols)%nat) by (rewrite <- L'; apply nth_error_Some; congruence).
  pose proof (nth_error_nth' cols j default_column Hlt) as Hc.
  destruct (H' _ _ _ Hc Hc') as [D N]. rewrite D, N. apply H. assumption.
Qed.

(* the first data row: [build] fixes the domains of still untyped columns, then the row is read *)
Lemma first_row : forall oi hh rest count names df cols1 a,
  (negb hh || negb (Nat.eqb count 0) = true) -> (count < 10)%nat ->
  build is_number fixed_v (columns df) a hh = Ok cols1 -> cols_named names cols1 ->
  row_ok true a ->
  exists df2, cont fixed_v oi hh rest count df a = ingest is_number stod stoi fixed_v oi hh rest (S count) df2
    /\ dataset df2 = dataset df ++ [example_of (classes df) a]
    /\ classes df2 = snd (output_value (classes df) a)
    /\ cols_named names (columns df2).
Proof.
  intros oi hh rest count names df cols1 a Hg Hc Hb Hnm Ha. unfold cont.
  replace (Nat.ltb count 10) with true by (symmetry; apply Nat.ltb_lt; assumption).
  rewrite Hb. cbn [bind]. rewrite Hg.
  destruct (read_record_spec {| columns := cols1; classes := classes df; dataset := dataset df |} a
              (cols_named_typed _ _ Hnm) (row_ok_weaken _ Ha)) as (df2 & E & Hds & Hcl & Hsame).
  cbn [columns classes dataset] in *.
  rewrite E. cbn [bind]. exists df2. split; [reflexivity|]. split; [assumption|]. split; [assumption|].
  apply (cols_named_same _ _ _ Hnm Hsame).
Qed.

(* first data row + the remaining rows *)
Lemma ingest_data : forall oi hh names df cols1 r1 rest count,
  (negb hh || negb (Nat.eqb count 0) = true) -> (count < 10)%nat ->
  build is_number fixed_v (columns df) (arrange oi r1) hh = Ok cols1 -> cols_named names cols1 ->
  row_ok true (arrange oi r1) -> Forall (fun r => row_ok false (arrange oi r)) rest ->
  Forall (oi_ok oi) (r1 :: rest) ->
  exists df', ingest is_number stod stoi fixed_v oi hh (r1 :: rest) count df = Ok df'
    /\ dataset df' = dataset df ++ fst (spec_rows (classes df) (map (arrange oi) (r1 :: rest)))
    /\ classes df' = snd (spec_rows (classes df) (map (arrange oi) (r1 :: rest)))
    /\ cols_named names (columns df').
Proof.
  intros oi hh names df cols1 r1 rest count Hg Hc Hb Hnm H1 Hrest Hoi.
  inversion Hoi as [|? ? Ho Hoi']; subst.
  rewrite ingest_cons by assumption.
  destruct (first_row oi hh rest count names df cols1 _ Hg Hc Hb Hnm H1) as (df2 & E & Hds & Hcl & Hnm2).
  rewrite E.
  destruct (ingest_rest oi hh rest (S count) df2 ltac:(lia) (cols_named_typed _ _ Hnm2) Hrest Hoi')
    as (df' & E' & Hds' & Hcl' & Hsame').
  exists df'. split; [assumption|]. cbn [map]. rewrite spec_rows_cons. cbn [fst snd].
  split; [rewrite Hds', Hds, Hcl, <- app_assoc; reflexivity|].
  split; [rewrite Hcl', Hcl; reflexivity|]. apply (cols_named_same _ _ _ Hnm2 Hsame').
Qed.

Theorem one_example_per_row_in_order_lemma : forall oi r1 rest,
  row_ok true (arrange oi r1) -> Forall (fun r => row_ok false (arrange oi r)) rest ->
  (forall k, oi = Some k -> Forall (fun r : record => (k < length r)%nat) (r1 :: rest)) ->
  exists df, ingest is_number stod stoi fixed_v oi false (r1 :: rest) O empty_df = Ok df
    /\ dataset df = fst (spec_rows [] (map (arrange oi) (r1 :: rest)))
    /\ classes df = snd (spec_rows [] (map (arrange oi) (r1 :: rest)))
    /\ length (columns df) = n
    /\ (forall j c, nth_error (columns df) j = Some c -> c_domain c = dom_of j (kinds j) /\ c_name c = []).
Proof.
  intros oi r1 rest H1 Hrest Hoi. apply oi_ok_of in Hoi.
  destruct (build_start _ H1) as (cols1 & Hb & L1 & Hc1).
  destruct (ingest_data oi false (fun _ => []) empty_df cols1 r1 rest O eq_refl ltac:(lia) Hb) as (df & E & Hds & Hcl & [L Hnm]);
    try assumption.
  - split; [assumption|]. intros j c Hj.
    assert (Hlt : (j < n)%nat) by (rewrite <- L1; apply nth_error_Some; congruence).
    rewrite (Hc1 j Hlt) in Hj. inversion Hj; subst. split; reflexivity.
  - exists df. split; [assumption|]. split; [exact Hds|]. split; [exact Hcl|]. split; assumption.
Qed.

(* with a header: the names are the trimmed cells of the arranged header record *)
Theorem header_names : forall oi h r1 rest,
  length (arrange oi h) = n ->
  row_ok true (arrange oi r1) -> Forall (fun r => row_ok false (arrange oi r)) rest ->
  (forall k, oi = Some k -> Forall (fun r : record => (k < length r)%nat) (h :: r1 :: rest)) ->
  exists df, ingest is_number stod stoi fixed_v oi true (h :: r1 :: rest) O empty_df = Ok df
    /\ dataset df = fst (spec_rows [] (map (arrange oi) (r1 :: rest)))
    /\ classes df = snd (spec_rows [] (map (arrange oi) (r1 :: rest)))
    /\ length (columns df) = n
    /\ (forall j c, nth_error (columns df) j = Some c ->
          c_domain c = dom_of j (kinds j) /\ c_name c = trim (nth j (arrange oi h) [])).
Proof.
  intros oi h r1 rest Lh H1 Hrest Hoi. apply oi_ok_of in Hoi.
  inversion Hoi as [|? ? Hoh Hoi']; subst.
  rewrite ingest_cons by assumption. unfold cont at 1.
  change (Nat.ltb 0 10) with true. cbv iota. change (columns empty_df) with (@nil column).
  rewrite build_header. cbn [bind negb Nat.eqb orb classes dataset empty_df].
  set (df0 := {| columns := map header_column (arrange oi h); classes := []; dataset := [] |}).
  destruct (build_first (columns df0) (arrange oi r1) true) as (cols1 & Hb & L1 & Hc1).
  - cbn [columns df0]. rewrite map_length. assumption.
  - cbn [columns df0]. intros j c Hj. apply nth_error_In, in_map_iff in Hj. destruct Hj as (x & <- & _). reflexivity.
  - assumption.
  - destruct (ingest_data oi true (fun j => trim (nth j (arrange oi h) [])) df0 cols1 r1 rest 1%nat eq_refl ltac:(lia) Hb)
      as (df & E & Hds & Hcl & [L Hnm]); try assumption.
    + split; [assumption|]. intros j c Hj.
      assert (Hlt : (j < n)%nat) by (rewrite <- L1; apply nth_error_Some; congruence).
      assert (Hh : nth_error (columns df0) j = Some (header_column (nth j (arrange oi h) []))).
      { cbn [columns df0]. apply map_nth_error. apply nth_error_nth'. lia. }
      rewrite (Hc1 _ _ Hh) in Hj. inversion Hj; subst. split; reflexivity.
    + exists df. split; [assumption|]. split; [exact Hds|]. split; [exact Hcl|]. split; assumption.
Qed.

End Table.

(* ------------------------------------------------------------ sanity: the hypotheses are satisfiable *)
Module Sanity.
Definition isdig (c : Z) : bool := (48 <=? c) && (c <=? 57).
Definition isnum (s : bytes) : bool := negb (is_nil s) && forallb isdig s.
Definition sd (s : bytes) : conv := if isnum s then CvOk (fold_left (fun a c => 10 * a + (c - 48)) s 0) else CvInvalid.
Definition si (s : bytes) : conv := CvInvalid.
(* arranged columns: class label, number, text, void *)
Definition kd (j : nat) : kind := match j with 0%nat => KText | 1%nat => KNum | 2%nat => KText | _ => KVoid end.
Definition h : record := [[97]; [98]; [32; 121]; [99]].                    (* a,b, y,c *)
Definition r1 : record := [[32; 49; 50; 32]; [102; 111; 111]; [99; 97; 116]; [32]].   (*  12 ,foo,cat,  *)
Definition r2 : record := [[55]; [49; 51]; [100; 111; 103]; []].           (* 7,13,dog,   (13 is text) *)
Definition r3 : record := [[53]; []; [99; 97; 116]; []].                   (* 5,,cat,     (blank text) *)

Ltac cells :=
  split; [reflexivity|]; intros j Hj;
  do 4 (destruct j as [|j];
        [cbv; repeat split; intros; try reflexivity; try discriminate; try (eexists; reflexivity)|]);
  lia.

Example table_sanity :
  exists df, ingest isnum sd si fixed_v (Some 2%nat) true [h; r1; r2; r3] O empty_df = Ok df
    /\ dataset df = [ {| e_input := [VDouble 12; VString [102; 111; 111]]; e_output := VInt 0 |};
                      {| e_input := [VDouble 7; VString [49; 51]]; e_output := VInt 1 |};
                      {| e_input := [VDouble 5; VString []]; e_output := VInt 0 |} ]
    /\ classes df = [([99; 97; 116], 0); ([100; 111; 103], 1)]
    /\ map c_name (columns df) = [[121]; [97]; [98]; [99]]
    /\ map c_domain (columns df) = [DDouble; DDouble; DString; DVoid].
Proof.
  destruct (header_names isnum sd si 4 ltac:(lia) kd (Some 2%nat) h r1 [r2; r3]) as (df & E & Hds & Hcl & L & Hc).
  - reflexivity.
  - cells.
  - constructor; [cells|constructor; [cells|constructor]].
  - intros k Hk. inversion Hk; subst. repeat constructor.
  - exists df. split; [assumption|]. split; [exact Hds|]. split; [exact Hcl|].
    destruct (columns df) as [|c0 [|c1 [|c2 [|c3 [|c4 cs]]]]]; try discriminate L.
    destruct (Hc 0%nat c0 eq_refl) as [D0 N0]. destruct (Hc 1%nat c1 eq_refl) as [D1 N1].
    destruct (Hc 2%nat c2 eq_refl) as [D2 N2]. destruct (Hc 3%nat c3 eq_refl) as [D3 N3].
    cbn [map]. rewrite D0, D1, D2, D3, N0, N1, N2, N3. split; reflexivity.
Qed.
End Sanity.
