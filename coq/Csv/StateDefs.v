(* C10/C09: reads with the STATE AN EXCEPTION LEAVES BEHIND, and the src_problem wrappers.
   Definitions only (extracted); checked form as in Csv/CsvDefs.v.

   A reader is now   frame -> ... -> frame * outcome   : the frame is returned ALSO when the
   read throws, exactly as the C++ object is left (follow dataframe.cc):
   - read_csv: clear() first (dataset emptied, columns and class map kept); every record
     updates the columns (build) and then appends an example; when to_example throws in the
     middle of a record (std::stod / std::stoi), the members already changed for that record
     stay changed: the class map if the label was new (encode runs at i = 0, before the
     inputs are converted) and the states inserted for the text columns before the failing
     cell; the example is not appended.  The final `!is_valid() || !size()` throws AFTER
     everything was ingested: the frame keeps all the examples.
   - read_xrff: a missing <attributes> throws BEFORE clear(); a second class="yes" throws
     with the columns pushed so far; no columns / missing <instances> throw after the columns
     were (re)arranged; a throwing instance keeps the examples read so far; is_valid() may
     throw bad_variant_access on the complete frame.
   [toex_step] fails only in [convert], i.e. before the step changes anything, so the state at
   a failure inside to_example is the state before the failing step. *)
From Coq Require Import ZArith List Bool.
From VV Require Import Csv.CsvDefs.
Import ListNotations.
Local Open Scope Z_scope.
Local Open Scope bool_scope.

(* a loop that returns the state reached when a step fails *)
Fixpoint for_st {S} (idxs : list nat) (body : nat -> S -> res S) (s : S) : S * res unit :=
  match idxs with
  | [] => (s, Ok tt)
  | i :: r => match body i s with
              | Ok s' => for_st r body s'
              | Exn e => (s, Exn e)
              | OOB o => (s, OOB o)
              end
  end.

Section State.
Variable is_number : bytes -> bool.
Variable stod : bytes -> conv.
Variable stoi : bytes -> conv.
Variable uint_max : nat.

(* dataframe::read_record with the frame left behind *)
Definition read_record_st (df : dataframe) (r : record) (add_instance : bool) : dataframe * res unit :=
  if negb (Nat.eqb (length r) (length (columns df))) then (df, Ok tt)
  else
    let '((ex, cols, cm), out) :=
      for_st (seq 0 (length r)) (toex_step is_number stod stoi r add_instance)
             ({| e_input := []; e_output := VVoid |}, columns df, classes df) in
    match out with
    | Ok _ => ({| columns := cols; classes := cm; dataset := dataset df ++ [ex] |}, Ok tt)
    | Exn e => ({| columns := cols; classes := cm; dataset := dataset df |}, Exn e)
    | OOB o => ({| columns := cols; classes := cm; dataset := dataset df |}, OOB o)
    end.

Fixpoint ingest_st (v : variant) (oi : option nat) (hh : bool) (recs : list record) (count : nat)
         (df : dataframe) : dataframe * res unit :=
  match recs with
  | [] => (df, Ok tt)
  | rcd :: rest =>
    let continue_with (rcd' : record) :=
      match (if Nat.ltb count 10 then build is_number v (columns df) rcd' hh else Ok (columns df)) with
      | Ok cols =>
        let df1 := {| columns := cols; classes := classes df; dataset := dataset df |} in
        if negb hh || negb (Nat.eqb count 0) then
          match read_record_st df1 rcd' true with
          | (df2, Ok _) => ingest_st v oi hh rest (S count) df2
          | (df2, out) => (df2, out)
          end
        else ingest_st v oi hh rest (S count) df1
      | Exn e => (df, Exn e)
      | OOB o => (df, OOB o)
      end in
    match oi with
    | Some k =>
      if g_rotate_csv v && Nat.leb (length rcd) k then ingest_st v oi hh rest count df
      else if Nat.ltb 0 k then
        match rotate_front S_rotate_csv rcd k with
        | Ok rcd' => continue_with rcd'
        | Exn e => (df, Exn e)
        | OOB o => (df, OOB o)
        end
      else continue_with rcd
    | None => continue_with ([] :: rcd)
    end
  end.

Definition cleared (df : dataframe) : dataframe := {| columns := columns df; classes := classes df; dataset := [] |}.

(* dataframe::read_csv(std::istream &, params): frame left behind, and the returned size *)
Definition read_csv_st (v : variant) (df0 : dataframe) (text : bytes) (p : params) : dataframe * res nat :=
  let d0 := p_dialect p in
  let df := cleared df0 in
  match (match has_header d0, delimiter d0 =? 0 with
         | GUESS_HEADER, _ | _, true =>
           sn <- sniffer is_number text ;;
           Ok {| delimiter := if delimiter d0 =? 0 then delimiter sn else delimiter d0;
                 trim_ws := trim_ws d0;
                 has_header := match has_header d0 with GUESS_HEADER => has_header sn | h => h end;
                 quoting := quoting d0 |}
         | _, _ => Ok d0
         end) with
  | Exn e => (df, Exn e)
  | OOB o => (df, OOB o)
  | Ok d =>
    let hh := match has_header d with HAS_HEADER => true | _ => false end in
    match ingest_st v (p_output_index p) hh (records d (p_filter p) text) O df with
    | (df1, Exn e) => (df1, Exn e)
    | (df1, OOB o) => (df1, OOB o)
    | (df1, Ok _) =>
      match is_valid df1 with
      | Exn e => (df1, Exn e)
      | OOB o => (df1, OOB o)
      | Ok ok => if negb ok || is_nil (dataset df1) then (df1, Exn E_insufficient_data)
                 else (df1, Ok (length (dataset df1)))
      end
    end
  end.

(* the attribute loop of read_xrff with the columns pushed so far when it throws *)
Fixpoint xrff_attrs_st (l : list xattr) (n_output output_index index : nat) (cols : list column)
  : list column * res (nat * nat * nat) :=
  match l with
  | [] => (cols, Ok (n_output, output_index, index))
  | a :: r =>
    let output := xa_class_yes a in
    let n_output' := if output then S n_output else n_output in
    let output_index' := if output then index else output_index in
    if output && Nat.ltb 1 n_output' then (cols, Exn E_data_format) else
    let xml_type := if output && (bytes_eqb (xa_type a) s_nominal || bytes_eqb (xa_type a) s_string)
                    then s_numeric else xa_type a in
    let c := {| c_name := xa_name a; c_domain := from_weka xml_type;
                c_states := if bytes_eqb xml_type s_nominal
                            then fold_left states_insert (xa_labels a) [] else [] |} in
    xrff_attrs_st r n_output' output_index' (S index) (if output then c :: cols else cols ++ [c])
  end.

Fixpoint xrff_instances_st (v : variant) (flt : filter_t) (output_index : nat) (l : list record)
         (df : dataframe) : dataframe * res unit :=
  match l with
  | [] => (df, Ok tt)
  | rcd0 :: rest =>
    match flt rcd0 with
    | None => xrff_instances_st v flt output_index rest df
    | Some rcd =>
      if g_rotate_xrff v && Nat.leb (length rcd) output_index then xrff_instances_st v flt output_index rest df
      else
        match rotate_front S_rotate_xrff rcd output_index with
        | Ok rcd' =>
          match read_record_st df rcd' false with
          | (df', Ok _) => xrff_instances_st v flt output_index rest df'
          | (df', out) => (df', out)
          end
        | Exn e => (df, Exn e)
        | OOB o => (df, OOB o)
        end
    end
  end.

Definition read_xrff_st (v : variant) (df0 : dataframe) (dom : xdom) (flt : filter_t) : dataframe * res nat :=
  match x_attributes dom with
  | None => (df0, Exn E_data_format)                                   (* thrown before clear() *)
  | Some attrs =>
    let df := cleared df0 in
    match xrff_attrs_st attrs O O O (columns df) with
    | (cols, Exn e) => ({| columns := cols; classes := classes df; dataset := [] |}, Exn e)
    | (cols, OOB o) => ({| columns := cols; classes := classes df; dataset := [] |}, OOB o)
    | (cols, Ok (n_output, output_index, index)) =>
      if is_nil cols then ({| columns := cols; classes := classes df; dataset := [] |}, Exn E_data_format) else
      let cols' := if Nat.eqb n_output 0 then last cols default_column :: removelast cols else cols in
      let output_index' := if Nat.eqb n_output 0
                           then (if Nat.eqb index 0 then uint_max else Nat.pred index)
                           else output_index in
      let df1 := {| columns := cols'; classes := classes df; dataset := [] |} in
      match x_instances dom with
      | None => (df1, Exn E_data_format)
      | Some insts =>
        match xrff_instances_st v flt output_index' insts df1 with
        | (df2, Exn e) => (df2, Exn e)
        | (df2, OOB o) => (df2, OOB o)
        | (df2, Ok _) =>
          match is_valid df2 with
          | Exn e => (df2, Exn e)
          | OOB o => (df2, OOB o)
          | Ok ok => (df2, Ok (if ok then length (dataset df2) else O))
          end
        end
      end
    end
  end.

(* the DOM of a step is None when tinyxml2 reports a parse error: data_format is thrown
   before the frame is touched *)
Inductive st_step :=
| StCsv (text : bytes) (p : params)
| StXrff (dom : option xdom) (flt : filter_t).

Definition step_st (v : variant) (df : dataframe) (s : st_step) : dataframe * res nat :=
  match s with
  | StCsv text p => read_csv_st v df text p
  | StXrff None _ => (df, Exn E_data_format)
  | StXrff (Some dom) flt => read_xrff_st v df dom flt
  end.

(* a history goes on after a read that throws; it stops only at an out-of-bounds access *)
Fixpoint run_history_st (v : variant) (df : dataframe) (steps : list st_step) : dataframe * list (res nat) :=
  match steps with
  | [] => (df, [])
  | s :: r =>
    match step_st v df s with
    | (df', OOB o) => (df', [OOB o])
    | (df', out) => let (dfn, outs) := run_history_st v df' r in (dfn, out :: outs)
    end
  end.

(* ------------------------------------------------------------ src_problem (problem.cc) *)
(* the part of a src_problem the property is about: the training frame and the variables
   (input terminals) of the symbol set; [p_other] counts the other symbols inserted by
   setup_symbols()'s default set *)
Record problem := { training : dataframe; p_vars : list var_info; p_other : nat }.
Definition empty_problem : problem := {| training := empty_df; p_vars := []; p_other := O |}.

(* src_problem::variables(): width of the first example *)
Definition prob_variables (pr : problem) : nat :=
  match dataset (training pr) with [] => O | e :: _ => length (e_input e) end.
(* src_problem::classes() *)
Definition prob_classes (pr : problem) : nat := length (classes (training pr)).

(* src_problem(std::istream &, typing): read_csv with default parameters, then
   setup_terminals; an exception leaves no object *)
Definition default_params : params :=
  {| p_dialect := {| delimiter := 0; trim_ws := false; has_header := GUESS_HEADER; quoting := REMOVE_QUOTES |};
     p_filter := no_filter; p_output_index := Some O |}.

(* setup_terminals also inserts one constant per state of every column it gives a variable to
   (std::get<D_DOUBLE/D_INT> on a state, which is always a string, would throw) *)
Fixpoint state_constants (v : variant) (cols : list column) : res nat :=
  match cols with
  | [] => Ok O
  | c :: r =>
    n <- state_constants v r ;;
    if g_terminals v && domain_eqb (c_domain c) DVoid then Ok n
    else match c_states c, c_domain c with
         | [], _ => Ok n
         | _, DString => Ok (length (c_states c) + n)%nat
         | _, DVoid => Ok n
         | _, _ => Exn E_bad_variant
         end
  end.

Definition prob_construct (v : variant) (text : bytes) (strong : bool) : res problem :=
  match read_csv_st v empty_df text default_params with
  | (_, Exn e) => Exn e
  | (_, OOB o) => OOB o
  | (df, Ok _) =>
    vars <- setup_terminals v (columns df) strong ;;
    k <- state_constants v (tl (columns df)) ;;
    Ok {| training := df; p_vars := vars; p_other := k |}
  end.

(* data(training).read_csv(stream, params) on a constructed problem: the symbol set is NOT
   touched, whatever the read does to the frame *)
Definition prob_read_csv (v : variant) (pr : problem) (text : bytes) (p : params) : problem * res nat :=
  let (df, out) := read_csv_st v (training pr) text p in
  ({| training := df; p_vars := p_vars pr; p_other := p_other pr |}, out).

Definition prob_read_xrff (v : variant) (pr : problem) (dom : option xdom) : problem * res nat :=
  let (df, out) := step_st v (training pr) (StXrff dom no_filter) in
  ({| training := df; p_vars := p_vars pr; p_other := p_other pr |}, out).

(* default symbol set of setup_symbols_impl(): one entry per USED category (std::set order is
   irrelevant for the count): 16 symbols for a numeric category, 1 (SIFE) for a string one *)
Fixpoint nodup_z (l : list Z) : list Z :=
  match l with
  | [] => []
  | x :: r => if existsb (Z.eqb x) r then nodup_z r else x :: nodup_z r
  end.

Fixpoint category_domain (cs : list (Z * domain)) (cat : Z) : domain :=     (* category_set::category(c).domain *)
  match cs with
  | [] => DVoid
  | (c, d) :: r => if c =? cat then d else category_domain r cat
  end.

Definition default_symbol_count (cols : list column) : nat :=
  let cs := category_set cols false 0 [] in                       (* category_set categories(training_.columns): weak *)
  fold_left (fun acc cat => match category_domain cs cat with
                            | DDouble => (acc + 16)%nat
                            | DString => (acc + 1)%nat
                            | _ => acc
                            end) (nodup_z (map fst cs)) O.

(* src_problem::setup_symbols(typing): sset.clear(); setup_terminals(t); default symbols.
   When setup_terminals throws (fewer than 2 columns) the symbol set stays EMPTY. *)
Definition prob_setup_symbols (v : variant) (pr : problem) (strong : bool) : problem * res nat :=
  match (vars <- setup_terminals v (columns (training pr)) strong ;;
         k <- state_constants v (tl (columns (training pr))) ;; Ok (vars, k)) with
  | Ok (vars, k) =>
    let n := default_symbol_count (columns (training pr)) in
    ({| training := training pr; p_vars := vars; p_other := (k + n)%nat |}, Ok n)
  | Exn e => ({| training := training pr; p_vars := []; p_other := O |}, Exn e)
  | OOB o => ({| training := training pr; p_vars := []; p_other := O |}, OOB o)
  end.

(* symbol set consistent with the frame: one variable per input of the examples, ids 0..n-1 *)
Definition prob_consistent (pr : problem) : Prop :=
  map v_id (p_vars pr) = seq 0 (length (p_vars pr)) /\
  forall e, In e (dataset (training pr)) -> length (e_input e) = length (p_vars pr).

End State.
