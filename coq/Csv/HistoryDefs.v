(* C10: reading INTO A FRAME THAT ALREADY HAS STATE (several reads on one dataframe object).
   dataframe::clear() only empties the dataset: the columns and the class map of earlier
   reads persist.  Definitions only (extracted); same checked form as Csv/CsvDefs.v.

   Unsigned arithmetic: read_xrff computes `output_index = index - 1` in `unsigned`; with an
   EMPTY attribute list on a frame that already has columns this is 0u - 1 = UINT_MAX.  The
   model takes that value as the argument [uint_max] (ANY nat: the theorems quantify over it,
   so they hold for 2^32 - 1 without building that numeral in unary).  The output index of
   read_csv is a std::size_t that the repaired code only COMPARES with record.size() before
   using it (no arithmetic before the guard, `+ 1` only after it, where it cannot wrap), so
   [option nat] covers every size_t value faithfully. *)
From Coq Require Import ZArith List Bool.
From VV Require Import Csv.CsvDefs.
Import ListNotations.
Local Open Scope Z_scope.
Local Open Scope bool_scope.

Section History.
Variable is_number : bytes -> bool.
Variable stod : bytes -> conv.
Variable stoi : bytes -> conv.
Variable uint_max : nat.

(* dataframe::read_csv on an existing frame: clear(), then the same loop *)
Definition read_csv_on (v : variant) (df0 : dataframe) (text : bytes) (p : params) : res dataframe :=
  let d0 := p_dialect p in
  d <- (match has_header d0, delimiter d0 =? 0 with
        | GUESS_HEADER, _ | _, true =>
          sn <- sniffer is_number text ;;
          Ok {| delimiter := if delimiter d0 =? 0 then delimiter sn else delimiter d0;
                trim_ws := trim_ws d0;
                has_header := match has_header d0 with GUESS_HEADER => has_header sn | h => h end;
                quoting := quoting d0 |}
        | _, _ => Ok d0
        end) ;;
  let hh := match has_header d with HAS_HEADER => true | _ => false end in
  df <- ingest is_number stod stoi v (p_output_index p) hh (records d (p_filter p) text) O
               {| columns := columns df0; classes := classes df0; dataset := [] |} ;;
  finish_csv df.

(* dataframe::read_xrff(XMLDocument &, params) on an existing frame *)
Definition read_xrff_on (v : variant) (df0 : dataframe) (dom : xdom) (flt : filter_t) : res (dataframe * nat) :=
  match x_attributes dom with
  | None => Exn E_data_format
  | Some attrs =>
    st <- xrff_attrs attrs O O O (columns df0) ;;
    let '(n_output, output_index, index, cols) := st in
    if is_nil cols then Exn E_data_format else
    let cols' := if Nat.eqb n_output 0 then last cols default_column :: removelast cols else cols in
    let output_index' := if Nat.eqb n_output 0
                         then (if Nat.eqb index 0 then uint_max else Nat.pred index)      (* unsigned index - 1 *)
                         else output_index in
    match x_instances dom with
    | None => Exn E_data_format
    | Some insts =>
      df <- xrff_instances is_number stod stoi v flt output_index' insts
                           {| columns := cols'; classes := classes df0; dataset := [] |} ;;
      ok <- is_valid df ;;
      Ok (df, if ok then length (dataset df) else O)
    end
  end.

(* a history of reads on one object; it stops at the first read that does not return normally
   (the state left behind by an exception is not modelled) *)
Inductive read_step :=
| StepCsv (text : bytes) (p : params)
| StepXrff (dom : xdom) (flt : filter_t).

Fixpoint run_history (v : variant) (df : dataframe) (steps : list read_step) : res dataframe :=
  match steps with
  | [] => Ok df
  | StepCsv text p :: r => df' <- read_csv_on v df text p ;; run_history v df' r
  | StepXrff dom flt :: r => x <- read_xrff_on v df dom flt ;; run_history v (fst x) r
  end.

End History.
