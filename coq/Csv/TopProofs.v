(* C09: composition from the TEXT of a table to the frame read_csv builds. *)
From Coq Require Import ZArith List Bool Lia ZifyBool Arith.
From VV Require Import Csv.CsvDefs Csv.CsvProofs Csv.IngestProofs Csv.TableProofs Csv.TextProofs.
Import ListNotations.
Local Open Scope Z_scope.

Definition explicit_dialect (dl : dialect) (hdr : bool) : Prop :=
  quoting dl = REMOVE_QUOTES /\ usual_delimiter (delimiter dl) /\
  has_header dl = (if hdr then HAS_HEADER else NO_HEADER).

Definition renderable (d : Z) (r : record) : Prop :=
  r <> [] /\ Forall ok_field r /\ blank (render_line d r) = false.

(* what the parser hands to the loop for a rendered table *)
Definition parsed (dl : dialect) (rows : list record) : list record := map (map (field_out dl)) rows.

Lemma read_csv_explicit : forall is_number stod stoi v text dl flt oi hdr,
  explicit_dialect dl hdr ->
  read_csv is_number stod stoi v text {| p_dialect := dl; p_filter := flt; p_output_index := oi |} =
  bind (ingest is_number stod stoi v oi hdr (records dl flt text) O empty_df) finish_csv.
Proof.
  intros is_number stod stoi v text dl flt oi hdr (Hq & Hd & Hh).
  destruct (usual_delimiter_ok _ Hd) as [Hd0 _].
  unfold read_csv. cbn [p_dialect p_filter p_output_index].
  replace (delimiter dl =? 0) with false by lia.
  rewrite Hh. destruct hdr; cbn [bind]; rewrite Hh; reflexivity.
Qed.

(* tables with a header row *)
Lemma read_csv_rendered_table_header_lemma :
  forall is_number stod stoi n, (1 <= n)%nat -> forall kinds dl oi h r1 rest,
  explicit_dialect dl true ->
  Forall (renderable (delimiter dl)) (h :: r1 :: rest) ->
  length (arrange oi (map (field_out dl) h)) = n ->
  row_ok is_number stod n kinds true (arrange oi (map (field_out dl) r1)) ->
  Forall (fun r => row_ok is_number stod n kinds false (arrange oi r)) (parsed dl rest) ->
  (forall k, oi = Some k -> Forall (fun r => (k < length r)%nat) (h :: r1 :: rest)) ->
  exists df,
    read_csv is_number stod stoi fixed_v (render_table (delimiter dl) (h :: r1 :: rest))
             {| p_dialect := dl; p_filter := no_filter; p_output_index := oi |} = finish_csv df
    /\ dataset df = fst (spec_rows stod n kinds [] (map (arrange oi) (parsed dl (r1 :: rest))))
    /\ classes df = snd (spec_rows stod n kinds [] (map (arrange oi) (parsed dl (r1 :: rest))))
    /\ length (columns df) = n
    /\ (forall j c, nth_error (columns df) j = Some c ->
          c_domain c = dom_of j (kinds j) /\ c_name c = trim (nth j (arrange oi (map (field_out dl) h)) [])).
Proof.
  intros is_number stod stoi n Hn kinds dl oi h r1 rest Hex Hren Hlen Hr1 Hrest Hoi.
  pose proof Hex as (Hq & Hd & Hh).
  destruct (header_names is_number stod stoi n Hn kinds oi (map (field_out dl) h) (map (field_out dl) r1) (parsed dl rest)
              Hlen Hr1 Hrest) as (df & Hing & Hds & Hcl & Hcols & Hnames).
  - intros k Hk. specialize (Hoi k Hk).
    change (map (field_out dl) h :: map (field_out dl) r1 :: parsed dl rest) with (parsed dl (h :: r1 :: rest)).
    unfold parsed. apply Forall_map. eapply Forall_impl; [|exact Hoi]. intros r Hr. cbn. rewrite map_length. exact Hr.
  - exists df. split; [|auto].
    rewrite (read_csv_explicit _ _ _ _ _ dl no_filter oi true Hex).
    rewrite records_render_table_lemma by assumption.
    unfold no_filter at 1. rewrite filter_map_some_id.
    change (map (map (field_out dl)) (h :: r1 :: rest)) with (map (field_out dl) h :: map (field_out dl) r1 :: parsed dl rest).
    match goal with |- bind ?x _ = _ => replace x with (@Ok dataframe df) by (symmetry; exact Hing) end.
    reflexivity.
Qed.

(* tables without a header row *)
Lemma read_csv_rendered_table_lemma :
  forall is_number stod stoi n, (1 <= n)%nat -> forall kinds dl oi r1 rest,
  explicit_dialect dl false ->
  Forall (renderable (delimiter dl)) (r1 :: rest) ->
  row_ok is_number stod n kinds true (arrange oi (map (field_out dl) r1)) ->
  Forall (fun r => row_ok is_number stod n kinds false (arrange oi r)) (parsed dl rest) ->
  (forall k, oi = Some k -> Forall (fun r => (k < length r)%nat) (r1 :: rest)) ->
  exists df,
    read_csv is_number stod stoi fixed_v (render_table (delimiter dl) (r1 :: rest))
             {| p_dialect := dl; p_filter := no_filter; p_output_index := oi |} = finish_csv df
    /\ dataset df = fst (spec_rows stod n kinds [] (map (arrange oi) (parsed dl (r1 :: rest))))
    /\ classes df = snd (spec_rows stod n kinds [] (map (arrange oi) (parsed dl (r1 :: rest))))
    /\ length (columns df) = n
    /\ (forall j c, nth_error (columns df) j = Some c -> c_domain c = dom_of j (kinds j) /\ c_name c = []).
Proof.
  intros is_number stod stoi n Hn kinds dl oi r1 rest Hex Hren Hr1 Hrest Hoi.
  pose proof Hex as (Hq & Hd & Hh).
  destruct (one_example_per_row_in_order_lemma is_number stod stoi n Hn kinds oi (map (field_out dl) r1) (parsed dl rest)
              Hr1 Hrest) as (df & Hing & Hrest').
  - intros k Hk. specialize (Hoi k Hk).
    change (map (field_out dl) r1 :: parsed dl rest) with (parsed dl (r1 :: rest)).
    unfold parsed. apply Forall_map. eapply Forall_impl; [|exact Hoi]. intros r Hr. cbn. rewrite map_length. exact Hr.
  - exists df. split; [|exact Hrest'].
    rewrite (read_csv_explicit _ _ _ _ _ dl no_filter oi false Hex).
    rewrite records_render_table_lemma by assumption.
    unfold no_filter at 1. rewrite filter_map_some_id.
    change (map (map (field_out dl)) (r1 :: rest)) with (map (field_out dl) r1 :: parsed dl rest).
    match goal with |- bind ?x _ = _ => replace x with (@Ok dataframe df) by (symmetry; exact Hing) end.
    reflexivity.
Qed.
