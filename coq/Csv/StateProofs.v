(* C10/C09: the readers that return THE FRAME AN EXCEPTION LEAVES BEHIND (Csv/StateDefs.v) and
   the src_problem wrappers, repaired variant [fixed_v].

   (3) refinement: forgetting the frame of a failing read gives back the plain readers of
       Csv/HistoryDefs.v ([read_csv_on], [read_xrff_on]); as EQUATIONS, so both directions;
   (1) hence no history, INCLUDING the reads that follow a failing read, has an OOB outcome;
   (2) a read that returns normally leaves a valid frame;
   (4) after a successful read on ANY start frame, setup_symbols gives a symbol set consistent
       with the frame (one variable per input of every example, ids 0..n-1);
   (5) after a FAILED read the old symbol set is in general NOT consistent with the frame left
       behind (examples by computation), and a successful re-read + setup_symbols restores it. *)
From Coq Require Import ZArith List Bool Lia ZifyBool Arith.
From VV Require Import Csv.CsvDefs Csv.SafeProofs Csv.HistoryDefs Csv.HistoryProofs Csv.TextProofs Csv.StateDefs.
Import ListNotations.

(* ------------------------------------------------------------ forgetting the frame of a failure *)
Definition forget {S A} (p : S * res A) : res S :=
  match p with (s, Ok _) => Ok s | (_, Exn e) => Exn e | (_, OOB o) => OOB o end.
Definition forget2 {S A} (p : S * res A) : res (S * A) :=
  match p with (s, Ok a) => Ok (s, a) | (_, Exn e) => Exn e | (_, OOB o) => OOB o end.

Lemma forget_safe : forall S A (p : S * res A), safe (forget p) -> safe (snd p).
Proof.
  intros S A [s [a|e|o]] H o' E; cbn [snd forget] in *; try discriminate.
  inversion E; subst. eapply H. reflexivity.
Qed.
Lemma forget2_safe : forall S A (p : S * res A), safe (forget2 p) -> safe (snd p).
Proof.
  intros S A [s [a|e|o]] H o' E; cbn [snd forget2] in *; try discriminate.
  inversion E; subst. eapply H. reflexivity.
Qed.

Lemma forget_ok : forall S A (p : S * res A) s, forget p = Ok s <-> exists a, p = (s, Ok a).
Proof.
  intros S A [s0 [a|e|o]] s; cbn [forget]; split.
  - intros H. inversion H; subst. exists a. reflexivity.
  - intros [a' H]. inversion H; subst. reflexivity.
  - discriminate.
  - intros [a' H]. discriminate.
  - discriminate.
  - intros [a' H]. discriminate.
Qed.

Lemma forget2_ok : forall S A (p : S * res A) s a, forget2 p = Ok (s, a) <-> p = (s, Ok a).
Proof.
  intros S A [s0 [a0|e|o]] s a; cbn [forget2]; split; intros H; try discriminate.
  - inversion H; subst. reflexivity.
  - inversion H; subst. reflexivity.
Qed.

Lemma for_st_forget : forall S idxs (body : nat -> S -> res S) (s : S),
  for_ck idxs body s = forget (for_st idxs body s).
Proof.
  intros S. induction idxs as [|i r IH]; intros body s; cbn [for_ck for_st].
  - reflexivity.
  - destruct (body i s) as [s'|e|o]; cbn [bind]; [apply IH|reflexivity|reflexivity].
Qed.

(* the key lemma in the form asked for *)
Lemma for_st_ok_iff : forall S idxs (body : nat -> S -> res S) (s s' : S),
  for_ck idxs body s = Ok s' <-> for_st idxs body s = (s', Ok tt).
Proof.
  intros S idxs body s s'. rewrite for_st_forget, forget_ok. split.
  - intros [[] H]. exact H.
  - intros H. exists tt. exact H.
Qed.

Section StateReaders.
Variable is_number : bytes -> bool.
Variable stod : bytes -> conv.
Variable stoi : bytes -> conv.

Lemma read_record_forget : forall df (r : record) add,
  read_record is_number stod stoi df r add = forget (read_record_st is_number stod stoi df r add).
Proof.
  intros df r add. unfold read_record, read_record_st, to_example.
  destruct (negb (Nat.eqb (length r) (length (columns df)))) eqn:Eg; [reflexivity|].
  rewrite for_st_forget.
  destruct (for_st (seq 0 (length r)) (toex_step is_number stod stoi r add)
                   ({| e_input := []; e_output := VVoid |}, columns df, classes df))
    as [[[ex cols] cm] [u|e|o]]; reflexivity.
Qed.

Definition cont_st (v : variant) (oi : option nat) (hh : bool) (rest : list record) (count : nat)
           (df : dataframe) (rcd' : record) : dataframe * res unit :=
  match (if Nat.ltb count 10 then build is_number v (columns df) rcd' hh else Ok (columns df)) with
  | Ok cols =>
    let df1 := {| columns := cols; classes := classes df; dataset := dataset df |} in
    if negb hh || negb (Nat.eqb count 0) then
      match read_record_st is_number stod stoi df1 rcd' true with
      | (df2, Ok _) => ingest_st is_number stod stoi v oi hh rest (S count) df2
      | (df2, out) => (df2, out)
      end
    else ingest_st is_number stod stoi v oi hh rest (S count) df1
  | Exn e => (df, Exn e)
  | OOB o => (df, OOB o)
  end.

Lemma ingest_st_cons : forall v oi hh (rcd : record) rest count df,
  ingest_st is_number stod stoi v oi hh (rcd :: rest) count df =
  match oi with
  | Some k =>
    if g_rotate_csv v && Nat.leb (length rcd) k then ingest_st is_number stod stoi v oi hh rest count df
    else if Nat.ltb 0 k
         then match rotate_front S_rotate_csv rcd k with
              | Ok rcd' => cont_st v oi hh rest count df rcd'
              | Exn e => (df, Exn e)
              | OOB o => (df, OOB o)
              end
         else cont_st v oi hh rest count df rcd
  | None => cont_st v oi hh rest count df ([] :: rcd)
  end.
Proof. reflexivity. Qed.

Lemma cont_forget : forall v oi hh rest count df (rcd' : record),
  (forall count df, ingest is_number stod stoi v oi hh rest count df =
                    forget (ingest_st is_number stod stoi v oi hh rest count df)) ->
  cont is_number stod stoi v oi hh rest count df rcd' = forget (cont_st v oi hh rest count df rcd').
Proof.
  intros v oi hh rest count df rcd' IH. unfold cont, cont_st.
  destruct (if Nat.ltb count 10 then build is_number v (columns df) rcd' hh else Ok (columns df))
    as [cols|e|o]; cbn [bind]; [|reflexivity|reflexivity].
  cbv zeta. destruct (negb hh || negb (Nat.eqb count 0)) eqn:Eg.
  - rewrite read_record_forget.
    destruct (read_record_st is_number stod stoi
                {| columns := cols; classes := classes df; dataset := dataset df |} rcd' true)
      as [df2 [u|e|o]]; cbn [forget bind]; [apply IH|reflexivity|reflexivity].
  - cbn [bind]. apply IH.
Qed.

Lemma ingest_forget : forall v oi hh recs count df,
  ingest is_number stod stoi v oi hh recs count df =
  forget (ingest_st is_number stod stoi v oi hh recs count df).
Proof.
  intros v oi hh. induction recs as [|rcd rest IH]; intros count df.
  - reflexivity.
  - rewrite ingest_cons, ingest_st_cons. destruct oi as [k|].
    + destruct (g_rotate_csv v && Nat.leb (length rcd) k) eqn:Eg; [apply IH|].
      destruct (Nat.ltb 0 k) eqn:Ek.
      * destruct (rotate_front S_rotate_csv rcd k) as [rcd'|e|o]; cbn [bind];
          [apply cont_forget; exact IH|reflexivity|reflexivity].
      * apply cont_forget; exact IH.
    + apply cont_forget; exact IH.
Qed.

(* (3) read_csv *)
Lemma read_csv_forget : forall v df0 text p,
  read_csv_on is_number stod stoi v df0 text p = forget (read_csv_st is_number stod stoi v df0 text p).
Proof.
  intros v df0 text p. unfold read_csv_on, read_csv_st, cleared. cbv zeta.
  match goal with |- bind ?X _ = _ => destruct X as [d|e|o] end; cbn [bind]; [|reflexivity|reflexivity].
  rewrite ingest_forget.
  match goal with |- context [ingest_st ?x1 ?x2 ?x3 ?x4 ?x5 ?x6 ?x7 ?x8 ?x9] =>
    destruct (ingest_st x1 x2 x3 x4 x5 x6 x7 x8 x9) as [df1 [u|e|o]] end; cbn [forget bind]; [|reflexivity|reflexivity].
  unfold finish_csv. destruct (is_valid df1) as [ok|e|o]; cbn [bind]; [|reflexivity|reflexivity].
  destruct (negb ok || is_nil (dataset df1)); reflexivity.
Qed.

Lemma read_csv_st_count : forall v df0 text p df n,
  read_csv_st is_number stod stoi v df0 text p = (df, Ok n) -> n = length (dataset df).
Proof.
  intros v df0 text p df n. unfold read_csv_st. cbv zeta.
  match goal with |- match ?X with _ => _ end = _ -> _ => destruct X as [d|e|o] end;
    [|intros H; discriminate H|intros H; discriminate H].
  match goal with |- context [ingest_st ?x1 ?x2 ?x3 ?x4 ?x5 ?x6 ?x7 ?x8 ?x9] =>
    destruct (ingest_st x1 x2 x3 x4 x5 x6 x7 x8 x9) as [df1 [u|e|o]] end;
    [|intros H; discriminate H|intros H; discriminate H].
  destruct (is_valid df1) as [ok|e|o]; [|intros H; discriminate H|intros H; discriminate H].
  destruct (negb ok || is_nil (dataset df1)); intros H; [discriminate H|].
  inversion H; subst. reflexivity.
Qed.

(* (3) read_xrff *)
Lemma xrff_attrs_forget : forall l n oi idx cols,
  xrff_attrs l n oi idx cols =
  match xrff_attrs_st l n oi idx cols with
  | (cols', Ok (a, b, c)) => Ok (a, b, c, cols')
  | (_, Exn e) => Exn e
  | (_, OOB o) => OOB o
  end.
Proof.
  induction l as [|a r IH]; intros n oi idx cols; cbn [xrff_attrs xrff_attrs_st].
  - reflexivity.
  - cbv zeta. destruct (xa_class_yes a && Nat.ltb 1 (if xa_class_yes a then S n else n)); [reflexivity|].
    apply IH.
Qed.

Lemma xrff_instances_forget : forall v flt output_index l df,
  xrff_instances is_number stod stoi v flt output_index l df =
  forget (xrff_instances_st is_number stod stoi v flt output_index l df).
Proof.
  intros v flt output_index. induction l as [|rcd0 rest IH]; intros df;
    cbn [xrff_instances xrff_instances_st].
  - reflexivity.
  - destruct (flt rcd0) as [rcd|]; [|apply IH].
    destruct (g_rotate_xrff v && Nat.leb (length rcd) output_index); [apply IH|].
    destruct (rotate_front S_rotate_xrff rcd output_index) as [rcd'|e|o]; cbn [bind];
      [|reflexivity|reflexivity].
    rewrite read_record_forget.
    destruct (read_record_st is_number stod stoi df rcd' false) as [df' [u|e|o]]; cbn [forget bind];
      [apply IH|reflexivity|reflexivity].
Qed.

Lemma read_xrff_forget : forall uint_max v df0 dom flt,
  read_xrff_on is_number stod stoi uint_max v df0 dom flt =
  forget2 (read_xrff_st is_number stod stoi uint_max v df0 dom flt).
Proof.
  intros uint_max v df0 dom flt. unfold read_xrff_on, read_xrff_st, cleared. cbn [columns classes].
  destruct (x_attributes dom) as [attrs|]; [|reflexivity].
  rewrite xrff_attrs_forget.
  destruct (xrff_attrs_st attrs 0 0 0 (columns df0)) as [cols [[[n oi] idx]|e|o]]; cbn [bind forget2];
    [|reflexivity|reflexivity].
  destruct (is_nil cols); [reflexivity|]. cbv zeta.
  destruct (x_instances dom) as [insts|]; [|reflexivity].
  rewrite xrff_instances_forget.
  match goal with |- context [xrff_instances_st ?x1 ?x2 ?x3 ?x4 ?x5 ?x6 ?x7 ?x8] =>
    destruct (xrff_instances_st x1 x2 x3 x4 x5 x6 x7 x8) as [df2 [u|e|o]] end; cbn [forget bind forget2];
    [|reflexivity|reflexivity].
  destruct (is_valid df2) as [ok|e|o]; reflexivity.
Qed.

(* ------------------------------------------------------------ (1) safety of every step, of histories *)
Lemma read_csv_st_safe : forall df0 text p,
  safe (snd (read_csv_st is_number stod stoi fixed_v df0 text p)).
Proof.
  intros df0 text p. apply forget_safe. rewrite <- read_csv_forget.
  eapply sp_safe. apply read_csv_on_sp.
Qed.

Lemma read_xrff_st_safe : forall uint_max df0 dom flt,
  safe (snd (read_xrff_st is_number stod stoi uint_max fixed_v df0 dom flt)).
Proof.
  intros uint_max df0 dom flt. apply forget2_safe. rewrite <- read_xrff_forget.
  eapply sp_safe. apply read_xrff_on_sp.
Qed.

Lemma step_st_safe : forall uint_max df s,
  safe (snd (step_st is_number stod stoi uint_max fixed_v df s)).
Proof.
  intros uint_max df [text p|[dom|] flt]; cbn [step_st].
  - apply read_csv_st_safe.
  - apply read_xrff_st_safe.
  - cbn [snd]. apply safe_Exn.
Qed.
End StateReaders.

Definition no_oob (outs : list (res nat)) : Prop := forall o, ~ In (OOB o) outs.

Lemma run_history_st_safe_lemma : forall is_number stod stoi uint_max (steps : list st_step) (df0 : dataframe),
  no_oob (snd (run_history_st is_number stod stoi uint_max fixed_v df0 steps)).
Proof.
  intros is_number stod stoi uint_max. induction steps as [|s r IH]; intros df0; cbn [run_history_st].
  - intros o [].
  - pose proof (step_st_safe is_number stod stoi uint_max df0 s) as Hs.
    destruct (step_st is_number stod stoi uint_max fixed_v df0 s) as [df' [n|e|o]]; cbn [snd] in Hs.
    + specialize (IH df').
      destruct (run_history_st is_number stod stoi uint_max fixed_v df' r) as [dfn outs].
      cbn [snd] in *. intros o [H|H]; [discriminate H|]. exact (IH o H).
    + specialize (IH df').
      destruct (run_history_st is_number stod stoi uint_max fixed_v df' r) as [dfn outs].
      cbn [snd] in *. intros o [H|H]; [discriminate H|]. exact (IH o H).
    + exfalso. eapply Hs. reflexivity.
Qed.

(* ------------------------------------------------------------ (2) normal outcomes *)
Lemma read_csv_st_ok_lemma : forall is_number stod stoi (df0 : dataframe) (text : bytes) (p : params) df n,
  read_csv_st is_number stod stoi fixed_v df0 text p = (df, Ok n) ->
  n = length (dataset df) /\ is_valid df = Ok true /\ dataset df <> [] /\ uniform_input_width df.
Proof.
  intros is_number stod stoi df0 text p df n H. split; [eapply read_csv_st_count; exact H|].
  assert (E : read_csv_on is_number stod stoi fixed_v df0 text p = Ok df)
    by (rewrite read_csv_forget, H; reflexivity).
  exact (sp_post _ _ _ _ (read_csv_on_sp is_number stod stoi df0 text p) E).
Qed.

Lemma read_xrff_st_ok_lemma : forall is_number stod stoi uint_max (df0 : dataframe) (dom : xdom) (flt : filter_t) df n,
  read_xrff_st is_number stod stoi uint_max fixed_v df0 dom flt = (df, Ok n) ->
  n = 0 \/ (n = length (dataset df) /\ is_valid df = Ok true /\ uniform_input_width df).
Proof.
  intros is_number stod stoi uint_max df0 dom flt df n H.
  assert (E : read_xrff_on is_number stod stoi uint_max fixed_v df0 dom flt = Ok (df, n))
    by (rewrite read_xrff_forget, H; reflexivity).
  exact (sp_post _ _ _ _ (read_xrff_on_sp is_number stod stoi uint_max df0 dom flt) E).
Qed.

(* ------------------------------------------------------------ (3) refinement, as stated *)
Lemma read_csv_st_refines : forall is_number stod stoi v (df0 : dataframe) (text : bytes) (p : params) df,
  read_csv_on is_number stod stoi v df0 text p = Ok df <->
  exists n, read_csv_st is_number stod stoi v df0 text p = (df, Ok n).
Proof. intros. rewrite read_csv_forget. apply forget_ok. Qed.

Lemma read_csv_st_refines_count : forall is_number stod stoi v (df0 : dataframe) (text : bytes) (p : params) df,
  read_csv_on is_number stod stoi v df0 text p = Ok df <->
  read_csv_st is_number stod stoi v df0 text p = (df, Ok (length (dataset df))).
Proof.
  intros is_number stod stoi v df0 text p df. rewrite read_csv_st_refines. split.
  - intros [n H]. rewrite (read_csv_st_count _ _ _ _ _ _ _ _ _ H) in H. exact H.
  - intros H. eexists. exact H.
Qed.

Lemma read_xrff_st_refines : forall is_number stod stoi uint_max v (df0 : dataframe) (dom : xdom) (flt : filter_t) df n,
  read_xrff_on is_number stod stoi uint_max v df0 dom flt = Ok (df, n) <->
  read_xrff_st is_number stod stoi uint_max v df0 dom flt = (df, Ok n).
Proof. intros. rewrite read_xrff_forget. apply forget2_ok. Qed.

(* the failures agree too: same exception / same out-of-bounds site *)
Lemma read_csv_st_refines_exn : forall is_number stod stoi v (df0 : dataframe) (text : bytes) (p : params) e,
  read_csv_on is_number stod stoi v df0 text p = Exn e <->
  exists df, read_csv_st is_number stod stoi v df0 text p = (df, Exn e).
Proof.
  intros is_number stod stoi v df0 text p e. rewrite read_csv_forget.
  destruct (read_csv_st is_number stod stoi v df0 text p) as [df [n|e'|o]]; cbn [forget]; split;
    try discriminate; try (intros [df' H]; discriminate H).
  - intros H. inversion H; subst. exists df. reflexivity.
  - intros [df' H]. inversion H; subst. reflexivity.
Qed.

(* ------------------------------------------------------------ (4) widths after a read on ANY frame *)
(* SafeProofs.IInv asks for NO columns at count = 0; only the empty dataset is needed *)
Definition IInv' (count : nat) (df : dataframe) : Prop := (count = 0 -> dataset df = []) /\ LW df.

Section AnyFrame.
Variable is_number : bytes -> bool.
Variable stod : bytes -> conv.
Variable stoi : bytes -> conv.

Lemma cont_sp' : forall oi hh rest count df (rcd' : record) (Q : dataframe -> Prop),
  IInv' count df ->
  (forall df2, IInv' (S count) df2 ->
     sp (ingest is_number stod stoi fixed_v oi hh rest (S count) df2) Q) ->
  sp (cont is_number stod stoi fixed_v oi hh rest count df rcd') Q.
Proof.
  intros oi hh rest count df rcd' Q [H0 HL] HK. unfold cont.
  eapply sp_bind with (P := fun cols => length cols = length rcd' \/ cols = columns df).
  - destruct (Nat.ltb count 10) eqn:Ec.
    + eapply sp_weaken; [apply build_sp|]. intros c [H|[H _]]; auto.
    + apply sp_Ok. right; reflexivity.
  - intros cols Hc. cbv zeta.
    eapply sp_bind with (P := LW).
    + assert (Hrr : sp (read_record is_number stod stoi
                          {| columns := cols; classes := classes df; dataset := dataset df |} rcd' true) LW).
      { eapply sp_weaken; [apply read_record_sp|].
        intros df2 [[Hne ->]|[He (ex & Hd & Hw & _)]].
        - cbn [columns] in Hne. destruct Hc as [Hc|Hc]; [congruence|].
          intros l e Hl. cbn [dataset columns] in *. rewrite Hc. eapply HL; eassumption.
        - eapply LW_of_append; eassumption. }
      destruct (negb hh || negb (Nat.eqb count 0)) eqn:Eg; [exact Hrr|].
      apply sp_Ok. apply orb_false_iff in Eg. destruct Eg as [_ Eg].
      apply negb_false_iff in Eg. apply Nat.eqb_eq in Eg. pose proof (H0 Eg) as Hd0.
      intros l e Hl. cbn [dataset] in Hl. rewrite Hd0 in Hl. destruct l; discriminate.
    + intros df2 H2. apply HK. split; [intros; discriminate|assumption].
Qed.

Lemma ingest_sp' : forall oi hh recs count df, IInv' count df ->
  sp (ingest is_number stod stoi fixed_v oi hh recs count df) LW.
Proof.
  intros oi hh. induction recs as [|rcd rest IH]; intros count df HI.
  - cbn [ingest]. apply sp_Ok. apply HI.
  - rewrite ingest_cons. destruct oi as [k|].
    + cbn [g_rotate_csv fixed_v andb]. destruct (Nat.leb (length rcd) k) eqn:E.
      * apply IH; assumption.
      * apply Nat.leb_gt in E. destruct (Nat.ltb 0 k) eqn:Ek.
        -- eapply sp_bind; [apply rotate_front_sp; assumption|]. intros rcd' _.
           apply cont_sp'; auto.
        -- apply cont_sp'; auto.
    + apply cont_sp'; auto.
Qed.

Lemma read_csv_on_LW_sp : forall df0 text p,
  sp (read_csv_on is_number stod stoi fixed_v df0 text p)
     (fun df => is_valid df = Ok true /\ dataset df <> [] /\ uniform_input_width df /\ LW df).
Proof.
  intros df0 text p. unfold read_csv_on. cbv zeta.
  eapply sp_bind with (P := fun _ => True).
  - destruct (has_header (p_dialect p)); destruct (Z.eqb (delimiter (p_dialect p)) 0);
      try (apply sp_Ok; exact I);
      (eapply sp_bind; [apply sniffer_sp|intros sn _; apply sp_Ok; exact I]).
  - intros d _. eapply sp_bind.
    + apply ingest_sp'. split; [reflexivity|]. intros l e H. cbn [dataset] in H. destruct l; discriminate.
    + intros df HL. eapply sp_weaken; [apply finish_csv_sp|].
      intros df' (-> & H1 & H2 & H3). auto.
Qed.
End AnyFrame.

(* every example has one input per live column *)
Lemma widths_of_LW : forall df,
  dataset df <> [] -> uniform_input_width df -> LW df ->
  forall e, In e (dataset df) -> length (e_input e) = nvd (tl (doms (columns df))).
Proof.
  intros df Hne [n Hu] HL e He.
  destruct (exists_last Hne) as (l & elast & Hd).
  pose proof (HL l elast Hd) as Hw. rewrite Forall_forall in Hu.
  rewrite (Hu e He). rewrite <- Hw. symmetry. apply Hu. rewrite Hd. apply in_or_app. right. left. reflexivity.
Qed.

Lemma live_count_gen : forall (cs pre : list column),
  length (filter (live (pre ++ cs)) (seq (length pre) (length cs))) = nvd (doms cs).
Proof.
  induction cs as [|c cs IH]; intros pre; [reflexivity|].
  cbn [length seq filter doms map]. unfold nvd. cbn [filter].
  assert (Hl : live (pre ++ c :: cs) (length pre) = nonvoid (c_domain c)).
  { unfold live. rewrite nth_error_app2 by lia. rewrite Nat.sub_diag. reflexivity. }
  rewrite Hl.
  specialize (IH (pre ++ [c])). rewrite <- app_assoc in IH. cbn [app] in IH.
  rewrite app_length in IH. cbn [length] in IH. rewrite Nat.add_1_r in IH.
  unfold nvd, doms in IH.
  destruct (nonvoid (c_domain c)); cbn [length]; rewrite IH; reflexivity.
Qed.

Lemma live_count : forall cols,
  length (filter (live cols) (seq 1 (length cols - 1))) = nvd (tl (doms cols)).
Proof.
  intros [|c cs]; [reflexivity|].
  replace (length (c :: cs) - 1) with (length cs) by (cbn [length]; lia).
  cbn [doms map tl]. exact (live_count_gen cs [c]).
Qed.

Lemma frame_terminals_consistent : forall df strong vars k,
  dataset df <> [] -> uniform_input_width df -> LW df ->
  setup_terminals fixed_v (columns df) strong = Ok vars ->
  let pr := {| training := df; p_vars := vars; p_other := k |} in
  prob_consistent pr /\ length (p_vars pr) = prob_variables pr.
Proof.
  intros df strong vars k Hne Hu HL Ev pr.
  destruct (terminals_numbering_lemma _ _ _ Ev) as (Hids & Hlen & _).
  rewrite live_count in Hlen.
  pose proof (widths_of_LW df Hne Hu HL) as Hw.
  unfold prob_consistent, prob_variables. subst pr. cbn [p_vars training]. split; [split|].
  - exact Hids.
  - intros e He. rewrite Hlen. apply Hw. exact He.
  - destruct (dataset df) as [|e0 l] eqn:Ed; [congruence|].
    rewrite Hlen. symmetry. apply Hw. left. reflexivity.
Qed.

Lemma state_constants_safe : forall cols, safe (state_constants fixed_v cols).
Proof.
  induction cols as [|c r IH]; cbn [state_constants]; [apply safe_Ok|].
  destruct (state_constants fixed_v r) as [n|e|o]; cbn [bind];
    [|apply safe_Exn|exfalso; eapply IH; reflexivity].
  destruct (g_terminals fixed_v && domain_eqb (c_domain c) DVoid); [apply safe_Ok|].
  destruct (c_states c); [apply safe_Ok|].
  destruct (c_domain c); try apply safe_Ok; apply safe_Exn.
Qed.

Lemma prob_construct_consistent : forall is_number stod stoi (text : bytes) strong pr,
  prob_construct is_number stod stoi fixed_v text strong = Ok pr ->
  prob_consistent pr /\ length (p_vars pr) = prob_variables pr.
Proof.
  intros is_number stod stoi text strong pr H. unfold prob_construct in H.
  destruct (read_csv_st is_number stod stoi fixed_v empty_df text default_params) as [df [n|e|o]] eqn:Er;
    try discriminate H.
  destruct (setup_terminals fixed_v (columns df) strong) as [vars|e|o] eqn:Ev; cbn [bind] in H;
    try discriminate H.
  destruct (state_constants fixed_v (tl (columns df))) as [k|e|o] eqn:Ek; cbn [bind] in H;
    try discriminate H.
  inversion H; subst pr. clear H.
  assert (E : read_csv_on is_number stod stoi fixed_v empty_df text default_params = Ok df)
    by (rewrite read_csv_forget, Er; reflexivity).
  destruct (sp_post _ _ _ _ (read_csv_on_LW_sp is_number stod stoi empty_df text default_params) E)
    as (_ & Hne & Hu & HL).
  exact (frame_terminals_consistent df strong vars k Hne Hu HL Ev).
Qed.

Lemma prob_setup_symbols_consistent : forall is_number stod stoi pr (text : bytes) (p : params) df n strong pr' m,
  read_csv_st is_number stod stoi fixed_v (training pr) text p = (df, Ok n) ->
  prob_setup_symbols fixed_v {| training := df; p_vars := p_vars pr; p_other := p_other pr |} strong = (pr', Ok m) ->
  prob_consistent pr' /\ length (p_vars pr') = prob_variables pr'.
Proof.
  intros is_number stod stoi pr text p df n strong pr' m Er H.
  unfold prob_setup_symbols in H. cbn [training] in H.
  destruct (setup_terminals fixed_v (columns df) strong) as [vars|e|o] eqn:Ev; cbn [bind] in H;
    try discriminate H.
  destruct (state_constants fixed_v (tl (columns df))) as [k|e|o] eqn:Ek; cbn [bind] in H;
    try discriminate H.
  inversion H; subst pr'. clear H.
  assert (E : read_csv_on is_number stod stoi fixed_v (training pr) text p = Ok df)
    by (rewrite read_csv_forget, Er; reflexivity).
  destruct (sp_post _ _ _ _ (read_csv_on_LW_sp is_number stod stoi (training pr) text p) E)
    as (_ & Hne & Hu & HL).
  exact (frame_terminals_consistent df strong vars _ Hne Hu HL Ev).
Qed.

(* no out-of-bounds access in the wrappers, on ANY problem state / text *)
Lemma prob_setup_symbols_safe : forall pr strong, safe (snd (prob_setup_symbols fixed_v pr strong)).
Proof.
  intros pr strong. unfold prob_setup_symbols.
  pose proof (sp_safe _ _ _ (setup_terminals_sp (columns (training pr)) strong)) as Hs.
  destruct (setup_terminals fixed_v (columns (training pr)) strong) as [vars|e|o]; cbn [bind];
    [|cbn [snd]; apply safe_Exn|exfalso; eapply Hs; reflexivity].
  pose proof (state_constants_safe (tl (columns (training pr)))) as Hk.
  destruct (state_constants fixed_v (tl (columns (training pr)))) as [k|e|o]; cbn [bind snd];
    [apply safe_Ok|apply safe_Exn|exfalso; eapply Hk; reflexivity].
Qed.

Lemma prob_construct_safe : forall is_number stod stoi (text : bytes) strong,
  safe (prob_construct is_number stod stoi fixed_v text strong).
Proof.
  intros is_number stod stoi text strong. unfold prob_construct.
  pose proof (read_csv_st_safe is_number stod stoi empty_df text default_params) as Hr.
  destruct (read_csv_st is_number stod stoi fixed_v empty_df text default_params) as [df [n|e|o]];
    cbn [snd] in Hr; [|apply safe_Exn|exfalso; eapply Hr; reflexivity].
  pose proof (sp_safe _ _ _ (setup_terminals_sp (columns df) strong)) as Hs.
  destruct (setup_terminals fixed_v (columns df) strong) as [vars|e|o]; cbn [bind];
    [|apply safe_Exn|exfalso; eapply Hs; reflexivity].
  pose proof (state_constants_safe (tl (columns df))) as Hk.
  destruct (state_constants fixed_v (tl (columns df))) as [k|e|o]; cbn [bind];
    [apply safe_Ok|apply safe_Exn|exfalso; eapply Hk; reflexivity].
Qed.

Lemma prob_read_csv_safe : forall is_number stod stoi pr (text : bytes) (p : params),
  safe (snd (prob_read_csv is_number stod stoi fixed_v pr text p)).
Proof.
  intros is_number stod stoi pr text p. unfold prob_read_csv.
  pose proof (read_csv_st_safe is_number stod stoi (training pr) text p) as Hr.
  destruct (read_csv_st is_number stod stoi fixed_v (training pr) text p) as [df out]. exact Hr.
Qed.

Lemma prob_read_xrff_safe : forall is_number stod stoi uint_max pr dom,
  safe (snd (prob_read_xrff is_number stod stoi uint_max fixed_v pr dom)).
Proof.
  intros is_number stod stoi uint_max pr dom. unfold prob_read_xrff.
  pose proof (step_st_safe is_number stod stoi uint_max (training pr) (StXrff dom no_filter)) as Hr.
  destruct (step_st is_number stod stoi uint_max fixed_v (training pr) (StXrff dom no_filter)) as [df out].
  exact Hr.
Qed.

(* ------------------------------------------------------------ (5) where consistency fails *)
Lemma not_consistent_width : forall pr e,
  In e (dataset (training pr)) -> length (e_input e) <> length (p_vars pr) -> ~ prob_consistent pr.
Proof. intros pr e He Hw [_ H]. apply Hw. apply H. exact He. Qed.

Local Open Scope Z_scope.

(* oracles: HistoryProofs.hx_is_number / hx_stod (digits are numbers) *)
(* "1,2,\n3,4,\n": the third column is empty, hence void: ONE variable (column 1) *)
Definition sx_text0 : bytes := [49;44;50;44;10; 51;44;52;44;10].
(* "1,2,5\n3,4,x\n": the first row makes column 2 numeric, the second has a non-numeric cell in it *)
Definition sx_bad_cell : bytes := [49;44;50;44;53;10; 51;44;52;44;120;10].
(* "1,2,\n3,4,5\n": column 2 becomes numeric at the SECOND row: widths 1 and 2, is_valid() fails *)
Definition sx_bad_late : bytes := [49;44;50;44;10; 51;44;52;44;53;10].
(* "1,2,5\n3,4,6\n" *)
Definition sx_good : bytes := [49;44;50;44;53;10; 51;44;52;44;54;10].
Definition sx_params : params :=
  {| p_dialect := {| delimiter := 44; trim_ws := false; has_header := NO_HEADER; quoting := REMOVE_QUOTES |};
     p_filter := no_filter; p_output_index := Some 0%nat |}.

Definition sx_read (pr : problem) (text : bytes) : problem * res nat :=
  prob_read_csv hx_is_number hx_stod hx_stod fixed_v pr text sx_params.

Definition sx_pr0 : problem :=
  match prob_construct hx_is_number hx_stod hx_stod fixed_v sx_text0 false with Ok pr => pr | _ => empty_problem end.

Example sx_construct_ok :
  prob_construct hx_is_number hx_stod hx_stod fixed_v sx_text0 false = Ok sx_pr0 /\
  length (p_vars sx_pr0) = 1%nat /\ length (columns (training sx_pr0)) = 3%nat /\
  prob_consistent sx_pr0.
Proof.
  assert (E : prob_construct hx_is_number hx_stod hx_stod fixed_v sx_text0 false = Ok sx_pr0)
    by (vm_compute; reflexivity).
  split; [exact E|]. split; [vm_compute; reflexivity|]. split; [vm_compute; reflexivity|].
  exact (proj1 (prob_construct_consistent _ _ _ _ _ _ E)).
Qed.

(* a read that throws std::invalid_argument in the middle (std::stod on "x"): the frame keeps
   the example of the first row, which has TWO inputs; the symbol set still has ONE variable *)
Example sx_failed_read_cell_refuted :
  snd (sx_read sx_pr0 sx_bad_cell) = Exn E_invalid_argument /\
  ~ prob_consistent (fst (sx_read sx_pr0 sx_bad_cell)).
Proof.
  split; [vm_compute; reflexivity|].
  apply not_consistent_width with (e := {| e_input := [VDouble 2; VDouble 5]; e_output := VDouble 1 |}).
  - vm_compute. left. reflexivity.
  - vm_compute. discriminate.
Qed.
(* the same with the sniffed default parameters *)
Example sx_failed_read_cell_default_refuted :
  snd (prob_read_csv hx_is_number hx_stod hx_stod fixed_v sx_pr0 sx_bad_cell default_params) = Exn E_invalid_argument /\
  ~ prob_consistent (fst (prob_read_csv hx_is_number hx_stod hx_stod fixed_v sx_pr0 sx_bad_cell default_params)).
Proof.
  split; [vm_compute; reflexivity|].
  apply not_consistent_width with (e := {| e_input := [VDouble 2; VDouble 5]; e_output := VDouble 1 |}).
  - vm_compute. left. reflexivity.
  - vm_compute. discriminate.
Qed.

(* a read whose final `!is_valid()` throws insufficient_data: ALL the examples stay, with
   widths 1 and 2 *)
Definition sx_pr2 : problem := fst (sx_read sx_pr0 sx_bad_late).
Example sx_failed_read_late_refuted :
  snd (sx_read sx_pr0 sx_bad_late) = Exn E_insufficient_data /\
  map (fun e => length (e_input e)) (dataset (training sx_pr2)) = [1%nat; 2%nat] /\
  ~ prob_consistent sx_pr2.
Proof.
  split; [vm_compute; reflexivity|]. split; [vm_compute; reflexivity|].
  apply not_consistent_width with (e := {| e_input := [VDouble 4; VDouble 5]; e_output := VDouble 3 |}).
  - vm_compute. right. left. reflexivity.
  - vm_compute. discriminate.
Qed.

(* setup_symbols ALONE on the frame a failed read left does not repair it: it returns normally
   with two variables, and variable 1 on the first stored example is an out-of-bounds fetch *)
Definition sx_pr2s : problem := fst (prob_setup_symbols fixed_v sx_pr2 false).
Example sx_setup_symbols_after_failure_refuted :
  snd (prob_setup_symbols fixed_v sx_pr2 false) = Ok 16%nat /\
  ~ prob_consistent sx_pr2s /\
  exists vi e, In vi (p_vars sx_pr2s) /\ In e (dataset (training sx_pr2s)) /\
               run_variable vi e = OOB S_fetch_var.
Proof.
  split; [vm_compute; reflexivity|]. split.
  - apply not_consistent_width with (e := {| e_input := [VDouble 2]; e_output := VDouble 1 |}).
    + vm_compute. left. reflexivity.
    + vm_compute. discriminate.
  - exists {| v_name := [88; 50]; v_id := 1; v_category := 0 |},
           {| e_input := [VDouble 2]; e_output := VDouble 1 |}.
    split; [vm_compute; right; left; reflexivity|].
    split; [vm_compute; left; reflexivity|]. vm_compute. reflexivity.
Qed.

(* a successful re-read followed by setup_symbols restores consistency (instance of
   prob_setup_symbols_consistent), from either broken state *)
Definition sx_pr3 : problem := fst (prob_setup_symbols fixed_v (fst (sx_read sx_pr2 sx_good)) false).
Example sx_reread_then_setup_restores :
  snd (sx_read sx_pr2 sx_good) = Ok 2%nat /\
  snd (prob_setup_symbols fixed_v (fst (sx_read sx_pr2 sx_good)) false) = Ok 16%nat /\
  prob_consistent sx_pr3 /\ length (p_vars sx_pr3) = prob_variables sx_pr3 /\ prob_variables sx_pr3 = 2%nat.
Proof.
  split; [vm_compute; reflexivity|]. split; [vm_compute; reflexivity|].
  assert (H : prob_consistent sx_pr3 /\ length (p_vars sx_pr3) = prob_variables sx_pr3).
  { apply (prob_setup_symbols_consistent hx_is_number hx_stod hx_stod sx_pr2 sx_good sx_params
             (training (fst (sx_read sx_pr2 sx_good))) 2%nat false sx_pr3 16%nat);
      vm_compute; reflexivity. }
  destruct H as [H1 H2]. split; [exact H1|]. split; [exact H2|]. vm_compute. reflexivity.
Qed.

(* the other order, setup_symbols on the broken frame and THEN a successful re-read, also ends
   consistent HERE (the re-read does not change the set of live columns) *)
Example sx_setup_then_reread_restores :
  snd (sx_read sx_pr2s sx_good) = Ok 2%nat /\ prob_consistent (fst (sx_read sx_pr2s sx_good)).
Proof.
  split; [vm_compute; reflexivity|]. split; [vm_compute; reflexivity|].
  intros e He. vm_compute in He. destruct He as [<-|[<-|[]]]; vm_compute; reflexivity.
Qed.

(* ... but not in general: a read that returns NORMALLY and turns a void column into a live one
   leaves the untouched symbol set behind the frame (no failure needed) *)
Example sx_successful_read_without_setup_refuted :
  snd (sx_read sx_pr0 sx_good) = Ok 2%nat /\ ~ prob_consistent (fst (sx_read sx_pr0 sx_good)).
Proof.
  split; [vm_compute; reflexivity|].
  apply not_consistent_width with (e := {| e_input := [VDouble 2; VDouble 5]; e_output := VDouble 1 |}).
  - vm_compute. left. reflexivity.
  - vm_compute. discriminate.
Qed.
