(* Executable model of the dataset import of morinim/vita (C09, C10):
     utility/pocket_csv.h        parse_line, record iteration, sniffer
     kernel/gp/src/dataframe.cc  read_csv, read_xrff, columns_info::build,
                                 read_record, to_example, encode, class_name,
                                 is_valid
     kernel/gp/src/category_set.cc / problem.cc   category_set, setup_terminals
     kernel/gp/src/interpreter.tcc                fetch_var
   Text is a list of bytes (0..255 as Z).  The model is written in CHECKED
   form: every vector access of the C++ code is [get site v i] (nth_error), a
   std::rotate carries its bound; the result of a reader is
       Ok x | Exn kind | OOB site
   [Exn] is a C++ exception escaping the reader, [OOB] an out-of-bounds
   access (undefined behaviour).  No proofs here (the file must extract even
   when a proof breaks).

   [variant] selects between the pinned tree and the repaired tree (the three
   width guards and the variable numbering added by the fix: commits).

   strtod-based conversions ([is_number], [stod]) are ORACLES: parameters of
   the functions below (Section variables), realised in the OCaml driver by
   the same libc the harness links. *)
From Coq Require Import ZArith List Bool.
Import ListNotations.
Local Open Scope Z_scope.
Local Open Scope bool_scope.

Definition bytes := list Z.

Fixpoint bytes_eqb (a b : bytes) : bool :=
  match a, b with
  | [], [] => true
  | x :: a', y :: b' => (x =? y) && bytes_eqb a' b'
  | _, _ => false
  end.

Definition is_nil {A} (l : list A) : bool := match l with [] => true | _ => false end.

(* ------------------------------------------------------------ <cctype>, "C" locale *)
Definition isspace (c : Z) : bool := (c =? 32) || ((9 <=? c) && (c <=? 13)).
Definition isupper (c : Z) : bool := (65 <=? c) && (c <=? 90).
Definition islower (c : Z) : bool := (97 <=? c) && (c <=? 122).
Definition isalpha (c : Z) : bool := isupper c || islower c.
Definition isprint (c : Z) : bool := (32 <=? c) && (c <=? 126).

(* trim(): find_if_not from the front, then from the back *)
Fixpoint drop_space (s : bytes) : bytes :=
  match s with
  | c :: r => if isspace c then drop_space r else s
  | [] => []
  end.
Definition trim (s : bytes) : bytes := rev (drop_space (rev (drop_space s))).
Definition blank (s : bytes) : bool := is_nil (trim s).      (* trim(s).empty() *)

(* ------------------------------------------------------------ results *)
Inductive exn := E_invalid_argument | E_out_of_range | E_insufficient_data | E_data_format | E_bad_variant.

Inductive site :=
| S_rotate_csv | S_rotate_xrff | S_build_rec | S_build_cols
| S_toex_rec | S_toex_cols | S_toex_front
| S_hh_types | S_hh_header | S_hh_row
| S_term_cat | S_fetch_var | S_valid_front.

Inductive res (A : Type) := Ok (a : A) | Exn (e : exn) | OOB (s : site).
Arguments Ok {A} a.
Arguments Exn {A} e.
Arguments OOB {A} s.

Definition bind {A B} (r : res A) (f : A -> res B) : res B :=
  match r with Ok a => f a | Exn e => Exn e | OOB s => OOB s end.
Notation "x <- r ;; k" := (bind r (fun x => k)) (at level 61, r at next level, right associativity).

Definition get {A} (s : site) (l : list A) (i : nat) : res A :=
  match nth_error l i with Some x => Ok x | None => OOB s end.

Fixpoint set_nth {A} (l : list A) (i : nat) (x : A) : list A :=
  match l, i with
  | [], _ => []
  | _ :: r, O => x :: r
  | y :: r, S j => y :: set_nth r j x
  end.

(* for (i = ...; ...) body -- the indices are explicit *)
Fixpoint for_ck {S} (idxs : list nat) (body : nat -> S -> res S) (s : S) : res S :=
  match idxs with
  | [] => Ok s
  | i :: r => s' <- body i s ;; for_ck r body s'
  end.

(* ------------------------------------------------------------ pocket_csv *)
Inductive header_e := GUESS_HEADER | NO_HEADER | HAS_HEADER.
Inductive quoting_e := KEEP_QUOTES | REMOVE_QUOTES.
Record dialect := { delimiter : Z; trim_ws : bool; has_header : header_e; quoting : quoting_e }.

Definition record := list bytes.

Definition keepq (dl : dialect) : bool := match quoting dl with KEEP_QUOTES => true | _ => false end.

Definition add_field (dl : dialect) (rcd : record) (cur : bytes) : record :=
  rcd ++ [if trim_ws dl then trim cur else cur].

(* parser::const_iterator::parse_line: one step per character; the escaped
   quote consumes two *)
Fixpoint pl (dl : dialect) (line : bytes) (inq : bool) (cur : bytes) (rcd : record) : record :=
  match line with
  | [] => add_field dl rcd cur
  | c :: rest =>
    if c =? 0 then add_field dl rcd cur                       (* pos < length && line[pos] *)
    else if negb inq && blank cur && (c =? 34) then           (* begin quote char *)
      pl dl rest true (if keepq dl then cur ++ [c] else cur) rcd
    else if inq && (c =? 34) then
      match rest with
      | c2 :: rest2 =>
        if c2 =? 34 then pl dl rest2 inq (cur ++ [c]) rcd     (* "" inside quotes *)
        else pl dl rest false (if keepq dl then cur ++ [c] else cur) rcd
      | [] => pl dl rest false (if keepq dl then cur ++ [c] else cur) rcd
      end
    else if negb inq && (c =? delimiter dl) then              (* end of field *)
      pl dl rest inq [] (add_field dl rcd cur)
    else if negb inq && ((c =? 13) || (c =? 10)) then add_field dl rcd cur
    else pl dl rest inq (cur ++ [c]) rcd
  end.
Definition parse_line (dl : dialect) (line : bytes) : record := pl dl line false [] [].

(* std::getline over the whole stream *)
Fixpoint split_lines_aux (s : bytes) (cur : bytes) : list bytes :=
  match s with
  | [] => if is_nil cur then [] else [cur]
  | c :: r => if c =? 10 then cur :: split_lines_aux r [] else split_lines_aux r (cur ++ [c])
  end.
Definition split_lines (s : bytes) : list bytes := split_lines_aux s [].

Fixpoint filter_map {A B} (f : A -> option B) (l : list A) : list B :=
  match l with
  | [] => []
  | x :: r => match f x with Some y => y :: filter_map f r | None => filter_map f r end
  end.

(* A filter hook may reject a record (None) or keep it, possibly transformed *)
Definition filter_t := record -> option record.
Definition no_filter : filter_t := fun r => Some r.

(* the sequence of records produced by iterating a parser: non-blank lines,
   parsed, kept by the filter hook (get_input) *)
Definition records (dl : dialect) (flt : filter_t) (text : bytes) : list record :=
  filter_map flt (map (parse_line dl) (filter (fun l => negb (blank l)) (split_lines text))).

(* ------------------------------------------------------------ sniffer *)
Section Oracles.
Variable is_number : bytes -> bool.        (* vita::is_number == pocket_csv::detail::is_number *)

Inductive conv := CvOk (bits : Z) | CvInvalid | CvRange.
Variable stod : bytes -> conv.             (* std::stod; result as binary64 bit pattern *)

Definition preferred : list Z := [44; 59; 9; 58; 124].
Definition candidates_sorted : list Z := [9; 44; 58; 59; 124].   (* std::map<char,...> order *)

Fixpoint count_char (c : Z) (l : bytes) : nat :=
  match l with [] => O | x :: r => if x =? c then S (count_char c r) else count_char c r end.

Fixpoint insert_sorted (x : nat) (l : list nat) : list nat :=
  match l with
  | [] => [x]
  | y :: r => if Nat.leb x y then x :: l else y :: insert_sorted x r
  end.
Definition sort_nat (l : list nat) : list nat := fold_right insert_sorted [] l.

(* detail::mode on a sorted vector: (value, count) pairs *)
Fixpoint mode_loop (l : list nat) (current count max_count : nat) (ret : list (nat * nat)) : list (nat * nat) :=
  match l with
  | [] => ret
  | x :: r =>
    let count' := if Nat.eqb x current then S count else 1%nat in
    if Nat.ltb max_count count' then mode_loop r x count' count' [(x, count')]
    else if Nat.eqb count' max_count then mode_loop r x count' max_count (ret ++ [(x, max_count)])
    else mode_loop r x count' max_count ret
  end.
Definition mode (l : list nat) : list (nat * nat) :=
  match l with [] => [] | x :: r => mode_loop r x 1%nat 1%nat [(x, 1%nat)] end.

Definition mode_weight (cf : list nat) : nat * nat :=
  match mode (sort_nat cf) with
  | [(f, w)] => if Nat.eqb f 0 then (O, O) else (f, w)
  | _ => (O, O)
  end.

(* std::max_element: the first maximum *)
Fixpoint max_by_weight (l : list (Z * (nat * nat))) (best : Z * (nat * nat)) : Z * (nat * nat) :=
  match l with
  | [] => best
  | x :: r => if Nat.ltb (snd (snd best)) (snd (snd x)) then max_by_weight r x else max_by_weight r best
  end.

Definition scanned_lines (text : bytes) (lines : nat) : list bytes :=
  firstn lines (filter (fun l => negb (blank l)) (split_lines text)).

Definition guess_delimiter (text : bytes) (lines : nat) : Z :=
  let ls := scanned_lines text lines in
  match ls with
  | [] => 0                                                   (* count.empty() *)
  | _ =>
    let scanned := length ls in
    let mw := map (fun c => (c, mode_weight (map (count_char c) ls))) candidates_sorted in
    match mw with
    | [] => 0
    | b :: r =>
      let best := max_by_weight r b in
      if Nat.eqb (fst (snd best)) 0 then 10
      else if Nat.ltb (3 * snd (snd best)) (2 * scanned) then 0
      else fst best
    end
  end.

Definition none_tag : Z := 0.
Definition skip_tag : Z := -1.
Definition number_tag : Z := -2.
Definition string_tag : Z := -3.

Definition find_column_tag (s : bytes) : Z :=
  let ts := trim s in
  if is_nil ts then none_tag else if is_number ts then number_tag else Z.of_nat (length s).

Definition capitalized (s0 : bytes) : bool :=
  match trim s0 with
  | [] => false
  | c :: r => isupper c && forallb (fun c => isprint c && (negb (isalpha c) || islower c)) r
  end.
Definition lower_case (s : bytes) : bool := forallb (fun c => negb (isalpha c) || islower c) s.
Definition upper_case (s : bytes) : bool := forallb (fun c => negb (isalpha c) || isupper c) s.

Definition hh_field (header row : record) (field : nat) (types : list Z) : res (list Z) :=
  ty <- get S_hh_types types field ;;
  if ty =? skip_tag then Ok types else
  cell <- get S_hh_row row field ;;
  if blank cell then Ok types else
  let this_tag := find_column_tag cell in
  if ty =? this_tag then Ok types else
  h <- get S_hh_header header field ;;
  if capitalized h && lower_case cell then Ok (set_nth types field string_tag)
  else if upper_case h && negb (upper_case cell) then Ok (set_nth types field string_tag)
  else if ty =? none_tag then Ok (set_nth types field this_tag)
  else Ok (set_nth types field skip_tag).

Fixpoint hh_rows (header : record) (columns : nat) (rows : list record) (types : list Z)
         (checked lines : nat) : res (list Z) :=
  match rows with
  | [] => Ok types
  | row :: rest =>
    if Nat.eqb (length row) columns then
      types' <- for_ck (seq 0 columns) (hh_field header row) types ;;
      if Nat.ltb lines checked then Ok types'                 (* if (checked++ > lines) break; *)
      else hh_rows header columns rest types' (S checked) lines
    else hh_rows header columns rest types checked lines
  end.

Definition hh_vote (header : record) (field : nat) (types : list Z) (vote : Z) : res Z :=
  ty <- get S_hh_types types field ;;
  h <- get S_hh_header header field ;;
  if ty =? none_tag then Ok (if is_nil h then vote - 1 else vote + 1)
  else if ty =? skip_tag then Ok vote
  else if ty =? number_tag then Ok (if is_number h then vote - 1 else vote + 1)
  else if ty =? string_tag then Ok (vote + 1)
  else Ok (if Z.of_nat (length h) =? ty then vote - 1 else vote + 1).

Definition sniff_has_header (text : bytes) (lines : nat) (delim : Z) : res header_e :=
  let dk := {| delimiter := delim; trim_ws := false; has_header := HAS_HEADER; quoting := KEEP_QUOTES |} in
  let dr := {| delimiter := delim; trim_ws := false; has_header := HAS_HEADER; quoting := REMOVE_QUOTES |} in
  let header := match records dk no_filter text with [] => [] | h :: _ => h end in
  let rows := tl (records dr no_filter text) in
  let columns := length header in
  types <- hh_rows header columns rows (repeat none_tag columns) O lines ;;
  vote <- for_ck (seq 0 columns) (fun f v => hh_vote header f types v) 0 ;;
  Ok (if 0 <? vote then HAS_HEADER else NO_HEADER).

Definition sniffer (text : bytes) : res dialect :=
  let d := guess_delimiter text 20 in
  h <- sniff_has_header text 20 d ;;
  Ok {| delimiter := d; trim_ws := false; has_header := h; quoting := REMOVE_QUOTES |}.

(* ------------------------------------------------------------ dataframe *)
Inductive domain := DVoid | DInt | DDouble | DString.
Definition domain_eqb (a b : domain) : bool :=
  match a, b with
  | DVoid, DVoid | DInt, DInt | DDouble, DDouble | DString, DString => true
  | _, _ => false
  end.

(* value_t: doubles are 64-bit patterns (no arithmetic is done on them here) *)
Inductive value := VVoid | VInt (z : Z) | VDouble (bits : Z) | VString (s : bytes).

Record column := { c_name : bytes; c_domain : domain; c_states : list bytes }.
Definition default_column : column := {| c_name := []; c_domain := DVoid; c_states := [] |}.

Record example := { e_input : list value; e_output : value }.

(* classes_map_ : label -> id, kept in insertion order *)
Definition classes_t := list (bytes * Z).

Record dataframe := { columns : list column; classes : classes_t; dataset : list example }.
Definition empty_df : dataframe := {| columns := []; classes := []; dataset := [] |}.

Record variant := { g_rotate_csv : bool; g_build : bool; g_rotate_xrff : bool; g_terminals : bool }.
Definition fixed_v : variant := {| g_rotate_csv := true; g_build := true; g_rotate_xrff := true; g_terminals := true |}.
Definition pinned_v : variant := {| g_rotate_csv := false; g_build := false; g_rotate_xrff := false; g_terminals := false |}.

Variable stoi : bytes -> conv.             (* std::stoi (XRFF "integer" attributes); CvOk carries the int *)

Definition convert (s : bytes) (d : domain) : res value :=
  match d with
  | DInt => match stoi s with CvOk z => Ok (VInt z) | CvInvalid => Exn E_invalid_argument | CvRange => Exn E_out_of_range end
  | DDouble => match stod s with CvOk b => Ok (VDouble b) | CvInvalid => Exn E_invalid_argument | CvRange => Exn E_out_of_range end
  | DString => Ok (VString s)
  | DVoid => Ok VVoid
  end.

Fixpoint class_find (m : classes_t) (label : bytes) : option Z :=
  match m with
  | [] => None
  | (l, i) :: r => if bytes_eqb l label then Some i else class_find r label
  end.

(* dataframe::encode *)
Definition encode (m : classes_t) (label : bytes) : Z * classes_t :=
  match class_find m label with
  | Some i => (i, m)
  | None => let n := Z.of_nat (length m) in (n, m ++ [(label, n)])
  end.

(* dataframe::class_name *)
Fixpoint class_name (m : classes_t) (i : Z) : bytes :=
  match m with
  | [] => []
  | (l, j) :: r => if j =? i then l else class_name r i
  end.

Fixpoint mem_bytes (x : bytes) (l : list bytes) : bool :=
  match l with [] => false | y :: r => bytes_eqb y x || mem_bytes x r end.
Definition states_insert (l : list bytes) (x : bytes) : list bytes := if mem_bytes x l then l else l ++ [x].

(* std::rotate(begin, begin + k, begin + k + 1): element k moves to the front *)
Definition rotate_front (s : site) (r : record) (k : nat) : res record :=
  x <- get s r k ;; Ok (x :: firstn k r ++ skipn (S k) r).

(* columns_info::build *)
Definition set_domain (v : variant) (r : record) (idx : nat) (cols : list column) : res (list column) :=
  cell <- get S_build_rec r idx ;;
  let value := trim cell in
  if is_nil value then Ok cols else
  let number := is_number value in
  let classification := Nat.eqb idx 0 && negb number in
  c <- get S_build_cols cols idx ;;
  match c_domain c with
  | DVoid => Ok (set_nth cols idx {| c_name := c_name c;
                                    c_domain := if number || classification then DDouble else DString;
                                    c_states := c_states c |})
  | _ => Ok cols
  end.

Definition build (v : variant) (cols : list column) (r : record) (header_first : bool) : res (list column) :=
  let go (cols : list column) :=
    if g_build v && negb (Nat.eqb (length cols) (length r)) then Ok cols   (* fix: width guard *)
    else for_ck (seq 0 (length r)) (set_domain v r) cols in
  if is_nil cols then
    if header_first then Ok (map (fun name => {| c_name := trim name; c_domain := DVoid; c_states := [] |}) r)
    else go (repeat default_column (length r))
  else go cols.

(* dataframe::to_example; state = (example under construction, columns, classes) *)
Definition toex_state := (example * list column * classes_t)%type.

Definition toex_step (v : record) (add_instance : bool) (i : nat) (st : toex_state) : res toex_state :=
  let '(ex, cols, cm) := st in
  c <- get S_toex_cols cols i ;;
  let dom := c_domain c in
  if domain_eqb dom DVoid then Ok st else
  cell <- get S_toex_rec v i ;;
  let feature := trim cell in
  st1 <- (if Nat.eqb i 0 then
            front <- get S_toex_front v 0 ;;
            if negb (is_number front) then
              let (id, cm') := encode cm feature in
              Ok ({| e_input := e_input ex; e_output := VInt id |}, cm')
            else
              o <- convert feature dom ;; Ok ({| e_input := e_input ex; e_output := o |}, cm)
          else
            x <- convert feature dom ;; Ok ({| e_input := e_input ex ++ [x]; e_output := e_output ex |}, cm)) ;;
  let '(ex1, cm1) := st1 in
  if add_instance && domain_eqb dom DString then
    Ok (ex1, set_nth cols i {| c_name := c_name c; c_domain := dom; c_states := states_insert (c_states c) feature |}, cm1)
  else Ok (ex1, cols, cm1).

Definition to_example (df : dataframe) (v : record) (add_instance : bool) : res (example * dataframe) :=
  st <- for_ck (seq 0 (length v)) (toex_step v add_instance)
               ({| e_input := []; e_output := VVoid |}, columns df, classes df) ;;
  let '(ex, cols, cm) := st in
  Ok (ex, {| columns := cols; classes := cm; dataset := dataset df |}).

(* dataframe::read_record *)
Definition read_record (df : dataframe) (r : record) (add_instance : bool) : res dataframe :=
  if negb (Nat.eqb (length r) (length (columns df))) then Ok df      (* malformed example skipped *)
  else
    p <- to_example df r add_instance ;;
    let (ex, df') := p in
    Ok {| columns := columns df'; classes := classes df'; dataset := dataset df' ++ [ex] |}.

(* dataframe::is_valid (label() = std::get<D_INT> may throw) *)
Fixpoint valid_examples (l : list example) (in_size : nat) (cl_size : Z) : res bool :=
  match l with
  | [] => Ok true
  | e :: r =>
    if negb (Nat.eqb (length (e_input e)) in_size) then Ok false
    else if negb (cl_size =? 0) then
      match e_output e with
      | VInt z => if (z <? 0) || (cl_size <=? z) then Ok false else valid_examples r in_size cl_size
      | _ => Exn E_bad_variant
      end
    else valid_examples r in_size cl_size
  end.

Definition columns_valid (cols : list column) : bool :=
  negb (existsb (fun c => domain_eqb (c_domain c) DVoid && negb (is_nil (c_states c))) cols).

Definition is_valid (df : dataframe) : res bool :=
  match dataset df with
  | [] => Ok true
  | _ =>
    let cl_size := Z.of_nat (length (classes df)) in
    if cl_size =? 1 then Ok false else
    front <- get S_valid_front (dataset df) 0 ;;
    ok <- valid_examples (dataset df) (length (e_input front)) cl_size ;;
    if ok then Ok (columns_valid (columns df)) else Ok false
  end.

Record params := { p_dialect : dialect; p_filter : filter_t; p_output_index : option nat }.

(* the loop of read_csv over the records the parser yields *)
Fixpoint ingest (v : variant) (oi : option nat) (hh : bool) (recs : list record) (count : nat)
         (df : dataframe) : res dataframe :=
  match recs with
  | [] => Ok df
  | rcd :: rest =>
    let continue_with (rcd' : record) :=
      cols <- (if Nat.ltb count 10 then build v (columns df) rcd' hh else Ok (columns df)) ;;
      let df1 := {| columns := cols; classes := classes df; dataset := dataset df |} in
      df2 <- (if negb hh || negb (Nat.eqb count 0) then read_record df1 rcd' true else Ok df1) ;;
      ingest v oi hh rest (S count) df2 in
    match oi with
    | Some k =>
      if g_rotate_csv v && Nat.leb (length rcd) k then ingest v oi hh rest count df   (* fix: skipped *)
      else if Nat.ltb 0 k then rcd' <- rotate_front S_rotate_csv rcd k ;; continue_with rcd'
      else continue_with rcd
    | None => continue_with ([] :: rcd)                       (* surrogate output column *)
    end
  end.

Definition finish_csv (df : dataframe) : res dataframe :=
  ok <- is_valid df ;;
  if negb ok || is_nil (dataset df) then Exn E_insufficient_data else Ok df.

(* dataframe::read_csv(std::istream &, params) on a freshly constructed frame *)
Definition read_csv (v : variant) (text : bytes) (p : params) : res dataframe :=
  let d0 := p_dialect p in
  d <- (match has_header d0, delimiter d0 =? 0 with
        | GUESS_HEADER, _ | _, true =>
          sn <- sniffer text ;;
          Ok {| delimiter := if delimiter d0 =? 0 then delimiter sn else delimiter d0;
                trim_ws := trim_ws d0;
                has_header := match has_header d0 with GUESS_HEADER => has_header sn | h => h end;
                quoting := quoting d0 |}
        | _, _ => Ok d0
        end) ;;
  let hh := match has_header d with HAS_HEADER => true | _ => false end in
  df <- ingest v (p_output_index p) hh (records d (p_filter p) text) O empty_df ;;
  finish_csv df.

(* ------------------------------------------------------------ XRFF (the DOM is an oracle) *)
Record xattr := { xa_name : bytes; xa_class_yes : bool; xa_type : bytes; xa_labels : list bytes }.
Record xdom := { x_attributes : option (list xattr); x_instances : option (list record) }.

Definition s_nominal := [110; 111; 109; 105; 110; 97; 108].   (* "nominal" *)
Definition s_string := [115; 116; 114; 105; 110; 103].   (* "string" *)
Definition s_numeric := [110; 117; 109; 101; 114; 105; 99].   (* "numeric" *)
Definition s_real := [114; 101; 97; 108].   (* "real" *)
Definition s_integer := [105; 110; 116; 101; 103; 101; 114].   (* "integer" *)

Definition from_weka (n : bytes) : domain :=
  if bytes_eqb n s_integer then DInt
  else if bytes_eqb n s_numeric || bytes_eqb n s_real then DDouble
  else if bytes_eqb n s_nominal || bytes_eqb n s_string then DString
  else DVoid.

(* state of the attribute loop: n_output, output_index, index, columns *)
Fixpoint xrff_attrs (l : list xattr) (n_output output_index index : nat) (cols : list column)
  : res (nat * nat * nat * list column) :=
  match l with
  | [] => Ok (n_output, output_index, index, cols)
  | a :: r =>
    let output := xa_class_yes a in
    let n_output' := if output then S n_output else n_output in
    let output_index' := if output then index else output_index in
    if output && Nat.ltb 1 n_output' then Exn E_data_format else
    let xml_type := if output && (bytes_eqb (xa_type a) s_nominal || bytes_eqb (xa_type a) s_string)
                    then s_numeric else xa_type a in
    let c := {| c_name := xa_name a; c_domain := from_weka xml_type;
                c_states := if bytes_eqb xml_type s_nominal
                            then fold_left states_insert (xa_labels a) [] else [] |} in
    xrff_attrs r n_output' output_index' (S index) (if output then c :: cols else cols ++ [c])
  end.

Fixpoint xrff_instances (v : variant) (flt : filter_t) (output_index : nat) (l : list record)
         (df : dataframe) : res dataframe :=
  match l with
  | [] => Ok df
  | rcd0 :: rest =>
    match flt rcd0 with
    | None => xrff_instances v flt output_index rest df
    | Some rcd =>
      if g_rotate_xrff v && Nat.leb (length rcd) output_index then xrff_instances v flt output_index rest df
      else
        rcd' <- rotate_front S_rotate_xrff rcd output_index ;;
        df' <- read_record df rcd' false ;;
        xrff_instances v flt output_index rest df'
    end
  end.

(* dataframe::read_xrff(XMLDocument &, params): returns the frame and the
   returned count (0 when !is_valid()) *)
Definition read_xrff (v : variant) (dom : xdom) (flt : filter_t) : res (dataframe * nat) :=
  match x_attributes dom with
  | None => Exn E_data_format
  | Some attrs =>
    st <- xrff_attrs attrs O O O [] ;;
    let '(n_output, output_index, index, cols) := st in
    if is_nil cols then Exn E_data_format else
    let cols' := if Nat.eqb n_output 0 then last cols default_column :: removelast cols else cols in
    let output_index' := if Nat.eqb n_output 0 then Nat.pred index else output_index in
    match x_instances dom with
    | None => Exn E_data_format
    | Some insts =>
      df <- xrff_instances v flt output_index' insts {| columns := cols'; classes := []; dataset := [] |} ;;
      ok <- is_valid df ;;
      Ok (df, if ok then length (dataset df) else O)
    end
  end.

(* ------------------------------------------------------------ terminals *)
Definition undefined_category : Z := -1.

Fixpoint find_domain (l : list (Z * domain)) (d : domain) : option Z :=
  match l with
  | [] => None
  | (cat, d') :: r => if domain_eqb d' d then Some cat else find_domain r d
  end.

(* category_set::category_set(columns, typing) *)
Fixpoint category_set (cols : list column) (strong : bool) (categories : Z) (acc : list (Z * domain))
  : list (Z * domain) :=
  match cols with
  | [] => acc
  | c :: r =>
    let d := c_domain c in
    if domain_eqb d DVoid then category_set r strong categories (acc ++ [(undefined_category, d)])
    else if strong || domain_eqb d DString then category_set r strong (categories + 1) (acc ++ [(categories, d)])
    else match find_domain acc d with
         | Some id => category_set r strong categories (acc ++ [(id, d)])
         | None => category_set r strong (categories + 1) (acc ++ [(categories, d)])
         end
  end.

(* std::to_string of an index *)
Fixpoint dec_digits (fuel : nat) (n : Z) (acc : bytes) : bytes :=
  match fuel with
  | O => acc
  | S f => let acc' := (48 + n mod 10) :: acc in if n / 10 =? 0 then acc' else dec_digits f (n / 10) acc'
  end.
Definition to_string (n : nat) : bytes := dec_digits (S n) (Z.of_nat n) [].

Record var_info := { v_name : bytes; v_id : nat; v_category : Z }.

(* src_problem::setup_terminals: state = (next variable id, variables) *)
Definition term_step (v : variant) (cols : list column) (cats : list (Z * domain)) (i : nat)
           (st : nat * list var_info) : res (nat * list var_info) :=
  let '(next, vars) := st in
  match nth_error cols i with
  | None => OOB S_term_cat
  | Some c =>
    if g_terminals v && domain_eqb (c_domain c) DVoid then Ok st       (* fix: no input for void columns *)
    else
      let name := if is_nil (c_name c) then 88 :: to_string i else c_name c in
      cat <- get S_term_cat cats i ;;
      let id := if g_terminals v then next else Nat.pred i in
      Ok (S next, vars ++ [{| v_name := name; v_id := id; v_category := fst cat |}])
  end.

Definition setup_terminals (v : variant) (cols : list column) (strong : bool) : res (list var_info) :=
  if Nat.ltb (length cols) 2 then Exn E_insufficient_data else
  st <- for_ck (seq 1 (length cols - 1)) (term_step v cols (category_set cols strong 0 [])) (O, []) ;;
  Ok (snd st).

(* src_interpreter::fetch_var / variable::eval *)
Definition run_variable (vi : var_info) (ex : example) : res value := get S_fetch_var (e_input ex) (v_id vi).

End Oracles.

(* ------------------------------------------------------------ the RFC-4180 writer used by the theorems *)
Definition needs_quote (d : Z) (f : bytes) : bool :=
  existsb (fun c => (c =? d) || (c =? 34)) f
  || match f with [] => false | c :: _ => isspace c end
  || match rev f with [] => false | c :: _ => isspace c end.

Fixpoint escape_quotes (f : bytes) : bytes :=
  match f with [] => [] | c :: r => if c =? 34 then 34 :: 34 :: escape_quotes r else c :: escape_quotes r end.

Definition render_field (d : Z) (f : bytes) : bytes :=
  if needs_quote d f then 34 :: escape_quotes f ++ [34] else f.

Fixpoint render_line (d : Z) (fields : record) : bytes :=
  match fields with
  | [] => []
  | [f] => render_field d f
  | f :: r => render_field d f ++ d :: render_line d r
  end.

(* a table is rendered one line per row, each terminated by LF *)
Definition render_table (d : Z) (rows : list record) : bytes :=
  flat_map (fun r => render_line d r ++ [10]) rows.
