(* C09: END-TO-END.  From the bytes of a typed rectangular table to the list of
   examples: read_csv returns [Ok df] (the final [is_valid] check of
   [finish_csv] passes), one example per data row.

   TopProofs stops at [read_csv ... = finish_csv df]; here the gap is closed:
     (1) an invariant of [ingest] over ALL inputs: a column whose domain is
         DVoid has no states (so [columns_valid] holds of every frame the loop
         produces);
     (2) [is_valid] of the frame described by [spec_rows]: uniform input
         width, class ids within the class map, at least two classes for a
         classification table ([class_ok]);
     (3) the composition with the text-level lemmas. *)
From Coq Require Import ZArith List Bool Lia ZifyBool Arith.
From VV Require Import Csv.CsvDefs Csv.CsvProofs Csv.IngestProofs Csv.TableProofs Csv.TextProofs Csv.TopProofs.
Import ListNotations.
Local Open Scope Z_scope.
Local Open Scope bool_scope.

(* ------------------------------------------------------------ partial-correctness triples on [res] *)
Definition post {A} (r : res A) (Q : A -> Prop) : Prop := forall a, r = Ok a -> Q a.

Lemma post_Ok : forall A (a : A) (Q : A -> Prop), Q a -> post (Ok a) Q.
Proof. intros A a Q H a' E. inversion E; subst. assumption. Qed.

Lemma post_Exn : forall A e (Q : A -> Prop), post (@Exn A e) Q.
Proof. intros A e Q a E. discriminate. Qed.

Lemma post_OOB : forall A s (Q : A -> Prop), post (@OOB A s) Q.
Proof. intros A s Q a E. discriminate. Qed.

Lemma post_bind : forall A B (r : res A) (f : A -> res B) (P : A -> Prop) (Q : B -> Prop),
  post r P -> (forall a, P a -> post (f a) Q) -> post (bind r f) Q.
Proof.
  intros A B r f P Q Hr Hf. destruct r as [a|e|s]; cbn [bind].
  - apply Hf. apply Hr. reflexivity.
  - apply post_Exn.
  - apply post_OOB.
Qed.

Lemma post_for_ck : forall S (Inv : S -> Prop) (body : nat -> S -> res S) idxs s,
  Inv s -> (forall i s, Inv s -> post (body i s) Inv) -> post (for_ck idxs body s) Inv.
Proof.
  intros S Inv body. induction idxs as [|i r IH]; intros s HI Hb; cbn [for_ck].
  - apply post_Ok. assumption.
  - eapply post_bind; [apply Hb; assumption|]. intros s1 H1. apply IH; assumption.
Qed.

(* ------------------------------------------------------------ (1) void columns have no states *)
Definition void_states_inv (cols : list column) : Prop :=
  forall c, In c cols -> c_domain c = DVoid -> c_states c = [].

Lemma in_set_nth : forall {A} (l : list A) i x y, In y (set_nth l i x) -> y = x \/ In y l.
Proof.
  induction l as [|z l IH]; intros i x y H; [destruct i; destruct H|].
  destruct i as [|i]; cbn [set_nth] in H; destruct H as [H|H].
  - left. congruence.
  - right. right. assumption.
  - right. left. assumption.
  - destruct (IH _ _ _ H) as [H1|H1]; [left|right; right]; assumption.
Qed.

Lemma vsi_set_nth : forall cols i x, void_states_inv cols ->
  (c_domain x = DVoid -> c_states x = []) -> void_states_inv (set_nth cols i x).
Proof.
  intros cols i x Hc Hx c Hin. destruct (in_set_nth _ _ _ _ Hin) as [->|H]; [assumption|apply Hc; assumption].
Qed.

Lemma vsi_nil : void_states_inv [].
Proof. intros c []. Qed.

Section Inv.
Variable is_number : bytes -> bool.
Variable stod : bytes -> conv.
Variable stoi : bytes -> conv.

Lemma set_domain_vsi : forall v r idx cols, void_states_inv cols ->
  post (set_domain is_number v r idx cols) void_states_inv.
Proof.
  intros v r idx cols Hc. unfold set_domain.
  eapply post_bind with (P := fun _ => True); [intros ? ?; exact I|]. intros cell _.
  destruct (is_nil (trim cell)); [apply post_Ok; assumption|].
  eapply post_bind with (P := fun _ => True); [intros ? ?; exact I|]. intros c _.
  destruct (c_domain c); try (apply post_Ok; assumption).
  apply post_Ok. apply vsi_set_nth; [assumption|]. cbn [c_domain c_states].
  destruct (is_number (trim cell) || Nat.eqb idx 0 && negb (is_number (trim cell))); discriminate.
Qed.

Lemma build_vsi : forall v cols r hf, void_states_inv cols ->
  post (build is_number v cols r hf) void_states_inv.
Proof.
  intros v cols r hf Hc. unfold build.
  assert (Hgo : forall cs, void_states_inv cs ->
            post (if g_build v && negb (Nat.eqb (length cs) (length r)) then Ok cs
                  else for_ck (seq 0 (length r)) (set_domain is_number v r) cs) void_states_inv).
  { intros cs Hcs. destruct (g_build v && negb (Nat.eqb (length cs) (length r))).
    - apply post_Ok. assumption.
    - apply post_for_ck; [assumption|]. intros i s Hs. apply set_domain_vsi. assumption. }
  destruct (is_nil cols); [|apply Hgo; assumption].
  destruct hf.
  - apply post_Ok. intros c Hin _. apply in_map_iff in Hin. destruct Hin as (nm & <- & _). reflexivity.
  - apply Hgo. intros c Hin _. apply repeat_spec in Hin. subst c. reflexivity.
Qed.

Lemma toex_step_vsi : forall v add i (st : toex_state), void_states_inv (snd (fst st)) ->
  post (toex_step is_number stod stoi v add i st) (fun st' : toex_state => void_states_inv (snd (fst st'))).
Proof.
  intros v add i [[ex cols] cm] Hc. cbn [fst snd] in Hc. unfold toex_step.
  eapply post_bind with (P := fun _ => True); [intros ? ?; exact I|]. intros c _.
  destruct (domain_eqb (c_domain c) DVoid) eqn:Ev; [apply post_Ok; assumption|].
  eapply post_bind with (P := fun _ => True); [intros ? ?; exact I|]. intros cell _.
  eapply post_bind with (P := fun _ => True); [intros ? ?; exact I|]. intros [ex1 cm1] _.
  destruct (add && domain_eqb (c_domain c) DString) eqn:Es; [|apply post_Ok; assumption].
  apply post_Ok. cbn [fst snd]. apply vsi_set_nth; [assumption|]. cbn [c_domain c_states].
  intro Hd. rewrite Hd in Ev. discriminate.
Qed.

Lemma to_example_vsi : forall df v add, void_states_inv (columns df) ->
  post (to_example is_number stod stoi df v add) (fun p => void_states_inv (columns (snd p))).
Proof.
  intros df v add Hc. unfold to_example.
  eapply post_bind with (P := fun st' : toex_state => void_states_inv (snd (fst st'))).
  - apply post_for_ck; [assumption|]. intros i s Hs. apply toex_step_vsi. assumption.
  - intros [[ex cols] cm] Hst. apply post_Ok. exact Hst.
Qed.

Lemma read_record_vsi : forall df r add, void_states_inv (columns df) ->
  post (read_record is_number stod stoi df r add) (fun df' => void_states_inv (columns df')).
Proof.
  intros df r add Hc. unfold read_record.
  destruct (negb (Nat.eqb (length r) (length (columns df)))); [apply post_Ok; assumption|].
  eapply post_bind; [apply to_example_vsi; assumption|].
  intros [ex df'] H. apply post_Ok. exact H.
Qed.

(* the invariant of the read_csv loop, for every variant, header mode, output index and input *)
Lemma ingest_vsi : forall v oi hh recs count df, void_states_inv (columns df) ->
  post (ingest is_number stod stoi v oi hh recs count df) (fun df' => void_states_inv (columns df')).
Proof.
  intros v oi hh. induction recs as [|rcd rest IH]; intros count df Hc.
  - cbn [ingest]. apply post_Ok. assumption.
  - assert (Hk : forall rcd', post
      (cols <- (if Nat.ltb count 10 then build is_number v (columns df) rcd' hh else Ok (columns df)) ;;
       df2 <- (if negb hh || negb (Nat.eqb count 0)
               then read_record is_number stod stoi {| columns := cols; classes := classes df; dataset := dataset df |} rcd' true
               else Ok {| columns := cols; classes := classes df; dataset := dataset df |}) ;;
       ingest is_number stod stoi v oi hh rest (S count) df2)
      (fun df' => void_states_inv (columns df'))).
    { intro rcd'. eapply post_bind with (P := void_states_inv).
      - destruct (Nat.ltb count 10); [apply build_vsi; assumption|apply post_Ok; assumption].
      - intros cols Hcols. eapply post_bind with (P := fun d => void_states_inv (columns d)).
        + destruct (negb hh || negb (Nat.eqb count 0)); [apply read_record_vsi|apply post_Ok]; exact Hcols.
        + intros df2 H2. apply IH. assumption. }
    cbn [ingest]. destruct oi as [k|]; [|apply Hk].
    destruct (g_rotate_csv v && Nat.leb (length rcd) k); [apply IH; assumption|].
    destruct (Nat.ltb 0 k); [|apply Hk].
    eapply post_bind with (P := fun _ => True); [intros ? ?; exact I|]. intros rcd' _. apply Hk.
Qed.

Lemma ingest_void_states_lemma : forall v oi hh recs df,
  ingest is_number stod stoi v oi hh recs O empty_df = Ok df -> void_states_inv (columns df).
Proof. intros v oi hh recs df H. exact (ingest_vsi v oi hh recs O empty_df vsi_nil df H). Qed.
End Inv.

Lemma vsi_columns_valid : forall cols, void_states_inv cols -> columns_valid cols = true.
Proof.
  intros cols H. unfold columns_valid. apply negb_true_iff.
  destruct (existsb _ cols) eqn:E; [|reflexivity].
  apply existsb_exists in E. destruct E as (c & Hin & Hc). apply andb_true_iff in Hc. destruct Hc as [Hd Hs].
  assert (c_domain c = DVoid) by (destruct (c_domain c); try discriminate; reflexivity).
  rewrite (H c Hin) in Hs by assumption. discriminate.
Qed.

(* ------------------------------------------------------------ (2) the frame described by [spec_rows] is valid *)
Lemma valid_examples_true : forall l w cl,
  (forall e, In e l -> length (e_input e) = w) ->
  (cl = 0 \/ forall e, In e l -> exists z, e_output e = VInt z /\ 0 <= z < cl) ->
  valid_examples l w cl = Ok true.
Proof.
  induction l as [|e l IH]; intros w cl Hw Hcl; [reflexivity|].
  cbn [valid_examples]. rewrite (Hw e) by (left; reflexivity). rewrite Nat.eqb_refl. cbn [negb].
  assert (Hrec : valid_examples l w cl = Ok true).
  { apply IH; [intros e' He'; apply Hw; right; assumption|].
    destruct Hcl as [Hcl|Hcl]; [left; assumption|right; intros e' He'; apply Hcl; right; assumption]. }
  destruct Hcl as [Hcl|Hcl].
  - subst cl. cbn [Z.eqb negb]. assumption.
  - destruct (negb (cl =? 0)); [|assumption].
    destruct (Hcl e (or_introl eq_refl)) as (z & Hz & Hr). rewrite Hz.
    replace ((z <? 0) || (cl <=? z)) with false by lia. assumption.
Qed.

(* ids handed out by [encode] are positions in the resulting map; the map only grows *)
Lemma class_find_lt : forall m l i, wf_classes m -> class_find m l = Some i -> 0 <= i < Z.of_nat (length m).
Proof.
  intros m l i [_ Hid] H. apply class_find_some in H. apply In_nth_error in H. destruct H as [k Hk].
  pose proof (Hid _ _ _ Hk). assert (k < length m)%nat by (apply nth_error_Some; congruence). lia.
Qed.

Lemma encode_id_lt : forall m l, wf_classes m ->
  0 <= fst (encode m l) < Z.of_nat (length (snd (encode m l))).
Proof.
  intros m l Hwf. unfold encode. destruct (class_find m l) eqn:F; cbn [fst snd].
  - eapply class_find_lt; eassumption.
  - rewrite app_length. cbn [length]. lia.
Qed.

Lemma encode_grows : forall m l, exists ext, snd (encode m l) = m ++ ext.
Proof.
  intros m l. unfold encode. destruct (class_find m l); cbn [snd]; [exists []; rewrite app_nil_r|eexists]; reflexivity.
Qed.

Lemma encode_label_in : forall m l, In l (map fst (snd (encode m l))).
Proof.
  intros m l. unfold encode. destruct (class_find m l) eqn:F; cbn [snd].
  - apply class_find_some in F. apply (in_map fst) in F. exact F.
  - rewrite map_app. apply in_or_app. right. left. reflexivity.
Qed.

Lemma kind_eq_text : forall k, k = KText \/ k <> KText.
Proof. intros []; [right; discriminate|right; discriminate|left; reflexivity]. Qed.

Section Valid.
Variable stod : bytes -> conv.
Variable n : nat.
Variable kinds : nat -> kind.

Notation spec := (spec_rows stod n kinds).
Notation outv := (output_value stod kinds).
Notation inv := (input_values stod n kinds).

(* the number of inputs depends on the kinds only, not on the row *)
Lemma contrib_length : forall a b j, length (contrib stod kinds a j) = length (contrib stod kinds b j).
Proof. intros a b j. unfold contrib. destruct (kinds j); reflexivity. Qed.

Lemma input_values_length : forall a b, length (inv a) = length (inv b).
Proof.
  intros a b. rewrite !input_values_eq. induction (seq 1 (n - 1)) as [|j l IH]; [reflexivity|].
  cbn [flat_map]. rewrite !app_length, IH, (contrib_length a b). reflexivity.
Qed.

Lemma spec_rows_length : forall rows cm, length (fst (spec cm rows)) = length rows.
Proof.
  induction rows as [|a r IH]; intro cm; [reflexivity|].
  rewrite spec_rows_cons. cbn [fst length]. rewrite IH. reflexivity.
Qed.

Lemma spec_rows_inputs : forall rows cm e, In e (fst (spec cm rows)) -> exists a, In a rows /\ e_input e = inv a.
Proof.
  induction rows as [|a r IH]; intros cm e H; [destruct H|].
  rewrite spec_rows_cons in H. cbn [fst] in H. destruct H as [H|H].
  - exists a. split; [left; reflexivity|]. subst e. reflexivity.
  - destruct (IH _ _ H) as (a' & Ha' & He). exists a'. split; [right; assumption|assumption].
Qed.

Lemma output_value_wf : forall cm a, wf_classes cm -> wf_classes (snd (outv cm a)).
Proof.
  intros cm a Hwf. unfold output_value. destruct (kinds O); try assumption.
  match goal with |- context [encode cm ?l] =>
    pose proof (encode_wf cm l Hwf) as H; destruct (encode cm l) end. exact H.
Qed.

Lemma output_value_grows : forall cm a, exists ext, snd (outv cm a) = cm ++ ext.
Proof.
  intros cm a. unfold output_value.
  destruct (kinds O); try (exists []; rewrite app_nil_r; reflexivity).
  match goal with |- context [encode cm ?l] =>
    pose proof (encode_grows cm l) as H; destruct (encode cm l) end. exact H.
Qed.

Lemma spec_rows_wf : forall rows cm, wf_classes cm -> wf_classes (snd (spec cm rows)).
Proof.
  induction rows as [|a r IH]; intros cm Hwf; [assumption|].
  rewrite spec_rows_cons. cbn [snd]. apply IH. apply output_value_wf. assumption.
Qed.

Lemma spec_rows_grows : forall rows cm, exists ext, snd (spec cm rows) = cm ++ ext.
Proof.
  induction rows as [|a r IH]; intro cm; [exists []; rewrite app_nil_r; reflexivity|].
  rewrite spec_rows_cons. cbn [snd].
  destruct (output_value_grows cm a) as [e1 H1]. destruct (IH (snd (outv cm a))) as [e2 H2].
  exists (e1 ++ e2). rewrite H2, H1, app_assoc. reflexivity.
Qed.

(* regression / no output: the class map is never touched *)
Lemma spec_rows_no_classes : forall rows cm, kinds O <> KText -> snd (spec cm rows) = cm.
Proof.
  induction rows as [|a r IH]; intros cm Hk; [reflexivity|].
  rewrite spec_rows_cons. cbn [snd]. rewrite IH by assumption.
  unfold output_value. destruct (kinds O); try reflexivity. congruence.
Qed.

(* classification: every output is a class id within the FINAL map *)
Lemma spec_rows_outputs : forall rows cm e, kinds O = KText -> wf_classes cm -> In e (fst (spec cm rows)) ->
  exists z, e_output e = VInt z /\ 0 <= z < Z.of_nat (length (snd (spec cm rows))).
Proof.
  induction rows as [|a r IH]; intros cm e Hk Hwf H; [destruct H|].
  rewrite spec_rows_cons in H |- *. cbn [fst snd] in H |- *. destruct H as [H|H].
  - subst e. unfold example_of. cbn [e_output].
    destruct (spec_rows_grows r (snd (outv cm a))) as [ext Hext]. rewrite Hext, app_length.
    unfold output_value. rewrite Hk.
    match goal with |- context [encode cm ?l] =>
      pose proof (encode_id_lt cm l Hwf) as Hlt; destruct (encode cm l) as [id cm'] end. cbn [fst snd] in *.
    exists id. split; [reflexivity|lia].
  - apply IH; [assumption|apply output_value_wf; assumption|assumption].
Qed.

(* classification: every label met is a key of the final map *)
Lemma spec_rows_labels : forall rows cm a, kinds O = KText -> In a rows ->
  In (trim (nth O a [])) (map fst (snd (spec cm rows))).
Proof.
  induction rows as [|a0 r IH]; intros cm a Hk H; [destruct H|].
  rewrite spec_rows_cons. cbn [snd]. destruct H as [H|H].
  - subst a0. destruct (spec_rows_grows r (snd (outv cm a))) as [ext Hext]. rewrite Hext, map_app.
    apply in_or_app. left. unfold output_value. rewrite Hk.
    match goal with |- context [encode cm ?l] =>
      pose proof (encode_label_in cm l) as Hin; destruct (encode cm l) end. exact Hin.
  - apply IH; assumption.
Qed.

Lemma two_keys_length : forall (m : classes_t) l1 l2, l1 <> l2 -> In l1 (map fst m) -> In l2 (map fst m) ->
  (2 <= length m)%nat.
Proof.
  intros [|x [|y m]] l1 l2 Hne H1 H2; cbn in *; try lia; try tauto.
  destruct H1 as [H1|[]]. destruct H2 as [H2|[]]. congruence.
Qed.

(* a classification table needs two rows with different labels *)
Definition class_ok (rows : list record) : Prop :=
  kinds O = KText -> exists a b, In a rows /\ In b rows /\ trim (nth O a []) <> trim (nth O b []).

Lemma spec_frame_valid : forall rows df, rows <> [] -> class_ok rows ->
  dataset df = fst (spec [] rows) -> classes df = snd (spec [] rows) ->
  void_states_inv (columns df) -> is_valid df = Ok true.
Proof.
  intros rows df Hne Hcl Hds Hcm Hvs.
  destruct rows as [|a0 rows0] eqn:Erows; [congruence|]. rewrite <- Erows in *. clear Hne.
  assert (Hw : forall e, In e (dataset df) -> length (e_input e) = length (inv a0)).
  { intros e He. rewrite Hds in He. destruct (spec_rows_inputs _ _ _ He) as (a & _ & ->). apply input_values_length. }
  unfold is_valid. destruct (dataset df) as [|front ds] eqn:Ed.
  { exfalso. apply (f_equal (@length example)) in Hds. rewrite spec_rows_length, Erows in Hds. discriminate. }
  cbv zeta. cbn [get nth_error bind].
  destruct (kind_eq_text (kinds O)) as [Hk|Hk].
  - (* classification *)
    destruct (Hcl Hk) as (a & b & Ha & Hb & Hab).
    pose proof (two_keys_length (snd (spec [] rows)) _ _ Hab
                  (spec_rows_labels rows [] a Hk Ha) (spec_rows_labels rows [] b Hk Hb)) as H2.
    rewrite Hcm. replace (Z.of_nat (length (snd (spec [] rows))) =? 1) with false by lia.
    rewrite valid_examples_true.
    + cbn [bind]. rewrite vsi_columns_valid by assumption. reflexivity.
    + intros e He. rewrite (Hw e He). symmetry. apply Hw. left. reflexivity.
    + right. intros e He. rewrite Hds in He. apply spec_rows_outputs; [assumption|apply wf_classes_nil|assumption].
  - (* regression, or no output column *)
    rewrite Hcm, spec_rows_no_classes by assumption. cbn [length Z.of_nat Z.eqb].
    rewrite valid_examples_true.
    + cbn [bind]. rewrite vsi_columns_valid by assumption. reflexivity.
    + intros e He. rewrite (Hw e He). symmetry. apply Hw. left. reflexivity.
    + left. reflexivity.
Qed.

Lemma spec_frame_finish : forall rows df, rows <> [] -> class_ok rows ->
  dataset df = fst (spec [] rows) -> classes df = snd (spec [] rows) ->
  void_states_inv (columns df) -> finish_csv df = Ok df.
Proof.
  intros rows df Hne Hcl Hds Hcm Hvs. unfold finish_csv.
  rewrite (spec_frame_valid rows df Hne Hcl Hds Hcm Hvs). cbn [bind negb orb].
  destruct (dataset df) eqn:Ed; [|reflexivity].
  exfalso. apply (f_equal (@length example)) in Hds. rewrite spec_rows_length in Hds.
  destruct rows; [congruence|discriminate].
Qed.
End Valid.

(* ------------------------------------------------------------ (3) from the bytes of the table to the examples *)
(* a frame produced by the loop, whose examples and classes are those of [spec_rows], passes the final check *)
Lemma finish_of_ingest : forall is_number stod stoi n kinds v oi hh recs df rows,
  ingest is_number stod stoi v oi hh recs O empty_df = Ok df ->
  rows <> [] -> class_ok kinds rows ->
  dataset df = fst (spec_rows stod n kinds [] rows) -> classes df = snd (spec_rows stod n kinds [] rows) ->
  finish_csv df = Ok df /\ length (dataset df) = length rows.
Proof.
  intros is_number stod stoi n kinds v oi hh recs df rows Hing Hne Hcl Hds Hcm. split.
  - apply (spec_frame_finish stod n kinds rows df Hne Hcl Hds Hcm).
    apply (ingest_void_states_lemma is_number stod stoi v oi hh recs df Hing).
  - rewrite Hds. apply spec_rows_length.
Qed.

(* the class hypothesis, stated on the rows of the table: a classification table
   (text output column) has two data rows whose trimmed output cells differ *)
Definition two_classes (kinds : nat -> kind) (dl : dialect) (oi : option nat) (datarows : list record) : Prop :=
  kinds O = KText ->
  exists ra rb, In ra datarows /\ In rb datarows /\
    trim (nth O (arrange oi (map (field_out dl) ra)) []) <> trim (nth O (arrange oi (map (field_out dl) rb)) []).

Lemma two_classes_class_ok : forall kinds dl oi datarows, two_classes kinds dl oi datarows ->
  class_ok kinds (map (arrange oi) (parsed dl datarows)).
Proof.
  intros kinds dl oi datarows H Hk. destruct (H Hk) as (ra & rb & Ha & Hb & Hab).
  exists (arrange oi (map (field_out dl) ra)), (arrange oi (map (field_out dl) rb)).
  unfold parsed. rewrite map_map.
  split; [apply (in_map (fun r => arrange oi (map (field_out dl) r))); assumption|].
  split; [apply (in_map (fun r => arrange oi (map (field_out dl) r))); assumption|assumption].
Qed.

(* tables with a header row *)
Theorem read_csv_end_to_end_header_lemma :
  forall is_number stod stoi n, (1 <= n)%nat -> forall kinds dl oi h r1 rest,
  explicit_dialect dl true ->
  Forall (renderable (delimiter dl)) (h :: r1 :: rest) ->
  length (arrange oi (map (field_out dl) h)) = n ->
  row_ok is_number stod n kinds true (arrange oi (map (field_out dl) r1)) ->
  Forall (fun r => row_ok is_number stod n kinds false (arrange oi r)) (parsed dl rest) ->
  (forall k, oi = Some k -> Forall (fun r => (k < length r)%nat) (h :: r1 :: rest)) ->
  two_classes kinds dl oi (r1 :: rest) ->
  exists df,
    read_csv is_number stod stoi fixed_v (render_table (delimiter dl) (h :: r1 :: rest))
             {| p_dialect := dl; p_filter := no_filter; p_output_index := oi |} = Ok df
    /\ dataset df = fst (spec_rows stod n kinds [] (map (arrange oi) (parsed dl (r1 :: rest))))
    /\ classes df = snd (spec_rows stod n kinds [] (map (arrange oi) (parsed dl (r1 :: rest))))
    /\ length (dataset df) = length (r1 :: rest)
    /\ length (columns df) = n
    /\ (forall j c, nth_error (columns df) j = Some c ->
          c_domain c = dom_of j (kinds j) /\ c_name c = trim (nth j (arrange oi (map (field_out dl) h)) [])).
Proof.
  intros is_number stod stoi n Hn kinds dl oi h r1 rest Hex Hren Hlen Hr1 Hrest Hoi Hcls.
  pose proof Hex as (Hq & Hd & Hh).
  destruct (header_names is_number stod stoi n Hn kinds oi (map (field_out dl) h) (map (field_out dl) r1) (parsed dl rest)
              Hlen Hr1 Hrest) as (df & Hing & Hds & Hcl & Hcols & Hnames).
  - intros k Hk. specialize (Hoi k Hk).
    change (map (field_out dl) h :: map (field_out dl) r1 :: parsed dl rest) with (parsed dl (h :: r1 :: rest)).
    unfold parsed. apply Forall_map. eapply Forall_impl; [|exact Hoi]. intros r Hr. cbn. rewrite map_length. exact Hr.
  - change (map (field_out dl) r1 :: parsed dl rest) with (parsed dl (r1 :: rest)) in Hds, Hcl.
    destruct (finish_of_ingest is_number stod stoi n kinds fixed_v oi true _ df
                (map (arrange oi) (parsed dl (r1 :: rest))) Hing) as [Hfin Hlen'].
    + discriminate.
    + apply two_classes_class_ok. assumption.
    + exact Hds.
    + exact Hcl.
    + exists df. split; [|split; [exact Hds|split; [exact Hcl|split; [|split; assumption]]]].
      * rewrite (read_csv_explicit _ _ _ _ _ dl no_filter oi true Hex).
        rewrite records_render_table_lemma by assumption.
        unfold no_filter at 1. rewrite filter_map_some_id.
        change (map (map (field_out dl)) (h :: r1 :: rest)) with (map (field_out dl) h :: map (field_out dl) r1 :: parsed dl rest).
        match goal with |- bind ?x _ = _ => replace x with (@Ok dataframe df) by (symmetry; exact Hing) end.
        cbn [bind]. exact Hfin.
      * rewrite Hlen'. unfold parsed. rewrite !map_length. reflexivity.
Qed.

(* tables without a header row *)
Theorem read_csv_end_to_end_lemma :
  forall is_number stod stoi n, (1 <= n)%nat -> forall kinds dl oi r1 rest,
  explicit_dialect dl false ->
  Forall (renderable (delimiter dl)) (r1 :: rest) ->
  row_ok is_number stod n kinds true (arrange oi (map (field_out dl) r1)) ->
  Forall (fun r => row_ok is_number stod n kinds false (arrange oi r)) (parsed dl rest) ->
  (forall k, oi = Some k -> Forall (fun r => (k < length r)%nat) (r1 :: rest)) ->
  two_classes kinds dl oi (r1 :: rest) ->
  exists df,
    read_csv is_number stod stoi fixed_v (render_table (delimiter dl) (r1 :: rest))
             {| p_dialect := dl; p_filter := no_filter; p_output_index := oi |} = Ok df
    /\ dataset df = fst (spec_rows stod n kinds [] (map (arrange oi) (parsed dl (r1 :: rest))))
    /\ classes df = snd (spec_rows stod n kinds [] (map (arrange oi) (parsed dl (r1 :: rest))))
    /\ length (dataset df) = length (r1 :: rest)
    /\ length (columns df) = n
    /\ (forall j c, nth_error (columns df) j = Some c -> c_domain c = dom_of j (kinds j) /\ c_name c = []).
Proof.
  intros is_number stod stoi n Hn kinds dl oi r1 rest Hex Hren Hr1 Hrest Hoi Hcls.
  pose proof Hex as (Hq & Hd & Hh).
  destruct (one_example_per_row_in_order_lemma is_number stod stoi n Hn kinds oi (map (field_out dl) r1) (parsed dl rest)
              Hr1 Hrest) as (df & Hing & Hds & Hcl & Hcols & Hnames).
  - intros k Hk. specialize (Hoi k Hk).
    change (map (field_out dl) r1 :: parsed dl rest) with (parsed dl (r1 :: rest)).
    unfold parsed. apply Forall_map. eapply Forall_impl; [|exact Hoi]. intros r Hr. cbn. rewrite map_length. exact Hr.
  - change (map (field_out dl) r1 :: parsed dl rest) with (parsed dl (r1 :: rest)) in Hds, Hcl.
    destruct (finish_of_ingest is_number stod stoi n kinds fixed_v oi false _ df
                (map (arrange oi) (parsed dl (r1 :: rest))) Hing) as [Hfin Hlen'].
    + discriminate.
    + apply two_classes_class_ok. assumption.
    + exact Hds.
    + exact Hcl.
    + exists df. split; [|split; [exact Hds|split; [exact Hcl|split; [|split; assumption]]]].
      * rewrite (read_csv_explicit _ _ _ _ _ dl no_filter oi false Hex).
        rewrite records_render_table_lemma by assumption.
        unfold no_filter at 1. rewrite filter_map_some_id.
        change (map (map (field_out dl)) (r1 :: rest)) with (map (field_out dl) r1 :: parsed dl rest).
        match goal with |- bind ?x _ = _ => replace x with (@Ok dataframe df) by (symmetry; exact Hing) end.
        cbn [bind]. exact Hfin.
      * rewrite Hlen'. unfold parsed. rewrite !map_length. reflexivity.
Qed.

(* ------------------------------------------------------------ sanity: the hypotheses are satisfiable *)
Module EndToEndSanity.
Definition isnum := Sanity.isnum.
Definition sd := Sanity.sd.
Definition si := Sanity.si.
Definition dl : dialect := {| delimiter := 44; trim_ws := false; has_header := HAS_HEADER; quoting := REMOVE_QUOTES |}.
(* arranged columns: class label (raw column 2), number, text *)
Definition kd (j : nat) : kind := match j with 0%nat => KText | 1%nat => KNum | _ => KText end.
Definition h : record := [[97]; [98]; [121]].                                  (* a,b,y *)
Definition r1 : record := [[49; 50]; [102; 111; 111]; [99; 97; 116]].          (* 12,foo,cat *)
Definition r2 : record := [[55]; [98; 97; 114]; [100; 111; 103]].              (* 7,bar,dog *)
Definition r3 : record := [[53]; [98; 97; 122]; [99; 97; 116]].                (* 5,baz,cat *)
Definition text : bytes :=
  [97; 44; 98; 44; 121; 10;
   49; 50; 44; 102; 111; 111; 44; 99; 97; 116; 10;
   55; 44; 98; 97; 114; 44; 100; 111; 103; 10;
   53; 44; 98; 97; 122; 44; 99; 97; 116; 10].
Definition prm : params := {| p_dialect := dl; p_filter := no_filter; p_output_index := Some 2%nat |}.

Ltac cells :=
  split; [reflexivity|]; intros j Hj;
  do 3 (destruct j as [|j];
        [cbv; repeat split; intros; try reflexivity; try discriminate; try (eexists; reflexivity)|]);
  lia.

Ltac okf := repeat (constructor; [cbv; repeat split; discriminate|]); constructor.
Ltac rend := split; [discriminate|]; split; [repeat (constructor; [okf|]); constructor|reflexivity].

Example end_to_end_sanity :
  exists df, read_csv isnum sd si fixed_v text prm = Ok df
    /\ dataset df = [ {| e_input := [VDouble 12; VString [102; 111; 111]]; e_output := VInt 0 |};
                      {| e_input := [VDouble 7; VString [98; 97; 114]]; e_output := VInt 1 |};
                      {| e_input := [VDouble 5; VString [98; 97; 122]]; e_output := VInt 0 |} ]
    /\ classes df = [([99; 97; 116], 0); ([100; 111; 103], 1)]
    /\ length (dataset df) = 3%nat
    /\ map c_name (columns df) = [[121]; [97]; [98]]
    /\ map c_domain (columns df) = [DDouble; DDouble; DString].
Proof.
  destruct (read_csv_end_to_end_header_lemma isnum sd si 3 ltac:(lia) kd dl (Some 2%nat) h r1 [r2; r3])
    as (df & E & Hds & Hcl & Hlen & L & Hc).
  - repeat split. cbv. tauto.
  - constructor; [rend|constructor; [rend|constructor; [rend|constructor; [rend|constructor]]]].
  - reflexivity.
  - cells.
  - constructor; [cells|constructor; [cells|constructor]].
  - intros k Hk. inversion Hk; subst. repeat constructor.
  - intros _. exists r1, r2. split; [left; reflexivity|]. split; [right; left; reflexivity|]. discriminate.
  - exists df. split; [exact E|]. split; [exact Hds|]. split; [exact Hcl|]. split; [exact Hlen|].
    destruct (columns df) as [|c0 [|c1 [|c2 [|c3 cs]]]]; try discriminate L.
    destruct (Hc 0%nat c0 eq_refl) as [D0 N0]. destruct (Hc 1%nat c1 eq_refl) as [D1 N1].
    destruct (Hc 2%nat c2 eq_refl) as [D2 N2].
    cbn [map]. rewrite D0, D1, D2, N0, N1, N2. split; reflexivity.
Qed.

(* the same run, computed by the model *)
Example end_to_end_computed :
  read_csv isnum sd si fixed_v text prm =
  Ok {| columns := [ {| c_name := [121]; c_domain := DDouble; c_states := [] |};
                     {| c_name := [97]; c_domain := DDouble; c_states := [] |};
                     {| c_name := [98]; c_domain := DString;
                        c_states := [[102; 111; 111]; [98; 97; 114]; [98; 97; 122]] |} ];
        classes := [([99; 97; 116], 0); ([100; 111; 103], 1)];
        dataset := [ {| e_input := [VDouble 12; VString [102; 111; 111]]; e_output := VInt 0 |};
                     {| e_input := [VDouble 7; VString [98; 97; 114]]; e_output := VInt 1 |};
                     {| e_input := [VDouble 5; VString [98; 97; 122]]; e_output := VInt 0 |} ] |}.
Proof. vm_compute. reflexivity. Qed.

(* [two_classes] cannot be dropped: with a single label the reader throws *)
Example one_class_rejected :
  read_csv isnum sd si fixed_v (render_table 44 [h; r1; r3]) prm = Exn E_insufficient_data.
Proof. vm_compute. reflexivity. Qed.
End EndToEndSanity.
