(* C09: read_csv with the DEFAULT parameters (delimiter and header SNIFFED) on a
   rendered table of the unambiguous classes returns what the read with the
   explicit dialect returns, hence the specification of EndToEndCsv.

     (1) the sniffed dialect record equals the explicit one when the two
         guesses are right (read_csv_sniffed_eq_explicit);
     (2) the delimiter guessed on a rendered table (guess_delimiter_rendered);
     (3) the two record streams has_header reads on a rendered table
         (sniff_input_rendered);
     (4) the composed theorems, with and without a header row;
     (5) concrete bytes. *)
From Coq Require Import ZArith List Bool Lia ZifyBool Arith.
From VV Require Import Csv.CsvDefs Csv.CsvProofs Csv.IngestProofs Csv.TableProofs Csv.TextProofs Csv.TopProofs
                       Csv.SniffProofs Csv.HeaderProofs Csv.EndToEndCsv.
Import ListNotations.
Local Open Scope Z_scope.
Local Open Scope bool_scope.

(* ------------------------------------------------------------ (1) sniffed = explicit *)
(* vita::dataframe::params{} : dialect{} has delimiter 0, trim_ws false,
   GUESS_HEADER, REMOVE_QUOTES *)
Definition sniffed_params (oi : option nat) : params :=
  {| p_dialect := {| delimiter := 0; trim_ws := false; has_header := GUESS_HEADER; quoting := REMOVE_QUOTES |};
     p_filter := no_filter; p_output_index := oi |}.

Definition explicit_dl (d : Z) (hdr : bool) : dialect :=
  {| delimiter := d; trim_ws := false; has_header := (if hdr then HAS_HEADER else NO_HEADER);
     quoting := REMOVE_QUOTES |}.

Definition explicit_params (d : Z) (hdr : bool) (oi : option nat) : params :=
  {| p_dialect := {| delimiter := d; trim_ws := false; has_header := (if hdr then HAS_HEADER else NO_HEADER);
                     quoting := REMOVE_QUOTES |};
     p_filter := no_filter; p_output_index := oi |}.

Lemma explicit_params_dl : forall d hdr oi,
  explicit_params d hdr oi = {| p_dialect := explicit_dl d hdr; p_filter := no_filter; p_output_index := oi |}.
Proof. reflexivity. Qed.

Lemma read_csv_sniffed_eq_explicit : forall is_number stod stoi v text d (hdr : bool) oi,
  guess_delimiter text 20 = d -> d <> 0 ->
  sniff_has_header is_number text 20 d = Ok (if hdr then HAS_HEADER else NO_HEADER) ->
  read_csv is_number stod stoi v text (sniffed_params oi) =
  read_csv is_number stod stoi v text (explicit_params d hdr oi).
Proof.
  intros is_number stod stoi v text d hdr oi Hg Hd0 Hh.
  unfold read_csv, sniffed_params, explicit_params, sniffer.
  cbn [p_dialect p_filter p_output_index delimiter trim_ws has_header quoting].
  rewrite Hg, Hh. cbn [bind delimiter has_header Z.eqb].
  replace (d =? 0) with false by lia.
  destruct hdr; reflexivity.
Qed.

(* ------------------------------------------------------------ (2) the delimiter of a rendered table *)
Lemma filter_all_true : forall {A} (p : A -> bool) l, Forall (fun x => p x = true) l -> filter p l = l.
Proof.
  intros A p. induction l as [|x l IH]; intro HF; [reflexivity|].
  inversion HF as [|? ? Hx HF']; subst. cbn [filter]. rewrite Hx, IH by assumption. reflexivity.
Qed.

Lemma renderable_ok_fields : forall d rows, Forall (renderable d) rows -> Forall (fun r => Forall ok_field r) rows.
Proof. intros d rows HF. eapply Forall_impl; [|exact HF]. intros r (_ & H & _). exact H. Qed.

(* the non-blank lines of a rendered table are the rendered rows *)
Lemma nonblank_lines_rendered : forall d rows, usual_delimiter d -> Forall (renderable d) rows ->
  filter (fun l => negb (blank l)) (split_lines (render_table d rows)) = map (render_line d) rows.
Proof.
  intros d rows Hd HF.
  rewrite split_lines_render_table by (try assumption; apply (renderable_ok_fields d); assumption).
  apply filter_all_true. apply Forall_map. eapply Forall_impl; [|exact HF].
  intros r (_ & _ & Hb). cbn beta. rewrite Hb. reflexivity.
Qed.

Lemma scanned_lines_rendered : forall d rows n, usual_delimiter d -> Forall (renderable d) rows ->
  scanned_lines (render_table d rows) n = firstn n (map (render_line d) rows).
Proof. intros d rows n Hd HF. unfold scanned_lines. rewrite nonblank_lines_rendered by assumption. reflexivity. Qed.

Lemma usual_delimiter_candidate : forall d, usual_delimiter d -> In d candidates_sorted.
Proof. unfold usual_delimiter, candidates_sorted. cbn [In]. intros d H. intuition. Qed.

Lemma guess_delimiter_rendered : forall d rows,
  usual_delimiter d -> rows <> [] -> Forall (renderable d) rows ->
  (exists k, (1 <= k)%nat /\ forall l, In l (firstn 20 (map (render_line d) rows)) -> count_char d l = k) ->
  (forall c, In c candidates_sorted -> c <> d ->
     ~ exists k', (1 <= k')%nat /\ forall l, In l (firstn 20 (map (render_line d) rows)) -> count_char c l = k') ->
  guess_delimiter (render_table d rows) 20 = d.
Proof.
  intros d rows Hd Hne HF (k & Hk & Hall) Hoth.
  apply (guess_delimiter_unambiguous_lemma (render_table d rows) 20 d k).
  - apply usual_delimiter_candidate. exact Hd.
  - exact Hk.
  - rewrite scanned_lines_rendered by assumption. destruct rows as [|r rows]; [congruence|discriminate].
  - rewrite scanned_lines_rendered by assumption. exact Hall.
  - rewrite scanned_lines_rendered by assumption. exact Hoth.
Qed.

(* ------------------------------------------------------------ (3) what has_header reads on a rendered table *)
Lemma field_out_id : forall dl, trim_ws dl = false -> forall rows : list record,
  map (map (field_out dl)) rows = rows.
Proof.
  intros dl Ht rows. induction rows as [|r rows IH]; [reflexivity|]. cbn [map]. rewrite IH. f_equal.
  induction r as [|f r IHr]; [reflexivity|]. cbn [map]. rewrite IHr. unfold field_out. rewrite Ht. reflexivity.
Qed.

Lemma field_out_id_row : forall dl, trim_ws dl = false -> forall r : record, map (field_out dl) r = r.
Proof.
  intros dl Ht r. induction r as [|f r IHr]; [reflexivity|]. cbn [map]. rewrite IHr. unfold field_out. rewrite Ht. reflexivity.
Qed.

(* a field that needs no quoting is rendered as itself *)
Definition unquoted (d : Z) (r : record) : Prop := Forall (fun f => needs_quote d f = false) r.

(* parse of a rendered line none of whose fields is quoted: the quoting mode
   does not matter (pl_plain / pl_delim of CsvProofs do not depend on it) *)
Lemma pl_line_unquoted : forall dl, delimiter dl <> 0 -> delimiter dl <> 34 -> trim_ws dl = false ->
  forall (fs : record) (f : bytes) (rcd : record),
  Forall ok_field (f :: fs) -> unquoted (delimiter dl) (f :: fs) ->
  pl dl (render_line (delimiter dl) (f :: fs)) false [] rcd = rcd ++ f :: fs.
Proof.
  intros dl Hd0 Hd34 Ht. induction fs as [|f2 fs IH]; intros f rcd HF HU;
    inversion HF as [|? ? Hf HF']; subst; inversion HU as [|? ? Hu HU']; subst.
  - cbn [render_line]. unfold render_field. rewrite Hu.
    rewrite <- (app_nil_r f) at 1.
    rewrite (pl_plain dl Hd0 Hd34) by (apply needs_quote_false_plain; assumption).
    cbn [pl app]. unfold add_field. rewrite Ht. reflexivity.
  - rewrite render_line_cons. unfold render_field at 1. rewrite Hu.
    rewrite (pl_plain dl Hd0 Hd34) by (apply needs_quote_false_plain; assumption).
    rewrite (pl_delim dl Hd0 Hd34). rewrite IH by assumption.
    unfold add_field. rewrite Ht. rewrite <- app_assoc. reflexivity.
Qed.

Lemma parse_line_unquoted : forall dl (r : record), usual_delimiter (delimiter dl) -> trim_ws dl = false ->
  r <> [] -> Forall ok_field r -> unquoted (delimiter dl) r ->
  parse_line dl (render_line (delimiter dl) r) = r.
Proof.
  intros dl [|f fs] Hd Ht Hne HF HU; [congruence|].
  destruct (usual_delimiter_ok _ Hd) as [Hd0 Hd34].
  unfold parse_line. rewrite pl_line_unquoted by assumption. reflexivity.
Qed.

Lemma sniff_input_rendered : forall d (h : record) (rest : list record),
  usual_delimiter d -> Forall (renderable d) (h :: rest) -> unquoted d h ->
  sniff_input d (render_table d (h :: rest)) h rest.
Proof.
  intros d h rest Hd HF HU. split.
  - exists (map (parse_line {| delimiter := d; trim_ws := false; has_header := HAS_HEADER; quoting := KEEP_QUOTES |})
                (map (render_line d) rest)).
    unfold records. rewrite nonblank_lines_rendered by assumption.
    unfold no_filter. rewrite filter_map_some_id. cbn [map]. f_equal.
    inversion HF as [|? ? (Hne & Hok & _) _]; subst.
    apply (parse_line_unquoted {| delimiter := d; trim_ws := false; has_header := HAS_HEADER; quoting := KEEP_QUOTES |});
      try assumption; reflexivity.
  - exists h.
    etransitivity;
      [exact (records_render_table_lemma
               {| delimiter := d; trim_ws := false; has_header := HAS_HEADER; quoting := REMOVE_QUOTES |}
               no_filter (h :: rest) eq_refl Hd HF)|].
    unfold no_filter. rewrite filter_map_some_id. apply field_out_id. reflexivity.
Qed.

(* ------------------------------------------------------------ (4) the composed theorems *)
(* with trim_ws = false the parser hands over the fields as written *)
Lemma field_out_explicit_dl : forall d hdr (r : record), map (field_out (explicit_dl d hdr)) r = r.
Proof. intros d hdr r. apply field_out_id_row. reflexivity. Qed.

Lemma parsed_explicit_dl : forall d hdr (rows : list record), parsed (explicit_dl d hdr) rows = rows.
Proof. intros d hdr rows. unfold parsed. apply field_out_id. reflexivity. Qed.

Lemma explicit_dl_explicit : forall d hdr, usual_delimiter d -> explicit_dialect (explicit_dl d hdr) hdr.
Proof. intros d hdr Hd. split; [reflexivity|]. split; [exact Hd|reflexivity]. Qed.

(* tables WITH a header row *)
Theorem read_csv_sniffed_end_to_end_header_lemma :
  forall is_number stod stoi n, (1 <= n)%nat -> forall kinds d oi (h r1 : record) (rest : list record),
  (* the hypotheses of read_csv_end_to_end_header_lemma for the dialect (d, no trim, header, quotes removed) *)
  usual_delimiter d ->
  Forall (renderable d) (h :: r1 :: rest) ->
  length (arrange oi (map (field_out (explicit_dl d true)) h)) = n ->
  row_ok is_number stod n kinds true (arrange oi (map (field_out (explicit_dl d true)) r1)) ->
  Forall (fun r => row_ok is_number stod n kinds false (arrange oi r)) (parsed (explicit_dl d true) rest) ->
  (forall k, oi = Some k -> Forall (fun r => (k < length r)%nat) (h :: r1 :: rest)) ->
  two_classes kinds (explicit_dl d true) oi (r1 :: rest) ->
  (* the delimiter is the only candidate with a constant positive count on the first 20 lines *)
  (exists k, (1 <= k)%nat /\
     forall l, In l (firstn 20 (map (render_line d) (h :: r1 :: rest))) -> count_char d l = k) ->
  (forall c, In c candidates_sorted -> c <> d ->
     ~ exists k', (1 <= k')%nat /\
         forall l, In l (firstn 20 (map (render_line d) (h :: r1 :: rest))) -> count_char c l = k') ->
  (* the header heuristic: no name is quoted, every column votes for a header or abstains, one votes *)
  unquoted d h ->
  columns_all (fun h cells => votes_plus is_number h cells \/ cls_variable_text is_number h cells)
              h (looked (length h) 20 (r1 :: rest)) ->
  columns_some (votes_plus is_number) h (looked (length h) 20 (r1 :: rest)) ->
  exists df,
    read_csv is_number stod stoi fixed_v (render_table d (h :: r1 :: rest)) (sniffed_params oi) = Ok df
    /\ read_csv is_number stod stoi fixed_v (render_table d (h :: r1 :: rest)) (explicit_params d true oi) = Ok df
    /\ dataset df = fst (spec_rows stod n kinds [] (map (arrange oi) (parsed (explicit_dl d true) (r1 :: rest))))
    /\ classes df = snd (spec_rows stod n kinds [] (map (arrange oi) (parsed (explicit_dl d true) (r1 :: rest))))
    /\ length (dataset df) = length (r1 :: rest)
    /\ length (columns df) = n
    /\ (forall j c, nth_error (columns df) j = Some c ->
          c_domain c = dom_of j (kinds j) /\
          c_name c = trim (nth j (arrange oi (map (field_out (explicit_dl d true)) h)) [])).
Proof.
  intros is_number stod stoi n Hn kinds d oi h r1 rest Hd Hren Hlen Hr1 Hrest Hoi Hcls Hcnt Hoth Hunq Hall Hsome.
  destruct (usual_delimiter_ok _ Hd) as [Hd0 _].
  assert (Hg : guess_delimiter (render_table d (h :: r1 :: rest)) 20 = d)
    by (apply guess_delimiter_rendered; [exact Hd|discriminate|exact Hren|exact Hcnt|exact Hoth]).
  assert (Hs : sniff_has_header is_number (render_table d (h :: r1 :: rest)) 20 d = Ok HAS_HEADER).
  { apply (has_header_agrees_with_header is_number _ 20 d h (r1 :: rest)).
    - apply sniff_input_rendered; assumption.
    - exact Hall.
    - exact Hsome. }
  destruct (read_csv_end_to_end_header_lemma is_number stod stoi n Hn kinds (explicit_dl d true) oi h r1 rest
              (explicit_dl_explicit d true Hd) Hren Hlen Hr1 Hrest Hoi Hcls)
    as (df & Hread & Hds & Hcl & Hlen' & Hcols & Hnames).
  exists df.
  assert (Hexp : read_csv is_number stod stoi fixed_v (render_table d (h :: r1 :: rest)) (explicit_params d true oi) = Ok df)
    by exact Hread.
  split; [|split; [exact Hexp|split; [exact Hds|split; [exact Hcl|split; [exact Hlen'|split; [exact Hcols|exact Hnames]]]]]].
  rewrite (read_csv_sniffed_eq_explicit is_number stod stoi fixed_v _ d true oi Hg Hd0 Hs). exact Hexp.
Qed.

(* tables WITHOUT a header row: the "header" the sniffer sees is the first data row *)
Theorem read_csv_sniffed_end_to_end_lemma :
  forall is_number stod stoi n, (1 <= n)%nat -> forall kinds d oi (r1 : record) (rest : list record),
  usual_delimiter d ->
  Forall (renderable d) (r1 :: rest) ->
  row_ok is_number stod n kinds true (arrange oi (map (field_out (explicit_dl d false)) r1)) ->
  Forall (fun r => row_ok is_number stod n kinds false (arrange oi r)) (parsed (explicit_dl d false) rest) ->
  (forall k, oi = Some k -> Forall (fun r => (k < length r)%nat) (r1 :: rest)) ->
  two_classes kinds (explicit_dl d false) oi (r1 :: rest) ->
  (exists k, (1 <= k)%nat /\
     forall l, In l (firstn 20 (map (render_line d) (r1 :: rest))) -> count_char d l = k) ->
  (forall c, In c candidates_sorted -> c <> d ->
     ~ exists k', (1 <= k')%nat /\
         forall l, In l (firstn 20 (map (render_line d) (r1 :: rest))) -> count_char c l = k') ->
  unquoted d r1 ->
  columns_all (fun h cells => votes_minus is_number h cells \/ cls_variable_text is_number h cells)
              r1 (looked (length r1) 20 rest) ->
  exists df,
    read_csv is_number stod stoi fixed_v (render_table d (r1 :: rest)) (sniffed_params oi) = Ok df
    /\ read_csv is_number stod stoi fixed_v (render_table d (r1 :: rest)) (explicit_params d false oi) = Ok df
    /\ dataset df = fst (spec_rows stod n kinds [] (map (arrange oi) (parsed (explicit_dl d false) (r1 :: rest))))
    /\ classes df = snd (spec_rows stod n kinds [] (map (arrange oi) (parsed (explicit_dl d false) (r1 :: rest))))
    /\ length (dataset df) = length (r1 :: rest)
    /\ length (columns df) = n
    /\ (forall j c, nth_error (columns df) j = Some c -> c_domain c = dom_of j (kinds j) /\ c_name c = []).
Proof.
  intros is_number stod stoi n Hn kinds d oi r1 rest Hd Hren Hr1 Hrest Hoi Hcls Hcnt Hoth Hunq Hall.
  destruct (usual_delimiter_ok _ Hd) as [Hd0 _].
  assert (Hg : guess_delimiter (render_table d (r1 :: rest)) 20 = d)
    by (apply guess_delimiter_rendered; [exact Hd|discriminate|exact Hren|exact Hcnt|exact Hoth]).
  assert (Hs : sniff_has_header is_number (render_table d (r1 :: rest)) 20 d = Ok NO_HEADER).
  { apply (has_header_agrees_without_header is_number _ 20 d r1 rest).
    - apply sniff_input_rendered; assumption.
    - exact Hall. }
  destruct (read_csv_end_to_end_lemma is_number stod stoi n Hn kinds (explicit_dl d false) oi r1 rest
              (explicit_dl_explicit d false Hd) Hren Hr1 Hrest Hoi Hcls)
    as (df & Hread & Hds & Hcl & Hlen' & Hcols & Hnames).
  exists df.
  assert (Hexp : read_csv is_number stod stoi fixed_v (render_table d (r1 :: rest)) (explicit_params d false oi) = Ok df)
    by exact Hread.
  split; [|split; [exact Hexp|split; [exact Hds|split; [exact Hcl|split; [exact Hlen'|split; [exact Hcols|exact Hnames]]]]]].
  rewrite (read_csv_sniffed_eq_explicit is_number stod stoi fixed_v _ d false oi Hg Hd0 Hs). exact Hexp.
Qed.


(* ------------------------------------------------------------ (5) concrete bytes *)
Module SniffedSanity.
Definition isnum := Sanity.isnum.
Definition sd := Sanity.sd.
Definition si := Sanity.si.
(* arranged columns (output index 0): the number, then the code *)
Definition kd (j : nat) : kind := match j with 0%nat => KNum | _ => KText end.
Definition h : record := [[105; 100]; [99; 111; 100; 101]].     (* id;code *)
Definition r1 : record := [[49]; [97; 98]].                      (* 1;ab *)
Definition r2 : record := [[50]; [99; 100]].                     (* 2;cd *)
Definition r3 : record := [[51]; [101; 102]].                    (* 3;ef *)
(* "id;code\n1;ab\n2;cd\n3;ef\n" *)
Definition text_h : bytes :=
  [105; 100; 59; 99; 111; 100; 101; 10; 49; 59; 97; 98; 10; 50; 59; 99; 100; 10; 51; 59; 101; 102; 10].
(* "1;ab\n2;cd\n3;ef\n" *)
Definition text_n : bytes := [49; 59; 97; 98; 10; 50; 59; 99; 100; 10; 51; 59; 101; 102; 10].

Example text_h_rendered : render_table 59 [h; r1; r2; r3] = text_h.
Proof. reflexivity. Qed.
Example text_n_rendered : render_table 59 [r1; r2; r3] = text_n.
Proof. reflexivity. Qed.

Definition expected (names : list bytes) : dataframe :=
  {| columns := [ {| c_name := nth 0 names []; c_domain := DDouble; c_states := [] |};
                  {| c_name := nth 1 names []; c_domain := DString; c_states := [[97; 98]; [99; 100]; [101; 102]] |} ];
     classes := [];
     dataset := [ {| e_input := [VString [97; 98]]; e_output := VDouble 1 |};
                  {| e_input := [VString [99; 100]]; e_output := VDouble 2 |};
                  {| e_input := [VString [101; 102]]; e_output := VDouble 3 |} ] |}.

(* computed by the model: the default parameters find ';' and the header *)
Example sniffed_header_computed :
  sniffer isnum text_h = Ok (explicit_dl 59 true)
  /\ read_csv isnum sd si fixed_v text_h (sniffed_params (Some 0%nat)) = Ok (expected h)
  /\ read_csv isnum sd si fixed_v text_h (explicit_params 59 true (Some 0%nat)) = Ok (expected h).
Proof. vm_compute. repeat split. Qed.

Example sniffed_no_header_computed :
  sniffer isnum text_n = Ok (explicit_dl 59 false)
  /\ read_csv isnum sd si fixed_v text_n (sniffed_params (Some 0%nat)) = Ok (expected [])
  /\ read_csv isnum sd si fixed_v text_n (explicit_params 59 false (Some 0%nat)) = Ok (expected []).
Proof. vm_compute. repeat split. Qed.

(* the same from the theorems: their hypotheses are satisfiable *)
Ltac cells :=
  split; [reflexivity|]; intros j Hj;
  do 2 (destruct j as [|j];
        [cbv; repeat split; intros; try reflexivity; try discriminate; try (eexists; reflexivity)|]);
  lia.
Ltac okf := repeat (constructor; [cbv; repeat split; discriminate|]); constructor.
Ltac rend := split; [discriminate|]; split; [repeat (constructor; [okf|]); constructor|reflexivity].
Ltac count_d :=
  exists 1%nat; split; [lia|]; intros l Hl; vm_compute in Hl;
  repeat (destruct Hl as [Hl|Hl]; [subst l; reflexivity|]); destruct Hl.
Ltac count_other :=
  intros c Hc Hcd (k' & Hk' & Hall'); cbn [candidates_sorted In] in Hc;
  repeat (destruct Hc as [Hc|Hc];
          [subst c; try congruence; vm_compute in Hall';
           pose proof (Hall' _ (or_introl eq_refl)) as H0; vm_compute in H0; lia|]);
  destruct Hc.

Example sniffed_header_by_theorem :
  exists df, read_csv isnum sd si fixed_v text_h (sniffed_params (Some 0%nat)) = Ok df
    /\ read_csv isnum sd si fixed_v text_h (explicit_params 59 true (Some 0%nat)) = Ok df
    /\ length (dataset df) = 3%nat.
Proof.
  destruct (read_csv_sniffed_end_to_end_header_lemma isnum sd si 2 ltac:(lia) kd 59 (Some 0%nat) h r1 [r2; r3])
    as (df & E1 & E2 & _ & _ & Hlen & _).
  - cbv. tauto.
  - constructor; [rend|constructor; [rend|constructor; [rend|constructor; [rend|constructor]]]].
  - reflexivity.
  - cells.
  - constructor; [cells|constructor; [cells|constructor]].
  - intros k Hk. inversion Hk; subst. repeat constructor.
  - intro Hk. discriminate Hk.
  - count_d.
  - count_other.
  - repeat constructor.
  - intros j Hj. cbn [length h] in Hj. destruct j as [|[|j]]; [| |lia].
    + left. right. left. vm_compute. repeat split; try discriminate; repeat constructor.
    + left. right. right. left. exists 2%nat. split; [|cbv; discriminate]. vm_compute.
      split; [discriminate|repeat constructor].
  - exists 0%nat. split; [cbn [length h]; lia|]. right. left. vm_compute.
    repeat split; try discriminate; repeat constructor.
  - exists df. split; [exact E1|]. split; [exact E2|exact Hlen].
Qed.

Example sniffed_no_header_by_theorem :
  exists df, read_csv isnum sd si fixed_v text_n (sniffed_params (Some 0%nat)) = Ok df
    /\ read_csv isnum sd si fixed_v text_n (explicit_params 59 false (Some 0%nat)) = Ok df
    /\ length (dataset df) = 3%nat.
Proof.
  destruct (read_csv_sniffed_end_to_end_lemma isnum sd si 2 ltac:(lia) kd 59 (Some 0%nat) r1 [r2; r3])
    as (df & E1 & E2 & _ & _ & Hlen & _).
  - cbv. tauto.
  - constructor; [rend|constructor; [rend|constructor; [rend|constructor]]].
  - cells.
  - constructor; [cells|constructor; [cells|constructor]].
  - intros k Hk. inversion Hk; subst. repeat constructor.
  - intro Hk. discriminate Hk.
  - count_d.
  - count_other.
  - repeat constructor.
  - intros j Hj. cbn [length r1] in Hj. destruct j as [|[|j]]; [| |lia].
    + left. left. vm_compute. repeat split; try discriminate; repeat constructor.
    + left. right. left. vm_compute. split; [discriminate|repeat constructor].
  - exists df. split; [exact E1|]. split; [exact E2|exact Hlen].
Qed.
End SniffedSanity.
