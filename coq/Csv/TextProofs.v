(* Text-level lemmas about the CSV reader model (C09):
     (2) records rejected by the filter hook are absent, the others kept in order;
     (1) the record iterator applied to a rendered table yields the rows;
     (3) the variable generated for column i (setup_terminals, repaired variant)
         reads, from any example, the input to_example produced for column i. *)
From Coq Require Import ZArith List Bool Lia ZifyBool Arith.
From VV Require Import Csv.CsvDefs Csv.CsvProofs Csv.IngestProofs.
Import ListNotations.
Local Open Scope Z_scope.
Local Open Scope bool_scope.

(* ------------------------------------------------------------ (2) the filter hook *)
Lemma filter_map_some_id : forall {A} (l : list A), filter_map (fun x => Some x) l = l.
Proof. induction l as [|x l IH]; cbn [filter_map]; [reflexivity|]. rewrite IH. reflexivity. Qed.

Lemma filter_map_ext : forall {A B} (f g : A -> option B) l, (forall x, f x = g x) -> filter_map f l = filter_map g l.
Proof.
  intros A B f g l H. induction l as [|x l IH]; cbn [filter_map]; [reflexivity|].
  rewrite H, IH. reflexivity.
Qed.

Lemma filter_map_keep : forall {A} (keep : A -> bool) l,
  filter_map (fun r => if keep r then Some r else None) l = filter keep l.
Proof.
  intros A keep l. induction l as [|x l IH]; cbn [filter_map filter]; [reflexivity|].
  destruct (keep x) eqn:?; rewrite IH; reflexivity.
Qed.

Lemma filtered_rows_absent_lemma : forall dl flt text,
  records dl flt text = filter_map flt (records dl no_filter text).
Proof.
  intros dl flt text. unfold records, no_filter. rewrite filter_map_some_id. reflexivity.
Qed.

Corollary filtered_rows_absent_pure : forall dl (flt : filter_t) (keep : record -> bool) text,
  (forall r, flt r = if keep r then Some r else None) ->
  records dl flt text = filter keep (records dl no_filter text).
Proof.
  intros dl flt keep text H. rewrite filtered_rows_absent_lemma.
  rewrite (filter_map_ext flt _ _ H). apply filter_map_keep.
Qed.

(* ------------------------------------------------------------ (1) rendered tables *)
Lemma escape_quotes_in : forall f x, In x (escape_quotes f) -> In x f.
Proof.
  induction f as [|c f IH]; intros x H; [exact H|].
  cbn [escape_quotes] in H. destruct (c =? 34) eqn:E.
  - assert (c = 34) by lia. subst c. destruct H as [H|[H|H]]; [left; exact H|left; exact H|right; auto].
  - destruct H as [H|H]; [left; exact H|right; auto].
Qed.

Lemma render_field_in : forall d f x, In x (render_field d f) -> x = 34 \/ In x f.
Proof.
  intros d f x H. unfold render_field in H. destruct (needs_quote d f) eqn:?; [|right; exact H].
  destruct H as [H|H]; [left; congruence|].
  apply in_app_or in H. destruct H as [H|[H|[]]]; [right; apply escape_quotes_in; exact H|left; congruence].
Qed.

Lemma render_line_in : forall d fs x, In x (render_line d fs) ->
  x = d \/ x = 34 \/ exists f, In f fs /\ In x f.
Proof.
  induction fs as [|f fs IH]; intros x H; [destruct H|].
  destruct fs as [|f2 fs].
  - cbn [render_line] in H. apply render_field_in in H. destruct H as [H|H]; [auto|].
    right. right. exists f. split; [left; reflexivity|exact H].
  - rewrite render_line_cons in H. apply in_app_or in H. destruct H as [H|[H|H]].
    + apply render_field_in in H. destruct H as [H|H]; [auto|].
      right. right. exists f. split; [left; reflexivity|exact H].
    + left. congruence.
    + apply IH in H. destruct H as [H|[H|(g & Hg & Hx)]]; [auto|auto|].
      right. right. exists g. split; [right; exact Hg|exact Hx].
Qed.

Lemma render_line_no_lf : forall d fs, usual_delimiter d -> Forall ok_field fs -> ~ In 10 (render_line d fs).
Proof.
  intros d fs Hd HF H. apply render_line_in in H. destruct H as [H|[H|(f & Hf & Hx)]].
  - unfold usual_delimiter in Hd. cbn [In] in Hd. lia.
  - discriminate.
  - rewrite Forall_forall in HF. specialize (HF f Hf). unfold ok_field in HF. rewrite Forall_forall in HF.
    destruct (HF 10 Hx) as (_ & H10 & _). congruence.
Qed.

Lemma split_lines_aux_app : forall l rest cur, ~ In 10 l ->
  split_lines_aux (l ++ 10 :: rest) cur = (cur ++ l) :: split_lines_aux rest [].
Proof.
  induction l as [|c l IH]; intros rest cur Hn.
  - cbn [app split_lines_aux]. cbn [Z.eqb Pos.eqb]. rewrite app_nil_r. reflexivity.
  - cbn [app split_lines_aux]. destruct (c =? 10) eqn:E.
    + exfalso. apply Hn. left. lia.
    + rewrite IH by (intro H; apply Hn; right; exact H). rewrite <- app_assoc. reflexivity.
Qed.

Lemma split_lines_render_table : forall d rows, usual_delimiter d ->
  Forall (fun r => Forall ok_field r) rows ->
  split_lines (render_table d rows) = map (render_line d) rows.
Proof.
  intros d rows Hd. unfold split_lines, render_table.
  induction rows as [|r rows IH]; intro HF; [reflexivity|].
  inversion HF as [|? ? Hr HF']; subst.
  cbn [flat_map map]. rewrite <- app_assoc. cbn [app].
  rewrite split_lines_aux_app by (apply render_line_no_lf; assumption).
  cbn [app]. rewrite IH by assumption. reflexivity.
Qed.

Lemma records_render_table_lemma : forall dl flt rows,
  quoting dl = REMOVE_QUOTES -> usual_delimiter (delimiter dl) ->
  Forall (fun r => r <> [] /\ Forall ok_field r /\ blank (render_line (delimiter dl) r) = false) rows ->
  records dl flt (render_table (delimiter dl) rows) = filter_map flt (map (map (field_out dl)) rows).
Proof.
  intros dl flt rows Hq Hd HF. unfold records.
  rewrite split_lines_render_table.
  2: assumption.
  2: { eapply Forall_impl; [|exact HF]. intros r (_ & H & _). exact H. }
  f_equal.
  induction rows as [|r rows IH]; [reflexivity|].
  inversion HF as [|? ? (Hne & Hok & Hb) HF']; subst.
  cbn [map filter]. rewrite Hb. cbn [negb map].
  rewrite parse_render_lemma by assumption. rewrite IH by assumption. reflexivity.
Qed.

(* ------------------------------------------------------------ (3) variable i reads column i *)
(* the numbering shared by setup_terminals (problem.cc) and to_example
   (dataframe.cc): column 0 is the output, the inputs are the non-void columns
   among 1.., numbered from 0 in increasing order *)
Definition live (cols : list column) (i : nat) : bool :=
  match nth_error cols i with Some c => negb (domain_eqb (c_domain c) DVoid) | None => false end.
Definition rank (cols : list column) (i : nat) : nat := length (filter (live cols) (seq 1 (i - 1))).

Lemma rank_S : forall cols i, (1 <= i)%nat ->
  rank cols (S i) = if live cols i then S (rank cols i) else rank cols i.
Proof.
  intros cols i Hi. unfold rank. replace (S i - 1)%nat with (S (i - 1)) by lia.
  rewrite seq_S. replace (1 + (i - 1))%nat with i by lia.
  rewrite filter_app, app_length. cbn [filter]. destruct (live cols i); cbn [length]; lia.
Qed.

(* inversion rule for a loop known to have succeeded *)
Lemma for_ck_seq_ok_inv : forall {S} (P : nat -> S -> Prop) (body : nat -> S -> res S) len start s s',
  for_ck (seq start len) body s = Ok s' ->
  P start s ->
  (forall i s s1, (start <= i < start + len)%nat -> P i s -> body i s = Ok s1 -> P (Datatypes.S i) s1) ->
  P (start + len)%nat s'.
Proof.
  intros S P body len. induction len as [|len IH]; intros start s s' Hrun H0 Hstep.
  - cbn in Hrun. inversion Hrun; subst. rewrite Nat.add_0_r. assumption.
  - cbn [seq for_ck] in Hrun. destruct (body start s) as [s1| |] eqn:E1; cbn [bind] in Hrun; try discriminate.
    replace (start + Datatypes.S len)%nat with (Datatypes.S start + len)%nat by lia.
    apply (IH (Datatypes.S start) s1 s' Hrun).
    + apply (Hstep start s s1); [lia|assumption|assumption].
    + intros i t t1 Hi. apply Hstep. lia.
Qed.

Lemma nth_error_snoc_last : forall {A} (l : list A) x, nth_error (l ++ [x]) (length l) = Some x.
Proof. intros A l x. rewrite nth_error_app2 by lia. rewrite Nat.sub_diag. reflexivity. Qed.

Lemma nth_error_snoc_old : forall {A} (l : list A) x n y, nth_error l n = Some y -> nth_error (l ++ [x]) n = Some y.
Proof.
  intros A l x n y H. rewrite nth_error_app1; [assumption|]. apply nth_error_Some. congruence.
Qed.

(* ---------------- (a) the terminals side *)
Definition var_name (c : column) (i : nat) : bytes := if is_nil (c_name c) then 88 :: to_string i else c_name c.

Definition term_inv (cols : list column) (i : nat) (st : nat * list var_info) : Prop :=
  let '(next, vars) := st in
  next = length vars /\
  length vars = rank cols i /\
  map v_id vars = seq 0 (length vars) /\
  forall j, (1 <= j < i)%nat -> live cols j = true ->
    exists c vj, nth_error cols j = Some c /\ nth_error vars (rank cols j) = Some vj /\
                 v_id vj = rank cols j /\ v_name vj = var_name c j.

Lemma term_step_inv : forall cols cats i st st1, (1 <= i)%nat ->
  term_inv cols i st -> term_step fixed_v cols cats i st = Ok st1 -> term_inv cols (S i) st1.
Proof.
  intros cols cats i [next vars] st1 Hi (Hnext & Hlen & Hids & Hvars) Hstep.
  unfold term_step in Hstep.
  destruct (nth_error cols i) as [c|] eqn:En; [|discriminate].
  cbn [fixed_v g_terminals andb] in Hstep.
  destruct (domain_eqb (c_domain c) DVoid) eqn:Ed.
  - inversion Hstep; subst st1. clear Hstep.
    assert (Hlive : live cols i = false) by (unfold live; rewrite En, Ed; reflexivity).
    unfold term_inv. rewrite rank_S by assumption. rewrite Hlive.
    split; [assumption|]. split; [assumption|]. split; [assumption|].
    intros j Hj Hlj. assert (j <> i) by congruence. apply Hvars; [lia|assumption].
  - unfold get in Hstep. destruct (nth_error cats i) as [cat|] eqn:Ecat; cbn [bind] in Hstep; [|discriminate].
    inversion Hstep; subst st1. clear Hstep.
    assert (Hlive : live cols i = true) by (unfold live; rewrite En, Ed; reflexivity).
    unfold term_inv. rewrite rank_S by assumption. rewrite Hlive.
    rewrite app_length. cbn [length]. rewrite Nat.add_1_r.
    split; [congruence|]. split; [congruence|]. split.
    + rewrite map_app, seq_S, Hids. cbn [map v_id]. rewrite Hnext. reflexivity.
    + intros j Hj Hlj. destruct (Nat.eq_dec j i) as [->|Hne].
      * exists c. eexists. split; [exact En|]. split; [rewrite <- Hlen; apply nth_error_snoc_last|].
        cbn [v_id v_name]. split; [congruence|reflexivity].
      * destruct (Hvars j) as (cj & vj & Hcj & Hvj & Hid & Hname); [lia|assumption|].
        exists cj, vj. split; [assumption|]. split; [apply nth_error_snoc_old; assumption|]. split; assumption.
Qed.

Lemma terminals_numbering_lemma : forall cols strong vars,
  setup_terminals fixed_v cols strong = Ok vars ->
  map v_id vars = seq 0 (length vars) /\
  length vars = length (filter (live cols) (seq 1 (length cols - 1))) /\
  forall i, (1 <= i < length cols)%nat -> live cols i = true ->
    exists c vi, nth_error cols i = Some c /\ nth_error vars (rank cols i) = Some vi /\
                 v_id vi = rank cols i /\
                 v_name vi = (if is_nil (c_name c) then 88 :: to_string i else c_name c).
Proof.
  intros cols strong vars H. unfold setup_terminals in H.
  destruct (Nat.ltb (length cols) 2) eqn:Elen; [discriminate|]. apply Nat.ltb_ge in Elen.
  destruct (for_ck (seq 1 (length cols - 1)) (term_step fixed_v cols (category_set cols strong 0 [])) (O, []))
    as [[next vs]| |] eqn:Erun; cbn [bind snd] in H; try discriminate.
  inversion H; subst vs. clear H.
  pose proof (for_ck_seq_ok_inv (term_inv cols) _ _ _ _ _ Erun) as Hinv.
  replace (1 + (length cols - 1))%nat with (length cols) in Hinv by lia.
  destruct Hinv as (Hnext & Hlen & Hids & Hvars).
  - unfold term_inv. cbn [length]. split; [reflexivity|]. split; [reflexivity|]. split; [reflexivity|].
    intros j Hj. lia.
  - intros i s s1 Hi Hs Hb. eapply term_step_inv; [lia|exact Hs|exact Hb].
  - split; [assumption|]. split; [exact Hlen|]. exact Hvars.
Qed.

(* (a) is not vacuous: with at least one input column the repaired
   setup_terminals never fails *)
Lemma category_set_length : forall cols strong cat acc,
  length (category_set cols strong cat acc) = (length acc + length cols)%nat.
Proof.
  induction cols as [|c cols IH]; intros strong cat acc; cbn [category_set length]; [lia|].
  destruct (domain_eqb (c_domain c) DVoid) eqn:?.
  - rewrite IH, app_length. cbn [length]. lia.
  - destruct (strong || domain_eqb (c_domain c) DString) eqn:?.
    + rewrite IH, app_length. cbn [length]. lia.
    + destruct (find_domain acc (c_domain c)) eqn:?; rewrite IH, app_length; cbn [length]; lia.
Qed.

Lemma setup_terminals_total : forall cols strong, (2 <= length cols)%nat ->
  exists vars, setup_terminals fixed_v cols strong = Ok vars.
Proof.
  intros cols strong Hlen. unfold setup_terminals.
  replace (Nat.ltb (length cols) 2) with false by (symmetry; apply Nat.ltb_ge; assumption).
  destruct (for_ck_seq_inv (fun _ (_ : nat * list var_info) => True)
              (term_step fixed_v cols (category_set cols strong 0 [])) (length cols - 1) 1 (O, []) I)
    as (st & Hst & _).
  - intros i [next vars] Hi _. unfold term_step.
    destruct (nth_error cols i) as [c|] eqn:En.
    2: { apply nth_error_None in En. lia. }
    cbn [fixed_v g_terminals andb].
    destruct (domain_eqb (c_domain c) DVoid) eqn:?; [eexists; split; [reflexivity|exact I]|].
    unfold get. destruct (nth_error (category_set cols strong 0 []) i) as [cat|] eqn:Ec.
    + cbn [bind]. eexists; split; [reflexivity|exact I].
    + apply nth_error_None in Ec. rewrite category_set_length in Ec. cbn [length] in Ec. lia.
  - rewrite Hst. cbn [bind]. eexists. reflexivity.
Qed.

(* ---------------- (b) the example side *)
Lemma set_nth_domain : forall (cols : list column) i c c', nth_error cols i = Some c -> c_domain c' = c_domain c ->
  forall j, option_map c_domain (nth_error (set_nth cols i c') j) = option_map c_domain (nth_error cols j).
Proof.
  intros cols i c c' Hn Hd j. rewrite nth_error_set_nth.
  destruct (Nat.eqb j i) eqn:E; [|reflexivity]. apply Nat.eqb_eq in E. subst j.
  assert (Hlt : (i < length cols)%nat) by (apply nth_error_Some; congruence).
  replace (Nat.ltb i (length cols)) with true by (symmetry; apply Nat.ltb_lt; assumption).
  rewrite Hn. cbn [option_map]. congruence.
Qed.

Section Example.
Variable is_number : bytes -> bool.
Variable stod : bytes -> conv.
Variable stoi : bytes -> conv.

(* what one step of the loop of to_example does to the inputs and to the
   column domains *)
Lemma toex_step_ok : forall v add i ex cols cm ex1 cols1 cm1,
  toex_step is_number stod stoi v add i (ex, cols, cm) = Ok (ex1, cols1, cm1) ->
  exists c, nth_error cols i = Some c /\
    (forall j, option_map c_domain (nth_error cols1 j) = option_map c_domain (nth_error cols j)) /\
    if domain_eqb (c_domain c) DVoid || Nat.eqb i 0 then e_input ex1 = e_input ex
    else exists cell x, nth_error v i = Some cell /\ convert stod stoi (trim cell) (c_domain c) = Ok x /\
                        e_input ex1 = e_input ex ++ [x].
Proof.
  intros v add i ex cols cm ex1 cols1 cm1 H. unfold toex_step, get in H.
  destruct (nth_error cols i) as [c|] eqn:En; cbn [bind] in H; [|discriminate].
  exists c. split; [reflexivity|].
  destruct (domain_eqb (c_domain c) DVoid) eqn:Ed.
  { inversion H; subst. cbn [orb]. split; [reflexivity|reflexivity]. }
  cbn [orb].
  destruct (nth_error v i) as [cell|] eqn:Ev; cbn [bind] in H; [|discriminate].
  assert (Hset : forall c' : column, c_domain c' = c_domain c ->
            forall j, option_map c_domain (nth_error (set_nth cols i c') j) = option_map c_domain (nth_error cols j)).
  { intros c' Hd j. eapply set_nth_domain; eassumption. }
  destruct (Nat.eqb i 0) eqn:Ei.
  - destruct (nth_error v 0) as [front|] eqn:Ef; cbn [bind] in H; [|discriminate].
    destruct (negb (is_number front)) eqn:Enum.
    + destruct (encode cm (trim cell)) as [id cm'] eqn:Eenc. cbn [bind] in H.
      destruct (add && domain_eqb (c_domain c) DString) eqn:Eadd; inversion H; subst; cbn [e_input];
        (split; [first [intro; reflexivity|apply Hset; reflexivity]|reflexivity]).
    + destruct (convert stod stoi (trim cell) (c_domain c)) as [o| |] eqn:Ecv; cbn [bind] in H; try discriminate.
      destruct (add && domain_eqb (c_domain c) DString) eqn:Eadd; inversion H; subst; cbn [e_input];
        (split; [first [intro; reflexivity|apply Hset; reflexivity]|reflexivity]).
  - destruct (convert stod stoi (trim cell) (c_domain c)) as [x| |] eqn:Ecv; cbn [bind] in H; try discriminate.
    destruct (add && domain_eqb (c_domain c) DString) eqn:Eadd; inversion H; subst; cbn [e_input];
      (split; [first [intro; reflexivity|apply Hset; reflexivity]
              |exists cell, x; split; [reflexivity|]; split; [assumption|reflexivity]]).
Qed.

Definition toex_inv (v : record) (cols0 : list column) (i : nat) (st : toex_state) : Prop :=
  let '(ex, cols, _) := st in
  (forall j, option_map c_domain (nth_error cols j) = option_map c_domain (nth_error cols0 j)) /\
  length (e_input ex) = rank cols0 i /\
  forall j, (1 <= j < i)%nat -> live cols0 j = true ->
    exists c x, nth_error cols0 j = Some c /\ convert stod stoi (trim (nth j v [])) (c_domain c) = Ok x /\
                nth_error (e_input ex) (rank cols0 j) = Some x.

Lemma toex_step_inv : forall v add cols0 i st st1,
  toex_inv v cols0 i st -> toex_step is_number stod stoi v add i st = Ok st1 -> toex_inv v cols0 (S i) st1.
Proof.
  intros v add cols0 i [[ex cols] cm] [[ex1 cols1] cm1] (Hdom & Hlen & Hin) Hstep.
  apply toex_step_ok in Hstep. destruct Hstep as (c & Hc & Hdom1 & Hinp).
  assert (Hdom' : forall j, option_map c_domain (nth_error cols1 j) = option_map c_domain (nth_error cols0 j))
    by (intro j; rewrite Hdom1; apply Hdom).
  (* the column of the initial frame has the same domain *)
  pose proof (Hdom i) as Hdi. rewrite Hc in Hdi. cbn [option_map] in Hdi.
  destruct (nth_error cols0 i) as [c0|] eqn:Ec0; [|discriminate]. cbn [option_map] in Hdi.
  assert (Hd0 : c_domain c0 = c_domain c) by congruence.
  assert (Hlive : live cols0 i = negb (domain_eqb (c_domain c) DVoid)) by (unfold live; rewrite Ec0, Hd0; reflexivity).
  unfold toex_inv. split; [exact Hdom'|].
  destruct i as [|i].
  - (* the output column *)
    rewrite orb_true_r in Hinp. split; [rewrite Hinp; exact Hlen|]. intros j Hj. lia.
  - cbn [Nat.eqb] in Hinp. rewrite orb_false_r in Hinp. rewrite rank_S by lia. rewrite Hlive.
    destruct (domain_eqb (c_domain c) DVoid) eqn:Ed; cbn [negb].
    + rewrite Hinp. split; [exact Hlen|].
      intros j Hj Hlj. assert (j <> S i) by (intro; subst j; rewrite Hlive in Hlj; discriminate).
      apply Hin; [lia|assumption].
    + destruct Hinp as (cell & x & Hcell & Hcv & Hex). rewrite Hex. split.
      * rewrite app_length. cbn [length]. lia.
      * intros j Hj Hlj. destruct (Nat.eq_dec j (S i)) as [->|Hne].
        -- exists c0, x. split; [exact Ec0|]. split.
           ++ rewrite Hd0. rewrite (nth_error_nth v (S i) [] Hcell). exact Hcv.
           ++ rewrite <- Hlen. apply nth_error_snoc_last.
        -- destruct (Hin j) as (cj & xj & Hcj & Hcvj & Hxj); [lia|assumption|].
           exists cj, xj. split; [assumption|]. split; [assumption|]. apply nth_error_snoc_old. assumption.
Qed.

Lemma example_numbering_lemma : forall df v add ex df',
  length v = length (columns df) ->
  to_example is_number stod stoi df v add = Ok (ex, df') ->
  length (e_input ex) = length (filter (live (columns df)) (seq 1 (length v - 1))) /\
  forall i, (1 <= i < length v)%nat -> live (columns df) i = true ->
    exists c x, nth_error (columns df) i = Some c /\
                convert stod stoi (trim (nth i v [])) (c_domain c) = Ok x /\
                nth_error (e_input ex) (rank (columns df) i) = Some x.
Proof.
  intros df v add ex df' _ H. unfold to_example in H.
  destruct (for_ck (seq 0 (length v)) (toex_step is_number stod stoi v add)
              ({| e_input := []; e_output := VVoid |}, columns df, classes df))
    as [[[ex1 cols1] cm1]| |] eqn:Erun; cbn [bind] in H; try discriminate.
  inversion H; subst ex1 df'. clear H.
  pose proof (for_ck_seq_ok_inv (toex_inv v (columns df)) _ _ _ _ _ Erun) as Hinv.
  cbn [Nat.add] in Hinv. destruct Hinv as (_ & Hlen & Hin).
  - unfold toex_inv. split; [reflexivity|]. split; [reflexivity|]. intros j Hj. lia.
  - intros i s s1 _ Hs Hb. eapply toex_step_inv; eassumption.
  - split; [exact Hlen|exact Hin].
Qed.

(* ---------------- (c) the binding *)
Theorem variable_i_reads_column_i_lemma : forall df strong vars v add ex df',
  setup_terminals fixed_v (columns df) strong = Ok vars ->
  length v = length (columns df) ->
  to_example is_number stod stoi df v add = Ok (ex, df') ->
  length vars = length (e_input ex) /\
  forall i, (1 <= i < length v)%nat -> live (columns df) i = true ->
    exists c vi x,
      nth_error (columns df) i = Some c /\
      nth_error vars (rank (columns df) i) = Some vi /\
      v_name vi = (if is_nil (c_name c) then 88 :: to_string i else c_name c) /\
      convert stod stoi (trim (nth i v [])) (c_domain c) = Ok x /\
      run_variable vi ex = Ok x.
Proof.
  intros df strong vars v add ex df' Hterm Hlen Hex.
  destruct (terminals_numbering_lemma _ _ _ Hterm) as (_ & Hvl & Hvars).
  destruct (example_numbering_lemma _ _ _ _ _ Hlen Hex) as (Hel & Hins).
  split; [rewrite Hvl, Hel, Hlen; reflexivity|].
  intros i Hi Hlive.
  destruct (Hvars i) as (c & vi & Hc & Hvi & Hid & Hname); [lia|assumption|].
  destruct (Hins i Hi Hlive) as (c' & x & Hc' & Hcv & Hx).
  assert (c' = c) by congruence. subst c'.
  exists c, vi, x. split; [assumption|]. split; [assumption|]. split; [assumption|]. split; [assumption|].
  unfold run_variable. rewrite Hid. apply get_ok. assumption.
Qed.
End Example.

(* ---------------- the binding does not hold in the pinned tree: with a void
   column before a live one the variable of the live column has v_id = i - 1,
   one past the end of the inputs to_example produced (refuted witness) *)
Definition w_cols : list column :=
  [ {| c_name := []; c_domain := DDouble; c_states := [] |};
    {| c_name := []; c_domain := DVoid; c_states := [] |};
    {| c_name := []; c_domain := DDouble; c_states := [] |} ].
Definition w_df : dataframe := {| columns := w_cols; classes := []; dataset := [] |}.
Definition w_stod (s : bytes) : conv := match s with [c] => CvOk c | _ => CvInvalid end.
Definition w_row : record := [[49]; []; [50]].

Example pinned_variable_reads_past_inputs :
  live w_cols 2 = true /\ rank w_cols 2 = O /\
  (exists ex df', to_example (fun _ => true) w_stod w_stod w_df w_row false = Ok (ex, df') /\
     e_input ex = [VDouble 50] /\
     (exists v1 v2, setup_terminals pinned_v w_cols false = Ok [v1; v2] /\ v_id v2 = 1%nat /\
                    run_variable v2 ex = OOB S_fetch_var) /\
     (exists v2, setup_terminals fixed_v w_cols false = Ok [v2] /\ run_variable v2 ex = Ok (VDouble 50))).
Proof.
  split; [reflexivity|]. split; [reflexivity|].
  eexists. eexists. split; [vm_compute; reflexivity|]. split; [reflexivity|]. split.
  - eexists. eexists. split; [vm_compute; reflexivity|]. split; reflexivity.
  - eexists. split; [vm_compute; reflexivity|]. reflexivity.
Qed.
