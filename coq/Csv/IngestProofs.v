(* Lemmas about the read_csv loop of the model (C09): rotation of the output
   column, class encoding, column typing, one example per row. *)
From Coq Require Import ZArith List Bool Lia ZifyBool Arith.
From VV Require Import Csv.CsvDefs Csv.CsvProofs.
Import ListNotations.
Local Open Scope Z_scope.
Local Open Scope bool_scope.

(* ------------------------------------------------------------ generic *)
Lemma bytes_eqb_eq : forall a b, bytes_eqb a b = true <-> a = b.
Proof.
  induction a as [|x a IH]; destruct b as [|y b]; cbn; split; intro H; try congruence; try reflexivity.
  - apply andb_true_iff in H. destruct H as [H1 H2]. apply IH in H2. f_equal; [lia|assumption].
  - inversion H; subst. rewrite Z.eqb_refl. cbn. apply IH. reflexivity.
Qed.

Lemma bytes_eqb_refl : forall a, bytes_eqb a a = true.
Proof. intro a. apply bytes_eqb_eq. reflexivity. Qed.

Lemma bytes_eqb_neq : forall a b, bytes_eqb a b = false <-> a <> b.
Proof.
  intros a b. split; intro H.
  - intro E. apply bytes_eqb_eq in E. congruence.
  - destruct (bytes_eqb a b) eqn:E; [|reflexivity]. apply bytes_eqb_eq in E. contradiction.
Qed.

Lemma get_ok : forall {A} s (l : list A) i x, nth_error l i = Some x -> get s l i = Ok x.
Proof. intros A s l i x H. unfold get. rewrite H. reflexivity. Qed.

Lemma nth_error_nth' : forall {A} (l : list A) i d, (i < length l)%nat -> nth_error l i = Some (nth i l d).
Proof. intros A l i d H. apply nth_error_nth'. assumption. Qed.

Lemma set_nth_length : forall {A} (l : list A) i x, length (set_nth l i x) = length l.
Proof. induction l as [|y l IH]; intros [|i] x; cbn; auto. Qed.

Lemma nth_error_set_nth : forall {A} (l : list A) i x j,
  nth_error (set_nth l i x) j = if Nat.eqb j i then (if Nat.ltb i (length l) then Some x else None) else nth_error l j.
Proof.
  induction l as [|y l IH]; intros i x j.
  - cbn. destruct i; destruct j; cbn; try reflexivity. destruct (Nat.eqb j i); reflexivity.
  - destruct i as [|i]; destruct j as [|j]; cbn [set_nth nth_error]; try reflexivity.
    rewrite IH. cbn [Nat.eqb length]. destruct (Nat.eqb j i); [|reflexivity].
    destruct (Nat.ltb i (length l)) eqn:E1; destruct (Nat.ltb (S i) (S (length l))) eqn:E2; try reflexivity; lia.
Qed.

Lemma nth_error_firstn_lt : forall {A} (l : list A) k j, (j < k)%nat -> nth_error (firstn k l) j = nth_error l j.
Proof.
  induction l as [|x l IH]; intros k j H; [destruct k; destruct j; reflexivity|].
  destruct k as [|k]; [lia|]. destruct j as [|j]; [reflexivity|]. cbn. apply IH. lia.
Qed.

Lemma nth_error_skipn_add : forall {A} (l : list A) k j, nth_error (skipn k l) j = nth_error l (k + j).
Proof.
  induction l as [|x l IH]; intros k j; [destruct k; destruct j; reflexivity|].
  destruct k as [|k]; [reflexivity|]. cbn. apply IH.
Qed.

(* loop rule: an index-dependent invariant that determines every step *)
Lemma for_ck_seq_inv : forall {S} (P : nat -> S -> Prop) (body : nat -> S -> res S) len start s,
  P start s ->
  (forall i s, (start <= i < start + len)%nat -> P i s -> exists s', body i s = Ok s' /\ P (Datatypes.S i) s') ->
  exists s', for_ck (seq start len) body s = Ok s' /\ P (start + len)%nat s'.
Proof.
  intros S P body len. induction len as [|len IH]; intros start s H0 Hstep.
  - exists s. cbn. rewrite Nat.add_0_r. auto.
  - cbn [seq for_ck]. destruct (Hstep start s) as (s1 & E1 & P1); [lia|assumption|].
    rewrite E1. cbn [bind].
    destruct (IH (Datatypes.S start) s1 P1) as (s2 & E2 & P2).
    + intros i s' Hi. apply Hstep. lia.
    + exists s2. split; [assumption|]. replace (start + Datatypes.S len)%nat with (Datatypes.S start + len)%nat by lia. assumption.
Qed.

(* ------------------------------------------------------------ rotate_output_front *)
Definition arrange (oi : option nat) (r : record) : record :=
  match oi with
  | Some k => nth k r [] :: firstn k r ++ skipn (S k) r
  | None => [] :: r
  end.

Lemma rotate_front_arrange : forall s r k, (k < length r)%nat -> rotate_front s r k = Ok (arrange (Some k) r).
Proof.
  intros s r k H. unfold rotate_front. rewrite (get_ok s r k (nth k r [])) by (apply nth_error_nth'; assumption).
  reflexivity.
Qed.

Lemma arrange_zero : forall r, r <> [] -> arrange (Some O) r = r.
Proof. intros [|x r] H; [congruence|]. reflexivity. Qed.

Lemma arrange_length : forall k r, (k < length r)%nat -> length (arrange (Some k) r) = length r.
Proof.
  intros k r H. cbn [arrange length]. rewrite app_length, firstn_length, skipn_length. lia.
Qed.

(* the inputs are the other columns in their original order *)
Lemma arrange_inputs : forall k r j, (k < length r)%nat ->
  nth_error (arrange (Some k) r) (S j) = if Nat.ltb j k then nth_error r j else nth_error r (S j).
Proof.
  intros k r j H. cbn [arrange nth_error].
  destruct (Nat.ltb j k) eqn:E; [apply Nat.ltb_lt in E|apply Nat.ltb_ge in E].
  - rewrite nth_error_app1 by (rewrite firstn_length; lia). apply nth_error_firstn_lt. lia.
  - rewrite nth_error_app2 by (rewrite firstn_length; lia). rewrite firstn_length.
    replace (Nat.min k (length r)) with k by lia. rewrite nth_error_skipn_add.
    replace (S k + (j - k))%nat with (S j) by lia. reflexivity.
Qed.

Lemma rotate_output_front_lemma : forall s r k, (k < length r)%nat ->
  exists out rest, rotate_front s r k = Ok (out :: rest) /\ nth_error r k = Some out /\
    length rest = (length r - 1)%nat /\
    forall j, nth_error rest j = if Nat.ltb j k then nth_error r j else nth_error r (S j).
Proof.
  intros s r k H. exists (nth k r []), (firstn k r ++ skipn (S k) r).
  split; [apply rotate_front_arrange; assumption|].
  split; [apply nth_error_nth'; assumption|].
  split.
  - rewrite app_length, firstn_length, skipn_length. lia.
  - intro j. apply (arrange_inputs k r j H).
Qed.

(* ------------------------------------------------------------ classes *)
Definition wf_classes (m : classes_t) : Prop :=
  NoDup (map fst m) /\ forall i l z, nth_error m i = Some (l, z) -> z = Z.of_nat i.

Lemma wf_classes_nil : wf_classes [].
Proof. split; [constructor|]. intros [|i] l z H; discriminate. Qed.

Lemma class_find_some : forall m l i, class_find m l = Some i -> In (l, i) m.
Proof.
  induction m as [|[l' j] m IH]; intros l i H; [discriminate|].
  cbn in H. destruct (bytes_eqb l' l) eqn:E.
  - apply bytes_eqb_eq in E. inversion H; subst. left. reflexivity.
  - right. apply IH. assumption.
Qed.

Lemma class_find_none : forall m l, class_find m l = None -> ~ In l (map fst m).
Proof.
  induction m as [|[l' j] m IH]; intros l H; [intros []|].
  cbn in H. destruct (bytes_eqb l' l) eqn:E; [discriminate|].
  apply bytes_eqb_neq in E. cbn. intros [H1|H1]; [contradiction|]. exact (IH l H H1).
Qed.

Lemma class_find_in : forall m l i, NoDup (map fst m) -> In (l, i) m -> class_find m l = Some i.
Proof.
  induction m as [|[l' j] m IH]; intros l i Hnd Hin; [destruct Hin|].
  cbn [map fst] in Hnd. inversion Hnd as [|? ? Hni Hnd']; subst.
  cbn. destruct Hin as [Hin|Hin].
  - inversion Hin; subst. rewrite bytes_eqb_refl. reflexivity.
  - destruct (bytes_eqb l' l) eqn:E.
    + apply bytes_eqb_eq in E. subst. exfalso. apply Hni. apply (in_map fst) in Hin. exact Hin.
    + apply IH; assumption.
Qed.

Lemma NoDup_snoc : forall {A} (l : list A) x, NoDup l -> ~ In x l -> NoDup (l ++ [x]).
Proof.
  induction l as [|y l IH]; intros x Hnd Hni; cbn.
  - constructor; [intros []|constructor].
  - inversion Hnd as [|? ? Hy Hnd']; subst. constructor.
    + intro Hin. apply in_app_or in Hin. destruct Hin as [Hin|[Hin|[]]]; [contradiction|].
      subst. apply Hni. left. reflexivity.
    + apply IH; [assumption|]. intro Hin. apply Hni. right. assumption.
Qed.

Lemma encode_wf : forall m l, wf_classes m -> wf_classes (snd (encode m l)).
Proof.
  intros m l [Hnd Hid]. unfold encode. destruct (class_find m l) eqn:E; cbn [snd]; [split; assumption|].
  split.
  - rewrite map_app. cbn [map fst]. apply NoDup_snoc; [assumption|apply class_find_none; assumption].
  - intros i l' z H.
    destruct (Nat.ltb i (length m)) eqn:Ei; [apply Nat.ltb_lt in Ei|apply Nat.ltb_ge in Ei].
    + rewrite nth_error_app1 in H by lia. eapply Hid; eassumption.
    + rewrite nth_error_app2 in H by lia.
      destruct (i - length m)%nat as [|d] eqn:Ed; cbn in H.
      * inversion H; subst. f_equal. lia.
      * destruct d; discriminate.
Qed.

(* equal labels get equal ids, distinct labels distinct ids *)
Lemma encode_injective_lemma : forall m l1 l2, wf_classes m ->
  let (i1, m1) := encode m l1 in
  let (i2, m2) := encode m1 l2 in
  (i1 = i2 <-> l1 = l2).
Proof.
  intros m l1 l2 Hwf.
  pose proof (encode_wf m l1 Hwf) as Hwf1.
  destruct (encode m l1) as [i1 m1] eqn:E1. cbn [snd] in Hwf1.
  destruct (encode m1 l2) as [i2 m2] eqn:E2.
  (* (l1, i1) is in m1 *)
  assert (Hin1 : In (l1, i1) m1).
  { unfold encode in E1. destruct (class_find m l1) eqn:F; inversion E1; subst.
    - apply class_find_some. assumption.
    - apply in_or_app. right. left. reflexivity. }
  destruct Hwf1 as [Hnd1 Hid1].
  unfold encode in E2. destruct (class_find m1 l2) eqn:F2; inversion E2; subst.
  - apply class_find_some in F2. split; intro H.
    + subst. (* same id in a map with position-determined ids -> same entry *)
      apply In_nth_error in Hin1. destruct Hin1 as [n1 Hn1].
      apply In_nth_error in F2. destruct F2 as [n2 Hn2].
      pose proof (Hid1 _ _ _ Hn1). pose proof (Hid1 _ _ _ Hn2).
      assert (n1 = n2) by lia. subst. rewrite Hn1 in Hn2. inversion Hn2. reflexivity.
    + subst. pose proof (class_find_in m2 l2 i1 Hnd1 Hin1) as A.
      pose proof (class_find_in m2 l2 i2 Hnd1 F2) as B. congruence.
  - split; intro H.
    + exfalso. apply In_nth_error in Hin1. destruct Hin1 as [n1 Hn1].
      pose proof (Hid1 _ _ _ Hn1) as Hz.
      assert (Hlt : (n1 < length m1)%nat) by (apply nth_error_Some; congruence). lia.
    + subst. exfalso. apply (class_find_none m1 l2 F2). apply (in_map fst) in Hin1. exact Hin1.
Qed.

Lemma class_name_in : forall m l i, wf_classes m -> In (l, i) m -> class_name m i = l.
Proof.
  intros m l i [Hnd Hid] Hin.
  apply In_nth_error in Hin. destruct Hin as [n Hn].
  revert n i l Hnd Hid Hn.
  (* induction with ids shifted: generalise the id function *)
  assert (G : forall (m : classes_t) (off : nat) n i l,
             (forall k l' z, nth_error m k = Some (l', z) -> z = Z.of_nat (off + k)) ->
             nth_error m n = Some (l, i) -> class_name m i = l).
  { induction m0 as [|[l0 z0] m0 IH]; intros off n i l Hid Hn; [destruct n; discriminate|].
    cbn [class_name]. destruct n as [|n].
    - cbn in Hn. inversion Hn; subst. rewrite Z.eqb_refl. reflexivity.
    - cbn in Hn. pose proof (Hid O l0 z0 eq_refl) as H0. pose proof (Hid (S n) l i Hn) as H1.
      replace (z0 =? i) with false by lia.
      apply (IH (S off) n).
      + intros k l' z Hk. rewrite (Hid (S k) l' z Hk). f_equal. lia.
      + assumption. }
  intros n i l Hnd Hid Hn. apply (G m O n i l); [|assumption].
  intros k l' z Hk. cbn. eapply Hid. eassumption.
Qed.

(* names are recoverable from ids *)
Lemma class_name_encode_lemma : forall m l, wf_classes m ->
  class_name (snd (encode m l)) (fst (encode m l)) = l.
Proof.
  intros m l Hwf. apply class_name_in; [apply encode_wf; assumption|].
  unfold encode. destruct (class_find m l) eqn:F; cbn [fst snd].
  - apply class_find_some. assumption.
  - apply in_or_app. right. left. reflexivity.
Qed.

(* ids in order of first appearance *)
Fixpoint encode_all (m : classes_t) (labels : list bytes) : list Z * classes_t :=
  match labels with
  | [] => ([], m)
  | l :: r => let (i, m1) := encode m l in let (is, m2) := encode_all m1 r in (i :: is, m2)
  end.

Fixpoint first_appearance (seen : list bytes) (labels : list bytes) : list bytes :=
  match labels with
  | [] => seen
  | l :: r => if mem_bytes l seen then first_appearance seen r else first_appearance (seen ++ [l]) r
  end.

Lemma mem_bytes_in : forall x l, mem_bytes x l = true <-> In x l.
Proof.
  induction l as [|y l IH]; cbn; [split; [discriminate|intros []]|].
  rewrite orb_true_iff, IH, bytes_eqb_eq. tauto.
Qed.

Definition numbered (ls : list bytes) : classes_t := combine ls (map Z.of_nat (seq 0 (length ls))).

Lemma combine_app_eq : forall {A B} (l1 l2 : list A) (k1 k2 : list B), length l1 = length k1 ->
  combine (l1 ++ l2) (k1 ++ k2) = combine l1 k1 ++ combine l2 k2.
Proof.
  induction l1 as [|x l1 IH]; intros l2 [|y k1] k2 H; cbn in *; try discriminate; [reflexivity|].
  f_equal. apply IH. lia.
Qed.

Lemma numbered_app : forall ls l, numbered (ls ++ [l]) = numbered ls ++ [(l, Z.of_nat (length ls))].
Proof.
  intros ls l. unfold numbered. rewrite app_length. cbn [length]. rewrite Nat.add_1_r, seq_S, map_app.
  cbn [map]. rewrite combine_app_eq by (rewrite map_length, seq_length; reflexivity). reflexivity.
Qed.

Lemma map_fst_combine_eq : forall {A B} (l : list A) (k : list B), length l = length k -> map fst (combine l k) = l.
Proof.
  induction l as [|x l IH]; intros [|y k] H; cbn in *; try discriminate; [reflexivity|]. f_equal. apply IH. lia.
Qed.

Lemma map_fst_numbered : forall ls, map fst (numbered ls) = ls.
Proof. intro ls. unfold numbered. rewrite map_fst_combine_eq; [reflexivity|]. rewrite map_length, seq_length. reflexivity. Qed.

Lemma numbered_length : forall ls, length (numbered ls) = length ls.
Proof. intro ls. unfold numbered. rewrite combine_length, map_length, seq_length. lia. Qed.

Lemma class_find_numbered_none : forall ls l, mem_bytes l ls = false -> class_find (numbered ls) l = None.
Proof.
  intros ls l H. destruct (class_find (numbered ls) l) eqn:E; [|reflexivity].
  apply class_find_some in E. apply (in_map fst) in E. rewrite map_fst_numbered in E. cbn in E.
  apply mem_bytes_in in E. congruence.
Qed.

Lemma class_find_numbered_some : forall ls l, mem_bytes l ls = true -> exists i, class_find (numbered ls) l = Some i.
Proof.
  intros ls l H. destruct (class_find (numbered ls) l) eqn:E; [eauto|].
  apply class_find_none in E. rewrite map_fst_numbered in E. apply mem_bytes_in in H. contradiction.
Qed.

(* the final map numbers the distinct labels in order of first appearance *)
Lemma encode_first_appearance_lemma : forall labels seen,
  snd (encode_all (numbered seen) labels) = numbered (first_appearance seen labels).
Proof.
  induction labels as [|l r IH]; intro seen; [reflexivity|].
  cbn [encode_all first_appearance]. unfold encode.
  destruct (mem_bytes l seen) eqn:E.
  - destruct (class_find_numbered_some seen l E) as [i Hi]. rewrite Hi.
    specialize (IH seen). destruct (encode_all (numbered seen) r). exact IH.
  - rewrite (class_find_numbered_none seen l E). rewrite numbered_length, <- numbered_app.
    specialize (IH (seen ++ [l])). destruct (encode_all (numbered (seen ++ [l])) r). exact IH.
Qed.
