(* C10: memory safety of the repaired variant [fixed_v] for reads INTO A FRAME THAT ALREADY HAS
   STATE (Csv/HistoryDefs.v) and for whole histories of reads on one dataframe object.

   The guards of the repaired code are local (the width guard of columns_info::build, the
   `record.size() <= output_index` guard before std::rotate, the width test of read_record),
   so safety needs NO assumption on the frame the read starts from: arbitrary columns,
   arbitrary class map, every output index (the unsigned wrap of `index - 1` included). *)
From Coq Require Import ZArith List Bool Lia ZifyBool Arith.
From VV Require Import Csv.CsvDefs Csv.SafeProofs Csv.HistoryDefs.
Import ListNotations.

Section HistoryReaders.
Variable is_number : bytes -> bool.
Variable stod : bytes -> conv.
Variable stoi : bytes -> conv.

(* ------------------------------------------------------------ ingest from an ARBITRARY frame *)
(* safety only: no invariant on the start frame (SafeProofs.ingest_sp needs IInv, i.e. no
   columns when count = 0, because it also tracks the width of the last example) *)
Lemma cont_safe_sp : forall oi hh rest count df rcd' (Q : dataframe -> Prop),
  (forall df2, sp (ingest is_number stod stoi fixed_v oi hh rest (S count) df2) Q) ->
  sp (cont is_number stod stoi fixed_v oi hh rest count df rcd') Q.
Proof.
  intros oi hh rest count df rcd' Q HK. unfold cont.
  eapply sp_bind with (P := fun _ => True).
  - destruct (Nat.ltb count 10) eqn:Ec.
    + eapply sp_weaken; [apply build_sp|]. intros c _. exact I.
    + apply sp_Ok. exact I.
  - intros cols _. cbv zeta. eapply sp_bind with (P := fun _ => True).
    + destruct (negb hh || negb (Nat.eqb count 0)) eqn:Eg.
      * eapply sp_weaken; [apply read_record_sp|]. intros d _. exact I.
      * apply sp_Ok. exact I.
    + intros df2 _. apply HK.
Qed.

Lemma ingest_any_sp : forall oi hh recs count df,
  sp (ingest is_number stod stoi fixed_v oi hh recs count df) (fun _ => True).
Proof.
  intros oi hh. induction recs as [|rcd rest IH]; intros count df.
  - cbn [ingest]. apply sp_Ok. exact I.
  - rewrite ingest_cons. destruct oi as [k|].
    + cbn [g_rotate_csv fixed_v andb]. destruct (Nat.leb (length rcd) k) eqn:E.
      * apply IH.
      * apply Nat.leb_gt in E. destruct (Nat.ltb 0 k) eqn:Ek.
        -- eapply sp_bind; [apply rotate_front_sp; assumption|]. intros rcd' _.
           apply cont_safe_sp. intros df2. apply IH.
        -- apply cont_safe_sp. intros df2. apply IH.
    + apply cont_safe_sp. intros df2. apply IH.
Qed.

Lemma read_csv_on_sp : forall df0 text p,
  sp (read_csv_on is_number stod stoi fixed_v df0 text p)
     (fun df => is_valid df = Ok true /\ dataset df <> [] /\ uniform_input_width df).
Proof.
  intros df0 text p. unfold read_csv_on. cbv zeta.
  eapply sp_bind with (P := fun _ => True).
  - destruct (has_header (p_dialect p)); destruct (Z.eqb (delimiter (p_dialect p)) 0);
      try (apply sp_Ok; exact I);
      (eapply sp_bind; [apply sniffer_sp|intros sn _; apply sp_Ok; exact I]).
  - intros d _. eapply sp_bind; [apply ingest_any_sp|].
    intros df _. eapply sp_weaken; [apply finish_csv_sp|].
    intros df' (-> & H1 & H2 & H3). auto.
Qed.

(* ------------------------------------------------------------ XRFF on an existing frame *)
(* SafeProofs.xrff_instances_sp is already stated for an arbitrary start frame and an
   arbitrary output index, so the wrapped index needs nothing new *)
Lemma read_xrff_on_sp : forall uint_max df0 dom flt,
  sp (read_xrff_on is_number stod stoi uint_max fixed_v df0 dom flt)
     (fun p => snd p = 0 \/
               (snd p = length (dataset (fst p)) /\ is_valid (fst p) = Ok true /\
                uniform_input_width (fst p))).
Proof.
  intros uint_max df0 dom flt. unfold read_xrff_on.
  destruct (x_attributes dom) as [attrs|] eqn:Ea; [|apply sp_Exn].
  eapply sp_bind; [apply xrff_attrs_sp|]. intros [[[n_output output_index] index] cols] _.
  destruct (is_nil cols) eqn:En; [apply sp_Exn|]. cbv zeta.
  destruct (x_instances dom) as [insts|] eqn:Ei; [|apply sp_Exn].
  eapply sp_bind; [apply xrff_instances_sp|]. intros df _.
  destruct (is_valid_sp df) as [Hs Hp].
  destruct (is_valid df) as [ok|e|s] eqn:Ev; cbn [bind].
  - apply sp_Ok. cbn [fst snd]. destruct ok; [right|left; reflexivity].
    split; [reflexivity|]. split; [assumption|]. apply (Hp true); reflexivity.
  - apply sp_Exn.
  - exfalso. eapply Hs. reflexivity.
Qed.

(* ------------------------------------------------------------ histories *)
Lemma run_history_sp : forall uint_max steps df0,
  sp (run_history is_number stod stoi uint_max fixed_v df0 steps) (fun _ => True).
Proof.
  intros uint_max. induction steps as [|st r IH]; intros df0; cbn [run_history].
  - apply sp_Ok. exact I.
  - destruct st as [text p|dom flt].
    + eapply sp_bind; [apply read_csv_on_sp|]. intros df' _. apply IH.
    + eapply sp_bind; [apply read_xrff_on_sp|]. intros x _. apply IH.
Qed.

(* ------------------------------------------------------------ ties with the fresh-frame readers *)
Lemma read_csv_on_empty : forall v text p,
  read_csv_on is_number stod stoi v empty_df text p = read_csv is_number stod stoi v text p.
Proof. reflexivity. Qed.

Lemma xrff_attrs_count : forall l n oi idx cols n' oi' idx' cols',
  xrff_attrs l n oi idx cols = Ok (n', oi', idx', cols') ->
  idx' = idx + length l /\ length cols' = length cols + length l.
Proof.
  induction l as [|a r IH]; intros n oi idx cols n' oi' idx' cols' H; cbn [xrff_attrs] in H.
  - inversion H; subst. cbn [length]. lia.
  - cbv zeta in H.
    destruct (xa_class_yes a && Nat.ltb 1 (if xa_class_yes a then S n else n)) eqn:Eg; [discriminate|].
    apply IH in H. destruct H as [H1 H2]. cbn [length]. split; [lia|].
    rewrite H2. destruct (xa_class_yes a); [cbn [length]|rewrite app_length; cbn [length]]; lia.
Qed.

(* on a fresh frame the wrapped value is never used: no attribute means no column *)
Lemma read_xrff_on_empty : forall uint_max v dom flt,
  read_xrff_on is_number stod stoi uint_max v empty_df dom flt = read_xrff is_number stod stoi v dom flt.
Proof.
  intros uint_max v dom flt. unfold read_xrff_on, read_xrff. cbn [columns classes empty_df].
  destruct (x_attributes dom) as [attrs|] eqn:Ea; [|reflexivity].
  destruct (xrff_attrs attrs 0 0 0 []) as [[[[n_output output_index] index] cols]|e|s] eqn:Ex;
    cbn [bind]; [|reflexivity|reflexivity].
  apply xrff_attrs_count in Ex. destruct Ex as [Hi Hc]. cbn [length plus] in Hi, Hc.
  destruct (is_nil cols) eqn:En; [reflexivity|].
  destruct (Nat.eqb index 0) eqn:E0; [|reflexivity].
  apply Nat.eqb_eq in E0. destruct cols as [|c cols]; [discriminate|]. cbn [length] in Hc. lia.
Qed.
End HistoryReaders.

(* ------------------------------------------------------------ the lemmas *)
Lemma read_csv_on_total_safe_lemma : forall is_number stod stoi (df0 : dataframe) (text : bytes) (p : params),
  safe (read_csv_on is_number stod stoi fixed_v df0 text p)
  /\ (forall df, read_csv_on is_number stod stoi fixed_v df0 text p = Ok df ->
        is_valid df = Ok true /\ dataset df <> [] /\ uniform_input_width df).
Proof.
  intros is_number stod stoi df0 text p.
  destruct (read_csv_on_sp is_number stod stoi df0 text p) as [Hs Hp]. split; [assumption|].
  intros df E. exact (Hp df E).
Qed.

Lemma read_xrff_on_total_safe_lemma : forall is_number stod stoi uint_max (df0 : dataframe) (dom : xdom) (flt : filter_t),
  safe (read_xrff_on is_number stod stoi uint_max fixed_v df0 dom flt)
  /\ (forall df n, read_xrff_on is_number stod stoi uint_max fixed_v df0 dom flt = Ok (df, n) ->
        n = 0%nat \/ (n = length (dataset df) /\ is_valid df = Ok true /\ uniform_input_width df)).
Proof.
  intros is_number stod stoi uint_max df0 dom flt.
  destruct (read_xrff_on_sp is_number stod stoi uint_max df0 dom flt) as [Hs Hp]. split; [assumption|].
  intros df n E. exact (Hp (df, n) E).
Qed.

Lemma run_history_safe_lemma : forall is_number stod stoi uint_max (steps : list read_step) (df0 : dataframe),
  safe (run_history is_number stod stoi uint_max fixed_v df0 steps).
Proof.
  intros is_number stod stoi uint_max steps df0.
  eapply sp_safe. apply run_history_sp.
Qed.

(* ------------------------------------------------------------ non-vacuity: the wrap matters *)
Local Open Scope Z_scope.

(* digits only *)
Definition hx_is_number (s : bytes) : bool :=
  negb (is_nil s) && forallb (fun c => (48 <=? c) && (c <=? 57)) s.
Definition hx_stod (s : bytes) : conv :=
  if hx_is_number s then CvOk (fold_left (fun a c => 10 * a + (c - 48)) s 0) else CvInvalid.

(* first document: two numeric attributes, the second one is the class; one instance *)
Definition hx_dom1 : xdom :=
  {| x_attributes := Some [ {| xa_name := [97]; xa_class_yes := false; xa_type := s_numeric; xa_labels := [] |};
                            {| xa_name := [98]; xa_class_yes := true; xa_type := s_numeric; xa_labels := [] |} ];
     x_instances := Some [ [[49]; [50]] ] |}.
(* second document: EMPTY attribute list, one instance with three values *)
Definition hx_dom2 : xdom :=
  {| x_attributes := Some []; x_instances := Some [ [[49]; [50]; [51]] ] |}.

(* the frame the first read leaves behind has columns *)
Example hx_first_read :
  exists df1, read_xrff_on hx_is_number hx_stod hx_stod 1000%nat pinned_v empty_df hx_dom1 no_filter = Ok (df1, 1%nat)
              /\ length (columns df1) = 2%nat.
Proof. eexists. split; vm_compute; reflexivity. Qed.

Definition hx_df1 : dataframe :=
  match read_xrff_on hx_is_number hx_stod hx_stod 1000%nat pinned_v empty_df hx_dom1 no_filter with
  | Ok (df, _) => df | _ => empty_df end.

(* pinned tree: 0u - 1 wraps, std::rotate(begin, begin + UINT_MAX, ...) on a 3-element record *)
Example hx_xrff_pinned_oob :
  read_xrff_on hx_is_number hx_stod hx_stod 1000%nat pinned_v hx_df1 hx_dom2 no_filter = OOB S_rotate_xrff.
Proof. vm_compute. reflexivity. Qed.

(* repaired tree: the instance is skipped, the read returns normally (0 examples) *)
Example hx_xrff_fixed_ok :
  exists df, read_xrff_on hx_is_number hx_stod hx_stod 1000%nat fixed_v hx_df1 hx_dom2 no_filter = Ok (df, 0%nat)
             /\ dataset df = [] /\ length (columns df) = 2%nat.
Proof. eexists. split; [vm_compute; reflexivity|]. split; reflexivity. Qed.

(* the same as a history on one object *)
Example hx_history_pinned_oob :
  run_history hx_is_number hx_stod hx_stod 1000%nat pinned_v empty_df
              [StepXrff hx_dom1 no_filter; StepXrff hx_dom2 no_filter] = OOB S_rotate_xrff.
Proof. vm_compute. reflexivity. Qed.

Example hx_history_fixed_ok :
  exists df, run_history hx_is_number hx_stod hx_stod 1000%nat fixed_v empty_df
                         [StepXrff hx_dom1 no_filter; StepXrff hx_dom2 no_filter] = Ok df.
Proof. eexists. vm_compute. reflexivity. Qed.

(* on a FRESH frame the same second document is rejected by both trees (no column): the
   out-of-bounds access needs the history *)
Example hx_xrff_fresh_pinned :
  read_xrff_on hx_is_number hx_stod hx_stod 1000%nat pinned_v empty_df hx_dom2 no_filter = Exn E_data_format.
Proof. vm_compute. reflexivity. Qed.

(* read_csv with an output index beyond the record: "1,2\n", output_index = 1000 *)
Definition hx_params : params :=
  {| p_dialect := {| delimiter := 44; trim_ws := false; has_header := NO_HEADER; quoting := REMOVE_QUOTES |};
     p_filter := no_filter; p_output_index := Some 1000%nat |}.
Definition hx_text : bytes := [49; 44; 50; 10].

Example hx_csv_pinned_oob :
  read_csv hx_is_number hx_stod hx_stod pinned_v hx_text hx_params = OOB S_rotate_csv.
Proof. vm_compute. reflexivity. Qed.
Example hx_csv_on_pinned_oob :
  read_csv_on hx_is_number hx_stod hx_stod pinned_v hx_df1 hx_text hx_params = OOB S_rotate_csv.
Proof. vm_compute. reflexivity. Qed.
Example hx_csv_fixed_exn :
  read_csv hx_is_number hx_stod hx_stod fixed_v hx_text hx_params = Exn E_insufficient_data.
Proof. vm_compute. reflexivity. Qed.
Example hx_csv_on_fixed_exn :
  read_csv_on hx_is_number hx_stod hx_stod fixed_v hx_df1 hx_text hx_params = Exn E_insufficient_data.
Proof. vm_compute. reflexivity. Qed.
