(* C09/C10: the literal constants of the hand-written model (Csv/CsvDefs.v) are the ones
   of the CURRENT sources: coq/Gen/CsvConsts.v is regenerated from utility/pocket_csv.h and
   kernel/gp/src/dataframe.cc on every check run (translate/csv_consts.py); the lemmas below
   stop compiling as soon as a constant of the source changes (delimiter list or its order,
   the number of lines sniffed, the 3:2 consistency test, the value returned when no
   candidate occurs, the quote character, the column tags, the number of records seen by
   columns_info::build, the weka type table). *)
From Coq Require Import ZArith List Bool Lia.
From VV Require Import Csv.CsvDefs Gen.CsvConsts.
Import ListNotations.
Local Open Scope Z_scope.

Fixpoint z_insert (x : Z) (l : list Z) : list Z :=
  match l with [] => [x] | y :: r => if x <=? y then x :: l else y :: z_insert x r end.
Definition z_sort (l : list Z) : list Z := fold_right z_insert [] l.

(* guess_delimiter written with the regenerated constants *)
Definition guess_delimiter_gen (text : bytes) (lines : nat) : Z :=
  let ls := scanned_lines text lines in
  match ls with
  | [] => 0
  | _ =>
    let scanned := length ls in
    let mw := map (fun c => (c, mode_weight (map (count_char c) ls))) (z_sort gen_preferred) in
    match mw with
    | [] => 0
    | b :: r =>
      let best := max_by_weight r b in
      if Nat.eqb (fst (snd best)) 0 then gen_no_delimiter
      else if Nat.ltb (gen_ratio_weight * snd (snd best)) (gen_ratio_scanned * scanned) then 0
      else fst best
    end
  end.

Fixpoint weka_lookup (t : list (bytes * domain)) (dflt : domain) (n : bytes) : domain :=
  match t with
  | [] => dflt
  | (k, d) :: r => if bytes_eqb n k then d else weka_lookup r dflt n
  end.

Lemma preferred_is_source : preferred = gen_preferred.
Proof. reflexivity. Qed.

Lemma candidates_are_sorted_source : candidates_sorted = z_sort gen_preferred.
Proof. reflexivity. Qed.

Lemma guess_delimiter_is_source : forall text lines, guess_delimiter text lines = guess_delimiter_gen text lines.
Proof. reflexivity. Qed.

Lemma sniffer_is_source : forall is_number text,
  sniffer is_number text =
  (let d := guess_delimiter_gen text gen_sniff_lines in
   bind (sniff_has_header is_number text gen_sniff_lines d)
        (fun h => Ok {| delimiter := d; trim_ws := false; has_header := h; quoting := REMOVE_QUOTES |})).
Proof. reflexivity. Qed.

Lemma tags_are_source :
  none_tag = gen_none_tag /\ skip_tag = gen_skip_tag /\ number_tag = gen_number_tag /\ string_tag = gen_string_tag.
Proof. repeat split; reflexivity. Qed.

(* the literals 34 (quote) of [pl]/[render_field] and 10 (records seen by build) of [ingest] *)
Lemma literals_are_source : gen_quote = 34 /\ gen_build_records = 10%nat.
Proof. split; reflexivity. Qed.

Lemma from_weka_is_source : forall n, from_weka n = weka_lookup gen_weka gen_weka_default n.
Proof.
  intro n. unfold from_weka, gen_weka, gen_weka_default, s_integer, s_numeric, s_real, s_nominal, s_string.
  cbn [weka_lookup].
  repeat match goal with |- context [bytes_eqb n ?k] => destruct (bytes_eqb n k) end; reflexivity.
Qed.

Lemma constants_match_source_lemma :
  preferred = gen_preferred /\ candidates_sorted = z_sort gen_preferred /\
  (forall text lines, guess_delimiter text lines = guess_delimiter_gen text lines) /\
  (forall is_number text,
     sniffer is_number text =
     (let d := guess_delimiter_gen text gen_sniff_lines in
      bind (sniff_has_header is_number text gen_sniff_lines d)
           (fun h => Ok {| delimiter := d; trim_ws := false; has_header := h; quoting := REMOVE_QUOTES |}))) /\
  (none_tag = gen_none_tag /\ skip_tag = gen_skip_tag /\ number_tag = gen_number_tag /\ string_tag = gen_string_tag) /\
  (gen_quote = 34 /\ gen_build_records = 10%nat) /\
  (forall n, from_weka n = weka_lookup gen_weka gen_weka_default n).
Proof.
  repeat split; try reflexivity. apply from_weka_is_source.
Qed.
