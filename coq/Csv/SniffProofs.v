(* Lemmas about the sniffer of pocket_csv (C09): guess_delimiter and
   has_header on unambiguous inputs. *)
From Coq Require Import ZArith List Bool Lia ZifyBool Arith.
From VV Require Import Csv.CsvDefs.
Import ListNotations.

(* ------------------------------------------------------------ sort_nat keeps length and Forall *)
Lemma insert_sorted_length : forall x l, length (insert_sorted x l) = S (length l).
Proof.
  intros x l. induction l as [|y r IH]; cbn [insert_sorted]; [reflexivity|].
  destruct (Nat.leb x y); cbn [length]; [reflexivity|rewrite IH; reflexivity].
Qed.

Lemma sort_nat_length : forall l, length (sort_nat l) = length l.
Proof.
  induction l as [|x r IH]; [reflexivity|].
  unfold sort_nat in *. cbn [fold_right]. rewrite insert_sorted_length, IH. reflexivity.
Qed.

Lemma insert_sorted_Forall : forall (P : nat -> Prop) x l,
  Forall P (insert_sorted x l) <-> P x /\ Forall P l.
Proof.
  intros P x l. induction l as [|y r IH]; cbn [insert_sorted].
  - rewrite Forall_cons_iff. tauto.
  - destruct (Nat.leb x y).
    + rewrite Forall_cons_iff. tauto.
    + rewrite !Forall_cons_iff, IH. tauto.
Qed.

Lemma sort_nat_Forall : forall (P : nat -> Prop) l, Forall P (sort_nat l) <-> Forall P l.
Proof.
  intros P l. induction l as [|x r IH].
  - cbn. tauto.
  - unfold sort_nat in *. cbn [fold_right]. rewrite insert_sorted_Forall, Forall_cons_iff, IH. tauto.
Qed.

Lemma all_eq_repeat : forall (k : nat) l, Forall (eq k) l -> l = repeat k (length l).
Proof.
  intros k l H. induction H as [|x l Hx _ IH]; [reflexivity|].
  cbn [length repeat]. subst x. f_equal. exact IH.
Qed.

(* ------------------------------------------------------------ mode of a constant vector *)
Lemma mode_loop_repeat : forall n k c,
  mode_loop (repeat k n) k c c [(k, c)] = [(k, c + n)].
Proof.
  induction n as [|n IH]; intros k c; cbn [repeat mode_loop].
  - rewrite Nat.add_0_r. reflexivity.
  - rewrite Nat.eqb_refl. replace (Nat.ltb c (S c)) with true by lia.
    rewrite IH. do 2 f_equal. lia.
Qed.

Lemma mode_all_eq : forall cf k, cf <> [] -> Forall (eq k) cf ->
  mode (sort_nat cf) = [(k, length cf)].
Proof.
  intros cf k Hne Hall.
  assert (Hs : sort_nat cf = repeat k (length cf)).
  { rewrite <- (sort_nat_length cf). apply all_eq_repeat. apply sort_nat_Forall. exact Hall. }
  rewrite Hs. destruct cf as [|x cf']; [congruence|].
  cbn [length repeat mode]. rewrite mode_loop_repeat. reflexivity.
Qed.

Lemma mode_weight_all_eq : forall cf k, cf <> [] -> 1 <= k -> Forall (eq k) cf ->
  mode_weight cf = (k, length cf).
Proof.
  intros cf k Hne Hk Hall. unfold mode_weight. rewrite (mode_all_eq cf k Hne Hall).
  replace (Nat.eqb k 0) with false by lia. reflexivity.
Qed.

(* ------------------------------------------------------------ invariant of mode_loop
   p is the processed prefix: the running maximum never exceeds its length
   and reaches it only when all the processed elements are equal. *)
Definition entry_ok (p : list nat) (vc : nat * nat) : Prop :=
  snd vc <= length p /\ (snd vc = length p -> Forall (eq (fst vc)) p).

Definition minv (p : list nat) (cur count mx : nat) (ret : list (nat * nat)) : Prop :=
  count <= mx /\ mx <= length p /\
  (count = length p -> Forall (eq cur) p) /\
  Forall (fun vc => snd vc = mx /\ (mx = length p -> Forall (eq (fst vc)) p)) ret.

Lemma minv_key : forall p cur count x,
  (count = length p -> Forall (eq cur) p) ->
  (if Nat.eqb x cur then S count else 1) = S (length p) ->
  Forall (eq x) (p ++ [x]).
Proof.
  intros p cur count x Hc Hl. apply Forall_app. split; [|constructor; [reflexivity|constructor]].
  destruct (Nat.eqb x cur) eqn:E.
  - assert (x = cur) by lia. subst x. apply Hc. lia.
  - assert (Hp : length p = 0) by lia. apply length_zero_iff_nil in Hp. subst p. constructor.
Qed.

Lemma mode_loop_inv : forall l p cur count mx ret,
  minv p cur count mx ret ->
  Forall (entry_ok (p ++ l)) (mode_loop l cur count mx ret).
Proof.
  induction l as [|x l IH]; intros p cur count mx ret (Hcm & Hml & Hc & Hret).
  - rewrite app_nil_r. cbn [mode_loop]. eapply Forall_impl; [|exact Hret].
    intros vc (H1 & H2). unfold entry_ok. split; [lia|]. intros H3. apply H2. lia.
  - replace (p ++ x :: l) with ((p ++ [x]) ++ l) by (rewrite <- app_assoc; reflexivity).
    cbn [mode_loop]. cbv zeta.
    pose proof (minv_key p cur count x Hc) as Hkey.
    remember (if Nat.eqb x cur then S count else 1) as count' eqn:Ec'.
    assert (Hle : count' <= S count) by (destruct (Nat.eqb x cur); lia).
    assert (Hlen : length (p ++ [x]) = S (length p)) by (rewrite app_length; cbn; lia).
    destruct (Nat.ltb mx count') eqn:E1; [|destruct (Nat.eqb count' mx) eqn:E2]; apply IH;
      unfold minv; rewrite Hlen.
    + split; [lia|split; [lia|split]].
      * intros H. apply Hkey. exact H.
      * constructor; [|constructor]. cbn [fst snd]. split; [reflexivity|]. intros H. apply Hkey. exact H.
    + split; [lia|split; [lia|split]].
      * intros H. apply Hkey. exact H.
      * apply Forall_app. split.
        -- eapply Forall_impl; [|exact Hret]. intros vc (H1 & H2). split; [exact H1|]. intros H3. lia.
        -- constructor; [|constructor]. cbn [fst snd]. split; [reflexivity|]. intros H. apply Hkey. lia.
    + split; [lia|split; [lia|split]].
      * intros H. lia.
      * eapply Forall_impl; [|exact Hret]. intros vc (H1 & H2). split; [exact H1|]. intros H3. lia.
Qed.

Lemma mode_inv : forall l, Forall (entry_ok l) (mode l).
Proof.
  intros [|x r]; [constructor|]. unfold mode.
  change (x :: r) with ([x] ++ r). apply mode_loop_inv.
  unfold minv. cbn [length]. split; [lia|split; [lia|split]].
  - intros _. constructor; [reflexivity|constructor].
  - constructor; [|constructor]. cbn [fst snd]. split; [reflexivity|].
    intros _. constructor; [reflexivity|constructor].
Qed.

Lemma mode_weight_other : forall cf, cf <> [] ->
  ~ (exists k', 1 <= k' /\ Forall (eq k') cf) ->
  snd (mode_weight cf) < length cf.
Proof.
  intros cf Hne Hno.
  assert (Hpos : 0 < length cf) by (destruct cf; [congruence|cbn; lia]).
  unfold mode_weight. pose proof (mode_inv (sort_nat cf)) as Hinv.
  destruct (mode (sort_nat cf)) as [|[f w] [|e2 rest]]; cbn [snd]; try exact Hpos.
  destruct (Nat.eqb f 0) eqn:Ef; cbn [snd]; [exact Hpos|].
  inversion Hinv as [|? ? (Hle & Hall) _]; subst. cbn [fst snd] in *.
  rewrite sort_nat_length in *.
  destruct (Nat.eq_dec w (length cf)) as [Hw|Hw]; [|lia].
  exfalso. apply Hno. exists f. split; [lia|]. apply sort_nat_Forall. apply Hall. exact Hw.
Qed.

(* ------------------------------------------------------------ std::max_element with a unique maximum *)
Lemma max_by_weight_unique : forall l best x,
  In x (best :: l) ->
  (forall y, In y (best :: l) -> y = x \/ snd (snd y) < snd (snd x)) ->
  max_by_weight l best = x.
Proof.
  induction l as [|y r IH]; intros best x Hin Hdom.
  - cbn [max_by_weight]. destruct Hin as [H|[]]. exact H.
  - cbn [max_by_weight]. destruct (Nat.ltb (snd (snd best)) (snd (snd y))) eqn:E.
    + apply IH.
      * destruct Hin as [H|H]; [|exact H]. subst x.
        destruct (Hdom y (or_intror (or_introl eq_refl))) as [Hy|Hy]; [subst y|]; lia.
      * intros z Hz. apply Hdom. right. exact Hz.
    + apply IH.
      * destruct Hin as [H|[H|H]]; [left; exact H| |right; exact H]. subst x.
        destruct (Hdom best (or_introl eq_refl)) as [Hy|Hy]; [left; exact Hy|lia].
      * intros z [Hz|Hz]; apply Hdom; [left; exact Hz|right; right; exact Hz].
Qed.

(* ------------------------------------------------------------ (1) the delimiter *)
Lemma guess_delimiter_unambiguous_lemma :
  forall text lines d k,
    In d candidates_sorted -> (1 <= k)%nat ->
    scanned_lines text lines <> [] ->
    (forall l, In l (scanned_lines text lines) -> count_char d l = k) ->
    (forall c, In c candidates_sorted -> c <> d ->
        ~ (exists k', (1 <= k')%nat /\ forall l, In l (scanned_lines text lines) -> count_char c l = k')) ->
    guess_delimiter text lines = d.
Proof.
  intros text lines d k Hd Hk Hne Hall Hoth.
  unfold guess_delimiter. cbv zeta.
  remember (scanned_lines text lines) as ls eqn:Els.
  set (F := fun c : Z => (c, mode_weight (map (count_char c) ls))).
  assert (Hmapne : forall c, map (count_char c) ls <> []) by (intros c; destruct ls; [congruence|discriminate]).
  assert (HFd : F d = (d, (k, length ls))).
  { unfold F. f_equal. rewrite (mode_weight_all_eq _ k (Hmapne d) Hk).
    - rewrite map_length. reflexivity.
    - apply Forall_forall. intros n Hn. apply in_map_iff in Hn. destruct Hn as (l & Hl & Hin).
      subst n. symmetry. apply Hall. exact Hin. }
  assert (HFo : forall c, In c candidates_sorted -> c <> d -> snd (snd (F c)) < length ls).
  { intros c Hc Hcd. unfold F. cbn [snd]. rewrite <- (map_length (count_char c) ls).
    apply mode_weight_other; [apply Hmapne|]. intros (k' & Hk' & Hall').
    apply (Hoth c Hc Hcd). exists k'. split; [exact Hk'|]. intros l Hl.
    rewrite Forall_forall in Hall'. symmetry. apply Hall'. apply in_map. exact Hl. }
  destruct ls as [|l0 lr]; [congruence|].
  remember (l0 :: lr) as ls' eqn:Els'.
  remember (map F candidates_sorted) as mw eqn:Emw.
  assert (Hbest : forall b r, mw = b :: r -> max_by_weight r b = (d, (k, length ls'))).
  { intros b r Hbr. apply max_by_weight_unique.
    - rewrite <- Hbr, Emw, <- HFd. apply in_map. exact Hd.
    - intros y Hy. rewrite <- Hbr, Emw in Hy. apply in_map_iff in Hy. destruct Hy as (c & Hc & Hin).
      subst y. destruct (Z.eq_dec c d) as [->|Hcd]; [left; exact HFd|right].
      cbn [snd]. apply HFo; assumption. }
  destruct mw as [|b r].
  - unfold candidates_sorted in Emw. discriminate.
  - rewrite (Hbest b r eq_refl). cbn [fst snd].
    replace (Nat.eqb k 0) with false by lia.
    replace (Nat.ltb (3 * length ls') (2 * length ls')) with false by lia.
    reflexivity.
Qed.

(* ------------------------------------------------------------ (2) the header *)
Definition plain_num (s : bytes) : Prop := Forall (fun c => isalpha c = false) s.

Lemma plain_lower : forall s, plain_num s -> lower_case s = true.
Proof.
  intros s H. unfold lower_case. apply forallb_forall. intros c Hc.
  unfold plain_num in H. rewrite Forall_forall in H. rewrite (H c Hc). reflexivity.
Qed.

Lemma plain_upper : forall s, plain_num s -> upper_case s = true.
Proof.
  intros s H. unfold upper_case. apply forallb_forall. intros c Hc.
  unfold plain_num in H. rewrite Forall_forall in H. rewrite (H c Hc). reflexivity.
Qed.

Lemma drop_space_Forall : forall (P : Z -> Prop) s, Forall P s -> Forall P (drop_space s).
Proof.
  intros P s H. induction H as [|c r Hc Hr IH]; cbn [drop_space]; [constructor|].
  destruct (isspace c); [exact IH|constructor; assumption].
Qed.

Lemma trim_Forall : forall (P : Z -> Prop) s, Forall P s -> Forall P (trim s).
Proof.
  intros P s H. unfold trim. apply Forall_rev, drop_space_Forall, Forall_rev, drop_space_Forall, H.
Qed.

Lemma plain_not_capitalized : forall s, plain_num s -> capitalized s = false.
Proof.
  intros s H. unfold capitalized. pose proof (trim_Forall _ s H) as Ht.
  destruct (trim s) as [|c r]; [reflexivity|].
  inversion Ht as [|? ? Hc _]; subst. unfold isalpha in Hc.
  apply orb_false_iff in Hc. destruct Hc as [Hu _]. rewrite Hu. reflexivity.
Qed.

Lemma nth_error_app_len : forall A (pre : list A) x l n,
  length pre = n -> nth_error (pre ++ x :: l) n = Some x.
Proof. intros A pre x l n <-. induction pre as [|y pre IH]; [reflexivity|exact IH]. Qed.

Lemma set_nth_app_len : forall A (pre : list A) y l n x,
  length pre = n -> set_nth (pre ++ y :: l) n x = pre ++ x :: l.
Proof.
  intros A pre y l n x <-. induction pre as [|z pre IH]; [reflexivity|].
  cbn [app length set_nth]. rewrite IH. reflexivity.
Qed.

Lemma set_nth_same : forall A (l : list A) i x, nth_error l i = Some x -> set_nth l i x = l.
Proof.
  intros A l. induction l as [|y r IH]; intros i x H; [reflexivity|].
  destruct i as [|j]; cbn [set_nth nth_error] in *.
  - congruence.
  - rewrite (IH j x H). reflexivity.
Qed.

Lemma app_cons_mid : forall A (p : list A) x l, p ++ x :: l = (p ++ [x]) ++ l.
Proof. intros. rewrite <- app_assoc. reflexivity. Qed.

Lemma for_ck_sum : forall n a (body : nat -> Z -> res Z) d v0,
  (forall i v, a <= i < a + n -> body i v = Ok (v + d)%Z) ->
  for_ck (seq a n) body v0 = Ok (v0 + d * Z.of_nat n)%Z.
Proof.
  induction n as [|n IH]; intros a body d v0 H; cbn [seq for_ck].
  - f_equal. lia.
  - rewrite H by lia. cbn [bind]. rewrite (IH (S a) body d).
    + f_equal. lia.
    + intros i v Hi. apply H. lia.
Qed.

Section Header.
Variable is_number : bytes -> bool.

(* what hh_field writes in types[field] *)
Definition new_tag (h cell : bytes) (ty : Z) : Z :=
  if (ty =? skip_tag)%Z then ty else if blank cell then ty else
  if (ty =? find_column_tag is_number cell)%Z then ty else
  if capitalized h && lower_case cell then string_tag
  else if upper_case h && negb (upper_case cell) then string_tag
  else if (ty =? none_tag)%Z then find_column_tag is_number cell else skip_tag.

Lemma hh_field_eq : forall header row i types ty cell h,
  nth_error types i = Some ty -> nth_error row i = Some cell -> nth_error header i = Some h ->
  hh_field is_number header row i types = Ok (set_nth types i (new_tag h cell ty)).
Proof.
  intros header row i types ty cell h Ht Hr Hh. unfold hh_field, get. rewrite Ht, Hr, Hh. cbn [bind].
  unfold new_tag. pose proof (set_nth_same _ types i ty Ht) as Hs.
  destruct (ty =? skip_tag)%Z; [rewrite Hs; reflexivity|].
  destruct (blank cell); [rewrite Hs; reflexivity|]. cbv zeta.
  destruct (ty =? find_column_tag is_number cell)%Z; [rewrite Hs; reflexivity|].
  destruct (capitalized h && lower_case cell); [reflexivity|].
  destruct (upper_case h && negb (upper_case cell)); [reflexivity|].
  destruct (ty =? none_tag)%Z; reflexivity.
Qed.

Fixpoint upd (hs rs : record) (ts : list Z) : list Z :=
  match hs, rs, ts with
  | h :: hs', c :: rs', t :: ts' => new_tag h c t :: upd hs' rs' ts'
  | _, _, _ => []
  end.

Lemma for_ck_fields : forall hs rs ts pre_h pre_r pre_t n,
  length pre_h = n -> length pre_r = n -> length pre_t = n ->
  length rs = length hs -> length ts = length hs ->
  for_ck (seq n (length hs)) (hh_field is_number (pre_h ++ hs) (pre_r ++ rs)) (pre_t ++ ts)
  = Ok (pre_t ++ upd hs rs ts).
Proof.
  induction hs as [|h hs IH]; intros rs ts pre_h pre_r pre_t n Hh Hr Ht Hrs Hts.
  - destruct ts; [|discriminate]. destruct rs; reflexivity.
  - destruct rs as [|c rs]; [discriminate|]. destruct ts as [|t ts]; [discriminate|].
    cbn [length seq for_ck upd].
    rewrite (hh_field_eq _ _ _ _ t c h) by (apply nth_error_app_len; assumption).
    cbn [bind]. rewrite (set_nth_app_len _ pre_t t ts n _ Ht).
    rewrite (app_cons_mid _ pre_h h hs), (app_cons_mid _ pre_r c rs),
            (app_cons_mid _ pre_t _ ts), (app_cons_mid _ pre_t _ (upd hs rs ts)).
    cbn [length] in Hrs, Hts.
    apply IH; try (rewrite app_length; cbn [length]; lia); lia.
Qed.

(* the tag a column ends with, and its vote *)
Definition tagf (h : bytes) : Z := if capitalized h then string_tag else number_tag.
Definition vote_of (h : bytes) : Z := if capitalized h then 1%Z else if is_number h then (-1)%Z else 1%Z.

(* a numeric cell whose case cannot interact with the case of the column name *)
Definition good_cell (h cell : bytes) : Prop :=
  blank cell = false /\ is_number (trim cell) = true /\
  (plain_num cell \/ (capitalized h = false /\ upper_case h = false)).

Lemma find_tag_good : forall h cell, good_cell h cell -> find_column_tag is_number cell = number_tag.
Proof.
  intros h cell (Hb & Hn & _). unfold find_column_tag. cbv zeta. unfold blank in Hb. rewrite Hb, Hn. reflexivity.
Qed.

Lemma new_tag_none : forall h cell, good_cell h cell -> new_tag h cell none_tag = tagf h.
Proof.
  intros h cell Hg. unfold new_tag, tagf. rewrite (find_tag_good h cell Hg).
  destruct Hg as (Hb & _ & [Hp|(Hc & Hu)]); rewrite Hb.
  - rewrite (plain_lower _ Hp), (plain_upper _ Hp). destruct (capitalized h), (upper_case h); reflexivity.
  - rewrite Hc, Hu. reflexivity.
Qed.

Lemma new_tag_tagf : forall h cell, good_cell h cell -> new_tag h cell (tagf h) = tagf h.
Proof.
  intros h cell Hg. unfold new_tag, tagf. rewrite (find_tag_good h cell Hg).
  destruct Hg as (Hb & _ & [Hp|(Hc & Hu)]); rewrite Hb.
  - rewrite (plain_lower _ Hp), (plain_upper _ Hp). destruct (capitalized h), (upper_case h); reflexivity.
  - rewrite Hc, Hu. reflexivity.
Qed.

Lemma upd_none : forall hs rs, Forall2 good_cell hs rs ->
  upd hs rs (repeat none_tag (length hs)) = map tagf hs.
Proof.
  intros hs rs H. induction H as [|h c hs rs Hg _ IH]; [reflexivity|].
  cbn [length repeat upd map]. rewrite (new_tag_none h c Hg), IH. reflexivity.
Qed.

Lemma upd_tagf : forall hs rs, Forall2 good_cell hs rs ->
  upd hs rs (map tagf hs) = map tagf hs.
Proof.
  intros hs rs H. induction H as [|h c hs rs Hg _ IH]; [reflexivity|].
  cbn [upd map]. rewrite (new_tag_tagf h c Hg), IH. reflexivity.
Qed.

Lemma Forall2_length : forall A B (R : A -> B -> Prop) l1 l2, Forall2 R l1 l2 -> length l2 = length l1.
Proof. intros A B R l1 l2 H. induction H; cbn [length]; congruence. Qed.

Lemma row_step : forall header row ts, Forall2 good_cell header row -> length ts = length header ->
  for_ck (seq 0 (length header)) (hh_field is_number header row) ts = Ok (upd header row ts).
Proof.
  intros header row ts Hg Hts.
  apply (for_ck_fields header row ts [] [] [] 0); try reflexivity; [|exact Hts].
  exact (Forall2_length _ _ _ _ _ Hg).
Qed.

Lemma hh_rows_tagf : forall header lines rows checked,
  Forall (Forall2 good_cell header) rows ->
  hh_rows is_number header (length header) rows (map tagf header) checked lines = Ok (map tagf header).
Proof.
  intros header lines rows. induction rows as [|row rest IH]; intros checked HF; [reflexivity|].
  inversion HF as [|? ? Hrow Hrest]; subst. cbn [hh_rows].
  rewrite (Forall2_length _ _ _ _ _ Hrow), Nat.eqb_refl.
  rewrite (row_step header row _ Hrow) by apply map_length. cbn [bind].
  rewrite (upd_tagf _ _ Hrow).
  destruct (Nat.ltb lines checked); [reflexivity|]. apply IH. exact Hrest.
Qed.

Lemma hh_rows_none : forall header lines rows checked,
  rows <> [] -> Forall (Forall2 good_cell header) rows ->
  hh_rows is_number header (length header) rows (repeat none_tag (length header)) checked lines
  = Ok (map tagf header).
Proof.
  intros header lines [|row rest] checked Hne HF; [congruence|].
  inversion HF as [|? ? Hrow Hrest]; subst. cbn [hh_rows].
  rewrite (Forall2_length _ _ _ _ _ Hrow), Nat.eqb_refl.
  rewrite (row_step header row _ Hrow) by apply repeat_length. cbn [bind].
  rewrite (upd_none _ _ Hrow).
  destruct (Nat.ltb lines checked); [reflexivity|]. apply hh_rows_tagf. exact Hrest.
Qed.

Lemma hh_vote_eq : forall header i h v, nth_error header i = Some h ->
  hh_vote is_number header i (map tagf header) v = Ok (v + vote_of h)%Z.
Proof.
  intros header i h v Hh. unfold hh_vote, get. rewrite nth_error_map, Hh. cbn [option_map bind].
  unfold tagf, vote_of. destruct (capitalized h); [reflexivity|].
  destruct (is_number h); reflexivity.
Qed.

Lemma vote_total : forall header d, Forall (fun h => vote_of h = d) header ->
  for_ck (seq 0 (length header)) (fun f v => hh_vote is_number header f (map tagf header) v) 0%Z
  = Ok (d * Z.of_nat (length header))%Z.
Proof.
  intros header d HF. rewrite (for_ck_sum (length header) 0 _ d 0%Z); [f_equal; lia|].
  intros i v Hi. destruct (nth_error header i) as [h|] eqn:E.
  - rewrite (hh_vote_eq header i h v E). rewrite Forall_forall in HF.
    rewrite (HF h (nth_error_In _ _ E)). reflexivity.
  - apply nth_error_None in E. lia.
Qed.

Definition dialect_of (delim : Z) (q : quoting_e) : dialect :=
  {| delimiter := delim; trim_ws := false; has_header := HAS_HEADER; quoting := q |}.

Lemma sniff_core : forall text lines delim header first rows d,
  (exists tlk, records (dialect_of delim KEEP_QUOTES) no_filter text = header :: tlk) ->
  records (dialect_of delim REMOVE_QUOTES) no_filter text = first :: rows ->
  rows <> [] ->
  Forall (Forall2 good_cell header) rows ->
  Forall (fun h => vote_of h = d) header ->
  sniff_has_header is_number text lines delim
  = Ok (if (0 <? d * Z.of_nat (length header))%Z then HAS_HEADER else NO_HEADER).
Proof.
  intros text lines delim header first rows d (tlk & Hk) Hr Hne Hrows Hvote.
  unfold sniff_has_header. cbv zeta. unfold dialect_of in Hk, Hr. rewrite Hk, Hr. cbn [tl].
  rewrite (hh_rows_none header lines rows 0 Hne Hrows). cbn [bind].
  rewrite (vote_total header d Hvote). cbn [bind]. reflexivity.
Qed.

End Header.

Lemma Forall2_of_Forall : forall (P : bytes -> bytes -> Prop) header row,
  length row = length header -> Forall (fun c => forall h, In h header -> P h c) row ->
  Forall2 P header row.
Proof.
  intros P header. induction header as [|h hs IH]; intros [|c row] Hl HF; try discriminate; [constructor|].
  inversion HF as [|? ? Hc HF']; subst. constructor.
  - apply Hc. left. reflexivity.
  - apply IH; [cbn [length] in Hl; lia|].
    eapply Forall_impl; [|exact HF']. intros c' Hc' h' Hin. apply Hc'. right. exact Hin.
Qed.

(* (2a) all-numeric letter-free data under non-numeric names.  The statement
   first proposed (cells only required to be non-blank numbers) is false: see
   has_header_family_named_numeric_original_false below; cells must moreover
   be letter-free ([plain_num]). *)
Lemma has_header_family_named_numeric_lemma :
  forall is_number text lines delim header first rows,
    (exists tlk, records {| delimiter := delim; trim_ws := false; has_header := HAS_HEADER; quoting := KEEP_QUOTES |}
                         no_filter text = header :: tlk) ->
    records {| delimiter := delim; trim_ws := false; has_header := HAS_HEADER; quoting := REMOVE_QUOTES |}
            no_filter text = first :: rows ->
    header <> [] ->
    Forall (fun h => is_number h = false /\ h <> []) header ->
    rows <> [] ->
    Forall (fun row => length row = length header /\
                       Forall (fun cell => blank cell = false /\ is_number (trim cell) = true /\ plain_num cell) row) rows ->
    sniff_has_header is_number text lines delim = Ok HAS_HEADER.
Proof.
  intros is_number text lines delim header first rows Hk Hr Hhne Hhdr Hrne Hrows.
  rewrite (sniff_core is_number text lines delim header first rows 1%Z Hk Hr Hrne).
  - destruct header; [congruence|]. cbn [length]. replace (0 <? 1 * Z.of_nat (S (length header)))%Z with true by lia.
    reflexivity.
  - eapply Forall_impl; [|exact Hrows]. intros row (Hl & Hc). apply Forall2_of_Forall; [exact Hl|].
    eapply Forall_impl; [|exact Hc]. intros c (Hb & Hn & Hp) h _. unfold good_cell. auto.
  - eapply Forall_impl; [|exact Hhdr]. intros h (Hn & _). unfold vote_of. rewrite Hn.
    destruct (capitalized h); reflexivity.
Qed.

(* (2a') the same conclusion for arbitrary numeric cells (1e5, 1E5, inf, ...)
   when no column name is capitalized or upper case *)
Lemma has_header_family_lowername_numeric_lemma :
  forall is_number text lines delim header first rows,
    (exists tlk, records {| delimiter := delim; trim_ws := false; has_header := HAS_HEADER; quoting := KEEP_QUOTES |}
                         no_filter text = header :: tlk) ->
    records {| delimiter := delim; trim_ws := false; has_header := HAS_HEADER; quoting := REMOVE_QUOTES |}
            no_filter text = first :: rows ->
    header <> [] ->
    Forall (fun h => is_number h = false /\ capitalized h = false /\ upper_case h = false) header ->
    rows <> [] ->
    Forall (fun row => length row = length header /\
                       Forall (fun cell => blank cell = false /\ is_number (trim cell) = true) row) rows ->
    sniff_has_header is_number text lines delim = Ok HAS_HEADER.
Proof.
  intros is_number text lines delim header first rows Hk Hr Hhne Hhdr Hrne Hrows.
  rewrite (sniff_core is_number text lines delim header first rows 1%Z Hk Hr Hrne).
  - destruct header; [congruence|]. cbn [length]. replace (0 <? 1 * Z.of_nat (S (length header)))%Z with true by lia.
    reflexivity.
  - eapply Forall_impl; [|exact Hrows]. intros row (Hl & Hc). apply Forall2_of_Forall; [exact Hl|].
    eapply Forall_impl; [|exact Hc]. intros c (Hb & Hn) h Hin. unfold good_cell.
    rewrite Forall_forall in Hhdr. destruct (Hhdr h Hin) as (_ & Hcap & Hup). auto.
  - eapply Forall_impl; [|exact Hhdr]. intros h (Hn & _). unfold vote_of. rewrite Hn.
    destruct (capitalized h); reflexivity.
Qed.

(* (2b) a letter-free numeric first row over letter-free numeric data *)
Lemma has_header_family_all_numeric_lemma :
  forall is_number text lines delim header first rows,
    (exists tlk, records {| delimiter := delim; trim_ws := false; has_header := HAS_HEADER; quoting := KEEP_QUOTES |}
                         no_filter text = header :: tlk) ->
    records {| delimiter := delim; trim_ws := false; has_header := HAS_HEADER; quoting := REMOVE_QUOTES |}
            no_filter text = first :: rows ->
    header <> [] ->
    Forall (fun h => is_number h = true /\ plain_num h) header ->
    rows <> [] ->
    Forall (fun row => length row = length header /\
                       Forall (fun cell => blank cell = false /\ is_number (trim cell) = true /\ plain_num cell) row) rows ->
    sniff_has_header is_number text lines delim = Ok NO_HEADER.
Proof.
  intros is_number text lines delim header first rows Hk Hr Hhne Hhdr Hrne Hrows.
  rewrite (sniff_core is_number text lines delim header first rows (-1)%Z Hk Hr Hrne).
  - replace (0 <? -1 * Z.of_nat (length header))%Z with false by lia. reflexivity.
  - eapply Forall_impl; [|exact Hrows]. intros row (Hl & Hc). apply Forall2_of_Forall; [exact Hl|].
    eapply Forall_impl; [|exact Hc]. intros c (Hb & Hn & Hp) h _. unfold good_cell. auto.
  - eapply Forall_impl; [|exact Hhdr]. intros h (Hn & Hp). unfold vote_of.
    rewrite (plain_not_capitalized h Hp), Hn. reflexivity.
Qed.

(* ------------------------------------------------------------ why [plain_num] is needed in (2a)
   "Abc\n1e5\n1E5\n" with an is_number that accepts what starts with '1':
   the column becomes string_tag on "1e5" (capitalized name, lower-case cell),
   then skip_tag on "1E5", so the vote is 0 and the answer NO_HEADER. *)
Definition cx_is_number (s : bytes) : bool := match s with 49%Z :: _ => true | _ => false end.
Definition cx_text : bytes := [65; 98; 99; 10; 49; 101; 53; 10; 49; 69; 53; 10]%Z.

Lemma cx_result : sniff_has_header cx_is_number cx_text 20 44%Z = Ok NO_HEADER.
Proof. vm_compute. reflexivity. Qed.

Lemma has_header_family_named_numeric_original_false :
  ~ (forall is_number text lines delim header first rows,
       (exists tlk, records {| delimiter := delim; trim_ws := false; has_header := HAS_HEADER; quoting := KEEP_QUOTES |}
                            no_filter text = header :: tlk) ->
       records {| delimiter := delim; trim_ws := false; has_header := HAS_HEADER; quoting := REMOVE_QUOTES |}
               no_filter text = first :: rows ->
       header <> [] ->
       Forall (fun h => is_number h = false /\ h <> []) header ->
       rows <> [] ->
       Forall (fun row => length row = length header /\
                          Forall (fun cell => blank cell = false /\ is_number (trim cell) = true) row) rows ->
       sniff_has_header is_number text lines delim = Ok HAS_HEADER).
Proof.
  intros H. pose proof cx_result as Hc.
  rewrite (H cx_is_number cx_text 20 44%Z [[65; 98; 99]%Z] [[65; 98; 99]%Z]
             [[[49; 101; 53]%Z]; [[49; 69; 53]%Z]]) in Hc.
  - discriminate.
  - exists [[[49; 101; 53]%Z]; [[49; 69; 53]%Z]]. vm_compute. reflexivity.
  - vm_compute. reflexivity.
  - discriminate.
  - constructor; [split; [reflexivity|discriminate]|constructor].
  - discriminate.
  - repeat constructor.
Qed.
