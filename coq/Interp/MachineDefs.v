(* C01 -- the MEP interpreter as a machine, and the denotation of a program.

   Machine side: kernel/gp/mep/interpreter.cc (run_locus, fetch_param,
   fetch_arg, fetch_opaque_arg), kernel/gp/src/interpreter.tcc
   (src_interpreter::run, fetch_var), kernel/core_interpreter.h
   (symbol_params::fetch_var default), kernel/gp/src/variable.h,
   kernel/gp/gene.tcc (locus_of_argument = Genome.arg_locus), modelled
   statement by statement.  The C++ recursion  sym->eval( *this) ->
   fetch_arg -> fetch_opaque_arg -> sym->eval( *this)  becomes [exec]
   (structural on the strategy of the symbol) inside [eval_sym] (explicit
   fuel).

   Specification side: [den], the recursive evaluation of the unfolded
   expression tree (Genome.tree), with no memo, no instruction pointer and no
   genome.

   Definitions only (this file must extract even when a proof breaks). *)
From Coq Require Import ZArith List Bool Arith.
From VV Require Import Base.F64 Base.Values Interp.Strategy Cxx.CxxMini Gen.Prims Mep.Genome.
Import ListNotations.

(* ------------------------------------------------------------------ *)
(** * The machine                                                      *)

(* interpreter<i_mep>::elem_ {bool valid; value_t value;} *)
Record elem := { e_valid : bool; e_value : value }.

(* The interpreter object.  [cache] is matrix<elem_> cache_ (indexed by
   locus), [ip] is ip_, [example] is src_interpreter::example_ (None = the
   null pointer it is constructed with). *)
Record state := {
  cache : locus -> elem;
  ip : locus;
  example : option (list value)
}.

(* What a call into the interpreter produces.  [RThrow]: a C++ exception
   leaves the call (nothing is restored on the way out: there is no RAII
   guard around ip_).  [RStuck]: undefined behaviour (out-of-range index,
   default-constructed gene, UB inside a primitive).  [ROutOfFuel] is an
   artefact of the model only; the theorems show it never happens for a
   well-formed genome. *)
Inductive mres := RVal (v : value) | RThrow | RStuck | ROutOfFuel.

Definition res_of_outcome (o : outcome) : mres :=
  match o with Val v => RVal v | Throw => RThrow | Stuck => RStuck end.

Definition set_ip (st : state) (l : locus) : state :=
  {| cache := cache st; ip := l; example := example st |}.
Definition set_example (st : state) (ex : list value) : state :=
  {| cache := cache st; ip := ip st; example := Some ex |}.
Definition store (st : state) (l : locus) (v : value) : state :=
  {| cache := fun l' => if locus_eqb l' l then {| e_valid := true; e_value := v |} else cache st l';
     ip := ip st; example := example st |}.
(* for (auto &e : cache_) e.valid = false;   (values stay where they are) *)
Definition invalidate (st : state) : state :=
  {| cache := fun l => {| e_valid := false; e_value := e_value (cache st l) |};
     ip := ip st; example := example st |}.

Definition in_matrix (g : genome) (l : locus) : bool :=
  Nat.ltb (l_index l) (rows g) && Nat.ltb (l_cat l) (cats g).

Section Machine.
(* [src] = the object is a src_interpreter<i_mep> (fetch_var reads the
   example); otherwise a plain interpreter<i_mep> (symbol_params::fetch_var
   returns an empty value). *)
Variable src : bool.
Variable g : genome.

(* terminal_param_t fetch_param() const { const gene &g(( *prg_)[ip_]); return g.par; } *)
Definition fetch_param (st : state) : option f64 :=
  match gene_at g (ip st) with Some ge => Some (g_par ge) | None => None end.

(* src_interpreter::fetch_var(i) { return ( *example_)[i]; }
   symbol_params::fetch_var(unsigned) { return {}; } *)
Definition fetch_var (i : nat) (st : state) : option value :=
  if src then match example st with Some ex => nth_error ex i | None => None end
  else Some VVoid.

Section Exec.
(* [rec st] = ( *prg_)[ip_].sym->eval( *this) with one unit of fuel less *)
Variable rec : state -> mres * state.

(* value_t fetch_opaque_arg(unsigned i)
   { const gene &g(( *prg_)[ip_]);
     const locus backup(ip_);
     ip_ = g.locus_of_argument(i);
     const auto ret(( *prg_)[ip_].sym->eval( *this));
     ip_ = backup;
     return ret; } *)
Definition fetch_opaque_arg (i : nat) (st : state) : mres * state :=
  match gene_at g (ip st) with
  | None => (RStuck, st)
  | Some ge =>
      match arg_locus ge i with
      | None => (RStuck, st)
      | Some la =>
          let backup := ip st in
          let (r, st1) := rec (set_ip st la) in
          match r with
          | RVal v => (RVal v, set_ip st1 backup)
          | _ => (r, st1)
          end
      end
  end.

(* value_t fetch_arg(unsigned i)
   { const gene &g(( *prg_)[ip_]);
     auto &elem(cache_(g.locus_of_argument(i)));
     if (!elem.valid) { elem.value = fetch_opaque_arg(i); elem.valid = true; }
     return elem.value; } *)
Definition fetch_arg (i : nat) (st : state) : mres * state :=
  match gene_at g (ip st) with
  | None => (RStuck, st)
  | Some ge =>
      match arg_locus ge i with
      | None => (RStuck, st)
      | Some la =>
          if negb (in_matrix g la) then (RStuck, st)
          else if e_valid (cache st la) then (RVal (e_value (cache st la)), st)
          else
            let (r, st1) := fetch_opaque_arg i st in
            match r with
            | RVal v => (RVal v, store st1 la v)
            | _ => (r, st1)
            end
      end
  end.

(* symbol::eval(symbol_params &) of the symbol whose strategy is [s],
   against this interpreter *)
Fixpoint exec (s : strategy) (st : state) {struct s} : mres * state :=
  match s with
  | Ret o => (res_of_outcome o, st)
  | Fetch i k =>
      let (r, st1) := fetch_arg i st in
      match r with RVal v => exec (k v) st1 | _ => (r, st1) end
  | Param k =>
      match fetch_param st with Some f => exec (k f) st | None => (RStuck, st) end
  | Var i k =>
      match fetch_var i st with Some v => exec (k v) st | None => (RStuck, st) end
  end.
End Exec.

(* ( *prg_)[ip_].sym->eval( *this) *)
Fixpoint eval_sym (fuel : nat) (st : state) {struct fuel} : mres * state :=
  match fuel with
  | O => (ROutOfFuel, st)
  | S f =>
      match gene_at g (ip st) with
      | None => (RStuck, st)
      | Some ge => exec (eval_sym f) (s_strat (g_sym ge)) st
      end
  end.

(* value_t run_locus(const locus &ip)
   { for (auto &e : cache_) e.valid = false;
     ip_ = ip;
     return ( *prg_)[ip_].sym->eval( *this); } *)
Definition run_locus_fuel (fuel : nat) (l : locus) (st : state) : mres * state :=
  eval_sym fuel (set_ip (invalidate st) l).

(* fuel = number of rows: enough for every well-formed genome *)
Definition run_locus (l : locus) (st : state) : mres * state :=
  run_locus_fuel (rows g) l st.

(* core_interpreter::run() -> run_nvi() { return run_locus(prg_->best()); } *)
Definition run (st : state) : mres * state := run_locus (best g) st.

(* src_interpreter::run(const std::vector<value_t> &ex) { example_ = &ex; return this->run(); } *)
Definition run_ex (ex : list value) (st : state) : mres * state := run (set_example st ex).

(* a history: the same object run on a sequence of examples *)
Fixpoint run_many (exs : list (list value)) (st : state) : list mres * state :=
  match exs with
  | [] => ([], st)
  | ex :: rest =>
      let (r, st1) := run_ex ex st in
      let (rs, st2) := run_many rest st1 in
      (r :: rs, st2)
  end.
End Machine.

(* canonical form of a result (64-bit pattern for doubles) *)
Definition show_res (r : mres) : list Z :=
  match r with
  | RVal VVoid => [0%Z]
  | RVal (VInt z) => [1%Z; z]
  | RVal (VDouble f) => [2%Z; F64.to_bits f]
  | RVal (VString s) => 3%Z :: s
  | RThrow => [10%Z]
  | RStuck => [11%Z]
  | ROutOfFuel => [12%Z]
  end.

(* interpreter(const i_mep *ind) : cache_(ind->size(), ind->categories()), ip_(ind->best());
   src_interpreter(prg) : interpreter(prg), example_(nullptr).
   The matrix elements are value-initialised: valid = false, empty value. *)
Definition init_state (g : genome) : state :=
  {| cache := fun _ => {| e_valid := false; e_value := VVoid |}; ip := best g; example := None |}.

(* ------------------------------------------------------------------ *)
(** * The denotation                                                   *)

(* what the program's variables read: [None] = not available (index out of
   the example) *)
Definition varenv := nat -> option value.
Definition vars_of (src : bool) (ex : option (list value)) : varenv :=
  fun i => if src then match ex with Some e => nth_error e i | None => None end else Some VVoid.

Section Den.
Variable vars : varenv.

(* a symbol applied to its parameter and to the denotations of its
   arguments; [arg i = None]: there is no i-th argument.  An argument is
   looked at only when the strategy asks for it. *)
Fixpoint apply_strat (s : strategy) (par : f64) (arg : nat -> option outcome) {struct s} : outcome :=
  match s with
  | Ret o => o
  | Fetch i k =>
      match arg i with
      | None => Stuck
      | Some (Val v) => apply_strat (k v) par arg
      | Some o => o
      end
  | Param k => apply_strat (k par) par arg
  | Var i k => match vars i with Some v => apply_strat (k v) par arg | None => Stuck end
  end.

(* the argument positions a symbol asks for, in order *)
Fixpoint asked (s : strategy) (par : f64) (arg : nat -> option outcome) {struct s} : list nat :=
  match s with
  | Ret o => []
  | Fetch i k =>
      i :: match arg i with
           | Some (Val v) => asked (k v) par arg
           | _ => []
           end
  | Param k => asked (k par) par arg
  | Var i k => match vars i with Some v => asked (k v) par arg | None => [] end
  end.

Fixpoint den (t : tree) : outcome :=
  match t with
  | Node s par kids =>
      apply_strat (s_strat s) par
        (fun i => (fix sel (l : list tree) (i : nat) {struct l} : option outcome :=
                     match l with
                     | [] => None
                     | c :: r => match i with O => Some (den c) | S j => sel r j end
                     end) kids i)
  end.

Definition den_args (kids : list tree) : nat -> option outcome :=
  fun i => option_map den (nth_error kids i).

Definition asked_at (t : tree) : list nat :=
  match t with Node s par kids => asked (s_strat s) par (den_args kids) end.
End Den.

(* ---- specification predicates used by the theorems (memo invariant) ---- *)
Definition is_val (r : mres) : Prop := match r with RVal _ => True | _ => False end.

(* every valid memo entry holds the denotation of the tree at its locus *)
Definition cache_sound (vars : varenv) (g : genome) (st : state) : Prop :=
  forall la, e_valid (cache st la) = true ->
    exists n t, tree_of n g la = Some t /\ den vars t = Val (e_value (cache st la)).

(* valid entries are never overwritten *)
Definition cache_ext (st st' : state) : Prop :=
  forall la, e_valid (cache st la) = true -> cache st' la = cache st la.

(* operational laziness: the loci whose evaluation a run starting at [l] needs.
   [asks l la]: la is the locus of an argument that the symbol at l asks for
   (given the denotations of its arguments) *)
Definition asks (vars : varenv) (g : genome) (l la : locus) : Prop :=
  exists n t ge i, tree_of n g l = Some t /\ gene_at g l = Some ge /\
                   In i (asked_at vars t) /\ arg_locus ge i = Some la.
Inductive needed (vars : varenv) (g : genome) : locus -> locus -> Prop :=
| needed_one : forall l la, asks vars g l la -> needed vars g l la
| needed_more : forall l la lb, asks vars g l la -> needed vars g la lb -> needed vars g l lb.

(* ------------------------------------------------------------------ *)
(** * penalty() and teams                                              *)

(* symbol::penalty_nvi:  default (symbol.cc) returns 0;
   comparison_function_penalty (comp_penalty.h):
     (fetch_index(0) == fetch_index(1)) + (fetch_index(2) == fetch_index(3));
   PenEq12: fetch_index(1) == fetch_index(2) (three-argument selection) *)
Inductive pen_kind := PenZero | PenCmp4 | PenEq12.

Section Penalty.
Variable g : genome.
(* index_t fetch_index(unsigned i) const { const gene &g(( *prg_)[ip_]); return g.args[i]; }
   None: no such argument (the C++ reads past the gene's arguments) *)
Definition fetch_index (i : nat) (st : state) : option nat :=
  match gene_at g (ip st) with Some ge => nth_error (g_args ge) i | None => None end.

Definition b2z (b : bool) : Z := if b then 1%Z else 0%Z.
Definition penalty_sym (k : pen_kind) (st : state) : option Z :=
  match k with
  | PenZero => Some 0%Z
  | PenCmp4 =>
      match fetch_index 0 st, fetch_index 1 st, fetch_index 2 st, fetch_index 3 st with
      | Some a, Some b, Some c, Some d => Some (b2z (Nat.eqb a b) + b2z (Nat.eqb c d))%Z
      | _, _, _, _ => None
      end
  | PenEq12 =>
      match fetch_index 1 st, fetch_index 2 st with
      | Some a, Some b => Some (b2z (Nat.eqb a b))
      | _, _ => None
      end
  end.

(* double penalty_locus(const locus &ip) { ip_ = ip; return ( *prg_)[ip_].sym->penalty(this); }
   [pk]: which penalty function the symbol with a given opcode overrides *)
Definition penalty_locus (pk : Z -> pen_kind) (l : locus) (st : state) : option Z * state :=
  let st1 := set_ip st l in
  (match gene_at g l with
   | Some ge => penalty_sym (pk (s_opcode (g_sym ge))) st1
   | None => None
   end, st1).
(* penalty_nvi() { return penalty_locus(prg_->best()); } *)
Definition penalty (pk : Z -> pen_kind) (st : state) : option Z * state := penalty_locus pk (best g) st.
End Penalty.

(* team<i_mep> has no interpreter of its own: reg_lambda_f<team<T>> keeps one
   reg_lambda_f_storage (individual + src_interpreter) per member
   (detail/lambda_f.h) and basic_reg_lambda_f::eval(e, true_type) runs the
   members in order on the same input:
     for (const auto &core : team_) { const auto res(core.run(e.input));
       if (has_value(res)) avg += (lexical_cast<D_DOUBLE>(res) - avg) / ++count; }
     if (count > 0.0) return avg;  return {};
   An exception in a member leaves the loop (later members are not run). *)
Definition lexical_double (v : value) : option f64 :=
  match v with VDouble f => Some f | VInt z => Some (F64.of_Z z) | _ => None end.
Definition f64_one : f64 := F64.of_bits 0x3FF0000000000000.

Fixpoint team_eval (ms : list (genome * state)) (ex : list value) (avg count : f64)
  : mres * list state :=
  match ms with
  | [] => (if F64.gtb count F64.zero then RVal (VDouble avg) else RVal VVoid, [])
  | (g, st) :: r =>
      let (res, st') := run_ex true g ex st in
      match res with
      | RVal v =>
          if has_value v then
            match lexical_double v with
            | Some x =>
                let c := F64.add count f64_one in
                let (o, sts) := team_eval r ex (F64.add avg (F64.div (F64.sub x avg) c)) c in
                (o, st' :: sts)
            | None => (RStuck, st' :: map snd r)       (* strings: not modelled *)
            end
          else let (o, sts) := team_eval r ex avg count in (o, st' :: sts)
      | e => (e, st' :: map snd r)
      end
  end.
Definition team_run (ms : list (genome * state)) (ex : list value) : mres * list state :=
  team_eval ms ex F64.zero F64.zero.

(* the same fold over the denotations of the members' active trees *)
Fixpoint team_den (ts : list tree) (vars : varenv) (avg count : f64) : mres :=
  match ts with
  | [] => if F64.gtb count F64.zero then RVal (VDouble avg) else RVal VVoid
  | t :: r =>
      match den vars t with
      | Val v =>
          if has_value v then
            match lexical_double v with
            | Some x =>
                let c := F64.add count f64_one in
                team_den r vars (F64.add avg (F64.div (F64.sub x avg) c)) c
            | None => RStuck
            end
          else team_den r vars avg count
      | o => res_of_outcome o
      end
  end.

(* the denotation of the program rooted at locus [l] of a genome *)
Definition den_locus (vars : varenv) (g : genome) (l : locus) : option outcome :=
  option_map (den vars) (tree_of (S (rows g)) g l).
Definition den_genome (vars : varenv) (g : genome) : option outcome :=
  option_map (den vars) (active_tree g).

Fixpoint tree_size (t : tree) : nat :=
  match t with Node _ _ kids => S (fold_right (fun c n => tree_size c + n) 0 kids) end.

(* replace the j-th element of a list *)
Fixpoint replace_nth {A} (j : nat) (x : A) (l : list A) : list A :=
  match l, j with
  | [], _ => []
  | _ :: r, O => x :: r
  | y :: r, S j' => y :: replace_nth j' x r
  end.

(* ------------------------------------------------------------------ *)
(** * The symbol table of the shipped primitives                       *)

(* kernel/gp/src/variable.h: eval(p) = p.fetch_var(var_);
   kernel/gp/src/constant.h: eval(p) = val_ *)
Definition variable_sym (opc : Z) (var_id cat : nat) : sym :=
  {| s_opcode := opc; s_cat := cat; s_argcats := []; s_parametric := false;
     s_strat := Var var_id (fun v => Ret (Val v)) |}.
Definition constant_sym (opc : Z) (v : value) (cat : nat) : sym :=
  {| s_opcode := opc; s_cat := cat; s_argcats := []; s_parametric := false;
     s_strat := Ret (Val v) |}.
(* a primitive of int.h / real.h / bool.h / string.h: its behaviour is the
   regenerated body (Gen/Prims.v) under the semantics of Cxx/CxxMini.v *)
Definition prim_sym (lm : libm) (opc : Z) (body : list stmt) (cat : nat) (argcats : list nat)
           (parametric : bool) : sym :=
  {| s_opcode := opc; s_cat := cat; s_argcats := argcats; s_parametric := parametric;
     s_strat := strategy_of lm body |}.

(* ------------------------------------------------------------------ *)
(** * Building a genome from a list of cells (drivers, examples)       *)
Record cell_spec := { c_row : nat; c_gene : gene }.

Definition genome_of_cells (nrows ncats : nat) (cells : list cell_spec) (b : locus) : genome :=
  {| rows := nrows; cats := ncats;
     cell := fun r c =>
       match find (fun cs => Nat.eqb (c_row cs) r && Nat.eqb (s_cat (g_sym (c_gene cs))) c) cells with
       | Some cs => Some (c_gene cs)
       | None => None
       end;
     best := b |}.

(* the valid entries of the memo, for the state-level correspondence *)
Definition valid_entries (g : genome) (st : state) : list (locus * value) :=
  flat_map (fun r =>
    flat_map (fun c =>
      let l := {| l_index := r; l_cat := c |} in
      if e_valid (cache st l) then [(l, e_value (cache st l))] else [])
      (seq 0 (cats g)))
    (seq 0 (rows g)).
