(* C01 -- links to other properties' developments (their files are imported
   read-only):
     C13  Prims/RealDefs.v, Prims/RealProofs.v: the tree evaluator [run_tree]
          is [den]; the closure theorem about programs over the shipped real
          primitives transfers to the machine.
     C03  Sig/SigDefs.v, Sig/TreeProofs.v: programs with equal [mep_pack]
          (equal signatures, under A_hash) give equal results on the machine. *)
From Coq Require Import ZArith NArith List Bool Arith Lia.
From VV Require Import Base.F64 Base.Values Interp.Strategy Cxx.CxxMini Gen.Prims Mep.Genome.
From VV Require Import Prims.RealDefs Prims.RealProofs.
From VV Require Import Sig.Bits64 Sig.Murmur Sig.SigDefs Sig.SigProofs Sig.TreeProofs.
From VV Require Import Interp.MachineDefs Interp.MachineProofs.
Import ListNotations.

(* ------------------------------------------------------------------ *)
(** * C13: run_tree is den                                             *)

Lemma run_strat_apply : forall (f : tree -> outcome) vars s par kids,
  run_strat s par (map f kids) vars =
  apply_strat vars s par (fun i => option_map f (nth_error kids i)).
Proof.
  intros f vars s par kids. induction s as [o|i k IH|k IH|i k IH]; cbn [run_strat apply_strat].
  - reflexivity.
  - rewrite nth_error_map'. destruct (nth_error kids i) as [c|]; cbn [option_map]; [|reflexivity].
    destruct (f c) as [v| |]; auto.
  - apply IH.
  - destruct (vars i); auto.
Qed.

Lemma run_tree_is_den : forall vars t, run_tree vars t = den vars t.
Proof.
  intros vars. apply (tree_ind2 (fun t => run_tree vars t = den vars t)).
  intros s p kids IH. rewrite den_eq. cbn [run_tree]. rewrite run_strat_apply.
  apply apply_strat_ext. intro i. unfold den_args.
  destruct (nth_error kids i) as [c|] eqn:E; cbn [option_map]; [|reflexivity].
  f_equal. rewrite Forall_forall in IH. apply IH. eapply nth_error_In; exact E.
Qed.

(* a genome all of whose genes are admissible for C13: shipped real/string
   primitive with a coherent use of categories, input variable bound to a
   good value, or good constant; finite ephemeral parameters *)
Definition genome_c13 (lm : libm) (kc : nat -> kind) (vars : nat -> option value) (g : genome) : Prop :=
  forall r c ge, cell g r c = Some ge ->
    sym_ok lm kc vars (g_sym ge) /\ F64.is_finite (g_par ge) = true.

Lemma wt_all_forall : forall lm kc vars (l : list tree),
  (fix all (l : list tree) : Prop :=
     match l with [] => True | k :: r => wt lm kc vars k /\ all r end) l <->
  Forall (wt lm kc vars) l.
Proof.
  intros lm kc vars. induction l as [|k r IH]; [split; constructor|].
  split.
  - intros [H1 H2]. constructor; [exact H1|apply IH; exact H2].
  - intro H. inversion H; subst. split; [assumption|apply IH; assumption].
Qed.

Lemma nth_error_ext : forall {A} (l1 l2 : list A),
  (forall i, nth_error l1 i = nth_error l2 i) -> l1 = l2.
Proof.
  induction l1 as [|x l1 IH]; intros [|y l2] H; auto.
  - specialize (H 0). discriminate.
  - specialize (H 0). discriminate.
  - pose proof (H 0) as H0. cbn in H0. inversion H0; subst. f_equal.
    apply IH. intro i. exact (H (S i)).
Qed.

Lemma unfolded_tree_wt : forall lm kc vars g, wf_genome g -> genome_c13 lm kc vars g ->
  forall n l t, tree_of n g l = Some t -> wt lm kc vars t /\ root_cat t = l_cat l.
Proof.
  intros lm kc vars g W C. induction n as [|n IH]; intros l t T; [discriminate|].
  destruct (tree_of_S_inv _ _ _ _ T) as (ge & kids & G & -> & K & KS).
  destruct (gene_at_cell _ _ _ G) as (Hr & Hc & Hcell).
  destruct (wf_cell g _ _ ge W Hr Hc Hcell) as [Wg _].
  destruct (C _ _ _ Hcell) as [SO FP].
  assert (Ecat : s_cat (g_sym ge) = l_cat l).
  { unfold wf_gene_b in Wg. repeat (apply andb_true_iff in Wg; destruct Wg as [Wg _]).
    apply Nat.eqb_eq. exact Wg. }
  split; [|exact Ecat].
  cbn [wt]. split; [exact SO|]. split; [exact FP|]. split.
  - apply nth_error_ext. intro i. rewrite nth_error_map', K. unfold MachineProofs.kid, arg_locus.
    destruct (nth_error (s_argcats (g_sym ge)) i) as [c|] eqn:Ec.
    + assert (Hi : i < arity (g_sym ge)) by (unfold arity; apply nth_error_Some; congruence).
      destruct (KS i Hi) as [ti Ti]. unfold MachineProofs.kid, arg_locus in Ti. rewrite Ec in Ti.
      destruct (nth_error (g_args ge) i) as [a|]; [|discriminate].
      rewrite Ti. cbn [option_map]. f_equal. exact (proj2 (IH _ _ Ti)).
    + destruct (nth_error (g_args ge) i); reflexivity.
  - apply wt_all_forall. apply Forall_forall. intros k Hk.
    apply In_nth_error in Hk. destruct Hk as [i Hi]. rewrite K in Hi.
    unfold MachineProofs.kid in Hi. destruct (arg_locus ge i) as [la|]; [|discriminate].
    exact (proj1 (IH _ _ Hi)).
Qed.

(* C13_program_closed, transferred to the machine: a finite value or an
   undefined one, never NaN / infinity / exception / undefined behaviour,
   from every prior interpreter state *)
Lemma machine_closed : forall lm, sincos_finite lm -> exp_unit lm ->
  forall kc g ex, wf_genome g -> genome_c13 lm kc (nth_error ex) g ->
  forall st, exists v, fst (run_ex true g ex st) = RVal v /\ fou v /\
                       good (kc (l_cat (best g))) v.
Proof.
  intros lm H1 H2 kc g ex W C st.
  destruct (wf_active_tree g W) as (t & A & T).
  destruct (unfolded_tree_wt lm kc (nth_error ex) g W C _ _ _ T) as [WT RC].
  destruct (program_closed_both lm H1 H2 kc (nth_error ex) t WT) as [[v [Ev Gv]] [v' [Ev' Fv']]].
  rewrite run_tree_is_den in Ev, Ev'. rewrite (run_ex_den g t ex st T), Ev. cbn [res_of_outcome].
  exists v. split; [reflexivity|]. split.
  - rewrite Ev in Ev'. inversion Ev'; subst. exact Fv'.
  - rewrite <- RC. exact Gv.
Qed.

(* the same for a whole history on one object *)
Lemma machine_closed_history : forall lm, sincos_finite lm -> exp_unit lm ->
  forall kc g, wf_genome g ->
  forall exs, (forall ex, In ex exs -> genome_c13 lm kc (nth_error ex) g) ->
  forall st, Forall (fun r => exists v, r = RVal v /\ fou v) (fst (run_many true g exs st)).
Proof.
  intros lm H1 H2 kc g W exs HC st.
  destruct (history_independent g W exs st) as (t & A & R). rewrite R.
  apply Forall_forall. intros r Hr. apply in_map_iff in Hr. destruct Hr as (ex & <- & Hex).
  destruct (machine_closed lm H1 H2 kc g ex W (HC ex Hex) (init_state g)) as (v & Ev & Fv & _).
  destruct (wf_active_tree g W) as (t' & A' & T'). assert (t' = t) by congruence. subst t'.
  rewrite (run_ex_den g t ex _ T') in Ev. exists v. split; [exact Ev|exact Fv].
Qed.

(* ------------------------------------------------------------------ *)
(** * C03: equal pack / signature => equal results                     *)

Section Canon.
(* [dec]: the symbol an opcode stands for.  H_dec is the explicit hypothesis
   "opcodes identify symbols" (vita: symbol::opcode() is unique per symbol
   object and < 2^16), stated on behaviours. *)
Variable U : sym -> Prop.
Variable dec : N -> sym.
Hypothesis H_dec : forall s, U s -> s_strat (dec (opc16 s)) = s_strat s.
(* a symbol that is not a parametric terminal never reads the gene's
   parameter (interpreter.cc: assert(terminal::cast(g.sym)->parametric())) *)
Hypothesis H_nopar : forall s, U s -> Nat.eqb (arity s) 0 && s_parametric s = false ->
  forall vars p1 p2 a, apply_strat vars (s_strat s) p1 a = apply_strat vars (s_strat s) p2 a.

Definition par_of_bits (b : N) : f64 := F64.of_bits (Z.of_N b).
(* the parameter is the double its 64 bits say (true of every finite double;
   decidable, checked on the concrete genomes of the examples) *)
Definition par_roundtrip (p : f64) : Prop := par_of_bits (par_bits p) = p.

Variable vars : varenv.

(* the denotation of a canonical tree (opcodes and parameter bits only) *)
Fixpoint cden (c : ctree) : outcome :=
  match c with
  | CNode op par kids =>
      apply_strat vars (s_strat (dec op))
        (match par with Some b => par_of_bits b | None => F64.zero end)
        (fun i => (fix sel (l : list ctree) (i : nat) {struct l} : option outcome :=
                     match l with
                     | [] => None
                     | c :: r => match i with O => Some (cden c) | S j => sel r j end
                     end) kids i)
  end.

Lemma cden_eq : forall op par kids,
  cden (CNode op par kids) =
  apply_strat vars (s_strat (dec op))
    (match par with Some b => par_of_bits b | None => F64.zero end)
    (fun i => option_map cden (nth_error kids i)).
Proof.
  intros op par kids. cbn [cden]. apply apply_strat_ext. intro i. revert i.
  induction kids as [|c r IH]; intros [|i]; cbn [nth_error option_map]; auto.
Qed.

(* parametric terminals of the tree carry parameters that survive the trip
   through their bit pattern *)
Inductive pok : tree -> Prop :=
| pok_node : forall s p kids,
    (Nat.eqb (arity s) 0 && s_parametric s = true -> par_roundtrip p) ->
    Forall pok kids -> pok (Node s p kids).

Lemma den_factors_through_canon : forall t, over U t -> pok t -> den vars t = cden (canon t).
Proof.
  apply (tree_ind2 (fun t => over U t -> pok t -> den vars t = cden (canon t))).
  intros s p kids IH O P. inversion O as [s' p' kids' Us Ok]; subst.
  inversion P as [s' p' kids' Hp Pk]; subst.
  rewrite den_eq. cbn [canon]. rewrite cden_eq, (H_dec s Us).
  assert (EA : forall i, den_args vars kids i = option_map cden (nth_error (map canon kids) i)).
  { intro i. unfold den_args. rewrite nth_error_map'.
    destruct (nth_error kids i) as [c|] eqn:E; cbn [option_map]; [|reflexivity].
    f_equal. apply nth_error_In in E. rewrite Forall_forall in IH, Ok, Pk.
    apply IH; auto. }
  rewrite (apply_strat_ext vars (s_strat s) p _ _ EA).
  destruct (Nat.eqb (arity s) 0 && s_parametric s) eqn:B.
  - rewrite (Hp eq_refl). reflexivity.
  - apply (H_nopar s Us B).
Qed.
End Canon.

Definition genome_params_ok (g : genome) : Prop :=
  forall r c ge, cell g r c = Some ge ->
    Nat.eqb (arity (g_sym ge)) 0 && s_parametric (g_sym ge) = true -> par_roundtrip (g_par ge).

Lemma unfolded_tree_pok : forall g, genome_params_ok g ->
  forall n l t, tree_of n g l = Some t -> pok t.
Proof.
  intros g HP. induction n as [|n IH]; intros l t T; [discriminate|].
  destruct (tree_of_S_inv _ _ _ _ T) as (ge & kids & G & -> & K & KS).
  destruct (gene_at_cell _ _ _ G) as (_ & _ & Hcell).
  constructor; [exact (HP _ _ _ Hcell)|].
  apply Forall_forall. intros k Hk. apply In_nth_error in Hk. destruct Hk as [i Hi].
  rewrite K in Hi. unfold MachineProofs.kid in Hi. destruct (arg_locus ge i) as [la|]; [|discriminate].
  exact (IH _ _ Hi).
Qed.

(* equal canonical trees => equal results on the machine, through
   C03_equal_tree_equal_output instantiated with [cden] *)
Lemma equal_canon_equal_run : forall (U : sym -> Prop) (dec : N -> sym),
  (forall s, U s -> s_strat (dec (opc16 s)) = s_strat s) ->
  (forall s, U s -> Nat.eqb (arity s) 0 && s_parametric s = false ->
     forall vars p1 p2 a, apply_strat vars (s_strat s) p1 a = apply_strat vars (s_strat s) p2 a) ->
  forall g1 g2 t1 t2, wf_genome g1 -> wf_genome g2 ->
  genome_over U g1 -> genome_over U g2 -> genome_params_ok g1 -> genome_params_ok g2 ->
  active_tree g1 = Some t1 -> active_tree g2 = Some t2 -> canon t1 = canon t2 ->
  forall ex st1 st2, fst (run_ex true g1 ex st1) = fst (run_ex true g2 ex st2).
Proof.
  intros U dec Hd Hn g1 g2 t1 t2 W1 W2 O1 O2 P1 P2 A1 A2 E ex st1 st2.
  destruct (wf_active_tree g1 W1) as (u1 & B1 & T1). destruct (wf_active_tree g2 W2) as (u2 & B2 & T2).
  assert (u1 = t1) by congruence. assert (u2 = t2) by congruence. subst u1 u2.
  rewrite (run_ex_den g1 t1 ex st1 T1), (run_ex_den g2 t2 ex st2 T2).
  destruct (tree_of_props U g1 O1 _ _ _ A1) as [_ V1]. destruct (tree_of_props U g2 O2 _ _ _ A2) as [_ V2].
  rewrite (den_factors_through_canon U dec Hd Hn (nth_error ex) t1 V1 (unfolded_tree_pok g1 P1 _ _ _ A1)).
  rewrite (den_factors_through_canon U dec Hd Hn (nth_error ex) t2 V2 (unfolded_tree_pok g2 P2 _ _ _ A2)).
  f_equal. exact (f_equal (cden dec (nth_error ex)) E).
Qed.

Lemma equal_pack_equal_run : forall (U : sym -> Prop) (dec : N -> sym), coherent U ->
  (forall s, U s -> s_strat (dec (opc16 s)) = s_strat s) ->
  (forall s, U s -> Nat.eqb (arity s) 0 && s_parametric s = false ->
     forall vars p1 p2 a, apply_strat vars (s_strat s) p1 a = apply_strat vars (s_strat s) p2 a) ->
  forall g1 g2, wf_genome g1 -> wf_genome g2 ->
  genome_over U g1 -> genome_over U g2 -> genome_params_ok g1 -> genome_params_ok g2 ->
  mep_pack g1 = mep_pack g2 ->
  forall ex st1 st2, fst (run_ex true g1 ex st1) = fst (run_ex true g2 ex st2).
Proof.
  intros U dec HU Hd Hn g1 g2 W1 W2 O1 O2 P1 P2 E.
  destruct (wf_active_tree g1 W1) as (t1 & A1 & _). destruct (wf_active_tree g2 W2) as (t2 & A2 & _).
  apply (equal_canon_equal_run U dec Hd Hn g1 g2 t1 t2); auto.
  apply (pack_eq_iff_tree_eq U HU g1 g2 t1 t2 O1 O2 A1 A2). exact E.
Qed.

Lemma equal_signature_equal_run :
  forall Streams : list byte -> Prop,
  (forall a b, Streams a -> Streams b -> murmur128 a = murmur128 b -> a = b) ->
  forall (U : sym -> Prop) (dec : N -> sym), coherent U ->
  (forall s, U s -> s_strat (dec (opc16 s)) = s_strat s) ->
  (forall s, U s -> Nat.eqb (arity s) 0 && s_parametric s = false ->
     forall vars p1 p2 a, apply_strat vars (s_strat s) p1 a = apply_strat vars (s_strat s) p2 a) ->
  forall g1 g2 t1 t2, wf_genome g1 -> wf_genome g2 ->
  genome_over U g1 -> genome_over U g2 -> genome_params_ok g1 -> genome_params_ok g2 ->
  active_tree g1 = Some t1 -> active_tree g2 = Some t2 ->
  Streams (encode_tree t1) -> Streams (encode_tree t2) ->
  hash_mep g1 = hash_mep g2 ->
  forall ex st1 st2, fst (run_ex true g1 ex st1) = fst (run_ex true g2 ex st2).
Proof.
  intros Streams AH U dec HU Hd Hn g1 g2 t1 t2 W1 W2 O1 O2 P1 P2 A1 A2 S1 S2 E.
  apply (equal_canon_equal_run U dec Hd Hn g1 g2 t1 t2); auto.
  apply (signature_eq_iff_tree_eq Streams AH U HU g1 g2 t1 t2 O1 O2 A1 A2 S1 S2). exact E.
Qed.
