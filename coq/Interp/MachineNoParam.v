(* C01 -- a strategy that never issues fetch_param does not depend on the
   gene's parameter; every translated body that does not mention
   p.fetch_param() is such a strategy.  Discharges the hypothesis H_nopar of
   the C03 link for the shipped primitives. *)
From Coq Require Import ZArith List Bool.
From VV Require Import Base.F64 Base.Values Interp.Strategy Cxx.CxxMini Gen.Prims Mep.Genome Interp.MachineDefs.
Import ListNotations.

Inductive noparam : strategy -> Prop :=
| np_ret : forall o, noparam (Ret o)
| np_fetch : forall i k, (forall v, noparam (k v)) -> noparam (Fetch i k)
| np_var : forall i k, (forall v, noparam (k v)) -> noparam (Var i k).

Lemma noparam_par_irrelevant : forall s, noparam s ->
  forall vars p1 p2 a, apply_strat vars s p1 a = apply_strat vars s p2 a.
Proof.
  intros s H. induction H as [o|i k Hk IH|i k Hk IH]; intros vars p1 p2 a; cbn [apply_strat].
  - reflexivity.
  - destruct (a i) as [[v| |]|]; auto.
  - destruct (vars i); auto.
Qed.

(* syntactic check on the translated C++ *)
Fixpoint expr_np (e : expr) : bool :=
  match e with
  | EParam => false
  | EUn _ a | ECast _ a | ECall1 _ a => expr_np a
  | EBin _ a b | ECall2 _ a b => expr_np a && expr_np b
  | ECond c a b => expr_np c && expr_np a && expr_np b
  | _ => true
  end.
Definition stmt_np (s : stmt) : bool :=
  match s with
  | SDecl _ e => expr_np e
  | SIfRet c th el => expr_np c && expr_np th && match el with Some e => expr_np e | None => true end
  | SReturn e => expr_np e
  end.
Definition body_np (b : list stmt) : bool := forallb stmt_np b.

Section NP.
Variable lm : libm.

Lemma lift_np : forall r k, (forall c, noparam (k c)) -> noparam (lift r k).
Proof. intros [c|o] k H; cbn; [apply H|constructor]. Qed.

Lemma eval_np : forall e, expr_np e = true ->
  forall env k, (forall c, noparam (k c)) -> noparam (eval lm e env k).
Proof.
  induction e as [i| |x|z|z|bits|b| |o a IHa|o a IHa b IHb|c IHc a IHa b IHb|t a IHa|f a IHa|f a IHa b IHb];
    intros NP env k Hk; cbn [expr_np] in NP; try discriminate.
  - cbn [eval]. constructor. intro v. apply Hk.
  - cbn [eval]. destruct (nth_error env x); [apply Hk|constructor].
  - cbn [eval]. apply Hk.
  - cbn [eval]. apply Hk.
  - cbn [eval]. apply Hk.
  - cbn [eval]. apply Hk.
  - cbn [eval]. apply Hk.
  - cbn [eval]. apply IHa; [exact NP|]. intro ca. apply lift_np. exact Hk.
  - apply andb_true_iff in NP. destruct NP as [Na Nb].
    destruct o; cbn [eval];
      try (apply IHa; [exact Na|]; intro ca; apply IHb; [exact Nb|]; intro cb; apply lift_np; exact Hk).
    + apply IHa; [exact Na|]. intro ca. apply lift_np. intro ba.
      destruct ba as [z|z|z|[|]|f|v|s]; try apply Hk.
      apply IHb; [exact Nb|]. intro cb. apply lift_np. exact Hk.
    + apply IHa; [exact Na|]. intro ca. apply lift_np. intro ba.
      destruct ba as [z|z|z|[|]|f|v|s]; try apply Hk.
      apply IHb; [exact Nb|]. intro cb. apply lift_np. exact Hk.
  - apply andb_true_iff in NP. destruct NP as [NP Nb]. apply andb_true_iff in NP. destruct NP as [Nc Na].
    cbn [eval]. apply IHc; [exact Nc|]. intro cc. apply lift_np. intro bc.
    destruct bc as [z|z|z|[|]|f|v|s]; try (apply IHb; assumption). apply IHa; assumption.
  - cbn [eval]. apply IHa; [exact NP|]. intro ca. apply lift_np. exact Hk.
  - cbn [eval]. apply IHa; [exact NP|]. intro ca. apply lift_np. exact Hk.
  - apply andb_true_iff in NP. destruct NP as [Na Nb]. cbn [eval].
    apply IHa; [exact Na|]. intro ca. apply IHb; [exact Nb|]. intro cb. apply lift_np. exact Hk.
Qed.

Lemma ret_np : forall e env, expr_np e = true -> noparam (ret lm e env).
Proof.
  intros e env NP. unfold ret. apply eval_np; [exact NP|]. intro c. apply lift_np.
  intro c'. destruct c'; constructor.
Qed.

Lemma exec_np : forall ss, body_np ss = true -> forall env, noparam (CxxMini.exec lm ss env).
Proof.
  induction ss as [|s ss IH]; intros NP env; [constructor|].
  unfold body_np in NP. cbn [forallb] in NP. apply andb_true_iff in NP. destruct NP as [Ns Nss].
  destruct s as [t e|c th el|e]; cbn [stmt_np] in Ns; cbn [CxxMini.exec].
  - apply eval_np; [exact Ns|]. intro c. apply lift_np. intro c'. apply IH. exact Nss.
  - apply andb_true_iff in Ns. destruct Ns as [Ns Nel]. apply andb_true_iff in Ns. destruct Ns as [Nc Nth].
    apply eval_np; [exact Nc|]. intro cc. apply lift_np. intro bc.
    assert (Hel : noparam match el with Some e => ret lm e env | None => CxxMini.exec lm ss env end).
    { destruct el as [e|]; [apply ret_np; exact Nel|apply IH; exact Nss]. }
    destruct bc as [z|z|z|[|]|f|v|s0]; try exact Hel. apply ret_np. exact Nth.
  - apply ret_np. exact Ns.
Qed.

Lemma body_noparam : forall b, body_np b = true -> noparam (strategy_of lm b).
Proof. intros b H. unfold strategy_of. apply exec_np. exact H. Qed.

(* H_nopar for a primitive whose body does not mention fetch_param *)
Lemma prim_par_irrelevant : forall opc b cat argcats par, body_np b = true ->
  forall vars p1 p2 a,
    apply_strat vars (s_strat (prim_sym lm opc b cat argcats par)) p1 a =
    apply_strat vars (s_strat (prim_sym lm opc b cat argcats par)) p2 a.
Proof. intros. cbn [s_strat prim_sym]. apply noparam_par_irrelevant. apply body_noparam. assumption. Qed.
End NP.

(* every shipped body except the three ephemeral-constant terminals never
   calls fetch_param (re-checked against the regenerated Gen/Prims.v) *)
Definition is_param_terminal_body (b : list stmt) : bool :=
  match b with
  | [SReturn (ECast _ EParam)] => true
  | _ => false
  end.
Lemma shipped_bodies_noparam :
  forallb (fun b => body_np b || is_param_terminal_body b) prims_all = true /\
  length (filter is_param_terminal_body prims_all) = 3.
Proof. split; vm_compute; reflexivity. Qed.
