(* C01 -- closed examples for the cross-property links (non-vacuity). *)
From Coq Require Import ZArith NArith List Bool Arith Lia.
From VV Require Import Base.F64 Base.Values Interp.Strategy Cxx.CxxMini Gen.Prims Mep.Genome.
From VV Require Import Prims.RealDefs Sig.Bits64 Sig.Murmur Sig.SigDefs Sig.TreeProofs.
From VV Require Import Interp.MachineDefs Interp.MachineProofs Interp.MachineNoParam Interp.MachineLinks.
Import ListNotations.

(* a libm that meets the C13 hypotheses *)
Definition link_lm : libm :=
  {| l_log := fun _ => zero; l_exp := fun _ => one; l_sin := fun _ => zero; l_cos := fun _ => zero |}.

Section Syms.
Variable lm : libm.
Definition ls_add := prim_sym lm 1 real_add_body 0 [0;0] false.
Definition ls_mul := prim_sym lm 2 real_mul_body 0 [0;0] false.
Definition ls_x   := variable_sym 3 0 0.
Definition ls_c   := prim_sym lm 4 real_real_body 0 [] true.
Definition lg (s : sym) (p : f64) (a : list nat) : gene := {| g_sym := s; g_par := p; g_args := a |}.
Definition l2_5 : f64 := F64.of_bits 0x4004000000000000.

(* FADD(X0, FMUL(c, c)) with the constant shared ... *)
Definition link_genome : genome :=
  {| rows := 4; cats := 1;
     cell := fun r c =>
       match r, c with
       | 0, 0 => Some (lg ls_add F64.zero [1;2])
       | 1, 0 => Some (lg ls_x F64.zero [])
       | 2, 0 => Some (lg ls_mul F64.zero [3;3])
       | 3, 0 => Some (lg ls_c l2_5 [])
       | _, _ => None
       end;
     best := {| l_index := 0; l_cat := 0 |} |}.
(* ... and duplicated *)
Definition link_genome2 : genome :=
  {| rows := 5; cats := 1;
     cell := fun r c =>
       match r, c with
       | 0, 0 => Some (lg ls_add F64.zero [1;2])
       | 1, 0 => Some (lg ls_x F64.zero [])
       | 2, 0 => Some (lg ls_mul F64.zero [3;4])
       | 3, 0 => Some (lg ls_c l2_5 [])
       | 4, 0 => Some (lg ls_c l2_5 [])
       | _, _ => None
       end;
     best := {| l_index := 0; l_cat := 0 |} |}.

Definition link_U (s : sym) : Prop := s = ls_add \/ s = ls_mul \/ s = ls_x \/ s = ls_c.
Definition link_dec (n : N) : sym :=
  if N.eqb n 1 then ls_add else if N.eqb n 2 then ls_mul else if N.eqb n 3 then ls_x else ls_c.
End Syms.

Definition link_d1 : f64 := F64.of_bits 0x3FF0000000000000.
Definition link_ex : list value := [VDouble link_d1].

Ltac cells H r c :=
  destruct r as [|[|[|[|[|r]]]]]; destruct c as [|c]; cbn in H; try discriminate H;
  inversion H; subst; clear H.

Lemma link_c13_hyps :
  sincos_finite link_lm /\ exp_unit link_lm /\ wf_genome (link_genome link_lm) /\
  genome_c13 link_lm (fun _ => KReal) (nth_error link_ex) (link_genome link_lm).
Proof.
  split; [|split; [|split]].
  - intros x _. split; vm_compute; reflexivity.
  - intros x _ _. split; vm_compute; reflexivity.
  - unfold wf_genome. vm_compute. reflexivity.
  - intros r c ge H. unfold link_genome in H. cbn [cell] in H.
    destruct r as [|[|[|[|r]]]]; destruct c as [|c]; try discriminate H; inversion H; subst ge; clear H;
      (split; [|vm_compute; reflexivity]).
    + left. exists real_add_body, (SArith 2). split; [|split; [reflexivity|vm_compute; reflexivity]].
      unfold c13_table. repeat (first [left; reflexivity | right]).
    + right. left. split; [reflexivity|]. exists 0, (VDouble link_d1).
      split; [reflexivity|]. split; [reflexivity|]. vm_compute. reflexivity.
    + left. exists real_mul_body, (SArith 2). split; [|split; [reflexivity|vm_compute; reflexivity]].
      unfold c13_table. repeat (first [left; reflexivity | right]).
    + left. exists real_real_body, STerm. split; [|split; [reflexivity|vm_compute; reflexivity]].
      unfold c13_table. left. reflexivity.
Qed.

Lemma l2_5_roundtrip : par_roundtrip l2_5.
Proof.
  unfold par_roundtrip, par_of_bits.
  assert (E : par_bits l2_5 = 0x4004000000000000%N) by (vm_compute; reflexivity).
  rewrite E. reflexivity.
Qed.

Lemma link_c03_hyps :
  coherent (link_U link_lm) /\
  (forall s, link_U link_lm s -> s_strat (link_dec link_lm (opc16 s)) = s_strat s) /\
  (forall s, link_U link_lm s -> Nat.eqb (arity s) 0 && s_parametric s = false ->
     forall vars p1 p2 a, apply_strat vars (s_strat s) p1 a = apply_strat vars (s_strat s) p2 a) /\
  genome_over (link_U link_lm) (link_genome link_lm) /\ genome_over (link_U link_lm) (link_genome2 link_lm) /\
  genome_params_ok (link_genome link_lm) /\ genome_params_ok (link_genome2 link_lm) /\
  wf_genome (link_genome2 link_lm) /\
  mep_pack (link_genome link_lm) = mep_pack (link_genome2 link_lm) /\
  rows (link_genome link_lm) <> rows (link_genome2 link_lm).
Proof.
  split; [|split; [|split; [|split; [|split; [|split; [|split; [|split; [|split]]]]]]]].
  - intros s1 s2 [ -> | [ -> | [ -> | -> ] ] ] [ -> | [ -> | [ -> | -> ] ] ] E;
      try (split; reflexivity); exfalso; revert E; vm_compute; discriminate.
  - intros s [ -> | [ -> | [ -> | -> ] ] ]; reflexivity.
  - intros s [ -> | [ -> | [ -> | -> ] ] ] B vars p1 p2 a.
    + apply prim_par_irrelevant. vm_compute. reflexivity.
    + apply prim_par_irrelevant. vm_compute. reflexivity.
    + cbn. destruct (vars 0); reflexivity.
    + exfalso. revert B. vm_compute. discriminate.
  - intros r c ge H. unfold link_genome in H. cbn [cell] in H. unfold link_U.
    destruct r as [|[|[|[|r]]]]; destruct c as [|c]; try discriminate H; inversion H; subst ge; cbn [g_sym lg]; auto.
  - intros r c ge H. unfold link_genome2 in H. cbn [cell] in H. unfold link_U.
    destruct r as [|[|[|[|[|r]]]]]; destruct c as [|c]; try discriminate H; inversion H; subst ge; cbn [g_sym lg]; auto.
  - intros r c ge H B. unfold link_genome in H. cbn [cell] in H.
    destruct r as [|[|[|[|r]]]]; destruct c as [|c]; try discriminate H; inversion H; subst ge;
      try (exfalso; revert B; vm_compute; discriminate). apply l2_5_roundtrip.
  - intros r c ge H B. unfold link_genome2 in H. cbn [cell] in H.
    destruct r as [|[|[|[|[|r]]]]]; destruct c as [|c]; try discriminate H; inversion H; subst ge;
      try (exfalso; revert B; vm_compute; discriminate); apply l2_5_roundtrip.
  - unfold wf_genome. vm_compute. reflexivity.
  - vm_compute. reflexivity.
  - cbn. discriminate.
Qed.

(* the two links used together on the example: the result is 1 + 2.5*2.5 on
   both layouts, from any states *)
Lemma link_run :
  map show_res (fst (run_many true (link_genome link_lm) [link_ex] (init_state (link_genome link_lm))))
  = [[2; 0x401D000000000000]]%Z.
Proof. vm_compute. reflexivity. Qed.
