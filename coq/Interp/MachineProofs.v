(* C01 -- proofs: the machine of MachineDefs.v computes the denotation of the
   active tree, from every prior interpreter state. *)
From Coq Require Import ZArith List Bool Arith Lia.
From VV Require Import Base.F64 Base.Values Interp.Strategy Mep.Genome Interp.MachineDefs.
Import ListNotations.

(* ------------------------------------------------------------------ *)
(** * Lists                                                            *)

Lemma nth_error_seq : forall a s i,
  nth_error (seq s a) i = if Nat.ltb i a then Some (s + i) else None.
Proof.
  induction a as [|a IH]; intros s i.
  - destruct i; reflexivity.
  - destruct i as [|i].
    + cbn. f_equal. lia.
    + cbn [seq nth_error]. rewrite IH. change (Nat.ltb (S i) (S a)) with (Nat.ltb i a).
      destruct (Nat.ltb i a); [f_equal; lia|reflexivity].
Qed.

Lemma nth_error_map' : forall {A B} (f : A -> B) l i,
  nth_error (map f l) i = option_map f (nth_error l i).
Proof.
  induction l as [|x l IH]; intros [|i]; cbn; auto.
Qed.

Definition unopt {A} (o : option A) : list A := match o with Some t => [t] | None => [] end.
Definition is_some {A} (o : option A) : bool := match o with Some _ => true | None => false end.

Lemma nth_error_unopt : forall {A} (os : list (option A)) i,
  forallb is_some os = true ->
  nth_error (flat_map unopt os) i = match nth_error os i with Some o => o | None => None end.
Proof.
  induction os as [|o os IH]; intros i H.
  - destruct i; reflexivity.
  - cbn [forallb] in H. apply andb_true_iff in H. destruct H as [Ho Hos].
    destruct o as [t|]; [|discriminate]. cbn [flat_map unopt app].
    destruct i as [|i]; cbn [nth_error]; [reflexivity|]. apply IH. exact Hos.
Qed.

Lemma locus_eqb_eq : forall a b, locus_eqb a b = true <-> a = b.
Proof.
  intros [ai ac] [bi bc]. unfold locus_eqb. cbn. rewrite andb_true_iff, !Nat.eqb_eq.
  split; [intros [-> ->]; reflexivity|intros H; inversion H; auto].
Qed.

Lemma locus_eqb_refl : forall a, locus_eqb a a = true.
Proof. intro a. apply locus_eqb_eq. reflexivity. Qed.

(* ------------------------------------------------------------------ *)
(** * The unfolded tree                                                *)

(* the i-th child of the gene [ge], unfolded with fuel n *)
Definition kid (n : nat) (g : genome) (ge : gene) (i : nat) : option tree :=
  match arg_locus ge i with Some la => tree_of n g la | None => None end.

Lemma tree_of_S : forall n g l,
  tree_of (S n) g l =
  match gene_at g l with
  | None => None
  | Some ge =>
      let kids := map (kid n g ge) (seq 0 (arity (g_sym ge))) in
      if forallb is_some kids
      then Some (Node (g_sym ge) (g_par ge) (flat_map unopt kids))
      else None
  end.
Proof. reflexivity. Qed.

Lemma arg_locus_lt : forall ge i la, arg_locus ge i = Some la -> i < arity (g_sym ge).
Proof.
  intros ge i la H. unfold arg_locus in H.
  destruct (nth_error (g_args ge) i); [|discriminate].
  destruct (nth_error (s_argcats (g_sym ge)) i) eqn:E; [|discriminate].
  unfold arity. apply nth_error_Some. congruence.
Qed.

Lemma tree_of_S_inv : forall n g l t, tree_of (S n) g l = Some t ->
  exists ge kids,
    gene_at g l = Some ge /\ t = Node (g_sym ge) (g_par ge) kids /\
    (forall i, nth_error kids i = kid n g ge i) /\
    (forall i, i < arity (g_sym ge) -> exists ti, kid n g ge i = Some ti).
Proof.
  intros n g l t H. rewrite tree_of_S in H.
  destruct (gene_at g l) as [ge|]; [|discriminate].
  cbv zeta in H.
  destruct (forallb is_some (map (kid n g ge) (seq 0 (arity (g_sym ge))))) eqn:E; [|discriminate].
  inversion H; subst t; clear H.
  exists ge, (flat_map unopt (map (kid n g ge) (seq 0 (arity (g_sym ge))))).
  split; [reflexivity|]. split; [reflexivity|].
  assert (Hk : forall i, i < arity (g_sym ge) -> exists ti, kid n g ge i = Some ti).
  { intros i Hi. rewrite forallb_forall in E.
    assert (Hs : is_some (kid n g ge i) = true).
    { apply E. apply in_map. apply in_seq. lia. }
    destruct (kid n g ge i) as [ti|]; [eauto|discriminate]. }
  split; [|exact Hk].
  intro i. rewrite nth_error_unopt by exact E.
  rewrite nth_error_map', nth_error_seq.
  destruct (Nat.ltb i (arity (g_sym ge))) eqn:L; cbn [option_map]; [reflexivity|].
  apply Nat.ltb_ge in L. unfold kid.
  destruct (arg_locus ge i) as [la|] eqn:A; [|reflexivity].
  apply arg_locus_lt in A. lia.
Qed.

Lemma tree_of_gene : forall n g l t, tree_of n g l = Some t -> exists ge, gene_at g l = Some ge.
Proof.
  intros [|n] g l t H; [discriminate|].
  apply tree_of_S_inv in H. destruct H as (ge & _ & H & _). eauto.
Qed.

Lemma gene_at_in_matrix : forall g l ge, gene_at g l = Some ge -> in_matrix g l = true.
Proof.
  intros g l ge H. unfold gene_at in H. unfold in_matrix.
  destruct (Nat.ltb (l_index l) (rows g) && Nat.ltb (l_cat l) (cats g)); [reflexivity|discriminate].
Qed.

Lemma tree_of_mono : forall n g l t, tree_of n g l = Some t ->
  forall m, n <= m -> tree_of m g l = Some t.
Proof.
  induction n as [|n IH]; intros g l t H m Hm; [discriminate|].
  destruct m as [|m]; [lia|].
  rewrite tree_of_S in *.
  destruct (gene_at g l) as [ge|]; [|discriminate].
  cbv zeta in *.
  destruct (forallb is_some (map (kid n g ge) (seq 0 (arity (g_sym ge))))) eqn:E; [|discriminate].
  assert (EQ : map (kid n g ge) (seq 0 (arity (g_sym ge))) = map (kid m g ge) (seq 0 (arity (g_sym ge)))).
  { apply map_ext_in. intros i Hi.
    rewrite forallb_forall in E.
    assert (Hs : is_some (kid n g ge i) = true) by (apply E; apply in_map; exact Hi).
    unfold kid in *. destruct (arg_locus ge i) as [la|]; [|reflexivity].
    destruct (tree_of n g la) as [ti|] eqn:T; [|discriminate].
    symmetry. apply (IH g la ti T). lia. }
  rewrite <- EQ, E. exact H.
Qed.

Lemma tree_of_det : forall n m g l t t',
  tree_of n g l = Some t -> tree_of m g l = Some t' -> t = t'.
Proof.
  intros n m g l t t' H H'.
  apply tree_of_mono with (m := n + m) in H; [|lia].
  apply tree_of_mono with (m := n + m) in H'; [|lia].
  congruence.
Qed.

(* ------------------------------------------------------------------ *)
(** * Well-formed genomes unfold with fuel rows - index                *)

Lemma wf_cell : forall g r c ge, wf_genome g -> r < rows g -> c < cats g -> cell g r c = Some ge ->
  wf_gene_b g r c ge = true /\
  forall i, i < arity (g_sym ge) ->
    exists la ga, arg_locus ge i = Some la /\ gene_at g la = Some ga.
Proof.
  intros g r c ge W Hr Hc Hcell. unfold wf_genome, wf_genome_b in W.
  apply andb_true_iff in W. destruct W as [W _].
  rewrite forallb_forall in W. specialize (W r). rewrite in_seq in W.
  assert (W' := W (conj (Nat.le_0_l r) Hr)). clear W.
  rewrite forallb_forall in W'. specialize (W' c). rewrite in_seq in W'.
  assert (W := W' (conj (Nat.le_0_l c) Hc)). clear W'.
  unfold wf_cell_b in W. rewrite Hcell in W. apply andb_true_iff in W. destruct W as [W1 W2].
  split; [exact W1|]. intros i Hi. rewrite forallb_forall in W2.
  specialize (W2 i). rewrite in_seq in W2. assert (W := W2 (conj (Nat.le_0_l i) Hi)). clear W2.
  destruct (arg_locus ge i) as [la|]; [|discriminate].
  destruct (gene_at g la) as [ga|] eqn:Ga; [|discriminate].
  exists la, ga. split; [reflexivity|exact Ga].
Qed.

Lemma gene_at_cell : forall g l ge, gene_at g l = Some ge ->
  l_index l < rows g /\ l_cat l < cats g /\ cell g (l_index l) (l_cat l) = Some ge.
Proof.
  intros g l ge H. unfold gene_at in H.
  destruct (Nat.ltb (l_index l) (rows g)) eqn:A; [|discriminate].
  destruct (Nat.ltb (l_cat l) (cats g)) eqn:B; [|discriminate].
  apply Nat.ltb_lt in A. apply Nat.ltb_lt in B. cbn in H. auto.
Qed.

Lemma wf_arg_forward : forall g r c ge i la, wf_gene_b g r c ge = true ->
  arg_locus ge i = Some la -> r < l_index la < rows g.
Proof.
  intros g r c ge i la W A. unfold wf_gene_b in W.
  apply andb_true_iff in W. destruct W as [W _].
  apply andb_true_iff in W. destruct W as [_ W].
  rewrite forallb_forall in W. unfold arg_locus in A.
  destruct (nth_error (g_args ge) i) as [a|] eqn:E; [|discriminate].
  destruct (nth_error (s_argcats (g_sym ge)) i); [|discriminate].
  inversion A; subst la; cbn. apply nth_error_In in E. apply W in E.
  apply andb_true_iff in E. destruct E as [E1 E2].
  apply Nat.ltb_lt in E1. apply Nat.ltb_lt in E2. lia.
Qed.

Lemma wf_tree_of : forall g, wf_genome g ->
  forall k l ge, gene_at g l = Some ge -> rows g - l_index l <= k ->
  exists t, tree_of k g l = Some t.
Proof.
  intros g W. induction k as [|k IH]; intros l ge G Hk.
  - apply gene_at_cell in G. lia.
  - destruct (gene_at_cell _ _ _ G) as (Hr & Hc & Hcell).
    destruct (wf_cell g _ _ ge W Hr Hc Hcell) as [Wg Wa].
    rewrite tree_of_S, G. cbv zeta.
    assert (E : forallb is_some (map (kid k g ge) (seq 0 (arity (g_sym ge)))) = true).
    { apply forallb_forall. intros o Ho. apply in_map_iff in Ho. destruct Ho as (i & <- & Hi).
      apply in_seq in Hi. destruct (Wa i) as (la & ga & A & Ga); [lia|].
      unfold kid. rewrite A.
      pose proof (wf_arg_forward _ _ _ _ _ _ Wg A) as F.
      destruct (IH la ga Ga) as [ti Ti]; [lia|]. rewrite Ti. reflexivity. }
    rewrite E. eauto.
Qed.

Lemma wf_best : forall g, wf_genome g -> exists ge, gene_at g (best g) = Some ge.
Proof.
  intros g W. unfold wf_genome, wf_genome_b in W. apply andb_true_iff in W. destruct W as [_ W].
  destruct (gene_at g (best g)); [eauto|discriminate].
Qed.

Lemma wf_active_tree : forall g, wf_genome g ->
  exists t, active_tree g = Some t /\ tree_of (rows g) g (best g) = Some t.
Proof.
  intros g W. destruct (wf_best g W) as [ge G].
  destruct (wf_tree_of g W (rows g) (best g) ge G) as [t T]; [lia|].
  exists t. split; [|exact T]. unfold active_tree. apply tree_of_mono with (n := rows g); [exact T|lia].
Qed.

(* ------------------------------------------------------------------ *)
(** * Denotation                                                       *)

Lemma apply_strat_ext : forall vars s par a b, (forall i, a i = b i) ->
  apply_strat vars s par a = apply_strat vars s par b.
Proof.
  intros vars s par a b H. induction s as [o|i k IH|k IH|i k IH]; cbn [apply_strat].
  - reflexivity.
  - rewrite <- H. destruct (a i) as [[v| |]|]; auto.
  - apply IH.
  - destruct (vars i); auto.
Qed.

Lemma asked_ext : forall vars s par a b, (forall i, a i = b i) ->
  asked vars s par a = asked vars s par b.
Proof.
  intros vars s par a b H. induction s as [o|i k IH|k IH|i k IH]; cbn [asked].
  - reflexivity.
  - rewrite <- H. destruct (a i) as [[v| |]|]; auto. f_equal. apply IH.
  - apply IH.
  - destruct (vars i); auto.
Qed.

Lemma den_eq : forall vars s par kids,
  den vars (Node s par kids) = apply_strat vars (s_strat s) par (den_args vars kids).
Proof.
  intros vars s par kids. cbn [den]. apply apply_strat_ext.
  intro i. unfold den_args. revert i.
  induction kids as [|c r IH]; intros [|i]; cbn [nth_error option_map]; auto.
Qed.

(* what the strategy does depends only on the arguments it asks for *)
Lemma apply_strat_asked : forall vars s par a b,
  (forall i, In i (asked vars s par a) -> b i = a i) ->
  apply_strat vars s par b = apply_strat vars s par a.
Proof.
  intros vars s par a b. induction s as [o|i k IH|k IH|i k IH]; cbn [apply_strat asked]; intro H.
  - reflexivity.
  - rewrite (H i) by (left; reflexivity).
    destruct (a i) as [[v| |]|]; auto. apply IH. intros j Hj. apply H. right. exact Hj.
  - apply IH. exact H.
  - destruct (vars i); auto.
Qed.

Lemma nth_error_replace_nth : forall {A} (l : list A) j x i, i <> j ->
  nth_error (replace_nth j x l) i = nth_error l i.
Proof.
  induction l as [|y l IH]; intros j x i H; [destruct j; reflexivity|].
  destruct j as [|j]; destruct i as [|i]; cbn [replace_nth nth_error]; try reflexivity; try congruence.
  apply IH. congruence.
Qed.

Lemma den_asked_only : forall vars s par kids kids',
  (forall i, In i (asked_at vars (Node s par kids)) ->
     option_map (den vars) (nth_error kids' i) = option_map (den vars) (nth_error kids i)) ->
  den vars (Node s par kids') = den vars (Node s par kids).
Proof.
  intros vars s par kids kids' H. rewrite !den_eq. apply apply_strat_asked. exact H.
Qed.

Lemma den_unasked_replace : forall vars s par kids j u,
  ~ In j (asked_at vars (Node s par kids)) ->
  den vars (Node s par (replace_nth j u kids)) = den vars (Node s par kids).
Proof.
  intros vars s par kids j u H. apply den_asked_only. intros i Hi.
  rewrite nth_error_replace_nth; [reflexivity|]. intro E. subst i. contradiction.
Qed.

(* ------------------------------------------------------------------ *)
(** * The machine                                                      *)

Lemma res_of_outcome_fuel : forall o, res_of_outcome o <> ROutOfFuel.
Proof. intros [v| |]; discriminate. Qed.

Section Sound.
Variable src : bool.
Variable g : genome.
Variable ex : option (list value).
Let vars := vars_of src ex.

Local Notation cache_sound := (cache_sound vars g).

(* what one call ( *prg_)[ip_].sym->eval( *this) guarantees *)
Definition post (st : state) (t : tree) (r : mres) (st' : state) : Prop :=
  r = res_of_outcome (den vars t) /\ cache_sound st' /\ example st' = ex /\
  cache_ext st st' /\ (is_val r -> ip st' = ip st) /\
  (forall lb, e_valid (cache st' lb) = true ->
     e_valid (cache st lb) = true \/ needed vars g (ip st) lb).

Definition rec_ok (n : nat) (rec : state -> mres * state) : Prop :=
  forall st t, tree_of n g (ip st) = Some t -> cache_sound st -> example st = ex ->
    post st t (fst (rec st)) (snd (rec st)).

Lemma cache_ext_refl : forall st, cache_ext st st.
Proof. intros st la _. reflexivity. Qed.

Lemma cache_ext_trans : forall a b c, cache_ext a b -> cache_ext b c -> cache_ext a c.
Proof.
  intros a b c H1 H2 la V. rewrite H2; [apply H1; exact V|]. rewrite H1; exact V.
Qed.

Lemma fetch_var_vars : forall st i, example st = ex -> fetch_var src i st = vars i.
Proof. intros st i E. unfold fetch_var, vars, vars_of. rewrite E. reflexivity. Qed.

Ltac noval := try match goal with |- is_val _ -> _ => intros [] end.

Lemma exec_sound : forall n rec, rec_ok n rec ->
  forall s st ge kids,
    gene_at g (ip st) = Some ge ->
    (forall i, nth_error kids i = kid n g ge i) ->
    (forall i, i < arity (g_sym ge) -> exists ti, kid n g ge i = Some ti) ->
    cache_sound st -> example st = ex ->
    forall Q : nat -> Prop,
    (forall j, In j (asked vars s (g_par ge) (den_args vars kids)) -> Q j) ->
    let r := exec src g rec s st in
    fst r = res_of_outcome (apply_strat vars s (g_par ge) (den_args vars kids)) /\
    cache_sound (snd r) /\ example (snd r) = ex /\ cache_ext st (snd r) /\
    (is_val (fst r) -> ip (snd r) = ip st) /\
    (forall lb, e_valid (cache (snd r) lb) = true ->
       e_valid (cache st lb) = true \/
       exists j la, Q j /\ arg_locus ge j = Some la /\ (lb = la \/ needed vars g la lb)).
Proof.
  intros n rec Hrec. induction s as [o|i k IH|k IH|i k IH]; intros st ge kids G K KS S E Q HQ; cbv zeta.
  - cbn [exec fst snd apply_strat]. repeat split; auto using cache_ext_refl.
  - (* Fetch *)
    cbn [exec apply_strat]. unfold fetch_arg. rewrite G.
    cbn [asked] in HQ.
    unfold den_args at 1. unfold den_args at 1 in HQ. rewrite K in *. unfold kid at 1. unfold kid at 1 in HQ.
    destruct (arg_locus ge i) as [la|] eqn:A.
    2:{ cbn. repeat split; auto using cache_ext_refl; noval. }
    destruct (tree_of n g la) as [ti|] eqn:T.
    2:{ (* the child does not unfold: excluded, all children below arity unfold *)
        exfalso. destruct (KS i (arg_locus_lt _ _ _ A)) as [ti Ti].
        unfold kid in Ti. rewrite A in Ti. congruence. }
    cbn [option_map] in *.
    assert (Qi : Q i) by (apply HQ; left; reflexivity).
    destruct (tree_of_gene _ _ _ _ T) as [ga Ga].
    rewrite (gene_at_in_matrix _ _ _ Ga). cbn [negb].
    destruct (e_valid (cache st la)) eqn:V.
    + (* memo hit *)
      destruct (S la V) as (n' & t' & T' & D').
      rewrite (tree_of_det _ _ _ _ _ _ T' T) in D'. rewrite D' in *.
      apply IH; try assumption. intros j Hj. apply HQ. right. exact Hj.
    + (* memo miss: fetch_opaque_arg *)
      unfold fetch_opaque_arg. rewrite G, A.
      assert (P := Hrec (set_ip st la) ti T S E).
      destruct (rec (set_ip st la)) as [r1 st1]. cbn [fst snd] in P.
      destruct P as (R & S1 & E1 & X1 & I1 & N1). subst r1.
      destruct (den vars ti) as [v| |] eqn:D; cbn [res_of_outcome].
      * set (st2 := store (set_ip st1 (ip st)) la v).
        assert (S2 : cache_sound st2).
        { intros lb Vb. unfold st2, store in *. cbn [cache set_ip] in *.
          destruct (locus_eqb lb la) eqn:Q0.
          - apply locus_eqb_eq in Q0. subst lb. cbn [e_value]. eauto.
          - apply S1. exact Vb. }
        assert (X2 : cache_ext st st2).
        { intros lb Vb. unfold st2, store. cbn [cache set_ip].
          destruct (locus_eqb lb la) eqn:Q0.
          - apply locus_eqb_eq in Q0. subst lb. congruence.
          - apply (X1 lb). exact Vb. }
        assert (N2 : forall lb, e_valid (cache st2 lb) = true ->
                  e_valid (cache st lb) = true \/ lb = la \/ needed vars g la lb).
        { intros lb Vb. unfold st2, store in Vb. cbn [cache set_ip] in Vb.
          destruct (locus_eqb lb la) eqn:Q0.
          - apply locus_eqb_eq in Q0. auto.
          - destruct (N1 lb Vb) as [H|H]; [left; exact H|right; right; exact H]. }
        assert (G2 : gene_at g (ip st2) = Some ge) by exact G.
        assert (HQ2 : forall j, In j (asked vars (k v) (g_par ge) (den_args vars kids)) -> Q j).
        { intros j Hj. apply HQ. right. exact Hj. }
        destruct (IH v st2 ge kids G2 K KS S2 E1 Q HQ2) as (R3 & S3 & E3 & X3 & I3 & N3).
        repeat split; auto.
        -- eapply cache_ext_trans; eauto.
        -- intros lb Vb. destruct (N3 lb Vb) as [H|H]; [|right; exact H].
           destruct (N2 lb H) as [H2|H2]; [left; exact H2|].
           right. exists i, la. auto.
      * cbn [fst snd]. repeat split; auto; noval.
        intros lb Vb. destruct (N1 lb Vb) as [H|H]; [left; exact H|].
        right. exists i, la. auto.
      * cbn [fst snd]. repeat split; auto; noval.
        intros lb Vb. destruct (N1 lb Vb) as [H|H]; [left; exact H|].
        right. exists i, la. auto.
  - (* Param *)
    cbn [exec apply_strat]. unfold fetch_param. rewrite G. apply IH; assumption.
  - (* Var *)
    cbn [exec apply_strat]. rewrite (fetch_var_vars st i E). cbn [asked] in HQ.
    destruct (vars i) as [v|].
    + apply IH; assumption.
    + cbn. repeat split; auto using cache_ext_refl; noval.
Qed.
End Sound.

Lemma eval_sym_sound : forall src g ex n, rec_ok src g ex n (eval_sym src g n).
Proof.
  intros src g ex. induction n as [|n IH]; intros st t T S E.
  - discriminate.
  - destruct (tree_of_S_inv _ _ _ _ T) as (ge & kids & G & -> & K & KS).
    cbn [eval_sym]. rewrite G.
    pose proof (exec_sound src g ex n _ IH (s_strat (g_sym ge)) st ge kids G K KS S E
                  (fun j => In j (asked_at (vars_of src ex) (Node (g_sym ge) (g_par ge) kids)))
                  (fun j Hj => Hj)) as P.
    cbv zeta in P. unfold post. rewrite den_eq.
    destruct P as (P1 & P2 & P3 & P4 & P5 & P6).
    repeat split; auto.
    intros lb Vb. destruct (P6 lb Vb) as [H|(j & la & Qj & A & H)]; [left; exact H|right].
    assert (AS : asks (vars_of src ex) g (ip st) la).
    { exists (Datatypes.S n), (Node (g_sym ge) (g_par ge) kids), ge, j. auto. }
    destruct H as [->|H]; [apply needed_one; exact AS|eapply needed_more; eauto].
Qed.

Lemma invalidate_sound : forall vars g st l, cache_sound vars g (set_ip (invalidate st) l).
Proof. intros vars g st l la V. cbn in V. discriminate. Qed.

Lemma run_locus_fuel_sound : forall src g n l t st,
  tree_of n g l = Some t ->
  post src g (example st) (set_ip (invalidate st) l) t
       (fst (run_locus_fuel src g n l st)) (snd (run_locus_fuel src g n l st)).
Proof.
  intros src g n l t st T. unfold run_locus_fuel.
  apply eval_sym_sound; [exact T|apply invalidate_sound|reflexivity].
Qed.

Lemma run_locus_fuel_den : forall src g n l t st,
  tree_of n g l = Some t ->
  fst (run_locus_fuel src g n l st) = res_of_outcome (den (vars_of src (example st)) t).
Proof. intros. apply run_locus_fuel_sound. assumption. Qed.

(* the state a run leaves behind *)
Lemma run_locus_fuel_state : forall src g n l t st,
  tree_of n g l = Some t ->
  let r := run_locus_fuel src g n l st in
  cache_sound (vars_of src (example st)) g (snd r) /\
  example (snd r) = example st /\
  (is_val (fst r) -> ip (snd r) = l).
Proof.
  intros src g n l t st T r. destruct (run_locus_fuel_sound src g n l t st T) as (_ & S & E & _ & I & _).
  repeat split; assumption.
Qed.

Lemma run_den : forall src g t st, tree_of (rows g) g (best g) = Some t ->
  fst (run src g st) = res_of_outcome (den (vars_of src (example st)) t).
Proof. intros. apply run_locus_fuel_den. assumption. Qed.

Lemma run_ex_den : forall g t ex st, tree_of (rows g) g (best g) = Some t ->
  fst (run_ex true g ex st) = res_of_outcome (den (nth_error ex) t).
Proof. intros g t ex st T. unfold run_ex. rewrite (run_den true g t _ T). reflexivity. Qed.

Lemma run_is_denotation : forall g, wf_genome g -> forall st ex,
  exists t, active_tree g = Some t /\
            fst (run_ex true g ex st) = res_of_outcome (den (nth_error ex) t).
Proof.
  intros g W st ex. destruct (wf_active_tree g W) as (t & A & T).
  exists t. split; [exact A|]. apply run_ex_den. exact T.
Qed.

Lemma run_base_is_denotation : forall g, wf_genome g -> forall st,
  exists t, active_tree g = Some t /\
            fst (run false g st) = res_of_outcome (den (fun _ => Some VVoid) t).
Proof.
  intros g W st. destruct (wf_active_tree g W) as (t & A & T).
  exists t. split; [exact A|]. rewrite (run_den false g t st T). reflexivity.
Qed.

(* any populated locus of a well-formed genome (get_block) *)
Lemma run_locus_is_denotation : forall g, wf_genome g -> forall l ge, gene_at g l = Some ge ->
  forall src st, exists t, tree_of (S (rows g)) g l = Some t /\
    fst (run_locus src g l st) = res_of_outcome (den (vars_of src (example st)) t).
Proof.
  intros g W l ge G src st. destruct (wf_tree_of g W (rows g) l ge G) as [t T]; [lia|].
  exists t. split; [apply tree_of_mono with (n := rows g); [exact T|lia]|].
  apply run_locus_fuel_den. exact T.
Qed.

Lemma run_many_den : forall g t, tree_of (rows g) g (best g) = Some t -> forall exs st,
  fst (run_many true g exs st) = map (fun ex => res_of_outcome (den (nth_error ex) t)) exs.
Proof.
  intros g t T. induction exs as [|ex exs IH]; intro st; [reflexivity|].
  cbn [run_many map]. pose proof (run_ex_den g t ex st T) as R.
  destruct (run_ex true g ex st) as [r st1]. cbn [fst] in R. subst r.
  specialize (IH st1). destruct (run_many true g exs st1) as [rs st2]. cbn [fst] in *.
  rewrite IH. reflexivity.
Qed.

Lemma history_independent : forall g, wf_genome g -> forall exs st,
  exists t, active_tree g = Some t /\
    fst (run_many true g exs st) = map (fun ex => res_of_outcome (den (nth_error ex) t)) exs.
Proof.
  intros g W exs st. destruct (wf_active_tree g W) as (t & A & T).
  exists t. split; [exact A|]. apply run_many_den. exact T.
Qed.

Lemma no_out_of_fuel : forall g, wf_genome g -> forall l ge, gene_at g l = Some ge ->
  forall src st, fst (run_locus src g l st) <> ROutOfFuel.
Proof.
  intros g W l ge G src st. destruct (run_locus_is_denotation g W l ge G src st) as (t & _ & R).
  rewrite R. apply res_of_outcome_fuel.
Qed.

Lemma same_tree_same_result : forall g1 g2, wf_genome g1 -> wf_genome g2 ->
  active_tree g1 = active_tree g2 ->
  forall src st1 st2, example st1 = example st2 ->
    fst (run src g1 st1) = fst (run src g2 st2).
Proof.
  intros g1 g2 W1 W2 A src st1 st2 E.
  destruct (wf_active_tree g1 W1) as (t1 & A1 & T1).
  destruct (wf_active_tree g2 W2) as (t2 & A2 & T2).
  assert (t1 = t2) by congruence. subst t2.
  rewrite (run_den src g1 t1 st1 T1), (run_den src g2 t1 st2 T2), E. reflexivity.
Qed.

Lemma same_tree_same_result_ex : forall g1 g2, wf_genome g1 -> wf_genome g2 ->
  active_tree g1 = active_tree g2 ->
  forall ex st1 st2, fst (run_ex true g1 ex st1) = fst (run_ex true g2 ex st2).
Proof.
  intros g1 g2 W1 W2 A ex st1 st2. unfold run_ex.
  apply same_tree_same_result; auto.
Qed.

Lemma unasked_machine : forall g1 g2 s par kids j u, wf_genome g1 -> wf_genome g2 ->
  active_tree g1 = Some (Node s par kids) ->
  active_tree g2 = Some (Node s par (replace_nth j u kids)) ->
  forall ex, ~ In j (asked_at (nth_error ex) (Node s par kids)) ->
  forall st1 st2, fst (run_ex true g1 ex st1) = fst (run_ex true g2 ex st2).
Proof.
  intros g1 g2 s par kids j u W1 W2 A1 A2 ex NI st1 st2.
  destruct (wf_active_tree g1 W1) as (t1 & B1 & T1).
  destruct (wf_active_tree g2 W2) as (t2 & B2 & T2).
  rewrite (run_ex_den g1 t1 ex st1 T1), (run_ex_den g2 t2 ex st2 T2).
  assert (t1 = Node s par kids) by congruence.
  assert (t2 = Node s par (replace_nth j u kids)) by congruence. subst t1 t2.
  rewrite den_unasked_replace by exact NI. reflexivity.
Qed.

Lemma den_variable : forall vars opc i c par kids,
  den vars (Node (variable_sym opc i c) par kids) =
  match vars i with Some v => Val v | None => Stuck end.
Proof. intros. rewrite den_eq. cbn. destruct (vars i); reflexivity. Qed.

Lemma fetch_var_reads_feature : forall g ge i ex st,
  gene_at g (best g) = Some ge ->
  s_strat (g_sym ge) = Var i (fun v => Ret (Val v)) ->
  fst (run_ex true g ex st) = match nth_error ex i with Some v => RVal v | None => RStuck end.
Proof.
  intros g ge i ex st G Sx. unfold run_ex, run, run_locus, run_locus_fuel.
  destruct (gene_at_cell _ _ _ G) as (Hr & _ & _).
  destruct (rows g) as [|n] eqn:R; [lia|].
  cbn [eval_sym]. cbn [ip set_ip]. rewrite G, Sx. cbn [exec].
  unfold fetch_var. cbn [example set_ip invalidate set_example].
  destruct (nth_error ex i); reflexivity.
Qed.

(* no well-formedness needed: two genomes (garbage outside the active part
   allowed) whose entry loci unfold to the same tree give the same result *)
Lemma same_unfolding_same_result : forall src g1 g2 n1 n2 l1 l2 t st1 st2,
  tree_of n1 g1 l1 = Some t -> tree_of n2 g2 l2 = Some t -> example st1 = example st2 ->
  fst (run_locus_fuel src g1 n1 l1 st1) = fst (run_locus_fuel src g2 n2 l2 st2).
Proof.
  intros src g1 g2 n1 n2 l1 l2 t st1 st2 T1 T2 E.
  rewrite (run_locus_fuel_den src g1 n1 l1 t st1 T1), (run_locus_fuel_den src g2 n2 l2 t st2 T2), E.
  reflexivity.
Qed.

(* operational laziness: after a run from l, every valid memo entry is at a
   locus reached from l through arguments that were asked for *)
Lemma only_needed_evaluated : forall src g n l t st,
  tree_of n g l = Some t ->
  forall lb, e_valid (cache (snd (run_locus_fuel src g n l st)) lb) = true ->
    needed (vars_of src (example st)) g l lb.
Proof.
  intros src g n l t st T lb Vb.
  destruct (run_locus_fuel_sound src g n l t st T) as (_ & _ & _ & _ & _ & N).
  destruct (N lb Vb) as [H|H]; [cbn in H; discriminate|exact H].
Qed.

(* ------------------------------------------------------------------ *)
(** * penalty and teams                                                *)

(* penalty() only moves ip_: the memo is untouched, and since every theorem
   above holds from any state, interleaving penalty() calls with runs changes
   no result *)
Lemma penalty_locus_state : forall g pk l st,
  snd (penalty_locus g pk l st) = set_ip st l.
Proof. reflexivity. Qed.

Lemma penalty_depends_on_gene_only : forall g pk l st1 st2,
  fst (penalty_locus g pk l st1) = fst (penalty_locus g pk l st2).
Proof. reflexivity. Qed.

Lemma penalty_cmp4 : forall g pk l st ge a b c d,
  gene_at g l = Some ge -> pk (s_opcode (g_sym ge)) = PenCmp4 -> g_args ge = [a; b; c; d] ->
  fst (penalty_locus g pk l st) = Some (b2z (Nat.eqb a b) + b2z (Nat.eqb c d))%Z.
Proof.
  intros g pk l st ge a b c d G K A. unfold penalty_locus. cbn [fst]. rewrite G, K.
  unfold penalty_sym, fetch_index. cbn [ip set_ip]. rewrite G, A. reflexivity.
Qed.

(* the four-argument helper on a gene with fewer arguments reads a missing argument *)
Lemma penalty_cmp4_short : forall g pk l st ge,
  gene_at g l = Some ge -> pk (s_opcode (g_sym ge)) = PenCmp4 -> length (g_args ge) < 4 ->
  fst (penalty_locus g pk l st) = None.
Proof.
  intros g pk l st ge G K A. unfold penalty_locus. cbn [fst]. rewrite G, K.
  unfold penalty_sym, fetch_index. cbn [ip set_ip]. rewrite G.
  destruct (g_args ge) as [|a [|b [|c [|d r]]]]; cbn in *; try reflexivity. lia.
Qed.

Lemma run_after_penalty : forall g, wf_genome g -> forall pk l st ex,
  exists t, active_tree g = Some t /\
    fst (run_ex true g ex (snd (penalty_locus g pk l st))) = res_of_outcome (den (nth_error ex) t).
Proof. intros g W pk l st ex. apply run_is_denotation. exact W. Qed.

(* a team's output is the running mean of the denotations of its members'
   active trees, whatever each member's interpreter did before *)
Lemma team_eval_den : forall ms ts ex,
  Forall2 (fun m t => tree_of (rows (fst m)) (fst m) (best (fst m)) = Some t) ms ts ->
  forall avg count,
    fst (team_eval ms ex avg count) = team_den ts (nth_error ex) avg count.
Proof.
  intros ms ts ex H. induction H as [|[g st] t ms ts T H IH]; intros avg count; [reflexivity|].
  cbn [team_eval team_den]. cbn [fst] in T.
  pose proof (run_ex_den g t ex st T) as R.
  destruct (run_ex true g ex st) as [res st']. cbn [fst] in R. subst res.
  destruct (den (nth_error ex) t) as [v| |]; cbn [res_of_outcome]; try reflexivity.
  destruct (has_value v).
  - destruct (lexical_double v) as [x|]; [|reflexivity].
    specialize (IH (F64.add avg (F64.div (F64.sub x avg) (F64.add count f64_one))) (F64.add count f64_one)).
    destruct (team_eval ms ex _ _) as [o sts]. exact IH.
  - specialize (IH avg count). destruct (team_eval ms ex avg count) as [o sts]. exact IH.
Qed.

Lemma team_run_is_member_denotations : forall ms ex,
  Forall (fun m => wf_genome (fst m)) ms ->
  exists ts, Forall2 (fun m t => active_tree (fst m) = Some t) ms ts /\
             fst (team_run ms ex) = team_den ts (nth_error ex) F64.zero F64.zero.
Proof.
  intros ms ex W.
  assert (E : exists ts, Forall2 (fun m t => active_tree (fst m) = Some t) ms ts /\
                         Forall2 (fun m t => tree_of (rows (fst m)) (fst m) (best (fst m)) = Some t) ms ts).
  { induction W as [|m ms Wm W IH]; [exists []; split; constructor|].
    destruct IH as (ts & A & B). destruct (wf_active_tree _ Wm) as (t & At & Tt).
    exists (t :: ts). split; constructor; assumption. }
  destruct E as (ts & A & B). exists ts. split; [exact A|]. apply team_eval_den. exact B.
Qed.
