(* C01 -- closed examples (non-vacuity): a 3-category DAG of shipped
   primitives run twice on one interpreter state. *)
From Coq Require Import ZArith List Bool Arith Lia.
From VV Require Import Base.F64 Base.Values Interp.Strategy Cxx.CxxMini Gen.Prims Mep.Genome
  Interp.MachineDefs Interp.MachineProofs.
Import ListNotations.

Section Demo.
Variable lm : libm.

(* categories: 0 and 1 numeric, 2 string *)
Definition s_fifl := prim_sym lm 1 real_ifl_body 1 [0;0;1;1] false.   (* real::ifl({0,1}) *)
Definition s_x0   := variable_sym 2 0 0.
Definition s_fadd := prim_sym lm 3 real_add_body 0 [0;0] false.       (* real::add({0})   *)
Definition s_sife := prim_sym lm 4 string_ife_body 1 [2;2;1;1] false. (* str::ife({2,1})  *)
Definition s_fmul := prim_sym lm 5 real_mul_body 1 [1;1] false.       (* real::mul({1})   *)
Definition s_real := prim_sym lm 6 real_real_body 0 [] true.          (* real::real({0})  *)
Definition s_x1   := variable_sym 7 1 2.
Definition s_abc  := constant_sym 8 (VString [97;98;99]%Z) 2.
Definition s_x2   := variable_sym 9 2 1.
Definition s_and  := prim_sym lm 10 bool_l_and_body 0 [0;0] false.    (* boolean::l_and({0}) *)

Definition mkg (s : sym) (par : f64) (args : list nat) : gene :=
  {| g_sym := s; g_par := par; g_args := args |}.
Definition at_row (r : nat) (ge : gene) : cell_spec := {| c_row := r; c_gene := ge |}.
Definition d2_5 : f64 := F64.of_bits 0x4004000000000000.

(*  [0,1] FIFL 1 2 3 4      x0 < 2.5+2.5 ? [3,1] : [4,1]
    [1,0] X0
    [2,0] FADD 5 5          shared argument
    [3,1] SIFE 5 6 4 7      x1 == "abc" ? [4,1] : x2     ([4,1] shared with FIFL)
    [4,1] FMUL 7 7          x2 * x2
    [5,0] 2.5   [5,2] X1    one row, two categories
    [6,2] "abc"
    [7,1] X2                                                              *)
Definition demo_genome : genome :=
  genome_of_cells 8 3
    [ at_row 0 (mkg s_fifl F64.zero [1;2;3;4]);
      at_row 1 (mkg s_x0 F64.zero []);
      at_row 2 (mkg s_fadd F64.zero [5;5]);
      at_row 3 (mkg s_sife F64.zero [5;6;4;7]);
      at_row 4 (mkg s_fmul F64.zero [7;7]);
      at_row 5 (mkg s_real d2_5 []);
      at_row 5 (mkg s_x1 F64.zero []);
      at_row 6 (mkg s_abc F64.zero []);
      at_row 7 (mkg s_x2 F64.zero []) ]
    {| l_index := 0; l_cat := 1 |}.

(* AND applied to a double: std::get<D_INT> throws, inside the evaluation of
   the argument at row 1 *)
Definition demo_throw_genome : genome :=
  genome_of_cells 3 1
    [ at_row 0 (mkg s_and F64.zero [1;1]);
      at_row 1 (mkg s_and F64.zero [2;2]);
      at_row 2 (mkg s_x0 F64.zero []) ]
    {| l_index := 0; l_cat := 0 |}.
End Demo.

Definition d1 : f64 := F64.of_bits 0x3FF0000000000000.
Definition d3 : f64 := F64.of_bits 0x4008000000000000.
Definition d4 : f64 := F64.of_bits 0x4010000000000000.
Definition d7 : f64 := F64.of_bits 0x401C000000000000.
Definition demo_ex1 : list value := [VDouble d1; VString [97;98;99]%Z; VDouble d3].
Definition demo_ex2 : list value := [VDouble d7; VString [122;122]%Z; VDouble d4].

Lemma demo_wf : forall lm, wf_genome (demo_genome lm).
Proof. intro lm. unfold wf_genome. vm_compute. reflexivity. Qed.

Lemma demo_throw_wf : forall lm, wf_genome (demo_throw_genome lm).
Proof. intro lm. unfold wf_genome. vm_compute. reflexivity. Qed.

(* 9.0 then 16.0 *)
Lemma demo_run_twice : forall lm,
  map show_res
      (fst (run_many true (demo_genome lm) [demo_ex1; demo_ex2] (init_state (demo_genome lm))))
  = [[2; 0x4022000000000000]; [2; 0x4030000000000000]]%Z.
Proof. intro lm. vm_compute. reflexivity. Qed.

(* the tree is a proper unfolding of a DAG (15 nodes from 9 genes), and on
   the first example the root asks for arguments 0, 1 and 2 only *)
Lemma demo_asked : forall lm,
  match active_tree (demo_genome lm) with
  | Some t => asked_at (nth_error demo_ex1) t = [0; 1; 2] /\ tree_size t = 15
  | None => False
  end.
Proof. intro lm. vm_compute. split; reflexivity. Qed.

Lemma demo_sound_state : forall lm,
  let g := demo_genome lm in
  let st := snd (run_ex true g demo_ex1 (init_state g)) in
  cache_sound (nth_error demo_ex1) g st /\ valid_entries g st <> [].
Proof.
  intro lm. cbv zeta. split.
  - destruct (wf_active_tree _ (demo_wf lm)) as (t & _ & T).
    exact (proj1 (run_locus_fuel_state true _ _ _ t
                    (set_example (init_state (demo_genome lm)) demo_ex1) T)).
  - intro H. apply (f_equal (@length _)) in H. revert H. vm_compute. discriminate.
Qed.

Lemma demo_throw : forall lm,
  show_res (fst (run_ex true (demo_throw_genome lm) demo_ex1 (init_state (demo_throw_genome lm))))
  = [10%Z].
Proof. intro lm. vm_compute. reflexivity. Qed.

(* after an exception ip_ is left at the argument's locus; the next run on
   the same object still returns the denotation *)
Lemma demo_throw_leaves_ip : forall lm,
  let g := demo_throw_genome lm in
  l_index (ip (snd (run_ex true g demo_ex1 (init_state g)))) = 1.
Proof. intro lm. vm_compute. reflexivity. Qed.

Lemma demo_untaken_not_evaluated : forall lm,
  let g := demo_genome lm in
  let st := snd (run_ex true g demo_ex2 (init_state g)) in
  e_valid (cache st {| l_index := 3; l_cat := 1 |}) = false /\
  e_valid (cache st {| l_index := 4; l_cat := 1 |}) = true.
Proof. intro lm. vm_compute. split; reflexivity. Qed.
