(* The behaviour of a symbol as a strategy: the free monad over the
   vita::symbol_params interface (fetch_arg / fetch_param / fetch_var).
   Definitions only. *)
From Coq Require Import ZArith List.
From VV Require Import Base.F64 Base.Values.
Import ListNotations.

Inductive strategy :=
| Ret   (o : outcome)
| Fetch (i : nat) (k : value -> strategy)     (* args[i] / fetch_arg(i) *)
| Param (k : f64 -> strategy)                 (* fetch_param()          *)
| Var   (i : nat) (k : value -> strategy).    (* fetch_var(i)           *)

(* Direct evaluation of a strategy when the values of the arguments are
   given by a function (what symbol::eval computes against a stub
   symbol_params).  [Stuck] if an argument, parameter or variable is asked
   for and not provided. *)
Record stub := { s_arg : nat -> option value; s_par : option f64; s_var : nat -> option value }.

Fixpoint run_stub (s : strategy) (p : stub) : outcome :=
  match s with
  | Ret o => o
  | Fetch i k => match s_arg p i with Some v => run_stub (k v) p | None => Stuck end
  | Param k => match s_par p with Some f => run_stub (k f) p | None => Stuck end
  | Var i k => match s_var p i with Some v => run_stub (k v) p | None => Stuck end
  end.

(* the list of argument indices a strategy fetches on a given stub, in order *)
Fixpoint fetched (s : strategy) (p : stub) : list nat :=
  match s with
  | Ret _ => []
  | Fetch i k => i :: match s_arg p i with Some v => fetched (k v) p | None => [] end
  | Param k => match s_par p with Some f => fetched (k f) p | None => [] end
  | Var i k => match s_var p i with Some v => fetched (k v) p | None => [] end
  end.

Definition args_stub (l : list value) : stub :=
  {| s_arg := fun i => nth_error l i; s_par := None; s_var := fun _ => None |}.
