(* C05 -- exact layer (Q): the running mean `avg += (err - avg) / ++n` is the
   arithmetic mean; sign and zero of the fitness. *)
From Coq Require Import ZArith QArith Qfield Lqa List Lia.
From VV Require Import Eval.EvalDefs.
Import ListNotations.
Local Open Scope Q_scope.

Lemma q_run_inv : forall l a n, 0 <= n ->
  snd (fold_left q_step l (a, n)) == n + inject_Z (Z.of_nat (length l)) /\
  fst (fold_left q_step l (a, n)) * snd (fold_left q_step l (a, n)) == a * n + qsum l.
Proof.
  induction l as [|e r IH]; intros a n Hn.
  - cbn [fold_left fst snd length qsum fold_right]. split; [unfold inject_Z; cbn; lra|lra].
  - cbn [fold_left]. unfold q_step at 2 4 5. cbn [fst snd].
    assert (Hn1 : 0 <= n + 1) by lra.
    destruct (IH (a + (e - a) / (n + 1)) (n + 1) Hn1) as [H1 H2].
    split.
    + rewrite H1. cbn [length]. rewrite Nat2Z.inj_succ. unfold Z.succ. rewrite inject_Z_plus.
      change (inject_Z 1) with 1. lra.
    + rewrite H2. cbn [qsum fold_right]. fold (qsum r).
      assert (Hne : ~ n + 1 == 0) by lra.
      field. exact Hne.
Qed.

Lemma q_running_count : forall l, snd (q_running l) == inject_Z (Z.of_nat (length l)).
Proof. intro l. unfold q_running. destruct (q_run_inv l 0 0 (Qle_refl 0)) as [H _]. rewrite H. lra. Qed.

Lemma q_running_sum : forall l, fst (q_running l) * inject_Z (Z.of_nat (length l)) == qsum l.
Proof.
  intro l. rewrite <- q_running_count. unfold q_running.
  destruct (q_run_inv l 0 0 (Qle_refl 0)) as [_ H]. rewrite H. lra.
Qed.

Lemma len_pos : forall (l : list Q), l <> [] -> 0 < inject_Z (Z.of_nat (length l)).
Proof.
  intros l H. destruct l as [|x xs]; [contradiction|].
  change 0 with (inject_Z 0). rewrite <- Zlt_Qlt. cbn [length]. lia.
Qed.

Lemma running_mean_is_mean : forall l, l <> [] -> fst (q_running l) == qmean l.
Proof.
  intros l H. unfold qmean. pose proof (len_pos l H) as Hp. pose proof (q_running_sum l) as Hs.
  rewrite <- Hs. field. lra.
Qed.

Lemma qsum_nonneg : forall l, Forall (fun e => 0 <= e) l -> 0 <= qsum l.
Proof.
  induction l as [|e r IH]; intro H; cbn [qsum fold_right]; [lra|].
  inversion H; subst. fold (qsum r). specialize (IH H3). lra.
Qed.

Lemma qsum_zero_iff : forall l, Forall (fun e => 0 <= e) l -> (qsum l == 0 <-> Forall (fun e => e == 0) l).
Proof.
  induction l as [|e r IH]; intro H.
  - cbn. split; [constructor|reflexivity].
  - inversion H as [|? ? He Hr]; subst. cbn [qsum fold_right]. fold (qsum r).
    pose proof (qsum_nonneg r Hr) as Hs. specialize (IH Hr). split.
    + intro E. constructor; [lra|]. apply IH. lra.
    + intro F. inversion F as [|? ? Fe Fr]; subst. apply IH in Fr. lra.
Qed.

Lemma fitness_is_minus_mean : forall l, l <> [] -> q_fitness l == - qmean l.
Proof. intros l H. unfold q_fitness. rewrite (running_mean_is_mean l H). reflexivity. Qed.

Lemma qmean_nonneg : forall l, l <> [] -> Forall (fun e => 0 <= e) l -> 0 <= qmean l.
Proof.
  intros l H F. unfold qmean. pose proof (len_pos l H) as Hp. pose proof (qsum_nonneg l F) as Hs.
  apply Qle_shift_div_l; [exact Hp|]. lra.
Qed.

Lemma fitness_nonpositive : forall l, l <> [] -> Forall (fun e => 0 <= e) l -> q_fitness l <= 0.
Proof.
  intros l H F. rewrite (fitness_is_minus_mean l H). pose proof (qmean_nonneg l H F). lra.
Qed.

Lemma fitness_zero_iff_all_errors_zero : forall l, l <> [] -> Forall (fun e => 0 <= e) l ->
  (q_fitness l == 0 <-> Forall (fun e => e == 0) l).
Proof.
  intros l H F. rewrite (fitness_is_minus_mean l H). rewrite <- (qsum_zero_iff l F).
  unfold qmean. pose proof (len_pos l H) as Hp. split; intro E.
  - assert (E2 : qsum l / inject_Z (Z.of_nat (length l)) == 0) by lra.
    assert (E3 : qsum l == (qsum l / inject_Z (Z.of_nat (length l))) * inject_Z (Z.of_nat (length l))) by (field; lra).
    rewrite E3, E2. lra.
  - rewrite E. field. lra.
Qed.
