(* C05 -- the evaluators on the real classifiers (C08's model): what a Done /
   Thrown outcome means, and the generic count / bounds theorems instantiated
   with the tag function of the object the evaluator built. *)
From Coq Require Import ZArith NArith Reals List Bool Lia Lra.
From Flocq Require Import Core.
From Flocq Require Import IEEE754.BinarySingleNaN.
From VV Require Import Lambda.LambdaDefs Lambda.LambdaFloat.
From VV Require Import Base.F64 Eval.EvalDefs Eval.EvalProofs Eval.EvalFloatProofs Eval.EvalClassDefs.
Import ListNotations.
Local Open Scope Z_scope.

Lemma count_eval_fst : forall tag d, fst (count_eval tag d) = frame_cls (cls_wrong tag) d.
Proof.
  intros tag d. unfold count_eval. pose proof (count_loop_frame tag d F64.zero) as Fr.
  destruct (count_loop tag d F64.zero) as [x y]. exact Fr.
Qed.
Lemma gaussian_eval_fst : forall tag classes d, fst (gaussian_eval tag classes d) = frame_cls (cls_wrong tag) d.
Proof.
  intros tag classes d. unfold gaussian_eval. pose proof (gaussian_loop_frame tag (gaussian_scale classes) d F64.zero) as Fr.
  destruct (gaussian_loop tag (gaussian_scale classes) d F64.zero) as [x y]. exact Fr.
Qed.

Section Real.
Variables libm_atan libm_exp : f64 -> f64.
Variable out : list pout -> pout.

Lemma train_of_built_labelled : forall classes d tr, train_of out classes d = Built tr -> all_labelled d.
Proof.
  intros classes d. induction d as [|e r IH]; intros tr H; [constructor|]. cbn [train_of] in H.
  destruct (label e) as [l|] eqn:L; [|discriminate].
  destruct (l <? Z.of_nat classes); [|discriminate].
  destruct (train_of out classes r) as [t| |] eqn:E; try discriminate.
  constructor; [rewrite L; discriminate|]. exact (IH t eq_refl).
Qed.

Lemma train_of_labels_in_range : forall classes d tr, train_of out classes d = Built tr ->
  Forall (fun e => exists l, label e = Some l /\ 0 <= l < Z.of_nat classes) d.
Proof.
  intros classes d. induction d as [|e r IH]; intros tr H; [constructor|]. cbn [train_of] in H.
  destruct (label e) as [l|] eqn:L; [|discriminate].
  destruct (l <? Z.of_nat classes) eqn:B; [|discriminate].
  destruct (train_of out classes r) as [t| |] eqn:E; try discriminate.
  constructor; [|exact (IH t eq_refl)]. exists l. split; [exact L|].
  unfold label in L. destruct (ex_out e); try discriminate. injection L as <-.
  pose proof (Z.mod_pos_bound z 18446744073709551616 eq_refl). lia.
Qed.

(* dyn_slot: a Done outcome is the counting loop run on the tag function of the
   dyn_slot model built from this very dataset *)
Lemma dyn_slot_real_done : forall classes x_slot d d' f,
  dyn_slot_eval_real libm_atan out classes x_slot d = Done d' f ->
  exists tr m, train_of out classes d = Built tr /\ dyn_build libm_atan classes x_slot tr = Some m /\
               dyn_slot_eval (dyn_tag_fn libm_atan out m) d = (d', Some f) /\
               (forall e, In e d -> dyn_tag libm_atan m (to_out (out (ex_in e))) <> None).
Proof.
  intros classes x_slot d d' f H. unfold dyn_slot_eval_real in H.
  destruct (train_of out classes d) as [tr| |] eqn:T; try discriminate.
  destruct (dyn_build libm_atan classes x_slot tr) as [m|] eqn:B; [|discriminate].
  destruct (forallb (dyn_tag_defined libm_atan out m) d) eqn:A; [|discriminate].
  exists tr, m. split; [reflexivity|]. split; [exact B|]. split.
  - unfold of_loop in H. destruct (dyn_slot_eval (dyn_tag_fn libm_atan out m) d) as [x [y|]]; try discriminate.
    injection H as -> ->. reflexivity.
  - intros e He. rewrite forallb_forall in A. specialize (A e He). unfold dyn_tag_defined in A.
    destruct (dyn_tag libm_atan m (to_out (out (ex_in e)))); [discriminate|discriminate A].
Qed.

Lemma dyn_slot_real_counts : forall classes x_slot d d' f,
  dyn_slot_eval_real libm_atan out classes x_slot d = Done d' f -> (Z.of_nat (length d) < 2 ^ 53) ->
  exists tr m v, train_of out classes d = Built tr /\ dyn_build libm_atan classes x_slot tr = Some m /\
    d' = wrong_by (cls_wrong (dyn_tag_fn libm_atan out m)) d /\
    f = [v] /\ fin v /\ RV v = (- IZR (mismatches (cls_wrong (dyn_tag_fn libm_atan out m)) d))%R.
Proof.
  intros classes x_slot d d' f H L. destruct (dyn_slot_real_done _ _ _ _ _ H) as (tr & m & T & B & E & _).
  destruct (count_is_minus_mismatches _ _ _ _ E L) as (v & Ev & Fv & Rv).
  exists tr, m, v. repeat split; try assumption.
  pose proof (f_equal fst E) as Fr. cbn [fst] in Fr. rewrite <- Fr. unfold dyn_slot_eval. rewrite count_eval_fst.
  apply frame_cls_labelled. exact (train_of_built_labelled _ _ _ T).
Qed.

(* a constructor that throws leaves the dataset untouched *)
Lemma real_constructor_throw : forall classes x_slot d,
  train_of out classes d = BuildThrows ->
  dyn_slot_eval_real libm_atan out classes x_slot d = Thrown d /\
  gaussian_eval_real libm_exp out classes d = Thrown d /\
  exists e, In e d /\ label e = None.
Proof.
  intros classes x_slot d H. unfold dyn_slot_eval_real, gaussian_eval_real. rewrite H.
  split; [reflexivity|]. split; [reflexivity|].
  induction d as [|e r IH]; [discriminate H|]. cbn [train_of] in H.
  destruct (label e) as [l|] eqn:L; [|exists e; split; [left; reflexivity|exact L]].
  destruct (l <? Z.of_nat classes); [|discriminate].
  destruct (train_of out classes r) as [t| |] eqn:E; try discriminate.
  destruct (IH eq_refl) as (x & Hx & Lx). exists x. split; [right; exact Hx|exact Lx].
Qed.

(* binary: an exception in the loop keeps the increments already made *)
Lemma binary_real_frame : forall d,
  match binary_eval_real out d with
  | Done d' _ => d' = wrong_by (cls_wrong (binary_tag out)) d /\ all_labelled d
  | Thrown d' => d' = frame_cls (cls_wrong (binary_tag out)) d /\ exists e, In e d /\ label e = None
  | Undefined => False
  end.
Proof.
  intro d. unfold binary_eval_real, binary_eval, count_eval.
  pose proof (count_loop_frame (binary_tag out) d F64.zero) as Fr.
  destruct (count_loop (binary_tag out) d F64.zero) as [x [err|]] eqn:E; cbn [fst of_loop] in *.
  - pose proof (count_loop_done_labelled (binary_tag out) d F64.zero err ltac:(rewrite E; reflexivity)) as AL.
    split; [rewrite Fr; apply frame_cls_labelled; exact AL|exact AL].
  - split; [exact Fr|].
    clear Fr. revert x E. generalize F64.zero. induction d as [|e r IH]; intros z x E; [discriminate E|].
    cbn [count_loop] in E. destruct (label e) as [l|] eqn:L; [|exists e; split; [left; reflexivity|exact L]].
    destruct (count_loop (binary_tag out) r _) as [r' res] eqn:E2. injection E as _ ->.
    destruct (IH _ _ E2) as (y & Hy & Ly). exists y. split; [right; exact Hy|exact Ly].
Qed.

(* gaussian: the bounds for the real classifier, under C08's hypotheses *)
Hypothesis exp_nan : forall x : f64, is_nan x = true -> is_nan (libm_exp x) = true.
Hypothesis exp_nonpos : forall x : f64, F64.leb x F64.zero = true -> le01 (libm_exp x).

Lemma le01_tag_ok : forall c : f64, le01 c -> fin c /\ (0 <= RV c <= 1)%R.
Proof.
  intros c H. apply le01_ext in H. destruct H as [N B]. pose proof (small_mag_finite c N B) as F.
  split; [exact F|]. rewrite <- (ext_finite c F). exact B.
Qed.

Lemma gaussian_real_bounds : forall classes d d' f,
  gaussian_eval_real libm_exp out classes d = Done d' f ->
  (forall g tr, train_of out classes d = Built tr -> gauss_build classes tr = Some g ->
                Forall (fun mv => var_ok (snd mv)) (gauss_stats g)) ->
  (2 <= Z.of_nat classes <= 2 ^ 53) -> (Z.of_nat (length d) < 2 ^ 53) ->
  exists tr g v, train_of out classes d = Built tr /\ gauss_build classes tr = Some g /\
    d' = wrong_by (cls_wrong (gauss_tag_fn libm_exp out g)) d /\
    f = [v] /\ fin v /\ (- IZR (Z.of_nat (length d)) <= RV v <= 0)%R.
Proof.
  intros classes d d' f H HV Hc Hl. unfold gaussian_eval_real in H.
  destruct (train_of out classes d) as [tr| |] eqn:T; try discriminate.
  destruct (gauss_build classes tr) as [g|] eqn:B; [|discriminate].
  unfold of_loop in H.
  destruct (gaussian_eval (gauss_tag_fn libm_exp out g) (Z.of_nat classes) d) as [x [y|]] eqn:E; try discriminate.
  injection H as -> ->.
  assert (TO : tag_ok (gauss_tag_fn libm_exp out g)).
  { intro i. unfold gauss_tag_fn. cbn [snd]. apply le01_tag_ok. unfold gauss_tag.
    apply (gaussian_confidence_01_stats libm_exp exp_nan exp_nonpos). exact (HV g tr eq_refl B). }
  destruct (gaussian_bounds _ _ _ _ _ TO Hc Hl E) as (v & Ev & Fv & Bv).
  exists tr, g, v. repeat split; try assumption; try (apply Bv).
  pose proof (f_equal fst E) as Fr. cbn [fst] in Fr. rewrite <- Fr, gaussian_eval_fst.
  apply frame_cls_labelled. exact (train_of_built_labelled _ _ _ T).
Qed.
End Real.
