(* C05 -- dyn_slot_evaluator and gaussian_evaluator on the REAL classifiers:
   the evaluator builds a basic_dyn_slot_lambda_f / basic_gaussian_lambda_f
   from the program and the dataset and counts the mismatches of that very
   object's tag().  The classifier is the executable model of C08
   (coq/Lambda/LambdaDefs.v, imported read-only: dyn_build/dyn_tag,
   gauss_build/gauss_tag); libm's atan and exp are Section variables.
   Definitions only. *)
From Coq Require Import ZArith NArith List Bool.
From VV Require Import Base.F64 Eval.EvalDefs Lambda.LambdaDefs.
Import ListNotations.
Local Open Scope Z_scope.

(* what evaluating can do besides returning *)
Inductive cls_outcome :=
| Done (d : list example) (f : fitness)
| Thrown (d : list example)      (* std::bad_variant_access from label(); dataset as left *)
| Undefined.                     (* out-of-bounds index / undefined conversion in the C++ *)

Inductive build (A : Type) :=
| Built (a : A)
| BuildThrows
| BuildUndefined.
Arguments Built {A}. Arguments BuildThrows {A}. Arguments BuildUndefined {A}.

Section RealClassifiers.
Variables libm_atan libm_exp : f64 -> f64.
Variable out : list pout -> pout.       (* lambda_(example) *)

(* has_value(res) ? lexical_cast<D_DOUBLE>(res) : undefined *)
Definition to_out (p : pout) : LambdaDefs.out := if p_has_value p then Some (lex_double p) else None.

(* the constructors' pass over the training set: (program output, label(example)).
   A non integer output cell throws; a label >= classes indexes slot_matrix_ /
   gauss_dist_ out of bounds. *)
Fixpoint train_of (classes : nat) (d : list example) : build (list (LambdaDefs.out * nat)) :=
  match d with
  | [] => Built []
  | e :: r =>
      match label e with
      | None => BuildThrows
      | Some l =>
          if l <? Z.of_nat classes then
            match train_of classes r with
            | Built t => Built ((to_out (out (ex_in e)), Z.to_nat l) :: t)
            | x => x
            end
          else BuildUndefined
      end
  end.

(* lambda.tag(example) of the object built by the evaluator *)
Definition dyn_tag_fn (m : dyn_model) (i : list pout) : Z * f64 :=
  match dyn_tag libm_atan m (to_out (out i)) with
  | Some (l, s) => (Z.of_nat l, s)
  | None => (0, F64.nan)
  end.
Definition dyn_tag_defined (m : dyn_model) (e : example) : bool :=
  match dyn_tag libm_atan m (to_out (out (ex_in e))) with Some _ => true | None => false end.

Definition gauss_tag_fn (g : list dist) (i : list pout) : Z * f64 :=
  let r := gauss_tag libm_exp g (to_out (out i)) in (Z.of_nat (fst r), snd r).

Definition of_loop (r : list example * option fitness) : cls_outcome :=
  match r with (d', Some f) => Done d' f | (d', None) => Thrown d' end.

(* dyn_slot_evaluator::operator()  (x_slot_ = 10 by default) *)
Definition dyn_slot_eval_real (classes x_slot : nat) (d : list example) : cls_outcome :=
  match train_of classes d with
  | BuildThrows => Thrown d
  | BuildUndefined => Undefined
  | Built tr =>
      match dyn_build libm_atan classes x_slot tr with
      | None => Undefined
      | Some m =>
          if forallb (dyn_tag_defined m) d then of_loop (dyn_slot_eval (dyn_tag_fn m) d) else Undefined
      end
  end.

(* gaussian_evaluator::operator() *)
Definition gaussian_eval_real (classes : nat) (d : list example) : cls_outcome :=
  match train_of classes d with
  | BuildThrows => Thrown d
  | BuildUndefined => Undefined
  | Built tr =>
      match gauss_build classes tr with
      | None => Undefined
      | Some g => of_loop (gaussian_eval (gauss_tag_fn g) (Z.of_nat classes) d)
      end
  end.

(* binary_evaluator::operator(): no pass over the data in the constructor *)
Definition binary_eval_real (d : list example) : cls_outcome := of_loop (binary_eval out d).

(* the tags the evaluator's own object gives (compared with the harness) *)
Definition dyn_tags_real (classes x_slot : nat) (d : list example) : option (list (Z * f64)) :=
  match train_of classes d with
  | Built tr =>
      match dyn_build libm_atan classes x_slot tr with
      | Some m => Some (map (fun e => dyn_tag_fn m (ex_in e)) d)
      | None => None
      end
  | _ => None
  end.
Definition gauss_tags_real (classes : nat) (d : list example) : option (list (Z * f64)) :=
  match train_of classes d with
  | Built tr =>
      match gauss_build classes tr with
      | Some g => Some (map (fun e => gauss_tag_fn g (ex_in e)) d)
      | None => None
      end
  | _ => None
  end.
End RealClassifiers.

(* basic_reg_lambda_f<team<T>>::eval (lambda_f.tcc): the output of a TEAM is the
   running mean of the members' defined outputs, undefined when no member has a
   value (C08's model [team_eval]).  The evaluator theorems are over an output
   oracle: for a team the oracle is this function of the members' outputs. *)
Definition team_out (members : list pout) : pout :=
  match team_eval (map to_out members) with
  | Some v => PDouble v
  | None => PVoid
  end.
