(* C05 -- dyn_slot_evaluator and gaussian_evaluator on the REAL classifiers:
   the evaluator builds a basic_dyn_slot_lambda_f / basic_gaussian_lambda_f
   from the program and the dataset and counts the mismatches of that very
   object's tag().  The classifier is the executable model of C08
   (coq/Lambda/LambdaDefs.v, imported read-only: dyn_build/dyn_tag,
   gauss_build/gauss_tag); libm's atan and exp are Section variables.
   Definitions only. *)
From Coq Require Import ZArith NArith List Bool.
From VV Require Import Base.F64 Eval.EvalDefs Lambda.LambdaDefs.
Import ListNotations.
Local Open Scope Z_scope.

(* what evaluating can do besides returning *)
Inductive cls_outcome :=
| Done (d : list example) (f : fitness)
| Thrown (d : list example)      (* std::bad_variant_access from label(); dataset as left *)
| Undefined.                     (* out-of-bounds index / undefined conversion in the C++ *)

Inductive build (A : Type) :=
| Built (a : A)
| BuildThrows
| BuildUndefined.
Arguments Built {A}. Arguments BuildThrows {A}. Arguments BuildUndefined {A}.

Section RealClassifiers.
Variables libm_atan libm_exp : f64 -> f64.
Variable out : list pout -> pout.       (* lambda_(example) *)

(* has_value(res) ? lexical_cast<D_DOUBLE>(res) : undefined *)
Definition to_out (p : pout) : LambdaDefs.out := if p_has_value p then Some (lex_double p) else None.

(* the constructors' pass over the training set: (program output, label(example)).
   A non integer output cell throws; a label >= classes indexes slot_matrix_ /
   gauss_dist_ out of bounds. *)
Fixpoint train_of (classes : nat) (d : list example) : build (list (LambdaDefs.out * nat)) :=
  match d with
  | [] => Built []
  | e :: r =>
      match label e with
      | None => BuildThrows
      | Some l =>
          if l <? Z.of_nat classes then
            match train_of classes r with
            | Built t => Built ((to_out (out (ex_in e)), Z.to_nat l) :: t)
            | x => x
            end
          else BuildUndefined
      end
  end.

(* lambda.tag(example) of the object built by the evaluator *)
Definition dyn_tag_fn (m : dyn_model) (i : list pout) : Z * f64 :=
  match dyn_tag libm_atan m (to_out (out i)) with
  | Some (l, s) => (Z.of_nat l, s)
  | None => (0, F64.nan)
  end.
Definition dyn_tag_defined (m : dyn_model) (e : example) : bool :=
  match dyn_tag libm_atan m (to_out (out (ex_in e))) with Some _ => true | None => false end.

Definition gauss_tag_fn (g : list dist) (i : list pout) : Z * f64 :=
  let r := gauss_tag libm_exp g (to_out (out i)) in (Z.of_nat (fst r), snd r).

Definition of_loop (r : list example * option fitness) : cls_outcome :=
  match r with (d', Some f) => Done d' f | (d', None) => Thrown d' end.

(* dyn_slot_evaluator::operator()  (x_slot_ = 10 by default) *)
Definition dyn_slot_eval_real (classes x_slot : nat) (d : list example) : cls_outcome :=
  match train_of classes d with
  | BuildThrows => Thrown d
  | BuildUndefined => Undefined
  | Built tr =>
      match dyn_build libm_atan classes x_slot tr with
      | None => Undefined
      | Some m =>
          if forallb (dyn_tag_defined m) d then of_loop (dyn_slot_eval (dyn_tag_fn m) d) else Undefined
      end
  end.

(* gaussian_evaluator::operator() *)
Definition gaussian_eval_real (classes : nat) (d : list example) : cls_outcome :=
  match train_of classes d with
  | BuildThrows => Thrown d
  | BuildUndefined => Undefined
  | Built tr =>
      match gauss_build classes tr with
      | None => Undefined
      | Some g => of_loop (gaussian_eval (gauss_tag_fn g) (Z.of_nat classes) d)
      end
  end.

(* binary_evaluator::operator(): no pass over the data in the constructor *)
Definition binary_eval_real (d : list example) : cls_outcome := of_loop (binary_eval out d).

(* the tags the evaluator's own object gives (compared with the harness) *)
Definition dyn_tags_real (classes x_slot : nat) (d : list example) : option (list (Z * f64)) :=
  match train_of classes d with
  | Built tr =>
      match dyn_build libm_atan classes x_slot tr with
      | Some m => Some (map (fun e => dyn_tag_fn m (ex_in e)) d)
      | None => None
      end
  | _ => None
  end.
Definition gauss_tags_real (classes : nat) (d : list example) : option (list (Z * f64)) :=
  match train_of classes d with
  | Built tr =>
      match gauss_build classes tr with
      | Some g => Some (map (fun e => gauss_tag_fn g (ex_in e)) d)
      | None => None
      end
  | _ => None
  end.
End RealClassifiers.

(* basic_reg_lambda_f<team<T>>::eval (lambda_f.tcc): the output of a TEAM is the
   running mean of the members' defined outputs, undefined when no member has a
   value (C08's model [team_eval]).  The evaluator theorems are over an output
   oracle: for a team the oracle is this function of the members' outputs. *)
Definition team_out (members : list pout) : pout :=
  match team_eval (map to_out members) with
  | Some v => PDouble v
  | None => PVoid
  end.

(* ---- classification evaluators on a TEAM ------------------------------------
   basic_{dyn_slot,gaussian,binary}_lambda_f<team<T>> = team_class_lambda_f with
   team_composition::wta: the constructor builds one classifier per member
   (each from the whole dataset), tag() is the answer of the member with the
   greatest sureness (C08's [wta]).  The evaluator then counts the mismatches
   of that tag exactly as for an individual. *)
Section TeamClassifiers.
Variables libm_atan libm_exp : f64 -> f64.
Variable outs : list (list pout -> pout).       (* one output oracle per member *)

Definition wta_tag (tags : list (nat * f64)) : Z * f64 :=
  match wta tags with
  | Some (l, s) => (Z.of_nat l, s)
  | None => (0, F64.nan)                 (* team_[0] of an empty team: not reached, teams are not empty *)
  end.

(* all members' constructors, in order; the first failure wins *)
Fixpoint build_all {M : Type} (mk : (list pout -> pout) -> build M) (os : list (list pout -> pout))
  : build (list ((list pout -> pout) * M)) :=
  match os with
  | [] => Built []
  | o :: r =>
      match mk o with
      | Built m => match build_all mk r with Built t => Built ((o, m) :: t) | BuildThrows => BuildThrows | BuildUndefined => BuildUndefined end
      | BuildThrows => BuildThrows
      | BuildUndefined => BuildUndefined
      end
  end.

Definition mk_dyn (classes x_slot : nat) (d : list example) (o : list pout -> pout) : build dyn_model :=
  match train_of o classes d with
  | Built tr => match dyn_build libm_atan classes x_slot tr with Some m => Built m | None => BuildUndefined end
  | BuildThrows => BuildThrows
  | BuildUndefined => BuildUndefined
  end.
Definition mk_gauss (classes : nat) (d : list example) (o : list pout -> pout) : build (list dist) :=
  match train_of o classes d with
  | Built tr => match gauss_build classes tr with Some g => Built g | None => BuildUndefined end
  | BuildThrows => BuildThrows
  | BuildUndefined => BuildUndefined
  end.

Definition dyn_team_tag (ms : list ((list pout -> pout) * dyn_model)) (i : list pout) : Z * f64 :=
  wta_tag (map (fun om => match dyn_tag libm_atan (snd om) (to_out (fst om i)) with
                          | Some t => t | None => (O, F64.nan) end) ms).
Definition dyn_team_defined (ms : list ((list pout -> pout) * dyn_model)) (e : example) : bool :=
  forallb (fun om => match dyn_tag libm_atan (snd om) (to_out (fst om (ex_in e))) with Some _ => true | None => false end) ms.
Definition gauss_team_tag (ms : list ((list pout -> pout) * list dist)) (i : list pout) : Z * f64 :=
  wta_tag (map (fun om => gauss_tag libm_exp (snd om) (to_out (fst om i))) ms).
Definition binary_team_tag (i : list pout) : Z * f64 :=
  wta_tag (map (fun o => LambdaDefs.binary_tag (to_out (o i))) outs).

Definition dyn_slot_eval_team (classes x_slot : nat) (d : list example) : cls_outcome * option (list (Z * f64)) :=
  match build_all (mk_dyn classes x_slot d) outs with
  | BuildThrows => (Thrown d, None)
  | BuildUndefined => (Undefined, None)
  | Built ms =>
      if forallb (dyn_team_defined ms) d
      then (of_loop (dyn_slot_eval (dyn_team_tag ms) d), Some (map (fun e => dyn_team_tag ms (ex_in e)) d))
      else (Undefined, None)
  end.
Definition gaussian_eval_team (classes : nat) (d : list example) : cls_outcome * option (list (Z * f64)) :=
  match build_all (mk_gauss classes d) outs with
  | BuildThrows => (Thrown d, None)
  | BuildUndefined => (Undefined, None)
  | Built ms => (of_loop (gaussian_eval (gauss_team_tag ms) (Z.of_nat classes) d),
                 Some (map (fun e => gauss_team_tag ms (ex_in e)) d))
  end.
Definition binary_eval_team (d : list example) : cls_outcome * option (list (Z * f64)) :=
  (of_loop (dyn_slot_eval binary_team_tag d), Some (map (fun e => binary_team_tag (ex_in e)) d)).
End TeamClassifiers.
