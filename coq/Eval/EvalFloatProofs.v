(* C05 -- binary64 arguments (Flocq): sign / NaN / exactness facts about the
   loops of the evaluators. *)
From Coq Require Import ZArith NArith Reals List Bool Lia Lra Psatz.
From Flocq Require Import Core.
From Flocq Require Import IEEE754.BinarySingleNaN.
From Coq Require Import Floats.SpecFloat.
From VV Require Import Base.F64 Eval.EvalDefs Eval.EvalProofs.
Import ListNotations.
Local Open Scope R_scope.

Notation RV := (@B2R 53 1024).
Notation fin x := (F64.is_finite x = true).
Definition fexp64 := SpecFloat.fexp 53 1024.
Lemma fexp64_FLT : fexp64 = FLT_exp (3 - 1024 - 53) 53.
Proof. reflexivity. Qed.
Definition rnd (r : R) : R := round radix2 fexp64 ZnearestE r.
Notation fmt := (generic_format radix2 fexp64).

Global Instance fexp64_valid : Valid_exp fexp64.
Proof. rewrite fexp64_FLT. apply FLT_exp_valid. reflexivity. Qed.

Lemma fmt_RV : forall x : f64, fmt (RV x).
Proof. intro x. apply (generic_format_B2R 53 1024 x). Qed.

Lemma rnd_id : forall r, fmt r -> rnd r = r.
Proof. intros r H. unfold rnd. apply round_generic; [apply valid_rnd_N|exact H]. Qed.

Lemma rnd_le : forall a b, a <= b -> rnd a <= rnd b.
Proof. intros a b H. unfold rnd. apply round_le; [exact fexp64_valid|apply valid_rnd_N|exact H]. Qed.

Lemma rnd_between : forall a b r, fmt a -> fmt b -> a <= r <= b -> a <= rnd r <= b.
Proof.
  intros a b r Ha Hb [H1 H2]. split.
  - rewrite <- (rnd_id a Ha). apply rnd_le. exact H1.
  - rewrite <- (rnd_id b Hb). apply rnd_le. exact H2.
Qed.

Lemma R_lt_emax : forall x : f64, Rabs (RV x) < bpow radix2 1024.
Proof. intro x. apply (abs_B2R_lt_emax 53 1024 x). Qed.

Lemma abs_between : forall a b r, a <= r <= b -> Rabs r <= Rmax (Rabs a) (Rabs b).
Proof.
  intros a b r [H1 H2]. unfold Rmax, Rabs.
  repeat (destruct Rcase_abs); repeat (destruct Rle_dec); lra.
Qed.

(* a rounded value squeezed between two doubles does not overflow *)
Lemma no_overflow : forall (a b : f64) r, RV a <= r <= RV b -> Rabs (rnd r) < bpow radix2 1024.
Proof.
  intros a b r H. pose proof (rnd_between (RV a) (RV b) r (fmt_RV a) (fmt_RV b) H) as Hb.
  pose proof (abs_between _ _ _ Hb) as Habs. pose proof (R_lt_emax a). pose proof (R_lt_emax b).
  unfold Rmax in Habs. destruct Rle_dec; lra.
Qed.

(* ---- the operations on finite doubles whose exact result is squeezed ---- *)
Lemma add_sq : forall (x y a b : f64), fin x -> fin y -> RV a <= RV x + RV y <= RV b ->
  fin (F64.add x y) /\ RV (F64.add x y) = rnd (RV x + RV y).
Proof.
  intros x y a b Fx Fy H. pose proof (Bplus_correct 53 1024 prec_gt_0_53 prec_lt_emax_53 mode_NE x y Fx Fy) as C.
  pose proof (no_overflow a b _ H) as NO. unfold rnd, fexp64 in NO. cbn [round_mode] in C.
  rewrite Rlt_bool_true in C by exact NO. destruct C as (C1 & C2 & _). split; [exact C2|exact C1].
Qed.

Lemma sub_sq : forall (x y a b : f64), fin x -> fin y -> RV a <= RV x - RV y <= RV b ->
  fin (F64.sub x y) /\ RV (F64.sub x y) = rnd (RV x - RV y).
Proof.
  intros x y a b Fx Fy H. pose proof (Bminus_correct 53 1024 prec_gt_0_53 prec_lt_emax_53 mode_NE x y Fx Fy) as C.
  pose proof (no_overflow a b _ H) as NO. unfold rnd, fexp64 in NO. cbn [round_mode] in C.
  rewrite Rlt_bool_true in C by exact NO. destruct C as (C1 & C2 & _). split; [exact C2|exact C1].
Qed.

Lemma div_sq : forall (x y a b : f64), fin x -> RV y <> 0 -> RV a <= RV x / RV y <= RV b ->
  fin (F64.div x y) /\ RV (F64.div x y) = rnd (RV x / RV y).
Proof.
  intros x y a b Fx Ny H. pose proof (Bdiv_correct 53 1024 prec_gt_0_53 prec_lt_emax_53 mode_NE x y Ny) as C.
  pose proof (no_overflow a b _ H) as NO. unfold rnd, fexp64 in NO. cbn [round_mode] in C.
  rewrite Rlt_bool_true in C by exact NO. destruct C as (C1 & C2 & _). split; [unfold F64.is_finite, F64.div in *; rewrite C2; exact Fx|exact C1].
Qed.

Lemma R_neg : forall x : f64, RV (F64.neg x) = - RV x.
Proof. intro x. apply (B2R_Bopp 53 1024). Qed.
Lemma fin_neg : forall x : f64, F64.is_finite (F64.neg x) = F64.is_finite x.
Proof. intro x. apply (is_finite_Bopp 53 1024). Qed.
Lemma R_abs : forall x : f64, RV (F64.abs x) = Rabs (RV x).
Proof. intro x. apply (B2R_Babs 53 1024). Qed.
Lemma fin_abs : forall x : f64, F64.is_finite (F64.abs x) = F64.is_finite x.
Proof. intro x. apply (is_finite_Babs 53 1024). Qed.

(* small integers are doubles; of_Z is exact on them *)
Lemma fmt_IZR : forall z : Z, (Z.abs z < 2 ^ 53)%Z -> fmt (IZR z).
Proof.
  intros z H. rewrite fexp64_FLT. apply generic_format_FLT.
  apply FLT_spec with (Float radix2 z 0).
  - unfold F2R. cbn [Fnum Fexp bpow]. ring.
  - cbn [Fnum]. exact H.
  - cbn [Fexp]. lia.
Qed.

Lemma bpow_53_1024 : IZR (2 ^ 53) < bpow radix2 1024.
Proof.
  change (2 ^ 53)%Z with (Zpower radix2 53). rewrite IZR_Zpower by lia. apply bpow_lt. lia.
Qed.

Lemma of_Z_exact : forall z : Z, (Z.abs z < 2 ^ 53)%Z ->
  fin (F64.of_Z z) /\ RV (F64.of_Z z) = IZR z.
Proof.
  intros z H. unfold F64.of_Z.
  pose proof (binary_normalize_correct 53 1024 prec_gt_0_53 prec_lt_emax_53 mode_NE z 0 false) as C.
  cbv zeta in C. cbn [round_mode] in C.
  assert (E : F2R (Float radix2 z 0) = IZR z) by (unfold F2R; cbn [Fnum Fexp bpow]; ring).
  rewrite E in C. fold fexp64 in C. fold (rnd (IZR z)) in C. rewrite (rnd_id _ (fmt_IZR z H)) in C.
  rewrite Rlt_bool_true in C.
  - destruct C as (C1 & C2 & _). split; [exact C2|exact C1].
  - rewrite <- abs_IZR. pose proof bpow_53_1024. apply IZR_lt in H. lra.
Qed.

Lemma R_one : RV one = 1.
Proof. apply (of_Z_exact 1). reflexivity. Qed.
Lemma fin_one : fin one.
Proof. apply (of_Z_exact 1). reflexivity. Qed.
Lemma R_zero : RV F64.zero = 0.
Proof. reflexivity. Qed.

(* ---- counters: `++n`, `++err` on a double ------------------------------ *)
Definition f53 : f64 := F64.of_me 1 53 false.          (* 2^53 *)
Definition p53 : R := IZR (2 ^ 53).

Lemma fmt_p53 : fmt p53.
Proof.
  rewrite fexp64_FLT. apply generic_format_FLT. apply FLT_spec with (Float radix2 1 53).
  - unfold F2R, p53. cbn [Fnum Fexp]. change (2 ^ 53)%Z with (Zpower radix2 53). rewrite IZR_Zpower by lia. ring.
  - cbn [Fnum]. reflexivity.
  - cbn [Fexp]. lia.
Qed.

Lemma p53_lt : p53 < bpow radix2 1024.
Proof. exact bpow_53_1024. Qed.

Lemma f53_ok : fin f53 /\ RV f53 = p53.
Proof.
  unfold f53, F64.of_me.
  pose proof (binary_normalize_correct 53 1024 prec_gt_0_53 prec_lt_emax_53 mode_NE 1 53 false) as C.
  cbv zeta in C. cbn [round_mode] in C.
  assert (E : F2R (Float radix2 1 53) = p53).
  { unfold F2R, p53. cbn [Fnum Fexp]. change (2 ^ 53)%Z with (Zpower radix2 53). rewrite IZR_Zpower by lia. ring. }
  rewrite E in C. fold fexp64 in C. fold (rnd p53) in C. rewrite (rnd_id _ fmt_p53) in C.
  rewrite Rlt_bool_true in C.
  - destruct C as (C1 & C2 & _). split; [exact C2|exact C1].
  - pose proof p53_lt. assert (0 < p53) by (unfold p53; apply IZR_lt; reflexivity). rewrite Rabs_pos_eq; lra.
Qed.

(* 2^53 + 1 rounds to 2^53 *)
Lemma rnd_p53_plus_1 : rnd (p53 + 1) = p53.
Proof.
  destruct f53_ok as [F E].
  pose proof (Bplus_correct 53 1024 prec_gt_0_53 prec_lt_emax_53 mode_NE f53 one F fin_one) as C.
  cbn [round_mode] in C. fold fexp64 in C. rewrite E, R_one in C. fold (rnd (p53 + 1)) in C.
  assert (A : F64.add f53 one = f53) by (apply B2SF_inj; vm_compute; reflexivity).
  unfold F64.add in A.
  destruct (Rlt_bool (Rabs (rnd (p53 + 1))) (bpow radix2 1024)).
  - destruct C as (C1 & _). rewrite A, E in C1. symmetry. exact C1.
  - destruct C as (C1 & _). rewrite A in C1. vm_compute in C1. discriminate C1.
Qed.

Definition cnt_inv (x : f64) : Prop := fin x /\ 0 <= RV x <= p53.

Lemma cnt_zero : cnt_inv F64.zero.
Proof. split; [reflexivity|]. rewrite R_zero. unfold p53. split; [lra|apply IZR_le; discriminate]. Qed.

Lemma cnt_step : forall x, cnt_inv x -> cnt_inv (F64.add x one) /\ 1 <= RV (F64.add x one).
Proof.
  intros x (F & L & U). destruct f53_ok as [F53 E53].
  assert (B : 1 <= rnd (RV x + 1) <= p53).
  { split.
    - rewrite <- (rnd_id 1) at 1 by (apply (fmt_IZR 1); reflexivity). apply rnd_le. lra.
    - rewrite <- rnd_p53_plus_1. apply rnd_le. lra. }
  pose proof (Bplus_correct 53 1024 prec_gt_0_53 prec_lt_emax_53 mode_NE x one F fin_one) as C.
  cbn [round_mode] in C. fold fexp64 in C. rewrite R_one in C. fold (rnd (RV x + 1)) in C.
  rewrite Rlt_bool_true in C.
  - destruct C as (C1 & C2 & _). unfold cnt_inv, F64.add. rewrite C1. repeat split; try exact C2; lra.
  - pose proof p53_lt. rewrite Rabs_pos_eq; lra.
Qed.

(* a double with real value >= 1 is a positive finite number *)
Lemma pos_finite_shape : forall x : f64, fin x -> 0 < RV x -> exists m e pf, x = B754_finite false m e pf.
Proof.
  intros x F P. destruct x as [s|s| |s m e pf]; try discriminate F.
  - cbn in P. lra.
  - destruct s; [|exists m, e, pf; reflexivity].
    exfalso. cbn in P. pose proof (F2R_lt_0 radix2 (Float radix2 (Zneg m) e)) as H.
    cbn [Fnum] in H. specialize (H eq_refl). lra.
Qed.

Lemma add_ones_exact : forall k x j, fin x -> RV x = IZR j -> (0 <= j)%Z -> (j + Z.of_nat k < 2 ^ 53)%Z ->
  fin (add_ones k x) /\ RV (add_ones k x) = IZR (j + Z.of_nat k).
Proof.
  induction k as [|k IH]; intros x j F E J B.
  - cbn [add_ones]. rewrite Z.add_0_r. split; assumption.
  - cbn [add_ones]. destruct f53_ok as [F53 E53].
    assert (S1 : RV F64.zero <= RV x + RV one <= RV f53).
    { rewrite R_zero, R_one, E, E53. unfold p53. rewrite <- plus_IZR. split; apply IZR_le; lia. }
    destruct (add_sq x one F64.zero f53 F fin_one S1) as [F1 E1].
    assert (E2 : RV (F64.add x one) = IZR (j + 1)).
    { rewrite E1, R_one, E, <- plus_IZR. apply rnd_id. apply fmt_IZR. lia. }
    destruct (IH (F64.add x one) (j + 1)%Z F1 E2 ltac:(lia) ltac:(lia)) as [F3 E3].
    split; [exact F3|]. rewrite E3. f_equal. lia.
Qed.

Lemma filter_length_le : forall (A : Type) (p : A -> bool) l, (length (filter p l) <= length l)%nat.
Proof. intros A p l. induction l as [|x xs IH]; cbn; [lia|]. destruct (p x); cbn; lia. Qed.

Lemma count_is_minus_mismatches : forall tag d d' f,
  count_eval tag d = (d', Some f) -> (Z.of_nat (length d) < 2 ^ 53)%Z ->
  exists v, f = [v] /\ fin v /\ RV v = - IZR (mismatches (cls_wrong tag) d).
Proof.
  intros tag d d' f H L. unfold count_eval in H.
  destruct (count_loop tag d F64.zero) as [r [err|]] eqn:E; [|discriminate].
  injection H as _ <-. pose proof (count_loop_counter tag d F64.zero err ltac:(rewrite E; reflexivity)) as Ec.
  pose proof (filter_length_le _ (cls_wrong tag) d) as FL.
  destruct (add_ones_exact (length (filter (cls_wrong tag) d)) F64.zero 0 eq_refl R_zero ltac:(lia) ltac:(lia)) as [F1 E1].
  exists (F64.neg err). split; [reflexivity|]. rewrite fin_neg, R_neg, Ec. split; [exact F1|].
  rewrite E1. unfold mismatches. rewrite Z.add_0_l. reflexivity.
Qed.

Lemma count_zero_iff_all_right : forall tag d d' f,
  count_eval tag d = (d', Some f) -> (Z.of_nat (length d) < 2 ^ 53)%Z ->
  (f = [F64.neg F64.zero] <-> forall e, In e d -> cls_wrong tag e = false).
Proof.
  intros tag d d' f H L. pose proof H as H0. unfold count_eval in H.
  destruct (count_loop tag d F64.zero) as [r [err|]] eqn:E; [|discriminate].
  injection H as _ <-. pose proof (count_loop_counter tag d F64.zero err ltac:(rewrite E; reflexivity)) as Ec.
  destruct (count_is_minus_mismatches tag d d' _ H0 L) as (v & Ev & Fv & Rv).
  injection Ev as Ev. split.
  - intro Z0. injection Z0 as Z0.
    assert (V0 : RV v = 0) by (rewrite <- Ev, Z0; reflexivity).
    assert (M : mismatches (cls_wrong tag) d = 0%Z).
    { apply eq_IZR. lra. }
    unfold mismatches in M. assert (N : filter (cls_wrong tag) d = []).
    { destruct (filter (cls_wrong tag) d); [reflexivity|cbn in M; lia]. }
    intros e He. destruct (cls_wrong tag e) eqn:W; [|reflexivity].
    assert (In e (filter (cls_wrong tag) d)) by (apply filter_In; split; assumption).
    rewrite N in H. contradiction.
  - intro A. assert (N : filter (cls_wrong tag) d = []).
    { clear -A. induction d as [|x xs IH]; [reflexivity|]. cbn [filter].
      rewrite (A x (or_introl eq_refl)). apply IH. intros e He. apply A. right. exact He. }
    rewrite N in Ec. cbn in Ec. rewrite Ec. reflexivity.
Qed.

(* ---- "NaN or not negative" --------------------------------------------- *)
Definition nn (x : f64) : Prop :=
  match x with
  | B754_nan => True
  | B754_infinity s => s = false
  | B754_zero _ => True
  | B754_finite s _ _ _ => s = false
  end.

Lemma nn_fin : forall x : f64, fin x -> nn x -> 0 <= RV x.
Proof.
  intros x F N. destruct x as [s|s| |s m e pf]; try discriminate F.
  - cbn. lra.
  - cbn in N. subst s. unfold B2R. apply F2R_ge_0. cbn [Fnum cond_Zopp]. lia.
Qed.

Lemma fin_nonneg_nn : forall x : f64, fin x -> 0 <= RV x -> nn x.
Proof.
  intros x F P. destruct x as [s|s| |s m e pf]; try discriminate F; [exact I|].
  cbn [nn]. destruct s; [|reflexivity]. exfalso. unfold B2R in P. cbn [cond_Zopp] in P.
  pose proof (F2R_lt_0 radix2 (Float radix2 (Zneg m) e)) as H. cbn [Fnum] in H. specialize (H eq_refl).
  change (Z.opp (Zpos m)) with (Zneg m) in P. lra.
Qed.

Lemma sign_or_zero : forall x : f64, fin x -> 0 <= RV x -> RV x = 0 \/ Bsign x = false.
Proof.
  intros x F P. pose proof (fin_nonneg_nn x F P) as N.
  destruct x as [s|s| |s m e pf]; try discriminate F; cbn in *; [left; reflexivity|right; exact N].
Qed.

Lemma overflow_NE : forall s, binary_overflow 53 1024 mode_NE s = S754_infinity s.
Proof. reflexivity. Qed.

Lemma nn_of_overflow : forall (x : f64) s, B2SF x = S754_infinity s -> s = false -> nn x.
Proof. intros x s H S. destruct x; cbn in *; try discriminate H. injection H as ->. exact S. Qed.

Lemma rnd_0 : rnd 0 = 0.
Proof. unfold rnd. apply round_0. apply valid_rnd_N. Qed.

Lemma rnd_nonneg : forall r, 0 <= r -> 0 <= rnd r.
Proof. intros r H. rewrite <- rnd_0. apply rnd_le. exact H. Qed.

Lemma bpow_pos1024 : 0 < bpow radix2 1024.
Proof. apply bpow_gt_0. Qed.

(* sums, products and quotients of finite non negative doubles *)
Lemma add_fin_nn : forall x y : f64, fin x -> fin y -> 0 <= RV x -> 0 <= RV x + RV y -> nn (F64.add x y).
Proof.
  intros x y Fx Fy Px Pxy.
  pose proof (Bplus_correct 53 1024 prec_gt_0_53 prec_lt_emax_53 mode_NE x y Fx Fy) as C.
  cbn [round_mode] in C. fold fexp64 in C. fold (rnd (RV x + RV y)) in C.
  destruct (Rlt_bool (Rabs (rnd (RV x + RV y))) (bpow radix2 1024)) eqn:LB.
  - destruct C as (C1 & C2 & _). apply fin_nonneg_nn; [exact C2|]. unfold F64.add. rewrite C1. apply rnd_nonneg. exact Pxy.
  - destruct C as (C1 & _). rewrite overflow_NE in C1. apply (nn_of_overflow _ _ C1).
    destruct (sign_or_zero x Fx Px) as [Z|S]; [|exact S]. exfalso.
    rewrite Z, Rplus_0_l, (rnd_id _ (fmt_RV y)) in LB.
    rewrite Rlt_bool_true in LB; [discriminate|apply R_lt_emax].
Qed.

Lemma mul_fin_nn : forall x y : f64, fin x -> fin y -> 0 <= RV x -> 0 <= RV y -> nn (F64.mul x y).
Proof.
  intros x y Fx Fy Px Py.
  pose proof (Bmult_correct 53 1024 prec_gt_0_53 prec_lt_emax_53 mode_NE x y) as C.
  cbn [round_mode] in C. fold fexp64 in C. fold (rnd (RV x * RV y)) in C.
  destruct (Rlt_bool (Rabs (rnd (RV x * RV y))) (bpow radix2 1024)) eqn:LB.
  - destruct C as (C1 & C2 & _). apply fin_nonneg_nn.
    + unfold F64.mul, F64.is_finite in *. rewrite C2, Fx, Fy. reflexivity.
    + unfold F64.mul. rewrite C1. apply rnd_nonneg. apply Rmult_le_pos; assumption.
  - rewrite overflow_NE in C. apply (nn_of_overflow _ _ C).
    destruct (sign_or_zero x Fx Px) as [Zx|Sx].
    { exfalso. rewrite Zx, Rmult_0_l, rnd_0, Rabs_R0 in LB. rewrite Rlt_bool_true in LB; [discriminate|exact bpow_pos1024]. }
    destruct (sign_or_zero y Fy Py) as [Zy|Sy].
    { exfalso. rewrite Zy, Rmult_0_r, rnd_0, Rabs_R0 in LB. rewrite Rlt_bool_true in LB; [discriminate|exact bpow_pos1024]. }
    rewrite Sx, Sy. reflexivity.
Qed.

Lemma div_fin_nn : forall x y : f64, fin x -> 0 <= RV x -> 0 < RV y -> Bsign y = false -> nn (F64.div x y).
Proof.
  intros x y Fx Px Py Sy.
  assert (Ny : RV y <> 0) by lra.
  pose proof (Bdiv_correct 53 1024 prec_gt_0_53 prec_lt_emax_53 mode_NE x y Ny) as C.
  cbn [round_mode] in C. fold fexp64 in C. fold (rnd (RV x / RV y)) in C.
  destruct (Rlt_bool (Rabs (rnd (RV x / RV y))) (bpow radix2 1024)) eqn:LB.
  - destruct C as (C1 & C2 & _). apply fin_nonneg_nn.
    + unfold F64.div, F64.is_finite in *. rewrite C2. exact Fx.
    + unfold F64.div. rewrite C1. apply rnd_nonneg. apply Rmult_le_pos; [exact Px|]. apply Rlt_le, Rinv_0_lt_compat, Py.
  - rewrite overflow_NE in C. apply (nn_of_overflow _ _ C).
    destruct (sign_or_zero x Fx Px) as [Zx|Sx].
    { exfalso. unfold Rdiv in LB. rewrite Zx, Rmult_0_l, rnd_0, Rabs_R0 in LB.
      rewrite Rlt_bool_true in LB; [discriminate|exact bpow_pos1024]. }
    rewrite Sx, Sy. reflexivity.
Qed.

Lemma pos_of_finite_false : forall m e pf, 0 < RV (B754_finite false m e pf).
Proof. intros m e pf. unfold B2R. apply F2R_gt_0. cbn. lia. Qed.

(* the same for all doubles (NaN and infinities included) *)
Lemma nn_abs : forall x, nn (F64.abs x).
Proof. intro x. destruct x; cbn; auto. Qed.

Lemma nn_add : forall x y, nn x -> nn y -> nn (F64.add x y).
Proof.
  intros x y Nx Ny.
  destruct (F64.is_finite x) eqn:Fx; destruct (F64.is_finite y) eqn:Fy.
  - pose proof (nn_fin x Fx Nx). pose proof (nn_fin y Fy Ny). apply add_fin_nn; try assumption; lra.
  - destruct x as [sx|sx| |sx mx ex px], y as [sy|sy| |sy my ey py]; try discriminate; cbn in *; auto.
  - destruct x as [sx|sx| |sx mx ex px], y as [sy|sy| |sy my ey py]; try discriminate; cbn in *; auto.
  - destruct x as [sx|sx| |sx mx ex px], y as [sy|sy| |sy my ey py]; try discriminate; cbn in *; subst; auto.
Qed.

Lemma nn_mul : forall x y, nn x -> nn y -> nn (F64.mul x y).
Proof.
  intros x y Nx Ny.
  destruct (F64.is_finite x) eqn:Fx; destruct (F64.is_finite y) eqn:Fy.
  - apply mul_fin_nn; try assumption; apply nn_fin; assumption.
  - destruct x as [sx|sx| |sx mx ex px], y as [sy|sy| |sy my ey py]; try discriminate; cbn in *; subst; auto.
  - destruct x as [sx|sx| |sx mx ex px], y as [sy|sy| |sy my ey py]; try discriminate; cbn in *; subst; auto.
  - destruct x as [sx|sx| |sx mx ex px], y as [sy|sy| |sy my ey py]; try discriminate; cbn in *; subst; auto.
Qed.

(* "sign bit clear" (NaN, +inf, +0, positive finite): what denominators need *)
Notation sp x := (Bsign x = false).

Lemma nn_of_sp : forall x : f64, sp x -> nn x.
Proof. intros x H. destruct x; cbn in *; auto. Qed.

Lemma sp_abs : forall x : f64, sp (F64.abs x).
Proof. intro x. destruct x; reflexivity. Qed.

Lemma sp_fin_nonneg : forall x : f64, fin x -> sp x -> 0 <= RV x.
Proof. intros x F S. apply nn_fin; [exact F|apply nn_of_sp; exact S]. Qed.

Lemma sp_add : forall x y : f64, sp x -> sp y -> sp (F64.add x y).
Proof.
  intros x y Sx Sy.
  destruct (F64.is_finite x) eqn:Fx; destruct (F64.is_finite y) eqn:Fy.
  - pose proof (sp_fin_nonneg x Fx Sx) as Px. pose proof (sp_fin_nonneg y Fy Sy) as Py.
    pose proof (Bplus_correct 53 1024 prec_gt_0_53 prec_lt_emax_53 mode_NE x y Fx Fy) as C.
    destruct (Rlt_bool _ _).
    + destruct C as (_ & _ & C3). unfold F64.add. rewrite C3.
      destruct (Rcompare_spec (RV x + RV y) 0) as [H|H|H]; [lra|rewrite Sx; reflexivity|reflexivity].
    + destruct C as (C1 & _). rewrite overflow_NE in C1. unfold F64.add.
      destruct (Bplus mode_NE x y); cbn in *; try discriminate C1. injection C1 as ->. exact Sx.
  - destruct x as [sx|sx| |sx mx ex px], y as [sy|sy| |sy my ey py]; try discriminate; cbn in *; subst; auto.
  - destruct x as [sx|sx| |sx mx ex px], y as [sy|sy| |sy my ey py]; try discriminate; cbn in *; subst; auto.
  - destruct x as [sx|sx| |sx mx ex px], y as [sy|sy| |sy my ey py]; try discriminate; cbn in *; subst; auto.
Qed.

Lemma sp_div_pos : forall (x y : f64) m e pf, sp x -> y = B754_finite false m e pf -> sp (F64.div x y).
Proof.
  intros x y m e pf Sx ->.
  assert (Ny : RV (B754_finite false m e pf) <> 0) by (pose proof (pos_of_finite_false m e pf); lra).
  pose proof (Bdiv_correct 53 1024 prec_gt_0_53 prec_lt_emax_53 mode_NE x _ Ny) as C.
  destruct (Rlt_bool _ _).
  - destruct C as (_ & _ & C3). unfold F64.div.
    destruct (is_nan (Bdiv mode_NE x (B754_finite false m e pf))) eqn:N.
    + destruct (Bdiv mode_NE x (B754_finite false m e pf)); try discriminate N. reflexivity.
    + rewrite (C3 eq_refl), Sx. reflexivity.
  - rewrite overflow_NE in C. unfold F64.div.
    destruct (Bdiv mode_NE x (B754_finite false m e pf)); cbn in *; try discriminate C.
    injection C as ->. rewrite Sx. reflexivity.
Qed.

Lemma nn_div : forall x y, nn x -> sp y -> nn (F64.div x y).
Proof.
  intros x y Nx Sy.
  destruct y as [sy|sy| |sy my ey py].
  - destruct x as [sx|sx| |sx mx ex px]; cbn in *; subst; auto.
  - destruct x as [sx|sx| |sx mx ex px]; cbn in *; subst; auto.
  - destruct x as [sx|sx| |sx mx ex px]; cbn in *; subst; auto.
  - cbn in Sy. subst sy.
    destruct (F64.is_finite x) eqn:Fx.
    + apply div_fin_nn; [exact Fx|apply nn_fin; assumption|apply pos_of_finite_false|reflexivity].
    + destruct x as [sx|sx| |sx mx ex px]; try discriminate; cbn in *; subst; auto.
Qed.

Lemma nn_square : forall x, nn (F64.mul x x).
Proof.
  intro x. destruct (F64.is_finite x) eqn:Fx.
  - pose proof (Bmult_correct 53 1024 prec_gt_0_53 prec_lt_emax_53 mode_NE x x) as C.
    cbn [round_mode] in C. fold fexp64 in C. fold (rnd (RV x * RV x)) in C.
    destruct (Rlt_bool (Rabs (rnd (RV x * RV x))) (bpow radix2 1024)) eqn:LB.
    + destruct C as (C1 & C2 & _). apply fin_nonneg_nn.
      * unfold F64.mul, F64.is_finite in *. rewrite C2, Fx. reflexivity.
      * unfold F64.mul. rewrite C1. apply rnd_nonneg. nra.
    + rewrite overflow_NE in C. apply (nn_of_overflow _ _ C). destruct (Bsign x); reflexivity.
  - destruct x as [sx|sx| |sx mx ex px]; try discriminate; cbn; auto. destruct sx; reflexivity.
Qed.

(* ---- the error functors never return a negative value ------------------- *)
Lemma nn_penalty : nn penalty.  Proof. vm_compute. reflexivity. Qed.
Lemma nn_two_hundred : nn two_hundred.  Proof. vm_compute. reflexivity. Qed.
Lemma nn_one : nn one.  Proof. vm_compute. reflexivity. Qed.
Lemma nn_zero : nn F64.zero.  Proof. exact I. Qed.
Lemma nn_dbl_max : nn dbl_max.  Proof. vm_compute. reflexivity. Qed.
Lemma fin_dbl_max : fin dbl_max.  Proof. vm_compute. reflexivity. Qed.

Lemma two_shape : exists m e pf, two = B754_finite false m e pf.
Proof.
  destruct (of_Z_exact 2 eq_refl) as [F E]. apply pos_finite_shape; [exact F|].
  fold two in E. rewrite E. lra.
Qed.

Lemma nn_mae : forall out e, nn (mae_err out e).
Proof. intros out e. unfold mae_err. destruct (p_has_value _); [apply nn_abs|apply nn_penalty]. Qed.

Lemma nn_mse : forall out e, nn (mse_err out e).
Proof. intros out e. unfold mse_err. destruct (p_has_value _); [apply nn_square|apply nn_penalty]. Qed.

Lemma nn_count : forall out e, nn (count_err out e).
Proof. intros out e. unfold count_err. destruct (count_wrong out e); [apply nn_one|apply nn_zero]. Qed.

Lemma nn_rmae : forall out e, nn (rmae_err out e).
Proof.
  intros out e. unfold rmae_err. destruct (p_has_value _); [|apply nn_two_hundred].
  cbv zeta. destruct (F64.leb _ _); [apply nn_zero|].
  destruct two_shape as (m & ex & pf & T).
  destruct (_ && _).
  - apply nn_div; [apply nn_mul; [apply nn_two_hundred|apply nn_abs]|]. apply sp_add; apply sp_abs.
  - apply nn_mul; [apply nn_two_hundred|]. apply nn_div; [apply nn_abs|].
    apply sp_add; apply (sp_div_pos _ _ m ex pf); try exact T; apply sp_abs.
Qed.

(* ---- one iteration of the running mean keeps "NaN or not negative" ------ *)
Lemma soe_step_fin : forall avg err n : f64,
  fin avg -> 0 <= RV avg -> fin err -> 0 <= RV err -> fin n -> 1 <= RV n ->
  nn (F64.add avg (F64.div (F64.sub err avg) n)).
Proof.
  intros avg err n Fa Pa Fe Pe Fn Pn.
  assert (S1 : RV (F64.neg avg) <= RV err - RV avg <= RV err) by (rewrite R_neg; lra).
  destruct (sub_sq err avg (F64.neg avg) err Fe Fa S1) as [Fd Ed].
  assert (Bd : - RV avg <= RV (F64.sub err avg) <= RV err).
  { rewrite Ed. rewrite <- R_neg. apply rnd_between; try apply fmt_RV. exact S1. }
  set (d := F64.sub err avg) in *.
  assert (Nn : RV n <> 0) by lra.
  assert (Hi : 0 < / RV n <= 1).
  { split; [apply Rinv_0_lt_compat; lra|]. rewrite <- Rinv_1. apply Rinv_le_contravar; lra. }
  assert (S2 : RV (F64.neg avg) <= RV d / RV n <= RV err).
  { rewrite R_neg. unfold Rdiv. destruct Hi as [Hi1 Hi2]. destruct Bd as [Bd1 Bd2].
    destruct (Rle_lt_dec 0 (RV d)) as [Hd|Hd]; split; nra. }
  destruct (div_sq d n (F64.neg avg) err Fd Nn S2) as [Fq Eq].
  assert (Bq : - RV avg <= RV (F64.div d n)).
  { rewrite Eq. rewrite <- R_neg. exact (proj1 (rnd_between _ _ _ (fmt_RV (F64.neg avg)) (fmt_RV err) S2)). }
  apply add_fin_nn; try assumption. lra.
Qed.

Lemma soe_step_nn : forall (avg err n : f64),
  nn avg -> nn err -> fin n -> 1 <= RV n ->
  nn (F64.add avg (F64.div (F64.sub err avg) n)).
Proof.
  intros avg err n Na Ne Fn Pn.
  destruct (F64.is_finite avg) eqn:Fa; destruct (F64.is_finite err) eqn:Fe.
  - apply soe_step_fin; try assumption; apply nn_fin; assumption.
  - destruct (pos_finite_shape n Fn ltac:(lra)) as (m & e & pf & ->).
    destruct avg as [sa|sa| |sa ma ea pa], err as [se|se| |se me ee pe]; try discriminate; cbn in *; subst; auto; try (vm_compute; auto; fail).
  - destruct (pos_finite_shape n Fn ltac:(lra)) as (m & e & pf & ->).
    destruct avg as [sa|sa| |sa ma ea pa], err as [se|se| |se me ee pe]; try discriminate; cbn in *; subst; auto; try (vm_compute; auto; fail).
  - destruct (pos_finite_shape n Fn ltac:(lra)) as (m & e & pf & ->).
    destruct avg as [sa|sa| |sa ma ea pa], err as [se|se| |se me ee pe]; try discriminate; cbn in *; subst; auto; try (vm_compute; auto; fail).
Qed.

(* ---- the loop of sum_of_errors_impl (any stride) ------------------------ *)
Definition soe_inv (st : f64 * f64) : Prop := nn (fst st) /\ cnt_inv (snd st).

Lemma soe_update_inv : forall st err, soe_inv st -> nn err -> soe_inv (soe_update st err).
Proof.
  intros [avg n] err [Na Cn] Ne. unfold soe_update, soe_inv. cbn [fst snd] in *.
  destruct (cnt_step n Cn) as [Cn' Pn']. split; [|exact Cn'].
  apply soe_step_nn; try assumption. exact (proj1 Cn').
Qed.

Lemma soe_loop_inv : forall errf step l skip st,
  (forall e, In e l -> nn (errf e)) -> soe_inv st -> soe_inv (snd (soe_loop errf step skip l st)).
Proof.
  intros errf step l. induction l as [|e r IH]; intros skip st He Hs; [exact Hs|].
  cbn [soe_loop]. destruct skip as [|k].
  - destruct (Nat.leb step (length (e :: r))); [|exact Hs].
    unfold soe_visit.
    assert (H1 : soe_inv (soe_update st (errf e))) by (apply soe_update_inv; [exact Hs|apply He; left; reflexivity]).
    specialize (IH (Nat.pred step) _ (fun x Hx => He x (or_intror Hx)) H1).
    destruct (soe_loop errf step (Nat.pred step) r (soe_update st (errf e))) as [r' st']. exact IH.
  - specialize (IH k st (fun x Hx => He x (or_intror Hx)) Hs).
    destruct (soe_loop errf step k r st) as [r' st']. exact IH.
Qed.

Lemma soe_inv_init : soe_inv (F64.zero, F64.zero).
Proof. split; [exact I|exact cnt_zero]. Qed.

(* the repaired result: finite and not positive, whatever the average is *)
Lemma soe_result_sign : forall avg, nn avg -> exists v, soe_result avg = [v] /\ fin v /\ RV v <= 0.
Proof.
  intros avg Na. unfold soe_result. eexists. split; [reflexivity|]. rewrite fin_neg, R_neg.
  destruct (F64.is_finite avg) eqn:Fa; cbn [negb].
  - split; [exact Fa|]. pose proof (nn_fin avg Fa Na). lra.
  - split; [exact fin_dbl_max|]. pose proof (nn_fin dbl_max fin_dbl_max nn_dbl_max). lra.
Qed.

Lemma sum_of_errors_sign : forall errf step d, (forall e, In e d -> nn (errf e)) ->
  exists v, snd (sum_of_errors_impl errf step d) = [v] /\ fin v /\ RV v <= 0.
Proof.
  intros errf step d H. unfold sum_of_errors_impl.
  pose proof (soe_loop_inv errf step d 0%nat _ H soe_inv_init) as I.
  destruct (soe_loop errf step 0 d (F64.zero, F64.zero)) as [d' st]. cbn [snd] in *.
  apply soe_result_sign. exact (proj1 I).
Qed.

(* ---- every target reproduced: the fitness is (minus) zero -------------- *)
Lemma soe_update_zero : forall n, cnt_inv n -> fst (soe_update (F64.zero, n) F64.zero) = F64.zero.
Proof.
  intros n Cn. unfold soe_update. cbn [fst snd].
  destruct (cnt_step n Cn) as [[Fn' _] Pn'].
  destruct (pos_finite_shape _ Fn' ltac:(lra)) as (m & e & pf & ->). reflexivity.
Qed.

Lemma soe_loop_zero : forall errf step l skip n,
  (forall e, In e l -> errf e = F64.zero) -> cnt_inv n ->
  fst (snd (soe_loop errf step skip l (F64.zero, n))) = F64.zero.
Proof.
  intros errf step l. induction l as [|e r IH]; intros skip n He Cn; [reflexivity|].
  cbn [soe_loop]. destruct skip as [|k].
  - destruct (Nat.leb step (length (e :: r))); [|reflexivity].
    unfold soe_visit. rewrite (He e (or_introl eq_refl)).
    pose proof (soe_update_zero n Cn) as Z. destruct (cnt_step n Cn) as [Cn' _].
    unfold soe_update in *. cbn [fst snd] in *. rewrite Z.
    specialize (IH (Nat.pred step) _ (fun x Hx => He x (or_intror Hx)) Cn').
    destruct (soe_loop errf step (Nat.pred step) r (F64.zero, F64.add n one)) as [r' st']. exact IH.
  - specialize (IH k n (fun x Hx => He x (or_intror Hx)) Cn).
    destruct (soe_loop errf step k r (F64.zero, n)) as [r' st']. exact IH.
Qed.

Lemma all_reproduced_gives_zero : forall errf step d, (forall e, In e d -> errf e = F64.zero) ->
  snd (sum_of_errors_impl errf step d) = [F64.neg F64.zero].
Proof.
  intros errf step d H. unfold sum_of_errors_impl.
  pose proof (soe_loop_zero errf step d 0%nat F64.zero H cnt_zero) as Z.
  destruct (soe_loop errf step 0 d (F64.zero, F64.zero)) as [d' st]. cbn [snd fst] in *. rewrite Z. reflexivity.
Qed.

(* ---- a reproduced target has error +0 for each functor ------------------ *)
Lemma zero_shape : forall y : f64, fin y -> RV y = 0 -> Bsign y = false -> y = B754_zero false.
Proof.
  intros y F E S. destruct y as [s|s| |s m e pf]; try discriminate F.
  - cbn in S. subst s. reflexivity.
  - exfalso. unfold B2R in E. apply eq_0_F2R in E. cbn [Fnum] in E. destruct s; discriminate E.
Qed.

Lemma sub_self : forall x : f64, fin x -> F64.sub x x = F64.zero.
Proof.
  intros x F. pose proof (Bminus_correct 53 1024 prec_gt_0_53 prec_lt_emax_53 mode_NE x x F F) as C.
  cbn [round_mode] in C. fold fexp64 in C. replace (RV x - RV x) with 0 in C by ring. fold (rnd 0) in C.
  rewrite rnd_0, Rabs_R0 in C. rewrite Rlt_bool_true in C by exact bpow_pos1024.
  destruct C as (C1 & C2 & C3). apply zero_shape; [exact C2|exact C1|].
  unfold F64.sub. rewrite C3. rewrite Rcompare_Eq by reflexivity. destruct (Bsign x); reflexivity.
Qed.

Definition reproduced (out : list pout -> pout) (e : example) : Prop :=
  p_has_value (out (ex_in e)) = true /\ lex_double (out (ex_in e)) = target e /\ fin (target e).

Lemma reproduced_errors_zero : forall out e, reproduced out e ->
  mae_err out e = F64.zero /\ mse_err out e = F64.zero /\ rmae_err out e = F64.zero /\ count_err out e = F64.zero.
Proof.
  intros out e (Hv & Heq & Hf). unfold mae_err, mse_err, rmae_err, count_err, count_wrong.
  rewrite Hv, Heq, (sub_self _ Hf). repeat split; vm_compute; reflexivity.
Qed.

(* ---- gaussian evaluator: -n <= fitness <= 0 ----------------------------- *)
Lemma no_overflow_r : forall a b r, fmt a -> fmt b -> Rabs a < bpow radix2 1024 -> Rabs b < bpow radix2 1024 ->
  a <= r <= b -> Rabs (rnd r) < bpow radix2 1024.
Proof.
  intros a b r Fa Fb La Lb H. pose proof (rnd_between a b r Fa Fb H) as Hb.
  pose proof (abs_between _ _ _ Hb) as Habs. unfold Rmax in Habs. destruct Rle_dec; lra.
Qed.

Lemma add_sq_r : forall (x y : f64) (a b : R), fin x -> fin y -> fmt a -> fmt b ->
  Rabs a < bpow radix2 1024 -> Rabs b < bpow radix2 1024 -> a <= RV x + RV y <= b ->
  fin (F64.add x y) /\ a <= RV (F64.add x y) <= b.
Proof.
  intros x y a b Fx Fy Fa Fb La Lb H.
  pose proof (Bplus_correct 53 1024 prec_gt_0_53 prec_lt_emax_53 mode_NE x y Fx Fy) as C.
  pose proof (no_overflow_r a b _ Fa Fb La Lb H) as NO. cbn [round_mode] in C. fold fexp64 in C.
  fold (rnd (RV x + RV y)) in C. rewrite Rlt_bool_true in C by exact NO. destruct C as (C1 & C2 & _).
  split; [exact C2|]. unfold F64.add. rewrite C1. apply rnd_between; assumption.
Qed.

Lemma sub_sq_r : forall (x y : f64) (a b : R), fin x -> fin y -> fmt a -> fmt b ->
  Rabs a < bpow radix2 1024 -> Rabs b < bpow radix2 1024 -> a <= RV x - RV y <= b ->
  fin (F64.sub x y) /\ a <= RV (F64.sub x y) <= b.
Proof.
  intros x y a b Fx Fy Fa Fb La Lb H.
  pose proof (Bminus_correct 53 1024 prec_gt_0_53 prec_lt_emax_53 mode_NE x y Fx Fy) as C.
  pose proof (no_overflow_r a b _ Fa Fb La Lb H) as NO. cbn [round_mode] in C. fold fexp64 in C.
  fold (rnd (RV x - RV y)) in C. rewrite Rlt_bool_true in C by exact NO. destruct C as (C1 & C2 & _).
  split; [exact C2|]. unfold F64.sub. rewrite C1. apply rnd_between; assumption.
Qed.

Lemma div_sq_r : forall (x y : f64) (a b : R), fin x -> RV y <> 0 -> fmt a -> fmt b ->
  Rabs a < bpow radix2 1024 -> Rabs b < bpow radix2 1024 -> a <= RV x / RV y <= b ->
  fin (F64.div x y) /\ a <= RV (F64.div x y) <= b.
Proof.
  intros x y a b Fx Ny Fa Fb La Lb H.
  pose proof (Bdiv_correct 53 1024 prec_gt_0_53 prec_lt_emax_53 mode_NE x y Ny) as C.
  pose proof (no_overflow_r a b _ Fa Fb La Lb H) as NO. cbn [round_mode] in C. fold fexp64 in C.
  fold (rnd (RV x / RV y)) in C. rewrite Rlt_bool_true in C by exact NO. destruct C as (C1 & C2 & _).
  split; [unfold F64.is_finite, F64.div in *; rewrite C2; exact Fx|]. unfold F64.div. rewrite C1. apply rnd_between; assumption.
Qed.

Lemma small_int_bound : forall z : Z, (Z.abs z < 2 ^ 53)%Z -> Rabs (IZR z) < bpow radix2 1024.
Proof. intros z H. rewrite <- abs_IZR. pose proof bpow_53_1024. apply IZR_lt in H. lra. Qed.

Definition tag_ok (tag : list pout -> Z * f64) : Prop :=
  forall i, fin (snd (tag i)) /\ 0 <= RV (snd (tag i)) <= 1.

Definition gauss_inv (k : Z) (d : f64) : Prop := fin d /\ - IZR k <= RV d <= 0.

Lemma gauss_step_right : forall k d s scale, (0 <= k)%Z -> (k + 1 < 2 ^ 53)%Z ->
  gauss_inv k d -> fin s -> 0 <= RV s <= 1 -> fin scale -> 1 <= RV scale ->
  gauss_inv (k + 1) (F64.add d (F64.div (F64.sub s one) scale)).
Proof.
  intros k d s scale K0 K1 (Fd & Bd) Fs Bs Fsc Psc.
  assert (F1 : fmt (IZR (-1))) by (apply fmt_IZR; reflexivity).
  assert (F0 : fmt (IZR 0)) by (apply fmt_IZR; reflexivity).
  assert (L1 : Rabs (IZR (-1)) < bpow radix2 1024) by (apply small_int_bound; reflexivity).
  assert (L0 : Rabs (IZR 0) < bpow radix2 1024) by (apply small_int_bound; reflexivity).
  destruct (sub_sq_r s one (IZR (-1)) (IZR 0) Fs fin_one F1 F0 L1 L0) as [Ft Bt]; [rewrite R_one; lra|].
  assert (Nsc : RV scale <> 0) by lra.
  assert (Hi : 0 < / RV scale <= 1).
  { split; [apply Rinv_0_lt_compat; lra|]. rewrite <- Rinv_1. apply Rinv_le_contravar; lra. }
  destruct (div_sq_r (F64.sub s one) scale (IZR (-1)) (IZR 0) Ft Nsc F1 F0 L1 L0) as [Fq Bq].
  { unfold Rdiv. destruct Hi. destruct Bt. split; nra. }
  assert (Fk : fmt (IZR (- (k + 1)))) by (apply fmt_IZR; lia).
  assert (Lk : Rabs (IZR (- (k + 1))) < bpow radix2 1024) by (apply small_int_bound; lia).
  destruct (add_sq_r d _ (IZR (- (k + 1))) (IZR 0) Fd Fq Fk F0 Lk L0) as [Fr Br].
  { rewrite opp_IZR, plus_IZR. lra. }
  split; [exact Fr|]. rewrite opp_IZR in Br. lra.
Qed.

Lemma gauss_step_wrong : forall k d, (0 <= k)%Z -> (k + 1 < 2 ^ 53)%Z ->
  gauss_inv k d -> gauss_inv (k + 1) (F64.sub d one).
Proof.
  intros k d K0 K1 (Fd & Bd).
  assert (F0 : fmt (IZR 0)) by (apply fmt_IZR; reflexivity).
  assert (L0 : Rabs (IZR 0) < bpow radix2 1024) by (apply small_int_bound; reflexivity).
  assert (Fk : fmt (IZR (- (k + 1)))) by (apply fmt_IZR; lia).
  assert (Lk : Rabs (IZR (- (k + 1))) < bpow radix2 1024) by (apply small_int_bound; lia).
  destruct (sub_sq_r d one (IZR (- (k + 1))) (IZR 0) Fd fin_one Fk F0 Lk L0) as [Fr Br].
  { rewrite R_one, opp_IZR, plus_IZR. lra. }
  split; [exact Fr|]. rewrite opp_IZR in Br. lra.
Qed.

Lemma gaussian_loop_bounds : forall tag scale l k d v,
  tag_ok tag -> fin scale -> 1 <= RV scale -> (0 <= k)%Z -> (k + Z.of_nat (length l) < 2 ^ 53)%Z ->
  gauss_inv k d -> snd (gaussian_loop tag scale l d) = Some v -> gauss_inv (k + Z.of_nat (length l)) v.
Proof.
  intros tag scale l. induction l as [|e t IH]; intros k d v Ht Fsc Psc K0 K1 G H; cbn [gaussian_loop] in H.
  - injection H as <-. cbn [length]. rewrite Z.add_0_r. exact G.
  - cbn [length] in K1. rewrite Nat2Z.inj_succ in K1.
    destruct (label e) as [lab|]; [|discriminate].
    match type of H with context [gaussian_loop tag scale t ?x] => destruct (gaussian_loop tag scale t x) as [r' res] eqn:E end.
    cbn [snd] in H. cbn [length]. rewrite Nat2Z.inj_succ.
    replace (k + Z.succ (Z.of_nat (length t)))%Z with ((k + 1) + Z.of_nat (length t))%Z by lia.
    refine (IH (k + 1)%Z _ v Ht Fsc Psc ltac:(lia) ltac:(lia) _ ltac:(rewrite E; exact H)).
    destruct (fst (tag (ex_in e)) =? lab)%Z.
    + destruct (Ht (ex_in e)) as [Fs Bs]. apply gauss_step_right; try assumption; lia.
    + apply gauss_step_wrong; try assumption; lia.
Qed.

Lemma gaussian_scale_ok : forall classes, (2 <= classes <= 2 ^ 53)%Z ->
  fin (gaussian_scale classes) /\ 1 <= RV (gaussian_scale classes).
Proof.
  intros c H. unfold gaussian_scale. rewrite Z.mod_small by lia.
  destruct (of_Z_exact (c - 1) ltac:(lia)) as [F E]. split; [exact F|]. rewrite E. apply IZR_le. lia.
Qed.

Lemma gaussian_bounds : forall tag classes d d' f,
  tag_ok tag -> (2 <= classes <= 2 ^ 53)%Z -> (Z.of_nat (length d) < 2 ^ 53)%Z ->
  gaussian_eval tag classes d = (d', Some f) ->
  exists v, f = [v] /\ fin v /\ - IZR (Z.of_nat (length d)) <= RV v <= 0.
Proof.
  intros tag classes d d' f Ht Hc Hl H. unfold gaussian_eval in H.
  destruct (gaussian_loop tag (gaussian_scale classes) d F64.zero) as [r [v|]] eqn:E; [|discriminate].
  injection H as _ <-. destruct (gaussian_scale_ok classes Hc) as [Fsc Psc].
  assert (G0 : gauss_inv 0 F64.zero) by (split; [reflexivity|rewrite R_zero; lra]).
  pose proof (gaussian_loop_bounds tag _ d 0%Z F64.zero v Ht Fsc Psc ltac:(lia) ltac:(lia) G0 ltac:(rewrite E; reflexivity)) as G.
  rewrite Z.add_0_l in G. exists v. split; [reflexivity|exact G].
Qed.

(* ---- single-row data: the fitness is exactly minus the error ------------ *)
Lemma soe_first_step : forall err : f64, fin err -> 0 <= RV err ->
  fin (fst (soe_update (F64.zero, F64.zero) err)) /\ RV (fst (soe_update (F64.zero, F64.zero) err)) = RV err.
Proof.
  intros err Fe Pe. unfold soe_update. cbn [fst snd].
  assert (N1 : F64.add F64.zero one = one) by (apply B2SF_inj; vm_compute; reflexivity).
  rewrite N1.
  assert (S1 : RV F64.zero <= RV err - RV F64.zero <= RV err) by (rewrite R_zero; lra).
  destruct (sub_sq err F64.zero F64.zero err Fe eq_refl S1) as [Fd Ed].
  rewrite R_zero, Rminus_0_r, (rnd_id _ (fmt_RV err)) in Ed.
  assert (N : RV one <> 0) by (rewrite R_one; lra).
  assert (S2 : RV F64.zero <= RV (F64.sub err F64.zero) / RV one <= RV err).
  { rewrite Ed, R_one, R_zero. unfold Rdiv. rewrite Rinv_1, Rmult_1_r. lra. }
  destruct (div_sq _ one F64.zero err Fd N S2) as [Fq Eq].
  rewrite Ed, R_one in Eq. unfold Rdiv in Eq. rewrite Rinv_1, Rmult_1_r, (rnd_id _ (fmt_RV err)) in Eq.
  assert (S3 : RV F64.zero <= RV F64.zero + RV (F64.div (F64.sub err F64.zero) one) <= RV err).
  { rewrite Eq, R_zero. lra. }
  destruct (add_sq F64.zero _ F64.zero err eq_refl Fq S3) as [Fr Er].
  split; [exact Fr|]. rewrite Er, Eq, R_zero, Rplus_0_l. apply rnd_id. apply fmt_RV.
Qed.

Lemma single_row_fitness : forall errf e, fin (errf e) -> 0 <= RV (errf e) ->
  exists v, snd (soe_eval errf [e]) = [v] /\ fin v /\ RV v = - RV (errf e).
Proof.
  intros errf e Fe Pe. unfold soe_eval, sum_of_errors_impl. cbn [soe_loop length Nat.leb Nat.pred].
  unfold soe_visit. cbn [fst snd]. destruct (soe_first_step (errf e) Fe Pe) as [F E].
  unfold soe_result. rewrite F. cbn [negb]. eexists. split; [reflexivity|]. rewrite fin_neg, R_neg, E. split; [exact F|reflexivity].
Qed.
