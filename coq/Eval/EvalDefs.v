(* C05 -- evaluators (kernel/gp/src/evaluator.tcc, kernel/ga/evaluator.tcc,
   kernel/constrained_evaluator.tcc).  Executable model, definitions only.

   Two layers:
   * exact (Q): the arithmetic mean and the running-mean update
     `avg += (err - avg) / ++n`;
   * binary64 (Base/F64.v): the error functors with their penalties, the loop
     of sum_of_errors_impl, the counting loops of the classification
     evaluators, ga_evaluator, constrained_evaluator.

   The program enters as an oracle  out : inputs -> pout  (what
   basic_reg_lambda_f::operator() returns on example.input; the interpreter
   is another property) and, for dyn_slot / gaussian, as an oracle
   tag : inputs -> (label, sureness).  String-valued outputs are outside the
   model (pout has no string alternative). *)
From Coq Require Import ZArith NArith QArith List Bool.
From VV Require Import Base.F64.
Import ListNotations.

(* ------------------------------------------------------------------ exact *)
Section Exact.
Local Open Scope Q_scope.

Definition qsum (l : list Q) : Q := fold_right Qplus 0 l.
Definition qmean (l : list Q) : Q := qsum l / inject_Z (Z.of_nat (length l)).

(* one iteration: `average_error += (err - average_error) / ++n` *)
Definition q_step (st : Q * Q) (err : Q) : Q * Q :=
  let n' := snd st + 1 in
  (fst st + (err - fst st) / n', n').
Definition q_running (l : list Q) : Q * Q := fold_left q_step l (0, 0).
Definition q_fitness (l : list Q) : Q := - fst (q_running l).
End Exact.

(* --------------------------------------------------------------- binary64 *)
Local Open Scope Z_scope.

(* value_t = std::variant<monostate, int, double, std::string>.  A string
   carries what std::stod (libc, outside the model) answers on it: the parsed
   double, or None when stod throws std::invalid_argument / std::out_of_range. *)
Inductive pout :=
| PVoid
| PInt (z : Z)
| PDouble (f : f64)
| PString (s : list Z) (parsed : option f64).

Definition p_has_value (p : pout) : bool := match p with PVoid => false | _ => true end.

(* lexical_cast<D_DOUBLE>(value_t)  (utility.cc): double -> itself, int ->
   converted, string -> std::stod, empty -> 0.0.  [lex_throws] tells when the
   call leaves by an exception (the value of [lex_double] is then unused). *)
Definition lex_double (p : pout) : f64 :=
  match p with
  | PDouble d => d
  | PInt z => F64.of_Z z
  | PString _ (Some v) => v
  | PString _ None => F64.zero
  | PVoid => F64.zero
  end.
Definition lex_throws (p : pout) : bool :=
  match p with PString _ None => true | _ => false end.

(* dataframe::example *)
Record example := mk_example {
  ex_in : list pout;      (* input *)
  ex_out : pout;          (* output (target / class label) *)
  ex_diff : N;            (* difficulty, std::uintmax_t *)
  ex_age : N }.

Definition two64 : N := 18446744073709551616%N.
(* ++example.difficulty *)
Definition bump (e : example) : example :=
  mk_example (ex_in e) (ex_out e) (N.modulo (ex_diff e + 1) two64) (ex_age e).

Definition one : f64 := F64.of_Z 1.
Definition two : f64 := F64.of_Z 2.
Definition ten : f64 := F64.of_Z 10.
Definition hundred : f64 := F64.of_Z 100.
Definition two_hundred : f64 := F64.of_Z 200.
Definition dbl_max : f64 := F64.of_bits 9218868437227405311.   (* 0x7FEFFFFFFFFFFFFF *)
Definition dbl_min : f64 := F64.of_bits 4503599627370496.      (* 0x0010000000000000 *)
Definition dbl_eps : f64 := F64.of_bits 4372995238176751616.   (* 0x3CB0000000000000 *)

(* utility.h: issmall(v) = std::abs(v) < 2.0 * epsilon *)
Definition issmall (v : f64) : bool := F64.ltb (F64.abs v) (F64.mul two dbl_eps).

(* std::numeric_limits<double>::max() / 100.0 *)
Definition penalty : f64 := F64.div dbl_max hundred.

(* label_as<D_DOUBLE>(example) *)
Definition target (e : example) : f64 := lex_double (ex_out e).

Section Oracle.
Variable out : list pout -> pout.       (* agent_(example) *)

(* mae_error_functor::operator() *)
Definition mae_err (e : example) : f64 :=
  let mv := out (ex_in e) in
  if p_has_value mv then F64.abs (F64.sub (lex_double mv) (target e))
  else penalty.

(* mse_error_functor::operator() *)
Definition mse_err (e : example) : f64 :=
  let mv := out (ex_in e) in
  if p_has_value mv then
    let err := F64.sub (lex_double mv) (target e) in F64.mul err err
  else penalty.

(* rmae_error_functor::operator(), as shipped in the pinned tree *)
Definition rmae_err_pinned (e : example) : f64 :=
  let mv := out (ex_in e) in
  if p_has_value mv then
    let approx := lex_double mv in
    let tgt := target e in
    let delta := F64.abs (F64.sub tgt approx) in
    if F64.leb delta (F64.mul ten dbl_min) then F64.zero
    else F64.div (F64.mul two_hundred delta) (F64.add (F64.abs approx) (F64.abs tgt))
  else two_hundred.

(* rmae_error_functor::operator() after the repair: when an intermediate
   result (200 * delta or |approx| + |target|) overflows the calculation is
   performed on halved operands *)
Definition rmae_err (e : example) : f64 :=
  let mv := out (ex_in e) in
  if p_has_value mv then
    let approx := lex_double mv in
    let tgt := target e in
    let delta := F64.abs (F64.sub tgt approx) in
    if F64.leb delta (F64.mul ten dbl_min) then F64.zero
    else
      let sum := F64.add (F64.abs approx) (F64.abs tgt) in
      if F64.is_finite (F64.mul two_hundred delta) && F64.is_finite sum then
        F64.div (F64.mul two_hundred delta) sum
      else
        F64.mul two_hundred
          (F64.div (F64.abs (F64.sub (F64.div tgt two) (F64.div approx two)))
                   (F64.add (F64.div (F64.abs approx) two) (F64.div (F64.abs tgt) two)))
  else two_hundred.

(* count_error_functor::operator() *)
Definition count_wrong (e : example) : bool :=
  let mv := out (ex_in e) in
  negb (p_has_value mv) || negb (issmall (F64.sub (lex_double mv) (target e))).
Definition count_err (e : example) : f64 := if count_wrong e then one else F64.zero.

(* the four functors cast the output and the target only when the output has a
   value: `lexical_cast<D_DOUBLE>(model_value) - label_as<D_DOUBLE>(example)` *)
Definition err_throws (e : example) : bool :=
  let mv := out (ex_in e) in
  p_has_value mv && (lex_throws mv || lex_throws (ex_out e)).

(* basic_binary_lambda_f::tag *)
Definition binary_tag (i : list pout) : Z * f64 :=
  let res := out i in
  let val := if p_has_value res then lex_double res else F64.zero in
  (if F64.gtb val F64.zero then 1 else 0, F64.abs val).
End Oracle.

(* ---- sum_of_errors_impl ------------------------------------------------ *)
(* state of the loop: (average_error, n) *)
Definition soe_update (st : f64 * f64) (err : f64) : f64 * f64 :=
  let n' := F64.add (snd st) one in                      (* ++n *)
  (F64.add (fst st) (F64.div (F64.sub err (fst st)) n'), n').

(* body of the loop on one example: the example as left in the dataset and
   the new state *)
Definition soe_visit (errf : example -> f64) (e : example) (st : f64 * f64) : example * (f64 * f64) :=
  let err := errf e in
  ((if negb (issmall err) then bump e else e), soe_update st err).

(* for (it = begin; distance(it, end) >= step; advance(it, step)) body(it)
   [skip] = number of examples to pass over before the next visited one *)
Fixpoint soe_loop (errf : example -> f64) (step skip : nat) (l : list example) (st : f64 * f64)
  : list example * (f64 * f64) :=
  match l with
  | [] => ([], st)
  | e :: r =>
      match skip with
      | S k => let (r', st') := soe_loop errf step k r st in (e :: r', st')
      | O =>
          if Nat.leb step (length l) then
            let (e', st1) := soe_visit errf e st in
            let (r', st') := soe_loop errf step (Nat.pred step) r st1 in (e' :: r', st')
          else (l, st)
      end
  end.

(* the same loop with the exception path: when the error functor throws on a
   visited example the loop is left at once -- that example and the following
   ones are untouched, the earlier ones keep their increments, and there is no
   fitness *)
Fixpoint soe_loop_x (throws : example -> bool) (errf : example -> f64) (step skip : nat)
  (l : list example) (st : f64 * f64) : list example * option (f64 * f64) :=
  match l with
  | [] => ([], Some st)
  | e :: r =>
      match skip with
      | S k => let (r', st') := soe_loop_x throws errf step k r st in (e :: r', st')
      | O =>
          if Nat.leb step (length l) then
            if throws e then (l, None)
            else
              let (e', st1) := soe_visit errf e st in
              let (r', st') := soe_loop_x throws errf step (Nat.pred step) r st1 in (e' :: r', st')
          else (l, Some st)
      end
  end.

(* the plain left-to-right loop (step = 1) *)
Fixpoint soe_all (errf : example -> f64) (l : list example) (st : f64 * f64)
  : list example * (f64 * f64) :=
  match l with
  | [] => ([], st)
  | e :: r =>
      let (e', st1) := soe_visit errf e st in
      let (r', st') := soe_all errf r st1 in (e' :: r', st')
  end.

Definition fitness := list f64.

(* pinned tree: return {-average_error} *)
Definition soe_result_pinned (avg : f64) : fitness := [F64.neg avg].
(* repaired: a non finite average gives the worst finite fitness *)
Definition soe_result (avg : f64) : fitness :=
  [F64.neg (if negb (F64.is_finite avg) then dbl_max else avg)].

Definition sum_of_errors_impl_pinned (errf : example -> f64) (step : nat) (d : list example)
  : list example * fitness :=
  let (d', st) := soe_loop errf step 0 d (F64.zero, F64.zero) in (d', soe_result_pinned (fst st)).
Definition sum_of_errors_impl (errf : example -> f64) (step : nat) (d : list example)
  : list example * fitness :=
  let (d', st) := soe_loop errf step 0 d (F64.zero, F64.zero) in (d', soe_result (fst st)).

(* with the exception path *)
Definition sum_of_errors_impl_x (throws : example -> bool) (errf : example -> f64) (step : nat) (d : list example)
  : list example * option fitness :=
  let (d', st) := soe_loop_x throws errf step 0 d (F64.zero, F64.zero) in
  (d', match st with Some s => Some (soe_result (fst s)) | None => None end).

(* operator() and fast() *)
Definition soe_eval (errf : example -> f64) (d : list example) := sum_of_errors_impl errf 1 d.
Definition soe_fast (errf : example -> f64) (d : list example) := sum_of_errors_impl errf 5 d.
Definition soe_eval_pinned (errf : example -> f64) (d : list example) := sum_of_errors_impl_pinned errf 1 d.

(* ---- classification ---------------------------------------------------- *)
(* label(example): std::get<D_INT>(e.output) converted to class_t (size_t);
   None = std::bad_variant_access *)
Definition label (e : example) : option Z :=
  match ex_out e with
  | PInt z => Some (z mod 18446744073709551616)
  | _ => None
  end.

(* dyn_slot_evaluator::operator() / binary_evaluator::operator():
   for (auto &example : dat) if (tag(example).label != label(example)) { ++err; ++example.difficulty; }
   Result: the dataset as the loop leaves it, and the error counter -- None
   when label() threw std::bad_variant_access on an example whose output cell
   is not an integer: the examples before it keep their increments, that
   example and the following ones are untouched. *)
Fixpoint count_loop (tag : list pout -> Z * f64) (l : list example) (err : f64)
  : list example * option f64 :=
  match l with
  | [] => ([], Some err)
  | e :: r =>
      match label e with
      | None => (e :: r, None)
      | Some lab =>
          let wrong := negb (Z.eqb (fst (tag (ex_in e))) lab) in
          let (r', res) := count_loop tag r (if wrong then F64.add err one else err) in
          ((if wrong then bump e else e) :: r', res)
      end
  end.

Definition count_eval (tag : list pout -> Z * f64) (d : list example) : list example * option fitness :=
  let (d', res) := count_loop tag d F64.zero in
  (d', match res with Some err => Some [F64.neg err] | None => None end).

Definition dyn_slot_eval := count_eval.
Definition binary_eval (out : list pout -> pout) := count_eval (binary_tag out).

(* gaussian_evaluator::operator() *)
Definition gaussian_scale (classes : Z) : f64 := F64.of_Z ((classes - 1) mod 18446744073709551616).

Fixpoint gaussian_loop (tag : list pout -> Z * f64) (scale : f64) (l : list example) (d : f64)
  : list example * option f64 :=
  match l with
  | [] => ([], Some d)
  | e :: r =>
      match label e with
      | None => (e :: r, None)
      | Some lab =>
          let res := tag (ex_in e) in
          let right := Z.eqb (fst res) lab in
          let d1 := if right then F64.add d (F64.div (F64.sub (snd res) one) scale)
                    else F64.sub d one in
          let (r', out) := gaussian_loop tag scale r d1 in
          ((if right then e else bump e) :: r', out)
      end
  end.

Definition gaussian_eval (tag : list pout -> Z * f64) (classes : Z) (d : list example)
  : list example * option fitness :=
  let (d', res) := gaussian_loop tag (gaussian_scale classes) d F64.zero in
  (d', match res with Some v => Some [v] | None => None end).

(* ---- ga_evaluator / constrained_evaluator ------------------------------ *)
Definition ga_eval (f_v : f64) : fitness := if F64.is_finite f_v then [f_v] else [].
(* combine(fitness_t{-penalty_(prg)}, eva_(prg)) *)
Definition constrained_eval (pen : f64) (base : fitness) : fitness := [F64.neg pen] ++ base.

(* ---- test_evaluator (kernel/evaluator.tcc), types `fixed` and `distinct` ---
   (`random` seeds the PRNG with the same index and draws: C07's model)      *)
Section TestEvaluator.
Variable prog : Type.
Variable prog_eqb : prog -> prog -> bool.          (* T::operator== *)

(* std::find(buffer_.begin(), buffer_.end(), prg) - buffer_.begin() *)
Fixpoint find_index (buf : list prog) (p : prog) (i : Z) : option Z :=
  match buf with
  | [] => None
  | x :: r => if prog_eqb x p then Some i else find_index r p (i + 1)
  end.

Definition test_fixed (p : prog) : fitness := [F64.of_Z 0].
(* new programs are appended to buffer_; the fitness is the position *)
Definition test_distinct (buf : list prog) (p : prog) : list prog * fitness :=
  match find_index buf p 0 with
  | Some i => (buf, [F64.of_Z i])
  | None => (buf ++ [p], [F64.of_Z (Z.of_nat (length buf))])
  end.
Fixpoint test_distinct_run (buf : list prog) (ps : list prog) : list fitness :=
  match ps with
  | [] => []
  | p :: r => let (b', f) := test_distinct buf p in f :: test_distinct_run b' r
  end.
End TestEvaluator.

(* ---- executable oracles of the property (used by the check on the
        implementation's outputs) --------------------------------------- *)
Definition wrong_by (wrong : example -> bool) (l : list example) : list example :=
  map (fun e => if wrong e then bump e else e) l.
(* what operator() of an error evaluator leaves behind, exception included *)
Fixpoint frame_x (throws wrong : example -> bool) (l : list example) : list example :=
  match l with
  | [] => []
  | e :: r => if throws e then e :: r else (if wrong e then bump e else e) :: frame_x throws wrong r
  end.
(* what a classification loop leaves behind, exception included *)
Fixpoint frame_cls (wrong : example -> bool) (l : list example) : list example :=
  match l with
  | [] => []
  | e :: r => match label e with
              | None => e :: r
              | Some _ => (if wrong e then bump e else e) :: frame_cls wrong r
              end
  end.
Definition mismatches (wrong : example -> bool) (l : list example) : Z :=
  Z.of_nat (length (filter wrong l)).
