(* C05 -- structural lemmas about the evaluator model (no real-number
   reasoning here; see EvalFloatProofs.v for the binary64 arguments and
   EvalExactProofs.v for the exact layer). *)
From Coq Require Import ZArith NArith List Bool Lia.
From VV Require Import Base.F64 Eval.EvalDefs.
Import ListNotations.
Local Open Scope Z_scope.

(* ---- the loop with step 1 is the plain left-to-right loop ------------- *)
Lemma soe_loop_step1 : forall errf l st, soe_loop errf 1 0 l st = soe_all errf l st.
Proof.
  intros errf l. induction l as [|e r IH]; intro st; [reflexivity|].
  cbn [soe_loop soe_all length Nat.leb Nat.pred].
  destruct (soe_visit errf e st) as [e' st1]. rewrite IH. reflexivity.
Qed.

(* ---- frame: what an evaluation does to the dataset --------------------- *)
Definition soe_wrong (errf : example -> f64) (e : example) : bool := negb (issmall (errf e)).

Lemma soe_all_frame : forall errf l st, fst (soe_all errf l st) = wrong_by (soe_wrong errf) l.
Proof.
  intros errf l. induction l as [|e r IH]; intro st; [reflexivity|].
  cbn [soe_all wrong_by map]. unfold soe_visit.
  specialize (IH (soe_update st (errf e))).
  destruct (soe_all errf r (soe_update st (errf e))) as [r' st'] eqn:E.
  cbn [fst] in *. rewrite IH. reflexivity.
Qed.

Lemma soe_eval_frame : forall errf d, fst (soe_eval errf d) = wrong_by (soe_wrong errf) d.
Proof.
  intros errf d. unfold soe_eval, sum_of_errors_impl. rewrite soe_loop_step1.
  pose proof (soe_all_frame errf d (F64.zero, F64.zero)) as H.
  destruct (soe_all errf d (F64.zero, F64.zero)) as [d' st]. exact H.
Qed.

(* the general loop (any step, e.g. fast()): visited examples are bumped iff
   wrong, all others are untouched, nothing is added, dropped or reordered *)
Lemma soe_loop_frame : forall errf step l skip st,
  Forall2 (fun e e' => e' = e \/ (soe_wrong errf e = true /\ e' = bump e)) l (fst (soe_loop errf step skip l st)).
Proof.
  intros errf step l. induction l as [|e r IH]; intros skip st; [constructor|].
  cbn [soe_loop]. destruct skip as [|k].
  - destruct (Nat.leb step (length (e :: r))).
    + unfold soe_visit.
      specialize (IH (Nat.pred step) (soe_update st (errf e))).
      destruct (soe_loop errf step (Nat.pred step) r (soe_update st (errf e))) as [r' st'].
      cbn [fst] in *. constructor; [|exact IH].
      unfold soe_wrong. destruct (negb (issmall (errf e))); [right; split; reflexivity|left; reflexivity].
    + cbn [fst]. clear IH. induction (e :: r) as [|x xs IHx]; constructor; [left; reflexivity|exact IHx].
  - specialize (IH k st). destruct (soe_loop errf step k r st) as [r' st'].
    cbn [fst] in *. constructor; [left; reflexivity|exact IH].
Qed.

(* ---- the exception path -------------------------------------------------- *)
Lemma soe_loop_x_no_throw : forall throws errf step l skip st,
  (forall e, In e l -> throws e = false) ->
  soe_loop_x throws errf step skip l st =
  (fst (soe_loop errf step skip l st), Some (snd (soe_loop errf step skip l st))).
Proof.
  intros throws errf step l. induction l as [|e r IH]; intros skip st H; [reflexivity|].
  cbn [soe_loop_x soe_loop]. destruct skip as [|k].
  - destruct (Nat.leb step (length (e :: r))); [|reflexivity].
    rewrite (H e (or_introl eq_refl)). destruct (soe_visit errf e st) as [e' st1].
    rewrite (IH (Nat.pred step) st1 (fun x Hx => H x (or_intror Hx))).
    destruct (soe_loop errf step (Nat.pred step) r st1) as [r' st']. reflexivity.
  - rewrite (IH k st (fun x Hx => H x (or_intror Hx))).
    destruct (soe_loop errf step k r st) as [r' st']. reflexivity.
Qed.

Lemma soe_loop_x_frame : forall throws errf step l skip st,
  Forall2 (fun e e' => e' = e \/ (soe_wrong errf e = true /\ e' = bump e)) l (fst (soe_loop_x throws errf step skip l st)).
Proof.
  intros throws errf step l. induction l as [|e r IH]; intros skip st; [constructor|].
  assert (Same : forall l0 : list example, Forall2 (fun e e' => e' = e \/ (soe_wrong errf e = true /\ e' = bump e)) l0 l0).
  { intro l0. induction l0 as [|x xs IHx]; constructor; [left; reflexivity|exact IHx]. }
  cbn [soe_loop_x]. destruct skip as [|k].
  - destruct (Nat.leb step (length (e :: r))); [|apply Same].
    destruct (throws e); [apply Same|]. unfold soe_visit.
    specialize (IH (Nat.pred step) (soe_update st (errf e))).
    destruct (soe_loop_x throws errf step (Nat.pred step) r (soe_update st (errf e))) as [r' st'].
    cbn [fst] in *. constructor; [|exact IH].
    unfold soe_wrong. destruct (negb (issmall (errf e))); [right; split; reflexivity|left; reflexivity].
  - specialize (IH k st). destruct (soe_loop_x throws errf step k r st) as [r' st'].
    cbn [fst] in *. constructor; [left; reflexivity|exact IH].
Qed.

Lemma soe_loop_x_throw_witness : forall throws errf step l skip st,
  snd (soe_loop_x throws errf step skip l st) = None -> exists e, In e l /\ throws e = true.
Proof.
  intros throws errf step l. induction l as [|e r IH]; intros skip st H; [discriminate H|].
  cbn [soe_loop_x] in H. destruct skip as [|k].
  - destruct (Nat.leb step (length (e :: r))); [|discriminate H].
    destruct (throws e) eqn:T; [exists e; split; [left; reflexivity|exact T]|].
    destruct (soe_visit errf e st) as [e' st1].
    destruct (soe_loop_x throws errf step (Nat.pred step) r st1) as [r' st'] eqn:E. cbn [snd] in H.
    destruct (IH (Nat.pred step) st1 ltac:(rewrite E; exact H)) as (x & Hx & Tx). exists x. split; [right; exact Hx|exact Tx].
  - destruct (soe_loop_x throws errf step k r st) as [r' st'] eqn:E. cbn [snd] in H.
    destruct (IH k st ltac:(rewrite E; exact H)) as (x & Hx & Tx). exists x. split; [right; exact Hx|exact Tx].
Qed.

(* operator() (every example visited): the exact state left behind, and the
   evaluation throws exactly when some example makes the functor throw *)
Lemma soe_loop_x_step1 : forall throws errf l st,
  fst (soe_loop_x throws errf 1 0 l st) = frame_x throws (soe_wrong errf) l /\
  (snd (soe_loop_x throws errf 1 0 l st) = None <-> existsb throws l = true).
Proof.
  intros throws errf l. induction l as [|e r IH]; intro st.
  - cbn. split; [reflexivity|split; discriminate].
  - cbn [soe_loop_x frame_x existsb length Nat.leb Nat.pred]. destruct (throws e) eqn:T.
    + cbn. split; [reflexivity|split; reflexivity].
    + unfold soe_visit. destruct (IH (soe_update st (errf e))) as [I1 I2].
      destruct (soe_loop_x throws errf 1 0 r (soe_update st (errf e))) as [r' st']. cbn [fst snd orb] in *.
      split; [unfold soe_wrong at 1; rewrite I1; reflexivity|exact I2].
Qed.

Lemma bump_fields : forall e, ex_in (bump e) = ex_in e /\ ex_out (bump e) = ex_out e /\ ex_age (bump e) = ex_age e
  /\ ex_diff (bump e) = N.modulo (ex_diff e + 1) two64.
Proof. intro e. repeat split. Qed.

(* ---- classification loops ---------------------------------------------- *)
Definition cls_wrong (tag : list pout -> Z * f64) (e : example) : bool :=
  match label e with
  | Some lab => negb (Z.eqb (fst (tag (ex_in e))) lab)
  | None => false
  end.

Definition all_labelled (l : list example) : Prop := Forall (fun e => label e <> None) l.

Lemma frame_cls_labelled : forall wrong l, all_labelled l -> frame_cls wrong l = wrong_by wrong l.
Proof.
  intros wrong l H. induction H as [|e r He Hr IH]; [reflexivity|].
  cbn [frame_cls wrong_by map]. destruct (label e); [|contradiction]. fold (wrong_by wrong r). rewrite IH. reflexivity.
Qed.

Lemma count_loop_frame : forall tag l err, fst (count_loop tag l err) = frame_cls (cls_wrong tag) l.
Proof.
  intros tag l. induction l as [|e t IH]; intro err; cbn [count_loop frame_cls]; [reflexivity|].
  unfold cls_wrong at 1. destruct (label e) as [lab|] eqn:L; [|reflexivity].
  specialize (IH (if negb (fst (tag (ex_in e)) =? lab) then F64.add err one else err)).
  destruct (count_loop tag t _) as [r' res]. cbn [fst] in *. rewrite IH. reflexivity.
Qed.

Lemma count_loop_total : forall tag l err, all_labelled l -> exists v, snd (count_loop tag l err) = Some v.
Proof.
  intros tag l. induction l as [|e t IH]; intros err H; cbn [count_loop]; [eexists; reflexivity|].
  inversion H as [|? ? He Ht]; subst. destruct (label e) as [lab|]; [|contradiction].
  destruct (IH (if negb (fst (tag (ex_in e)) =? lab) then F64.add err one else err) Ht) as [v Hv].
  destruct (count_loop tag t _) as [r' res]. cbn [snd] in *. exists v. exact Hv.
Qed.

Lemma count_loop_done_labelled : forall tag l err v, snd (count_loop tag l err) = Some v -> all_labelled l.
Proof.
  intros tag l. induction l as [|e t IH]; intros err v H; [constructor|]. cbn [count_loop] in H.
  destruct (label e) as [lab|] eqn:L; [|discriminate H].
  destruct (count_loop tag t _) as [r' res] eqn:E. cbn [snd] in H.
  constructor; [rewrite L; discriminate|]. eapply IH. rewrite E. exact H.
Qed.

Lemma gaussian_loop_frame : forall tag scale l d, fst (gaussian_loop tag scale l d) = frame_cls (cls_wrong tag) l.
Proof.
  intros tag scale l. induction l as [|e t IH]; intro d; cbn [gaussian_loop frame_cls]; [reflexivity|].
  unfold cls_wrong at 1. destruct (label e) as [lab|] eqn:L; [|reflexivity].
  match goal with |- context [gaussian_loop tag scale t ?x] => specialize (IH x); destruct (gaussian_loop tag scale t x) as [r' res] end.
  cbn [fst] in *. rewrite IH. destruct (fst (tag (ex_in e)) =? lab); reflexivity.
Qed.

Lemma gaussian_loop_done_labelled : forall tag scale l d v, snd (gaussian_loop tag scale l d) = Some v -> all_labelled l.
Proof.
  intros tag scale l. induction l as [|e t IH]; intros d v H; [constructor|]. cbn [gaussian_loop] in H.
  destruct (label e) as [lab|] eqn:L; [|discriminate H].
  match type of H with context [gaussian_loop tag scale t ?x] => destruct (gaussian_loop tag scale t x) as [r' res] eqn:E end.
  cbn [snd] in H. constructor; [rewrite L; discriminate|]. eapply IH. rewrite E. exact H.
Qed.

(* the error counter after the loop: [mismatches] additions of 1.0 *)
Fixpoint add_ones (k : nat) (x : f64) : f64 :=
  match k with O => x | S k' => add_ones k' (F64.add x one) end.

Lemma count_loop_counter : forall tag l err v,
  snd (count_loop tag l err) = Some v -> v = add_ones (length (filter (cls_wrong tag) l)) err.
Proof.
  intros tag l. induction l as [|e t IH]; intros err v H; cbn [count_loop] in H.
  - injection H as <-. reflexivity.
  - cbn [filter]. unfold cls_wrong at 1. destruct (label e) as [lab|] eqn:L; [|discriminate].
    destruct (count_loop tag t _) as [r' res] eqn:E. cbn [snd] in H.
    specialize (IH _ v ltac:(rewrite E; exact H)). rewrite IH.
    destruct (negb (fst (tag (ex_in e)) =? lab)); reflexivity.
Qed.

(* ---- trivial facts ----------------------------------------------------- *)
Lemma ga_nonfinite_is_empty : forall v, F64.is_finite v = false -> ga_eval v = [].
Proof. intros v H. unfold ga_eval. rewrite H. reflexivity. Qed.
Lemma ga_finite_is_value : forall v, F64.is_finite v = true -> ga_eval v = [v].
Proof. intros v H. unfold ga_eval. rewrite H. reflexivity. Qed.
Lemma constrained_prepends : forall p base, constrained_eval p base = F64.neg p :: base.
Proof. reflexivity. Qed.

Lemma undefined_mae : forall out e, out (ex_in e) = PVoid -> mae_err out e = penalty.
Proof. intros out e H. unfold mae_err. rewrite H. reflexivity. Qed.
Lemma undefined_mse : forall out e, out (ex_in e) = PVoid -> mse_err out e = penalty.
Proof. intros out e H. unfold mse_err. rewrite H. reflexivity. Qed.
Lemma undefined_rmae : forall out e, out (ex_in e) = PVoid -> rmae_err out e = two_hundred.
Proof. intros out e H. unfold rmae_err. rewrite H. reflexivity. Qed.
Lemma undefined_count : forall out e, out (ex_in e) = PVoid -> count_err out e = one.
Proof. intros out e H. unfold count_err, count_wrong. rewrite H. reflexivity. Qed.
