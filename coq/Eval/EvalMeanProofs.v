(* C05 -- the binary64 running mean of finite non negative errors stays
   finite, non negative and below the greatest error (so the guard of the
   repaired sum_of_errors_impl never fires), and is strictly positive as soon
   as one visited example is wrong. *)
From Coq Require Import ZArith NArith Reals List Bool Lia Lra Psatz.
From Flocq Require Import Core.
From Flocq Require Import Sterbenz.
From Flocq Require Import IEEE754.BinarySingleNaN.
From Coq Require Import Floats.SpecFloat.
From VV Require Import Base.F64 Eval.EvalDefs Eval.EvalProofs Eval.EvalFloatProofs.
Import ListNotations.
Local Open Scope R_scope.

Definition eta : R := bpow radix2 (-1074).
Lemma eta_pos : 0 < eta.  Proof. apply bpow_gt_0. Qed.

(* ---- doubles are integer multiples of eta = 2^-1074 --------------------- *)
Lemma fmt_decomp : forall x, fmt x ->
  exists m e, x = IZR m * bpow radix2 e /\ (Z.abs m < 2 ^ 53)%Z /\ (-1074 <= e)%Z.
Proof.
  intros x H. rewrite fexp64_FLT in H. apply FLT_format_generic in H; [|reflexivity].
  destruct H as [[m e] H1 H2 H3]. exists m, e. cbn [Fnum Fexp] in *. repeat split; try assumption.
Qed.

Lemma bpow_eta : forall e, (-1074 <= e)%Z -> bpow radix2 e = IZR (2 ^ (e + 1074)) * eta.
Proof.
  intros e H. unfold eta. change 2%Z with (radix_val radix2). rewrite IZR_Zpower by lia.
  rewrite <- bpow_plus. f_equal. lia.
Qed.

Lemma fmt_multiple : forall x, fmt x -> exists k, x = IZR k * eta.
Proof.
  intros x H. destruct (fmt_decomp x H) as (m & e & E & _ & He).
  exists (m * 2 ^ (e + 1074))%Z. rewrite E, (bpow_eta e He), mult_IZR. ring.
Qed.

Lemma fmt_small_multiple : forall k, (Z.abs k < 2 ^ 53)%Z -> fmt (IZR k * eta).
Proof.
  intros k H. rewrite fexp64_FLT. apply generic_format_FLT. apply FLT_spec with (Float radix2 k (-1074)).
  - reflexivity.
  - exact H.
  - cbn. lia.
Qed.

Lemma fmt_half_or_small : forall x, fmt x -> 0 < x ->
  fmt (x / 2) \/ exists m, x = IZR m * eta /\ (0 < m < 2 ^ 53)%Z.
Proof.
  intros x H P. destruct (fmt_decomp x H) as (m & e & E & Hm & He).
  assert (Pm : (0 < m)%Z).
  { apply lt_IZR. pose proof (bpow_gt_0 radix2 e). nra. }
  destruct (Z.eq_dec e (-1074)) as [->|Ne].
  - right. exists m. split; [exact E|lia].
  - left. rewrite fexp64_FLT. apply generic_format_FLT. apply FLT_spec with (Float radix2 m (e - 1)).
    + unfold F2R. cbn [Fnum Fexp]. rewrite E.
      assert (B : bpow radix2 (e - 1) = bpow radix2 e * / 2).
      { unfold Zminus. rewrite bpow_plus. f_equal. }
      rewrite B. unfold Rdiv. ring.
    + exact Hm.
    + cbn. lia.
Qed.

Lemma IZR_eta_lt : forall a b, IZR a * eta < IZR b * eta -> (a < b)%Z.
Proof. intros a b H. apply lt_IZR. pose proof eta_pos. nra. Qed.
Lemma IZR_eta_le : forall a b, IZR a * eta <= IZR b * eta -> (a <= b)%Z.
Proof. intros a b H. apply le_IZR. pose proof eta_pos. nra. Qed.

(* the difference err - avg is a double in each of the three cases below *)
Lemma diff_format : forall avg err : R, fmt avg -> fmt err -> 0 <= avg < err ->
  avg = 0 \/ err / 2 <= avg \/ ~ fmt (err / 2) -> fmt (err - avg).
Proof.
  intros avg err Fa Fe [Pa Lt] [Z|[S|N]].
  - subst avg. rewrite Rminus_0_r. exact Fe.
  - apply sterbenz; try assumption; try exact fexp64_valid.
    + rewrite fexp64_FLT. apply FLT_exp_monotone.
    + lra.
  - destruct (fmt_half_or_small err Fe ltac:(lra)) as [H|(m & Em & Hm)]; [contradiction|].
    destruct (fmt_multiple avg Fa) as (k & Ek).
    replace (err - avg) with (IZR (m - k) * eta) by (rewrite Em, Ek, minus_IZR; ring).
    apply fmt_small_multiple.
    assert (0 <= k)%Z by (apply IZR_eta_le; rewrite <- Ek; cbn; lra).
    assert (k < m)%Z by (apply IZR_eta_lt; rewrite <- Ek, <- Em; lra).
    lia.
Qed.

Lemma fmt_dec_half : forall x, fmt (x / 2) \/ ~ fmt (x / 2).
Proof. intro x. apply Classical_Prop.classic. Qed.

(* ---- one iteration: the new average stays in [0, B] --------------------- *)
Lemma soe_step_bounded : forall (avg err n B : f64),
  fin avg -> 0 <= RV avg -> fin err -> 0 <= RV err -> fin n -> 1 <= RV n ->
  RV avg = 0 \/ 2 <= RV n ->
  RV avg <= RV B -> RV err <= RV B ->
  fin (F64.add avg (F64.div (F64.sub err avg) n)) /\
  0 <= RV (F64.add avg (F64.div (F64.sub err avg) n)) <= RV B /\
  RV (F64.add avg (F64.div (F64.sub err avg) n)) = rnd (RV avg + rnd (rnd (RV err - RV avg) / RV n)) /\
  0 <= RV avg + rnd (rnd (RV err - RV avg) / RV n) <= RV B.
Proof.
  intros avg err n B Fa Pa Fe Pe Fn Pn Hn Ba Be.
  assert (S1 : RV (F64.neg avg) <= RV err - RV avg <= RV err) by (rewrite R_neg; lra).
  destruct (sub_sq err avg (F64.neg avg) err Fe Fa S1) as [Fd Ed].
  assert (Bd : - RV avg <= RV (F64.sub err avg) <= RV err).
  { rewrite Ed. rewrite <- R_neg. apply rnd_between; try apply fmt_RV. exact S1. }
  set (d := F64.sub err avg) in *.
  assert (Nn : RV n <> 0) by lra.
  assert (Hi : 0 < / RV n <= 1).
  { split; [apply Rinv_0_lt_compat; lra|]. rewrite <- Rinv_1. apply Rinv_le_contravar; lra. }
  assert (S2 : RV (F64.neg avg) <= RV d / RV n <= RV err).
  { rewrite R_neg. unfold Rdiv. destruct Hi as [Hi1 Hi2]. destruct Bd as [Bd1 Bd2].
    destruct (Rle_lt_dec 0 (RV d)) as [Hd|Hd]; split; nra. }
  destruct (div_sq d n (F64.neg avg) err Fd Nn S2) as [Fq Eq].
  set (q := F64.div d n) in *.
  assert (Bq : - RV avg <= RV q).
  { rewrite Eq. rewrite <- R_neg. exact (proj1 (rnd_between _ _ _ (fmt_RV (F64.neg avg)) (fmt_RV err) S2)). }
  (* the upper bound *)
  assert (Uq : RV avg + RV q <= RV B).
  { destruct (Rle_lt_dec (RV err) (RV avg)) as [Le|Lt].
    - (* err <= avg: the correction is not positive *)
      assert (D0 : RV d <= 0) by (rewrite Ed, <- rnd_0; apply rnd_le; lra).
      assert (Q0 : RV q <= 0).
      { rewrite Eq, <- rnd_0. apply rnd_le. unfold Rdiv. destruct Hi. nra. }
      lra.
    - (* avg < err: the correction is at most err - avg *)
      assert (D0 : 0 <= RV d) by (rewrite Ed; apply rnd_nonneg; lra).
      assert (CaseA : fmt (RV err - RV avg) -> RV q <= RV err - RV avg).
      { intro Fx. assert (Dx : RV d = RV err - RV avg) by (rewrite Ed; apply rnd_id; exact Fx).
        rewrite Eq. rewrite <- (rnd_id _ Fx). apply rnd_le. rewrite Dx. unfold Rdiv. destruct Hi. nra. }
      assert (Qx : RV q <= RV err - RV avg).
      { destruct (fmt_dec_half (RV err)) as [Hh|Nh].
        - destruct (Rle_lt_dec (RV err / 2) (RV avg)) as [St|Far].
          + apply CaseA. apply diff_format; try apply fmt_RV; [lra|right; left; exact St].
          + destruct Hn as [Z|N2].
            * apply CaseA. rewrite Z, Rminus_0_r. apply fmt_RV.
            * assert (Q2 : RV q <= RV err / 2).
              { rewrite Eq, <- (rnd_id _ Hh). apply rnd_le.
                assert (/ RV n <= / 2) by (apply Rinv_le_contravar; lra).
                unfold Rdiv. destruct Bd. destruct Hi. nra. }
              lra.
        - apply CaseA. apply diff_format; try apply fmt_RV; [lra|right; right; exact Nh]. }
      lra. }
  assert (S3 : RV F64.zero <= RV avg + RV q <= RV B) by (rewrite R_zero; lra).
  destruct (add_sq avg q F64.zero B Fa Fq S3) as [Fr Er].
  split; [exact Fr|]. split.
  - rewrite Er. rewrite <- R_zero. apply rnd_between; try apply fmt_RV. exact S3.
  - split; [rewrite Er, Eq, Ed; reflexivity|]. rewrite <- Ed, <- Eq. rewrite R_zero in S3. exact S3.
Qed.

(* ---- the counter n ------------------------------------------------------ *)
Lemma cnt_step_val : forall x, cnt_inv x -> RV (F64.add x one) = rnd (RV x + 1).
Proof.
  intros x (F & L & U).
  assert (B : 1 <= rnd (RV x + 1) <= p53).
  { split.
    - rewrite <- (rnd_id 1) at 1 by (apply (fmt_IZR 1); reflexivity). apply rnd_le. lra.
    - rewrite <- rnd_p53_plus_1. apply rnd_le. lra. }
  pose proof (Bplus_correct 53 1024 prec_gt_0_53 prec_lt_emax_53 mode_NE x one F fin_one) as C.
  cbn [round_mode] in C. fold fexp64 in C. rewrite R_one in C. fold (rnd (RV x + 1)) in C.
  rewrite Rlt_bool_true in C.
  - destruct C as (C1 & _). exact C1.
  - pose proof p53_lt. rewrite Rabs_pos_eq; lra.
Qed.

Lemma cnt_step_two : forall x, cnt_inv x -> 1 <= RV x -> 2 <= RV (F64.add x one).
Proof.
  intros x C P. rewrite (cnt_step_val x C).
  rewrite <- (rnd_id 2) at 1 by (apply (fmt_IZR 2); reflexivity). apply rnd_le. lra.
Qed.

(* ---- the loop: every intermediate average is finite and in [0, B] ------- *)
Definition mean_inv (B : f64) (st : f64 * f64) : Prop :=
  fin (fst st) /\ 0 <= RV (fst st) <= RV B /\ cnt_inv (snd st) /\ (RV (fst st) = 0 \/ 1 <= RV (snd st)).

Definition err_ok (B : f64) (x : f64) : Prop := fin x /\ 0 <= RV x <= RV B.

Lemma mean_update_inv : forall B st err, mean_inv B st -> err_ok B err -> mean_inv B (soe_update st err).
Proof.
  intros B [avg n] err (Fa & [Pa Ba] & Cn & Hz) (Fe & Pe & Be). unfold soe_update, mean_inv. cbn [fst snd] in *.
  destruct (cnt_step n Cn) as [Cn' Pn'].
  assert (H2 : RV avg = 0 \/ 2 <= RV (F64.add n one)).
  { destruct Hz as [Z|P1]; [left; exact Z|right; apply cnt_step_two; assumption]. }
  destruct (soe_step_bounded avg err (F64.add n one) B Fa Pa Fe Pe (proj1 Cn') Pn' H2 Ba Be) as (Fr & Br & _ & _).
  split; [exact Fr|]. split; [exact Br|]. split; [exact Cn'|]. right. exact Pn'.
Qed.

Lemma mean_loop_inv : forall B errf step l skip st,
  (forall e, In e l -> err_ok B (errf e)) -> mean_inv B st -> mean_inv B (snd (soe_loop errf step skip l st)).
Proof.
  intros B errf step l. induction l as [|e r IH]; intros skip st He Hs; [exact Hs|].
  cbn [soe_loop]. destruct skip as [|k].
  - destruct (Nat.leb step (length (e :: r))); [|exact Hs].
    unfold soe_visit.
    assert (H1 : mean_inv B (soe_update st (errf e))) by (apply mean_update_inv; [exact Hs|apply He; left; reflexivity]).
    specialize (IH (Nat.pred step) _ (fun x Hx => He x (or_intror Hx)) H1).
    destruct (soe_loop errf step (Nat.pred step) r (soe_update st (errf e))) as [r' st']. exact IH.
  - specialize (IH k st (fun x Hx => He x (or_intror Hx)) Hs).
    destruct (soe_loop errf step k r st) as [r' st']. exact IH.
Qed.

Lemma mean_inv_init : forall B : f64, 0 <= RV B -> mean_inv B (F64.zero, F64.zero).
Proof.
  intros B P. unfold mean_inv. cbn [fst snd]. rewrite R_zero.
  split; [reflexivity|]. split; [lra|]. split; [exact cnt_zero|]. left. reflexivity.
Qed.

(* the running mean of finite errors in [0, B] is finite and in [0, B]; the
   guard of the repaired function does not fire and the fitness is minus it *)
Lemma running_mean_finite : forall (B : f64) errf step d,
  0 <= RV B -> (forall e, In e d -> err_ok B (errf e)) ->
  let avg := fst (snd (soe_loop errf step 0 d (F64.zero, F64.zero))) in
  fin avg /\ 0 <= RV avg <= RV B /\
  snd (sum_of_errors_impl errf step d) = [F64.neg avg].
Proof.
  intros B errf step d PB H avg.
  pose proof (mean_loop_inv B errf step d 0%nat _ H (mean_inv_init B PB)) as (Fa & Ba & _).
  fold avg in Fa, Ba. split; [exact Fa|]. split; [exact Ba|].
  unfold sum_of_errors_impl. subst avg.
  destruct (soe_loop errf step 0 d (F64.zero, F64.zero)) as [d' st]. cbn [fst snd] in *.
  unfold soe_result. rewrite Fa. reflexivity.
Qed.

(* ---- strict positivity --------------------------------------------------- *)
Lemma rnd_opp : forall r, rnd (- r) = - rnd r.
Proof. intro r. unfold rnd. rewrite fexp64_FLT. apply round_NE_opp. Qed.

Lemma fmt_eta : fmt eta.
Proof. replace eta with (IZR 1 * eta) by ring. apply fmt_small_multiple. reflexivity. Qed.

Definition eta_f : f64 := F64.of_bits 1.
Lemma eta_f_ok : fin eta_f /\ RV eta_f = eta.
Proof.
  split; [vm_compute; reflexivity|].
  rewrite <- (SF2R_B2SF 53 1024 eta_f).
  replace (B2SF eta_f) with (S754_finite false 1 (-1074)) by (vm_compute; reflexivity).
  unfold SF2R, F2R, eta. cbn [Fnum Fexp cond_Zopp]. ring.
Qed.

Lemma R_two : RV two = 2.
Proof. apply (of_Z_exact 2). reflexivity. Qed.

(* half of the smallest positive double rounds to zero (ties to even) *)
Lemma rnd_half_eta : rnd (eta / 2) = 0.
Proof.
  destruct eta_f_ok as [F E].
  assert (N : RV two <> 0) by (rewrite R_two; lra).
  pose proof (Bdiv_correct 53 1024 prec_gt_0_53 prec_lt_emax_53 mode_NE eta_f two N) as C.
  cbn [round_mode] in C. fold fexp64 in C. rewrite E, R_two in C. fold (rnd (eta / 2)) in C.
  assert (A : B2SF (F64.div eta_f two) = S754_zero false) by (vm_compute; reflexivity).
  unfold F64.div in A.
  destruct (Rlt_bool (Rabs (rnd (eta / 2))) (bpow radix2 1024)).
  - destruct C as (C1 & _). rewrite <- C1. rewrite <- (SF2R_B2SF 53 1024), A. reflexivity.
  - rewrite A in C. vm_compute in C. discriminate C.
Qed.

(* rounding half of a positive double gives something strictly smaller *)
Lemma rnd_half_lt : forall a, fmt a -> 0 < a -> rnd (a / 2) < a.
Proof.
  intros a Fa Pa. destruct (fmt_half_or_small a Fa Pa) as [H|(m & Em & Hm)].
  - rewrite (rnd_id _ H). lra.
  - destruct (Z.eq_dec m 1) as [->|N1].
    + rewrite Em. replace (IZR 1 * eta / 2) with (eta / 2) by (unfold Rdiv; ring).
      rewrite rnd_half_eta. pose proof eta_pos. lra.
    + set (r := ((m + 1) / 2)%Z).
      assert (R1 : (m <= 2 * r)%Z) by (unfold r; pose proof (Z.div_mod (m + 1) 2 ltac:(lia)); pose proof (Z.mod_pos_bound (m + 1) 2 ltac:(lia)); lia).
      assert (R2 : (r < m)%Z) by (unfold r; apply Z.div_lt_upper_bound; lia).
      assert (Fr : fmt (IZR r * eta)) by (apply fmt_small_multiple; lia).
      apply Rle_lt_trans with (IZR r * eta).
      * rewrite <- (rnd_id _ Fr). apply rnd_le. rewrite Em. apply IZR_le in R1. rewrite mult_IZR in R1.
        pose proof eta_pos. nra.
      * rewrite Em. apply IZR_lt in R2. pose proof eta_pos. nra.
Qed.

Lemma pos_multiple_ge_eta : forall x y, fmt x -> fmt y -> 0 < x + y -> eta <= x + y.
Proof.
  intros x y Fx Fy P. destruct (fmt_multiple x Fx) as (k & Ek). destruct (fmt_multiple y Fy) as (j & Ej).
  rewrite Ek, Ej in *. replace (IZR k * eta + IZR j * eta) with (IZR (k + j) * eta) in * by (rewrite plus_IZR; ring).
  assert (0 < k + j)%Z by (apply lt_IZR; pose proof eta_pos; nra).
  assert (1 <= IZR (k + j)) by (apply IZR_le; lia). pose proof eta_pos. nra.
Qed.

(* a positive average stays positive (n >= 2) *)
Lemma step_keeps_positive : forall a e n : R, fmt a -> 0 < a -> 0 <= e -> 2 <= n ->
  0 < rnd (a + rnd (rnd (e - a) / n)).
Proof.
  intros a e n Fa Pa Pe Pn.
  assert (Fna : fmt (- a)) by (apply generic_format_opp; exact Fa).
  assert (D : - a <= rnd (e - a)) by (rewrite <- (rnd_id _ Fna); apply rnd_le; lra).
  assert (Hi : 0 < / n <= / 2).
  { split; [apply Rinv_0_lt_compat; lra|apply Rinv_le_contravar; lra]. }
  assert (Q : - rnd (a / 2) <= rnd (rnd (e - a) / n)).
  { rewrite <- rnd_opp. apply rnd_le. unfold Rdiv. destruct Hi.
    destruct (Rle_lt_dec 0 (rnd (e - a))); nra. }
  pose proof (rnd_half_lt a Fa Pa) as H.
  set (q := rnd (rnd (e - a) / n)) in *.
  assert (Fq : fmt q) by (unfold q, rnd; apply generic_format_round; [exact fexp64_valid|apply valid_rnd_N]).
  assert (S : eta <= a + q) by (apply pos_multiple_ge_eta; try assumption; lra).
  apply Rlt_le_trans with eta; [exact eta_pos|]. rewrite <- (rnd_id _ fmt_eta). apply rnd_le. exact S.
Qed.

(* ---- a wrong example has an error of at least 2^-51 ---------------------- *)
Definition thr : f64 := F64.mul two dbl_eps.          (* 2.0 * epsilon *)
Lemma thr_ok : fin thr /\ RV thr = bpow radix2 (-51).
Proof.
  split; [vm_compute; reflexivity|].
  rewrite <- (SF2R_B2SF 53 1024 thr).
  replace (B2SF thr) with (S754_finite false 4503599627370496 (-103)) by (vm_compute; reflexivity).
  unfold SF2R, F2R. cbn [Fnum Fexp cond_Zopp].
  change 4503599627370496%Z with (Zpower radix2 52). rewrite IZR_Zpower by lia. rewrite <- bpow_plus. reflexivity.
Qed.

Lemma not_small_ge : forall x : f64, fin x -> 0 <= RV x -> negb (issmall x) = true -> bpow radix2 (-51) <= RV x.
Proof.
  intros x F P H. unfold issmall in H. fold thr in H. destruct thr_ok as [Ft Et].
  assert (Fa : fin (F64.abs x)) by (rewrite fin_abs; exact F).
  unfold F64.ltb, F64.cmp in H. rewrite (Bcompare_correct 53 1024 _ _ Fa Ft) in H.
  rewrite R_abs, Et, Rabs_pos_eq in H by exact P.
  destruct (Rcompare_spec (RV x) (bpow radix2 (-51))) as [L|E|G]; cbn in H; try discriminate H; lra.
Qed.

Lemma p53_bpow : p53 = bpow radix2 53.
Proof. unfold p53. change (2 ^ 53)%Z with (Zpower radix2 53). rewrite IZR_Zpower by lia. reflexivity. Qed.

Lemma step_new_positive : forall a e n : R, fmt a -> 0 <= a -> a = 0 \/ 2 <= n -> 1 <= n <= p53 ->
  fmt e -> bpow radix2 (-51) <= e -> 0 < rnd (a + rnd (rnd (e - a) / n)).
Proof.
  intros a e n Fa Pa Hn [N1 N2] Fe Te.
  destruct (Rle_lt_dec a 0) as [Z|P].
  - assert (a = 0) by lra. subst a. rewrite Rminus_0_r, Rplus_0_l, (rnd_id _ Fe).
    assert (F104 : fmt (bpow radix2 (-104))).
    { rewrite fexp64_FLT. apply generic_format_FLT_bpow; [reflexivity|lia]. }
    assert (Q : bpow radix2 (-104) <= rnd (e / n)).
    { rewrite <- (rnd_id _ F104). apply rnd_le.
      replace (-104)%Z with (-51 + - (53))%Z by lia. rewrite bpow_plus, (bpow_opp radix2 53), <- p53_bpow.
      pose proof (bpow_gt_0 radix2 (-51)).
      assert (0 < p53) by lra.
      assert (/ p53 <= / n) by (apply Rinv_le_contravar; lra).
      assert (0 < / p53) by (apply Rinv_0_lt_compat; lra).
      unfold Rdiv. nra. }
    assert (Fq : fmt (rnd (e / n))) by (unfold rnd; apply generic_format_round; [exact fexp64_valid|apply valid_rnd_N]).
    rewrite (rnd_id _ Fq). pose proof (bpow_gt_0 radix2 (-104)). lra.
  - destruct Hn as [Z|N]; [lra|]. apply step_keeps_positive; try assumption.
    pose proof (bpow_gt_0 radix2 (-51)). lra.
Qed.

(* ---- the loop (operator(): every example is visited) --------------------- *)
Lemma mean_all_inv : forall B errf l st,
  (forall e, In e l -> err_ok B (errf e)) -> mean_inv B st -> mean_inv B (snd (soe_all errf l st)).
Proof. intros B errf l st H I. rewrite <- soe_loop_step1. apply mean_loop_inv; assumption. Qed.

Lemma update_value : forall B st err, mean_inv B st -> err_ok B err ->
  RV (fst (soe_update st err)) =
  rnd (RV (fst st) + rnd (rnd (RV err - RV (fst st)) / RV (F64.add (snd st) one))) /\
  (RV (fst st) = 0 \/ 2 <= RV (F64.add (snd st) one)) /\ 1 <= RV (F64.add (snd st) one) <= p53 /\
  0 <= RV (fst st) + rnd (rnd (RV err - RV (fst st)) / RV (F64.add (snd st) one)) <= RV B.
Proof.
  intros B [avg n] err (Fa & [Pa Ba] & Cn & Hz) (Fe & Pe & Be). unfold soe_update. cbn [fst snd] in *.
  destruct (cnt_step n Cn) as [Cn' Pn'].
  assert (H2 : RV avg = 0 \/ 2 <= RV (F64.add n one)).
  { destruct Hz as [Z|P1]; [left; exact Z|right; apply cnt_step_two; assumption]. }
  destruct (soe_step_bounded avg err (F64.add n one) B Fa Pa Fe Pe (proj1 Cn') Pn' H2 Ba Be) as (_ & _ & V & W).
  split; [exact V|]. split; [exact H2|]. split; [split; [exact Pn'|exact (proj2 (proj2 Cn'))]|exact W].
Qed.

Lemma pos_all : forall B errf l st,
  (forall e, In e l -> err_ok B (errf e)) -> mean_inv B st ->
  0 < RV (fst st) \/ (exists e, In e l /\ negb (issmall (errf e)) = true) ->
  0 < RV (fst (snd (soe_all errf l st))).
Proof.
  intros B errf l. induction l as [|e r IH]; intros st He Hs Hp.
  - cbn [soe_all snd]. destruct Hp as [P|(x & [] & _)]. exact P.
  - cbn [soe_all]. unfold soe_visit.
    assert (Oe : err_ok B (errf e)) by (apply He; left; reflexivity).
    pose proof (mean_update_inv B st (errf e) Hs Oe) as H1.
    destruct (update_value B st (errf e) Hs Oe) as (V & H2 & Nb & _).
    specialize (IH (soe_update st (errf e)) (fun x Hx => He x (or_intror Hx)) H1).
    destruct (soe_all errf r (soe_update st (errf e))) as [r' st'] eqn:E. cbn [snd fst] in *.
    apply IH. clear IH.
    destruct Hs as (Fa & [Pa Ba] & Cn & Hz). destruct Oe as (Fe & Pe & Be).
    destruct Hp as [P|(x & [<-|Hx] & W)].
    + left. rewrite V. apply step_keeps_positive; try assumption; [apply fmt_RV|].
      destruct H2 as [Z|N2]; [lra|exact N2].
    + left. rewrite V. apply step_new_positive; try assumption; try apply fmt_RV.
      apply not_small_ge; assumption.
    + right. exists x. split; assumption.
Qed.

Lemma wrong_gives_negative : forall (B : f64) errf d,
  0 <= RV B -> (forall e, In e d -> err_ok B (errf e)) ->
  (exists e, In e d /\ negb (issmall (errf e)) = true) ->
  exists v, snd (soe_eval errf d) = [v] /\ fin v /\ RV v < 0.
Proof.
  intros B errf d PB H W.
  destruct (running_mean_finite B errf 1 d PB H) as (Fa & Ba & E).
  pose proof (pos_all B errf d _ H (mean_inv_init B PB) (or_intror W)) as P.
  rewrite <- soe_loop_step1 in P.
  unfold soe_eval. rewrite E. eexists. split; [reflexivity|]. rewrite fin_neg, R_neg. split; [exact Fa|lra].
Qed.

(* ---- every finite double is at most DBL_MAX ------------------------------ *)
Lemma R_dbl_max : RV dbl_max = bpow radix2 1024 - bpow radix2 971.
Proof.
  rewrite <- (SF2R_B2SF 53 1024 dbl_max).
  replace (B2SF dbl_max) with (S754_finite false 9007199254740991 971) by (vm_compute; reflexivity).
  unfold SF2R, F2R. cbn [Fnum Fexp cond_Zopp].
  change 9007199254740991%Z with (Zpower radix2 53 - 1)%Z. rewrite minus_IZR, IZR_Zpower by lia.
  replace 1024%Z with (53 + 971)%Z by lia. rewrite bpow_plus. ring.
Qed.

Lemma le_dbl_max : forall x : f64, RV x <= RV dbl_max.
Proof.
  intro x. rewrite R_dbl_max. pose proof (abs_B2R_le_emax_minus_prec 53 1024 prec_gt_0_53 x) as H.
  change (1024 - 53)%Z with 971%Z in H. pose proof (Rle_abs (RV x)). lra.
Qed.

Lemma running_mean_finite_all : forall errf step d,
  (forall e, In e d -> fin (errf e) /\ 0 <= RV (errf e)) ->
  let avg := fst (snd (soe_loop errf step 0 d (F64.zero, F64.zero))) in
  fin avg /\ 0 <= RV avg /\ snd (sum_of_errors_impl errf step d) = [F64.neg avg].
Proof.
  intros errf step d H avg.
  assert (PB : 0 <= RV dbl_max) by (apply nn_fin; [exact fin_dbl_max|exact nn_dbl_max]).
  destruct (running_mean_finite dbl_max errf step d PB) as (F & [P _] & E).
  - intros e He. destruct (H e He) as [Fe Pe]. split; [exact Fe|]. split; [exact Pe|apply le_dbl_max].
  - split; [exact F|]. split; [exact P|exact E].
Qed.

(* ======================= round 4: the lower half and a coarse accuracy ===== *)
(* one iteration never goes below the smaller of the average and the error *)
Lemma step_lower_real : forall a e n lo : R, fmt a -> fmt e -> fmt lo -> 0 <= a -> 0 <= e -> 2 <= n ->
  lo <= a -> lo <= e -> lo <= rnd (a + rnd (rnd (e - a) / n)).
Proof.
  intros a e n lo Fa Fe Fl Pa Pe Pn La Le.
  rewrite <- (rnd_id _ Fl). apply rnd_le.
  assert (Hi : 0 < / n <= / 2).
  { split; [apply Rinv_0_lt_compat; lra|apply Rinv_le_contravar; lra]. }
  destruct (Rle_lt_dec a e) as [Ge|Lt].
  - assert (D0 : 0 <= rnd (e - a)) by (apply rnd_nonneg; lra).
    assert (Q0 : 0 <= rnd (rnd (e - a) / n)).
    { apply rnd_nonneg. unfold Rdiv. destruct Hi. nra. }
    lra.
  - set (x := a - e).
    assert (Px : 0 < x) by (unfold x; lra).
    replace (e - a) with (- x) by (unfold x; ring). rewrite rnd_opp.
    replace (- rnd x / n) with (- (rnd x / n)) by (unfold Rdiv; ring). rewrite rnd_opp.
    assert (Dx : 0 <= rnd x) by (apply rnd_nonneg; lra).
    assert (Q : rnd (rnd x / n) <= x).
    { assert (CaseA : fmt x -> rnd (rnd x / n) <= x).
      { intro Fx. rewrite (rnd_id _ Fx). rewrite <- (rnd_id _ Fx) at 2. apply rnd_le. unfold Rdiv. destruct Hi. nra. }
      destruct (fmt_dec_half a) as [Hh|Nh].
      - destruct (Rle_lt_dec (a / 2) e) as [St|Far].
        + apply CaseA. unfold x. apply diff_format; try assumption; [lra|right; left; exact St].
        + assert (Q2 : rnd (rnd x / n) <= a / 2).
          { rewrite <- (rnd_id _ Hh). apply rnd_le.
            assert (rnd x <= a) by (rewrite <- (rnd_id _ Fa); apply rnd_le; unfold x; lra).
            unfold Rdiv. destruct Hi. nra. }
          assert (a / 2 < x) by (unfold x; lra). lra.
      - apply CaseA. unfold x. apply diff_format; try assumption; [lra|right; right; exact Nh]. }
    unfold x in *. lra.
Qed.

Definition inv2 (A B : f64) (st : f64 * f64) : Prop :=
  mean_inv B st /\ 1 <= RV (snd st) /\ RV A <= RV (fst st).

Definition err_ok2 (A B : f64) (x : f64) : Prop := fin x /\ RV A <= RV x <= RV B.

Lemma err_ok2_ok : forall A B x, 0 <= RV A -> err_ok2 A B x -> err_ok B x.
Proof. intros A B x PA (F & L & U). split; [exact F|]. split; lra. Qed.

Lemma inv2_update : forall A B st err, 0 <= RV A -> inv2 A B st -> err_ok2 A B err -> inv2 A B (soe_update st err).
Proof.
  intros A B st err PA (M & N1 & LA) O. pose proof (err_ok2_ok A B err PA O) as O1.
  pose proof (mean_update_inv B st err M O1) as M'.
  destruct (update_value B st err M O1) as (V & H2 & Nb & _).
  split; [exact M'|]. split; [unfold soe_update; cbn [snd]; exact (proj1 Nb)|].
  rewrite V. destruct M as (Fa & [Pa Ba] & Cn & Hz). destruct O as (Fe & Le & Ue).
  apply step_lower_real; try apply fmt_RV; try lra.
  apply cnt_step_two; assumption.
Qed.

Lemma inv2_first : forall A B err, 0 <= RV A -> RV A <= RV B -> err_ok2 A B err -> inv2 A B (soe_update (F64.zero, F64.zero) err).
Proof.
  intros A B err PA AB O. pose proof (err_ok2_ok A B err PA O) as O1.
  assert (PB : 0 <= RV B) by lra.
  pose proof (mean_update_inv B _ err (mean_inv_init B PB) O1) as M'.
  destruct O as (Fe & Le & Ue). destruct (soe_first_step err Fe ltac:(lra)) as [F1 E1].
  split; [exact M'|]. split.
  - unfold soe_update. cbn [snd]. exact (proj2 (cnt_step F64.zero cnt_zero)).
  - rewrite E1. exact Le.
Qed.

Lemma inv2_loop : forall A B errf step l skip st, 0 <= RV A ->
  (forall e, In e l -> err_ok2 A B (errf e)) -> inv2 A B st -> inv2 A B (snd (soe_loop errf step skip l st)).
Proof.
  intros A B errf step l skip st PA. revert skip st. induction l as [|e r IH]; intros skip st He Hs; [exact Hs|].
  cbn [soe_loop]. destruct skip as [|k].
  - destruct (Nat.leb step (length (e :: r))); [|exact Hs].
    unfold soe_visit.
    assert (H1 : inv2 A B (soe_update st (errf e))) by (apply inv2_update; [exact PA|exact Hs|apply He; left; reflexivity]).
    specialize (IH (Nat.pred step) _ (fun x Hx => He x (or_intror Hx)) H1).
    destruct (soe_loop errf step (Nat.pred step) r (soe_update st (errf e))) as [r' st']. exact IH.
  - specialize (IH k st (fun x Hx => He x (or_intror Hx)) Hs).
    destruct (soe_loop errf step k r st) as [r' st']. exact IH.
Qed.

(* operator() on a non empty dataset: min error <= every average <= max error *)
Lemma running_mean_two_sided : forall (A B : f64) errf d,
  d <> [] -> 0 <= RV A -> (forall e, In e d -> err_ok2 A B (errf e)) ->
  let avg := fst (snd (soe_loop errf 1 0 d (F64.zero, F64.zero))) in
  fin avg /\ RV A <= RV avg <= RV B /\ snd (soe_eval errf d) = [F64.neg avg].
Proof.
  intros A B errf d Hne PA H avg.
  destruct d as [|e r]; [contradiction|].
  assert (Oe : err_ok2 A B (errf e)) by (apply H; left; reflexivity).
  assert (AB : RV A <= RV B) by (destruct Oe as (_ & L & U); lra).
  assert (PB : 0 <= RV B) by lra.
  assert (I : inv2 A B (snd (soe_loop errf 1 0 (e :: r) (F64.zero, F64.zero)))).
  { cbn [soe_loop length Nat.leb Nat.pred]. unfold soe_visit.
    pose proof (inv2_loop A B errf 1 r 0%nat _ PA (fun x Hx => H x (or_intror Hx)) (inv2_first A B (errf e) PA AB Oe)) as J.
    destruct (soe_loop errf 1 0 r (soe_update (F64.zero, F64.zero) (errf e))) as [r' st']. exact J. }
  destruct (running_mean_finite B errf 1 (e :: r) PB (fun x Hx => err_ok2_ok A B _ PA (H x Hx))) as (Fa & Ba & E).
  fold avg in Fa, Ba. destruct I as (_ & _ & LA). fold avg in LA.
  split; [exact Fa|]. split; [lra|exact E].
Qed.

(* ---- coarse accuracy: the exact mean of the same errors lies in the same
        interval, so the binary64 running mean is within (max - min) of it ---- *)
Definition Rsum (l : list R) : R := fold_right Rplus 0 l.
Definition Rmean (l : list R) : R := Rsum l / INR (length l).

Lemma Rsum_bounds : forall lo hi l, (forall x, In x l -> lo <= x <= hi) ->
  lo * INR (length l) <= Rsum l <= hi * INR (length l).
Proof.
  intros lo hi l. induction l as [|x xs IH]; intro H.
  - cbn. lra.
  - cbn [Rsum fold_right length]. rewrite S_INR. fold (Rsum xs).
    specialize (IH (fun y Hy => H y (or_intror Hy))). specialize (H x (or_introl eq_refl)). lra.
Qed.

Lemma Rmean_bounds : forall lo hi l, l <> [] -> (forall x, In x l -> lo <= x <= hi) -> lo <= Rmean l <= hi.
Proof.
  intros lo hi l Hne H. pose proof (Rsum_bounds lo hi l H) as [L U]. unfold Rmean.
  assert (P : 0 < INR (length l)) by (apply lt_0_INR; destruct l; [contradiction|cbn; lia]).
  split.
  - apply Rmult_le_reg_r with (INR (length l)); [exact P|]. unfold Rdiv. rewrite Rmult_assoc, Rinv_l by lra. lra.
  - apply Rmult_le_reg_r with (INR (length l)); [exact P|]. unfold Rdiv. rewrite Rmult_assoc, Rinv_l by lra. lra.
Qed.

Lemma running_mean_accuracy_coarse : forall (A B : f64) errf d,
  d <> [] -> 0 <= RV A -> (forall e, In e d -> err_ok2 A B (errf e)) ->
  let avg := fst (snd (soe_loop errf 1 0 d (F64.zero, F64.zero))) in
  Rabs (RV avg - Rmean (map (fun e => RV (errf e)) d)) <= RV B - RV A.
Proof.
  intros A B errf d Hne PA H avg.
  destruct (running_mean_two_sided A B errf d Hne PA H) as (_ & Bd & _). fold avg in Bd.
  assert (M : RV A <= Rmean (map (fun e => RV (errf e)) d) <= RV B).
  { apply Rmean_bounds.
    - destruct d; [contradiction|discriminate].
    - intros x Hx. apply in_map_iff in Hx. destruct Hx as (e & <- & He). destruct (H e He) as (_ & L & U). lra. }
  apply Rabs_le. lra.
Qed.

(* ======================= accuracy: distance to the exact mean ============== *)
From Flocq Require Import Relative.

Definition u53 : R := / 2 * bpow radix2 (-53 + 1).      (* 2^-53 *)
Definition heta : R := / 2 * bpow radix2 (-1074).        (* 2^-1075 *)

Lemma rnd_err : forall t, Rabs (rnd t - t) <= u53 * Rabs t + heta.
Proof.
  intro t. destruct (error_N_FLT radix2 (-1074) 53 ltac:(lia) (fun x => negb (Z.even x)) t) as (eps & et & He & Ht & _ & E).
  assert (E' : rnd t = t * (1 + eps) + et) by exact E. rewrite E'.
  replace (t * (1 + eps) + et - t) with (t * eps + et) by ring.
  eapply Rle_trans; [apply Rabs_triang|]. rewrite Rabs_mult.
  assert (He' : Rabs eps <= u53) by exact He. assert (Ht' : Rabs et <= heta) by exact Ht.
  pose proof (Rabs_pos t). pose proof (Rabs_pos eps). nra.
Qed.

(* the local error of one iteration *)
Lemma step_err : forall a e n B : R, fmt B -> 0 <= a <= B -> 0 <= e <= B -> 1 <= n ->
  0 <= a + rnd (rnd (e - a) / n) <= B ->
  Rabs (rnd (a + rnd (rnd (e - a) / n)) - (a + (e - a) / n)) <= 3 * (u53 * B + heta).
Proof.
  intros a e n B FB Ha He Hn Hq.
  assert (FnB : fmt (- B)) by (apply generic_format_opp; exact FB).
  assert (U : 0 <= u53) by (unfold u53; pose proof (bpow_gt_0 radix2 (-53 + 1)); lra).
  set (t1 := e - a). set (d := rnd t1). set (t2 := d / n). set (q := rnd t2). set (t3 := a + q).
  assert (A1 : Rabs t1 <= B) by (unfold t1; apply Rabs_le; lra).
  assert (Bd : - B <= d <= B).
  { unfold d. apply rnd_between; try assumption. apply Rabs_le_inv in A1. exact A1. }
  assert (Hi : 0 < / n <= 1).
  { split; [apply Rinv_0_lt_compat; lra|]. rewrite <- Rinv_1. apply Rinv_le_contravar; lra. }
  assert (A2 : Rabs t2 <= B).
  { unfold t2, Rdiv. apply Rabs_le. destruct Hi. destruct Bd. split; nra. }
  assert (A3 : Rabs t3 <= B) by (unfold t3, q, t2, d, t1; apply Rabs_le; lra).
  pose proof (rnd_err t1) as E1. pose proof (rnd_err t2) as E2. pose proof (rnd_err t3) as E3.
  fold d in E1. fold q in E2.
  assert (C1 : Rabs (d - t1) <= u53 * B + heta) by nra.
  assert (C2 : Rabs (q - t2) <= u53 * B + heta) by nra.
  assert (C3 : Rabs (rnd t3 - t3) <= u53 * B + heta) by nra.
  apply Rabs_le_inv in C1. apply Rabs_le_inv in C2. apply Rabs_le_inv in C3.
  replace (rnd t3 - (a + t1 / n)) with ((rnd t3 - t3) + (q - t2) + (d - t1) * / n) by (unfold t3, t2, Rdiv; ring).
  apply Rabs_le. destruct Hi. destruct C1, C2, C3. split; nra.
Qed.

Definition theta (B : f64) : R := 3 * (u53 * RV B + heta).

Definition acc_inv (B : f64) (k : Z) (S : R) (st : f64 * f64) : Prop :=
  mean_inv B st /\ RV (snd st) = IZR k /\ (0 <= k)%Z /\
  Rabs (IZR k * RV (fst st) - S) <= theta B * (IZR k * (IZR k + 1) / 2).

Lemma acc_update : forall B k S st err, acc_inv B k S st -> err_ok B err -> (k + 1 < 2 ^ 53)%Z ->
  acc_inv B (k + 1) (S + RV err) (soe_update st err).
Proof.
  intros B k S st err (M & Nk & K0 & A) O K1.
  pose proof (mean_update_inv B st err M O) as M'.
  destruct (update_value B st err M O) as (V & _ & _ & W).
  assert (Cn : cnt_inv (snd st)) by (destruct M as (_ & _ & C & _); exact C).
  assert (Nk' : RV (F64.add (snd st) one) = IZR (k + 1)).
  { rewrite (cnt_step_val _ Cn), Nk, <- plus_IZR. apply rnd_id. apply fmt_IZR. lia. }
  split; [exact M'|]. split; [unfold soe_update; cbn [snd]; exact Nk'|]. split; [lia|].
  rewrite V. rewrite Nk' in *.
  destruct M as (Fa & [Pa Ba] & _ & _). destruct O as (Fe & Pe & Be).
  assert (N1 : 1 <= IZR (k + 1)) by (apply IZR_le; lia).
  pose proof (step_err (RV (fst st)) (RV err) (IZR (k + 1)) (RV B) (fmt_RV B) ltac:(lra) ltac:(lra) N1 W) as SE.
  set (a' := rnd (RV (fst st) + rnd (rnd (RV err - RV (fst st)) / IZR (k + 1)))) in *.
  set (a := RV (fst st)) in *. set (e := RV err) in *.
  rewrite plus_IZR in *. set (kk := IZR k) in *.
  assert (K : 0 <= kk) by (unfold kk; apply IZR_le; exact K0).
  fold (theta B) in SE.
  assert (T0 : 0 <= theta B).
  { unfold theta, u53, heta. pose proof (bpow_gt_0 radix2 (-53 + 1)). pose proof (bpow_gt_0 radix2 (-1074)). nra. }
  replace ((kk + 1) * a' - (S + e)) with ((kk + 1) * (a' - (a + (e - a) / (kk + 1))) + (kk * a - S)) by (field; lra).
  apply Rabs_le_inv in SE. apply Rabs_le_inv in A. apply Rabs_le. destruct SE, A. split; nra.
Qed.

Lemma acc_all : forall B errf l k S st, acc_inv B k S st ->
  (forall e, In e l -> err_ok B (errf e)) -> (k + Z.of_nat (length l) < 2 ^ 53)%Z ->
  acc_inv B (k + Z.of_nat (length l)) (S + Rsum (map (fun e => RV (errf e)) l)) (snd (soe_all errf l st)).
Proof.
  intros B errf l. induction l as [|e r IH]; intros k S st I H L.
  - cbn [soe_all snd length map Rsum fold_right]. rewrite Z.add_0_r, Rplus_0_r. exact I.
  - cbn [soe_all]. unfold soe_visit. cbn [length] in L. rewrite Nat2Z.inj_succ in L.
    pose proof (acc_update B k S st (errf e) I (H e (or_introl eq_refl)) ltac:(lia)) as I1.
    specialize (IH (k + 1)%Z (S + RV (errf e)) _ I1 (fun x Hx => H x (or_intror Hx)) ltac:(lia)).
    destruct (soe_all errf r (soe_update st (errf e))) as [r' st']. cbn [snd] in *.
    cbn [length map Rsum fold_right]. fold (Rsum (map (fun e0 => RV (errf e0)) r)).
    rewrite Nat2Z.inj_succ.
    replace (k + Z.succ (Z.of_nat (length r)))%Z with (k + 1 + Z.of_nat (length r))%Z by lia.
    replace (S + (RV (errf e) + Rsum (map (fun e0 => RV (errf e0)) r))) with (S + RV (errf e) + Rsum (map (fun e0 => RV (errf e0)) r)) by ring.
    exact IH.
Qed.

(* |running mean - exact mean| <= (n + 1) / 2 * 3 * (2^-53 * B + 2^-1075) *)
Lemma running_mean_accuracy : forall (B : f64) errf d,
  d <> [] -> 0 <= RV B -> (forall e, In e d -> err_ok B (errf e)) -> (Z.of_nat (length d) < 2 ^ 53)%Z ->
  let avg := fst (snd (soe_loop errf 1 0 d (F64.zero, F64.zero))) in
  Rabs (RV avg - Rmean (map (fun e => RV (errf e)) d)) <=
  (INR (length d) + 1) / 2 * (3 * (u53 * RV B + heta)).
Proof.
  intros B errf d Hne PB H L avg. unfold avg. rewrite soe_loop_step1.
  assert (I0 : acc_inv B 0 0 (F64.zero, F64.zero)).
  { split; [apply mean_inv_init; exact PB|]. split; [reflexivity|]. split; [lia|].
    cbn [fst]. rewrite R_zero. replace (0 * 0 - 0) with 0 by ring. rewrite Rabs_R0. lra. }
  pose proof (acc_all B errf d 0%Z 0 _ I0 H ltac:(lia)) as (_ & _ & _ & A).
  rewrite Z.add_0_l, Rplus_0_l in A. rewrite <- INR_IZR_INZ in A.
  set (a := RV (fst (snd (soe_all errf d (F64.zero, F64.zero))))) in *.
  set (Sx := Rsum (map (fun e => RV (errf e)) d)) in *.
  unfold Rmean. fold Sx. rewrite map_length.
  set (n := INR (length d)) in *.
  assert (P : 0 < n) by (unfold n; apply lt_0_INR; destruct d; [contradiction|cbn; lia]).
  fold (theta B) in *.
  replace (a - Sx / n) with ((n * a - Sx) * / n) by (field; lra).
  rewrite Rabs_mult, (Rabs_pos_eq (/ n)) by (apply Rlt_le, Rinv_0_lt_compat; exact P).
  apply Rmult_le_reg_r with n; [exact P|]. rewrite Rmult_assoc, Rinv_l, Rmult_1_r by lra.
  eapply Rle_trans; [exact A|]. unfold theta. right. field.
Qed.
