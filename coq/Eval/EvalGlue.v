(* C05 -- lemmas stated exactly as the theorems of Props/Properties_C05.v whose
   proofs need a few steps of glue (the Props file only contains `exact`). *)
From Coq Require Import ZArith NArith QArith Reals List Bool Lia.
From Flocq Require Import IEEE754.BinarySingleNaN.
From VV Require Import Lambda.LambdaDefs Lambda.LambdaFloat.
From VV Require Import Base.F64 Eval.EvalDefs Eval.EvalProofs Eval.EvalExactProofs Eval.EvalFloatProofs Eval.EvalMeanProofs
  Eval.EvalClassDefs Eval.EvalClassProofs.
Import ListNotations.
Local Open Scope Z_scope.

Lemma P_difficulty_frame_any_step : forall (errf : example -> f64) (step : nat) (d : list example),
  Forall2 (fun e e' => e' = e \/ (negb (issmall (errf e)) = true /\ e' = bump e))
          d (fst (sum_of_errors_impl errf step d)).
Proof.
  intros errf step d. unfold sum_of_errors_impl.
  pose proof (soe_loop_frame errf step d 0%nat (F64.zero, F64.zero)) as H.
  destruct (soe_loop errf step 0 d (F64.zero, F64.zero)). exact H.
Qed.

Lemma P_difficulty_frame_classification : forall tag (d : list example),
  fst (dyn_slot_eval tag d) = frame_cls (cls_wrong tag) d /\
  (forall f, snd (dyn_slot_eval tag d) = Some f ->
     fst (dyn_slot_eval tag d) = map (fun e => if cls_wrong tag e then bump e else e) d).
Proof.
  intros tag d. split; [apply count_eval_fst|]. intros f H. unfold dyn_slot_eval. rewrite count_eval_fst.
  apply frame_cls_labelled. unfold dyn_slot_eval, count_eval in H.
  destruct (count_loop tag d F64.zero) as [x [err|]] eqn:E; [|discriminate H].
  apply (count_loop_done_labelled tag d F64.zero err). rewrite E. reflexivity.
Qed.

Lemma P_difficulty_frame_gaussian : forall tag classes (d : list example),
  fst (gaussian_eval tag classes d) = frame_cls (cls_wrong tag) d /\
  (forall f, snd (gaussian_eval tag classes d) = Some f ->
     fst (gaussian_eval tag classes d) = map (fun e => if cls_wrong tag e then bump e else e) d).
Proof.
  intros tag classes d. split; [apply gaussian_eval_fst|]. intros f H. rewrite gaussian_eval_fst.
  apply frame_cls_labelled. unfold gaussian_eval in H.
  destruct (gaussian_loop tag (gaussian_scale classes) d F64.zero) as [x [v|]] eqn:E; [|discriminate H].
  apply (gaussian_loop_done_labelled tag (gaussian_scale classes) d F64.zero v). rewrite E. reflexivity.
Qed.

Lemma P_classification_total : forall tag d, Forall (fun e => label e <> None) d ->
  exists f, snd (dyn_slot_eval tag d) = Some f.
Proof.
  intros tag d H. unfold dyn_slot_eval, count_eval.
  destruct (count_loop_total tag d F64.zero H) as [v Hv].
  destruct (count_loop tag d F64.zero) as [x y]. cbn [snd] in *. rewrite Hv. eexists; reflexivity.
Qed.

Lemma P_undefined_output_gets_penalty : forall out e, out (ex_in e) = PVoid ->
  mae_err out e = F64.div dbl_max hundred /\ mse_err out e = F64.div dbl_max hundred /\
  rmae_err out e = two_hundred /\ count_err out e = one.
Proof.
  intros out e H. repeat split;
  [exact (undefined_mae out e H)|exact (undefined_mse out e H)|exact (undefined_rmae out e H)|exact (undefined_count out e H)].
Qed.

Lemma P_error_evaluators_never_nan_never_positive :
  forall (out : list pout -> pout) (step : nat) (d : list example) (errf : example -> f64),
  errf = mae_err out \/ errf = mse_err out \/ errf = rmae_err out \/ errf = count_err out ->
  exists v, snd (sum_of_errors_impl errf step d) = [v] /\
            F64.is_finite v = true /\ F64.is_nan v = false /\ (B2R v <= 0)%R.
Proof.
  intros out step d errf H.
  destruct (sum_of_errors_sign errf step d) as (v & E & F & P).
  - intros e _. destruct H as [ -> | [ -> | [ -> | -> ] ] ]; [apply nn_mae|apply nn_mse|apply nn_rmae|apply nn_count].
  - exists v. repeat split; try assumption. destruct v; try discriminate F; reflexivity.
Qed.

Lemma P_sum_of_errors_never_nan_never_positive :
  forall (errf : example -> f64) (step : nat) (d : list example),
  (forall e, In e d -> F64.ltb (errf e) F64.zero = false) ->
  exists v, snd (sum_of_errors_impl errf step d) = [v] /\ F64.is_finite v = true /\ (B2R v <= 0)%R.
Proof.
  intros errf step d H. apply sum_of_errors_sign. intros e He. specialize (H e He).
  destruct (errf e) as [s|s| |s m ex pf]; cbn; auto; destruct s; try reflexivity; discriminate H.
Qed.

Lemma P_all_reproduced_gives_zero :
  forall (out : list pout -> pout) (step : nat) (d : list example) (errf : example -> f64),
  errf = mae_err out \/ errf = mse_err out \/ errf = rmae_err out \/ errf = count_err out ->
  (forall e, In e d ->
     p_has_value (out (ex_in e)) = true /\ lex_double (out (ex_in e)) = target e /\ F64.is_finite (target e) = true) ->
  snd (sum_of_errors_impl errf step d) = [F64.neg F64.zero].
Proof.
  intros out step d errf H R. apply all_reproduced_gives_zero. intros e He.
  destruct (reproduced_errors_zero out e (R e He)) as (E1 & E2 & E3 & E4).
  destruct H as [ -> | [ -> | [ -> | -> ] ] ]; assumption.
Qed.

Lemma P_binary_is_minus_mismatches : forall out (d d' : list example) (f : fitness),
  binary_eval out d = (d', Some f) -> (Z.of_nat (length d) < 2 ^ 53)%Z ->
  exists v, f = [v] /\ F64.is_finite v = true /\
            B2R v = (- IZR (Z.of_nat (length (filter (cls_wrong (EvalDefs.binary_tag out)) d))))%R.
Proof. intros out. exact (count_is_minus_mismatches (EvalDefs.binary_tag out)). Qed.

Lemma P_running_mean_never_negative : forall (errf : example -> f64) (step : nat) (d : list example),
  (forall e, In e d -> nn (errf e)) ->
  nn (fst (snd (soe_loop errf step 0 d (F64.zero, F64.zero)))).
Proof.
  intros errf step d H. exact (proj1 (soe_loop_inv errf step d 0%nat _ H soe_inv_init)).
Qed.

(* ---- round 4: lexical_cast alternatives and the exception path ---------- *)
Lemma P_lexical_cast_alternatives : forall (d : f64) (z : Z) (s : list Z) (v : f64) (p : pout),
  lex_double (PDouble d) = d /\ lex_double (PInt z) = F64.of_Z z /\
  lex_double (PString s (Some v)) = v /\ lex_double PVoid = F64.zero /\
  (lex_throws p = true <-> exists s', p = PString s' None).
Proof.
  intros d z s v p. repeat split; try reflexivity.
  - intro H. destruct p as [| | |s' [w|]]; try discriminate H. exists s'. reflexivity.
  - intros [s' ->]. reflexivity.
Qed.

Lemma P_no_exception_same_as_total : forall throws errf step d,
  (forall e, In e d -> throws e = false) ->
  sum_of_errors_impl_x throws errf step d =
  (fst (sum_of_errors_impl errf step d), Some (snd (sum_of_errors_impl errf step d))).
Proof.
  intros throws errf step d H. unfold sum_of_errors_impl_x, sum_of_errors_impl.
  rewrite (soe_loop_x_no_throw throws errf step d 0%nat _ H).
  destruct (soe_loop errf step 0 d (F64.zero, F64.zero)) as [d' st]. reflexivity.
Qed.

Lemma P_exception_frame : forall throws errf d,
  fst (sum_of_errors_impl_x throws errf 1 d) = frame_x throws (fun e => negb (issmall (errf e))) d /\
  (snd (sum_of_errors_impl_x throws errf 1 d) = None <-> existsb throws d = true).
Proof.
  intros throws errf d. unfold sum_of_errors_impl_x.
  destruct (soe_loop_x_step1 throws errf d (F64.zero, F64.zero)) as [A B].
  destruct (soe_loop_x throws errf 1 0 d (F64.zero, F64.zero)) as [d' [st|]]; cbn [fst snd] in *.
  - split; [exact A|]. split; [discriminate|]. intro E. apply B in E. discriminate E.
  - split; [exact A|]. split; [intros _; apply B; reflexivity|reflexivity].
Qed.

Lemma P_exception_frame_any_step : forall throws errf step d,
  Forall2 (fun e e' => e' = e \/ (negb (issmall (errf e)) = true /\ e' = bump e))
          d (fst (sum_of_errors_impl_x throws errf step d)) /\
  (snd (sum_of_errors_impl_x throws errf step d) = None -> exists e, In e d /\ throws e = true).
Proof.
  intros throws errf step d. unfold sum_of_errors_impl_x.
  pose proof (soe_loop_x_frame throws errf step d 0%nat (F64.zero, F64.zero)) as F.
  pose proof (soe_loop_x_throw_witness throws errf step d 0%nat (F64.zero, F64.zero)) as W.
  destruct (soe_loop_x throws errf step 0 d (F64.zero, F64.zero)) as [d' [st|]]; cbn [fst snd] in *.
  - split; [exact F|discriminate].
  - split; [exact F|]. intros _. apply W. reflexivity.
Qed.

(* ---- test_evaluator<T>, type `distinct`: time invariant ------------------- *)
Lemma find_index_app_none : forall (prog : Type) (eqb : prog -> prog -> bool) buf p i,
  find_index prog eqb buf p i = None -> eqb p p = true ->
  find_index prog eqb (buf ++ [p]) p i = Some (i + Z.of_nat (length buf)).
Proof.
  intros prog eqb buf p. induction buf as [|x r IH]; intros i H R; cbn [find_index app length] in *.
  - rewrite R. f_equal. cbn. lia.
  - destruct (eqb x p); [discriminate H|]. rewrite (IH (i + 1) H R). f_equal. rewrite Nat2Z.inj_succ. lia.
Qed.

Lemma P_test_distinct_time_invariant : forall (prog : Type) (eqb : prog -> prog -> bool) buf p,
  eqb p p = true ->
  test_distinct prog eqb (fst (test_distinct prog eqb buf p)) p =
  (fst (test_distinct prog eqb buf p), snd (test_distinct prog eqb buf p)).
Proof.
  intros prog eqb buf p R. unfold test_distinct at 2 3 4.
  destruct (find_index prog eqb buf p 0) as [i|] eqn:F; cbn [fst snd].
  - unfold test_distinct. rewrite F. reflexivity.
  - unfold test_distinct. rewrite (find_index_app_none prog eqb buf p 0 F R). rewrite Z.add_0_l. reflexivity.
Qed.
