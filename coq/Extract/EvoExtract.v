(* Extraction of the C06 event model and its boolean oracles: ExtrOcamlBasic
   only; Z / nat / positive stay Coq datatypes; no Extract Constant. *)
From Coq Require Import ZArith List.
From Coq Require Import ExtrOcamlBasic.
From VV Require Import Evo.EvoDefs Evo.TuneDefs.
Extraction "evo_model.ml" ring ring_draw_ok step_ok run init_state parents_of select
  inv_b layer_bound_b layers_nonempty_b size_constant_b summary_b best_monotone_b keeps_max_b
  tournament_parents_b alps_parents_b parents_exist_b sorted_desc_b in_zone_b fits_of
  after_generation_alps std_stop_condition is_alps is_de
  tune tune_rec is_valid filled kept sizes_ok all_defined ranges_ok strategy_needs_ok typeid_repaired typeid_pinned user_wf.
