(* Extraction of the language-export model (C19): ExtrOcamlBasic only, Z / nat
   stay the extracted datatypes, no Extract Constant. *)
From Coq Require Import ZArith List.
From Coq Require Import ExtrOcamlBasic.
From VV Require Import Base.F64 Base.Values Interp.Strategy Mep.Genome
  Lang.LangBase Gen.Templates Lang.LangDefs Lang.SynDefs.
Extraction "lang_model.ml" language language_tree render_tree classes_all good_tree active_tree
  inst segs_of sym_text tmpl_okb F64.of_bits F64.to_bits
  lex parse read ast tree_ok strip_paren toks_of gram_of table_ok.
