(* Extraction of the vector-individual model (C17): ExtrOcamlBasic only, Z/N
   stay the extracted datatypes, no Extract Constant. *)
From Coq Require Import ZArith List.
From Coq Require Import ExtrOcamlBasic.
From VV Require Import Base.F64 Rng.RngDefs Rng.DistDefs Ga.GaDefs Ga.GaSeededDefs.
Extraction "ga_model.ml" ga_create ga_mutation ga_crossover ga_cuts de_create de_crossover de_factor
  in_range_b in_box_b F64.of_bits F64.to_bits F64.is_nan
  sga_create sga_mutation sga_crossover sde_create sde_crossover random_seed zero_state Z.to_N
  ga_size ga_empty ga_get ga_set ga_inc_age ga_eqb de_size de_get de_set de_inc_age de_assign de_eqb.
