(* Extraction of the dataset-import model (C09, C10): ExtrOcamlBasic only, Z and
   nat stay the extracted datatypes, no Extract Constant. *)
From Coq Require Import ZArith List.
From Coq Require Import ExtrOcamlBasic.
From VV Require Import Csv.CsvDefs Csv.HistoryDefs Csv.StateDefs.
Extraction "csv_model.ml" read_csv read_xrff setup_terminals run_variable class_name
  parse_line records sniffer guess_delimiter sniff_has_header render_line render_table
  fixed_v pinned_v no_filter trim blank bytes_eqb is_valid
  read_csv_on read_xrff_on run_history empty_df
  step_st run_history_st read_csv_st read_xrff_st prob_construct prob_read_csv prob_read_xrff prob_setup_symbols
  prob_variables prob_classes.
