(* Extraction of the validation-strategy model (C16): ExtrOcamlBasic only. *)
From Coq Require Import ZArith List.
From Coq Require Import ExtrOcamlBasic.
From VV Require Import Base.F64 Valid.ValidDefs Valid.ValidTarget.
Extraction "valid_model.ml" tsz_f64 step run_ops target_q tune_fixed tune_pinned sentinel idents population
  reshuffles holdout_skip weight weight_sum partition_bidir.
