(* Extraction of the evaluator model (C05): ExtrOcamlBasic only, Z/N stay the
   extracted datatypes, no Extract Constant. *)
From Coq Require Import ZArith NArith List.
From Coq Require Import ExtrOcamlBasic.
From VV Require Import Base.F64 Eval.EvalDefs Eval.EvalClassDefs.
Extraction "eval_model.ml" mae_err mse_err rmae_err rmae_err_pinned count_err count_wrong
  soe_eval soe_fast soe_eval_pinned sum_of_errors_impl_x err_throws frame_x binary_tag binary_eval dyn_slot_eval gaussian_eval
  dyn_slot_eval_real gaussian_eval_real binary_eval_real dyn_tags_real gauss_tags_real
  team_out dyn_slot_eval_team gaussian_eval_team binary_eval_team test_fixed test_distinct_run ga_eval constrained_eval issmall wrong_by mismatches frame_cls
  F64.of_bits F64.to_bits F64.is_nan.
