(* Extraction of the thread model (C15): ExtrOcamlBasic only, no Extract
   Constant.  Z.of_N and Z.to_nat only make the types z and nat that the shared
   ocaml/zutil.ml mentions exist. *)
From Coq Require Import NArith ZArith List.
From Coq Require Import ExtrOcamlBasic.
From VV Require Import Cache.CacheDefs Conc.ProtoTypes Conc.ConcDefs Gen.CacheProto Conc.ConcGenDefs.
Extraction "conc_model.ml" gen_progs init step any_race finished Z.of_N Z.to_nat.
