(* Extraction of the small_vector model (C20): ExtrOcamlBasic only, nat and Z
   stay the extracted datatypes, no Extract Constant. *)
From Coq Require Import ZArith List.
From Coq Require Import ExtrOcamlBasic.
From VV Require Import SmallVec.SmallVecDefs.
Extraction "smallvec_model.ml" run step step_pinned init finish contents is_heap capacity live_count
  sv_eq sv_lt abs valid_op_b spec_step op_target target other.
