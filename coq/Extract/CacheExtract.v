(* Extraction of the cache model (C04): ExtrOcamlBasic only, N stays the
   extracted datatype, no Extract Constant.  Z.of_N and Z.to_nat are listed
   only so that the types z and nat mentioned by the shared ocaml/zutil.ml
   exist in the extracted module. *)
From Coq Require Import NArith ZArith List.
From Coq Require Import ExtrOcamlBasic.
From VV Require Import Cache.CacheDefs.
Extraction "cache_model.ml" fresh find insert clear clear_one step proxy_eval dump warp
  clears_fast save load M32 Z.of_N Z.to_nat.
