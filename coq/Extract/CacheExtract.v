(* Extraction of the cache model (C04): ExtrOcamlBasic only, N stays the
   extracted datatype, no Extract Constant.  The driver runs the model of the
   code as it is now (now_*: the interpreter applied to Gen/CacheTable.v).
   Z.of_N and Z.to_nat are listed only so that the types z and nat mentioned
   by the shared ocaml/zutil.ml exist in the extracted module. *)
From Coq Require Import NArith ZArith List.
From Coq Require Import ExtrOcamlBasic.
From VV Require Import Cache.CacheDefs Cache.TableTypes Cache.CacheGenDefs Gen.CacheTable Cache.CacheGenDefs2.
Extraction "cache_model.ml" now_fresh now_find now_insert now_clear now_clear_one now_step now_proxy_eval
  now_dump now_save now_load now_proxy_save now_proxy_load proxy_fast warp clears_fast M32 Z.of_N Z.to_nat.
