(* Extraction of the fitness model (C18): ExtrOcamlBasic only, Z stays the
   extracted datatype, no Extract Constant. *)
From Coq Require Import ZArith List.
From Coq Require Import ExtrOcamlBasic.
From VV Require Import Base.F64 Fitness.FitnessDefs.
Extraction "fitness_model.ml" F64.of_bits F64.to_bits
  eq_vec ne lt_lex gt ge le dominating plus minus times div_scalar mul_scalar
  vabs vsqrt round_to vis_finite vis_nan distance combine_fit make_measurements mm_ge best_of keep_better
  issmall isnonnegative almost_equal default_ae_epsilon vissmall visnonnegative valmost_equal.
