(* Extraction of the primitive layer (C13, C14): ExtrOcamlBasic only, Z stays
   the extracted datatype, no Extract Constant. *)
From Coq Require Import ZArith List.
From Coq Require Import ExtrOcamlBasic.
From VV Require Import Base.F64 Base.Values Interp.Strategy Cxx.CxxMini Gen.Prims Mep.Genome Prims.IntSpec Prims.RealDefs.
Extraction "prims_model.ml" prims_all strategy_of run_stub fetched args_stub
  F64.of_bits F64.to_bits int_oracle clamp is32b
  RealDefs.run_tree RealDefs.c13_table RealDefs.sig_okb RealDefs.foub.
