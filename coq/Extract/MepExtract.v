(* Extraction of the C02 operator model: ExtrOcamlBasic only, Z/N/nat stay
   the extracted datatypes, no Extract Constant. *)
From Coq Require Import ZArith List.
From Coq Require Import ExtrOcamlBasic.
Local Ltac c02_scan0 := idtac. (* separates the Require lines for the dependency scanner of lib/vv.py *)
From VV Require Import Base.F64 Base.Values Interp.Strategy Mep.Genome Mep.Draws Mep.OpsDefs.
Local Ltac c02_scan1 := idtac.
Extraction "mep_model.ml" random_ind mutation crossover get_block replace destroy_block cse inc_age
  force_xover random_team team_mutation team_crossover ind_ok_b crossover_ok_b ind_same_b wf_sset_b
  active_loci blocks active_symbols provenance_b wf_genome_b cse_genome gene_cmp gene_cmp_old xover_of_Z Z_of_xover
  F64.of_bits F64.to_bits Z.add Z.mul Z.opp valid_draw_b.
