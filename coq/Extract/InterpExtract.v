(* Extraction of the interpreter model (C01): ExtrOcamlBasic only, Z / nat stay
   the extracted datatypes, no Extract Constant. *)
From Coq Require Import ZArith List.
From Coq Require Import ExtrOcamlBasic.
From VV Require Import Base.F64 Base.Values Interp.Strategy Cxx.CxxMini Gen.Prims Mep.Genome
  Interp.MachineDefs.
Extraction "interp_model.ml" prims_all strategy_of prim_sym variable_sym constant_sym
  genome_of_cells wf_genome_b gene_at tree_of active_tree tree_size
  init_state set_example run_locus run run_ex run_many valid_entries
  den asked_at vars_of show_res penalty_locus team_run F64.of_bits F64.to_bits.
