(* Extraction of the engine model (C07): ExtrOcamlBasic only, N stays the
   extracted datatype, no Extract Constant. *)
From Coq Require Import NArith ZArith List.
From Coq Require Import ExtrOcamlBasic.
From VV Require Import Base.F64 Rng.RngDefs Rng.DistDefs.
Extraction "rng_model.ml" new_engine seed_engine random_seed next outputs advance state_eqb
  show_u read_u save_state load_state load_state_benign load_state_literal state_list reload_outputs Z.of_N Z.to_N
  between_int between_real boolean canonical discrete answers F64.of_bits F64.to_bits F64.is_nan.
