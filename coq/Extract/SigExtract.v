(* Extraction of the signature model (C03): ExtrOcamlBasic only, Z / N /
   positive / nat stay the extracted datatypes, no Extract Constant. *)
From Coq Require Import ZArith NArith List.
From Coq Require Import ExtrOcamlBasic.
From VV Require Import Base.F64 Mep.Genome Mep.OpsDefs Sig.Bits64 Sig.Murmur Sig.SigDefs Sig.CseDefs.
Extraction "sig_model.ml" murmur128 hcombine hempty hash_mep hash_ga hash_de hash_team mep_pack
  signature team_signature mep_step mep_mutation iga_step iga_mutation ide_step team_step
  team_mutation_loop cache_ok_b mk_sym mk_gene mk_locus empty_genome put_gene clear
  F64.of_bits F64.to_bits F64.zero cse_bits.
