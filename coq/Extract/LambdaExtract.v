(* Extraction of the C08 model: ExtrOcamlBasic only, Z/N/nat stay the
   extracted datatypes, no Extract Constant. *)
From Coq Require Import ZArith List.
From Coq Require Import ExtrOcamlBasic.
From VV Require Import Base.F64 Lambda.LambdaDefs Lambda.LambdaSerialDefs.
Extraction "lambda_model.ml"
  F64.of_bits F64.to_bits
  init step run_ops model_program vinit vstep
  team_eval running_mean defined slot discretization sigmoid_01
  dyn_build dyn_tag gauss_build gauss_tag gauss_stats binary_tag wta mv
  accuracy_class accuracy_reg count_eval gauss_eval L.count_up
  load_model save_model spredict.
