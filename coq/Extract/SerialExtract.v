(* Extraction of the serialisation model (C11, C12): ExtrOcamlBasic only, Z
   stays the extracted datatype, no Extract Constant. *)
From Coq Require Import ZArith List.
From Coq Require Import ExtrOcamlBasic.
From VV Require Import Serial.SerialDefs.
Extraction "serial_model.ml"
  show_u show_i read_int skip_ws finite_b dkey decode
  hash_save hash_load fit_save fit_load
  mep_save mep_load mep_default ga_save de_save ga_load de_load vec_default
  team_save team_load team_default pop_save pop_load pop_load_pinned
  summary_save summary_load minus_one mep_empty vec_empty read_i32 read_i64 dist_save_ok dist_save dist_load matrix_save matrix_load.
