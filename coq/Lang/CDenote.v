(* C19 -- what the exported C text computes.  A denotation of the expression
   AST over binary64 for the arithmetic / conditional fragment (the C operators
   and the libm functions fabs sqrt floor fmod fmax fmin are the IEEE
   operations of Base/F64.v), a reference semantics of the real-valued
   primitives of that fragment (kernel/gp/src/primitive/real.h: strict in
   their compared / combined arguments, undefined when the result is not
   finite, lazy in the branches of the conditionals), and the theorem: on
   every input for which the program yields a value, the C text denotes that
   value.  Definitions and proofs of this file are used by
   Props/Properties_C19.v (C19_c_denotes_partial). *)
From Coq Require Import ZArith List Bool Arith Lia.
From VV Require Import Base.F64 Base.Values Interp.Strategy Cxx.CxxMini Gen.Prims Mep.Genome
  Prims.RealDefs Prims.RealProofs Interp.MachineDefs.
From VV Require Import Lang.LangBase Gen.Templates Lang.LangDefs Lang.LangProofs Lang.SynDefs Lang.SynProofs.
Import ListNotations.
Local Open Scope Z_scope.

(* a double, the int of an integer literal / integer arithmetic, or the truth
   value of a comparison *)
Inductive cval := CD (x : f64) | CI (z : Z) | CB (b : bool) | CS (s : bytes).

(* an integer literal of the C grammar: digits only (a floating literal has a
   '.' or an exponent and is read by strtod) *)
Fixpoint int_digits (acc : Z) (w : bytes) : option Z :=
  match w with
  | [] => Some acc
  | c :: r => if is_digit c then int_digits (10 * acc + (c - 48)) r else None
  end.
Definition int_lit (w : bytes) : option Z := match w with [] => None | _ => int_digits 0 w end.

Definition in_int (z : Z) : bool := (-2147483648 <=? z) && (z <=? 2147483647).
Definition ci (z : Z) : option cval := if in_int z then Some (CI z) else None.   (* signed overflow: undefined *)

(* the usual arithmetic conversions: int op int is integer arithmetic (7/2 is 3),
   otherwise both operands are converted to double *)
Definition arith2 (fd : f64 -> f64 -> f64) (fi : Z -> Z -> option Z) (a b : cval) : option cval :=
  match a, b with
  | CI x, CI y => match fi x y with Some z => ci z | None => None end
  | CD x, CD y => Some (CD (fd x y))
  | CI x, CD y => Some (CD (fd (F64.of_Z x) y))
  | CD x, CI y => Some (CD (fd x (F64.of_Z y)))
  | _, _ => None
  end.
Definition cmp2 (cd : f64 -> f64 -> bool) (a b : cval) : option cval :=
  match a, b with
  | CD x, CD y => Some (CB (cd x y))
  | CI x, CD y => Some (CB (cd (F64.of_Z x) y))
  | CD x, CI y => Some (CB (cd x (F64.of_Z y)))
  | CI x, CI y => Some (CB (cd (F64.of_Z x) (F64.of_Z y)))
  | _, _ => None
  end.
Definition to_double (a : cval) : option f64 :=
  match a with CD x => Some x | CI z => Some (F64.of_Z z) | _ => None end.

Definition N_fabs : bytes := [102; 97; 98; 115].
Definition N_sqrt : bytes := [115; 113; 114; 116].
Definition N_floor : bytes := [102; 108; 111; 111; 114].
Definition N_fmod : bytes := [102; 109; 111; 100].
Definition N_fmax : bytes := [102; 109; 97; 120].
Definition N_fmin : bytes := [102; 109; 105; 110].
Definition N_sin : bytes := [115; 105; 110].
Definition N_cos : bytes := [99; 111; 115].
Definition N_log : bytes := [108; 111; 103].
Definition N_exp : bytes := [101; 120; 112].
Definition N_pow : bytes := [112; 111; 119].
Definition N_strlen : bytes := [115; 116; 114; 108; 101; 110].
Definition N_eps : bytes := [68; 66; 76; 95; 69; 80; 83; 73; 76; 79; 78].      (* DBL_EPSILON *)
Definition dbl_eps : f64 := F64.of_bits 4372995238176751616.                  (* 2^-52 *)

Section Denote.
Variable lm : libm.                          (* sin cos log exp of the C library: the SAME oracle the interpreter uses *)
Variable c_pow : f64 -> f64 -> f64.          (* pow of the C library *)
Variable lit : bytes -> option f64.          (* strtod on a floating literal *)
Variable rho : bytes -> option cval.         (* the parameters of the C function *)

Definition un_fun (fn : bytes) : option (f64 -> f64) :=
  if bytes_eqb fn N_fabs then Some F64.abs
  else if bytes_eqb fn N_sqrt then Some F64.sqrt
  else if bytes_eqb fn N_floor then Some F64.floor
  else if bytes_eqb fn N_sin then Some (l_sin lm)
  else if bytes_eqb fn N_cos then Some (l_cos lm)
  else if bytes_eqb fn N_log then Some (l_log lm)
  else if bytes_eqb fn N_exp then Some (l_exp lm)
  else None.
Definition bin_fun (fn : bytes) : option (f64 -> f64 -> f64) :=
  if bytes_eqb fn N_fmod then Some F64.fmod
  else if bytes_eqb fn N_fmax then Some F64.fmax
  else if bytes_eqb fn N_fmin then Some F64.fmin
  else if bytes_eqb fn N_pow then Some c_pow
  else None.

Definition arith (op : tok) : option (cval -> cval -> option cval) :=
  if tok_eqb op (p1 43) then Some (arith2 F64.add (fun x y => Some (x + y)))
  else if tok_eqb op (p1 45) then Some (arith2 F64.sub (fun x y => Some (x - y)))
  else if tok_eqb op (p1 42) then Some (arith2 F64.mul (fun x y => Some (x * y)))
  else if tok_eqb op (p1 47) then Some (arith2 F64.div (fun x y => if y =? 0 then None else Some (Z.quot x y)))
  else None.
Definition compare (op : tok) : option (f64 -> f64 -> bool) :=
  if tok_eqb op (p1 60) then Some F64.ltb
  else if tok_eqb op (p1 62) then Some F64.gtb
  else if tok_eqb op (p2 60 61) then Some F64.leb
  else if tok_eqb op (p2 62 61) then Some F64.geb
  else None.

(* the characters of a string literal (a backslash quotes the next byte) *)
Fixpoint unescape (s : bytes) : bytes :=
  match s with
  | c :: r => if c =? 92 then match r with d :: r' => d :: unescape r' | [] => [] end else c :: unescape r
  | [] => []
  end.

(* [h k]: the value of placeholder k *)
Fixpoint denote (h : nat -> option cval) (e : cexpr) : option cval :=
  match e with
  | EAtom w =>
      if bytes_eqb w N_eps then Some (CD dbl_eps)
      else match int_lit w with
           | Some z => ci z
           | None =>
               match lit w with
               | Some v => Some (CD v)
               | None => rho w
               end
           end
  | EStr s => Some (CS (if const_str_escapes then unescape s else s))
  | EHole k => h k
  | ECall0 _ => None
  | ECall (EAtom fn) a =>
      if bytes_eqb fn N_strlen then
        match denote h a with Some (CS s) => Some (CI (Z.of_nat (length s))) | _ => None end
      else
      match un_fun fn with
      | Some g1 => match denote h a with
                   | Some v => match to_double v with Some x => Some (CD (g1 x)) | None => None end
                   | None => None
                   end
      | None =>
          match bin_fun fn, a with
          | Some g2, EBin op l r =>
              if tok_eqb op (p1 44) then
                match denote h l, denote h r with
                | Some u, Some v =>
                    match to_double u, to_double v with
                    | Some x, Some y => Some (CD (g2 x y))
                    | _, _ => None
                    end
                | _, _ => None
                end
              else None
          | _, _ => None
          end
      end
  | ECall _ _ => None
  | EMem _ _ => None
  | EUn op x =>
      if tok_eqb op (p1 45) then
        match denote h x with
        | Some (CD v) => Some (CD (F64.neg v))
        | Some (CI z) => ci (- z)
        | _ => None
        end
      else None
  | ECast x => match denote h x with
               | Some v => match to_double v with Some d => Some (CD d) | None => None end
               | None => None
               end
  | EBin op l r =>
      match arith op with
      | Some g2 => match denote h l, denote h r with
                   | Some x, Some y => g2 x y
                   | _, _ => None
                   end
      | None =>
          match compare op with
          | Some c2 => match denote h l, denote h r with
                       | Some x, Some y => cmp2 c2 x y
                       | _, _ => None
                       end
          | None =>
              if tok_eqb op (p2 38 38) then
                match denote h l with
                | Some (CB false) => Some (CB false)
                | Some (CB true) => match denote h r with Some (CB b) => Some (CB b) | _ => None end
                | _ => None
                end
              else None
          end
      end
  | ECond c a b =>
      match denote h c with
      | Some (CB true) => denote h a
      | Some (CB false) => denote h b
      | _ => None
      end
  | EParen x => denote h x
  end.

Definition no_holes : nat -> option cval := fun _ => None.

(* a value of the interpreter and the C value it corresponds to: a double, the
   int 0 / 1 of a comparison, a string *)
Definition crel (v : value) (c : cval) : Prop :=
  match v, c with
  | VDouble x, CD y => x = y
  | VInt z, CB b => z = (if b then 1 else 0)
  | VString s, CS t => s = t
  | _, _ => False
  end.

Variable vars : varenv.       (* what the interpreter reads for its input variables *)
Variable env : lang_env.

(* the primitives of the fragment: the class (how it prints, Gen/Templates.v)
   and the body (what it computes, Gen/Prims.v), both regenerated from real.h *)
Definition frag_table : list (tclass * list stmt) :=
  [(tc_real_add, real_add_body); (tc_real_sub, real_sub_body); (tc_real_mul, real_mul_body);
   (tc_real_div, real_div_body); (tc_real_mod, real_mod_body); (tc_real_max, real_max_body);
   (tc_real_idiv, real_idiv_body); (tc_real_abs, real_abs_body); (tc_real_sqrt, real_sqrt_body);
   (tc_real_sin, real_sin_body); (tc_real_cos, real_cos_body); (tc_real_ln, real_ln_body);
   (tc_real_gt, real_gt_body); (tc_real_lt, real_lt_body); (tc_real_length, real_length_body);
   (tc_real_ifl, real_ifl_body); (tc_real_ife, real_ife_body); (tc_real_ifz, real_ifz_body);
   (tc_real_aq, real_aq_body)].

(* a leaf is EXACT when reading its printed text back (strtod for a literal,
   the parameter for a variable, the characters of a string literal) gives the
   value the interpreter yields for it *)
Definition exact (t : tree) : Prop :=
  forall v, den vars t = Val v -> v <> VVoid ->
  exists c, denote no_holes (ast env FC t) = Some c /\ crel v c.

Inductive frag : tree -> Prop :=
| F_leaf : forall s par, exact (Node s par []) -> frag (Node s par [])
| F_op : forall s par kids c body,
    env (s_opcode s) = Some (SClass c) -> In (c, body) frag_table ->
    s_strat s = strategy_of lm body ->
    arity s = tc_arity c -> length kids = tc_arity c ->
    Forall frag kids -> frag (Node s par kids)
(* FIFB compares with <= where the interpreter uses !isless / !isgreater: the
   same for the values a program computes from finite inputs (C13), different
   for a NaN -- the compared values must not be NaN *)
| F_ifb : forall s par k0 k1 k2 k3 k4,
    env (s_opcode s) = Some (SClass tc_real_ifb) ->
    s_strat s = strategy_of lm real_ifb_body -> arity s = 5%nat ->
    Forall frag [k0; k1; k2; k3; k4] ->
    (forall k x, In k [k0; k1; k2] -> den vars k = Val (VDouble x) -> F64.is_nan x = false) ->
    frag (Node s par [k0; k1; k2; k3; k4]).

End Denote.

(* ------------------------------------------------------------ the proof *)
Section Proof.
Variable lm : libm.
Variable c_pow : f64 -> f64 -> f64.
Variable lit : bytes -> option f64.
Variable rho : bytes -> option cval.
Variable vars : varenv.
Variable env : lang_env.

Local Opaque F64.add F64.sub F64.mul F64.div F64.fmod F64.fmax F64.fmin F64.floor F64.abs F64.sqrt
  F64.ltb F64.gtb F64.leb F64.geb F64.neg F64.is_finite F64.of_bits F64.of_Z.

(* ---- from C01's denotation to C13's closed forms *)
Lemma apply_strat_ext : forall s par a b, (forall i, a i = b i) ->
  apply_strat vars s par a = apply_strat vars s par b.
Proof.
  induction s as [o|i k IH|k IH|i k IH]; intros par a b E; cbn [apply_strat].
  - reflexivity.
  - rewrite <- E. destruct (a i) as [[v| |]|]; auto.
  - auto.
  - destruct (vars i); auto.
Qed.

Lemma den_node : forall s par kids,
  den vars (Node s par kids) = apply_strat vars (s_strat s) par (den_args vars kids).
Proof.
  intros s par kids. cbn [den]. apply apply_strat_ext.
  intro i. unfold den_args. revert i. induction kids as [|k ks IH]; intros [|i]; cbn; auto.
Qed.

(* the argument values handed to the closed forms: the value of an argument
   that has one, undefined for the others (which a run that ends with a value
   never looked at) *)
Definition val_or_void (o : outcome) : value := match o with Val v => v | _ => VVoid end.
Definition arg_vals (kids : list tree) : list value := map (fun k => val_or_void (den vars k)) kids.

Lemma bridge : forall s par arg l v,
  (forall i x, arg i = Some (Val x) -> nth_error l i = Some x) ->
  apply_strat vars s par arg = Val v ->
  run_stub s (arg_stub (Some par) vars l) = Val v.
Proof.
  induction s as [o|i k IH|k IH|i k IH]; intros par arg l v Hl H; cbn [apply_strat] in H; cbn [run_stub].
  - exact H.
  - destruct (arg i) as [[x| |]|] eqn:E; try discriminate.
    cbn [arg_stub s_arg]. rewrite (Hl _ _ E). eapply IH; eauto.
  - cbn [arg_stub s_par]. eapply IH; eauto.
  - cbn [arg_stub s_var]. destruct (vars i); [eapply IH; eauto|discriminate].
Qed.

Lemma den_run_body : forall s par kids body v,
  s_strat s = strategy_of lm body ->
  den vars (Node s par kids) = Val v ->
  run_body_s lm body (Some par) vars (arg_vals kids) = Val v.
Proof.
  intros s par kids body v Hs H. rewrite den_node, Hs in H. unfold run_body_s.
  eapply bridge; [|exact H].
  intros i x Hi. unfold den_args in Hi. unfold arg_vals. rewrite nth_error_map.
  destruct (nth_error kids i); cbn in *; [|discriminate]. inversion Hi as [E]. rewrite E. reflexivity.
Qed.

Lemma two_eps_c : F64.mul (F64.of_Z 2) dbl_eps = two_eps.
Proof. Transparent F64.mul F64.of_Z F64.of_bits. apply Flocq.IEEE754.BinarySingleNaN.B2SF_inj. vm_compute. reflexivity. Qed.

(* comparisons of non-NaN doubles *)
Local Transparent F64.leb F64.ltb F64.gtb F64.geb F64.fmin F64.fmax.
Lemma cmp_some : forall a b, F64.is_nan a = false -> F64.is_nan b = false -> F64.cmp a b <> None.
Proof.
  intros a b Ha Hb. unfold F64.cmp.
  destruct a as [sa|sa| |sa ma ea pa], b as [sb|sb| |sb mb eb pb]; try discriminate;
    cbn; repeat match goal with |- context [if ?c then _ else _] => destruct c
                          | |- context [match ?c with _ => _ end] => destruct c end; discriminate.
Qed.

Lemma leb_negb_ltb : forall a b, F64.is_nan a = false -> F64.is_nan b = false ->
  F64.leb a b = negb (F64.ltb b a).
Proof.
  intros a b Ha Hb. pose proof (cmp_some a b Ha Hb) as Hc.
  unfold F64.leb, F64.ltb, F64.cmp in *.
  rewrite (Flocq.IEEE754.BinarySingleNaN.Bcompare_swap _ _ a b).
  destruct (Flocq.IEEE754.BinarySingleNaN.Bcompare a b) as [[| |]|]; try reflexivity. congruence.
Qed.

Lemma fmin_nonan : forall y z, F64.is_nan y = false -> F64.is_nan z = false -> F64.is_nan (F64.fmin y z) = false.
Proof. intros y z Hy Hz. unfold F64.fmin. destruct (F64.leb y z || F64.is_nan z); assumption. Qed.
Lemma fmax_nonan : forall y z, F64.is_nan y = false -> F64.is_nan z = false -> F64.is_nan (F64.fmax y z) = false.
Proof. intros y z Hy Hz. unfold F64.fmax. destruct (F64.geb y z || F64.is_nan z); assumption. Qed.

Lemma inside_c : forall x y z, F64.is_nan x = false -> F64.is_nan y = false -> F64.is_nan z = false ->
  F64.leb (F64.fmin y z) x && F64.leb x (F64.fmax y z) = negb (ifb_outside x y z).
Proof.
  intros x y z Hx Hy Hz. unfold ifb_outside, F64.gtb.
  rewrite (leb_negb_ltb _ _ (fmin_nonan y z Hy Hz) Hx), (leb_negb_ltb _ _ Hx (fmax_nonan y z Hy Hz)).
  rewrite negb_orb. reflexivity.
Qed.

(* strtod on the two floating literals of the AQ template, and pow on squares
   (used for AQ only) *)
Hypothesis lit_1_0 : lit [49; 46; 48] = Some one.
Hypothesis lit_2_0 : lit [50; 46; 48] = Some (F64.of_bits 4611686018427387904).
Hypothesis pow_square : forall y, c_pow y (F64.of_bits 4611686018427387904) = F64.mul y y.

Local Opaque F64.add F64.sub F64.mul F64.div F64.fmod F64.fmax F64.fmin F64.floor F64.abs F64.sqrt
  F64.ltb F64.gtb F64.leb F64.geb F64.neg F64.is_finite F64.of_bits F64.of_Z F64.is_nan.

Lemma sym_text_fun : forall s par c,
  env (s_opcode s) = Some (SClass c) -> tc_terminal c = false -> arity s <> O ->
  sym_text env FC s par = fun_text c FC (arity s).
Proof.
  intros s par c He Ht Ha. unfold sym_text. rewrite He.
  unfold arity in Ha. unfold is_terminal. destruct (s_argcats s); [exfalso; apply Ha; reflexivity|]. rewrite Ht. reflexivity.
Qed.

Lemma issmall_c : forall x, F64.ltb (F64.abs x) (F64.mul (F64.of_Z 2) dbl_eps) = issmall x.
Proof. intro x. rewrite two_eps_c. reflexivity. Qed.

Notation DEN := (denote lm c_pow lit rho no_holes).

(* what the induction hypothesis gives for an argument whose value is known *)
Lemma kid_double : forall k x, exact lm c_pow lit rho vars env k -> den vars k = Val (VDouble x) ->
  DEN (ast env FC k) = Some (CD x).
Proof.
  intros k x Hk E. destruct (Hk _ E ltac:(discriminate)) as [c [Hc Hr]].
  destruct c; cbn in Hr; try contradiction. subst. exact Hc.
Qed.
Lemma kid_string : forall k x, exact lm c_pow lit rho vars env k -> den vars k = Val (VString x) ->
  DEN (ast env FC k) = Some (CS x).
Proof.
  intros k x Hk E. destruct (Hk _ E ltac:(discriminate)) as [c [Hc Hr]].
  destruct c; cbn in Hr; try contradiction. subst. exact Hc.
Qed.

Ltac strict_args Hden Hnv :=
  repeat match type of Hden with
  | context [match val_or_void (den vars ?k) with _ => _ end] =>
      let E := fresh "E" in let w := fresh "w" in
      destruct (den vars k) as [w| |] eqn:E; cbn [val_or_void] in Hden;
      [destruct w; cbn in Hden|..];
      try discriminate Hden; try (exfalso; apply Hnv; inversion Hden; reflexivity)
  end.
Ltac kid_facts :=
  repeat match goal with
  | Hk : exact _ _ _ _ _ _ ?k, E : den vars ?k = Val (VDouble ?x) |- _ =>
      pose proof (kid_double k x Hk E); clear E
  | Hk : exact _ _ _ _ _ _ ?k, E : den vars ?k = Val (VString ?x) |- _ =>
      pose proof (kid_string k x Hk E); clear E
  end.
Ltac selected_branch Hv Hnv :=
  match type of Hv with
  | val_or_void (den vars ?k) = ?v =>
      let E := fresh "E" in
      destruct (den vars k) eqn:E; cbn [val_or_void] in Hv; subst v;
      [match goal with Hk : exact _ _ _ _ _ _ k |- _ => exact (Hk _ E Hnv) end
      |exfalso; apply Hnv; reflexivity|exfalso; apply Hnv; reflexivity]
  end.

Theorem c_denotes_den : forall t, frag lm c_pow lit rho vars env t -> exact lm c_pow lit rho vars env t.
Proof.
  induction t as [s par kids IHk] using tree_ind2. intros Hf.
  assert (IHall : forall ks, Forall (frag lm c_pow lit rho vars env) ks -> ks = kids ->
                             Forall (exact lm c_pow lit rho vars env) kids).
  { intros ks Hks ->. clear - IHk Hks. induction kids as [|k ks IH]; constructor.
    - inversion IHk; subst. inversion Hks; subst. auto.
    - inversion IHk; subst. inversion Hks; subst. auto. }
  inversion Hf as [s0 par0 Hleaf|s0 par0 kids0 c body Henv Hin Hstrat Har Hlen Hkids
                  |s0 par0 k0 k1 k2 k3 k4 Henv Hstrat Har Hkids Hnan]; subst; [exact Hleaf| |].
  - pose proof (IHall _ Hkids eq_refl) as IH. clear IHk IHall Hkids Hf.
    intros v Hden Hnv. apply (den_run_body _ _ _ _ _ Hstrat) in Hden.
    cbn [In frag_table] in Hin.
    repeat (destruct Hin as [Hin|Hin]; [inversion Hin; subst c body; clear Hin|]); try contradiction.
    all: cbn [tc_arity tc_real_add tc_real_sub tc_real_mul tc_real_div tc_real_mod tc_real_max tc_real_idiv
              tc_real_abs tc_real_sqrt tc_real_sin tc_real_cos tc_real_ln tc_real_gt tc_real_lt tc_real_length
              tc_real_ifl tc_real_ife tc_real_ifz tc_real_aq] in Har, Hlen.
    all: repeat (destruct kids as [|?k kids]; [discriminate Hlen|]).
    all: destruct kids; [|discriminate Hlen].
    all: repeat match goal with H : Forall _ (_ :: _) |- _ => inversion H; clear H; subst end.
    all: rewrite ast_function by discriminate.
    all: erewrite sym_text_fun by (try eassumption; try reflexivity; rewrite Har; discriminate).
    all: rewrite Har.
    all: match goal with |- context [tmpl_ast ?g ?n ?tm] =>
           let a := eval vm_compute in (tmpl_ast g n tm) in
           replace (tmpl_ast g n tm) with a by (vm_compute; reflexivity) end.
    all: cbn [arg_vals map] in Hden.
    all: first [rewrite add_run in Hden | rewrite sub_run in Hden | rewrite mul_run in Hden | rewrite div_run in Hden
               | rewrite mod_run in Hden | rewrite max_run in Hden | rewrite idiv_run in Hden | rewrite abs_run in Hden
               | rewrite sqrt_run in Hden | rewrite sin_run in Hden | rewrite cos_run in Hden | rewrite ln_run in Hden
               | rewrite gt_run in Hden | rewrite lt_run in Hden | rewrite length_run in Hden
               | rewrite ifl_run in Hden | rewrite ife_run in Hden | rewrite ifz_run in Hden | rewrite aq_run in Hden].
    all: unfold bin_strict, un_strict, if2_val, ifz_val, length_val, sel, ifl_test, ife_test, idiv_op, sqrt_val, aq_op in Hden.
    all: strict_args Hden Hnv.
    all: kid_facts.
    all: cbn [length csubst map nth].
    all: cbn -[issmall guard b2i].
    all: repeat match goal with H : DEN _ = Some _ |- _ => rewrite H; clear H end.
    all: cbn -[issmall guard b2i]; rewrite ?issmall_c, ?lit_1_0, ?lit_2_0; cbn -[issmall guard b2i]; rewrite ?pow_square.
    all: unfold guard in Hden.
    all: repeat match type of Hden with
         | context [if ?b then _ else _] => destruct b eqn:?
         end.
    all: inversion Hden as [Hv]; clear Hden.
    all: try (exfalso; apply Hnv; symmetry; exact Hv).
    all: try selected_branch Hv Hnv.
    all: subst v; eexists; (split; [reflexivity|]); cbn; try reflexivity.
    all: unfold b2i; match goal with |- context [if ?b then _ else _] => destruct b; reflexivity end.
  - (* FIFB *)
    pose proof (IHall _ Hkids eq_refl) as IH. clear IHk IHall Hkids Hf.
    intros v Hden Hnv. apply (den_run_body _ _ _ _ _ Hstrat) in Hden.
    repeat match goal with H : Forall _ (_ :: _) |- _ => inversion H; clear H; subst end.
    rewrite ast_function by discriminate.
    erewrite sym_text_fun by (try eassumption; try reflexivity; rewrite Har; discriminate).
    rewrite Har.
    match goal with |- context [tmpl_ast ?g ?n ?tm] =>
      let a := eval vm_compute in (tmpl_ast g n tm) in
      replace (tmpl_ast g n tm) with a by (vm_compute; reflexivity) end.
    cbn [arg_vals map] in Hden. rewrite ifb_run in Hden. unfold ifb_val, sel in Hden.
    strict_args Hden Hnv.
    assert (N0 : F64.is_nan f = false) by (eapply (Hnan k0); [cbn; tauto|eassumption]).
    assert (N1 : F64.is_nan f0 = false) by (eapply (Hnan k1); [cbn; tauto|eassumption]).
    assert (N2 : F64.is_nan f1 = false) by (eapply (Hnan k2); [cbn; tauto|eassumption]).
    kid_facts.
    cbn [length csubst map nth]. cbn -[ifb_outside].
    repeat match goal with H : DEN _ = Some _ |- _ => rewrite H; clear H end.
    cbn -[ifb_outside].
    pose proof (inside_c f f0 f1 N0 N1 N2) as HI.
    destruct (ifb_outside f f0 f1) eqn:O; cbn [negb] in HI;
      destruct (F64.leb (F64.fmin f0 f1) f) eqn:L1; destruct (F64.leb f (F64.fmax f0 f1)) eqn:L2;
      cbn [andb] in HI; try discriminate HI.
    all: inversion Hden as [Hv]; clear Hden.
    all: selected_branch Hv Hnv.
Qed.

(* for programs whose value is a double *)
Corollary c_denotes_double : forall t r, frag lm c_pow lit rho vars env t ->
  den vars t = Val (VDouble r) -> DEN (ast env FC t) = Some (CD r).
Proof. intros t r Hf Hd. apply kid_double; [apply c_denotes_den; exact Hf|exact Hd]. Qed.

End Proof.
