(* C19 -- what the exported C text computes.  A denotation of the expression
   AST over binary64 for the arithmetic / conditional fragment (the C operators
   and the libm functions fabs sqrt floor fmod fmax fmin are the IEEE
   operations of Base/F64.v), a reference semantics of the real-valued
   primitives of that fragment (kernel/gp/src/primitive/real.h: strict in
   their compared / combined arguments, undefined when the result is not
   finite, lazy in the branches of the conditionals), and the theorem: on
   every input for which the program yields a value, the C text denotes that
   value.  Definitions and proofs of this file are used by
   Props/Properties_C19.v (C19_c_denotes_partial). *)
From Coq Require Import ZArith List Bool Arith Lia.
From VV Require Import Base.F64 Mep.Genome Lang.LangBase Gen.Templates Lang.LangDefs Lang.LangProofs
  Lang.SynDefs Lang.SynProofs.
Import ListNotations.
Local Open Scope Z_scope.

(* a double, the int of an integer literal / integer arithmetic, or the truth
   value of a comparison *)
Inductive cval := CD (x : f64) | CI (z : Z) | CB (b : bool).

(* an integer literal of the C grammar: digits only (a floating literal has a
   '.' or an exponent and is read by strtod) *)
Fixpoint int_digits (acc : Z) (w : bytes) : option Z :=
  match w with
  | [] => Some acc
  | c :: r => if is_digit c then int_digits (10 * acc + (c - 48)) r else None
  end.
Definition int_lit (w : bytes) : option Z := match w with [] => None | _ => int_digits 0 w end.

Definition in_int (z : Z) : bool := (-2147483648 <=? z) && (z <=? 2147483647).
Definition ci (z : Z) : option cval := if in_int z then Some (CI z) else None.   (* signed overflow: undefined *)

(* the usual arithmetic conversions: int op int is integer arithmetic (7/2 is 3),
   otherwise both operands are converted to double *)
Definition arith2 (fd : f64 -> f64 -> f64) (fi : Z -> Z -> option Z) (a b : cval) : option cval :=
  match a, b with
  | CI x, CI y => match fi x y with Some z => ci z | None => None end
  | CD x, CD y => Some (CD (fd x y))
  | CI x, CD y => Some (CD (fd (F64.of_Z x) y))
  | CD x, CI y => Some (CD (fd x (F64.of_Z y)))
  | _, _ => None
  end.
Definition cmp2 (cd : f64 -> f64 -> bool) (a b : cval) : option cval :=
  match a, b with
  | CD x, CD y => Some (CB (cd x y))
  | CI x, CD y => Some (CB (cd (F64.of_Z x) y))
  | CD x, CI y => Some (CB (cd x (F64.of_Z y)))
  | CI x, CI y => Some (CB (cd (F64.of_Z x) (F64.of_Z y)))
  | _, _ => None
  end.
Definition to_double (a : cval) : option f64 :=
  match a with CD x => Some x | CI z => Some (F64.of_Z z) | CB _ => None end.

Definition N_fabs : bytes := [102; 97; 98; 115].
Definition N_sqrt : bytes := [115; 113; 114; 116].
Definition N_floor : bytes := [102; 108; 111; 111; 114].
Definition N_fmod : bytes := [102; 109; 111; 100].
Definition N_fmax : bytes := [102; 109; 97; 120].
Definition N_fmin : bytes := [102; 109; 105; 110].
Definition N_eps : bytes := [68; 66; 76; 95; 69; 80; 83; 73; 76; 79; 78].      (* DBL_EPSILON *)
Definition dbl_eps : f64 := F64.of_bits 4372995238176751616.                  (* 2^-52 *)

Section Denote.
Variable lit : bytes -> option f64.     (* strtod on a numeric literal *)
Variable rho : bytes -> option f64.     (* the parameters of the C function *)

Definition un_fun (fn : bytes) : option (f64 -> f64) :=
  if bytes_eqb fn N_fabs then Some F64.abs
  else if bytes_eqb fn N_sqrt then Some F64.sqrt
  else if bytes_eqb fn N_floor then Some F64.floor
  else None.
Definition bin_fun (fn : bytes) : option (f64 -> f64 -> f64) :=
  if bytes_eqb fn N_fmod then Some F64.fmod
  else if bytes_eqb fn N_fmax then Some F64.fmax
  else if bytes_eqb fn N_fmin then Some F64.fmin
  else None.

Definition arith (op : tok) : option (cval -> cval -> option cval) :=
  if tok_eqb op (p1 43) then Some (arith2 F64.add (fun x y => Some (x + y)))
  else if tok_eqb op (p1 45) then Some (arith2 F64.sub (fun x y => Some (x - y)))
  else if tok_eqb op (p1 42) then Some (arith2 F64.mul (fun x y => Some (x * y)))
  else if tok_eqb op (p1 47) then Some (arith2 F64.div (fun x y => if y =? 0 then None else Some (Z.quot x y)))
  else None.
Definition compare (op : tok) : option (f64 -> f64 -> bool) :=
  if tok_eqb op (p1 60) then Some F64.ltb
  else if tok_eqb op (p1 62) then Some F64.gtb
  else if tok_eqb op (p2 60 61) then Some F64.leb
  else if tok_eqb op (p2 62 61) then Some F64.geb
  else None.

(* [h k]: the value of placeholder k *)
Fixpoint denote (h : nat -> option cval) (e : cexpr) : option cval :=
  match e with
  | EAtom w =>
      if bytes_eqb w N_eps then Some (CD dbl_eps)
      else match int_lit w with
           | Some z => ci z
           | None =>
               match lit w with
               | Some v => Some (CD v)
               | None => match rho w with Some v => Some (CD v) | None => None end
               end
           end
  | EStr _ => None
  | EHole k => h k
  | ECall0 _ => None
  | ECall (EAtom fn) a =>
      match un_fun fn with
      | Some g1 => match denote h a with
                   | Some v => match to_double v with Some x => Some (CD (g1 x)) | None => None end
                   | None => None
                   end
      | None =>
          match bin_fun fn, a with
          | Some g2, EBin op l r =>
              if tok_eqb op (p1 44) then
                match denote h l, denote h r with
                | Some u, Some v =>
                    match to_double u, to_double v with
                    | Some x, Some y => Some (CD (g2 x y))
                    | _, _ => None
                    end
                | _, _ => None
                end
              else None
          | _, _ => None
          end
      end
  | ECall _ _ => None
  | EMem _ _ => None
  | EUn op x =>
      if tok_eqb op (p1 45) then
        match denote h x with
        | Some (CD v) => Some (CD (F64.neg v))
        | Some (CI z) => ci (- z)
        | _ => None
        end
      else None
  | ECast x => match denote h x with
               | Some v => match to_double v with Some d => Some (CD d) | None => None end
               | None => None
               end
  | EBin op l r =>
      match arith op with
      | Some g2 => match denote h l, denote h r with
                   | Some x, Some y => g2 x y
                   | _, _ => None
                   end
      | None =>
          match compare op with
          | Some c2 => match denote h l, denote h r with
                       | Some x, Some y => cmp2 c2 x y
                       | _, _ => None
                       end
          | None =>
              if tok_eqb op (p2 38 38) then
                match denote h l with
                | Some (CB false) => Some (CB false)
                | Some (CB true) => match denote h r with Some (CB b) => Some (CB b) | _ => None end
                | _ => None
                end
              else None
          end
      end
  | ECond c a b =>
      match denote h c with
      | Some (CB true) => denote h a
      | Some (CB false) => denote h b
      | _ => None
      end
  | EParen x => denote h x
  end.

Definition no_holes : nat -> option cval := fun _ => None.

(* ------------------ reference semantics of the real-valued fragment *)
Definition guard (r : f64) : option f64 := if F64.is_finite r then Some r else None.
Definition two : f64 := F64.of_Z 2.
Definition issmall (x : f64) : bool := F64.ltb (F64.abs x) (F64.mul two dbl_eps).

Definition arg (vs : list (option f64)) (i : nat) : option f64 := nth i vs None.

Definition strict2 (op : f64 -> f64 -> f64) (vs : list (option f64)) : option f64 :=
  match arg vs 0, arg vs 1 with Some x, Some y => guard (op x y) | _, _ => None end.

Definition N (s : list Z) := s.
Definition frag_op (name : bytes) (vs : list (option f64)) : option f64 :=
  if bytes_eqb name [70; 65; 68; 68] then strict2 F64.add vs                              (* FADD *)
  else if bytes_eqb name [70; 83; 85; 66] then strict2 F64.sub vs                         (* FSUB *)
  else if bytes_eqb name [70; 77; 85; 76] then strict2 F64.mul vs                         (* FMUL *)
  else if bytes_eqb name [70; 68; 73; 86] then strict2 F64.div vs                         (* FDIV *)
  else if bytes_eqb name [70; 77; 79; 68] then strict2 F64.fmod vs                        (* FMOD *)
  else if bytes_eqb name [70; 77; 65; 88] then strict2 F64.fmax vs                        (* FMAX *)
  else if bytes_eqb name [70; 73; 68; 73; 86] then strict2 (fun x y => F64.floor (F64.div x y)) vs   (* FIDIV *)
  else if bytes_eqb name [70; 65; 66; 83] then                                            (* FABS *)
    match arg vs 0 with Some x => Some (F64.abs x) | None => None end
  else if bytes_eqb name [70; 83; 81; 82; 84] then                                        (* FSQRT *)
    match arg vs 0 with Some x => if F64.ltb x F64.zero then None else Some (F64.sqrt x) | None => None end
  else if bytes_eqb name [70; 73; 70; 76] then                                            (* FIFL *)
    match arg vs 0, arg vs 1 with
    | Some x, Some y => if F64.ltb x y then arg vs 2 else arg vs 3
    | _, _ => None
    end
  else if bytes_eqb name [70; 73; 70; 69] then                                            (* FIFE *)
    match arg vs 0, arg vs 1 with
    | Some x, Some y => if issmall (F64.sub x y) then arg vs 2 else arg vs 3
    | _, _ => None
    end
  else if bytes_eqb name [70; 73; 70; 90] then                                            (* FIFZ *)
    match arg vs 0 with
    | Some x => if issmall x then arg vs 1 else arg vs 2
    | None => None
    end
  else None.

Variable env : lang_env.

(* value of a leaf: a constant<double>, or a variable bound by the caller *)
Definition leaf_val (s : sym) : option f64 :=
  match env (s_opcode s) with
  | Some (SConstD v) => Some v
  | Some (SClass c) => if tc_terminal c then rho (tc_name c) else None
  | _ => None
  end.

Fixpoint eval_frag (t : tree) : option f64 :=
  match t with
  | Node s par kids =>
      match kids with
      | [] => leaf_val s
      | _ => match env (s_opcode s) with
             | Some (SClass c) => frag_op (tc_name c) (map eval_frag kids)
             | _ => None
             end
      end
  end.

Definition frag_classes : list tclass :=
  [tc_real_add; tc_real_sub; tc_real_mul; tc_real_div; tc_real_mod; tc_real_max; tc_real_idiv;
   tc_real_abs; tc_real_sqrt; tc_real_ifl; tc_real_ife; tc_real_ifz].

(* programs of the fragment; a leaf is EXACT when reading its printed text back
   (strtod for a literal, the parameter for a variable) gives its value --
   "constants print exactly" *)
Inductive frag : tree -> Prop :=
| F_leaf : forall s par,
    (forall x, leaf_val s = Some x -> denote no_holes (ast env FC (Node s par [])) = Some (CD x)) ->
    frag (Node s par [])
| F_op : forall s par kids c,
    env (s_opcode s) = Some (SClass c) -> In c frag_classes ->
    arity s = tc_arity c -> length kids = tc_arity c ->
    Forall frag kids -> frag (Node s par kids).

End Denote.

(* ------------------------------------------------------------ the proof *)
Section Proof.
Variable lit : bytes -> option f64.
Variable rho : bytes -> option f64.
Variable env : lang_env.

Local Opaque F64.add F64.sub F64.mul F64.div F64.fmod F64.fmax F64.fmin F64.floor F64.abs F64.sqrt
  F64.ltb F64.gtb F64.leb F64.geb F64.neg F64.is_finite F64.of_bits F64.of_Z.

Lemma sym_text_fun : forall s par c,
  env (s_opcode s) = Some (SClass c) -> tc_terminal c = false -> arity s <> O ->
  sym_text env FC s par = fun_text c FC (arity s).
Proof.
  intros s par c He Ht Ha. unfold sym_text. rewrite He.
  unfold arity in Ha. unfold is_terminal. destruct (s_argcats s); [exfalso; apply Ha; reflexivity|]. rewrite Ht. reflexivity.
Qed.

Lemma eval_frag_node : forall s par k ks c,
  env (s_opcode s) = Some (SClass c) ->
  eval_frag rho env (Node s par (k :: ks)) = frag_op (tc_name c) (map (eval_frag rho env) (k :: ks)).
Proof. intros s par k ks c He. cbn [eval_frag]. rewrite He. reflexivity. Qed.

Lemma guard_some : forall x r, guard x = Some r -> r = x.
Proof. intros x r H. unfold guard in H. destruct (F64.is_finite x); inversion H; reflexivity. Qed.

Ltac kid_val k :=
  let E := fresh "E" in
  destruct (eval_frag rho env k) eqn:E;
  [match goal with H : forall r, eval_frag rho env k = Some r -> _ |- _ => rewrite (H _ E) end|].

Theorem c_denotes_frag : forall t, frag lit rho env t ->
  forall r, eval_frag rho env t = Some r -> denote lit rho no_holes (ast env FC t) = Some (CD r).
Proof.
  induction t as [s par kids IHk] using tree_ind2. intros Hf r He.
  inversion Hf as [s0 par0 Hleaf|s0 par0 kids0 c Henv Hin Har Hlen Hkids]; subst.
  - apply Hleaf. exact He.
  - assert (IH : Forall (fun k => forall r, eval_frag rho env k = Some r ->
                          denote lit rho no_holes (ast env FC k) = Some (CD r)) kids).
    { clear - IHk Hkids. induction kids as [|k ks IH]; constructor.
      - inversion IHk; subst. inversion Hkids; subst. auto.
      - inversion IHk; subst. inversion Hkids; subst. auto. }
    clear IHk Hkids Hf.
    cbn [In frag_classes] in Hin.
    repeat (destruct Hin as [Hin|Hin]; [subst c|]); try contradiction.
    all: cbn [tc_arity tc_real_add tc_real_sub tc_real_mul tc_real_div tc_real_mod tc_real_max tc_real_idiv
              tc_real_abs tc_real_sqrt tc_real_ifl tc_real_ife tc_real_ifz] in Har, Hlen.
    all: repeat (destruct kids as [|?k kids]; [discriminate Hlen|]).
    all: destruct kids; [|discriminate Hlen].
    all: repeat match goal with H : Forall _ (_ :: _) |- _ => inversion H; clear H; subst end.
    all: rewrite ast_function by discriminate.
    all: erewrite sym_text_fun by (try eassumption; try reflexivity; rewrite Har; discriminate).
    all: rewrite Har.
    all: erewrite eval_frag_node in He by eassumption.
    all: cbn [tc_name tc_real_add tc_real_sub tc_real_mul tc_real_div tc_real_mod tc_real_max tc_real_idiv
              tc_real_abs tc_real_sqrt tc_real_ifl tc_real_ife tc_real_ifz map] in He.
    all: match goal with |- context [tmpl_ast ?g ?n ?tm] =>
           let a := eval vm_compute in (tmpl_ast g n tm) in
           replace (tmpl_ast g n tm) with a by (vm_compute; reflexivity) end.
    all: cbn.
    all: repeat match goal with
         | Hk : forall r, eval_frag rho env ?k = Some r -> _ |- _ =>
             let E := fresh "E" in
             destruct (eval_frag rho env k) eqn:E; [rewrite (Hk _ eq_refl)|]; clear Hk
         end.
    all: cbn in He; cbn; unfold guard, issmall, two in He.
    all: try discriminate He.
    all: repeat match type of He with
         | context [if ?b then _ else _] => destruct b eqn:?
         end.
    all: try discriminate He.
    all: try (inversion He; subst; reflexivity).
Qed.

End Proof.
