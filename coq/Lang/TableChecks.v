(* C19 -- the finite checks, recomputed by the kernel (vm_compute) on the
   template table regenerated from the current source tree: if a template
   loses its parentheses, gains a gluing border, stops parsing or stops
   printing back to its own tokens, these lemmas no longer compile. *)
From Coq Require Import ZArith List Bool.
From VV Require Import Lang.LangBase Gen.Templates Lang.LangDefs Lang.SynDefs Lang.SynProofs.
Import ListNotations.

Lemma table_ok_c : table_ok FC = true.     Proof. vm_compute. reflexivity. Qed.
Lemma table_ok_cpp : table_ok FCpp = true. Proof. vm_compute. reflexivity. Qed.
Lemma table_ok_mql : table_ok FMql = true. Proof. vm_compute. reflexivity. Qed.
Lemma table_ok_py : table_ok FPy = true.   Proof. vm_compute. reflexivity. Qed.

Lemma tables_ok : forall f, table_ok f = true.
Proof. intros []; [exact table_ok_c|exact table_ok_cpp|exact table_ok_mql|exact table_ok_py]. Qed.

(* every template alone: it parses, and the parse result prints back to the
   template's tokens and parses to itself again *)
Lemma template_round_trip : forall f n txt, table_ok f = true -> In (n, txt) (fun_table f) ->
  exists ts a, tlex n (segs_of txt) = Some ts /\ parse (gram_of f) ts = Some a /\
               toks_of (gram_of f) a = ts /\ parse (gram_of f) (toks_of (gram_of f) a) = Some a.
Proof.
  intros f n txt Htab Hin. unfold table_ok in Htab. rewrite forallb_forall in Htab.
  pose proof (Htab _ Hin) as He. unfold entry_ok in He.
  apply andb_true_iff in He. destruct He as [_ Hast].
  unfold tmpl_ast in Hast.
  destruct (tlex n (segs_of txt)) as [ts|] eqn:Etl; [|discriminate].
  destruct (parse (gram_of f) ts) as [a|] eqn:Ea; [|discriminate].
  repeat (apply andb_true_iff in Hast; destruct Hast as [Hast ?]).
  apply forallb2_eq in Hast. exists ts, a. rewrite Hast. auto.
Qed.
