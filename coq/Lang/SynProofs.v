(* C19 -- from the finite check of the template table to all programs:
   the text printed for any program over the table lexes, without any token
   forming across a template/argument border, into the token sequence of the
   program's own expression, and in that expression every operand offers the
   precedence its position demands. *)
From Coq Require Import ZArith List Bool Arith Lia.
From VV Require Import Base.F64 Mep.Genome Lang.LangBase Gen.Templates Lang.LangDefs Lang.LangProofs Lang.SynDefs.
Import ListNotations.
Local Open Scope Z_scope.

(* ------------------------------------------------------------ lexer *)
Lemma lsteps_app : forall a st b,
  lsteps st (a ++ b) =
  let (e1, s1) := lsteps st a in let (e2, s2) := lsteps s1 b in (e1 ++ e2, s2).
Proof.
  induction a as [|c a IH]; intros st b; cbn [app lsteps].
  - destruct (lsteps st b); reflexivity.
  - destruct (lstep st c) as [e1 s1]. rewrite IH.
    destruct (lsteps s1 a) as [e2 s2]. destruct (lsteps s2 b) as [e3 s3].
    rewrite app_assoc. reflexivity.
Qed.

Definition flushl (st : lstate) : list tok := match lfinish st with Some l => l | None => [] end.

Lemma lstep_boundary : forall st c, noglue st c = true ->
  lstep st c = (flushl st ++ fst (lstep LIdle c), snd (lstep LIdle c)).
Proof.
  intros [|num w|s|p] c H; cbn [noglue] in H.
  - reflexivity.
  - apply negb_true_iff in H. cbn [lstep]. rewrite H. reflexivity.
  - discriminate.
  - apply negb_true_iff in H. cbn [lstep]. rewrite H. reflexivity.
Qed.

Lemma lsteps_boundary : forall st c r, noglue st c = true ->
  lsteps st (c :: r) = let (e, s) := lsteps LIdle (c :: r) in (flushl st ++ e, s).
Proof.
  intros st c r H. cbn [lsteps]. rewrite (lstep_boundary _ _ H).
  destruct (lstep LIdle c) as [e0 s0]. cbn [fst snd].
  destruct (lsteps s0 r) as [e1 s1]. rewrite app_assoc. reflexivity.
Qed.

(* a complete, non-empty text and its tokens *)
Definition piece_ok (x : bytes) (ts : list tok) : Prop :=
  x <> [] /\ exists fl, lfinish (end_state x) = Some fl /\ ts = fst (lsteps LIdle x) ++ fl.

Lemma piece_lex : forall x ts, piece_ok x ts -> lex x = Some ts.
Proof.
  intros x ts [_ [fl [H1 H2]]]. unfold lex, end_state in *.
  destruct (lsteps LIdle x) as [e st]. cbn [fst snd] in *. rewrite H1. subst. reflexivity.
Qed.

Lemma lex_piece : forall x ts, x <> [] -> lex x = Some ts -> piece_ok x ts.
Proof.
  intros x ts Hx H. split; [exact Hx|]. unfold lex, end_state in *.
  destruct (lsteps LIdle x) as [e st]. cbn [fst snd].
  destruct (lfinish st) as [fl|]; [|discriminate]. exists fl. inversion H. auto.
Qed.

(* two complete texts side by side *)
Lemma piece_app : forall a ta b tb,
  piece_ok a ta -> piece_ok b tb -> noglue (end_state a) (hd 0 b) = true ->
  piece_ok (a ++ b) (ta ++ tb) /\ end_state (a ++ b) = end_state b /\ hd 0 (a ++ b) = hd 0 a.
Proof.
  intros a ta b tb [Ha [fa [Hfa Hta]]] [Hb [fb [Hfb Htb]]] Hg.
  destruct b as [|c r]; [congruence|]. cbn [hd] in Hg.
  assert (E : lsteps LIdle (a ++ c :: r) =
              (fst (lsteps LIdle a) ++ flushl (end_state a) ++ fst (lsteps LIdle (c :: r)),
               snd (lsteps LIdle (c :: r)))).
  { rewrite lsteps_app. unfold end_state in *. destruct (lsteps LIdle a) as [e1 s1]. cbn [fst snd] in *.
    rewrite (lsteps_boundary _ _ _ Hg). destruct (lsteps LIdle (c :: r)) as [e2 s2]. reflexivity. }
  split; [|split].
  - split; [destruct a; [congruence|discriminate]|].
    exists fb. unfold end_state in *. rewrite E. cbn [fst snd]. split; [exact Hfb|].
    subst ta tb. unfold flushl. rewrite Hfa. rewrite <- !app_assoc. reflexivity.
  - unfold end_state. rewrite E. reflexivity.
  - destruct a; [congruence|reflexivity].
Qed.

Lemma cls_noglue : forall st cl c, cls_of st = Some cl -> noglue_cls cl c = true -> noglue st c = true.
Proof.
  intros [|num w|s|p] cl c H1 H2; cbn [cls_of] in H1.
  - reflexivity.
  - destruct (exp_tail num w) eqn:E; [discriminate|]. inversion H1; subst. cbn [noglue_cls] in H2.
    cbn [noglue]. rewrite E. cbn [andb]. rewrite orb_false_r. exact H2.
  - discriminate.
  - inversion H1; subst. exact H2.
Qed.

Lemma two_char_second : forall p c, two_char p c = true -> In c second_bytes.
Proof.
  intros p c H. unfold two_char in H. unfold second_bytes.
  repeat (apply orb_true_iff in H; destruct H as [H|H]);
    apply andb_true_iff in H; destruct H as [_ H]; apply Z.eqb_eq in H; subst; cbn; tauto.
Qed.

Lemma border_lh_noglue : forall f st c, border_lh f st = true -> firsts f c = true -> noglue st c = true.
Proof.
  intros f [|num w|s|p] c H Hf; cbn [border_lh] in H; try discriminate; [reflexivity|].
  cbn [noglue]. destruct (two_char p c) eqn:E; [|reflexivity].
  pose proof (two_char_second _ _ E) as Hin. rewrite forallb_forall in H. specialize (H c Hin).
  rewrite Hf, E in H. discriminate.
Qed.

(* ---------------------------------------------------------- tokens *)
Lemma tok_eqb_eq : forall a b, tok_eqb a b = true -> a = b.
Proof.
  intros [x|x|x|x] [y|y|y|y] H; cbn in H; try discriminate;
    try (apply bytes_eqb_eq in H; subst; reflexivity).
  apply Nat.eqb_eq in H. subst. reflexivity.
Qed.

Lemma forallb2_eq : forall a b, forallb2 tok_eqb a b = true -> a = b.
Proof.
  induction a as [|x a IH]; destruct b as [|y b]; cbn [forallb2]; intro H; try discriminate; auto.
  apply andb_true_iff in H. destruct H as [H1 H2]. apply tok_eqb_eq in H1. subst. f_equal. auto.
Qed.

Lemma tsubst_app : forall k a b, tsubst k (a ++ b) = tsubst k a ++ tsubst k b.
Proof. intros. unfold tsubst. apply flat_map_app. Qed.

Lemma tsubst_nohole : forall k ts, forallb not_hole ts = true -> tsubst k ts = ts.
Proof.
  intros k. induction ts as [|t ts IH]; intro H; [reflexivity|].
  cbn [forallb] in H. apply andb_true_iff in H. destruct H as [H1 H2].
  unfold tsubst in *. cbn [flat_map]. rewrite IH by exact H2. destruct t; try reflexivity. discriminate.
Qed.

(* the operators of the two grammars are never placeholders *)
Lemma un_nohole : forall f op p, g_un (gram_of f) op = Some p -> not_hole op = true.
Proof. intros f [w|w|w|k] p H; try reflexivity. destruct f; cbn in H; discriminate. Qed.
Lemma bin_nohole : forall f op p, g_bin (gram_of f) op = Some p -> not_hole op = true.
Proof. intros f [w|w|w|k] p H; try reflexivity. destruct f; cbn in H; discriminate. Qed.
Lemma k_nohole : forall f, not_hole (g_k1 (gram_of f)) = true /\ not_hole (g_k2 (gram_of f)) = true.
Proof. intros []; split; reflexivity. Qed.

Lemma tsubst_cons_nohole : forall k t ts, not_hole t = true -> tsubst k (t :: ts) = t :: tsubst k ts.
Proof. intros k t ts H. unfold tsubst. cbn [flat_map]. destruct t; try reflexivity. discriminate. Qed.

Lemma tsubst_LP : forall k ts, tsubst k (LP :: ts) = LP :: tsubst k ts.
Proof. intros. apply tsubst_cons_nohole. reflexivity. Qed.
Lemma tsubst_RP : forall k, tsubst k [RP] = [RP].
Proof. reflexivity. Qed.

Lemma toks_csubst : forall f hp ks e, wf_prec (gram_of f) hp e = true ->
  toks_of (gram_of f) (csubst ks e) = tsubst (map (toks_of (gram_of f)) ks) (toks_of (gram_of f) e).
Proof.
  intros f hp ks. set (g := gram_of f).
  induction e as [w|s|k|e IHe|e1 IH1 e2 IH2|e IHe w|op e IHe|e IHe|op l IHl r IHr|a IHa b IHb c IHc|e IHe];
    intro H; cbn [wf_prec] in H.
  - reflexivity.
  - reflexivity.
  - cbn [csubst toks_of]. unfold tsubst. cbn [flat_map]. rewrite app_nil_r.
    change [TH k] with (toks_of g (EHole k)). rewrite map_nth. reflexivity.
  - apply andb_true_iff in H. destruct H as [_ H].
    cbn [csubst toks_of]. rewrite tsubst_app, IHe by exact H. reflexivity.
  - apply andb_true_iff in H. destruct H as [H H2]. apply andb_true_iff in H. destruct H as [_ H1].
    cbn [csubst toks_of]. rewrite tsubst_app, tsubst_LP, tsubst_app, IH1, IH2 by assumption. reflexivity.
  - apply andb_true_iff in H. destruct H as [H _]. apply andb_true_iff in H. destruct H as [_ H].
    cbn [csubst toks_of]. rewrite tsubst_app, IHe by exact H. reflexivity.
  - destruct (g_un g op) as [p|] eqn:E; [|discriminate].
    apply andb_true_iff in H. destruct H as [_ H].
    cbn [csubst toks_of]. rewrite tsubst_cons_nohole by (eapply un_nohole; exact E). rewrite IHe by exact H. reflexivity.
  - apply andb_true_iff in H. destruct H as [_ H].
    cbn [csubst toks_of]. rewrite tsubst_LP. rewrite tsubst_cons_nohole by reflexivity.
    change RP with (TP [41]). rewrite tsubst_cons_nohole by reflexivity. rewrite IHe by exact H. reflexivity.
  - destruct (g_bin g op) as [p|] eqn:E; [|discriminate].
    apply andb_true_iff in H. destruct H as [H Hr]. apply andb_true_iff in H. destruct H as [_ Hl].
    cbn [csubst toks_of]. rewrite tsubst_app, tsubst_cons_nohole by (eapply bin_nohole; exact E).
    rewrite IHl, IHr by assumption. reflexivity.
  - apply andb_true_iff in H. destruct H as [H Hc]. apply andb_true_iff in H. destruct H as [H Hb].
    apply andb_true_iff in H. destruct H as [_ Ha].
    destruct (k_nohole f) as [K1 K2]. fold g in K1, K2.
    cbn [csubst toks_of]. rewrite tsubst_app, tsubst_cons_nohole by exact K1.
    rewrite tsubst_app, tsubst_cons_nohole by exact K2. rewrite IHa, IHb, IHc by assumption. reflexivity.
  - apply andb_true_iff in H. destruct H as [H _].
    cbn [csubst toks_of]. rewrite tsubst_LP, tsubst_app, IHe by exact H. reflexivity.
Qed.

(* ------------------------------------------------------ precedences *)
Definition kid_ok (g : gram) (hp : nat) (e : cexpr) : Prop :=
  wf_prec g hp e = true /\ (hp <= prec g hp e)%nat /\ holes_lt 0 e = true /\ not_double g e = true.

Lemma prec_csubst : forall g hp ks e, Forall (kid_ok g hp) ks -> holes_lt (length ks) e = true ->
  (prec g hp e <= prec g hp (csubst ks e))%nat.
Proof.
  intros g hp ks e Hk Hh. destruct e; try (cbn [csubst prec]; lia).
  cbn [holes_lt] in Hh. apply Nat.ltb_lt in Hh. cbn [csubst prec].
  rewrite Forall_forall in Hk. destruct (Hk (nth k ks (EHole k)) (nth_In _ _ Hh)) as [_ [H _]]. exact H.
Qed.

Lemma leb_trans_prec : forall p a b, Nat.leb p a = true -> (a <= b)%nat -> Nat.leb p b = true.
Proof. intros p a b H1 H2. apply Nat.leb_le in H1. apply Nat.leb_le. lia. Qed.

Lemma holes_lt_0 : forall n e, holes_lt 0 e = true -> holes_lt n e = true.
Proof.
  intros n. induction e; cbn [holes_lt]; intro H; auto.
  - apply Nat.ltb_lt in H. lia.
  - apply andb_true_iff in H. destruct H. rewrite IHe1, IHe2; auto.
  - apply andb_true_iff in H. destruct H. rewrite IHe1, IHe2; auto.
  - apply andb_true_iff in H. destruct H as [H H3]. apply andb_true_iff in H. destruct H.
    rewrite IHe1, IHe2, IHe3; auto.
Qed.

Lemma wf_csubst : forall g hp ks e, Forall (kid_ok g hp) ks ->
  wf_prec g hp e = true -> holes_lt (length ks) e = true ->
  wf_prec g hp (csubst ks e) = true /\ holes_lt 0 (csubst ks e) = true.
Proof.
  intros g hp ks e Hk. pose proof (prec_csubst g hp ks) as PC.
  induction e as [w|s|k|e IHe|e1 IH1 e2 IH2|e IHe w|op e IHe|e IHe|op l IHl r IHr|a IHa b IHb c IHc|e IHe];
    intros H Hh; cbn [wf_prec holes_lt] in H, Hh; cbn [csubst].
  - split; [exact H|reflexivity].
  - split; reflexivity.
  - apply Nat.ltb_lt in Hh. rewrite Forall_forall in Hk.
    destruct (Hk (nth k ks (EHole k)) (nth_In _ _ Hh)) as [H1 [_ [H3 _]]]. split; assumption.
  - apply andb_true_iff in H. destruct H as [Hp H]. destruct (IHe H Hh) as [A B].
    cbn [wf_prec holes_lt]. rewrite A, B. rewrite (leb_trans_prec _ _ _ Hp (PC e Hk Hh)). split; reflexivity.
  - apply andb_true_iff in H. destruct H as [H H2]. apply andb_true_iff in H. destruct H as [Hp H1].
    apply andb_true_iff in Hh. destruct Hh as [Hh1 Hh2].
    destruct (IH1 H1 Hh1) as [A1 B1]. destruct (IH2 H2 Hh2) as [A2 B2].
    cbn [wf_prec holes_lt]. rewrite A1, B1, A2, B2. rewrite (leb_trans_prec _ _ _ Hp (PC e1 Hk Hh1)). split; reflexivity.
  - apply andb_true_iff in H. destruct H as [H Hd]. apply andb_true_iff in H. destruct H as [Hp H].
    destruct (IHe H Hh) as [A B].
    cbn [wf_prec holes_lt]. rewrite A, B, Hd. rewrite (leb_trans_prec _ _ _ Hp (PC e Hk Hh)). split; reflexivity.
  - destruct (g_un g op) as [p|] eqn:E; [|discriminate].
    apply andb_true_iff in H. destruct H as [Hp H]. destruct (IHe H Hh) as [A B].
    cbn [wf_prec holes_lt]. rewrite E, A, B. rewrite (leb_trans_prec _ _ _ Hp (PC e Hk Hh)). split; reflexivity.
  - apply andb_true_iff in H. destruct H as [H H1]. apply andb_true_iff in H. destruct H as [Hc Hp].
    destruct (IHe H1 Hh) as [A B].
    cbn [wf_prec holes_lt]. rewrite Hc, A, B. rewrite (leb_trans_prec _ _ _ Hp (PC e Hk Hh)). split; reflexivity.
  - destruct (g_bin g op) as [p|] eqn:E; [|discriminate].
    apply andb_true_iff in H. destruct H as [H Hr]. apply andb_true_iff in H. destruct H as [H Hl].
    apply andb_true_iff in H. destruct H as [Hpl Hpr].
    apply andb_true_iff in Hh. destruct Hh as [Hh1 Hh2].
    destruct (IHl Hl Hh1) as [A1 B1]. destruct (IHr Hr Hh2) as [A2 B2].
    cbn [wf_prec holes_lt]. rewrite E, A1, B1, A2, B2.
    rewrite (leb_trans_prec _ _ _ Hpl (PC l Hk Hh1)), (leb_trans_prec _ _ _ Hpr (PC r Hk Hh2)). split; reflexivity.
  - apply andb_true_iff in H. destruct H as [H Hc]. apply andb_true_iff in H. destruct H as [H Hb].
    apply andb_true_iff in H. destruct H as [H Ha]. apply andb_true_iff in H. destruct H as [H Hpc].
    apply andb_true_iff in H. destruct H as [Hpa Hpb].
    apply andb_true_iff in Hh. destruct Hh as [Hh Hh3]. apply andb_true_iff in Hh. destruct Hh as [Hh1 Hh2].
    destruct (IHa Ha Hh1) as [A1 B1]. destruct (IHb Hb Hh2) as [A2 B2]. destruct (IHc Hc Hh3) as [A3 B3].
    cbn [wf_prec holes_lt]. rewrite A1, B1, A2, B2, A3, B3.
    rewrite (leb_trans_prec _ _ _ Hpa (PC a Hk Hh1)), (leb_trans_prec _ _ _ Hpb (PC b Hk Hh2)),
            (leb_trans_prec _ _ _ Hpc (PC c Hk Hh3)). split; reflexivity.
  - apply andb_true_iff in H. destruct H as [H Hnd]. destruct (IHe H Hh) as [A B].
    cbn [wf_prec holes_lt]. rewrite A. split; [|exact B]. cbn [andb].
    destruct e; cbn [csubst]; try exact Hnd;
      try (unfold not_double; rewrite andb_false_r; reflexivity).
    cbn [holes_lt] in Hh. apply Nat.ltb_lt in Hh. rewrite Forall_forall in Hk.
    destruct (Hk (nth k ks (EHole k)) (nth_In _ _ Hh)) as [_ [_ [_ H4]]]. exact H4.
Qed.

Lemma not_double_csubst : forall g hp ks e, Forall (kid_ok g hp) ks ->
  is_hole e = false -> not_double g e = true -> not_double g (csubst ks e) = true.
Proof.
  intros g hp ks e Hk Hh Hn. destruct e; cbn [csubst]; try exact Hn;
    try (unfold not_double; rewrite andb_false_r; reflexivity). discriminate.
Qed.

(* ------------------------------------------------------- small facts *)
Lemma acls_eqb_eq : forall a b, acls_eqb a b = true -> a = b.
Proof. intros [| |p] [| |q] H; cbn in H; try discriminate; auto. apply Z.eqb_eq in H. subst. reflexivity. Qed.

Lemma root_min_le : forall f, (root_min f <= PMAX)%nat.
Proof.
  intro f. unfold root_min. generalize (map (entry_root (gram_of f)) (fun_table f)).
  induction l as [|x l IH]; cbn [fold_right]; lia.
Qed.

Lemma Forall2_nth : forall {A B} (P : A -> B -> Prop) l1 l2 i d1 d2,
  Forall2 P l1 l2 -> (i < length l1)%nat -> P (nth i l1 d1) (nth i l2 d2).
Proof.
  intros A B P l1 l2 i d1 d2 H. revert i. induction H as [|x y l1 l2 Hxy H IH]; intros i Hi; cbn [length] in Hi; [lia|].
  destruct i as [|i]; cbn [nth]; [exact Hxy|apply IH; lia].
Qed.

Lemma inst_seg_find : forall kts i d,
  inst_seg i kts (Hole d) =
  match find (fun j => bytes_eqb d (dec_nat (S j))) (seq i (length kts)) with
  | Some j => Lit (nth (j - i) kts [])
  | None => Hole d
  end.
Proof.
  induction kts as [|k ks IH]; intros i d; cbn [inst_seg length seq find]; [reflexivity|].
  destruct (bytes_eqb d (dec_nat (S i))) eqn:E.
  - rewrite Nat.sub_diag. reflexivity.
  - rewrite IH. destruct (find _ (seq (S i) (length ks))) as [j|] eqn:Ef; [|reflexivity].
    apply find_some in Ef. destruct Ef as [Hin _]. apply in_seq in Hin.
    replace (j - i)%nat with (S (j - S i)) by lia. reflexivity.
Qed.

Lemma is_word_not_space : forall c, is_word c = true -> is_space c = false.
Proof.
  intros c H. unfold is_space. destruct (Z.eqb_spec c 32) as [->|_]; [discriminate|].
  destruct (Z.eqb_spec c 9) as [->|_]; [discriminate|reflexivity].
Qed.

Lemma lstart_word : forall c, is_word c = true -> lstart c = LWord (is_digit c) [c].
Proof. intros c H. unfold lstart. rewrite (is_word_not_space _ H), H. reflexivity. Qed.

Lemma lsteps_word : forall w num acc, forallb is_word w = true ->
  lsteps (LWord num acc) w = ([], LWord num (rev w ++ acc)).
Proof.
  induction w as [|c w IH]; intros num acc H; [reflexivity|].
  cbn [forallb] in H. apply andb_true_iff in H. destruct H as [H1 H2].
  cbn [lsteps lstep]. rewrite H1. cbn [orb]. rewrite IH by exact H2.
  cbn [app rev]. rewrite <- app_assoc. reflexivity.
Qed.

(* a word is one token *)
Lemma piece_word : forall w, w <> [] -> forallb is_word w = true ->
  exp_tail (match w with c :: _ => is_digit c | [] => false end) (rev w) = false ->
  piece_ok w [TW w] /\ cls_of (end_state w) = Some AWord.
Proof.
  intros w Hw Hall Hexp. destruct w as [|c r]; [congruence|].
  cbn [forallb] in Hall. apply andb_true_iff in Hall. destruct Hall as [Hc Hr].
  assert (E : lsteps LIdle (c :: r) = ([], LWord (is_digit c) (rev (c :: r)))).
  { cbn [lsteps lstep]. rewrite (lstart_word _ Hc). rewrite (lsteps_word r _ _ Hr). reflexivity. }
  unfold piece_ok, end_state. rewrite E. cbn [fst snd lfinish cls_of]. rewrite Hexp.
  split; [|reflexivity]. split; [discriminate|]. exists [TW (c :: r)]. rewrite rev_involutive. split; reflexivity.
Qed.

Lemma lsteps_str : forall s acc, forallb (fun c => negb (c =? QUOTE)) s = true ->
  lsteps (LStr acc) (s ++ [QUOTE]) = ([TS (rev acc ++ s)], LIdle).
Proof.
  induction s as [|c s IH]; intros acc H.
  - cbn. rewrite app_nil_r. reflexivity.
  - cbn [forallb] in H. apply andb_true_iff in H. destruct H as [H1 H2]. apply negb_true_iff in H1.
    cbn [app lsteps lstep]. rewrite H1. rewrite IH by exact H2. cbn [rev app]. rewrite <- app_assoc. reflexivity.
Qed.

Lemma piece_str : forall s, forallb (fun c => negb (c =? QUOTE)) s = true ->
  piece_ok (QUOTE :: s ++ [QUOTE]) [TS s] /\ cls_of (end_state (QUOTE :: s ++ [QUOTE])) = Some AIdle.
Proof.
  intros s H.
  assert (E : lsteps LIdle (QUOTE :: s ++ [QUOTE]) = ([TS s], LIdle)).
  { cbn [lsteps lstep]. change (lstart QUOTE) with (LStr []). rewrite (lsteps_str s [] H). reflexivity. }
  unfold piece_ok, end_state. rewrite E. cbn [fst snd lfinish cls_of].
  split; [|reflexivity]. split; [discriminate|]. exists []. split; reflexivity.
Qed.

Lemma piece_punct : forall c, is_space c = false -> is_word c = false -> (c =? QUOTE) = false ->
  piece_ok [c] [TP [c]] /\ end_state [c] = LPunct c.
Proof.
  intros c H1 H2 H3. unfold piece_ok, end_state. cbn [lsteps lstep]. unfold lstart. rewrite H1, H2, H3.
  cbn [fst snd lfinish]. split; [|reflexivity]. split; [discriminate|]. exists [TP [c]]. split; reflexivity.
Qed.

(* ------------------------------- one node: template + argument texts *)
Section Node.
Variable f : fmt.

(* what the induction knows of the text printed for a sub-program *)
Definition known (x : bytes) (ts : list tok) : Prop :=
  piece_ok x ts /\ firsts f (hd 0 x) = true /\ exists cl, cls_of (end_state x) = Some cl /\ In cl ends.

Lemma hole_facts : forall ktxt ktoks d i,
  Forall2 known ktxt ktoks -> hole_index (length ktxt) d = Some i ->
  inst_seg 0 ktxt (Hole d) = Lit (nth i ktxt []) /\
  known (nth i ktxt []) (nth i ktoks [TH i]) /\ hole_num (length ktxt) d = i.
Proof.
  intros ktxt ktoks d i HK Hi. unfold hole_num. rewrite Hi.
  rewrite inst_seg_find. unfold hole_index in Hi. rewrite Hi. rewrite Nat.sub_0_r.
  apply find_some in Hi. destruct Hi as [Hin _]. apply in_seq in Hin.
  split; [reflexivity|]. split; [|reflexivity]. apply Forall2_nth; [exact HK|lia].
Qed.

Lemma inst_seg_lit : forall i k l, inst_seg i k (Lit l) = Lit l.
Proof. intros i [|x k] l; reflexivity. Qed.

Lemma tsubst_hole : forall k i ts, tsubst k (TH i :: ts) = nth i k [TH i] ++ tsubst k ts.
Proof. reflexivity. Qed.

Lemma segs_lex : forall ktxt ktoks, Forall2 known ktxt ktoks ->
  forall sgs, sgs <> [] ->
  segs_okb (length ktxt) sgs = true -> lits_ok sgs = true -> borders_ok f sgs = true ->
  exists ts0, tlex (length ktxt) sgs = Some ts0 /\
    piece_ok (flat (map (inst_seg 0 ktxt) sgs)) (tsubst ktoks ts0) /\
    (exists cl, cls_of (end_state (flat (map (inst_seg 0 ktxt) sgs))) = Some cl /\ In cl ends) /\
    hd 0 (flat (map (inst_seg 0 ktxt) sgs)) =
      match sgs with
      | sg :: _ => hd 0 (seg_text (inst_seg 0 ktxt sg))
      | [] => 0
      end.
Proof.
  intros ktxt ktoks HK. set (n := length ktxt).
  induction sgs as [|sg r IH]; intros Hne Hok Hlit Hbor; [congruence|].
  destruct sg as [l|d].
  - (* a literal piece *)
    cbn [segs_okb] in Hok. apply andb_true_iff in Hok. destruct Hok as [_ Hok].
    cbn [lits_ok] in Hlit. apply andb_true_iff in Hlit. destruct Hlit as [Hl Hlit].
    destruct (lex l) as [tl|] eqn:El; [|discriminate].
    cbn [borders_ok] in Hbor. apply andb_true_iff in Hbor. destruct Hbor as [Hb Hbor].
    apply andb_true_iff in Hb. destruct Hb as [Hln Hb]. apply negb_true_iff in Hln.
    assert (Hl0 : l <> []) by (intro; subst; discriminate).
    pose proof (lex_piece l tl Hl0 El) as Pl.
    cbn [map]. rewrite inst_seg_lit. rewrite flat_cons. cbn [seg_text tlex]. rewrite El.
    destruct r as [|sg2 r'].
    + exists (tl ++ []). cbn [tlex map]. split; [reflexivity|].
      change (flat []) with (@nil Z). rewrite !app_nil_r. rewrite (tsubst_nohole _ _ Hl).
      split; [exact Pl|]. split; [|reflexivity].
      apply existsb_exists in Hb. destruct Hb as [cl [Hin Hcl]].
      destruct (cls_of (end_state l)) as [x|]; [|discriminate]. apply acls_eqb_eq in Hcl. subst. exists cl. auto.
    + destruct sg2 as [l2|d2]; [discriminate|].
      destruct (IH ltac:(discriminate) Hok Hlit Hbor) as [tr [Etr [Pr [Cr Hr]]]].
      rewrite Etr. exists (tl ++ tr). split; [reflexivity|].
      rewrite tsubst_app, (tsubst_nohole _ _ Hl).
      (* the argument that follows starts with a byte of [firsts] *)
      cbn [segs_okb] in Hok.
      apply andb_true_iff in Hok. destruct Hok as [Hok _].
      apply andb_true_iff in Hok. destruct Hok as [Hok _].
      apply andb_true_iff in Hok. destruct Hok as [_ Hidx].
      destruct (hole_index n d2) as [i|] eqn:Ei; [|discriminate].
      destruct (hole_facts ktxt ktoks d2 i HK Ei) as [Hinst [[_ [Hfirst _]] _]].
      assert (Hg : noglue (end_state l) (hd 0 (flat (map (inst_seg 0 ktxt) (Hole d2 :: r')))) = true).
      { rewrite Hr. rewrite Hinst. cbn [seg_text]. eapply border_lh_noglue; eauto. }
      destruct (piece_app _ _ _ _ Pl Pr Hg) as [P [Eend Ehd]].
      split; [exact P|]. split; [rewrite Eend; exact Cr|exact Ehd].
  - (* an argument *)
    cbn [segs_okb] in Hok.
    apply andb_true_iff in Hok. destruct Hok as [Hok Hokr].
    apply andb_true_iff in Hok. destruct Hok as [Hok _].
    apply andb_true_iff in Hok. destruct Hok as [_ Hidx].
    destruct (hole_index n d) as [i|] eqn:Ei; [|discriminate].
    destruct (hole_facts ktxt ktoks d i HK Ei) as [Hinst [[Pk [Hfirst [cl [Hcl Hin]]]] Hnum]].
    cbn [lits_ok] in Hlit.
    cbn [borders_ok] in Hbor. apply andb_true_iff in Hbor. destruct Hbor as [Hb Hbor].
    cbn [map]. rewrite flat_cons. rewrite Hinst. cbn [seg_text tlex]. fold n in Hnum. rewrite Hnum.
    destruct r as [|sg2 r'].
    + exists [TH i]. cbn [tlex map]. split; [reflexivity|].
      change (flat []) with (@nil Z). rewrite app_nil_r. rewrite tsubst_hole.
      change (tsubst ktoks []) with (@nil tok). rewrite app_nil_r.
      split; [exact Pk|]. split; [exists cl; auto|reflexivity].
    + destruct sg2 as [l2|d2]; [|discriminate]. destruct l2 as [|c l2]; [discriminate|].
      destruct (IH ltac:(discriminate) Hokr Hlit Hbor) as [tr [Etr [Pr [Cr Hr]]]].
      rewrite Etr. exists (TH i :: tr). split; [reflexivity|]. rewrite tsubst_hole.
      assert (Hg : noglue (end_state (nth i ktxt [])) (hd 0 (flat (map (inst_seg 0 ktxt) (Lit (c :: l2) :: r')))) = true).
      { rewrite Hr. rewrite inst_seg_lit. cbn [seg_text hd]. rewrite forallb_forall in Hb. eapply cls_noglue; eauto. }
      destruct (piece_app _ _ _ _ Pk Pr Hg) as [P [Eend Ehd]].
      split; [exact P|]. split; [rewrite Eend; exact Cr|exact Ehd].
Qed.

(* ------------------------------------------------------- terminals *)
Lemma known_shape : forall sh, shape_ok (gram_of f) sh = true ->
  known (shape_text sh) (toks_of (gram_of f) (shape_ast sh)) /\ kid_ok (gram_of f) (root_min f) (shape_ast sh).
Proof.
  intros sh H. pose proof (root_min_le f) as Hle.
  assert (Wk : forall w, word_ok (gram_of f) w = true ->
           w <> [] /\ forallb is_word w = true /\ negb (reserved (gram_of f) w) = true /\ negb (starts_dot w) = true /\
           exp_tail (match w with c :: _ => is_digit c | [] => false end) (rev w) = false /\
           not_double (gram_of f) (EAtom w) = true).
  { intros w Hw. unfold word_ok in Hw.
    repeat (apply andb_true_iff in Hw; destruct Hw as [Hw ?]).
    repeat split; auto.
    - intro; subst. discriminate.
    - apply negb_true_iff. assumption. }
  assert (ND : forall e, (match e with EAtom _ => False | _ => True end) -> not_double (gram_of f) e = true).
  { intros e He. unfold not_double. destruct e; try contradiction; rewrite andb_false_r; reflexivity. }
  destruct sh as [w|s|w]; cbn [shape_ok shape_text shape_ast toks_of] in *.
  - destruct (Wk w H) as [Hn [Hall [Hres [Hdot [Hexp Hnd]]]]].
    destruct (piece_word w Hn Hall Hexp) as [P C].
    split.
    + split; [exact P|]. split.
      * destruct w as [|c r]; [congruence|]. cbn [forallb] in Hall. apply andb_true_iff in Hall. destruct Hall as [Hc _].
        cbn [hd]. unfold firsts. rewrite Hc. reflexivity.
      * exists AWord. split; [exact C|cbn; tauto].
    + split; [cbn [wf_prec]; rewrite Hres, Hdot; reflexivity|]. split; [exact Hle|]. split; [reflexivity|exact Hnd].
  - destruct (piece_str s H) as [P C]. split.
    + split; [exact P|]. split; [reflexivity|].
      exists AIdle. split; [exact C|cbn; tauto].
    + split; [reflexivity|]. split; [exact Hle|]. split; [reflexivity|apply ND; exact I].
  - destruct (Wk w H) as [Hn [Hall [Hres [Hdot [Hexp Hnd]]]]].
    destruct (piece_word w Hn Hall Hexp) as [Pw Cw].
    destruct (piece_punct LPAR eq_refl eq_refl eq_refl) as [P1 E1].
    destruct (piece_punct MINUS eq_refl eq_refl eq_refl) as [P2 E2].
    destruct (piece_punct RPAR eq_refl eq_refl eq_refl) as [P3 E3].
    destruct w as [|c r]; [congruence|].
    assert (Hc : is_word c = true) by (cbn [forallb] in Hall; apply andb_true_iff in Hall; tauto).
    (* "-" ++ w *)
    assert (G2 : noglue (end_state [MINUS]) (hd 0 (c :: r)) = true).
    { rewrite E2. cbn [noglue hd].
      assert (Hc45 : (c =? 45) = false) by (destruct (Z.eqb_spec c 45) as [->|_]; [discriminate|reflexivity]).
      unfold two_char, MINUS. rewrite Hc45. reflexivity. }
    destruct (piece_app _ _ _ _ P2 Pw G2) as [P2w [E2w H2w]].
    (* ... ++ ")" *)
    assert (G3 : noglue (end_state ([MINUS] ++ c :: r)) (hd 0 [RPAR]) = true).
    { rewrite E2w. eapply cls_noglue; [exact Cw|reflexivity]. }
    destruct (piece_app _ _ _ _ P2w P3 G3) as [P23 [E23 H23]].
    (* "(" ++ ... *)
    assert (G1 : noglue (end_state [LPAR]) (hd 0 (([MINUS] ++ c :: r) ++ [RPAR])) = true).
    { rewrite E1. reflexivity. }
    destruct (piece_app _ _ _ _ P1 P23 G1) as [P [E H1]].
    assert (Etxt : LPAR :: MINUS :: (c :: r) ++ [RPAR] = [LPAR] ++ ([MINUS] ++ c :: r) ++ [RPAR]) by reflexivity.
    rewrite Etxt. split.
    + split; [exact P|]. split.
      * rewrite H1. reflexivity.
      * exists (APunct RPAR). split; [rewrite E, E23, E3; reflexivity|cbn; tauto].
    + split.
      * assert (Hun : exists p, g_un (gram_of f) (p1 MINUS) = Some p /\ (p <= PMAX)%nat)
          by (destruct f; cbn; eexists; (split; [reflexivity|apply Nat.leb_le; reflexivity])).
        destruct Hun as [p [Hp Hle2]]. cbn [wf_prec prec]. rewrite Hp, Hres, Hdot.
        rewrite (proj2 (Nat.leb_le _ _) Hle2). cbn [andb]. apply ND. exact I.
      * split; [exact Hle|]. split; [reflexivity|apply ND; exact I].
Qed.

End Node.

Lemma shape_paren : forall g sh, shape_ok g sh = true ->
  hd 0 (shape_text sh) = LPAR -> is_paren (shape_ast sh) = true.
Proof.
  intros g [w|s|w] H Hh; cbn [shape_text shape_ast is_paren hd] in *; try reflexivity; try discriminate.
  destruct w as [|c r]; [discriminate|]. cbn [hd] in Hh. subst c.
  unfold shape_ok, word_ok in H. repeat (apply andb_true_iff in H; destruct H as [H ?]).
  match goal with h : forallb is_word _ = true |- _ => cbn in h; discriminate end.
Qed.

(* ------------------------------------------------------- all programs *)
Definition node_fact (f : fmt) (env : lang_env) (t : tree) (txt : bytes) : Prop :=
  render_tree env f t = Some txt /\
  known f txt (toks_of (gram_of f) (ast env f t)) /\
  kid_ok (gram_of f) (root_min f) (ast env f t) /\
  (hd 0 txt = LPAR -> is_paren (ast env f t) = true).

Lemma ast_terminal : forall env f s par,
  ast env f (Node s par []) =
  shape_ast (shape_of (match sym_text env f s par with Some x => x | None => [] end)).
Proof. reflexivity. Qed.

Lemma ast_function : forall env f s par kids, kids <> [] ->
  ast env f (Node s par kids) =
  csubst (map (ast env f) kids)
    (match tmpl_ast (gram_of f) (length kids) (match sym_text env f s par with Some x => x | None => [] end) with
     | Some a => a | None => EHole O end).
Proof. intros env f s par [|k ks] H; [congruence|reflexivity]. Qed.

Lemma kids_facts : forall f env kids,
  Forall (fun k => good_tree env f k = true -> tree_ok env f k = true -> exists txt, node_fact f env k txt) kids ->
  forallb (good_tree env f) kids = true -> forallb (tree_ok env f) kids = true ->
  exists ktxt,
    map_opt (render_tree env f) kids = Some ktxt /\
    Forall2 (known f) ktxt (map (fun k => toks_of (gram_of f) (ast env f k)) kids) /\
    Forall (kid_ok (gram_of f) (root_min f)) (map (ast env f) kids) /\
    forallb psafe ktxt = true.
Proof.
  intros f env. induction kids as [|k ks IH]; intros HF Hg Ho.
  - exists []. repeat split; constructor.
  - inversion HF as [|? ? Hk Hks]; subst.
    cbn [forallb] in Hg, Ho. apply andb_true_iff in Hg. destruct Hg as [Hg1 Hg2].
    apply andb_true_iff in Ho. destruct Ho as [Ho1 Ho2].
    destruct (Hk Hg1 Ho1) as [x [Hr [Hkn [Hko _]]]].
    destruct (IH Hks Hg2 Ho2) as [xs [Hm [H2 [H3 H4]]]].
    destruct (render_good env f k Hg1) as [x' [Hr' Hps]]. rewrite Hr in Hr'. inversion Hr'; subst x'.
    exists (x :: xs). cbn [map_opt map forallb]. rewrite Hr, Hm, Hps, H4.
    repeat split; constructor; assumption.
Qed.

Lemma existsb_entry : forall e l, existsb (entry_eqb e) l = true -> In e l.
Proof.
  intros [n t] l H. apply existsb_exists in H. destruct H as [[n' t'] [Hin He]].
  unfold entry_eqb in He. cbn [fst snd] in He. apply andb_true_iff in He. destruct He as [H1 H2].
  apply Nat.eqb_eq in H1. apply bytes_eqb_eq in H2. subst. exact Hin.
Qed.

Lemma firsts_entry : forall f n c t, In (n, c :: t) (fun_table f) -> firsts f c = true.
Proof.
  intros f n c t Hin. unfold firsts. apply orb_true_iff. right.
  apply existsb_exists. exists (n, c :: t). split; [exact Hin|]. cbn [snd]. apply Z.eqb_refl.
Qed.

Theorem table_all_trees : forall f env, table_ok f = true -> forall t,
  good_tree env f t = true -> tree_ok env f t = true -> exists txt, node_fact f env t txt.
Proof.
  intros f env Htab. induction t as [s par kids IHk] using tree_ind2. intros Hg Ho.
  cbn [good_tree] in Hg. apply andb_true_iff in Hg. destruct Hg as [Hgs Hgk].
  cbn [tree_ok] in Ho. apply andb_true_iff in Ho. destruct Ho as [Hos Hok].
  destruct (sym_text env f s par) as [tm|] eqn:Et; [|discriminate].
  destruct (kids_facts f env kids IHk Hgk Hok) as [ktxt [Hm [HK [HKO Hps]]]].
  pose proof (map_opt_length _ _ _ Hm) as Hlen.
  destruct kids as [|k0 ks].
  - (* terminal *)
    cbn [map_opt] in Hm. inversion Hm; subst ktxt.
    exists tm. unfold node_fact. rewrite render_tree_eq, Et. cbn [map_opt subst_seq].
    rewrite ast_terminal, Et.
    unfold term_ok in Hos. apply andb_true_iff in Hos. destruct Hos as [Hsh Heq].
    apply bytes_eqb_eq in Heq. destruct (known_shape f _ Hsh) as [A B]. rewrite Heq in A.
    split; [reflexivity|]. split; [assumption|]. split; [assumption|].
    intro Hh. apply (shape_paren _ _ Hsh). rewrite Heq. exact Hh.
  - (* function node: its entry of the table *)
    set (kids := k0 :: ks) in *.
    assert (Hne : kids <> []) by discriminate.
    change (match kids with [] => term_ok (gram_of f) tm | _ => existsb (entry_eqb (length kids, tm)) (fun_table f) end)
      with (existsb (entry_eqb (length kids, tm)) (fun_table f)) in Hos.
    apply existsb_entry in Hos.
    unfold table_ok in Htab. rewrite forallb_forall in Htab. pose proof (Htab _ Hos) as He.
    rewrite <- Hlen in He, Hgs, Hos.
    unfold entry_ok in He.
    apply andb_true_iff in He. destruct He as [He Hast].
    apply andb_true_iff in He. destruct He as [He Hstart].
    apply andb_true_iff in He. destruct He as [He Hbor].
    apply andb_true_iff in He. destruct He as [Hto Hlit].
    destruct (tlex (length ktxt) (segs_of tm)) as [ts|] eqn:Etl; [|discriminate].
    destruct (tmpl_ast (gram_of f) (length ktxt) tm) as [a|] eqn:Ea; [|discriminate].
    apply andb_true_iff in Hast. destruct Hast as [Hast Hnd].
    apply andb_true_iff in Hast. destruct Hast as [Hast Hnh]. apply negb_true_iff in Hnh.
    apply andb_true_iff in Hast. destruct Hast as [Hast Hpar].
    apply andb_true_iff in Hast. destruct Hast as [Hast Hholes].
    apply andb_true_iff in Hast. destruct Hast as [Hast Hroot].
    apply andb_true_iff in Hast. destruct Hast as [Htoks Hwf].
    apply forallb2_eq in Htoks.
    (* the text *)
    exists (inst (segs_of tm) ktxt). unfold node_fact.
    rewrite render_tree_eq, Et, Hm. rewrite (subst_seq_inst _ _ _ Hgs Hps).
    rewrite (ast_function env f s par kids Hne), Et. rewrite <- Hlen, Ea.
    pose proof Hto as Hto'. unfold tmpl_okb in Hto'. apply andb_true_iff in Hto'. destruct Hto' as [Hflat Hsegs].
    apply bytes_eqb_eq in Hflat.
    assert (Hsne : segs_of tm <> []).
    { destruct (segs_of tm); [discriminate|discriminate]. }
    destruct (segs_lex f ktxt _ HK (segs_of tm) Hsne Hsegs Hlit Hbor) as [ts0 [Ets0 [P [C Hhd]]]].
    rewrite Etl in Ets0. inversion Ets0; subst ts0.
    split; [reflexivity|]. split; [|split].
    + unfold inst. split; [|split].
      * rewrite (toks_csubst f (root_min f)) by exact Hwf. rewrite map_map. rewrite Htoks. exact P.
      * rewrite Hhd. destruct (segs_of tm) as [|[l|d] r] eqn:Es; try discriminate.
        destruct l as [|c l]; [discriminate|]. rewrite inst_seg_lit. cbn [seg_text hd].
        rewrite <- Hflat in Hos. rewrite flat_cons in Hos. cbn [seg_text app] in Hos.
        eapply firsts_entry. exact Hos.
      * exact C.
    + assert (Hlen2 : length (map (ast env f) kids) = length ktxt) by (rewrite map_length; symmetry; exact Hlen).
      destruct (wf_csubst (gram_of f) (root_min f) (map (ast env f) kids) a HKO Hwf) as [W H0].
      { rewrite Hlen2. exact Hholes. }
      split; [exact W|]. split; [|split; [exact H0|eapply not_double_csubst; eauto]].
      apply Nat.leb_le in Hroot.
      pose proof (prec_csubst (gram_of f) (root_min f) (map (ast env f) kids) a HKO) as PC.
      rewrite Hlen2 in PC. specialize (PC Hholes). exact (Nat.le_trans _ _ _ Hroot PC).
    + (* a text that starts with '(' is a parenthesised expression *)
      unfold inst. rewrite Hhd. destruct (segs_of tm) as [|[l|d] r] eqn:Es; try discriminate.
      destruct l as [|c l]; [discriminate|]. rewrite inst_seg_lit. cbn [seg_text hd]. intro Hc. subst c.
      rewrite <- Hflat in Hpar. rewrite flat_cons in Hpar. cbn [seg_text app] in Hpar.
      rewrite Z.eqb_refl in Hpar. cbn [negb orb] in Hpar.
      destruct a; try discriminate. reflexivity.
Qed.

(* the statements used by Props/Properties_C19.v *)
Corollary lex_render_all_trees : forall f env t,
  table_ok f = true -> good_tree env f t = true -> tree_ok env f t = true ->
  exists txt, render_tree env f t = Some txt /\
    lex txt = Some (toks_of (gram_of f) (ast env f t)) /\
    wf_prec (gram_of f) (root_min f) (ast env f t) = true /\
    holes_lt 0 (ast env f t) = true.
Proof.
  intros f env t Htab Hg Ho. destruct (table_all_trees f env Htab t Hg Ho) as [txt [Hr [[P _] [[W [_ [H0 _]]] _]]]].
  exists txt. split; [exact Hr|]. split; [apply piece_lex; exact P|]. split; assumption.
Qed.
