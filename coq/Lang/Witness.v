(* C19 -- concrete programs and texts used by the non-vacuity Examples and by
   the refutation witnesses.  Definitions only. *)
From Coq Require Import ZArith List Bool String Ascii.
From VV Require Import Base.F64 Base.Values Interp.Strategy Cxx.CxxMini Gen.Prims Mep.Genome Interp.MachineDefs.
From VV Require Import Lang.LangBase Gen.Templates Lang.LangDefs Lang.SynDefs Lang.CDenote.
Import ListNotations.
Local Open Scope Z_scope.

Fixpoint bz (s : string) : bytes :=
  match s with
  | EmptyString => []
  | String a r => Z.of_N (N_of_ascii a) :: bz r
  end.

Definition mk_sym (op : Z) (argcats : list nat) : sym :=
  {| s_opcode := op; s_cat := O; s_argcats := argcats; s_parametric := false; s_strat := Ret (Val VVoid) |}.
Definition var_class (name : string) : tclass :=
  {| tc_terminal := true; tc_name := bz name; tc_arity := O; tc_parametric := false;
     tc_c := TDefault; tc_cpp := TDefault; tc_mql := TDefault; tc_py := TDefault |}.

(* opcodes: 0 FDIV, 1 X1, 2 FSIGMOID, 3 the constant -3.5, 4 FSUB, 5 FIFL, 6 "a b", 7 FLENGTH,
   8 a variable whose NAME is the placeholder %%2%%, 9 FADD, 10 Y *)
Definition env0 : lang_env := fun op =>
  match op with
  | 0 => Some (SClass tc_real_div)
  | 1 => Some (SClass (var_class "X1"))
  | 2 => Some (SClass tc_real_sigmoid)
  | 3 => Some (SConstD (F64.of_bits 13838435755002691584))     (* -3.5 *)
  | 4 => Some (SClass tc_real_sub)
  | 5 => Some (SClass tc_real_ifl)
  | 6 => Some (SConstS (bz "a b"))
  | 7 => Some (SClass tc_real_length)
  | 8 => Some (SClass (var_class "%%2%%"))
  | 9 => Some (SClass tc_real_add)
  | 10 => Some (SClass (var_class "Y"))
  | _ => None
  end.
Definition leaf (op : Z) : tree := Node (mk_sym op []) F64.zero [].
Definition node1 (op : Z) (a : tree) : tree := Node (mk_sym op [O]) F64.zero [a].
Definition node2 (op : Z) (a b : tree) : tree := Node (mk_sym op [O; O]) F64.zero [a; b].
Definition node4 (op : Z) (a b c d : tree) : tree := Node (mk_sym op [O; O; O; O]) F64.zero [a; b; c; d].

(* FDIV(X1, FSIGMOID(FSUB(X1, -3.5))) *)
Definition t_div_sigmoid : tree := node2 0 (leaf 1) (node1 2 (node2 4 (leaf 1) (leaf 3))).
(* FIFL(X1, -3.5, FLENGTH("a b"), FDIV(X1, X1)) *)
Definition t_cond : tree := node4 5 (leaf 1) (leaf 3) (node1 7 (leaf 6)) (node2 0 (leaf 1) (leaf 1)).
(* FADD(<variable named %%2%%>, Y) *)
Definition t_placeholder_name : tree := node2 9 (leaf 8) (leaf 10).

(* the templates and the terminal text of the PINNED tree (before the fix: commits of branch wt-c19) *)
Definition pinned_sigmoid_c : bytes := bz "1 / (1 + exp(-%%1%%))".
Definition pinned_not_py : bytes := bz "not(%%1%%)".
Definition pinned_length_c : bytes := bz "strlen(%%1%%)".
Definition tmpl_div : bytes := bz "(%%1%%/%%2%%)".
Definition tmpl_sub : bytes := bz "(%%1%%-%%2%%)".
Definition tmpl_add : bytes := bz "(%%1%%+%%2%%)".

(* ---- for the non-vacuity of C19_c_denotes_partial: a C library (unused by the
   example), a strtod that knows the literal of the example, one input variable
   X1 = 1.5, and the program FIFL(X1, 3.5, FDIV(X1, FSQRT(3.5)), FABS(X1)) whose
   symbols carry the REGENERATED bodies (MachineDefs.prim_sym) *)
Definition d35 : f64 := F64.of_bits 4615063718147915776.      (* 3.5 *)
Definition d15 : f64 := F64.of_bits 4609434218613702656.      (* 1.5 *)
Definition lm0 : libm := {| l_log := fun x => x; l_exp := fun x => x; l_sin := fun x => x; l_cos := fun x => x |}.
Definition pow0 : f64 -> f64 -> f64 := fun x _ => x.
Definition lit0 : bytes -> option f64 := fun w =>
  if bytes_eqb w (bz "3.500000") then Some d35 else None.
Definition rho0 : bytes -> option cval := fun w => if bytes_eqb w (bz "X1") then Some (CD d15) else None.
Definition vars0 : varenv := fun i => match i with O => Some (VDouble d15) | _ => None end.
Definition env1 : lang_env := fun op =>
  match op with
  | 0 => Some (SClass tc_real_div)
  | 1 => Some (SClass (var_class "X1"))
  | 2 => Some (SClass tc_real_sqrt)
  | 3 => Some (SConstD d35)
  | 4 => Some (SClass tc_real_abs)
  | 5 => Some (SClass tc_real_ifl)
  | _ => None
  end.
Definition s_x1 : sym := variable_sym 1 O O.
Definition s_35 : sym := constant_sym 3 (VDouble d35) O.
Definition lf (s : sym) : tree := Node s F64.zero [].
Definition t_exec : tree :=
  Node (prim_sym lm0 5 real_ifl_body O [O; O; O; O] false) F64.zero
    [lf s_x1; lf s_35;
     Node (prim_sym lm0 0 real_div_body O [O; O] false) F64.zero
       [lf s_x1; Node (prim_sym lm0 2 real_sqrt_body O [O] false) F64.zero [lf s_35]];
     Node (prim_sym lm0 4 real_abs_body O [O] false) F64.zero [lf s_x1]].
