(* C19 -- the hypotheses of the C-denotation theorem are met by a real program *)
From Coq Require Import ZArith List Bool String.
From VV Require Import Base.F64 Mep.Genome Lang.LangBase Gen.Templates Lang.LangDefs Lang.SynDefs
  Lang.CDenote Lang.Witness.
Import ListNotations.

Ltac leaf_ok :=
  apply F_leaf; intros x Hx; vm_compute in Hx; inversion Hx; subst; vm_compute; reflexivity.
Ltac op_ok c :=
  apply (F_op _ _ _ _ _ _ c); [reflexivity|cbn; tauto|reflexivity|reflexivity|].

Lemma frag_example : frag lit0 rho0 env1 t_exec.
Proof.
  unfold t_exec, node4, node2, node1, leaf.
  op_ok tc_real_ifl. constructor; [leaf_ok|]. constructor; [leaf_ok|]. constructor; [|constructor; [|constructor]].
  - op_ok tc_real_div. constructor; [leaf_ok|]. constructor; [|constructor].
    op_ok tc_real_sqrt. constructor; [leaf_ok|constructor].
  - op_ok tc_real_abs. constructor; [leaf_ok|constructor].
Qed.
