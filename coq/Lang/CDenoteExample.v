(* C19 -- the hypotheses of the C-denotation theorem are met by a real program *)
From Coq Require Import ZArith List Bool String.
From VV Require Import Base.F64 Base.Values Interp.Strategy Cxx.CxxMini Gen.Prims Mep.Genome Interp.MachineDefs.
From VV Require Import Lang.LangBase Gen.Templates Lang.LangDefs Lang.SynDefs Lang.CDenote Lang.Witness.
Import ListNotations.

Ltac leaf_ok :=
  apply F_leaf; intros v Hv Hnv; vm_compute in Hv; inversion Hv; subst;
  eexists; split; [vm_compute; reflexivity|reflexivity].
Ltac op_ok c b :=
  apply (F_op _ _ _ _ _ _ _ _ _ c b); [reflexivity|cbn; tauto|reflexivity|reflexivity|reflexivity|].

Lemma frag_example : frag lm0 pow0 lit0 rho0 vars0 env1 t_exec.
Proof.
  unfold t_exec, lf.
  op_ok tc_real_ifl real_ifl_body. constructor; [leaf_ok|]. constructor; [leaf_ok|].
  constructor; [|constructor; [|constructor]].
  - op_ok tc_real_div real_div_body. constructor; [leaf_ok|]. constructor; [|constructor].
    op_ok tc_real_sqrt real_sqrt_body. constructor; [leaf_ok|constructor].
  - op_ok tc_real_abs real_abs_body. constructor; [leaf_ok|constructor].
Qed.
