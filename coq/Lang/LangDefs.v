(* C19 -- executable model of the language export of an individual
   (out::c_language / cpp_language / mql_language / python_language):

     kernel/gp/mep/i_mep.cc   language()            -> render_tree, language
     utility/utility.cc       replace_all()         -> replace_all
     kernel/gp/function.cc    function::display()   -> default_display
     kernel/gp/terminal.cc    terminal::display()   -> term_text (TDefault)
     kernel/gp/src/constant.h constant<T>::display  -> SConstD / SConstI / SConstS
     kernel/gp/src/variable.h variable::display     -> a terminal class with TDefault
     primitive/{real,bool,string,int}.h display()   -> Gen/Templates.v (regenerated)
     std::to_string(double|int)                     -> to_string_f64 / to_string_int

   Definitions only (no proofs), so that the model still extracts when a proof
   breaks. *)
From Coq Require Import ZArith List Bool Arith.
From Flocq Require Import IEEE754.BinarySingleNaN.
From VV Require Import Base.F64 Mep.Genome Lang.LangBase Gen.Templates.
Import ListNotations.
Local Open Scope Z_scope.

(* ------------------------------------------------------------------ bytes *)
Definition PCT : Z := 37.      (* '%' *)
Definition LPAR : Z := 40.
Definition RPAR : Z := 41.
Definition MINUS : Z := 45.

Fixpoint bytes_eqb (a b : bytes) : bool :=
  match a, b with
  | [], [] => true
  | x :: a', y :: b' => (x =? y) && bytes_eqb a' b'
  | _, _ => false
  end.

Fixpoint prefixb (p s : bytes) : bool :=
  match p, s with
  | [], _ => true
  | x :: p', y :: s' => (x =? y) && prefixb p' s'
  | _ :: _, [] => false
  end.

(* --------------------------------------------------- std::to_string(...) *)
(* decimal digits of n >= 0; the fuel log2 n + 1 bounds their number *)
Fixpoint dec_aux (fuel : nat) (n : Z) : bytes :=
  match fuel with
  | O => []
  | S f => if n <? 10 then [48 + n] else dec_aux f (n / 10) ++ [48 + n mod 10]
  end.
Definition dec_Z (n : Z) : bytes := dec_aux (S (Z.to_nat (Z.log2 n))) n.
Definition dec_nat (n : nat) : bytes := dec_Z (Z.of_nat n).

(* std::to_string(int) *)
Definition to_string_int (z : Z) : bytes :=
  if z <? 0 then MINUS :: dec_Z (- z) else dec_Z z.

Definition pad_left (n : nat) (s : bytes) : bytes := repeat 48 (n - length s) ++ s.

(* std::to_string(double) = printf("%f"): the exact value rounded to six
   decimals, ties to even (glibc rounds the exact binary value in the current
   rounding mode).  NaN is not modelled (BinarySingleNaN has no sign for it
   and glibc prints "nan" / "-nan"). *)
Definition to_string_f64 (x : f64) : option bytes :=
  let body (q : Z) := dec_Z (q / 1000000) ++ [46] ++ pad_left 6 (dec_Z (q mod 1000000)) in
  let sgn (s : bool) := if s then [MINUS] else [] in
  match x with
  | B754_zero s => Some (sgn s ++ body 0)
  | B754_infinity s => Some (sgn s ++ [105; 110; 102])
  | B754_nan => None
  | B754_finite s m e _ =>
      let q :=
        if 0 <=? e then Zpos m * 2 ^ e * 1000000
        else
          let num := Zpos m * 1000000 in
          let den := 2 ^ (- e) in
          let q0 := num / den in
          let r := num mod den in
          if (den <? 2 * r) || ((2 * r =? den) && Z.odd q0) then q0 + 1 else q0 in
      Some (sgn s ++ body q)
  end.

(* static_cast<int>(v): truncation; undefined (None) outside the int range *)
Definition cast_int (x : f64) : option Z :=
  match F64.to_Z_trunc x with
  | Some z => if (-2147483648 <=? z) && (z <=? 2147483647) then Some z else None
  | None => None
  end.

(* ------------------------------------------------- utility.cc replace_all *)
(* One left-to-right pass: at an occurrence of [from] emit [to] and skip the
   occurrence (the scan resumes after the inserted text, which is never
   re-scanned); otherwise copy one byte.  [skip] counts bytes of an occurrence
   still to be dropped. *)
Fixpoint ra (from to s : bytes) (skip : nat) : bytes :=
  match s with
  | [] => []
  | c :: s' =>
      match skip with
      | S k => ra from to s' k
      | O => if prefixb from s then to ++ ra from to s' (length from - 1)
             else c :: ra from to s' 0
      end
  end.
Definition replace_all (s from to : bytes) : bytes :=
  match from with [] => s | _ => ra from to s 0 end.

(* "%%" + std::to_string(i + 1) + "%%" *)
Definition ph_of (digits : bytes) : bytes := PCT :: PCT :: digits ++ [PCT; PCT].
Definition ph (i : nat) : bytes := ph_of (dec_nat (S i)).

(* --------------------------------------------- display() of one symbol *)
(* function::display(format) *)
Definition default_display (name : bytes) (n : nat) : bytes :=
  name ++ dflt_lpar ++ dflt_first
       ++ concat (map (fun i => dflt_sep_pre ++ dec_nat (S i) ++ dflt_sep_post) (seq 1 (n - 1)))
       ++ dflt_rpar.

(* what the model knows about the symbol behind an opcode *)
Inductive sdisp :=
| SClass (c : tclass)     (* a shipped primitive class, a variable, or any symbol using the base display *)
| SConstD (v : f64)       (* constant<double> *)
| SConstI (v : Z)         (* constant<int>    *)
| SConstS (s : bytes).    (* constant<std::string> *)

Definition lang_env := Z -> option sdisp.

(* s.erase(s.find_last_not_of('0') + 1); if (s.back() == '.') s.pop_back();
   (the text of a double always contains a byte other than '0') *)
Fixpoint drop_zeros (r : bytes) : bytes :=
  match r with c :: r' => if c =? 48 then drop_zeros r' else r | [] => [] end.
Definition trim_zeros (s : bytes) : bytes :=
  match drop_zeros (rev s) with
  | c :: r' => if c =? 46 then rev r' else rev (c :: r')
  | [] => []
  end.

Definition piece_text (par : f64) (p : tpiece) : option bytes :=
  match p with
  | PToStringTrim => match to_string_f64 par with Some t => Some (trim_zeros t) | None => None end
  | PLit s => Some s
  | PToString => to_string_f64 par
  | PToStringInt => match cast_int par with Some z => Some (to_string_int z) | None => None end
  end.

Fixpoint pieces_text (par : f64) (l : list tpiece) : option bytes :=
  match l with
  | [] => Some []
  | p :: r => match piece_text par p, pieces_text par r with
              | Some a, Some b => Some (a ++ b)
              | _, _ => None
              end
  end.

Definition term_text (c : tclass) (f : fmt) (par : f64) : option bytes :=
  match tc_disp c f with
  | TText l => pieces_text par l
  | TDefault =>
      if tc_parametric c
      then match to_string_f64 par with
           | Some t => Some (tc_name c ++ [95] ++ t)
           | None => None
           end
      else Some (tc_name c)
  end.

Fixpoint literal_only (l : list tpiece) : option bytes :=
  match l with
  | [] => Some []
  | PLit s :: r => match literal_only r with Some b => Some (s ++ b) | None => None end
  | _ :: _ => None
  end.

Definition fun_text (c : tclass) (f : fmt) (n : nat) : option bytes :=
  match tc_disp c f with
  | TText l => literal_only l
  | TDefault => Some (default_display (tc_name c) n)
  end.

(* language_: the text of the symbol before its placeholders are replaced.
   `if (terminal && ret.front() == '-') ret = "(" + ret + ")"` is the repair
   of defect #11 (negative literals). *)
Definition wrap_negative (t : bytes) : bytes :=
  match t with
  | c :: _ => if c =? MINUS then LPAR :: t ++ [RPAR] else t
  | [] => t
  end.

(* constant<std::string>::display: a double quote or a backslash is preceded by a
   backslash (when the source does so: Gen/Templates.v const_str_escapes) *)
Definition escape_str (s : bytes) : bytes :=
  flat_map (fun c => if (c =? 34) || (c =? 92) then [92; c] else [c]) s.

Definition sym_text (env : lang_env) (f : fmt) (s : sym) (par : f64) : option bytes :=
  match env (s_opcode s) with
  | None => None
  | Some d =>
      if is_terminal s then
        match d with
        | SClass c => if tc_terminal c
                      then match term_text c f par with Some t => Some (wrap_negative t) | None => None end
                      else None
        | SConstD v => match to_string_f64 v with Some t => Some (wrap_negative t) | None => None end
        | SConstI v => Some (wrap_negative (to_string_int v))
        | SConstS s => Some (34 :: (if const_str_escapes then escape_str s else s) ++ [34])
        end
      else
        match d with
        | SClass c => if tc_terminal c then None else fun_text c f (arity s)
        | _ => None
        end
  end.

(* ------------------------------------------------------------ language_ *)
(* for (i = 0; i < arity; ++i)
     ret = replace_all(ret, "%%" + to_string(i+1) + "%%", language_(argument i)); *)
Fixpoint subst_seq (i : nat) (kids : list bytes) (ret : bytes) : bytes :=
  match kids with
  | [] => ret
  | k :: ks => subst_seq (S i) ks (replace_all ret (ph i) k)
  end.

Fixpoint render_tree (env : lang_env) (f : fmt) (t : tree) : option bytes :=
  match t with
  | Node s par kids =>
      match sym_text env f s par with
      | None => None
      | Some txt =>
          let fix rkids (ks : list tree) : option (list bytes) :=
            match ks with
            | [] => Some []
            | k :: ks' =>
                match render_tree env f k, rkids ks' with
                | Some a, Some r => Some (a :: r)
                | _, _ => None
                end
            end in
          match rkids kids with
          | Some kt => Some (subst_seq 0 kt txt)
          | None => None
          end
      end
  end.

(* if (out.length() > 2 && out.front() == '(' && out.back() == ')')
     out = out.substr(1, out.length() - 2); *)
Definition strip_outer (out : bytes) : bytes :=
  match out with
  | c :: r =>
      if Nat.ltb 2 (length out) && (c =? LPAR) && (last out 0 =? RPAR)
      then removelast r else out
  | [] => out
  end.

Definition language_tree (env : lang_env) (f : fmt) (t : tree) : option bytes :=
  match render_tree env f t with Some o => Some (strip_outer o) | None => None end.

(* the printer applied to an individual: the active tree rooted at best() *)
Definition language (env : lang_env) (f : fmt) (g : genome) : option bytes :=
  match active_tree g with Some t => language_tree env f t | None => None end.

(* ------------------------------------------- templates as segment lists *)
Inductive seg := Lit (l : bytes) | Hole (digits : bytes).

Definition is_digit (c : Z) : bool := (48 <=? c) && (c <=? 57).

Fixpoint span_digits (s : bytes) : bytes * bytes :=
  match s with
  | c :: r => if is_digit c then let (d, r') := span_digits r in (c :: d, r') else ([], s)
  | [] => ([], [])
  end.

Definition flush (lit : bytes) : list seg := match lit with [] => [] | _ => [Lit (rev lit)] end.

(* split a text at the well-formed placeholders %%<digits>%% *)
Fixpoint segs_aux (fuel : nat) (s : bytes) (lit : bytes) : list seg :=
  match fuel with
  | O => flush lit
  | S f =>
      match s with
      | [] => flush lit
      | c :: r =>
          if (c =? PCT) && prefixb [PCT] r then
            let (d, r') := span_digits (tl r) in
            match d, r' with
            | _ :: _, p1 :: p2 :: r'' =>
                if (p1 =? PCT) && (p2 =? PCT)
                then flush lit ++ Hole d :: segs_aux f r'' []
                else segs_aux f r (c :: lit)
            | _, _ => segs_aux f r (c :: lit)
            end
          else segs_aux f r (c :: lit)
      end
  end.
Definition segs_of (s : bytes) : list seg := segs_aux (S (length s)) s [].

Definition seg_text (sg : seg) : bytes :=
  match sg with Lit l => l | Hole d => ph_of d end.
Definition flat (sgs : list seg) : bytes := concat (map seg_text sgs).

(* simultaneous instantiation: the hole numbered i+1 receives the text of
   argument i (first match in argument order), other segments are copied *)
Fixpoint inst_seg (i : nat) (kids : list bytes) (sg : seg) : seg :=
  match sg with
  | Lit l => Lit l
  | Hole d =>
      match kids with
      | [] => Hole d
      | k :: ks => if bytes_eqb d (dec_nat (S i)) then Lit k else inst_seg (S i) ks (Hole d)
      end
  end.
Definition inst (sgs : list seg) (kids : list bytes) : bytes :=
  flat (map (inst_seg 0 kids) sgs).

(* a text that cannot take part in a placeholder: no "%%" inside and no '%'
   at its end *)
Fixpoint psafe (l : bytes) : bool :=
  match l with
  | [] => true
  | c :: r =>
      match r with
      | [] => negb (c =? PCT)
      | d :: _ => negb ((c =? PCT) && (d =? PCT)) && psafe r
      end
  end.

(* a byte that can follow a placeholder without ambiguity *)
Definition sepb (c : Z) : bool := negb (c =? PCT) && negb (is_digit c).

Definition next_sep (r : list seg) : bool :=
  match r with
  | [] => true
  | Lit (c :: _) :: _ => sepb c
  | _ => false
  end.

Definition hole_index (n : nat) (d : bytes) : option nat :=
  find (fun i => bytes_eqb d (dec_nat (S i))) (seq 0 n).

(* well-formed segment list for a symbol of arity n *)
Fixpoint segs_okb (n : nat) (sgs : list seg) : bool :=
  match sgs with
  | [] => true
  | Lit l :: r => psafe l && segs_okb n r
  | Hole d :: r =>
      forallb is_digit d && negb (bytes_eqb d []) &&
      (match hole_index n d with Some _ => true | None => false end) &&
      next_sep r && segs_okb n r
  end.

Definition tmpl_okb (n : nat) (txt : bytes) : bool :=
  bytes_eqb (flat (segs_of txt)) txt && segs_okb n (segs_of txt).

(* every node of the tree has a well-formed text for its arity (terminals:
   arity 0, hence placeholder-free) *)
Fixpoint good_tree (env : lang_env) (f : fmt) (t : tree) : bool :=
  match t with
  | Node s par kids =>
      match sym_text env f s par with
      | Some txt => tmpl_okb (length kids) txt
      | None => false
      end &&
      forallb (good_tree env f) kids
  end.
