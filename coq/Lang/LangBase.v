(* C19 -- types shared by the regenerated template table (Gen/Templates.v)
   and the model of the language printer.  Definitions only. *)
From Coq Require Import ZArith List.
Import ListNotations.
Local Open Scope Z_scope.

(* std::string as a list of byte values *)
Definition bytes := list Z.

(* symbol::format, the four values reachable through out::c_language,
   out::cpp_language, out::mql_language, out::python_language *)
Inductive fmt := FC | FCpp | FMql | FPy.

(* what a class's display(format) returns for one format: a concatenation of
   string literals and std::to_string of the parameter, or the base class's
   display *)
Inductive tpiece :=
| PLit (s : bytes)       (* "<literal>"                                 *)
| PToString              (* std::to_string(v),   v = the parameter      *)
| PToStringInt           (* std::to_string(static_cast<int>(v))         *)
| PToStringTrim.         (* std::to_string(v) without its trailing zeros and without a dangling '.' *)

Inductive tdisp :=
| TText (l : list tpiece)   (* return p1 + p2 + ...;                             *)
| TDefault.                 (* no override / return function::display();         *)

Record tclass := {
  tc_terminal : bool;
  tc_name : bytes;
  tc_arity : nat;
  tc_parametric : bool;
  tc_c : tdisp; tc_cpp : tdisp; tc_mql : tdisp; tc_py : tdisp
}.

Definition tc_disp (c : tclass) (f : fmt) : tdisp :=
  match f with FC => tc_c c | FCpp => tc_cpp c | FMql => tc_mql c | FPy => tc_py c end.
