(* C19 -- proofs about the byte-level model: the sequential replace_all loop
   of language_ is the simultaneous instantiation of the symbol's template. *)
From Coq Require Import ZArith List Bool Arith Lia ZifyBool.
From VV Require Import Base.F64 Mep.Genome Lang.LangBase Gen.Templates Lang.LangDefs.
Import ListNotations.
Local Open Scope Z_scope.

(* ------------------------------------------------------------- bytes *)
Lemma bytes_eqb_eq : forall a b, bytes_eqb a b = true -> a = b.
Proof.
  induction a as [|x a IH]; destruct b as [|y b]; cbn [bytes_eqb]; intro H; try discriminate; auto.
  apply andb_true_iff in H. destruct H as [H1 H2]. apply Z.eqb_eq in H1. subst. f_equal. auto.
Qed.

Lemma bytes_eqb_refl : forall a, bytes_eqb a a = true.
Proof. induction a; cbn [bytes_eqb]; auto. rewrite Z.eqb_refl. auto. Qed.

Lemma prefixb_app : forall p b, prefixb p (p ++ b) = true.
Proof. induction p; intro b; cbn [prefixb app]; auto. rewrite Z.eqb_refl. cbn. auto. Qed.

Lemma is_digit_not_pct : forall c, is_digit c = true -> (PCT =? c) = false.
Proof.
  intros c H. unfold is_digit in H. apply andb_true_iff in H. destruct H as [H1 H2].
  apply Z.leb_le in H1. apply Z.eqb_neq. unfold PCT. lia.
Qed.

Lemma sepb_not_pct : forall c, sepb c = true -> (PCT =? c) = false.
Proof.
  intros c H. unfold sepb in H. apply andb_true_iff in H. destruct H as [H1 _].
  rewrite Z.eqb_sym. destruct (c =? PCT); [discriminate|reflexivity].
Qed.

Lemma digit_not_sep : forall c0 c1, is_digit c0 = true -> sepb c1 = true -> (c0 =? c1) = false.
Proof.
  intros c0 c1 H0 H1. apply Z.eqb_neq. intro; subst c1.
  unfold sepb in H1. rewrite H0 in H1. rewrite andb_comm in H1. discriminate.
Qed.

(* ------------------------------------------------------------ decimal *)
Lemma dec_aux_digits : forall fuel n, 0 <= n -> forallb is_digit (dec_aux fuel n) = true.
Proof.
  induction fuel as [|f IH]; intros n Hn; cbn [dec_aux]; auto.
  destruct (n <? 10) eqn:E.
  - apply Z.ltb_lt in E. cbn [forallb]. unfold is_digit.
    replace (48 <=? 48 + n) with true by (symmetry; apply Z.leb_le; lia).
    replace (48 + n <=? 57) with true by (symmetry; apply Z.leb_le; lia). reflexivity.
  - rewrite forallb_app. rewrite IH by (apply Z.div_pos; lia). cbn [forallb andb].
    pose proof (Z.mod_pos_bound n 10 ltac:(lia)). unfold is_digit.
    replace (48 <=? 48 + n mod 10) with true by (symmetry; apply Z.leb_le; lia).
    replace (48 + n mod 10 <=? 57) with true by (symmetry; apply Z.leb_le; lia). reflexivity.
Qed.

Lemma dec_aux_nonempty : forall f n, dec_aux (S f) n <> [].
Proof.
  intros f n. cbn [dec_aux]. destruct (n <? 10); [discriminate|].
  intro H. apply app_eq_nil in H. destruct H; discriminate.
Qed.

Lemma dec_nat_digits : forall n, forallb is_digit (dec_nat n) = true.
Proof. intro n. unfold dec_nat, dec_Z. apply dec_aux_digits. lia. Qed.

Lemma dec_nat_nonempty : forall n, dec_nat n <> [].
Proof. intro n. unfold dec_nat, dec_Z. apply dec_aux_nonempty. Qed.

(* --------------------------------------------------------- replace_all *)
Lemma ra_skip : forall from to x b, ra from to (x ++ b) (length x) = ra from to b 0.
Proof. induction x as [|c x IH]; intro b; cbn [app length ra]; auto. Qed.

Lemma ra_cons0 : forall from to c s,
  ra from to (c :: s) 0 =
  if prefixb from (c :: s) then to ++ ra from to s (length from - 1) else c :: ra from to s 0.
Proof. reflexivity. Qed.

Lemma prefixb_cons : forall x p c s, prefixb (x :: p) (c :: s) = (x =? c) && prefixb p s.
Proof. reflexivity. Qed.
Lemma prefixb_nil_r : forall x p, prefixb (x :: p) [] = false.
Proof. reflexivity. Qed.

Lemma ra_same : forall from to b, from <> [] -> ra from to (from ++ b) 0 = to ++ ra from to b 0.
Proof.
  intros from to b Hne. destruct from as [|c f]; [congruence|].
  change ((c :: f) ++ b) with (c :: (f ++ b)). rewrite ra_cons0.
  change (c :: f ++ b) with ((c :: f) ++ b). rewrite prefixb_app.
  cbn [length]. rewrite Nat.sub_1_r. cbn [Nat.pred]. rewrite ra_skip. reflexivity.
Qed.

Lemma psafe_single : forall c, psafe [c] = negb (c =? PCT).
Proof. reflexivity. Qed.
Lemma psafe_cons2 : forall c d r, psafe (c :: d :: r) = negb ((c =? PCT) && (d =? PCT)) && psafe (d :: r).
Proof. reflexivity. Qed.

Lemma ra_lit : forall x to l b, psafe l = true ->
  ra (PCT :: PCT :: x) to (l ++ b) 0 = l ++ ra (PCT :: PCT :: x) to b 0.
Proof.
  intros x to. induction l as [|c r IH]; intros b Hs; [reflexivity|].
  destruct r as [|d r'].
  - rewrite psafe_single in Hs. change ([c] ++ b) with (c :: b). rewrite ra_cons0, prefixb_cons.
    replace (PCT =? c) with false by (rewrite Z.eqb_sym; destruct (c =? PCT); [discriminate|reflexivity]).
    reflexivity.
  - rewrite psafe_cons2 in Hs. apply andb_true_iff in Hs. destruct Hs as [H1 H2].
    change ((c :: d :: r') ++ b) with (c :: d :: (r' ++ b)). rewrite ra_cons0, !prefixb_cons.
    replace ((PCT =? c) && ((PCT =? d) && prefixb x (r' ++ b))) with false.
    + change (c :: d :: r') with ([c] ++ d :: r'). rewrite <- app_assoc. cbn [app]. f_equal.
      change (d :: r' ++ b) with ((d :: r') ++ b). rewrite IH by exact H2. reflexivity.
    + rewrite (Z.eqb_sym PCT c), (Z.eqb_sym PCT d).
      destruct (c =? PCT), (d =? PCT); cbn in *; try reflexivity; discriminate.
Qed.

Lemma ra_digits : forall x to ds b, forallb is_digit ds = true ->
  ra (PCT :: x) to (ds ++ b) 0 = ds ++ ra (PCT :: x) to b 0.
Proof.
  intros x to. induction ds as [|c r IH]; intros b Hd; [reflexivity|].
  cbn [forallb] in Hd. apply andb_true_iff in Hd. destruct Hd as [H1 H2].
  change ((c :: r) ++ b) with (c :: (r ++ b)). rewrite ra_cons0, prefixb_cons.
  rewrite (is_digit_not_pct _ H1). cbn [andb app]. f_equal. apply IH. exact H2.
Qed.

Lemma digits_prefix : forall d ds b, forallb is_digit d = true -> forallb is_digit ds = true ->
  prefixb (d ++ [PCT; PCT]) (ds ++ PCT :: PCT :: b) = true -> d = ds.
Proof.
  induction d as [|c d IH]; intros ds b Hd Hds Hp.
  - destruct ds as [|c' ds]; [reflexivity|].
    cbn [forallb] in Hds. apply andb_true_iff in Hds. destruct Hds as [H1 _].
    cbn [app] in Hp. rewrite prefixb_cons in Hp. rewrite (is_digit_not_pct _ H1) in Hp. discriminate.
  - cbn [forallb] in Hd. apply andb_true_iff in Hd. destruct Hd as [H1 H2].
    destruct ds as [|c' ds].
    + cbn [app] in Hp. rewrite prefixb_cons in Hp.
      rewrite Z.eqb_sym, (is_digit_not_pct _ H1) in Hp. discriminate.
    + cbn [forallb] in Hds. apply andb_true_iff in Hds. destruct Hds as [H3 H4].
      cbn [app] in Hp. rewrite prefixb_cons in Hp. apply andb_true_iff in Hp. destruct Hp as [E Hp].
      apply Z.eqb_eq in E. subst c'. f_equal. eapply IH; eauto.
Qed.

Definition sep_start (b : bytes) : Prop := b = [] \/ exists c b', b = c :: b' /\ sepb c = true.

Lemma ph_of_app : forall ds b, ph_of ds ++ b = PCT :: PCT :: ds ++ PCT :: PCT :: b.
Proof. intros. unfold ph_of. cbn [app]. rewrite <- app_assoc. reflexivity. Qed.

Lemma ra_other : forall d ds to b,
  forallb is_digit d = true -> d <> [] -> forallb is_digit ds = true -> ds <> [] -> ds <> d ->
  sep_start b ->
  ra (ph_of d) to (ph_of ds ++ b) 0 = ph_of ds ++ ra (ph_of d) to b 0.
Proof.
  intros d ds to b Hd Hdn Hds Hdsn Hne Hb.
  rewrite !ph_of_app. set (from := ph_of d). assert (Hf : from = PCT :: PCT :: d ++ [PCT; PCT]) by reflexivity.
  (* position 0 *)
  rewrite ra_cons0. rewrite Hf at 1. rewrite !prefixb_cons, !Z.eqb_refl. cbn [andb].
  destruct (prefixb (d ++ [PCT; PCT]) (ds ++ PCT :: PCT :: b)) eqn:E.
  { exfalso. apply Hne. symmetry. eapply digits_prefix; eauto. }
  f_equal.
  (* position 1 *)
  destruct ds as [|c ds']; [congruence|].
  assert (Hc : is_digit c = true) by (cbn [forallb] in Hds; apply andb_true_iff in Hds; tauto).
  rewrite ra_cons0. rewrite Hf at 1. cbn [app]. rewrite !prefixb_cons, Z.eqb_refl, (is_digit_not_pct _ Hc).
  cbn [andb]. f_equal.
  (* the digits *)
  change (c :: ds' ++ PCT :: PCT :: b) with ((c :: ds') ++ PCT :: PCT :: b).
  rewrite Hf at 1. rewrite ra_digits by exact Hds. rewrite <- Hf. f_equal.
  (* the two closing '%' *)
  destruct d as [|c0 d']; [congruence|].
  assert (Hc0 : is_digit c0 = true) by (cbn [forallb] in Hd; apply andb_true_iff in Hd; tauto).
  destruct Hb as [Hb | [c1 [b' [Hb Hs]]]]; subst b.
  - rewrite ra_cons0. rewrite Hf at 1. rewrite !prefixb_cons, !Z.eqb_refl. cbn [andb app].
    rewrite prefixb_nil_r. reflexivity.
  - rewrite ra_cons0. rewrite Hf at 1. rewrite !prefixb_cons, !Z.eqb_refl. cbn [andb app].
    rewrite prefixb_cons, (digit_not_sep _ _ Hc0 Hs). cbn [andb]. f_equal.
    rewrite ra_cons0. rewrite Hf at 1. rewrite !prefixb_cons, !Z.eqb_refl, (sepb_not_pct _ Hs).
    cbn [andb]. reflexivity.
Qed.

(* ------------------------------------------------ filling one placeholder *)
Definition fill (d t : bytes) (sg : seg) : seg :=
  match sg with
  | Lit l => Lit l
  | Hole ds => if bytes_eqb ds d then Lit t else Hole ds
  end.

Lemma flat_cons : forall sg r, flat (sg :: r) = seg_text sg ++ flat r.
Proof. reflexivity. Qed.

Lemma next_sep_fill : forall d t r, next_sep r = true -> next_sep (map (fill d t) r) = true.
Proof. intros d t [|[l|ds] r] H; cbn in *; auto. discriminate. Qed.

Lemma next_sep_start : forall r, next_sep r = true -> sep_start (flat r).
Proof.
  intros [|[l|ds] r] H; cbn in H; try discriminate.
  - left. reflexivity.
  - destruct l as [|c l]; [discriminate|]. right. exists c, (l ++ flat r). split; auto.
Qed.

Lemma segs_ok_fill : forall n d t sgs, psafe t = true ->
  segs_okb n sgs = true -> segs_okb n (map (fill d t) sgs) = true.
Proof.
  intros n d t sgs Ht. induction sgs as [|[l|ds] r IH]; intro H; cbn [map fill segs_okb] in *; auto.
  - apply andb_true_iff in H. destruct H as [H1 H2]. rewrite H1, IH; auto.
  - repeat (apply andb_true_iff in H; destruct H as [H ?]).
    destruct (bytes_eqb ds d); cbn [segs_okb].
    + rewrite Ht, IH; auto.
    + rewrite H, IH, next_sep_fill by auto.
      match goal with h : negb _ = true |- _ => rewrite h end.
      match goal with h : match hole_index _ _ with _ => _ end = true |- _ => rewrite h end.
      reflexivity.
Qed.

Lemma ra_fill : forall n d t sgs,
  forallb is_digit d = true -> d <> [] -> psafe t = true -> segs_okb n sgs = true ->
  ra (ph_of d) t (flat sgs) 0 = flat (map (fill d t) sgs).
Proof.
  intros n d t sgs Hd Hdn Ht. induction sgs as [|[l|ds] r IH]; intro H; [reflexivity| |].
  - cbn [segs_okb] in H. apply andb_true_iff in H. destruct H as [H1 H2].
    cbn [map fill]. rewrite !flat_cons. cbn [seg_text]. unfold ph_of at 1.
    rewrite ra_lit by exact H1. f_equal. apply IH. exact H2.
  - cbn [segs_okb] in H.
    apply andb_true_iff in H. destruct H as [H H5].
    apply andb_true_iff in H. destruct H as [H H4].
    apply andb_true_iff in H. destruct H as [H H3].
    apply andb_true_iff in H. destruct H as [H1 H2].
    cbn [map fill]. rewrite flat_cons. cbn [seg_text].
    destruct (bytes_eqb ds d) eqn:E.
    + apply bytes_eqb_eq in E. subst ds. rewrite flat_cons. cbn [seg_text].
      rewrite ra_same by (unfold ph_of; discriminate). f_equal. apply IH. exact H5.
    + rewrite flat_cons. cbn [seg_text]. rewrite ra_other; auto.
      * f_equal. apply IH. exact H5.
      * intro; subst. cbn in H2. discriminate.
      * intro; subst. rewrite bytes_eqb_refl in E. discriminate.
      * apply next_sep_start. exact H4.
Qed.

(* ------------------------------------- the whole loop over the arguments *)
Fixpoint fill_all (i : nat) (kids : list bytes) (sg : seg) : seg :=
  match kids with
  | [] => sg
  | k :: ks => fill_all (S i) ks (fill (dec_nat (S i)) k sg)
  end.

Lemma fill_all_lit : forall kids i l, fill_all i kids (Lit l) = Lit l.
Proof. induction kids; intros; cbn [fill_all fill]; auto. Qed.

Lemma fill_all_inst : forall kids i sg, fill_all i kids sg = inst_seg i kids sg.
Proof.
  induction kids as [|k ks IH]; intros i [l|d]; cbn [fill_all fill inst_seg]; auto.
  - apply fill_all_lit.
  - destruct (bytes_eqb d (dec_nat (S i))); [apply fill_all_lit|apply IH].
Qed.

Lemma replace_all_ph : forall s i t, replace_all s (ph i) t = ra (ph i) t s 0.
Proof. reflexivity. Qed.

Lemma subst_seq_flat : forall n kids i sgs,
  segs_okb n sgs = true -> forallb psafe kids = true ->
  subst_seq i kids (flat sgs) = flat (map (fill_all i kids) sgs).
Proof.
  intros n. induction kids as [|k ks IH]; intros i sgs Hok Hk; cbn [subst_seq fill_all].
  - rewrite map_id. reflexivity.
  - cbn [forallb] in Hk. apply andb_true_iff in Hk. destruct Hk as [Hk1 Hk2].
    rewrite replace_all_ph. unfold ph.
    rewrite (ra_fill n) by (auto using dec_nat_digits, dec_nat_nonempty).
    rewrite IH by (auto using segs_ok_fill). rewrite map_map. reflexivity.
Qed.

Lemma subst_seq_inst : forall n kids txt,
  tmpl_okb n txt = true -> forallb psafe kids = true ->
  subst_seq 0 kids txt = inst (segs_of txt) kids.
Proof.
  intros n kids txt H Hk. unfold tmpl_okb in H. apply andb_true_iff in H. destruct H as [H1 H2].
  apply bytes_eqb_eq in H1. rewrite <- H1 at 1. rewrite (subst_seq_flat n) by auto.
  unfold inst. f_equal. apply map_ext. intro sg. apply fill_all_inst.
Qed.

(* ------------------------------------ instantiated texts stay placeholder-free *)
Lemma psafe_app : forall a b, psafe a = true -> psafe b = true -> psafe (a ++ b) = true.
Proof.
  induction a as [|c r IH]; intros b Ha Hb; [exact Hb|].
  destruct r as [|d r'].
  - rewrite psafe_single in Ha. cbn [app]. destruct b as [|e b']; [rewrite psafe_single; exact Ha|].
    rewrite psafe_cons2, Hb. destruct (c =? PCT); [discriminate|reflexivity].
  - rewrite psafe_cons2 in Ha. apply andb_true_iff in Ha. destruct Ha as [H1 H2].
    change ((c :: d :: r') ++ b) with (c :: d :: (r' ++ b)). rewrite psafe_cons2, H1.
    change (d :: r' ++ b) with ((d :: r') ++ b). rewrite IH; auto.
Qed.

Lemma inst_seg_hole : forall kids i d,
  (exists j, (j < length kids)%nat /\ bytes_eqb d (dec_nat (S (i + j))) = true) ->
  exists k, In k kids /\ inst_seg i kids (Hole d) = Lit k.
Proof.
  induction kids as [|k ks IH]; intros i d [j [Hj E]]; cbn [length] in Hj; [lia|].
  cbn [inst_seg]. destruct (bytes_eqb d (dec_nat (S i))) eqn:E0.
  - exists k. split; [left; reflexivity|reflexivity].
  - destruct j as [|j].
    + rewrite Nat.add_0_r in E. congruence.
    + destruct (IH (S i) d) as [k' [Hin Hk']].
      { exists j. split; [lia|]. replace (S i + j)%nat with (i + S j)%nat by lia. exact E. }
      exists k'. split; [right; exact Hin|exact Hk'].
Qed.

Lemma psafe_inst : forall kids sgs,
  segs_okb (length kids) sgs = true -> forallb psafe kids = true ->
  psafe (flat (map (inst_seg 0 kids) sgs)) = true.
Proof.
  intros kids sgs. induction sgs as [|[l|d] r IH]; intros H Hk; [reflexivity| |].
  - cbn [segs_okb] in H. apply andb_true_iff in H. destruct H as [H1 H2].
    cbn [map]. rewrite flat_cons. apply psafe_app; [destruct kids; exact H1|auto].
  - cbn [segs_okb] in H.
    apply andb_true_iff in H. destruct H as [H H5].
    apply andb_true_iff in H. destruct H as [H H4].
    apply andb_true_iff in H. destruct H as [H H3].
    cbn [map]. rewrite flat_cons.
    destruct (hole_index (length kids) d) as [j|] eqn:Ej; [|discriminate].
    unfold hole_index in Ej. apply find_some in Ej. destruct Ej as [Hin Ed].
    apply in_seq in Hin.
    destruct (inst_seg_hole kids 0 d) as [k [Hk1 Hk2]].
    { exists j. split; [lia|exact Ed]. }
    rewrite Hk2. cbn [seg_text]. apply psafe_app; [|auto].
    rewrite forallb_forall in Hk. auto.
Qed.

(* ----------------------------------------------------------- trees *)
Fixpoint map_opt (g : tree -> option bytes) (ks : list tree) : option (list bytes) :=
  match ks with
  | [] => Some []
  | k :: ks' => match g k, map_opt g ks' with Some a, Some r => Some (a :: r) | _, _ => None end
  end.

Lemma render_tree_eq : forall env f s par kids,
  render_tree env f (Node s par kids) =
  match sym_text env f s par with
  | None => None
  | Some txt => match map_opt (render_tree env f) kids with
                | Some kt => Some (subst_seq 0 kt txt)
                | None => None
                end
  end.
Proof.
  intros. cbn [render_tree]. destruct (sym_text env f s par) as [txt|]; [|reflexivity].
  match goal with |- match ?a with _ => _ end = match ?b with _ => _ end => replace a with b; [reflexivity|] end.
  induction kids as [|k ks IH]; [reflexivity|]. cbn [map_opt]. rewrite IH. reflexivity.
Qed.

Lemma tree_ind2 (P : tree -> Prop) :
  (forall s par kids, Forall P kids -> P (Node s par kids)) -> forall t, P t.
Proof.
  intro H. fix IH 1. intros [s par kids]. apply H.
  induction kids as [|k ks IHk]; constructor; [apply IH|exact IHk].
Qed.

Lemma map_opt_length : forall g ks r, map_opt g ks = Some r -> length r = length ks.
Proof.
  induction ks as [|k ks IH]; intros r H; cbn [map_opt] in H.
  - inversion H. reflexivity.
  - destruct (g k); [|discriminate]. destruct (map_opt g ks) eqn:E; [|discriminate].
    inversion H. cbn [length]. f_equal. apply IH. reflexivity.
Qed.

(* Every good tree renders; its text is placeholder-free; and it is the
   simultaneous instantiation of its symbol's template with the complete
   renderings of its arguments. *)
Lemma render_good : forall env f t, good_tree env f t = true ->
  exists txt, render_tree env f t = Some txt /\ psafe txt = true.
Proof.
  intros env f. induction t as [s par kids IHk] using tree_ind2. intro Hg.
  cbn [good_tree] in Hg. apply andb_true_iff in Hg. destruct Hg as [Hs Hkids].
  rewrite render_tree_eq.
  destruct (sym_text env f s par) as [tm|]; [|discriminate].
  assert (Hk : exists kts, map_opt (render_tree env f) kids = Some kts /\ forallb psafe kts = true).
  { clear Hs. induction kids as [|k ks IH]; [exists []; auto|].
    cbn [forallb] in Hkids. apply andb_true_iff in Hkids. destruct Hkids as [Hk1 Hk2].
    inversion IHk as [|? ? Hk0 Hks0]; subst.
    destruct (Hk0 Hk1) as [a [Ha Hsa]]. destruct (IH Hks0 Hk2) as [r [Hr Hsr]].
    exists (a :: r). cbn [map_opt forallb]. rewrite Ha, Hr, Hsa, Hsr. auto. }
  destruct Hk as [kts [Hm Hp]]. rewrite Hm.
  pose proof (map_opt_length _ _ _ Hm) as Hlen. rewrite <- Hlen in Hs.
  exists (subst_seq 0 kts tm). split; [reflexivity|].
  rewrite (subst_seq_inst _ _ _ Hs Hp). unfold inst.
  unfold tmpl_okb in Hs. apply andb_true_iff in Hs. destruct Hs as [_ Hs].
  apply psafe_inst; auto.
Qed.

Lemma map_opt_forall2 : forall g ks r, map_opt g ks = Some r -> Forall2 (fun k t => g k = Some t) ks r.
Proof.
  induction ks as [|k ks IH]; intros r H; cbn [map_opt] in H.
  - inversion H. constructor.
  - destruct (g k) eqn:E; [|discriminate]. destruct (map_opt g ks) eqn:E2; [|discriminate].
    inversion H. constructor; auto.
Qed.

Lemma render_is_template_instantiation_l : forall env f s par kids,
  good_tree env f (Node s par kids) = true ->
  exists tm kts,
    sym_text env f s par = Some tm /\
    Forall2 (fun k kt => render_tree env f k = Some kt) kids kts /\
    render_tree env f (Node s par kids) = Some (inst (segs_of tm) kts).
Proof.
  intros env f s par kids Hg.
  pose proof Hg as Hg0.
  cbn [good_tree] in Hg. apply andb_true_iff in Hg. destruct Hg as [Hs Hkids].
  destruct (sym_text env f s par) as [tm|] eqn:Et; [|discriminate].
  assert (Hk : exists kts, map_opt (render_tree env f) kids = Some kts /\ forallb psafe kts = true).
  { clear Hs Hg0. induction kids as [|k ks IH]; [exists []; auto|].
    cbn [forallb] in Hkids. apply andb_true_iff in Hkids. destruct Hkids as [Hk1 Hk2].
    destruct (render_good env f k Hk1) as [a [Ha Hsa]]. destruct (IH Hk2) as [r [Hr Hsr]].
    exists (a :: r). cbn [map_opt forallb]. rewrite Ha, Hr, Hsa, Hsr. auto. }
  destruct Hk as [kts [Hm Hp]].
  exists tm, kts. split; [reflexivity|]. split; [apply map_opt_forall2; exact Hm|].
  rewrite render_tree_eq, Et, Hm.
  pose proof (map_opt_length _ _ _ Hm) as Hlen. rewrite <- Hlen in Hs.
  rewrite (subst_seq_inst _ _ _ Hs Hp). reflexivity.
Qed.
