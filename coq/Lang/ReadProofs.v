(* C19 -- the composite theorems: the text printed for every program over the
   table, read with the format's lexer and precedence parser, is the program's
   own expression; and the outermost-parenthesis strip of language() removes
   exactly the outer EParen node. *)
From Coq Require Import ZArith List Bool Arith Lia.
From VV Require Import Base.F64 Mep.Genome Lang.LangBase Gen.Templates Lang.LangDefs Lang.LangProofs
  Lang.SynDefs Lang.SynProofs Lang.ParseProofs.
Import ListNotations.
Local Open Scope Z_scope.

Theorem read_render_all_trees : forall f env t,
  table_ok f = true -> good_tree env f t = true -> tree_ok env f t = true ->
  exists txt, render_tree env f t = Some txt /\ read f txt = Some (ast env f t).
Proof.
  intros f env t Htab Hg Ho.
  destruct (lex_render_all_trees f env t Htab Hg Ho) as [txt [Hr [Hl [Hw _]]]].
  exists txt. split; [exact Hr|]. unfold read. rewrite Hl. apply (parse_toks f (root_min f)). exact Hw.
Qed.

(* ---- lexing "(" body ")" *)
Lemma lsteps_lpar : forall c r,
  lsteps LIdle (LPAR :: c :: r) = let (e, s) := lsteps LIdle (c :: r) in (TP [LPAR] :: e, s).
Proof.
  intros c r.
  assert (E : lstep (LPunct LPAR) c = ([TP [LPAR]], lstart c)) by reflexivity.
  cbn [lsteps]. change (lstep LIdle LPAR) with (@nil tok, LPunct LPAR). cbv iota beta. rewrite E.
  cbn [lstep]. destruct (lsteps (lstart c) r) as [e s]. reflexivity.
Qed.

Lemma two_char_rpar : forall p, two_char p RPAR = false.
Proof. intro p. unfold two_char, RPAR. cbn. rewrite !andb_false_r. reflexivity. Qed.

Lemma lstep_rpar : forall st, (forall a, st <> LStr a) ->
  lstep st RPAR = (flushl st, LPunct RPAR).
Proof.
  intros [|num w|a|p] H.
  - reflexivity.
  - cbn [lstep]. change (is_word RPAR) with false. change (is_sign RPAR) with false.
    rewrite andb_false_r. reflexivity.
  - exfalso. apply (H a). reflexivity.
  - cbn [lstep]. rewrite two_char_rpar. reflexivity.
Qed.

Lemma lex_parens : forall body T, body <> [] ->
  lex (LPAR :: body ++ [RPAR]) = Some (LP :: T ++ [RP]) -> lex body = Some T.
Proof.
  intros body T Hb H. destruct body as [|c r]; [congruence|].
  unfold lex in *. change (LPAR :: (c :: r) ++ [RPAR]) with (LPAR :: c :: (r ++ [RPAR])) in H.
  rewrite lsteps_lpar in H. change (c :: r ++ [RPAR]) with ((c :: r) ++ [RPAR]) in H.
  rewrite lsteps_app in H. destruct (lsteps LIdle (c :: r)) as [e1 s1].
  cbn [lsteps] in H.
  assert (AUX : forall X, (forall a, s1 <> LStr a) -> flushl s1 = X -> lfinish s1 = Some X ->
            Some (e1 ++ X) = Some T).
  { intros X Hs HX _. rewrite (lstep_rpar s1 Hs) in H. cbn [lfinish] in H. rewrite HX in H.
    inversion H as [H1]. rewrite app_nil_r in H1. apply app_inv_tail in H1. subst. reflexivity. }
  destruct s1 as [|num w|a|p].
  - cbn [lfinish]. apply AUX; [discriminate|reflexivity|reflexivity].
  - cbn [lfinish]. apply AUX; [discriminate|reflexivity|reflexivity].
  - cbn [lstep] in H. change (RPAR =? QUOTE) with false in H. cbn [lfinish] in H. discriminate.
  - cbn [lfinish]. apply AUX; [discriminate|reflexivity|reflexivity].
Qed.

(* the test of language(): length > 2, first byte '(' and last byte ')' *)
Definition strips (out : bytes) : bool :=
  match out with
  | c :: _ => Nat.ltb 2 (length out) && (c =? LPAR) && (last out 0 =? RPAR)
  | [] => false
  end.

Lemma strip_outer_eq : forall out, strip_outer out = if strips out then removelast (tl out) else out.
Proof. intros [|c r]; reflexivity. Qed.

(* For every program over the table: language() prints a text that reads as
   the program's expression -- without its outer parentheses exactly when the
   code stripped them. *)
Theorem language_reads_all_trees : forall f env t,
  table_ok f = true -> good_tree env f t = true -> tree_ok env f t = true ->
  exists txt top,
    render_tree env f t = Some txt /\ language_tree env f t = Some top /\
    read f top = Some (if strips txt then strip_paren (ast env f t) else ast env f t) /\
    (strips txt = true -> is_paren (ast env f t) = true).
Proof.
  intros f env t Htab Hg Ho.
  destruct (table_all_trees f env Htab t Hg Ho) as [txt [Hr [[P _] [[W _] Hpar]]]].
  pose proof (piece_lex _ _ P) as Hl.
  exists txt, (strip_outer txt). unfold language_tree. rewrite Hr.
  split; [reflexivity|]. split; [reflexivity|].
  rewrite strip_outer_eq. destruct (strips txt) eqn:Es.
  - destruct txt as [|c r]; [discriminate|]. unfold strips in Es.
    apply andb_true_iff in Es. destruct Es as [Es Hlast]. apply andb_true_iff in Es. destruct Es as [Hlen Hc].
    apply Z.eqb_eq in Hc, Hlast. subst c. apply Nat.ltb_lt in Hlen. cbn [length] in Hlen.
    specialize (Hpar eq_refl). destruct (ast env f t) as [| | | | | | | | | |e] eqn:Ea; try discriminate.
    split; [|intros _; reflexivity]. cbn [strip_paren tl].
    assert (Hr0 : r <> []) by (intro; subst; cbn in Hlen; lia).
    destruct (exists_last Hr0) as [body [z Ez]]. subst r.
    assert (Hz : z = RPAR).
    { rewrite <- Hlast. change (LPAR :: body ++ [z]) with ((LPAR :: body) ++ [z]). rewrite last_last. reflexivity. }
    subst z. rewrite removelast_last.
    assert (Hb : body <> []) by (intro; subst; cbn in Hlen; lia).
    cbn [toks_of] in Hl. cbn [wf_prec] in W. apply andb_true_iff in W. destruct W as [W _].
    unfold read. rewrite (lex_parens body _ Hb Hl). apply (parse_toks f (root_min f)). exact W.
  - split; [|discriminate]. unfold read. rewrite Hl. apply (parse_toks f (root_min f)). exact W.
Qed.
