(* C19 -- the printer / parser round trip: for every expression whose operands
   offer the precedence their position demands, the precedence-climbing parser
   applied to the expression's tokens returns the expression, with an explicit
   fuel bound. *)
From Coq Require Import ZArith List Bool Arith Lia.
From VV Require Import Lang.LangBase Lang.LangDefs Lang.LangProofs Lang.SynDefs Lang.SynProofs.
Import ListNotations.

(* [F fuel] returns [r] for every fuel >= b *)
Definition evb {R} (F : nat -> option R) (r : R) (b : nat) : Prop :=
  forall f, (b <= f)%nat -> F f = Some r.

Lemma evb_weaken : forall {R} (F : nat -> option R) r b b', evb F r b -> (b <= b')%nat -> evb F r b'.
Proof. intros R F r b b' H Hle f Hf. apply H. lia. Qed.

Section Steps.
Variable g : gram.

(* ---- one lemma per branch of the parser *)
Lemma st_pexpr : forall minp ts lhs r res b1 b2,
  evb (fun f => pnud g f minp ts) (lhs, r) b1 ->
  evb (fun f => ploop g f minp lhs r) res b2 ->
  evb (fun f => pexpr g f minp ts) res (S (b1 + b2)).
Proof.
  intros minp ts lhs r res b1 b2 H1 H2 f Hf. destruct f as [|f]; [lia|].
  cbn [pexpr]. rewrite H1 by lia. cbn [bind]. apply H2. lia.
Qed.

Lemma st_nud_str : forall minp s r res b,
  evb (fun f => ppost g f (EStr s) r) res b -> evb (fun f => pnud g f minp (TS s :: r)) res (S b).
Proof. intros minp s r res b H f Hf. destruct f as [|f]; [lia|]. cbn [pnud]. apply H. lia. Qed.

Lemma st_nud_hole : forall minp k r res b,
  evb (fun f => ppost g f (EHole k) r) res b -> evb (fun f => pnud g f minp (TH k :: r)) res (S b).
Proof. intros minp k r res b H f Hf. destruct f as [|f]; [lia|]. cbn [pnud]. apply H. lia. Qed.

Lemma st_nud_atom : forall minp w r res b,
  reserved g w = false -> starts_dot w = false ->
  evb (fun f => ppost g f (EAtom w) r) res b -> evb (fun f => pnud g f minp (TW w :: r)) res (S b).
Proof.
  intros minp w r res b Hr Hd H f Hf. destruct f as [|f]; [lia|]. cbn [pnud].
  assert (Hu : g_un g (TW w) = None).
  { unfold reserved in Hr. destruct (g_un g (TW w)); [|reflexivity].
    cbn [is_some] in Hr. rewrite orb_true_r in Hr. discriminate. }
  rewrite Hu, Hr, Hd. cbn [orb]. apply H. lia.
Qed.

Lemma st_nud_un : forall minp op p r e r' b,
  g_un g op = Some p -> (minp <= p)%nat -> tok_eqb op LP = false ->
  (match op with TW _ | TP _ => True | _ => False end) ->
  evb (fun f => pexpr g f p r) (e, r') b ->
  evb (fun f => pnud g f minp (op :: r)) (EUn op e, r') (S b).
Proof.
  intros minp op p r e r' b Hu Hm Hlp Hk H f Hf. destruct f as [|f]; [lia|].
  assert (Hlt : Nat.ltb p minp = false) by (apply Nat.ltb_ge; exact Hm).
  destruct op as [w|s|q|k]; try contradiction; cbn [pnud].
  - rewrite Hu, Hlt. rewrite H by lia. reflexivity.
  - rewrite Hlp, Hu, Hlt. rewrite H by lia. reflexivity.
Qed.

Lemma st_nud_cast : forall minp r2 e r' b,
  g_cast g = true -> (minp <= PCAST)%nat ->
  evb (fun f => pexpr g f PCAST r2) (e, r') b ->
  evb (fun f => pnud g f minp (LP :: TW W_double :: RP :: r2)) (ECast e, r') (S b).
Proof.
  intros minp r2 e r' b Hc Hm H f Hf. destruct f as [|f]; [lia|].
  assert (Hlt : Nat.ltb PCAST minp = false) by (apply Nat.ltb_ge; exact Hm).
  unfold LP at 1. cbn [pnud]. change (tok_eqb (TP [40%Z]) LP) with true. cbn iota.
  assert (Hp : cast_pat g (TW W_double :: RP :: r2) = true).
  { unfold cast_pat, RP. rewrite Hc. reflexivity. }
  rewrite Hp, Hlt. cbn [skipn]. rewrite H by lia. reflexivity.
Qed.

Lemma st_nud_paren : forall minp r e r'' res b1 b2,
  cast_pat g r = false ->
  evb (fun f => pexpr g f O r) (e, RP :: r'') b1 ->
  evb (fun f => ppost g f (EParen e) r'') res b2 ->
  evb (fun f => pnud g f minp (LP :: r)) res (S (b1 + b2)).
Proof.
  intros minp r e r'' res b1 b2 Hp H1 H2 f Hf. destruct f as [|f]; [lia|].
  unfold LP at 1. cbn [pnud]. change (tok_eqb (TP [40%Z]) LP) with true. cbn iota.
  rewrite Hp. rewrite H1 by lia. cbn [bind expect]. change (tok_eqb RP RP) with true. cbn iota. cbn [bind].
  apply H2. lia.
Qed.

Lemma st_post_call0 : forall e r2 res b,
  evb (fun f => ppost g f (ECall0 e) r2) res b ->
  evb (fun f => ppost g f e (LP :: RP :: r2)) res (S b).
Proof.
  intros e r2 res b H f Hf. destruct f as [|f]; [lia|].
  unfold LP at 1. cbn [ppost]. change (tok_eqb (TP [40%Z]) LP) with true. cbn iota.
  change (starts_rp (RP :: r2)) with true. cbn iota. cbn [tl]. apply H. lia.
Qed.

Lemma st_post_call : forall e r a r'' res b1 b2,
  starts_rp r = false ->
  evb (fun f => pexpr g f O r) (a, RP :: r'') b1 ->
  evb (fun f => ppost g f (ECall e a) r'') res b2 ->
  evb (fun f => ppost g f e (LP :: r)) res (S (b1 + b2)).
Proof.
  intros e r a r'' res b1 b2 Hs H1 H2 f Hf. destruct f as [|f]; [lia|].
  unfold LP at 1. cbn [ppost]. change (tok_eqb (TP [40%Z]) LP) with true. cbn iota.
  rewrite Hs. rewrite H1 by lia. cbn [bind expect]. change (tok_eqb RP RP) with true. cbn iota. cbn [bind].
  apply H2. lia.
Qed.

Lemma st_post_mem : forall e w r res b,
  starts_dot w = true ->
  evb (fun f => ppost g f (EMem e w) r) res b ->
  evb (fun f => ppost g f e (TW w :: r)) res (S b).
Proof.
  intros e w r res b Hd H f Hf. destruct f as [|f]; [lia|]. cbn [ppost]. rewrite Hd. apply H. lia.
Qed.

(* nothing postfix follows *)
Definition nopost (ts : list tok) : Prop :=
  match ts with
  | TP p :: _ => tok_eqb (TP p) LP = false
  | TW w :: _ => starts_dot w = false
  | _ => True
  end.

Lemma st_post_stop : forall e ts, nopost ts -> evb (fun f => ppost g f e ts) (e, ts) 1.
Proof.
  intros e ts Hn f Hf. destruct f as [|f]; [lia|]. cbn [ppost].
  destruct ts as [|[w|s|p|k] r]; cbn [nopost] in Hn; try reflexivity; rewrite Hn; reflexivity.
Qed.

Lemma st_loop_bin : forall minp lhs t p r rhs r' res b1 b2,
  g_bin g t = Some p -> (minp <= p)%nat ->
  evb (fun f => pexpr g f (S p) r) (rhs, r') b1 ->
  evb (fun f => ploop g f minp (EBin t lhs rhs) r') res b2 ->
  evb (fun f => ploop g f minp lhs (t :: r)) res (S (b1 + b2)).
Proof.
  intros minp lhs t p r rhs r' res b1 b2 Hb Hm H1 H2 f Hf. destruct f as [|f]; [lia|].
  cbn [ploop]. rewrite Hb. rewrite (proj2 (Nat.leb_le _ _) Hm). rewrite H1 by lia. cbn [bind]. apply H2. lia.
Qed.

Lemma st_loop_cond : forall minp lhs r b r'' c r3 res b1 b2 b3,
  g_bin g (g_k1 g) = None -> (minp <= g_cond g)%nat ->
  evb (fun f => pexpr g f (g_mid g) r) (b, g_k2 g :: r'') b1 ->
  evb (fun f => pexpr g f (g_cond g) r'') (c, r3) b2 ->
  evb (fun f => ploop g f minp (ECond lhs b c) r3) res b3 ->
  evb (fun f => ploop g f minp lhs (g_k1 g :: r)) res (S (b1 + b2 + b3)).
Proof.
  intros minp lhs r b r'' c r3 res b1 b2 b3 Hb Hm H1 H2 H3 f Hf. destruct f as [|f]; [lia|].
  cbn [ploop]. rewrite Hb.
  assert (E : tok_eqb (g_k1 g) (g_k1 g) = true).
  { destruct (g_k1 g); cbn; try apply bytes_eqb_refl. apply Nat.eqb_refl. }
  rewrite E, (proj2 (Nat.leb_le _ _) Hm). cbn [andb].
  rewrite H1 by lia. cbn [bind expect].
  assert (E2 : tok_eqb (g_k2 g) (g_k2 g) = true).
  { destruct (g_k2 g); cbn; try apply bytes_eqb_refl. apply Nat.eqb_refl. }
  rewrite E2. cbn [bind]. rewrite H2 by lia. cbn [bind]. apply H3. lia.
Qed.

(* the loop at level m stops in front of ts *)
Definition lstop (m : nat) (ts : list tok) : Prop :=
  match ts with
  | [] => True
  | t :: _ =>
      match g_bin g t with
      | Some p => (p < m)%nat
      | None => tok_eqb t (g_k1 g) = true -> (g_cond g < m)%nat
      end
  end.

Lemma st_loop_stop : forall m lhs ts, lstop m ts -> evb (fun f => ploop g f m lhs ts) (lhs, ts) 1.
Proof.
  intros m lhs ts Hs f Hf. destruct f as [|f]; [lia|]. cbn [ploop].
  destruct ts as [|t r]; [reflexivity|]. cbn [lstop] in Hs.
  destruct (g_bin g t) as [p|].
  - rewrite (proj2 (Nat.leb_gt _ _) Hs). reflexivity.
  - destruct (tok_eqb t (g_k1 g)); [|reflexivity].
    rewrite (proj2 (Nat.leb_gt _ _) (Hs eq_refl)). reflexivity.
Qed.

End Steps.

(* ------------------------------------------ facts about the two grammars *)
Lemma assoc_tok_in : forall t l v, assoc_tok t l = Some v -> In (t, v) l.
Proof.
  induction l as [|[k x] l IH]; intros v H; cbn [assoc_tok] in H; [discriminate|].
  destruct (tok_eqb t k) eqn:E.
  - apply tok_eqb_eq in E. inversion H; subst. left. reflexivity.
  - right. auto.
Qed.

Definition is_wp (t : tok) : Prop := match t with TW _ | TP _ => True | _ => False end.

Section Facts.
Variable f : fmt.
Let g := gram_of f.

Ltac enum H :=
  apply assoc_tok_in in H; cbn [In] in H;
  repeat (destruct H as [H|H]; [inversion H; subst; clear H|]); try contradiction.

Lemma bin_cases : forall t p, g_bin g t = Some p ->
  (p < PMAX)%nat /\ (1 <= p)%nat /\ tok_eqb t LP = false /\ tok_eqb t RP = false /\ nopost [t] /\
  tok_eqb t (g_k1 g) = false /\ p <> g_cond g /\ (g_cast g = true -> p <> PCAST).
Proof.
  intros t p H. unfold g in *. destruct f; cbn [gram_of g_bin c_gram py_gram] in H; enum H;
    (repeat split; try (unfold PMAX; lia); try reflexivity; try discriminate; cbn; try lia; try discriminate).
Qed.

Lemma un_cases : forall t p, g_un g t = Some p ->
  (p < PMAX)%nat /\ tok_eqb t LP = false /\ tok_eqb t RP = false /\ is_wp t /\ p <> g_cond g /\
  (forall t' q, g_bin g t' = Some q -> q <> p) /\ (forall w, t = TW w -> bytes_eqb w W_double = false).
Proof.
  intros t p H. unfold g in *.
  destruct f; cbn [gram_of g_un c_gram py_gram] in H; enum H;
    (split; [unfold PMAX; lia|]); (split; [reflexivity|]); (split; [reflexivity|]); (split; [exact I|]);
    (split; [cbn; lia|]); (split; [|intros w Hw; inversion Hw; subst; reflexivity]);
    intros t' q Hq; cbn [gram_of g_bin c_gram py_gram] in Hq; enum Hq; lia.
Qed.

Lemma k_cases :
  g_bin g (g_k1 g) = None /\ g_bin g (g_k2 g) = None /\ nopost [g_k1 g] /\ nopost [g_k2 g] /\
  tok_eqb (g_k2 g) (g_k1 g) = false /\ tok_eqb (g_k1 g) RP = false /\ (g_cond g < PMAX)%nat /\
  g_bin g RP = None /\ tok_eqb RP (g_k1 g) = false /\ (g_cast g = true -> g_cond g <> PCAST) /\
  (1 <= g_cond g)%nat /\ (g_mid g <= PMAX)%nat.
Proof.
  unfold g. destruct f; cbn; repeat split; try reflexivity; try (unfold PMAX, PCAST; lia); try discriminate.
Qed.

End Facts.

(* ---------------------------------------------------- the round trip *)
Section Main.
Variable f : fmt.
Variable hp : nat.
Let g := gram_of f.

Definition primary (e : cexpr) : bool :=
  match e with
  | EAtom _ | EStr _ | EHole _ | ECall0 _ | ECall _ _ | EMem _ _ | EParen _ => true
  | _ => false
  end.

(* what may follow an expression of precedence q: an infix operator binding
   no tighter than q; the conditional only if it binds strictly weaker *)
Definition above (q : nat) (rest : list tok) : Prop :=
  match rest with
  | [] => True
  | t :: _ => (forall p, g_bin g t = Some p -> (p <= q)%nat) /\
              (tok_eqb t (g_k1 g) = true -> (g_cond g < q)%nat)
  end.

Lemma above_mono : forall q q' r, (q <= q')%nat -> above q r -> above q' r.
Proof.
  intros q q' [|t r] Hle H; [exact I|]. destruct H as [H1 H2]. split.
  - intros p Hp. specialize (H1 p Hp). lia.
  - intro E. specialize (H2 E). lia.
Qed.

Lemma above_lstop_S : forall q r, above q r -> lstop g (S q) r.
Proof.
  intros q [|t r] H; [exact I|]. destruct H as [H1 H2]. cbn [lstop].
  destruct (g_bin g t) as [p|] eqn:E.
  - specialize (H1 p eq_refl). lia.
  - intro Ek. specialize (H2 Ek). lia.
Qed.

Lemma above_lstop : forall q r, above q r -> (forall t p, g_bin g t = Some p -> p <> q) -> lstop g q r.
Proof.
  intros q [|t r] H Hne; [exact I|]. destruct H as [H1 H2]. cbn [lstop].
  destruct (g_bin g t) as [p|] eqn:E.
  - specialize (H1 p eq_refl). specialize (Hne t p E). lia.
  - exact H2.
Qed.

Lemma above_tok : forall q t r, g_bin g t = None -> tok_eqb t (g_k1 g) = false -> above q (t :: r).
Proof. intros q t r H1 H2. split; [intros p Hp; congruence|intro E; congruence]. Qed.

Lemma first_tok : forall e, wf_prec g hp e = true ->
  exists t r, toks_of g e = t :: r /\ tok_eqb t RP = false.
Proof.
  induction e as [w|s|k|e IHe|e1 IH1 e2 IH2|e IHe w|op e IHe|e IHe|op l IHl r IHr|a IHa b IHb c IHc|e IHe];
    intro H; cbn [wf_prec] in H; cbn [toks_of].
  - eexists. eexists. split; reflexivity.
  - eexists. eexists. split; reflexivity.
  - eexists. eexists. split; reflexivity.
  - apply andb_true_iff in H. destruct H as [_ H]. destruct (IHe H) as [t [r [E Ht]]]. rewrite E.
    eexists. eexists. split; [reflexivity|exact Ht].
  - apply andb_true_iff in H. destruct H as [H _]. apply andb_true_iff in H. destruct H as [_ H].
    destruct (IH1 H) as [t [r [E Ht]]]. rewrite E. eexists. eexists. split; [reflexivity|exact Ht].
  - apply andb_true_iff in H. destruct H as [H _]. apply andb_true_iff in H. destruct H as [_ H].
    destruct (IHe H) as [t [r [E Ht]]]. rewrite E. eexists. eexists. split; [reflexivity|exact Ht].
  - destruct (g_un g op) as [p|] eqn:E; [|discriminate].
    destruct (un_cases f op p E) as [_ [_ [Hrp _]]]. eexists. eexists. split; [reflexivity|exact Hrp].
  - eexists. eexists. split; reflexivity.
  - destruct (g_bin g op) as [p|] eqn:E; [|discriminate].
    apply andb_true_iff in H. destruct H as [H _]. apply andb_true_iff in H. destruct H as [_ H].
    destruct (IHl H) as [t [r' [E' Ht]]]. rewrite E'. eexists. eexists. split; [reflexivity|exact Ht].
  - apply andb_true_iff in H. destruct H as [H _]. apply andb_true_iff in H. destruct H as [H _].
    apply andb_true_iff in H. destruct H as [_ H].
    destruct (IHa H) as [t [r' [E' Ht]]]. rewrite E'. eexists. eexists. split; [reflexivity|exact Ht].
  - eexists. eexists. split; reflexivity.
Qed.

Lemma starts_rp_toks : forall e X, wf_prec g hp e = true -> starts_rp (toks_of g e ++ X) = false.
Proof. intros e X H. destruct (first_tok e H) as [t [r [E Ht]]]. rewrite E. exact Ht. Qed.

Lemma prec_primary : forall e, wf_prec g hp e = true -> (PMAX <= prec g hp e)%nat -> primary e = true.
Proof.
  intros e H Hp. destruct e; try reflexivity; cbn [wf_prec prec] in *.
  - destruct (g_un g op) as [p|] eqn:E; [|discriminate]. destruct (un_cases f op p E) as [Hlt _]. lia.
  - unfold PCAST, PMAX in Hp. lia.
  - destruct (g_bin g op) as [p|] eqn:E; [|discriminate]. destruct (bin_cases f op p E) as [Hlt _]. lia.
  - destruct (k_cases f) as [_ [_ [_ [_ [_ [_ [Hc _]]]]]]]. fold g in Hc. lia.
Qed.

(* only "(double)" followed by ")" looks like a cast *)
Lemma cast_pat_toks : forall e, wf_prec g hp e = true ->
  forall X, cast_pat g (toks_of g e ++ X) = true -> e = EAtom W_double.
Proof.
  induction e as [w|s|k|e IHe|e1 IH1 e2 IH2|e IHe w|op e IHe|e IHe|op l IHl r IHr|a IHa b IHb c IHc|e IHe];
    intros H X Hc; cbn [wf_prec] in H; cbn [toks_of] in Hc.
  - cbn [app cast_pat] in Hc. destruct X as [|[?|?|q|?] X]; try discriminate.
    apply andb_true_iff in Hc. destruct Hc as [Hc _]. apply andb_true_iff in Hc. destruct Hc as [_ Hc].
    apply bytes_eqb_eq in Hc. subst. reflexivity.
  - discriminate.
  - discriminate.
  - apply andb_true_iff in H. destruct H as [_ H]. rewrite <- app_assoc in Hc.
    specialize (IHe H _ Hc). subst e. cbn in Hc. rewrite andb_false_r in Hc. discriminate.
  - apply andb_true_iff in H. destruct H as [H _]. apply andb_true_iff in H. destruct H as [_ H].
    rewrite <- app_assoc in Hc. specialize (IH1 H _ Hc). subst e1. cbn in Hc. rewrite andb_false_r in Hc. discriminate.
  - apply andb_true_iff in H. destruct H as [H _]. apply andb_true_iff in H. destruct H as [_ H].
    rewrite <- app_assoc in Hc. specialize (IHe H _ Hc). subst e. cbn in Hc. discriminate.
  - destruct (g_un g op) as [p|] eqn:E; [|discriminate].
    destruct (un_cases f op p E) as [_ [_ [_ [_ [_ [_ Hd]]]]]].
    destruct op as [w|?|?|?]; try discriminate.
    cbn [app cast_pat] in Hc. destruct (toks_of g e ++ X) as [|[?|?|q|?] Y]; try discriminate.
    rewrite (Hd w eq_refl) in Hc. rewrite andb_false_r in Hc. discriminate.
  - discriminate.
  - destruct (g_bin g op) as [p|] eqn:E; [|discriminate].
    apply andb_true_iff in H. destruct H as [H _]. apply andb_true_iff in H. destruct H as [_ H].
    rewrite <- app_assoc in Hc. specialize (IHl H _ Hc). subst l.
    destruct (bin_cases f op p E) as [_ [_ [_ [Hrp _]]]].
    cbn [toks_of app cast_pat] in Hc. destruct op as [?|?|q|?]; try discriminate.
    rewrite Hrp in Hc. rewrite andb_false_r in Hc. discriminate.
  - apply andb_true_iff in H. destruct H as [H _]. apply andb_true_iff in H. destruct H as [H _].
    apply andb_true_iff in H. destruct H as [_ H].
    rewrite <- app_assoc in Hc. specialize (IHa H _ Hc). subst a.
    destruct (k_cases f) as [_ [_ [_ [_ [_ [Hrp _]]]]]]. fold g in Hrp.
    cbn [toks_of app cast_pat] in Hc. destruct (g_k1 g) as [?|?|q|?]; try discriminate.
    rewrite Hrp in Hc. rewrite andb_false_r in Hc. discriminate.
  - discriminate.
Qed.


Notation len e := (length (toks_of g e)).
(* slia in a context reduced to the arithmetic facts (it is very slow otherwise) *)
Ltac slia :=
  repeat match goal with
         | h : ?T |- _ =>
             lazymatch T with
             | (_ <= _)%nat => fail
             | (_ < _)%nat => fail
             | @eq nat _ _ => fail
             | ~ (@eq nat _ _) => fail
             | _ => clear h
             end
         end; lia.
Ltac lens := cbn [toks_of]; repeat (rewrite ?app_length; cbn [length]); slia.

Lemma nopost_tok : forall t r, nopost [t] -> nopost (t :: r).
Proof. intros [?|?|?|?] r H; exact H. Qed.

Theorem round_trip_gen : forall e, wf_prec g hp e = true ->
  (primary e = true -> forall minp rest res b,
     evb (fun n => ppost g n e rest) res b ->
     evb (fun n => pnud g n minp (toks_of g e ++ rest)) res (b + 4 * len e)) /\
  (forall minp rest res b,
     (minp <= prec g hp e)%nat -> nopost rest -> above (prec g hp e) rest ->
     evb (fun n => ploop g n minp e rest) res b ->
     evb (fun n => pexpr g n minp (toks_of g e ++ rest)) res (b + 4 * len e + 2)).
Proof.
  destruct (k_cases f) as [K1b [K2b [K1n [K2n [K21 [K1rp [Kc [RPb [RPk [Kcast [Kc1 Kmid]]]]]]]]]]].
  fold g in K1b, K2b, K1n, K2n, K21, K1rp, Kc, RPb, RPk, Kcast, Kc1, Kmid.
  assert (RPn : nopost [RP]) by reflexivity.
  (* the second part follows from the first for primary expressions *)
  assert (PQ : forall e,
    (forall minp rest res b, evb (fun n => ppost g n e rest) res b ->
        evb (fun n => pnud g n minp (toks_of g e ++ rest)) res (b + 4 * len e)) ->
    forall minp rest res b, nopost rest ->
      evb (fun n => ploop g n minp e rest) res b ->
      evb (fun n => pexpr g n minp (toks_of g e ++ rest)) res (b + 4 * len e + 2)).
  { intros e Q minp rest res b Hn Hl.
    eapply evb_weaken; [eapply st_pexpr; [apply Q; apply st_post_stop; exact Hn|exact Hl]|slia]. }
  (* a complete sub-expression in front of a closing token: parsed at level 0 *)
  assert (CL : forall e t rest,
    (forall minp rest res b, (minp <= prec g hp e)%nat -> nopost rest -> above (prec g hp e) rest ->
        evb (fun n => ploop g n minp e rest) res b ->
        evb (fun n => pexpr g n minp (toks_of g e ++ rest)) res (b + 4 * len e + 2)) ->
    nopost [t] -> g_bin g t = None -> tok_eqb t (g_k1 g) = false -> forall m, (m <= prec g hp e)%nat ->
    evb (fun n => pexpr g n m (toks_of g e ++ t :: rest)) (e, t :: rest) (4 * len e + 3)).
  { intros e t rest P Hn Hb Hk m Hm.
    eapply evb_weaken; [apply P; [exact Hm|apply nopost_tok; exact Hn|apply above_tok; assumption|
      apply st_loop_stop; cbn [lstop]; rewrite Hb; intro E; congruence]|slia]. }
  induction e as [w|s|k|e IHe|e1 IH1 e2 IH2|e IHe w|op e IHe|e IHe|op l IHl r IHr|a IHa b0 IHb c IHc|e IHe];
    intro H; pose proof H as Hwf; cbn [wf_prec] in H.
  - (* atom *)
    apply andb_true_iff in H. destruct H as [Hr Hd]. apply negb_true_iff in Hr, Hd.
    assert (Q : forall minp rest res b, evb (fun n => ppost g n (EAtom w) rest) res b ->
              evb (fun n => pnud g n minp (toks_of g (EAtom w) ++ rest)) res (b + 4 * len (EAtom w))).
    { intros minp rest res b Hp. eapply evb_weaken; [apply st_nud_atom; eassumption|lens]. }
    split; [intros _; exact Q|]. intros minp rest res b _ Hn _. apply PQ; assumption.
  - assert (Q : forall minp rest res b, evb (fun n => ppost g n (EStr s) rest) res b ->
              evb (fun n => pnud g n minp (toks_of g (EStr s) ++ rest)) res (b + 4 * len (EStr s))).
    { intros minp rest res b Hp. eapply evb_weaken; [apply st_nud_str; eassumption|lens]. }
    split; [intros _; exact Q|]. intros minp rest res b _ Hn _. apply PQ; assumption.
  - assert (Q : forall minp rest res b, evb (fun n => ppost g n (EHole k) rest) res b ->
              evb (fun n => pnud g n minp (toks_of g (EHole k) ++ rest)) res (b + 4 * len (EHole k))).
    { intros minp rest res b Hp. eapply evb_weaken; [apply st_nud_hole; eassumption|lens]. }
    split; [intros _; exact Q|]. intros minp rest res b _ Hn _. apply PQ; assumption.
  - (* f() *)
    apply andb_true_iff in H. destruct H as [Hp He].
    destruct (IHe He) as [Qe _]. specialize (Qe (prec_primary e He (proj1 (Nat.leb_le _ _) Hp))).
    assert (Q : forall minp rest res b, evb (fun n => ppost g n (ECall0 e) rest) res b ->
              evb (fun n => pnud g n minp (toks_of g (ECall0 e) ++ rest)) res (b + 4 * len (ECall0 e))).
    { intros minp rest res b Hpo. cbn [toks_of]. rewrite <- app_assoc. cbn [app].
      eapply evb_weaken; [apply Qe; apply st_post_call0; exact Hpo|lens]. }
    split; [intros _; exact Q|]. intros minp rest res b _ Hn _. apply PQ; assumption.
  - (* f(a) *)
    apply andb_true_iff in H. destruct H as [H Ha]. apply andb_true_iff in H. destruct H as [Hp Hf].
    destruct (IH1 Hf) as [Qf _]. specialize (Qf (prec_primary e1 Hf (proj1 (Nat.leb_le _ _) Hp))).
    destruct (IH2 Ha) as [_ Pa].
    assert (Q : forall minp rest res b, evb (fun n => ppost g n (ECall e1 e2) rest) res b ->
              evb (fun n => pnud g n minp (toks_of g (ECall e1 e2) ++ rest)) res (b + 4 * len (ECall e1 e2))).
    { intros minp rest res b Hpo. cbn [toks_of]. rewrite <- app_assoc. cbn [app]. rewrite <- app_assoc. cbn [app].
      eapply evb_weaken; [apply Qf; eapply st_post_call;
        [apply starts_rp_toks; exact Ha
        |apply (CL e2 RP rest Pa RPn RPb RPk O); slia
        |exact Hpo]|lens]. }
    split; [intros _; exact Q|]. intros minp rest res b _ Hn _. apply PQ; assumption.
  - (* e.name *)
    apply andb_true_iff in H. destruct H as [H Hd]. apply andb_true_iff in H. destruct H as [Hp He].
    destruct (IHe He) as [Qe _]. specialize (Qe (prec_primary e He (proj1 (Nat.leb_le _ _) Hp))).
    assert (Q : forall minp rest res b, evb (fun n => ppost g n (EMem e w) rest) res b ->
              evb (fun n => pnud g n minp (toks_of g (EMem e w) ++ rest)) res (b + 4 * len (EMem e w))).
    { intros minp rest res b Hpo. cbn [toks_of]. rewrite <- app_assoc. cbn [app].
      eapply evb_weaken; [apply Qe; apply st_post_mem; [exact Hd|exact Hpo]|lens]. }
    split; [intros _; exact Q|]. intros minp rest res b _ Hn _. apply PQ; assumption.
  - (* prefix operator *)
    destruct (g_un g op) as [p|] eqn:E; [|discriminate].
    apply andb_true_iff in H. destruct H as [Hp He]. apply Nat.leb_le in Hp.
    destruct (un_cases f op p E) as [_ [Hlp [_ [Hwp [Hpc [Hpb _]]]]]]. fold g in Hpc, Hpb.
    destruct (IHe He) as [_ Pe].
    split; [intro Hx; discriminate|].
    intros minp rest res b Hm Hn Ha Hl. cbn [prec] in Hm, Ha. rewrite E in Hm, Ha. cbn [toks_of app].
    eapply evb_weaken.
    + eapply st_pexpr; [|exact Hl].
      eapply st_nud_un; [exact E|exact Hm|exact Hlp|exact Hwp|].
      apply Pe; [exact Hp|exact Hn|eapply above_mono; [exact Hp|exact Ha]|].
      apply st_loop_stop. apply above_lstop; [exact Ha|]. intros t q Hq. exact (Hpb t q Hq).
    + lens.
  - (* cast *)
    apply andb_true_iff in H. destruct H as [H He]. apply andb_true_iff in H. destruct H as [Hc Hp].
    apply Nat.leb_le in Hp. destruct (IHe He) as [_ Pe].
    split; [intro Hx; discriminate|].
    intros minp rest res b Hm Hn Ha Hl. cbn [prec] in Hm, Ha. cbn [toks_of app].
    eapply evb_weaken.
    + eapply st_pexpr; [|exact Hl].
      eapply st_nud_cast; [exact Hc|exact Hm|].
      apply Pe; [exact Hp|exact Hn|eapply above_mono; [exact Hp|exact Ha]|].
      apply st_loop_stop. apply above_lstop; [exact Ha|].
      intros t q Hq. destruct (bin_cases f t q Hq) as [_ [_ [_ [_ [_ [_ [_ Hx]]]]]]]. exact (Hx Hc).
    + lens.
  - (* infix operator *)
    destruct (g_bin g op) as [p|] eqn:E; [|discriminate].
    apply andb_true_iff in H. destruct H as [H Hr]. apply andb_true_iff in H. destruct H as [H Hl].
    apply andb_true_iff in H. destruct H as [Hpl Hpr]. apply Nat.leb_le in Hpl, Hpr.
    destruct (bin_cases f op p E) as [_ [_ [_ [_ [Hnp [Hk1 _]]]]]]. fold g in Hk1.
    destruct (IHl Hl) as [_ Pl]. destruct (IHr Hr) as [_ Pr].
    split; [intro Hx; discriminate|].
    intros minp rest res b Hm Hn Ha Hlo. cbn [prec] in Hm, Ha. rewrite E in Hm, Ha.
    cbn [toks_of]. rewrite <- app_assoc. cbn [app].
    eapply evb_weaken.
    + apply Pl; [slia|apply nopost_tok; exact Hnp| |].
      * split; [intros q Hq; rewrite E in Hq; inversion Hq; subst; exact Hpl|intro Ek; congruence].
      * eapply st_loop_bin; [exact E|exact Hm| |exact Hlo].
        apply Pr; [exact Hpr|exact Hn|eapply above_mono; [|exact Ha]; slia|].
        apply st_loop_stop. apply above_lstop_S. exact Ha.
    + lens.
  - (* conditional *)
    apply andb_true_iff in H. destruct H as [H Hc]. apply andb_true_iff in H. destruct H as [H Hb].
    apply andb_true_iff in H. destruct H as [H Ha]. apply andb_true_iff in H. destruct H as [H Hpc].
    apply andb_true_iff in H. destruct H as [Hpa Hpb]. apply Nat.leb_le in Hpa, Hpb, Hpc.
    destruct (IHa Ha) as [_ Pa]. destruct (IHb Hb) as [_ Pb]. destruct (IHc Hc) as [_ Pc].
    split; [intro Hx; discriminate|].
    intros minp rest res b Hm Hn Hab Hlo. cbn [prec] in Hm, Hab.
    cbn [toks_of]. rewrite <- app_assoc. cbn [app]. rewrite <- app_assoc. cbn [app].
    eapply evb_weaken.
    + apply Pa; [slia|apply nopost_tok; exact K1n| |].
      * split; [intros q Hq; congruence|intros _; slia].
      * eapply st_loop_cond; [exact K1b|exact Hm| | |exact Hlo].
        -- apply (CL b0 (g_k2 g) (toks_of g c ++ rest) Pb K2n K2b K21 (g_mid g)). exact Hpb.
        -- apply Pc; [exact Hpc|exact Hn|eapply above_mono; [exact Hpc|exact Hab]|].
           apply st_loop_stop. destruct rest as [|t rest']; [exact I|]. destruct Hab as [A1 A2]. cbn [lstop].
           destruct (g_bin g t) as [q|] eqn:Eq.
           ++ specialize (A1 q eq_refl). destruct (bin_cases f t q Eq) as [_ [_ [_ [_ [_ [_ [Hne _]]]]]]]. fold g in Hne. slia.
           ++ intro Ek. specialize (A2 Ek). slia.
    + lens.
  - (* parentheses *)
    apply andb_true_iff in H. destruct H as [He Hnd]. destruct (IHe He) as [_ Pe].
    assert (Q : forall minp rest res b, evb (fun n => ppost g n (EParen e) rest) res b ->
              evb (fun n => pnud g n minp (toks_of g (EParen e) ++ rest)) res (b + 4 * len (EParen e))).
    { intros minp rest res b Hpo. cbn [toks_of app]. rewrite <- app_assoc. cbn [app].
      eapply evb_weaken; [eapply st_nud_paren;
        [|apply (CL e RP rest Pe RPn RPb RPk O); slia|exact Hpo]|cbn [length]; lens].
      destruct (cast_pat g (toks_of g e ++ RP :: rest)) eqn:Ecp; [|reflexivity].
      pose proof (cast_pat_toks e He _ Ecp) as Ee. subst e.
      unfold not_double in Hnd. cbn in Ecp. destruct rest as [|? ?]; cbn in Ecp;
        apply andb_true_iff in Ecp; destruct Ecp as [Ecp _]; apply andb_true_iff in Ecp; destruct Ecp as [Ecp _];
        rewrite Ecp in Hnd; cbn in Hnd; discriminate. }
    split; [intros _; exact Q|]. intros minp rest res b _ Hn _. apply PQ; assumption.
Qed.

(* the theorem: parse inverts the printer *)
Theorem parse_toks : forall e, wf_prec g hp e = true -> parse g (toks_of g e) = Some e.
Proof.
  intros e H. destruct (round_trip_gen e H) as [_ P].
  unfold parse.
  assert (E : pexpr g (4 * length (toks_of g e) + 8) 0 (toks_of g e ++ []) = Some (e, [])).
  { apply (P O [] (e, []) 1%nat); [slia|exact I|exact I|apply st_loop_stop; exact I|slia]. }
  rewrite app_nil_r in E. rewrite E. reflexivity.
Qed.

End Main.
