(* C19 -- the syntax side of the language export: tokens, a maximal-munch
   lexer (one left-to-right pass, written as a state machine), an expression
   AST with precedences for the C-like formats and for Python, its printer to
   tokens, a fuelled precedence-climbing parser, the expression a program
   denotes ([ast]), and the finite check of the template table ([table_ok])
   that Lang/SynProofs.v lifts to all programs.  Definitions only. *)
From Coq Require Import ZArith List Bool Arith.
From VV Require Import Base.F64 Mep.Genome Lang.LangBase Gen.Templates Lang.LangDefs.
Import ListNotations.
Local Open Scope Z_scope.

(* ------------------------------------------------------------- tokens *)
Inductive tok :=
| TW (w : bytes)     (* word: number, identifier (with . : _), keyword *)
| TS (s : bytes)     (* string literal, contents                       *)
| TP (p : bytes)     (* punctuation / operator, one or two bytes       *)
| TH (k : nat).      (* placeholder (only in templates)                *)

Definition tok_eqb (a b : tok) : bool :=
  match a, b with
  | TW x, TW y => bytes_eqb x y
  | TS x, TS y => bytes_eqb x y
  | TP x, TP y => bytes_eqb x y
  | TH x, TH y => Nat.eqb x y
  | _, _ => false
  end.

Definition QUOTE : Z := 34.
Definition is_space (c : Z) : bool := (c =? 32) || (c =? 9).
Definition is_alpha (c : Z) : bool := ((65 <=? c) && (c <=? 90)) || ((97 <=? c) && (c <=? 122)) || (c =? 95).
(* bytes that continue a word: letters, digits, '_', '.', ':' *)
Definition is_word (c : Z) : bool := is_alpha c || is_digit c || (c =? 46) || (c =? 58).
Definition is_sign (c : Z) : bool := (c =? 43) || (c =? 45).
Definition is_e (c : Z) : bool := (c =? 101) || (c =? 69).

(* operators of two bytes: && || <= >= == != // -- ++ *)
Definition two_char (a b : Z) : bool :=
  ((a =? 38) && (b =? 38)) || ((a =? 124) && (b =? 124)) ||
  ((a =? 60) && (b =? 61)) || ((a =? 62) && (b =? 61)) || ((a =? 61) && (b =? 61)) ||
  ((a =? 33) && (b =? 61)) || ((a =? 47) && (b =? 47)) ||
  ((a =? 45) && (b =? 45)) || ((a =? 43) && (b =? 43)).

(* ------------------------------------------------------------- lexer *)
Inductive lstate :=
| LIdle
| LWord (num : bool) (acc : bytes)    (* acc reversed; num: the word started with a digit *)
| LStr (acc : bytes)
| LPunct (c : Z).

(* "1e" / "2.5E" may be continued by a sign *)
Definition exp_tail (num : bool) (acc : bytes) : bool :=
  num && match acc with c :: _ => is_e c | [] => false end.

Definition lstart (c : Z) : lstate :=
  if is_space c then LIdle
  else if is_word c then LWord (is_digit c) [c]
  else if c =? QUOTE then LStr []
  else LPunct c.

Definition lstep (st : lstate) (c : Z) : list tok * lstate :=
  match st with
  | LIdle => ([], lstart c)
  | LWord num w =>
      if is_word c || (exp_tail num w && is_sign c) then ([], LWord num (c :: w))
      else ([TW (rev w)], lstart c)
  | LStr s => if c =? QUOTE then ([TS (rev s)], LIdle) else ([], LStr (c :: s))
  | LPunct p => if two_char p c then ([TP [p; c]], LIdle) else ([TP [p]], lstart c)
  end.

Fixpoint lsteps (st : lstate) (s : bytes) : list tok * lstate :=
  match s with
  | [] => ([], st)
  | c :: r => let (e1, s1) := lstep st c in let (e2, s2) := lsteps s1 r in (e1 ++ e2, s2)
  end.

Definition lfinish (st : lstate) : option (list tok) :=
  match st with
  | LIdle => Some []
  | LWord _ w => Some [TW (rev w)]
  | LStr _ => None                  (* unterminated string literal *)
  | LPunct p => Some [TP [p]]
  end.

Definition lex (s : bytes) : option (list tok) :=
  let (e, st) := lsteps LIdle s in
  match lfinish st with Some f => Some (e ++ f) | None => None end.

(* the next byte cannot be absorbed into the pending token *)
Definition noglue (st : lstate) (c : Z) : bool :=
  match st with
  | LIdle => true
  | LWord num w => negb (is_word c || (exp_tail num w && is_sign c))
  | LStr _ => false
  | LPunct p => negb (two_char p c)
  end.

(* what matters of the state reached at the end of a complete text *)
Inductive acls := AIdle | AWord | APunct (p : Z).
Definition cls_of (st : lstate) : option acls :=
  match st with
  | LIdle => Some AIdle
  | LWord num w => if exp_tail num w then None else Some AWord
  | LStr _ => None
  | LPunct p => Some (APunct p)
  end.
Definition noglue_cls (cl : acls) (c : Z) : bool :=
  match cl with
  | AIdle => true
  | AWord => negb (is_word c)
  | APunct p => negb (two_char p c)
  end.
Definition acls_eqb (a b : acls) : bool :=
  match a, b with
  | AIdle, AIdle => true
  | AWord, AWord => true
  | APunct p, APunct q => p =? q
  | _, _ => false
  end.

(* ---------------------------------------------------------------- AST *)
Inductive cexpr :=
| EAtom (w : bytes)
| EStr (s : bytes)
| EHole (k : nat)
| ECall0 (f : cexpr)                       (* f() *)
| ECall (f : cexpr) (a : cexpr)            (* f(a)  -- several arguments are a comma expression *)
| EMem (e : cexpr) (w : bytes)             (* e.name ; w includes the dot *)
| EUn (op : tok) (e : cexpr)               (* prefix operator *)
| ECast (e : cexpr)                        (* (double)e *)
| EBin (op : tok) (l r : cexpr)
| ECond (a b c : cexpr)                    (* a ? b : c      a if b else c *)
| EParen (e : cexpr).

Definition LP : tok := TP [40].
Definition RP : tok := TP [41].
Definition W_double : bytes := [100; 111; 117; 98; 108; 101].

Record gram := {
  g_bin : tok -> option nat;       (* infix operators, left associative *)
  g_un : tok -> option nat;        (* prefix operators *)
  g_k1 : tok; g_k2 : tok;          (* the two separators of the conditional *)
  g_cond : nat;                    (* precedence of the conditional (right associative) *)
  g_mid : nat;                     (* least precedence of its middle operand *)
  g_cast : bool                    (* (double)e exists *)
}.

Definition PMAX : nat := 15.
Definition PCAST : nat := 13.

Definition p1 (c : Z) := TP [c].
Definition p2 (a b : Z) := TP [a; b].

Fixpoint assoc_tok (t : tok) (l : list (tok * nat)) : option nat :=
  match l with
  | [] => None
  | (k, v) :: r => if tok_eqb t k then Some v else assoc_tok t r
  end.

(* C, C++, MQL:   ,  ?:  ||  &&  == !=  < > <= >=  + -  * / %  unary  postfix *)
Definition c_gram : gram := {|
  g_bin := fun t => assoc_tok t
    [(p1 44, 1); (p2 124 124, 3); (p2 38 38, 4); (p2 61 61, 7); (p2 33 61, 7);
     (p1 60, 8); (p1 62, 8); (p2 60 61, 8); (p2 62 61, 8);
     (p1 43, 10); (p1 45, 10); (p1 42, 11); (p1 47, 11); (p1 37, 11)]%nat;
  g_un := fun t => assoc_tok t [(p1 33, 13); (p1 45, 13); (p1 43, 13)]%nat;
  g_k1 := p1 63; g_k2 := TW [58] (* an isolated colon is lexed as a word *); g_cond := 2; g_mid := 0; g_cast := true |}.

Definition W_if : bytes := [105; 102].
Definition W_else : bytes := [101; 108; 115; 101].
Definition W_and : bytes := [97; 110; 100].
Definition W_or : bytes := [111; 114].
Definition W_not : bytes := [110; 111; 116].

(* Python:  ,  if-else  or  and  not  comparisons  + -  * / // %  unary -  postfix *)
Definition py_gram : gram := {|
  g_bin := fun t => assoc_tok t
    [(p1 44, 1); (TW W_or, 3); (TW W_and, 4); (p2 61 61, 6); (p2 33 61, 6);
     (p1 60, 6); (p1 62, 6); (p2 60 61, 6); (p2 62 61, 6);
     (p1 43, 10); (p1 45, 10); (p1 42, 11); (p1 47, 11); (p2 47 47, 11); (p1 37, 11)]%nat;
  g_un := fun t => assoc_tok t [(TW W_not, 5); (p1 45, 12); (p1 43, 12)]%nat;
  g_k1 := TW W_if; g_k2 := TW W_else; g_cond := 2; g_mid := 3; g_cast := false |}.

Definition gram_of (f : fmt) : gram := match f with FPy => py_gram | _ => c_gram end.

Definition is_some {A} (o : option A) : bool := match o with Some _ => true | None => false end.

(* words that are not operands *)
Definition reserved (g : gram) (w : bytes) : bool :=
  is_some (g_bin g (TW w)) || is_some (g_un g (TW w)) || tok_eqb (TW w) (g_k1 g) || tok_eqb (TW w) (g_k2 g).
Definition starts_dot (w : bytes) : bool := match w with c :: _ => c =? 46 | [] => false end.

(* printer: the token sequence of an expression (parentheses are explicit nodes) *)
Fixpoint toks_of (g : gram) (e : cexpr) : list tok :=
  match e with
  | EAtom w => [TW w]
  | EStr s => [TS s]
  | EHole k => [TH k]
  | ECall0 f => toks_of g f ++ [LP; RP]
  | ECall f a => toks_of g f ++ LP :: toks_of g a ++ [RP]
  | EMem e w => toks_of g e ++ [TW w]
  | EUn op e => op :: toks_of g e
  | ECast e => LP :: TW W_double :: RP :: toks_of g e
  | EBin op l r => toks_of g l ++ op :: toks_of g r
  | ECond a b c => toks_of g a ++ g_k1 g :: toks_of g b ++ g_k2 g :: toks_of g c
  | EParen e => LP :: toks_of g e ++ [RP]
  end.

(* precedence offered by an expression; a placeholder offers [hp] *)
Definition prec (g : gram) (hp : nat) (e : cexpr) : nat :=
  match e with
  | EAtom _ | EStr _ | ECall0 _ | ECall _ _ | EMem _ _ | EParen _ => PMAX
  | EHole _ => hp
  | EUn op _ => match g_un g op with Some p => p | None => O end
  | ECast _ => PCAST
  | EBin op _ _ => match g_bin g op with Some p => p | None => O end
  | ECond _ _ _ => g_cond g
  end.

(* not the type name of the cast *)
Definition not_double (g : gram) (e : cexpr) : bool :=
  negb (g_cast g && match e with EAtom w => bytes_eqb w W_double | _ => false end).

(* every operand offers at least the precedence its position demands *)
Fixpoint wf_prec (g : gram) (hp : nat) (e : cexpr) : bool :=
  match e with
  | EAtom w => negb (reserved g w) && negb (starts_dot w)
  | EStr _ => true
  | EHole _ => true
  | ECall0 f => Nat.leb PMAX (prec g hp f) && wf_prec g hp f
  | ECall f a => Nat.leb PMAX (prec g hp f) && wf_prec g hp f && wf_prec g hp a
  | EMem e w => Nat.leb PMAX (prec g hp e) && wf_prec g hp e && starts_dot w
  | EUn op e =>
      match g_un g op with
      | Some p => Nat.leb p (prec g hp e) && wf_prec g hp e
      | None => false
      end
  | ECast e => g_cast g && Nat.leb PCAST (prec g hp e) && wf_prec g hp e
  | EBin op l r =>
      match g_bin g op with
      | Some p => Nat.leb p (prec g hp l) && Nat.leb (S p) (prec g hp r) && wf_prec g hp l && wf_prec g hp r
      | None => false
      end
  | ECond a b c =>
      Nat.leb (S (g_cond g)) (prec g hp a) && Nat.leb (g_mid g) (prec g hp b) && Nat.leb (g_cond g) (prec g hp c) &&
      wf_prec g hp a && wf_prec g hp b && wf_prec g hp c
  | EParen e => wf_prec g hp e && not_double g e      (* "(double)" is the cast *)
  end.

(* replace placeholder k by the k-th expression *)
Fixpoint csubst (ks : list cexpr) (e : cexpr) : cexpr :=
  match e with
  | EAtom _ | EStr _ => e
  | EHole k => nth k ks (EHole k)
  | ECall0 f => ECall0 (csubst ks f)
  | ECall f a => ECall (csubst ks f) (csubst ks a)
  | EMem e w => EMem (csubst ks e) w
  | EUn op e => EUn op (csubst ks e)
  | ECast e => ECast (csubst ks e)
  | EBin op l r => EBin op (csubst ks l) (csubst ks r)
  | ECond a b c => ECond (csubst ks a) (csubst ks b) (csubst ks c)
  | EParen e => EParen (csubst ks e)
  end.

Definition tsubst (kts : list (list tok)) (ts : list tok) : list tok :=
  flat_map (fun t => match t with TH k => nth k kts [TH k] | _ => [t] end) ts.

Fixpoint holes_lt (n : nat) (e : cexpr) : bool :=
  match e with
  | EAtom _ | EStr _ => true
  | EHole k => Nat.ltb k n
  | ECall f a => holes_lt n f && holes_lt n a
  | ECall0 e | EMem e _ | EUn _ e | ECast e | EParen e => holes_lt n e
  | EBin _ l r => holes_lt n l && holes_lt n r
  | ECond a b c => holes_lt n a && holes_lt n b && holes_lt n c
  end.

(* ------------------------------------------- precedence-climbing parser *)
Definition bind {A B} (o : option A) (k : A -> option B) : option B :=
  match o with Some a => k a | None => None end.

Definition expect (t : tok) (ts : list tok) : option (list tok) :=
  match ts with x :: r => if tok_eqb x t then Some r else None | [] => None end.

(* "( double )" opens a cast; "( )" is an empty argument list *)
Definition cast_pat (g : gram) (r : list tok) : bool :=
  match r with
  | TW ty :: TP q :: _ => g_cast g && bytes_eqb ty W_double && tok_eqb (TP q) RP
  | _ => false
  end.
Definition starts_rp (r : list tok) : bool :=
  match r with t :: _ => tok_eqb t RP | [] => false end.

Fixpoint pexpr (g : gram) (fuel : nat) (minp : nat) (ts : list tok) {struct fuel} : option (cexpr * list tok) :=
  match fuel with
  | O => None
  | S f => bind (pnud g f minp ts) (fun '(lhs, r) => ploop g f minp lhs r)
  end
with pnud (g : gram) (fuel : nat) (minp : nat) (ts : list tok) {struct fuel} : option (cexpr * list tok) :=
  match fuel with
  | O => None
  | S f =>
      match ts with
      | [] => None
      | TS s :: r => ppost g f (EStr s) r
      | TH k :: r => ppost g f (EHole k) r
      | TW w :: r =>
          match g_un g (TW w) with
          | Some p => if Nat.ltb p minp then None
                      else bind (pexpr g f p r) (fun '(e, r') => Some (EUn (TW w) e, r'))
          | None => if reserved g w || starts_dot w then None else ppost g f (EAtom w) r
          end
      | TP p :: r =>
          if tok_eqb (TP p) LP then
            if cast_pat g r then
              if Nat.ltb PCAST minp then None
              else bind (pexpr g f PCAST (skipn 2 r)) (fun '(e, r') => Some (ECast e, r'))
            else bind (pexpr g f O r) (fun '(e, r') => bind (expect RP r') (fun r'' => ppost g f (EParen e) r''))
          else
            match g_un g (TP p) with
            | Some q => if Nat.ltb q minp then None
                        else bind (pexpr g f q r) (fun '(e, r') => Some (EUn (TP p) e, r'))
            | None => None
            end
      end
  end
with ppost (g : gram) (fuel : nat) (e : cexpr) (ts : list tok) {struct fuel} : option (cexpr * list tok) :=
  match fuel with
  | O => None
  | S f =>
      match ts with
      | TP p :: r =>
          if tok_eqb (TP p) LP then
            if starts_rp r then ppost g f (ECall0 e) (tl r)
            else bind (pexpr g f O r) (fun '(a, r') => bind (expect RP r') (fun r'' => ppost g f (ECall e a) r''))
          else Some (e, ts)
      | TW w :: r => if starts_dot w then ppost g f (EMem e w) r else Some (e, ts)
      | _ => Some (e, ts)
      end
  end
with ploop (g : gram) (fuel : nat) (minp : nat) (lhs : cexpr) (ts : list tok) {struct fuel} : option (cexpr * list tok) :=
  match fuel with
  | O => None
  | S f =>
      match ts with
      | [] => Some (lhs, [])
      | t :: r =>
          match g_bin g t with
          | Some p =>
              if Nat.leb minp p
              then bind (pexpr g f (S p) r) (fun '(rhs, r') => ploop g f minp (EBin t lhs rhs) r')
              else Some (lhs, ts)
          | None =>
              if tok_eqb t (g_k1 g) && Nat.leb minp (g_cond g)
              then bind (pexpr g f (g_mid g) r) (fun '(b, r') =>
                   bind (expect (g_k2 g) r') (fun r'' =>
                   bind (pexpr g f (g_cond g) r'') (fun '(c, r3) => ploop g f minp (ECond lhs b c) r3)))
              else Some (lhs, ts)
          end
      end
  end.

Definition parse (g : gram) (ts : list tok) : option cexpr :=
  match pexpr g (4 * length ts + 8) O ts with
  | Some (e, []) => Some e
  | _ => None
  end.

(* ------------------------------------------ templates as token lists *)
Definition hole_num (n : nat) (d : bytes) : nat :=
  match hole_index n d with Some i => i | None => n end.

(* tokens of a template: the literal pieces are lexed separately (no token
   spans a placeholder) *)
Fixpoint tlex (n : nat) (sgs : list seg) : option (list tok) :=
  match sgs with
  | [] => Some []
  | Lit l :: r => match lex l, tlex n r with Some a, Some b => Some (a ++ b) | _, _ => None end
  | Hole d :: r => match tlex n r with Some b => Some (TH (hole_num n d) :: b) | None => None end
  end.

Definition not_hole (t : tok) : bool := match t with TH _ => false | _ => true end.

(* the expression a template denotes *)
Definition tmpl_ast (g : gram) (n : nat) (txt : bytes) : option cexpr :=
  match tlex n (segs_of txt) with Some ts => parse g ts | None => None end.

(* ------------------------------------------------- the table of a format *)
(* (arity, template) of every shipped function class *)
Definition fun_table (f : fmt) : list (nat * bytes) :=
  flat_map (fun c => if tc_terminal c then []
                     else match fun_text c f (tc_arity c) with Some t => [(tc_arity c, t)] | None => [] end)
           classes_all.

(* shapes of terminal texts: identifier / number word, string literal without
   a quote inside, or a parenthesised negative number *)
Definition word_ok (g : gram) (w : bytes) : bool :=
  negb (bytes_eqb w []) && forallb is_word w && negb (reserved g w) && negb (starts_dot w) &&
  negb (g_cast g && bytes_eqb w W_double) &&       (* "(double)" is the cast *)
  negb (exp_tail (match w with c :: _ => is_digit c | [] => false end) (rev w)) &&
  (* no exponent sign inside: the word is one token *)
  true.

Inductive tshape := ShWord (w : bytes) | ShStr (s : bytes) | ShNeg (w : bytes).

Definition shape_text (sh : tshape) : bytes :=
  match sh with
  | ShWord w => w
  | ShStr s => QUOTE :: s ++ [QUOTE]
  | ShNeg w => LPAR :: MINUS :: w ++ [RPAR]
  end.
Definition shape_ok (g : gram) (sh : tshape) : bool :=
  match sh with
  | ShWord w => word_ok g w
  | ShStr s => forallb (fun c => negb (c =? QUOTE)) s
  | ShNeg w => word_ok g w
  end.
Definition shape_ast (sh : tshape) : cexpr :=
  match sh with
  | ShWord w => EAtom w
  | ShStr s => EStr s
  | ShNeg w => EParen (EUn (p1 MINUS) (EAtom w))
  end.

(* first bytes any node text can have in this format; end classes any node
   text can have: after a word, after a string literal, after ')' *)
Definition firsts (f : fmt) (c : Z) : bool :=
  is_word c || (c =? QUOTE) || (c =? LPAR) ||
  existsb (fun e => match snd e with x :: _ => x =? c | [] => false end) (fun_table f).
Definition ends : list acls := [AWord; AIdle; APunct RPAR].

(* second bytes of the two-byte operators *)
Definition second_bytes : list Z := [38; 124; 61; 47; 45; 43].
(* a literal piece left in state [st] can be followed by any node text *)
Definition border_lh (f : fmt) (st : lstate) : bool :=
  match st with
  | LIdle => true
  | LPunct p => forallb (fun c => negb (firsts f c) || negb (two_char p c)) second_bytes
  | _ => false
  end.

Definition end_state (l : bytes) : lstate := snd (lsteps LIdle l).

(* no token can form across the border between a literal piece and an argument *)
Fixpoint borders_ok (f : fmt) (sgs : list seg) : bool :=
  match sgs with
  | [] => true
  | Lit l :: r =>
      negb (bytes_eqb l []) &&
      match r with
      | [] => existsb (fun cl => match cls_of (end_state l) with Some x => acls_eqb x cl | None => false end) ends
      | Hole _ :: _ => border_lh f (end_state l)
      | Lit _ :: _ => false
      end && borders_ok f r
  | Hole _ :: r =>
      match r with
      | [] => true
      | Lit (c :: _) :: _ => forallb (fun cl => noglue_cls cl c) ends
      | _ => false
      end && borders_ok f r
  end.

Fixpoint lits_ok (sgs : list seg) : bool :=
  match sgs with
  | [] => true
  | Lit l :: r => match lex l with Some ts => forallb not_hole ts | None => false end && lits_ok r
  | Hole _ :: r => lits_ok r
  end.

Definition is_paren (e : cexpr) : bool := match e with EParen _ => true | _ => false end.

(* least precedence offered by the root of any node of this format *)
Definition entry_root (g : gram) (e : nat * bytes) : nat :=
  match tmpl_ast g (fst e) (snd e) with Some a => prec g PMAX a | None => O end.
Definition root_min (f : fmt) : nat :=
  fold_right Nat.min PMAX (map (entry_root (gram_of f)) (fun_table f)).

Fixpoint forallb2 {A} (p : A -> A -> bool) (a b : list A) : bool :=
  match a, b with
  | [], [] => true
  | x :: a', y :: b' => p x y && forallb2 p a' b'
  | _, _ => false
  end.
Definition is_hole (e : cexpr) : bool := match e with EHole _ => true | _ => false end.

Definition entry_ok (f : fmt) (e : nat * bytes) : bool :=
  let g := gram_of f in
  let hp := root_min f in
  let (n, txt) := e in
  let sgs := segs_of txt in
  tmpl_okb n txt && lits_ok sgs && borders_ok f sgs &&
  match sgs with Lit (c :: _) :: _ => negb (is_space c) | _ => false end &&   (* starts with a literal byte *)
  match tlex n sgs, tmpl_ast g n txt with
  | Some ts, Some a =>
      forallb2 tok_eqb (toks_of g a) ts && wf_prec g hp a && Nat.leb hp (prec g hp a) && holes_lt n a &&
      (negb (match txt with c :: _ => c =? LPAR | [] => false end) || is_paren a) &&
      negb (is_hole a) && not_double g a
  | _, _ => false
  end.

Definition table_ok (f : fmt) : bool := forallb (entry_ok f) (fun_table f).

(* ------------------------------------- the expression a program denotes *)
Definition shape_of (txt : bytes) : tshape :=
  match txt with
  | c :: r =>
      if c =? QUOTE then ShStr (removelast r)
      else if c =? LPAR then
        match r with
        | m :: r' => if m =? MINUS then ShNeg (removelast r') else ShWord txt
        | [] => ShWord txt
        end
      else ShWord txt
  | [] => ShWord []
  end.

Definition term_ok (g : gram) (txt : bytes) : bool :=
  shape_ok g (shape_of txt) && bytes_eqb (shape_text (shape_of txt)) txt.

Definition entry_eqb (a b : nat * bytes) : bool := Nat.eqb (fst a) (fst b) && bytes_eqb (snd a) (snd b).

(* a terminal is its literal; a function node is its template's expression
   with each placeholder replaced by the expression of the argument *)
Fixpoint ast (env : lang_env) (f : fmt) (t : tree) : cexpr :=
  match t with
  | Node s par kids =>
      let txt := match sym_text env f s par with Some x => x | None => [] end in
      match kids with
      | [] => shape_ast (shape_of txt)
      | _ => csubst (map (ast env f) kids)
                    (match tmpl_ast (gram_of f) (length kids) txt with Some a => a | None => EHole O end)
      end
  end.

(* the nodes are shipped function classes (with their own arity) and
   terminals printed as a word, a string literal or a parenthesised negative
   number *)
Fixpoint tree_ok (env : lang_env) (f : fmt) (t : tree) : bool :=
  match t with
  | Node s par kids =>
      match sym_text env f s par with
      | None => false
      | Some txt =>
          match kids with
          | [] => term_ok (gram_of f) txt
          | _ => existsb (entry_eqb (length kids, txt)) (fun_table f)
          end
      end && forallb (tree_ok env f) kids
  end.

(* reading of a printed text: lex, then parse with the format's precedences *)
Definition read (f : fmt) (txt : bytes) : option cexpr :=
  match lex txt with Some ts => parse (gram_of f) ts | None => None end.

(* the outermost pair of parentheses is stripped by language() *)
Definition strip_paren (e : cexpr) : cexpr := match e with EParen x => x | _ => e end.
