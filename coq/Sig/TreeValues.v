(* C03 -- equality of canonical trees is equality of symbols and constants:
   with distinct 16-bit opcodes and F64.to_bits injective, [canon t1 = canon t2]
   says that the two trees have the same shape, the same symbol at every node
   and the same constant at every parametric terminal. *)
From Coq Require Import ZArith NArith List Bool Arith Lia.
From VV Require Import Base.F64 Base.Values Interp.Strategy Mep.Genome Sig.Bits64 Sig.Murmur Sig.SigDefs Sig.SigProofs Sig.TreeProofs Sig.F64Bits.
Import ListNotations.

Lemma par_bits_injective : forall p q : f64, par_bits p = par_bits q -> p = q.
Proof.
  intros p q H. unfold par_bits in H. apply to_bits_injective.
  pose proof (to_bits_range p) as Rp. pose proof (to_bits_range q) as Rq.
  change (2 ^ 64)%Z with 18446744073709551616%Z in *.
  rewrite !Z.mod_small in H by lia. apply Z2N.inj in H; lia.
Qed.

(* same symbol at every node, same constant at every parametric terminal *)
Inductive same_tree : tree -> tree -> Prop :=
| same_node : forall s p1 p2 k1 k2,
    (Nat.eqb (arity s) 0 && s_parametric s = true -> p1 = p2) ->
    Forall2 same_tree k1 k2 -> same_tree (Node s p1 k1) (Node s p2 k2).

Lemma canon_same_tree U : distinct_opcodes U -> forall t1, over U t1 -> forall t2, over U t2 ->
  canon t1 = canon t2 -> same_tree t1 t2.
Proof.
  intros HU t1. induction t1 as [s1 p1 k1 IH] using tree_ind2. intros O1 [s2 p2 k2] O2 E.
  inversion O1 as [? ? ? U1 Ok1]. inversion O2 as [? ? ? U2 Ok2]. subst.
  cbn [canon] in E. inversion E as [[Eop Epar Ek]].
  pose proof (HU s1 s2 U1 U2 Eop) as Es. subst s2. constructor.
  - intro Hc. rewrite Hc in Epar. inversion Epar as [Eb]. apply par_bits_injective. exact Eb.
  - clear Epar Eop E O1 O2. revert k2 Ok2 Ek.
    induction k1 as [|a k1 IHk]; intros [|b k2] Ok2 Ek; try discriminate; [constructor|].
    inversion IH as [|? ? IHa IHr]. inversion Ok1 as [|? ? Oa Or]. inversion Ok2 as [|? ? Ob Or2]. subst.
    cbn [map] in Ek. inversion Ek as [[Eab Ek']]. constructor; [apply IHa; assumption|apply IHk; assumption].
Qed.

Lemma same_tree_canon : forall t1 t2, same_tree t1 t2 -> canon t1 = canon t2.
Proof.
  induction t1 as [s1 p1 k1 IH] using tree_ind2. intros t2 H. inversion H as [s q1 q2 l1 l2 Hp Hk]. subst.
  cbn [canon]. f_equal.
  - destruct (Nat.eqb (arity s1) 0 && s_parametric s1) eqn:Ec; [rewrite (Hp eq_refl)|]; reflexivity.
  - clear Hp H. revert l2 Hk. induction k1 as [|a k1 IHk]; intros l2 Hk; inversion Hk as [|? b ? l2' Hab Hr]; subst; [reflexivity|].
    inversion IH as [|? ? IHa IHr]. subst. cbn [map]. rewrite (IHa b Hab), (IHk IHr l2' Hr). reflexivity.
Qed.

Lemma canon_eq_iff_same_tree U : distinct_opcodes U -> forall t1 t2, over U t1 -> over U t2 ->
  (canon t1 = canon t2 <-> same_tree t1 t2).
Proof.
  intros HU t1 t2 O1 O2. split; [apply (canon_same_tree U HU); assumption|apply same_tree_canon].
Qed.

(* equal packs <-> same symbols and constants *)
Lemma pack_eq_iff_same_tree U : distinct_opcodes U -> forall g1 g2 t1 t2,
  genome_over U g1 -> genome_over U g2 -> active_tree g1 = Some t1 -> active_tree g2 = Some t2 ->
  (mep_pack g1 = mep_pack g2 <-> same_tree t1 t2).
Proof.
  intros HU g1 g2 t1 t2 O1 O2 A1 A2.
  rewrite (pack_eq_iff_tree_eq U (distinct_coherent U HU) g1 g2 t1 t2 O1 O2 A1 A2).
  apply (canon_eq_iff_same_tree U HU);
    [exact (proj2 (tree_of_props U g1 O1 _ _ _ A1))|exact (proj2 (tree_of_props U g2 O2 _ _ _ A2))].
Qed.

(* any semantics that is a function of the canonical tree gives equal results
   on equal trees (that the interpreter is such a function is C01) *)
Lemma equal_tree_equal_output : forall (X : Type) (den : ctree -> X) (g1 g2 : genome) t1 t2,
  active_tree g1 = Some t1 -> active_tree g2 = Some t2 -> canon t1 = canon t2 ->
  den (canon t1) = den (canon t2).
Proof. intros X den g1 g2 t1 t2 _ _ E. exact (f_equal den E). Qed.
