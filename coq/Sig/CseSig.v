(* C03 -- i_mep::cse() keeps the packed stream (discharges H_cse).
   cse is the C02 model Mep/OpsDefs.v [cse_genome cmp]: every cell, bottom
   row first, gets each argument redirected to the locus registered for an
   equivalent gene (std::map find), then is itself registered (try_emplace).
   What is used of the comparator is only [equiv_sound]: equivalent genes have
   the same symbol and, for a parametric terminal, the same parameter BYTES,
   for a function the same arguments. *)
From Coq Require Import ZArith NArith List Bool Arith Lia FinFun.
From VV Require Import Base.F64 Base.Values Interp.Strategy Mep.Genome Mep.OpsDefs.
From VV Require Import Sig.Bits64 Sig.Murmur Sig.SigDefs Sig.SigProofs Sig.TreeProofs Sig.CseDefs.
Import ListNotations.

(* Four small facts about C02's definitions, re-proved here (they also are in
   Mep/CseProofs.v) so that this file depends on the DEFINITIONS of the cse
   model only, not on the proof files of other properties. *)
Lemma mapO_Forall2 {A B} (f : A -> option B) : forall l l', mapO f l = Some l' ->
  Forall2 (fun a b => f a = Some b) l l'.
Proof.
  induction l as [|a l IH]; intros l' H; cbn [mapO] in H.
  - inversion H. constructor.
  - destruct (f a) as [b|] eqn:Ea; [|discriminate]. destruct (mapO f l) as [bs|]; [|discriminate].
    inversion H. subst. constructor; auto.
Qed.
Lemma lex_ltb_irrefl a : lex_ltb a a = false.
Proof. induction a as [|x a IH]; cbn [lex_ltb]; [reflexivity|]. rewrite Nat.ltb_irrefl. exact IH. Qed.
Lemma lex_incomp_eq : forall a b, lex_ltb a b = false -> lex_ltb b a = false -> a = b.
Proof.
  induction a as [|x a IH]; intros [|y b] H1 H2; cbn [lex_ltb] in *; try discriminate; [reflexivity|].
  destruct (Nat.ltb x y) eqn:E1; [discriminate|]. destruct (Nat.ltb y x) eqn:E2; [discriminate|].
  apply Nat.ltb_ge in E1, E2. assert (x = y) by lia. subst. f_equal. apply IH; assumption.
Qed.
Lemma gene_equiv_char a b :
  (s_opcode (g_sym a) = s_opcode (g_sym b) ->
   s_argcats (g_sym a) = s_argcats (g_sym b) /\ s_parametric (g_sym a) = s_parametric (g_sym b)) ->
  (gene_equiv gene_cmp a b = true <->
   s_opcode (g_sym a) = s_opcode (g_sym b) /\
   (if is_terminal (g_sym a)
    then (if s_parametric (g_sym a) then par_incomp (g_par a) (g_par b) = true else True)
    else g_args a = g_args b)).
Proof.
  intros Hcoh. unfold gene_equiv, gene_cmp.
  destruct (Z.eqb_spec (s_opcode (g_sym a)) (s_opcode (g_sym b))) as [Eop|Nop].
  - destruct (Hcoh Eop) as [Hac Hpar].
    replace (s_opcode (g_sym b) =? s_opcode (g_sym a))%Z with true by (symmetry; apply Z.eqb_eq; congruence).
    cbn [negb]. unfold is_terminal. rewrite <- Hac, <- Hpar.
    destruct (s_argcats (g_sym a)) eqn:Eac.
    + destruct (s_parametric (g_sym a)).
      * unfold par_incomp. tauto.
      * cbn. tauto.
    + split.
      * intros H. apply andb_true_iff in H. destruct H as [H1 H2]. apply negb_true_iff in H1, H2.
        split; [exact Eop|]. apply lex_incomp_eq; assumption.
      * intros [_ ->]. rewrite lex_ltb_irrefl. reflexivity.
  - replace (s_opcode (g_sym b) =? s_opcode (g_sym a))%Z with false
      by (symmetry; apply Z.eqb_neq; congruence).
    cbn [negb]. split; [|intros [H _]; contradiction].
    intros H. apply andb_true_iff in H. destruct H as [H1 H2]. apply negb_true_iff in H1, H2.
    apply Z.ltb_ge in H1. apply Z.ltb_ge in H2. lia.
Qed.

(* equality of optional trees up to the canonical form *)
Definition ceq (a b : option tree) : Prop := option_map canon a = option_map canon b.
Lemma ceq_refl a : ceq a a. Proof. reflexivity. Qed.
Lemma ceq_trans a b c : ceq a b -> ceq b c -> ceq a c. Proof. unfold ceq. congruence. Qed.
Lemma ceq_sym a b : ceq a b -> ceq b a. Proof. unfold ceq. congruence. Qed.

Definition build (s : sym) (p : f64) (ks : list (option tree)) : option tree :=
  if forallb (fun o => match o with Some _ => true | None => false end) ks
  then Some (Node s p (flat_map (fun o => match o with Some t => [t] | None => [] end) ks))
  else None.

Lemma tree_of_S f g l : tree_of (S f) g l =
  match gene_at g l with
  | None => None
  | Some ge => build (g_sym ge) (g_par ge)
                 (map (fun i => match arg_locus ge i with Some la => tree_of f g la | None => None end)
                      (seq 0 (arity (g_sym ge))))
  end.
Proof. reflexivity. Qed.

Lemma kids_ceq : forall ks ks', Forall2 ceq ks ks' ->
  forallb (fun o => match o with Some _ => true | None => false end) ks =
  forallb (fun o => match o with Some _ => true | None => false end) ks' /\
  map canon (flat_map (fun o => match o with Some t => [t] | None => [] end) ks) =
  map canon (flat_map (fun o => match o with Some t => [t] | None => [] end) ks').
Proof.
  induction 1 as [|a b ks ks' Hab HF [IH1 IH2]]; [split; reflexivity|].
  destruct a as [ta|], b as [tb|]; unfold ceq in Hab; cbn in Hab; try discriminate; cbn [forallb flat_map andb app map].
  - inversion Hab as [Hc]. rewrite IH1, IH2, Hc. split; reflexivity.
  - split; [reflexivity|exact IH2].
Qed.

Lemma build_ceq s p p' ks ks' : Forall2 ceq ks ks' ->
  (Nat.eqb (arity s) 0 && s_parametric s = true -> par_bits p = par_bits p') ->
  ceq (build s p ks) (build s p' ks').
Proof.
  intros HF Hp. destruct (kids_ceq ks ks' HF) as [E1 E2]. unfold build, ceq. rewrite <- E1.
  destruct (forallb _ ks); [|reflexivity]. cbn [option_map canon]. rewrite E2.
  destruct (Nat.eqb (arity s) 0 && s_parametric s) eqn:Eb; [rewrite (Hp eq_refl)|]; reflexivity.
Qed.

Lemma Forall2_map_seq {A} (R : A -> A -> Prop) (F G : nat -> A) n :
  (forall i, R (F i) (G i)) -> Forall2 R (map F (seq 0 n)) (map G (seq 0 n)).
Proof. intro H. induction (seq 0 n) as [|i l IH]; cbn; constructor; auto. Qed.

(* two loci holding "the same" gene unfold to the same canonical tree *)
Lemma merge_ceq g l1 l2 a b : gene_at g l1 = Some a -> gene_at g l2 = Some b ->
  g_sym a = g_sym b ->
  (if is_terminal (g_sym a)
   then (s_parametric (g_sym a) = true -> par_bits (g_par a) = par_bits (g_par b))
   else g_args a = g_args b) ->
  forall f, ceq (tree_of f g l1) (tree_of f g l2).
Proof.
  intros Ha Hb Es Hd [|f]; [apply ceq_refl|]. rewrite !tree_of_S, Ha, Hb, <- Es.
  unfold is_terminal, arity in *. destruct (s_argcats (g_sym a)) as [|c0 cs] eqn:Eac.
  - cbn [length seq map]. apply build_ceq; [constructor|]. intro H. apply andb_true_iff in H. apply Hd. apply H.
  - apply build_ceq; [|intro Hx; unfold arity in Hx; rewrite Eac in Hx; discriminate Hx].
    apply Forall2_map_seq. intro i. unfold arg_locus. rewrite <- Es, Hd. apply ceq_refl.
Qed.

Lemma gene_at_put_same g r c o : r < rows g -> c < cats g ->
  gene_at (put_cell g r c o) {| l_index := r; l_cat := c |} = o.
Proof.
  intros Hr Hc. unfold gene_at, put_cell. cbn [rows cats cell l_index l_cat].
  apply Nat.ltb_lt in Hr. apply Nat.ltb_lt in Hc. rewrite Hr, Hc, !Nat.eqb_refl. reflexivity.
Qed.
Lemma gene_at_put_other g r c o l : l <> {| l_index := r; l_cat := c |} ->
  gene_at (put_cell g r c o) l = gene_at g l.
Proof.
  intros Hne. unfold gene_at, put_cell. cbn [rows cats cell l_index l_cat].
  destruct (Nat.eqb (l_index l) r) eqn:E1; destruct (Nat.eqb (l_cat l) c) eqn:E2; cbn; try reflexivity.
  exfalso. apply Hne. apply locus_eq_parts; cbn; apply Nat.eqb_eq; assumption.
Qed.

Lemma locus_eq_parts_dec l r c :
  {l = {| l_index := r; l_cat := c |}} + {l <> {| l_index := r; l_cat := c |}}.
Proof.
  destruct l as [i k]. destruct (Nat.eq_dec i r) as [->|Hi]; [destruct (Nat.eq_dec k c) as [->|Hk]|].
  - left. reflexivity.
  - right. intro H. inversion H. contradiction.
  - right. intro H. inversion H. contradiction.
Qed.

(* rewriting the arguments of one cell so that every new argument locus
   unfolds to the same canonical tree as the old one keeps every tree *)
Lemma rewire_ceq g r c ge args' :
  r < rows g -> c < cats g -> cell g r c = Some ge ->
  let ge' := {| g_sym := g_sym ge; g_par := g_par ge; g_args := args' |} in
  (forall i, match arg_locus ge i, arg_locus ge' i with
             | Some al, Some al' => forall f, ceq (tree_of f g al') (tree_of f g al)
             | None, None => True
             | _, _ => False
             end) ->
  forall f l, ceq (tree_of f (put_cell g r c (Some ge')) l) (tree_of f g l).
Proof.
  intros Hr Hc Hcell ge' Hargs. induction f as [|f IH]; intro l; [apply ceq_refl|].
  rewrite !tree_of_S. destruct (locus_eq_parts_dec l r c) as [->|Hne].
  - rewrite gene_at_put_same by assumption.
    assert (Hg : gene_at g {| l_index := r; l_cat := c |} = Some ge).
    { unfold gene_at. cbn [l_index l_cat]. apply Nat.ltb_lt in Hr. apply Nat.ltb_lt in Hc. rewrite Hr, Hc. exact Hcell. }
    rewrite Hg. cbn [g_sym g_par ge']. apply build_ceq; [|reflexivity].
    apply Forall2_map_seq. intro i. specialize (Hargs i).
    destruct (arg_locus ge i) as [al|], (arg_locus ge' i) as [al'|]; try contradiction; [|apply ceq_refl].
    eapply ceq_trans; [apply IH|apply Hargs].
  - rewrite gene_at_put_other by exact Hne. destruct (gene_at g l) as [gl|]; [|apply ceq_refl].
    apply build_ceq; [|reflexivity]. apply Forall2_map_seq. intro i.
    destruct (arg_locus gl i); [apply IH|apply ceq_refl].
Qed.

(* ------------------------------------------------------------ list facts *)
Lemma nodup_app {A} (a b : list A) : NoDup a -> NoDup b -> (forall x, In x a -> ~ In x b) -> NoDup (a ++ b).
Proof.
  induction a as [|x a IH]; intros Ha Hb Hd; [exact Hb|]. inversion Ha as [|? ? Hx Ha']. subst. cbn. constructor.
  - rewrite in_app_iff. intros [H|H]; [contradiction|]. apply (Hd x); [left; reflexivity|exact H].
  - apply IH; [exact Ha'|exact Hb|]. intros y Hy. apply Hd. right. exact Hy.
Qed.

Lemma cse_loci_in R C r c : In (r, c) (cse_loci R C) -> r < R /\ c < C.
Proof.
  unfold cse_loci. rewrite in_flat_map. intros [r' [Hr Hc]]. rewrite <- in_rev, in_seq in Hr.
  rewrite in_map_iff in Hc. destruct Hc as [c' [E Hc']]. inversion E. subst. rewrite in_seq in Hc'. lia.
Qed.

Lemma row_block_nodup (l : list nat) C : NoDup l ->
  NoDup (flat_map (fun r => map (fun c => (r, c)) (seq 0 C)) l).
Proof.
  induction l as [|r l IH]; intro Hl; [constructor|]. inversion Hl as [|? ? Hr Hl']. subst. cbn [flat_map].
  apply nodup_app.
  - apply FinFun.Injective_map_NoDup; [intros x y E; inversion E; reflexivity|apply seq_NoDup].
  - apply IH. exact Hl'.
  - intros [r' c'] H1 H2. rewrite in_map_iff in H1. destruct H1 as [c0 [E _]]. inversion E. subst.
    rewrite in_flat_map in H2. destruct H2 as [r2 [Hr2 Hc2]]. rewrite in_map_iff in Hc2.
    destruct Hc2 as [c2 [E2 _]]. inversion E2. subst. contradiction.
Qed.

Lemma cse_loci_nodup R C : NoDup (cse_loci R C).
Proof. apply row_block_nodup. apply NoDup_rev. apply seq_NoDup. Qed.

Lemma Forall2_nth {A B} (R : A -> B -> Prop) l l' : Forall2 R l l' ->
  forall i, match nth_error l i with
            | Some a => exists b, nth_error l' i = Some b /\ R a b
            | None => nth_error l' i = None
            end.
Proof.
  induction 1 as [|a b l l' Hab HF IH]; intro i; [destruct i; reflexivity|].
  destruct i as [|i]; cbn [nth_error]; [exists b; split; [reflexivity|exact Hab]|apply IH].
Qed.

Lemma combine_nth (xs cs : list nat) : forall i,
  nth_error (map (fun ac => {| l_index := fst ac; l_cat := snd ac |}) (combine xs cs)) i =
  match nth_error xs i, nth_error cs i with
  | Some a, Some c => Some {| l_index := a; l_cat := c |}
  | _, _ => None
  end.
Proof.
  revert cs. induction xs as [|x xs IH]; intros cs i.
  - destruct i; reflexivity.
  - destruct cs as [|c cs].
    + destruct i as [|i]; cbn; [reflexivity|]. destruct (nth_error xs i); destruct i; reflexivity.
    + destruct i as [|i]; cbn; [reflexivity|apply IH].
Qed.

Lemma arguments_nth ge i : nth_error (arguments ge) i = arg_locus ge i.
Proof. unfold arguments, arg_locus. apply combine_nth. Qed.

Lemma kfind_in cmp k m w : kfind cmp k m = Some w -> exists k', In (k', w) m /\ gene_equiv cmp k k' = true.
Proof.
  unfold kfind. destruct (find _ m) as [[k' w']|] eqn:E; [|discriminate]. intro H. inversion H. subst.
  apply find_some in E. exists k'. exact E.
Qed.

(* --------------------------------------------------------- cse keeps trees *)
Definition typed (g : genome) : Prop := forall r c ge, cell g r c = Some ge -> s_cat (g_sym ge) = c.
(* opcodes are primary keys of the symbols in use *)
Definition sym_id (U : sym -> Prop) : Prop :=
  forall s1 s2, U s1 -> U s2 -> s_opcode s1 = s_opcode s2 -> s1 = s2.

Section CsePreserves.
Variable cmp : gene -> gene -> bool.
Variable U : sym -> Prop.
Variable P : gene -> Prop.              (* a property of the genes, stable under argument rewriting *)
Hypothesis P_args : forall ge args', P ge -> P {| g_sym := g_sym ge; g_par := g_par ge; g_args := args' |}.
(* all that is used of the comparator *)
Hypothesis equiv_sound : forall a b, U (g_sym a) -> U (g_sym b) -> P a -> P b -> gene_equiv cmp a b = true ->
  g_sym a = g_sym b /\
  (if is_terminal (g_sym a)
   then (s_parametric (g_sym a) = true -> par_bits (g_par a) = par_bits (g_par b))
   else g_args a = g_args b).

Record Inv (g0 : genome) (rest : list (nat * nat)) (st : genome * kmap) : Prop := {
  inv_rows : rows (fst st) = rows g0;
  inv_cats : cats (fst st) = cats g0;
  inv_best : best (fst st) = best g0;
  inv_typed : typed (fst st);
  inv_over : genome_over U (fst st);
  inv_P : forall r c ge, cell (fst st) r c = Some ge -> P ge;
  inv_tree : forall f l, ceq (tree_of f (fst st) l) (tree_of f g0 l);
  inv_map : forall k w, In (k, w) (snd st) ->
              gene_at (fst st) w = Some k /\ ~ In (l_index w, l_cat w) rest }.

Lemma gene_at_cell g l ge : gene_at g l = Some ge -> cell g (l_index l) (l_cat l) = Some ge.
Proof. unfold gene_at. destruct (_ && _); [auto|discriminate]. Qed.

Lemma cse_step g0 rc rest st st' :
  Inv g0 (rc :: rest) st -> ~ In rc rest -> fst rc < rows g0 -> snd rc < cats g0 ->
  cse_cell cmp st rc = Some st' -> Inv g0 rest st'.
Proof.
  destruct rc as [r c]. destruct st as [g m]. intros I Hnin Hr Hc H. cbn [fst snd] in *.
  destruct I as [Ir Ic Ib It Io Ip Itr Im]. cbn [fst snd] in *.
  unfold cse_cell in H. cbn [fst snd] in H.
  destruct (cell g r c) as [ge|] eqn:Ecell; [|discriminate].
  destruct (mapO (cse_arg cmp g m) (arguments ge)) as [args'|] eqn:Eargs; [|discriminate].
  inversion H. subst st'. clear H. cbn [fst snd].
  set (ge' := {| g_sym := g_sym ge; g_par := g_par ge; g_args := args' |}).
  unfold OpsDefs.set_cell.
  assert (Hr' : r < rows g) by lia. assert (Hc' : c < cats g) by lia.
  pose proof (Forall2_nth _ _ _ (mapO_Forall2 _ _ _ Eargs)) as Hnth.
  (* the new argument loci unfold to the same canonical trees *)
  assert (Hargs : forall i, match arg_locus ge i, arg_locus ge' i with
             | Some al, Some al' => forall f, ceq (tree_of f g al') (tree_of f g al)
             | None, None => True
             | _, _ => False
             end).
  { intro i. specialize (Hnth i). rewrite arguments_nth in Hnth.
    destruct (arg_locus ge i) as [al|] eqn:Eal.
    - destruct Hnth as [n [Hn Hcse]].
      assert (Eal' : arg_locus ge' i = Some {| l_index := n; l_cat := l_cat al |}).
      { unfold arg_locus in *. cbn [ge' g_args g_sym]. rewrite Hn.
        destruct (nth_error (g_args ge) i); [|discriminate].
        destruct (nth_error (s_argcats (g_sym ge)) i); [|discriminate]. inversion Eal. reflexivity. }
      rewrite Eal'. intro f. unfold cse_arg in Hcse.
      destruct (gene_at g al) as [ga|] eqn:Ega; [|discriminate].
      destruct (kfind cmp ga m) as [w|] eqn:Ek.
      + inversion Hcse. subst n. apply kfind_in in Ek. destruct Ek as [k' [Hin Heq]].
        destruct (Im k' w Hin) as [Hgw _].
        pose proof (gene_at_cell _ _ _ Ega) as Ca. pose proof (gene_at_cell _ _ _ Hgw) as Cw.
        destruct (equiv_sound ga k' (Io _ _ _ Ca) (Io _ _ _ Cw) (Ip _ _ _ Ca) (Ip _ _ _ Cw) Heq) as [Es Hd].
        assert (Ecat : l_cat w = l_cat al).
        { rewrite <- (It _ _ _ Cw), <- (It _ _ _ Ca), Es. reflexivity. }
        rewrite <- Ecat. replace {| l_index := l_index w; l_cat := l_cat w |} with w by (destruct w; reflexivity).
        apply ceq_sym. apply (merge_ceq g al w ga k' Ega Hgw Es Hd).
      + inversion Hcse. subst n.
        replace {| l_index := l_index al; l_cat := l_cat al |} with al by (destruct al; reflexivity). apply ceq_refl.
    - unfold arg_locus in *. cbn [ge' g_args g_sym]. rewrite Hnth.
      destruct (nth_error (g_args ge) i); [|exact I].
      destruct (nth_error (s_argcats (g_sym ge)) i); [discriminate|exact I]. }
  assert (Hcellput : forall r' c', cell (put_cell g r c (Some ge')) r' c' =
                                   if Nat.eqb r' r && Nat.eqb c' c then Some ge' else cell g r' c') by reflexivity.
  constructor; cbn [fst snd].
  - exact Ir.
  - exact Ic.
  - exact Ib.
  - intros r' c' x Hx. rewrite Hcellput in Hx. destruct (Nat.eqb r' r && Nat.eqb c' c) eqn:E.
    + inversion Hx. subst x. cbn [ge' g_sym]. apply andb_true_iff in E. destruct E as [_ E]. apply Nat.eqb_eq in E.
      subst c'. eapply It. exact Ecell.
    + eapply It. exact Hx.
  - intros r' c' x Hx. rewrite Hcellput in Hx. destruct (Nat.eqb r' r && Nat.eqb c' c).
    + inversion Hx. subst x. cbn [ge' g_sym]. eapply Io. exact Ecell.
    + eapply Io. exact Hx.
  - intros r' c' x Hx. rewrite Hcellput in Hx. destruct (Nat.eqb r' r && Nat.eqb c' c).
    + inversion Hx. subst x. apply P_args. eapply Ip. exact Ecell.
    + eapply Ip. exact Hx.
  - intros f l. eapply ceq_trans; [|apply Itr]. apply (rewire_ceq g r c ge args' Hr' Hc' Ecell Hargs).
  - intros k w Hin. unfold kemplace in Hin.
    assert (Hold : In (k, w) m -> gene_at (put_cell g r c (Some ge')) w = Some k /\ ~ In (l_index w, l_cat w) rest).
    { intro Hm. destruct (Im k w Hm) as [Hg Hn]. split.
      - rewrite gene_at_put_other; [exact Hg|]. intro E. apply Hn. left. rewrite E. reflexivity.
      - intro Hi. apply Hn. right. exact Hi. }
    destruct (kfind cmp ge' m); [apply Hold; exact Hin|].
    destruct Hin as [E|Hin]; [|apply Hold; exact Hin]. inversion E. subst k w. cbn [l_index l_cat].
    split; [apply gene_at_put_same; assumption|exact Hnin].
Qed.

Lemma cse_fold g0 : forall cs st st', NoDup cs ->
  (forall rc, In rc cs -> fst rc < rows g0 /\ snd rc < cats g0) ->
  Inv g0 cs st -> foldO (cse_cell cmp) cs st = Some st' -> Inv g0 [] st'.
Proof.
  induction cs as [|rc cs IH]; intros st st' Hnd Hin I H; cbn [foldO] in H.
  - inversion H. subst. exact I.
  - destruct (cse_cell cmp st rc) as [st1|] eqn:E; [|discriminate].
    inversion Hnd as [|? ? Hn Hnd']. subst.
    destruct (Hin rc (or_introl eq_refl)) as [Hr Hc].
    apply (IH st1 st' Hnd'); [intros x Hx; apply Hin; right; exact Hx| |exact H].
    apply (cse_step g0 rc cs st st1 I Hn Hr Hc E).
Qed.

Lemma cse_genome_trees g g' :
  typed g -> genome_over U g -> (forall r c ge, cell g r c = Some ge -> P ge) ->
  cse_genome cmp g = Some g' ->
  rows g' = rows g /\ cats g' = cats g /\ best g' = best g /\ typed g' /\ genome_over U g' /\
  forall f l, ceq (tree_of f g' l) (tree_of f g l).
Proof.
  intros Ht Ho Hp H. unfold cse_genome in H.
  destruct (foldO (cse_cell cmp) (cse_loci (rows g) (cats g)) (g, [])) as [st|] eqn:E; [|discriminate].
  inversion H. subst g'.
  assert (I0 : Inv g (cse_loci (rows g) (cats g)) (g, [])).
  { constructor; cbn [fst snd]; auto. - intros f l. apply ceq_refl. - intros k w []. }
  assert (Hb : forall rc, In rc (cse_loci (rows g) (cats g)) -> fst rc < rows g /\ snd rc < cats g).
  { intros [r c] Hrc. apply cse_loci_in. exact Hrc. }
  pose proof (cse_fold g _ _ _ (cse_loci_nodup _ _) Hb I0 E) as I.
  destruct I. repeat split; assumption.
Qed.
End CsePreserves.

(* canonical-tree equality at the entry locus is equality of the packed stream *)
Lemma ceq_pack g g' : rows g' = rows g -> best g' = best g ->
  (forall f l, ceq (tree_of f g' l) (tree_of f g l)) -> mep_pack g' = mep_pack g /\ hash_mep g' = hash_mep g.
Proof.
  intros Hr Hb Hc.
  assert (E : mep_pack g' = mep_pack g).
  { rewrite !mep_pack_is_tree_code. unfold active_tree. rewrite Hr, Hb.
    specialize (Hc (S (rows g)) (best g)). unfold ceq in Hc.
    destruct (tree_of (S (rows g)) g' (best g)) as [t'|] eqn:E', (tree_of (S (rows g)) g (best g)) as [t|] eqn:E0;
      cbn in Hc; try discriminate; [|reflexivity].
    inversion Hc as [Hcan]. cbn [option_map]. f_equal.
    assert (O : forall h, genome_over (fun _ => True) h) by (intros h r c ge _; exact I).
    apply canon_determines_code; [exact (proj1 (tree_of_props _ g' (O g') _ _ _ E'))|
                                  exact (proj1 (tree_of_props _ g (O g) _ _ _ E0))|exact Hcan]. }
  split; [exact E|]. unfold hash_mep. rewrite E. reflexivity.
Qed.

(* ------------------------------------------ the repaired comparator (bytes) *)
Lemma bytes_incomp_eq : forall a b, length a = length b ->
  bytes_ltb a b = false -> bytes_ltb b a = false -> a = b.
Proof.
  induction a as [|x a IH]; intros [|y b] Hl H1 H2; try discriminate; [reflexivity|].
  cbn [bytes_ltb] in H1, H2. destruct (N.ltb x y) eqn:E1; [discriminate|]. destruct (N.ltb y x) eqn:E2; [discriminate|].
  apply N.ltb_ge in E1. apply N.ltb_ge in E2. assert (x = y) by (apply N.le_antisymm; assumption). subst y.
  f_equal. apply IH; [cbn in Hl; lia|assumption|assumption].
Qed.

Lemma le_bytes_length n x : length (le_bytes n x) = n.
Proof. revert x. induction n as [|n IH]; intro x; cbn; [reflexivity|rewrite IH; reflexivity]. Qed.

Lemma gene_cmp_bits_sound U : sym_id U ->
  forall a b, U (g_sym a) -> U (g_sym b) -> True -> True -> gene_equiv gene_cmp_bits a b = true ->
  g_sym a = g_sym b /\
  (if is_terminal (g_sym a)
   then (s_parametric (g_sym a) = true -> par_bits (g_par a) = par_bits (g_par b))
   else g_args a = g_args b).
Proof.
  intros HU a b Ua Ub _ _ H. unfold gene_equiv in H. apply andb_true_iff in H. destruct H as [H1 H2].
  apply negb_true_iff in H1. apply negb_true_iff in H2. unfold gene_cmp_bits in H1, H2.
  destruct (Z.eqb_spec (s_opcode (g_sym a)) (s_opcode (g_sym b))) as [Eop|Nop].
  - pose proof (HU _ _ Ua Ub Eop) as Es. split; [exact Es|].
    replace (Z.eqb (s_opcode (g_sym b)) (s_opcode (g_sym a))) with true in H2 by (symmetry; apply Z.eqb_eq; congruence).
    cbn [negb] in H1, H2. rewrite <- Es in H2. destruct (is_terminal (g_sym a)).
    + intro Hp. rewrite Hp in H1, H2.
      assert (E : le64 (par_bits (g_par a)) = le64 (par_bits (g_par b))).
      { apply bytes_incomp_eq; [unfold le64; rewrite !le_bytes_length; reflexivity|assumption|assumption]. }
      destruct (le64_inj (par_bits (g_par a)) (par_bits (g_par b)) [] [] (par_bits_lt _) (par_bits_lt _)) as [Eb _];
        [rewrite !app_nil_r; exact E|exact Eb].
    + apply lex_incomp_eq; assumption.
  - exfalso. replace (Z.eqb (s_opcode (g_sym b)) (s_opcode (g_sym a))) with false in H2
      by (symmetry; apply Z.eqb_neq; congruence).
    cbn [negb] in H1, H2. apply Z.ltb_ge in H1. apply Z.ltb_ge in H2. lia.
Qed.

(* cse() of the repaired tree keeps the packed stream and the signature:
   H_cse is a theorem *)
Lemma cse_preserves_pack U g g' : sym_id U -> typed g -> genome_over U g ->
  cse_bits g = Some g' -> mep_pack g' = mep_pack g /\ hash_mep g' = hash_mep g.
Proof.
  intros HU Ht Ho H.
  destruct (cse_genome_trees gene_cmp_bits U (fun _ => True) (fun _ _ _ => I) (gene_cmp_bits_sound U HU)
              g g' Ht Ho (fun _ _ _ _ => I) H) as (Hr & _ & Hb & _ & _ & Htr).
  apply ceq_pack; assumption.
Qed.

(* the comparator before that fix (a.par < b.par): the same conclusion needs
   the proviso that parameters which compare equal (neither is less) have the
   same bytes -- false for +0.0 / -0.0, see Refuted_C03 *)
Section LtbProviso.
Variable Good : f64 -> Prop.
Hypothesis Good_bytes : forall x y, Good x -> Good y -> par_incomp x y = true -> par_bits x = par_bits y.
Definition good_gene (ge : gene) : Prop :=
  is_terminal (g_sym ge) = true -> s_parametric (g_sym ge) = true -> Good (g_par ge).

Lemma gene_cmp_ltb_sound U : sym_id U ->
  forall a b, U (g_sym a) -> U (g_sym b) -> good_gene a -> good_gene b -> gene_equiv gene_cmp a b = true ->
  g_sym a = g_sym b /\
  (if is_terminal (g_sym a)
   then (s_parametric (g_sym a) = true -> par_bits (g_par a) = par_bits (g_par b))
   else g_args a = g_args b).
Proof.
  intros HU a b Ua Ub Ga Gb H.
  apply gene_equiv_char in H.
  - destruct H as [Eop Hd]. pose proof (HU _ _ Ua Ub Eop) as Es. split; [exact Es|].
    destruct (is_terminal (g_sym a)) eqn:Et; [|exact Hd].
    intro Hp. rewrite Hp in Hd. apply Good_bytes; [apply Ga; assumption| |exact Hd].
    apply Gb; rewrite <- Es; assumption.
  - intro Eop. rewrite (HU _ _ Ua Ub Eop). split; reflexivity.
Qed.

Lemma cse_ltb_preserves_pack_proviso U g g' : sym_id U -> typed g -> genome_over U g ->
  (forall r c ge, cell g r c = Some ge -> good_gene ge) ->
  cse_ltb g = Some g' -> mep_pack g' = mep_pack g /\ hash_mep g' = hash_mep g.
Proof.
  intros HU Ht Ho Hg H.
  destruct (cse_genome_trees gene_cmp U good_gene (fun ge args' Hge => Hge) (gene_cmp_ltb_sound U HU)
              g g' Ht Ho Hg H) as (Hr & _ & Hb & _ & _ & Htr).
  apply ceq_pack; assumption.
Qed.
End LtbProviso.

(* ------------------- histories in which cse() is the computed cse (no H_cse) *)
Definition mep_plain2 (U : sym -> Prop) (x : mep) (o : mep_op) : Prop :=
  match o with
  | MAssign _ | MIterWrite _ _ => False
  | MCse g' => typed (content x) /\ genome_over U (content x) /\ cse_bits (content x) = Some g'
  | _ => True
  end.
Inductive mep_reach2 (U : sym -> Prop) (pc : f64 -> f64 -> bool) : mep -> Prop :=
| mr2_init : forall g, mep_reach2 U pc (clear g)
| mr2_step : forall x o y, mep_reach2 U pc x -> mep_plain2 U x o -> mep_step pc x o = Some y -> mep_reach2 U pc y.

Lemma mep_reach2_reach U pc : sym_id U -> forall x, mep_reach2 U pc x -> mep_reach pc x.
Proof.
  intros HU x H. induction H as [g|x o y Hr IH Hp Hs]; [constructor|].
  apply (mr_step pc x o y IH); [|exact Hs]. destruct o; cbn in *; try exact Hp.
  destruct Hp as (Ht & Ho & Hc). exact (proj2 (cse_preserves_pack U _ _ HU Ht Ho Hc)).
Qed.

Lemma mep_never_stale2 U pc : sym_id U -> forall x h x',
  mep_reach2 U pc x -> signature hash_mep x = Some (h, x') -> hash_mep (content x) = Some h.
Proof. intros HU x h x' Hr. apply (mep_never_stale pc). apply (mep_reach2_reach U pc HU). exact Hr. Qed.

Lemma cse_bits_trees U g g' : sym_id U -> typed g -> genome_over U g -> cse_bits g = Some g' ->
  rows g' = rows g /\ cats g' = cats g /\ best g' = best g /\ typed g' /\ genome_over U g' /\
  forall f l, option_map canon (tree_of f g' l) = option_map canon (tree_of f g l).
Proof.
  intros HU Ht Ho H.
  exact (cse_genome_trees gene_cmp_bits U (fun _ => True) (fun _ _ _ => I) (gene_cmp_bits_sound U HU)
           g g' Ht Ho (fun _ _ _ _ => I) H).
Qed.

Lemma team_never_stale pc t h t' :
  team_reach pc t -> team_signature t = Some (h, t') ->
  hash_team (content t) = Some h /\ Forall (cache_ok hash_mep) (content t').
Proof.
  intros Hr Hs. apply team_reach_ok in Hr.
  destruct (team_signature_correct t h t' Hr Hs) as [H1 [_ [H3 _]]]. exact (conj H1 H3).
Qed.

Lemma team_load_clears pc (t : team) gs t' :
  team_step pc t (TLoad (Some gs)) = Some t' ->
  sig_cache t' = None /\ Forall (fun m : mep => sig_cache m = None) (content t') /\
  map (@content genome) (content t') = gs.
Proof.
  intro H. cbn in H. inversion H. subst. cbn. split; [reflexivity|]. split.
  - rewrite Forall_forall. intros m Hm. apply in_map_iff in Hm. destruct Hm as [g [<- _]]. reflexivity.
  - rewrite map_map. cbn. apply map_id.
Qed.
