(* C03: MurmurHash3 x64-128 exactly as kernel/cache_hash.h
   (murmurhash3::hash128, default seed 1973) and hash_t.  Definitions only. *)
From Coq Require Import NArith List.
From VV Require Import Sig.Bits64.
Import ListNotations.
Local Open Scope N_scope.

(* hash_t: data[0], data[1] *)
Definition hash : Type := (N * N)%type.
Definition hzero : hash := (0, 0).
(* hash_t::empty *)
Definition hempty (h : hash) : bool := (fst h =? 0) && (snd h =? 0).
Definition hash_eqb (a b : hash) : bool := (fst a =? fst b) && (snd a =? snd b).

(* hash_t::combine *)
Definition hcombine (acc h : hash) : hash :=
  (add64 (mul64 (fst acc) 37) (fst h), add64 (mul64 (snd acc) 37) (snd h)).

Definition c1 : N := 0x87c37b91114253d5.
Definition c2 : N := 0x4cf5ad432745937f.
Definition murmur_seed : N := 1973.

(* k1 *= c1; k1 = ROTL64(k1,31); k1 *= c2 *)
Definition mix_k1 (k1 : N) : N := mul64 (rotl64 (mul64 k1 c1) 31) c2.
(* k2 *= c2; k2 = ROTL64(k2,33); k2 *= c1 *)
Definition mix_k2 (k2 : N) : N := mul64 (rotl64 (mul64 k2 c2) 33) c1.

Definition body_step (h : hash) (k1 k2 : N) : hash :=
  let h1 := xor64 (fst h) (mix_k1 k1) in
  let h1 := rotl64 h1 27 in
  let h1 := add64 h1 (snd h) in
  let h1 := add64 (mul64 h1 5) 0x52dce729 in
  let h2 := xor64 (snd h) (mix_k2 k2) in
  let h2 := rotl64 h2 31 in
  let h2 := add64 h2 h1 in
  let h2 := add64 (mul64 h2 5) 0x38495ab5 in
  (h1, h2).

(* the body loop: whole 16-byte blocks; returns the state and the tail *)
Fixpoint body (h : hash) (l : list byte) : hash * list byte :=
  match l with
  | b0 :: b1 :: b2 :: b3 :: b4 :: b5 :: b6 :: b7 ::
    b8 :: b9 :: b10 :: b11 :: b12 :: b13 :: b14 :: b15 :: rest =>
      body (body_step h (of_le [b0; b1; b2; b3; b4; b5; b6; b7])
                        (of_le [b8; b9; b10; b11; b12; b13; b14; b15])) rest
  | _ => (h, l)
  end.

(* the switch (len & 15): bytes 8..14 go to k2 (mixed when len&15 >= 9),
   bytes 0..7 to k1 (mixed when len&15 >= 1) *)
Definition tail_step (h : hash) (t : list byte) : hash :=
  let k1 := of_le (firstn 8 t) in
  let k2 := of_le (skipn 8 t) in
  let h2 := if Nat.ltb 8 (length t) then xor64 (snd h) (mix_k2 k2) else snd h in
  let h1 := if Nat.ltb 0 (length t) then xor64 (fst h) (mix_k1 k1) else fst h in
  (h1, h2).

Definition fmix64 (k : N) : N :=
  let k := xor64 k (shr64 k 33) in
  let k := mul64 k 0xff51afd7ed558ccd in
  let k := xor64 k (shr64 k 33) in
  let k := mul64 k 0xc4ceb9fe1a85ec53 in
  xor64 k (shr64 k 33).

Definition finalize (h : hash) (len : N) : hash :=
  let h1 := xor64 (fst h) len in
  let h2 := xor64 (snd h) len in
  let h1 := add64 h1 h2 in
  let h2 := add64 h2 h1 in
  let h1 := fmix64 h1 in
  let h2 := fmix64 h2 in
  let h1 := add64 h1 h2 in
  let h2 := add64 h2 h1 in
  (h1, h2).

Definition murmur128_seed (seed : N) (data : list byte) : hash :=
  let '(h, t) := body (seed, seed) data in
  finalize (tail_step h t) (N.of_nat (length data) mod M64).

Definition murmur128 (data : list byte) : hash := murmur128_seed murmur_seed data.
