(* C03 -- executable model of the signature machinery of morinim/vita:
     i_mep::pack / hash / signature          (kernel/gp/mep/i_mep.cc)
     i_ga, i_de hash / signature             (kernel/ga/i_ga.cc, i_de.cc)
     team<T>::hash / signature               (kernel/gp/team.tcc)
     individual<T>::load                     (kernel/individual.tcc)
   and of the cache action (clear / recompute / keep) of every public
   mutator, copied from the source.  Definitions only (no proofs), so that
   the model extracts even when a proof breaks. *)
From Coq Require Import ZArith NArith List Bool Arith.
From VV Require Import Base.F64 Base.Values Interp.Strategy Mep.Genome Sig.Bits64 Sig.Murmur.
Import ListNotations.

(* ------------------------------------------------------------------ pack *)

(* static_cast<std::uint16_t>(g.sym->opcode()) *)
Definition opc16 (s : sym) : N := Z.to_N (s_opcode s mod 65536).
(* the object representation of g.par (a double) *)
Definition par_bits (p : f64) : N := Z.to_N (F64.to_bits p mod 18446744073709551616).

Definition is_some {A} (o : option A) : bool := match o with Some _ => true | None => false end.

Fixpoint concat_opt (l : list (option (list byte))) : option (list byte) :=
  match l with
  | [] => Some []
  | o :: r => match o, concat_opt r with
              | Some a, Some b => Some (a ++ b)
              | _, _ => None
              end
  end.

(* i_mep::pack(l, p): 2 bytes of the opcode; then, if arity != 0, the
   arguments in order; else, for a parametric terminal, the 8 bytes of the
   parameter.  [None]: the walk leaves the genome / does not end (undefined
   behaviour of the C++ on an ill-formed genome). *)
Fixpoint pack (fuel : nat) (g : genome) (l : locus) : option (list byte) :=
  match fuel with
  | O => None
  | S f =>
      match gene_at g l with
      | None => None
      | Some ge =>
          let op := le16 (opc16 (g_sym ge)) in
          if negb (Nat.eqb (arity (g_sym ge)) 0) then
            match concat_opt (map (fun i => match arg_locus ge i with
                                            | Some la => pack f g la
                                            | None => None
                                            end) (seq 0 (arity (g_sym ge)))) with
            | Some bs => Some (op ++ bs)
            | None => None
            end
          else if s_parametric (g_sym ge) then Some (op ++ le64 (par_bits (g_par ge)))
          else Some op
      end
  end.

(* the same code computed from the unfolded expression tree *)
Fixpoint encode_tree (t : tree) : list byte :=
  match t with
  | Node s p kids =>
      le16 (opc16 s) ++
      (if negb (Nat.eqb (arity s) 0) then flat_map encode_tree kids
       else if s_parametric s then le64 (par_bits p) else [])
  end.

(* i_mep::hash(): pack(best()) then hash128 *)
Definition mep_pack (g : genome) : option (list byte) := pack (S (rows g)) g (best g).
Definition hash_mep (g : genome) : option hash := option_map murmur128 (mep_pack g).

(* i_ga::hash(): the bytes of a vector<int> *)
Definition int_bytes (z : Z) : list byte := le32 (Z.to_N (z mod 4294967296)).
Definition hash_ga (v : list Z) : option hash := Some (murmur128 (flat_map int_bytes v)).

(* i_de::hash(): the bytes of a vector<double>; the content is kept as the
   64-bit patterns of the doubles, which is all the hash sees *)
Definition hash_de (v : list N) : option hash := Some (murmur128 (flat_map le64 v)).

(* ------------------------------------------------ cached signatures *)

(* an object with the mutable member  signature_ : empty (all zero) means
   "recompute" *)
Record cached (C : Type) := { content : C; cache : hash }.
Arguments content {C} _.
Arguments cache {C} _.

Definition sig_cache {C} (x : cached C) : option hash :=
  if hempty (cache x) then None else Some (cache x).
Definition clear {C} (c : C) : cached C := {| content := c; cache := hzero |}.
Definition keep {C} (x : cached C) (c : C) : cached C := {| content := c; cache := cache x |}.
(* signature_ = hash() *)
Definition recompute {C} (hashf : C -> option hash) (c : C) : option (cached C) :=
  match hashf c with Some h => Some {| content := c; cache := h |} | None => None end.

(* T::signature(): if (signature_.empty()) signature_ = hash(); return signature_ *)
Definition signature {C} (hashf : C -> option hash) (x : cached C) : option (hash * cached C) :=
  if hempty (cache x) then
    match hashf (content x) with
    | Some h => Some (h, {| content := content x; cache := h |})
    | None => None
    end
  else Some (cache x, x).

(* ---------------------------------------------------------- genome edits *)
Definition in_genome (g : genome) (l : locus) : bool :=
  Nat.ltb (l_index l) (rows g) && Nat.ltb (l_cat l) (cats g).

Definition set_cell (g : genome) (l : locus) (ge : gene) : genome :=
  {| rows := rows g; cats := cats g;
     cell := fun r c => if Nat.eqb r (l_index l) && Nat.eqb c (l_cat l) then Some ge else cell g r c;
     best := best g |}.
Definition set_best (g : genome) (l : locus) : genome :=
  {| rows := rows g; cats := cats g; cell := cell g; best := l |}.

(* genome_(l) = ge, undefined behaviour outside the matrix *)
Definition write_cell (g : genome) (l : locus) (ge : gene) : option genome :=
  if in_genome g l then Some (set_cell g l ge) else None.

Fixpoint list_nat_eqb (a b : list nat) : bool :=
  match a, b with
  | [], [] => true
  | x :: a', y :: b' => Nat.eqb x y && list_nat_eqb a' b'
  | _, _ => false
  end.

(* gene operator== (gene.tcc): same symbol; equal arguments for a function;
   for a parametric terminal almost_equal(par, par) -- [par_close] *)
Definition gene_eqb (par_close : f64 -> f64 -> bool) (a b : gene) : bool :=
  if negb (Z.eqb (s_opcode (g_sym a)) (s_opcode (g_sym b))) then false
  else if negb (Nat.eqb (arity (g_sym a)) 0) then list_nat_eqb (g_args a) (g_args b)
  else negb (s_parametric (g_sym a)) || par_close (g_par a) (g_par b).

(* ---------------------------------------------------------------- i_mep *)
Definition mep := cached genome.

Inductive mep_op :=
| MSignature                                   (* signature()                       *)
| MGetBlock (l : locus)                        (* x = x.get_block(l)                *)
| MReplace (l : locus) (ge : gene)             (* x = x.replace(l, ge)              *)
| MDestroyBlock (row : nat) (ts : list gene)   (* x = x.destroy_block(row, sset)    *)
| MMutation (cands : list (locus * gene))      (* x.mutation(pgm, prb)              *)
| MCrossover (other : mep) (self_is_lhs b : bool) (ls : list locus)
                                               (* x = crossover(x, other) / (other, x) *)
| MCse (g' : genome)                           (* x = x.cse(), g' the rewired genome *)
| MLoad (parsed : option genome)               (* x.load(in, ss)                    *)
| MAssign (y : mep)                            (* x = y                             *)
| MIterWrite (l : locus) (ge : gene).          (* *it = ge through non-const begin() *)

(* the loop of i_mep::mutation over the loci where random::boolean(pgm) came
   out true, [ge] being the gene drawn there:  if the gene differs: count it and store it *)
Fixpoint mutation_loop (pc : f64 -> f64 -> bool) (g : genome) (cands : list (locus * gene)) (n : nat)
  : option (genome * nat) :=
  match cands with
  | [] => Some (g, n)
  | (l, ge) :: r =>
      match gene_at g l with
      | None => None
      | Some old =>
          if negb (gene_eqb pc old ge) then mutation_loop pc (set_cell g l ge) r (S n)
          else mutation_loop pc g r n
      end
  end.

(* if (n) signature_.clear() *)
Definition mep_mutation (pc : f64 -> f64 -> bool) (x : mep) (cands : list (locus * gene))
  : option (mep * nat) :=
  match mutation_loop pc (content x) cands 0 with
  | None => None
  | Some (g', n) => Some (if Nat.eqb n 0 then keep x g' else clear g', n)
  end.

(* to.genome_(l) = from[l] for the loci chosen by the crossover flavour *)
Fixpoint copy_cells (from to : genome) (ls : list locus) : option genome :=
  match ls with
  | [] => Some to
  | l :: r =>
      match gene_at from l with
      | None => None
      | Some ge =>
          match write_cell to l ge with
          | Some to' => copy_cells from to' r
          | None => None
          end
      end
  end.

(* crossover(lhs, rhs): b = random::boolean(); from = b ? rhs : lhs;
   to = b ? lhs : rhs (a copy, signature included); ...; to.signature_.clear() *)
Definition mep_crossover (lhs rhs : mep) (b : bool) (ls : list locus) : option mep :=
  let from := if b then rhs else lhs in
  let to := if b then lhs else rhs in
  match copy_cells (content from) (content to) ls with
  | Some g' => Some (clear g')
  | None => None
  end.

Fixpoint destroy_row (g : genome) (row : nat) (c : nat) (ts : list gene) : genome :=
  match ts with
  | [] => g
  | t :: r => destroy_row (set_cell g {| l_index := row; l_cat := c |} t) row (S c) r
  end.

Definition mep_step (pc : f64 -> f64 -> bool) (x : mep) (o : mep_op) : option mep :=
  match o with
  | MSignature => option_map snd (signature hash_mep x)
  | MGetBlock l =>
      if negb (locus_eqb (best (content x)) l) then Some (clear (set_best (content x) l)) else Some x
  | MReplace l ge => option_map clear (write_cell (content x) l ge)
  | MDestroyBlock row ts =>
      if Nat.ltb row (rows (content x)) && Nat.eqb (length ts) (cats (content x))
      then Some (clear (destroy_row (content x) row 0 ts)) else None
  | MMutation cands => option_map fst (mep_mutation pc x cands)
  | MCrossover other self_is_lhs b ls =>
      if self_is_lhs then mep_crossover x other b ls else mep_crossover other x b ls
  | MCse g' => Some (keep x g')                    (* copy of this; arguments rewired; no clear *)
  | MLoad None => Some x                           (* failed load: untouched *)
  | MLoad (Some g') => Some (clear g')             (* individual::load: signature_.clear() *)
  | MAssign y => Some y
  | MIterWrite l ge => option_map (keep x) (write_cell (content x) l ge)
  end.

(* ----------------------------------------------------------------- i_ga *)
Definition iga := cached (list Z).

Fixpoint set_nth {A} (l : list A) (i : nat) (v : A) : option (list A) :=
  match l, i with
  | [], _ => None
  | _ :: r, O => Some (v :: r)
  | a :: r, S k => option_map (cons a) (set_nth r k v)
  end.

Inductive iga_op :=
| GSignature
| GIndexWrite (i : nat) (v : Z)                 (* x[i] = v : signature_.clear(); return genome_[i] *)
| GMutation (cands : list (nat * Z))            (* x.mutation(pgm, prb) *)
| GCrossover (other : iga) (self_is_lhs : bool) (cut1 cut2 : nat)
| GLoad (parsed : option (list Z))
| GAssign (y : iga)
| GIterWrite (i : nat) (v : Z).                 (* *(x.begin() + i) = v *)

(* if (g != genome_[c]) { ++n; genome_[c] = g; } *)
Fixpoint iga_mutation_loop (v : list Z) (cands : list (nat * Z)) (n : nat) : option (list Z * nat) :=
  match cands with
  | [] => Some (v, n)
  | (c, g) :: r =>
      match nth_error v c with
      | None => None
      | Some old =>
          if negb (Z.eqb g old) then
            match set_nth v c g with
            | Some v' => iga_mutation_loop v' r (S n)
            | None => None
            end
          else iga_mutation_loop v r n
      end
  end.

(* if (n) signature_ = hash() *)
Definition iga_mutation (x : iga) (cands : list (nat * Z)) : option (iga * nat) :=
  match iga_mutation_loop (content x) cands 0 with
  | None => None
  | Some (v', n) =>
      if Nat.eqb n 0 then Some (keep x v', n)
      else match recompute hash_ga v' with Some y => Some (y, n) | None => None end
  end.

(* ret = rhs; for i in [cut1, cut2): ret.genome_[i] = lhs[i] *)
Fixpoint splice {A} (lhs rhs : list A) (i cut1 cut2 : nat) : list A :=
  match lhs, rhs with
  | a :: l', b :: r' =>
      (if Nat.leb cut1 i && Nat.ltb i cut2 then a else b) :: splice l' r' (S i) cut1 cut2
  | _, _ => rhs
  end.

(* ... ret.signature_ = ret.hash() *)
Definition iga_crossover (lhs rhs : iga) (cut1 cut2 : nat) : option iga :=
  if Nat.eqb (length (content lhs)) (length (content rhs)) && Nat.leb cut2 (length (content lhs))
  then recompute hash_ga (splice (content lhs) (content rhs) 0 cut1 cut2)
  else None.

Definition iga_step (x : iga) (o : iga_op) : option iga :=
  match o with
  | GSignature => option_map snd (signature hash_ga x)
  | GIndexWrite i v => option_map clear (set_nth (content x) i v)
  | GMutation cands => option_map fst (iga_mutation x cands)
  | GCrossover other self_is_lhs c1 c2 =>
      if self_is_lhs then iga_crossover x other c1 c2 else iga_crossover other x c1 c2
  | GLoad None => Some x
  | GLoad (Some v) => Some (clear v)
  | GAssign y => Some y
  | GIterWrite i v => option_map (keep x) (set_nth (content x) i v)
  end.

(* ----------------------------------------------------------------- i_de *)
Definition ide := cached (list N).

Inductive ide_op :=
| DSignature
| DIndexWrite (i : nat) (v : N)                 (* x[i] = v : signature_.clear() *)
| DAssignVector (v : list N)                    (* x = std::vector<double> *)
| DCrossover (c : ide) (vals : list N)          (* x = p.crossover(pr, f, a, b, c): copy of c, every ret[i] written *)
| DLoad (parsed : option (list N))
| DAssign (y : ide)
| DIterWrite (i : nat) (v : N).

(* [assign_clears] = true : the repaired i_de::operator=(const std::vector<double>&)
   (genome_ = v; signature_.clear()).  false: the pinned code (genome_ = v only). *)
Definition ide_step (assign_clears : bool) (x : ide) (o : ide_op) : option ide :=
  match o with
  | DSignature => option_map snd (signature hash_de x)
  | DIndexWrite i v => option_map clear (set_nth (content x) i v)
  | DAssignVector v => Some (if assign_clears then clear v else keep x v)
  | DCrossover c vals =>
      if Nat.eqb (length vals) (length (content c)) then Some (clear vals) else None
  | DLoad None => Some x
  | DLoad (Some v) => Some (clear v)
  | DAssign y => Some y
  | DIterWrite i v => option_map (keep x) (set_nth (content x) i v)
  end.

(* ------------------------------------------------------------ team<i_mep> *)
(* members keep their own caches; the team has one more *)
Definition team := cached (list mep).

(* team::hash(): for_each member: ret.combine(i.signature()) -- which also
   fills the members' caches *)
Fixpoint team_hash_run (acc : hash) (ms : list mep) : option (hash * list mep) :=
  match ms with
  | [] => Some (acc, [])
  | m :: r =>
      match signature hash_mep m with
      | None => None
      | Some (h, m') =>
          match team_hash_run (hcombine acc h) r with
          | Some (a, r') => Some (a, m' :: r')
          | None => None
          end
      end
  end.

(* the from-scratch value: ordered fold of combine over the hashes of the
   members' contents *)
Fixpoint fold_combine (acc : hash) (hs : list hash) : hash :=
  match hs with
  | [] => acc
  | h :: r => fold_combine (hcombine acc h) r
  end.
Fixpoint all_some {A} (l : list (option A)) : option (list A) :=
  match l with
  | [] => Some []
  | o :: r => match o, all_some r with Some a, Some b => Some (a :: b) | _, _ => None end
  end.
Definition member_hash (m : mep) : option hash := hash_mep (content m).
Definition hash_team (ms : list mep) : option hash :=
  option_map (fold_combine hzero) (all_some (map member_hash ms)).

Definition team_signature (t : team) : option (hash * team) :=
  if hempty (cache t) then
    match team_hash_run hzero (content t) with
    | Some (h, ms') => Some (h, {| content := ms'; cache := h |})
    | None => None
    end
  else Some (cache t, t).

Inductive team_op :=
| TSignature
| TMemberSignature (j : nat)                   (* t[j].signature(): fills the member's mutable cache *)
| TMutation (cands : list (list (locus * gene)))
| TCrossover (other : team) (self_is_lhs : bool) (choices : list (bool * list locus))
| TLoad (parsed : option (list genome))
| TAssign (y : team).

(* for (auto &i : individuals_) nm += i.mutation(pgm, prb) *)
Fixpoint team_mutation_loop (pc : f64 -> f64 -> bool) (ms : list mep) (cands : list (list (locus * gene)))
  : option (list mep * nat) :=
  match ms, cands with
  | [], [] => Some ([], O)
  | m :: r, c :: cr =>
      match mep_mutation pc m c, team_mutation_loop pc r cr with
      | Some (m', n), Some (r', k) => Some (m' :: r', (n + k)%nat)
      | _, _ => None
      end
  | _, _ => None
  end.

(* ret.individuals_[i] = crossover(lhs[i], rhs[i]) *)
Fixpoint team_crossover_loop (lhs rhs : list mep) (ch : list (bool * list locus)) : option (list mep) :=
  match lhs, rhs, ch with
  | [], [], [] => Some []
  | a :: l', b :: r', (bb, ls) :: c' =>
      match mep_crossover a b bb ls, team_crossover_loop l' r' c' with
      | Some m, Some r => Some (m :: r)
      | _, _ => None
      end
  | _, _, _ => None
  end.

Definition team_step (pc : f64 -> f64 -> bool) (t : team) (o : team_op) : option team :=
  match o with
  | TSignature => option_map snd (team_signature t)
  | TMemberSignature j =>
      match nth_error (content t) j with
      | Some m =>
          match signature hash_mep m with
          | Some (_, m') => option_map (keep t) (set_nth (content t) j m')
          | None => None
          end
      | None => None
      end
  | TMutation cands =>
      match team_mutation_loop pc (content t) cands with
      | Some (ms', nm) => Some (if Nat.eqb nm 0 then keep t ms' else clear ms')    (* if (nm) signature_.clear() *)
      | None => None
      end
  | TCrossover other self_is_lhs ch =>
      (* team<T> ret(sup): fresh, empty signature *)
      option_map clear (if self_is_lhs then team_crossover_loop (content t) (content other) ch
                        else team_crossover_loop (content other) (content t) ch)
  | TLoad None => Some t
  | TLoad (Some gs) => Some (clear (map clear gs))   (* T i; i.load(...); signature_.clear() *)
  | TAssign y => Some y
  end.

(* ----------------------------------------------- histories (for the driver) *)
Fixpoint run {S O} (step : S -> O -> option S) (x : S) (ops : list O) : option S :=
  match ops with
  | [] => Some x
  | o :: r => match step x o with Some y => run step y r | None => None end
  end.

(* --------------------------------------- construction helpers (driver side) *)
Definition mk_sym (opcode : Z) (cat : nat) (argcats : list nat) (parametric : bool) : sym :=
  {| s_opcode := opcode; s_cat := cat; s_argcats := argcats; s_parametric := parametric;
     s_strat := Ret Stuck |}.
Definition mk_gene (s : sym) (par : f64) (args : list nat) : gene :=
  {| g_sym := s; g_par := par; g_args := args |}.
Definition empty_genome (r c : nat) (b : locus) : genome :=
  {| rows := r; cats := c; cell := fun _ _ => None; best := b |}.
Definition mk_locus (i c : nat) : locus := {| l_index := i; l_cat := c |}.
(* driver-side name of set_cell (Mep/OpsDefs.v has a set_cell of its own) *)
Definition put_gene (g : genome) (l : locus) (ge : gene) : genome := set_cell g l ge.

(* ------------------------------------------------- the invariant (Prop) *)
(* the cached signature is either empty or the hash of the current content *)
Definition cache_ok {C} (hashf : C -> option hash) (x : cached C) : Prop :=
  cache x = hzero \/ hashf (content x) = Some (cache x).
(* executable form = what is_valid() checks:  signature_.empty() || signature_ == hash() *)
Definition cache_ok_b {C} (hashf : C -> option hash) (x : cached C) : bool :=
  hempty (cache x) ||
  match hashf (content x) with Some h => hash_eqb h (cache x) | None => false end.
Definition team_ok (t : team) : Prop :=
  Forall (cache_ok hash_mep) (content t) /\ cache_ok hash_team t.
