(* C03 -- the comparator of i_mep::cse() after "fix: i_mep::cse() merges the
   constants +0.0 and -0.0": parametric terminals are ordered by the object
   representation of the parameter (std::memcmp), everything else as in the
   C02 model (Mep/OpsDefs.v gene_cmp).  cse itself is C02's executable model
   [cse_genome], generic in the comparator.  Definitions only. *)
From Coq Require Import ZArith NArith List Bool Arith.
From VV Require Import Base.F64 Mep.Genome Mep.OpsDefs Sig.Bits64 Sig.Murmur Sig.SigDefs.
Import ListNotations.

(* std::memcmp(a, b, n) < 0 on two byte sequences of the same length *)
Fixpoint bytes_ltb (a b : list N) : bool :=
  match a, b with
  | x :: a', y :: b' => if N.ltb x y then true else if N.ltb y x then false else bytes_ltb a' b'
  | _, _ => false
  end.

Definition gene_cmp_bits (a b : gene) : bool :=
  if negb (Z.eqb (s_opcode (g_sym a)) (s_opcode (g_sym b)))
  then Z.ltb (s_opcode (g_sym a)) (s_opcode (g_sym b))
  else if is_terminal (g_sym a)
       then (if s_parametric (g_sym a)
             then bytes_ltb (le64 (par_bits (g_par a))) (le64 (par_bits (g_par b)))
             else false)
       else lex_ltb (g_args a) (g_args b).

(* i_mep::cse() of the repaired tree, on the genome *)
Definition cse_bits (g : genome) : option genome := cse_genome gene_cmp_bits g.
(* ... and of the tree before that fix (C02's gene_cmp: a.par < b.par) *)
Definition cse_ltb (g : genome) : option genome := cse_genome gene_cmp g.
