(* C03 -- pack is a prefix-free code of the active expression tree; the
   signature ignores introns and layout. *)
From Coq Require Import ZArith NArith List Bool Arith Lia.
From VV Require Import Base.F64 Base.Values Interp.Strategy Mep.Genome Sig.Bits64 Sig.Murmur Sig.SigDefs Sig.SigProofs.
Import ListNotations.

(* "symbols and constant values, not positions": the opcode of every node,
   the bits of the constant of every parametric terminal, the children *)
Inductive ctree := CNode (op : N) (par : option N) (kids : list ctree).

Fixpoint canon (t : tree) : ctree :=
  match t with
  | Node s p kids =>
      CNode (opc16 s)
            (if Nat.eqb (arity s) 0 && s_parametric s then Some (par_bits p) else None)
            (map canon kids)
  end.

(* every node has as many children as its symbol's arity (true of every tree
   produced by tree_of) *)
Inductive shaped : tree -> Prop :=
| shaped_node : forall s p kids, length kids = arity s -> Forall shaped kids -> shaped (Node s p kids).

(* all symbols of the tree belong to U *)
Inductive over (U : sym -> Prop) : tree -> Prop :=
| over_node : forall s p kids, U s -> Forall (over U) kids -> over U (Node s p kids).

(* the 16-bit opcode determines arity and parametric flag on U (implied by
   "opcodes are distinct and < 2^16") *)
Definition coherent (U : sym -> Prop) : Prop :=
  forall s1 s2, U s1 -> U s2 -> opc16 s1 = opc16 s2 ->
                arity s1 = arity s2 /\ s_parametric s1 = s_parametric s2.
Definition distinct_opcodes (U : sym -> Prop) : Prop :=
  forall s1 s2, U s1 -> U s2 -> opc16 s1 = opc16 s2 -> s1 = s2.
Definition genome_over (U : sym -> Prop) (g : genome) : Prop :=
  forall r c ge, cell g r c = Some ge -> U (g_sym ge).

Lemma distinct_coherent : forall U, distinct_opcodes U -> coherent U.
Proof. intros U H s1 s2 H1 H2 E. rewrite (H s1 s2 H1 H2 E). split; reflexivity. Qed.

Fixpoint tree_ind2 (P : tree -> Prop)
  (H : forall s p kids, Forall P kids -> P (Node s p kids)) (t : tree) : P t :=
  match t with
  | Node s p kids =>
      H s p kids ((fix go (l : list tree) : Forall P l :=
                     match l with
                     | [] => Forall_nil P
                     | x :: r => Forall_cons x (tree_ind2 P H x) (go r)
                     end) kids)
  end.

(* ------------------------------------------------------------- byte codes *)
Local Open Scope N_scope.

Lemma le_bytes_inj : forall n x y r1 r2,
  x < 256 ^ N.of_nat n -> y < 256 ^ N.of_nat n ->
  le_bytes n x ++ r1 = le_bytes n y ++ r2 -> x = y /\ r1 = r2.
Proof.
  induction n as [|n IH]; intros x y r1 r2 Hx Hy H.
  - cbn in *. split; [lia|exact H].
  - cbn [le_bytes app] in H. inversion H as [[Hm Hr]].
    rewrite Nat2N.inj_succ, N.pow_succ_r' in Hx, Hy.
    destruct (IH (x / 256) (y / 256) r1 r2) as [Hd Hrr]; try exact Hr.
    + apply N.div_lt_upper_bound; lia.
    + apply N.div_lt_upper_bound; lia.
    + split; [|exact Hrr].
      rewrite (N.div_mod x 256), (N.div_mod y 256) by lia. rewrite Hd, Hm. reflexivity.
Qed.

Lemma opc16_lt : forall s, opc16 s < 65536.
Proof.
  intro s. unfold opc16.
  assert (0 <= s_opcode s mod 65536 < 65536)%Z by (apply Z.mod_pos_bound; lia). lia.
Qed.

Lemma par_bits_lt : forall p, par_bits p < 18446744073709551616.
Proof.
  intro p. unfold par_bits.
  assert (0 <= F64.to_bits p mod 18446744073709551616 < 18446744073709551616)%Z by (apply Z.mod_pos_bound; lia). lia.
Qed.

Lemma le16_inj : forall x y r1 r2, x < 65536 -> y < 65536 -> le16 x ++ r1 = le16 y ++ r2 -> x = y /\ r1 = r2.
Proof. intros x y r1 r2 Hx Hy. apply (le_bytes_inj 2); assumption. Qed.
Lemma le64_inj : forall x y r1 r2, x < 18446744073709551616 -> y < 18446744073709551616 ->
  le64 x ++ r1 = le64 y ++ r2 -> x = y /\ r1 = r2.
Proof. intros x y r1 r2 Hx Hy. apply (le_bytes_inj 8); assumption. Qed.

Local Close Scope N_scope.

(* ------------------------------------------------- prefix-free / injective *)
Lemma encode_prefix_inj : forall U, coherent U -> forall t1, shaped t1 -> over U t1 ->
  forall t2 r1 r2, shaped t2 -> over U t2 ->
  encode_tree t1 ++ r1 = encode_tree t2 ++ r2 -> canon t1 = canon t2 /\ r1 = r2.
Proof.
  intros U HU t1. induction t1 as [s1 p1 k1 IH] using tree_ind2.
  intros Hs1 Ho1 t2 r1 r2 Hs2 Ho2 E. destruct t2 as [s2 p2 k2].
  inversion Hs1 as [? ? ? Hl1 Hk1]. inversion Hs2 as [? ? ? Hl2 Hk2].
  inversion Ho1 as [? ? ? Hu1 Hok1]. inversion Ho2 as [? ? ? Hu2 Hok2]. subst.
  cbn [encode_tree] in E. rewrite <- !app_assoc in E.
  apply le16_inj in E; try apply opc16_lt. destruct E as [Eop E].
  destruct (HU s1 s2 Hu1 Hu2 Eop) as [Ear Epar].
  cbn [canon]. rewrite <- Ear, <- Epar, Eop in *.
  destruct (Nat.eqb (arity s1) 0) eqn:Ez; cbn [negb andb] in *.
  - apply Nat.eqb_eq in Ez. rewrite Ez in Hl1, Hl2.
    destruct k1; [|discriminate]. destruct k2; [|discriminate]. cbn [map].
    destruct (s_parametric s1).
    + apply le64_inj in E; try apply par_bits_lt. destruct E as [-> ->]. split; reflexivity.
    + cbn in E. subst. split; reflexivity.
  - assert (Hlen : length k1 = length k2) by congruence.
    clear Hl1 Hl2 Ez Ear Epar Eop Hu1 Hu2 Hs1 Hs2 Ho1 Ho2.
    revert k2 Hlen Hk2 Hok2 E.
    induction k1 as [|a k1 IHk]; intros k2 Hlen Hk2 Hok2 E; destruct k2 as [|b k2]; try discriminate.
    + cbn in E. subst. split; reflexivity.
    + inversion IH as [|? ? IHa IHr]. inversion Hk1 as [|? ? Hsa Hsr]. inversion Hok1 as [|? ? Hoa Hor].
      inversion Hk2 as [|? ? Hsb Hsr2]. inversion Hok2 as [|? ? Hob Hor2]. subst.
      cbn [flat_map] in E. rewrite <- !app_assoc in E.
      destruct (IHa Hsa Hoa b _ _ Hsb Hob E) as [Eab E'].
      cbn in Hlen. injection Hlen as Hlen.
      destruct (IHk IHr Hsr Hor k2 Hlen Hsr2 Hor2 E') as [Ek Er].
      inversion Ek as [Ek']. split; [cbn [map]; rewrite Eab, Ek'; reflexivity|exact Er].
Qed.

Lemma canon_kids_length : forall k1 k2 : list tree, map canon k1 = map canon k2 -> length k1 = length k2.
Proof. intros k1 k2 H. rewrite <- (map_length canon k1), <- (map_length canon k2), H. reflexivity. Qed.

Lemma canon_determines_code : forall t1, shaped t1 -> forall t2, shaped t2 ->
  canon t1 = canon t2 -> encode_tree t1 = encode_tree t2.
Proof.
  induction t1 as [s1 p1 k1 IH] using tree_ind2. intros Hs1 [s2 p2 k2] Hs2 E.
  inversion Hs1 as [? ? ? Hl1 Hk1]. inversion Hs2 as [? ? ? Hl2 Hk2]. subst.
  cbn [canon] in E. inversion E as [[Eop Epar Ek]]. cbn [encode_tree]. rewrite Eop. f_equal.
  assert (Ear : arity s1 = arity s2) by (rewrite <- Hl1, <- Hl2; apply canon_kids_length; exact Ek).
  rewrite <- Ear in *. destruct (Nat.eqb (arity s1) 0) eqn:Ez; cbn [negb andb] in *.
  - destruct (s_parametric s1), (s_parametric s2); try discriminate; [inversion Epar; reflexivity|reflexivity].
  - clear Epar Eop E Ez Ear Hl1 Hl2 Hs1 Hs2. revert k2 Hk2 Ek.
    induction k1 as [|a k1 IHk]; intros k2 Hk2 Ek; destruct k2 as [|b k2]; try discriminate; [reflexivity|].
    inversion IH as [|? ? IHa IHr]. inversion Hk1 as [|? ? Hsa Hsr]. inversion Hk2 as [|? ? Hsb Hsr2]. subst.
    cbn [map] in Ek. inversion Ek as [[Eab Ek']]. cbn [flat_map].
    rewrite (IHa Hsa b Hsb Eab), (IHk IHr Hsr k2 Hsr2 Ek'). reflexivity.
Qed.

Lemma encode_tree_injective : forall U, coherent U -> forall t1 t2,
  shaped t1 -> shaped t2 -> over U t1 -> over U t2 ->
  (encode_tree t1 = encode_tree t2 <-> canon t1 = canon t2).
Proof.
  intros U HU t1 t2 H1 H2 O1 O2. split.
  - intro E. apply (encode_prefix_inj U HU t1 H1 O1 t2 [] [] H2 O2). rewrite !app_nil_r. exact E.
  - apply canon_determines_code; assumption.
Qed.

(* ------------------------------------------- trees produced by tree_of *)
Lemma kids_all_some : forall (ks : list (option tree)),
  forallb (fun o => match o with Some _ => true | None => false end) ks = true ->
  map Some (flat_map kid_list ks) = ks.
Proof.
  induction ks as [|o ks IH]; [reflexivity|]. cbn [forallb]. destruct o as [t|]; [|discriminate].
  intro H. cbn in H. cbn [flat_map kid_list app map]. rewrite (IH H). reflexivity.
Qed.

Lemma tree_of_inv : forall f g l t, tree_of (S f) g l = Some t ->
  exists ge kids, gene_at g l = Some ge /\ t = Node (g_sym ge) (g_par ge) kids /\
    map Some kids = map (fun i => match arg_locus ge i with Some la => tree_of f g la | None => None end)
                        (seq 0 (arity (g_sym ge))).
Proof.
  intros f g l t H. cbn [tree_of] in H. destruct (gene_at g l) as [ge|]; [|discriminate].
  match type of H with (if forallb ?p ?ks then _ else _) = _ => destruct (forallb p ks) eqn:Ef end; [|discriminate].
  inversion H. exists ge. eexists. split; [reflexivity|]. split; [reflexivity|]. apply kids_all_some. exact Ef.
Qed.

Lemma tree_of_props : forall U g, genome_over U g -> forall f l t, tree_of f g l = Some t -> shaped t /\ over U t.
Proof.
  intros U g HU. induction f as [|f IH]; intros l t H; [discriminate|].
  apply tree_of_inv in H. destruct H as [ge [kids [Hg [-> Hk]]]].
  assert (HUs : U (g_sym ge)).
  { unfold gene_at in Hg. destruct (_ && _); [|discriminate]. eapply HU; exact Hg. }
  assert (Hall : Forall (fun k => shaped k /\ over U k) kids).
  { rewrite Forall_forall. intros k Hin.
    assert (Hin' : In (Some k) (map Some kids)) by (apply in_map; exact Hin).
    rewrite Hk in Hin'. apply in_map_iff in Hin'. destruct Hin' as [i [Hi _]].
    destruct (arg_locus ge i) as [la|]; [|discriminate]. eapply IH; exact Hi. }
  assert (Hlen : length kids = arity (g_sym ge)).
  { rewrite <- (map_length Some kids), Hk, map_length, seq_length. reflexivity. }
  split; constructor; try assumption; rewrite Forall_forall in *; intros k Hin; apply Hall; exact Hin.
Qed.

(* pack g1 = pack g2  <->  same active expression tree *)
Lemma pack_eq_iff_tree_eq : forall U, coherent U -> forall g1 g2 t1 t2,
  genome_over U g1 -> genome_over U g2 -> active_tree g1 = Some t1 -> active_tree g2 = Some t2 ->
  (mep_pack g1 = mep_pack g2 <-> canon t1 = canon t2).
Proof.
  intros U HU g1 g2 t1 t2 O1 O2 A1 A2. rewrite !mep_pack_is_tree_code, A1, A2. cbn [option_map].
  destruct (tree_of_props U g1 O1 _ _ _ A1) as [S1 V1]. destruct (tree_of_props U g2 O2 _ _ _ A2) as [S2 V2].
  rewrite <- (encode_tree_injective U HU t1 t2 S1 S2 V1 V2).
  split; [intro H; inversion H; reflexivity|intros ->; reflexivity].
Qed.

(* same tree => same signature; and, up to the hash (A_hash), conversely *)
Lemma same_tree_same_signature : forall g1 g2 t1 t2,
  active_tree g1 = Some t1 -> active_tree g2 = Some t2 -> shaped t1 -> shaped t2 ->
  canon t1 = canon t2 -> hash_mep g1 = hash_mep g2.
Proof.
  intros g1 g2 t1 t2 A1 A2 S1 S2 E. rewrite !hash_mep_is_tree_hash, A1, A2. cbn [option_map].
  rewrite (canon_determines_code t1 S1 t2 S2 E). reflexivity.
Qed.

Section AHash.
  (* the streams on which MurmurHash3-128 is assumed collision-free *)
  Variable Streams : list byte -> Prop.
  Hypothesis A_hash : forall a b, Streams a -> Streams b -> murmur128 a = murmur128 b -> a = b.

  Lemma signature_eq_iff_tree_eq : forall U, coherent U -> forall g1 g2 t1 t2,
    genome_over U g1 -> genome_over U g2 -> active_tree g1 = Some t1 -> active_tree g2 = Some t2 ->
    Streams (encode_tree t1) -> Streams (encode_tree t2) ->
    (hash_mep g1 = hash_mep g2 <-> canon t1 = canon t2).
  Proof.
    intros U HU g1 g2 t1 t2 O1 O2 A1 A2 M1 M2.
    destruct (tree_of_props U g1 O1 _ _ _ A1) as [S1 V1]. destruct (tree_of_props U g2 O2 _ _ _ A2) as [S2 V2].
    split.
    - rewrite !hash_mep_is_tree_hash, A1, A2. cbn [option_map]. intro H. inversion H as [Hm].
      apply (encode_tree_injective U HU t1 t2 S1 S2 V1 V2). apply A_hash; assumption.
    - apply (same_tree_same_signature g1 g2 t1 t2 A1 A2 S1 S2).
  Qed.
End AHash.

(* ----------------------------------------------------- introns and layout *)
(* loci reachable from a locus through argument references: the active code *)
Inductive reaches (g : genome) : locus -> locus -> Prop :=
| reaches_refl : forall l, reaches g l l
| reaches_arg : forall l ge i la l', gene_at g l = Some ge -> arg_locus ge i = Some la ->
    reaches g la l' -> reaches g l l'.

Lemma locus_eq_parts : forall a b : locus, l_index a = l_index b -> l_cat a = l_cat b -> a = b.
Proof. intros [ai ac] [bi bc]. cbn. intros -> ->. reflexivity. Qed.

Lemma gene_at_set_other : forall g l' x l, l <> l' -> gene_at (set_cell g l' x) l = gene_at g l.
Proof.
  intros g l' x l Hne. unfold gene_at, set_cell. cbn.
  destruct (Nat.eqb (l_index l) (l_index l')) eqn:E1; destruct (Nat.eqb (l_cat l) (l_cat l')) eqn:E2; cbn; try reflexivity.
  exfalso. apply Hne. apply locus_eq_parts; apply Nat.eqb_eq; assumption.
Qed.

(* changing a gene outside the active code does not change the tree *)
Lemma tree_of_set_inactive : forall g l' x fuel l,
  ~ reaches g l l' -> tree_of fuel (set_cell g l' x) l = tree_of fuel g l.
Proof.
  intros g l' x. induction fuel as [|f IH]; intros l Hn; [reflexivity|].
  cbn [tree_of]. rewrite gene_at_set_other by (intro E; apply Hn; rewrite E; constructor).
  destruct (gene_at g l) as [ge|] eqn:Eg; [|reflexivity].
  assert (E : map (fun i => match arg_locus ge i with Some la => tree_of f (set_cell g l' x) la | None => None end)
                  (seq 0 (arity (g_sym ge))) =
              map (fun i => match arg_locus ge i with Some la => tree_of f g la | None => None end)
                  (seq 0 (arity (g_sym ge)))).
  { apply map_ext. intro i. destruct (arg_locus ge i) as [la|] eqn:Ea; [|reflexivity].
    apply IH. intro Hr. apply Hn. eapply reaches_arg; eassumption. }
  rewrite E. reflexivity.
Qed.

Lemma signature_ignores_introns : forall g l' x,
  ~ reaches g (best g) l' -> hash_mep (set_cell g l' x) = hash_mep g.
Proof.
  intros g l' x Hn. rewrite !hash_mep_is_tree_hash. unfold active_tree. cbn [rows best set_cell].
  rewrite tree_of_set_inactive by exact Hn. reflexivity.
Qed.

(* more fuel does not change a tree that was obtained *)
Lemma tree_of_mono1 : forall f g l t, tree_of f g l = Some t -> tree_of (S f) g l = Some t.
Proof.
  induction f as [|f IH]; intros g l t H; [discriminate|].
  pose proof H as H0. apply tree_of_inv in H. destruct H as [ge [kids [Hg [-> Hk]]]].
  assert (E : map (fun i => match arg_locus ge i with Some la => tree_of (S f) g la | None => None end)
                  (seq 0 (arity (g_sym ge))) =
              map (fun i => match arg_locus ge i with Some la => tree_of f g la | None => None end)
                  (seq 0 (arity (g_sym ge)))).
  { apply map_ext_in. intros i Hi.
    assert (Hin : In (match arg_locus ge i with Some la => tree_of f g la | None => None end) (map Some kids)).
    { rewrite Hk. apply in_map_iff. exists i. split; [reflexivity|exact Hi]. }
    apply in_map_iff in Hin. destruct Hin as [k [Hk' _]].
    destruct (arg_locus ge i) as [la|]; [|reflexivity]. rewrite <- Hk'. apply IH. symmetry. exact Hk'. }
  change (tree_of (S (S f)) g l) with
    (match gene_at g l with
     | None => None
     | Some ge =>
         let kids := map (fun i => match arg_locus ge i with Some la => tree_of (S f) g la | None => None end)
                         (seq 0 (arity (g_sym ge))) in
         if forallb (fun o => match o with Some _ => true | None => false end) kids
         then Some (Node (g_sym ge) (g_par ge) (flat_map (fun o => match o with Some t => [t] | None => [] end) kids))
         else None
     end).
  rewrite Hg. cbv zeta. rewrite E. cbn [tree_of] in H0. rewrite Hg in H0. exact H0.
Qed.

Lemma tree_of_mono : forall k f g l t, tree_of f g l = Some t -> tree_of (k + f) g l = Some t.
Proof. induction k as [|k IH]; intros f g l t H; [exact H|]. cbn [Nat.add]. apply tree_of_mono1. apply IH. exact H. Qed.

(* two layouts related by a simulation of loci: same symbol and parameter at
   related loci, related argument loci (covers row permutations, gaps, shared
   or duplicated sub-DAGs, different genome sizes) *)
Definition layout_sim (R : locus -> locus -> Prop) (g g' : genome) : Prop :=
  forall l l', R l l' ->
    match gene_at g l, gene_at g' l' with
    | Some a, Some b =>
        g_sym a = g_sym b /\ g_par a = g_par b /\
        forall i, match arg_locus a i, arg_locus b i with
                  | Some x, Some y => R x y
                  | None, None => True
                  | _, _ => False
                  end
    | None, None => True
    | _, _ => False
    end.

Lemma tree_of_layout : forall R g g', layout_sim R g g' ->
  forall fuel l l', R l l' -> tree_of fuel g l = tree_of fuel g' l'.
Proof.
  intros R g g' Hsim. induction fuel as [|f IH]; intros l l' HR; [reflexivity|].
  cbn [tree_of]. specialize (Hsim l l' HR).
  destruct (gene_at g l) as [a|], (gene_at g' l') as [b|]; try contradiction; [|reflexivity].
  destruct Hsim as [Es [Ep Ha]]. rewrite <- Es, <- Ep.
  assert (E : map (fun i => match arg_locus a i with Some la => tree_of f g la | None => None end)
                  (seq 0 (arity (g_sym a))) =
              map (fun i => match arg_locus b i with Some la => tree_of f g' la | None => None end)
                  (seq 0 (arity (g_sym a)))).
  { apply map_ext. intro i. specialize (Ha i).
    destruct (arg_locus a i) as [x|], (arg_locus b i) as [y|]; try contradiction; [apply IH; exact Ha|reflexivity]. }
  rewrite E. reflexivity.
Qed.

Lemma signature_ignores_layout : forall R g g' t t',
  layout_sim R g g' -> R (best g) (best g') ->
  active_tree g = Some t -> active_tree g' = Some t' ->
  t = t' /\ hash_mep g = hash_mep g'.
Proof.
  intros R g g' t t' Hsim HR A A'. unfold active_tree in *.
  pose proof (tree_of_mono (S (rows g')) _ _ _ _ A) as M.
  pose proof (tree_of_mono (S (rows g)) _ _ _ _ A') as M'.
  replace (S (rows g) + S (rows g'))%nat with (S (rows g') + S (rows g))%nat in M' by lia.
  rewrite (tree_of_layout R g g' Hsim _ _ _ HR) in M. rewrite M in M'. inversion M' as [Et].
  split; [reflexivity|]. rewrite !hash_mep_is_tree_hash. unfold active_tree. rewrite A, A', Et. reflexivity.
Qed.
