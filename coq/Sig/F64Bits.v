(* C03 -- F64.to_bits is injective: two binary64 values of the model (one NaN)
   with the same object representation are the same value.  Lifts equality of
   canonical trees (opcodes + constant bytes) to equality of symbols and
   constants. *)
From Coq Require Import ZArith Bool Lia Eqdep_dec.
From Flocq Require Import Core.
From Flocq Require Import IEEE754.BinarySingleNaN.
From VV Require Import Base.F64.
Local Open Scope Z_scope.

Lemma pow2_52 : 2 ^ 52 = 4503599627370496. Proof. reflexivity. Qed.
Lemma pow2_53 : 2 ^ 53 = 9007199254740992. Proof. reflexivity. Qed.

Lemma bounded_fields m e : SpecFloat.bounded 53 1024 m e = true ->
  (Zpos m < 2 ^ 52 /\ e = -1074) \/ (2 ^ 52 <= Zpos m < 2 ^ 53 /\ -1074 <= e <= 971).
Proof.
  unfold SpecFloat.bounded, SpecFloat.canonical_mantissa, SpecFloat.fexp, SpecFloat.emin.
  intro H. apply andb_true_iff in H. destruct H as [H1 H2].
  apply Zeq_bool_eq in H1. apply Zle_bool_imp_le in H2. rewrite Zpos_digits2_pos in H1.
  pose proof (Zdigits_correct radix2 (Zpos m)) as Hd.
  set (d := Zdigits radix2 (Zpos m)) in *. cbn [Z.abs] in Hd.
  change (Zpower radix2 (d - 1)) with (2 ^ (d - 1)) in Hd. change (Zpower radix2 d) with (2 ^ d) in Hd.
  destruct (Z_lt_le_dec (Zpos m) (2 ^ 52)) as [Hm|Hm].
  - left. split; [exact Hm|].
    assert (d <= 52).
    { destruct (Z_le_gt_dec d 52) as [|Hg]; [assumption|exfalso].
      assert (2 ^ 52 <= 2 ^ (d - 1)) by (apply Z.pow_le_mono_r; lia). lia. }
    lia.
  - right.
    assert (53 <= d).
    { destruct (Z_le_gt_dec 53 d) as [|Hg]; [assumption|exfalso].
      assert (2 ^ d <= 2 ^ 52) by (apply Z.pow_le_mono_r; lia). lia. }
    assert (d = 53) by lia.
    assert (Zpos m < 2 ^ 53) by (replace 53 with d by assumption; apply Hd). lia.
Qed.

Ltac split_lt :=
  repeat match goal with
  | H : context [Zpos ?m <? 4503599627370496] |- _ =>
      let E := fresh "E" in
      destruct (Zpos m <? 4503599627370496) eqn:E; [apply Z.ltb_lt in E|apply Z.ltb_ge in E]
  end.

Theorem to_bits_injective : forall x y : f64, F64.to_bits x = F64.to_bits y -> x = y.
Proof.
  intros x y H.
  assert (B : forall s : bool, (if s then 2 ^ 63 else 0) = if s then 9223372036854775808 else 0)
    by (intros []; reflexivity).
  destruct x as [sx|sx| |sx mx ex px], y as [sy|sy| |sy my ey py]; unfold F64.to_bits in H;
    try (pose proof (bounded_fields _ _ px) as Fx); try (pose proof (bounded_fields _ _ py) as Fy);
    rewrite ?B in H; rewrite ?pow2_52, ?pow2_53 in *;
    change (2 ^ 51) with 2251799813685248 in *; split_lt;
    repeat match goal with s : bool |- _ => destruct s end;
    first [ reflexivity
          | exfalso; lia
          | match goal with
            | |- B754_finite _ ?m1 ?e1 _ = B754_finite _ ?m2 ?e2 _ =>
                assert (Zpos m1 = Zpos m2 /\ e1 = e2) as [Em Ee] by lia;
                inversion Em; subst; f_equal; apply UIP_dec; apply bool_dec
            end ].
Qed.

Lemma to_bits_range : forall x : f64, 0 <= F64.to_bits x < 2 ^ 64.
Proof.
  intro x. change (2 ^ 64) with 18446744073709551616.
  assert (B : forall s : bool, (if s then 2 ^ 63 else 0) = if s then 9223372036854775808 else 0)
    by (intros []; reflexivity).
  destruct x as [s|s| |s m e p]; unfold F64.to_bits; try (pose proof (bounded_fields _ _ p) as F);
    rewrite ?B; rewrite ?pow2_52, ?pow2_53 in *; change (2 ^ 51) with 2251799813685248.
  - destruct s; lia.
  - destruct s; lia.
  - lia.
  - destruct (Zpos m <? 4503599627370496) eqn:E; [apply Z.ltb_lt in E|apply Z.ltb_ge in E]; destruct s; lia.
Qed.
