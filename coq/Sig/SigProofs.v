(* C03 -- lemmas about the signature model (Sig/SigDefs.v). *)
From Coq Require Import ZArith NArith List Bool Arith Lia.
From VV Require Import Base.F64 Base.Values Interp.Strategy Mep.Genome Sig.Bits64 Sig.Murmur Sig.SigDefs.
Import ListNotations.

(* ================================================= pack = code of the tree *)
Definition kid_list (o : option tree) : list tree := match o with Some t => [t] | None => [] end.

Lemma concat_opt_map_enc : forall ks : list (option tree),
  concat_opt (map (option_map encode_tree) ks) =
  if forallb (fun o => match o with Some _ => true | None => false end) ks
  then Some (flat_map encode_tree (flat_map kid_list ks)) else None.
Proof.
  induction ks as [|o ks IH]; [reflexivity|].
  cbn [map concat_opt forallb flat_map]. rewrite IH.
  destruct o as [t|]; cbn [option_map andb kid_list]; [|reflexivity].
  destruct (forallb _ ks); [|reflexivity].
  reflexivity.
Qed.

Lemma pack_is_tree_code : forall fuel g l,
  pack fuel g l = option_map encode_tree (tree_of fuel g l).
Proof.
  induction fuel as [|f IH]; intros g l; [reflexivity|].
  cbn [pack tree_of]. destruct (gene_at g l) as [ge|]; [|reflexivity].
  set (F := fun i => match arg_locus ge i with Some la => pack f g la | None => None end).
  set (T := fun i => match arg_locus ge i with Some la => tree_of f g la | None => None end).
  assert (HF : map F (seq 0 (arity (g_sym ge))) = map (option_map encode_tree) (map T (seq 0 (arity (g_sym ge))))).
  { rewrite map_map. apply map_ext. intro i. unfold F, T.
    destruct (arg_locus ge i); [apply IH|reflexivity]. }
  rewrite HF, concat_opt_map_enc.
  destruct (Nat.eqb (arity (g_sym ge)) 0) eqn:Ear; cbn [negb].
  - apply Nat.eqb_eq in Ear. rewrite Ear. cbn [seq map forallb flat_map option_map encode_tree].
    rewrite Ear. cbn [Nat.eqb negb].
    destruct (s_parametric (g_sym ge)); [reflexivity|rewrite app_nil_r; reflexivity].
  - destruct (forallb _ (map T _)); [|reflexivity].
    cbn [option_map encode_tree]. rewrite Ear. cbn [negb]. reflexivity.
Qed.

Lemma mep_pack_is_tree_code : forall g, mep_pack g = option_map encode_tree (active_tree g).
Proof. intro g. apply pack_is_tree_code. Qed.

Lemma hash_mep_is_tree_hash : forall g,
  hash_mep g = option_map (fun t => murmur128 (encode_tree t)) (active_tree g).
Proof.
  intro g. unfold hash_mep. rewrite mep_pack_is_tree_code.
  destruct (active_tree g); reflexivity.
Qed.

(* ========================================================= generic cache *)
Lemma hempty_true : forall h, hempty h = true <-> h = hzero.
Proof.
  intros [a b]. unfold hempty, hzero. cbn [fst snd]. rewrite andb_true_iff, !N.eqb_eq.
  split; [intros [-> ->]; reflexivity|intro H; inversion H; auto].
Qed.

Lemma hash_eqb_true : forall a b, hash_eqb a b = true <-> a = b.
Proof.
  intros [a1 a2] [b1 b2]. unfold hash_eqb. cbn [fst snd]. rewrite andb_true_iff, !N.eqb_eq.
  split; [intros [-> ->]; reflexivity|intro H; inversion H; auto].
Qed.

Lemma cache_ok_b_spec : forall C (hashf : C -> option hash) x,
  cache_ok_b hashf x = true <-> cache_ok hashf x.
Proof.
  intros C hashf x. unfold cache_ok_b, cache_ok. rewrite orb_true_iff, hempty_true.
  destruct (hashf (content x)) as [h|].
  - rewrite hash_eqb_true. split; (intros [H|H]; [left; exact H|right; congruence]).
  - split; (intros [H|H]; [left; exact H|discriminate]).
Qed.

Section Generic.
  Context {C : Type} (hashf : C -> option hash).

  Lemma cache_ok_clear : forall c, cache_ok hashf (clear c).
  Proof. intro c. left. reflexivity. Qed.

  Lemma cache_ok_keep_same : forall x c,
    cache_ok hashf x -> hashf c = hashf (content x) -> cache_ok hashf (keep x c).
  Proof. intros x c [H|H] E; [left; exact H|right; cbn; rewrite E; exact H]. Qed.

  Lemma cache_ok_recompute : forall c y, recompute hashf c = Some y -> cache_ok hashf y /\ content y = c.
  Proof.
    intros c y. unfold recompute. destruct (hashf c) as [h|] eqn:E; [|discriminate].
    intro H. inversion H. subst y. split; [right; exact E|reflexivity].
  Qed.

  (* the heart of "never stale": under the invariant, signature() returns the
     hash of the current content, does not change the content and re-establishes
     the invariant *)
  Lemma signature_correct : forall x h x',
    cache_ok hashf x -> signature hashf x = Some (h, x') ->
    hashf (content x) = Some h /\ content x' = content x /\ cache x' = h /\ cache_ok hashf x'.
  Proof.
    intros x h x' Hok. unfold signature. destruct (hempty (cache x)) eqn:Ee.
    - destruct (hashf (content x)) as [h0|] eqn:Eh; [|discriminate].
      intro H. inversion H. subst. cbn. repeat split; try reflexivity. right. exact Eh.
    - intro H. inversion H. subst. destruct Hok as [Hz|Hh].
      + apply hempty_true in Hz. congruence.
      + repeat split; try assumption. right. exact Hh.
  Qed.

  Lemma signature_defined : forall x h,
    cache_ok hashf x -> hashf (content x) = Some h -> exists x', signature hashf x = Some (h, x').
  Proof.
    intros x h Hok Hh. unfold signature. destruct (hempty (cache x)) eqn:Ee.
    - rewrite Hh. eauto.
    - destruct Hok as [Hz|Hc]; [apply hempty_true in Hz; congruence|].
      rewrite Hh in Hc. inversion Hc. eauto.
  Qed.
End Generic.

(* ================================================================== i_de *)
(* operations whose embedded individuals satisfy P; writing through the
   non-const iterators is excluded (known finding, see Refuted_C03) *)
Definition ide_op_ok (P : ide -> Prop) (o : ide_op) : Prop :=
  match o with DAssign y => P y | DIterWrite _ _ => False | _ => True end.

Lemma option_map_some : forall A B (f : A -> B) o y, option_map f o = Some y -> exists a, o = Some a /\ y = f a.
Proof. intros A B f [a|] y H; [inversion H; eauto|discriminate]. Qed.

Lemma ide_step_preserves : forall x o y,
  cache_ok hash_de x -> ide_op_ok (cache_ok hash_de) o -> ide_step true x o = Some y -> cache_ok hash_de y.
Proof.
  intros x o y Hx Hop Hs. destruct o; cbn [ide_step ide_op_ok] in *.
  - apply option_map_some in Hs. destruct Hs as [[h x'] [Hs ->]].
    apply (signature_correct hash_de) in Hs; [|exact Hx]. cbn. tauto.
  - apply option_map_some in Hs. destruct Hs as [v' [_ ->]]. apply cache_ok_clear.
  - inversion Hs. apply cache_ok_clear.
  - destruct (Nat.eqb _ _); [|discriminate]. inversion Hs. apply cache_ok_clear.
  - destruct parsed; inversion Hs; subst; [apply cache_ok_clear|exact Hx].
  - inversion Hs. subst. exact Hop.
  - contradiction.
Qed.

(* every state an i_de object can be in after any sequence of public
   operations; assignment from another object (DAssign y) needs no rule: it
   yields y, itself such a state *)
Definition ide_plain (o : ide_op) : Prop :=
  match o with DAssign _ | DIterWrite _ _ => False | _ => True end.
Inductive ide_reach : ide -> Prop :=
| dr_init : forall v, ide_reach (clear v)                       (* i_de(), i_de(problem) *)
| dr_step : forall x o y, ide_reach x -> ide_plain o -> ide_step true x o = Some y -> ide_reach y.

Lemma ide_reach_ok : forall x, ide_reach x -> cache_ok hash_de x.
Proof.
  induction 1 as [v|x o y Hr IH Hp Hs]; [apply cache_ok_clear|].
  apply (ide_step_preserves x o y IH); [|exact Hs]. destruct o; cbn in *; try contradiction; exact I.
Qed.

Lemma ide_never_stale : forall x h x',
  ide_reach x -> signature hash_de x = Some (h, x') -> hash_de (content x) = Some h.
Proof. intros x h x' Hr Hs. apply ide_reach_ok in Hr. apply (signature_correct hash_de x h x' Hr Hs). Qed.
