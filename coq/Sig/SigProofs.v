(* C03 -- lemmas about the signature model (Sig/SigDefs.v). *)
From Coq Require Import ZArith NArith List Bool Arith Lia.
From VV Require Import Base.F64 Base.Values Interp.Strategy Mep.Genome Sig.Bits64 Sig.Murmur Sig.SigDefs.
Import ListNotations.

(* ================================================= pack = code of the tree *)
Definition kid_list (o : option tree) : list tree := match o with Some t => [t] | None => [] end.

Lemma concat_opt_map_enc : forall ks : list (option tree),
  concat_opt (map (option_map encode_tree) ks) =
  if forallb (fun o => match o with Some _ => true | None => false end) ks
  then Some (flat_map encode_tree (flat_map kid_list ks)) else None.
Proof.
  induction ks as [|o ks IH]; [reflexivity|].
  cbn [map concat_opt forallb flat_map]. rewrite IH.
  destruct o as [t|]; cbn [option_map andb kid_list]; [|reflexivity].
  destruct (forallb _ ks); [|reflexivity].
  reflexivity.
Qed.

Lemma pack_is_tree_code : forall fuel g l,
  pack fuel g l = option_map encode_tree (tree_of fuel g l).
Proof.
  induction fuel as [|f IH]; intros g l; [reflexivity|].
  cbn [pack tree_of]. destruct (gene_at g l) as [ge|]; [|reflexivity].
  set (F := fun i => match arg_locus ge i with Some la => pack f g la | None => None end).
  set (T := fun i => match arg_locus ge i with Some la => tree_of f g la | None => None end).
  assert (HF : map F (seq 0 (arity (g_sym ge))) = map (option_map encode_tree) (map T (seq 0 (arity (g_sym ge))))).
  { rewrite map_map. apply map_ext. intro i. unfold F, T.
    destruct (arg_locus ge i); [apply IH|reflexivity]. }
  rewrite HF, concat_opt_map_enc.
  destruct (Nat.eqb (arity (g_sym ge)) 0) eqn:Ear; cbn [negb].
  - apply Nat.eqb_eq in Ear. rewrite Ear. cbn [seq map forallb flat_map option_map encode_tree].
    rewrite Ear. cbn [Nat.eqb negb].
    destruct (s_parametric (g_sym ge)); [reflexivity|rewrite app_nil_r; reflexivity].
  - destruct (forallb _ (map T _)); [|reflexivity].
    cbn [option_map encode_tree]. rewrite Ear. cbn [negb]. reflexivity.
Qed.

Lemma mep_pack_is_tree_code : forall g, mep_pack g = option_map encode_tree (active_tree g).
Proof. intro g. apply pack_is_tree_code. Qed.

Lemma hash_mep_is_tree_hash : forall g,
  hash_mep g = option_map (fun t => murmur128 (encode_tree t)) (active_tree g).
Proof.
  intro g. unfold hash_mep. rewrite mep_pack_is_tree_code.
  destruct (active_tree g); reflexivity.
Qed.

(* ========================================================= generic cache *)
Lemma hempty_true : forall h, hempty h = true <-> h = hzero.
Proof.
  intros [a b]. unfold hempty, hzero. cbn [fst snd]. rewrite andb_true_iff, !N.eqb_eq.
  split; [intros [-> ->]; reflexivity|intro H; inversion H; auto].
Qed.

Lemma hash_eqb_true : forall a b, hash_eqb a b = true <-> a = b.
Proof.
  intros [a1 a2] [b1 b2]. unfold hash_eqb. cbn [fst snd]. rewrite andb_true_iff, !N.eqb_eq.
  split; [intros [-> ->]; reflexivity|intro H; inversion H; auto].
Qed.

Lemma cache_ok_b_spec : forall C (hashf : C -> option hash) x,
  cache_ok_b hashf x = true <-> cache_ok hashf x.
Proof.
  intros C hashf x. unfold cache_ok_b, cache_ok. rewrite orb_true_iff, hempty_true.
  destruct (hashf (content x)) as [h|].
  - rewrite hash_eqb_true. split; (intros [H|H]; [left; exact H|right; congruence]).
  - split; (intros [H|H]; [left; exact H|discriminate]).
Qed.

Section Generic.
  Context {C : Type} (hashf : C -> option hash).

  Lemma cache_ok_clear : forall c, cache_ok hashf (clear c).
  Proof. intro c. left. reflexivity. Qed.

  Lemma cache_ok_keep_same : forall x c,
    cache_ok hashf x -> hashf c = hashf (content x) -> cache_ok hashf (keep x c).
  Proof. intros x c [H|H] E; [left; exact H|right; cbn; rewrite E; exact H]. Qed.

  Lemma cache_ok_recompute : forall c y, recompute hashf c = Some y -> cache_ok hashf y /\ content y = c.
  Proof.
    intros c y. unfold recompute. destruct (hashf c) as [h|] eqn:E; [|discriminate].
    intro H. inversion H. subst y. split; [right; exact E|reflexivity].
  Qed.

  (* the heart of "never stale": under the invariant, signature() returns the
     hash of the current content, does not change the content and re-establishes
     the invariant *)
  Lemma signature_correct : forall x h x',
    cache_ok hashf x -> signature hashf x = Some (h, x') ->
    hashf (content x) = Some h /\ content x' = content x /\ cache x' = h /\ cache_ok hashf x'.
  Proof.
    intros x h x' Hok. unfold signature. destruct (hempty (cache x)) eqn:Ee.
    - destruct (hashf (content x)) as [h0|] eqn:Eh; [|discriminate].
      intro H. inversion H. subst. cbn. repeat split; try reflexivity. right. exact Eh.
    - intro H. inversion H. subst. destruct Hok as [Hz|Hh].
      + apply hempty_true in Hz. congruence.
      + repeat split; try assumption. right. exact Hh.
  Qed.

  Lemma signature_defined : forall x h,
    cache_ok hashf x -> hashf (content x) = Some h -> exists x', signature hashf x = Some (h, x').
  Proof.
    intros x h Hok Hh. unfold signature. destruct (hempty (cache x)) eqn:Ee.
    - rewrite Hh. eauto.
    - destruct Hok as [Hz|Hc]; [apply hempty_true in Hz; congruence|].
      rewrite Hh in Hc. inversion Hc. eauto.
  Qed.
End Generic.

(* ================================================================== i_de *)
(* operations whose embedded individuals satisfy P; writing through the
   non-const iterators is excluded (known finding, see Refuted_C03) *)
Definition ide_op_ok (P : ide -> Prop) (o : ide_op) : Prop :=
  match o with DAssign y => P y | DIterWrite _ _ => False | _ => True end.

Lemma option_map_some : forall A B (f : A -> B) o y, option_map f o = Some y -> exists a, o = Some a /\ y = f a.
Proof. intros A B f [a|] y H; [inversion H; eauto|discriminate]. Qed.

Lemma ide_step_preserves : forall x o y,
  cache_ok hash_de x -> ide_op_ok (cache_ok hash_de) o -> ide_step true x o = Some y -> cache_ok hash_de y.
Proof.
  intros x o y Hx Hop Hs. destruct o; cbn [ide_step ide_op_ok] in *.
  - apply option_map_some in Hs. destruct Hs as [[h x'] [Hs ->]].
    apply (signature_correct hash_de) in Hs; [|exact Hx]. cbn. tauto.
  - apply option_map_some in Hs. destruct Hs as [v' [_ ->]]. apply cache_ok_clear.
  - inversion Hs. apply cache_ok_clear.
  - destruct (Nat.eqb _ _); [|discriminate]. inversion Hs. apply cache_ok_clear.
  - destruct parsed; inversion Hs; subst; [apply cache_ok_clear|exact Hx].
  - inversion Hs. subst. exact Hop.
  - contradiction.
Qed.

(* every state an i_de object can be in after any sequence of public
   operations; assignment from another object (DAssign y) needs no rule: it
   yields y, itself such a state *)
Definition ide_plain (o : ide_op) : Prop :=
  match o with DAssign _ | DIterWrite _ _ => False | _ => True end.
Inductive ide_reach : ide -> Prop :=
| dr_init : forall v, ide_reach (clear v)                       (* i_de(), i_de(problem) *)
| dr_step : forall x o y, ide_reach x -> ide_plain o -> ide_step true x o = Some y -> ide_reach y.

Lemma ide_reach_ok : forall x, ide_reach x -> cache_ok hash_de x.
Proof.
  induction 1 as [v|x o y Hr IH Hp Hs]; [apply cache_ok_clear|].
  apply (ide_step_preserves x o y IH); [|exact Hs]. destruct o; cbn in *; try contradiction; exact I.
Qed.

Lemma ide_never_stale : forall x h x',
  ide_reach x -> signature hash_de x = Some (h, x') -> hash_de (content x) = Some h.
Proof. intros x h x' Hr Hs. apply ide_reach_ok in Hr. apply (signature_correct hash_de x h x' Hr Hs). Qed.

(* ================================================================== i_ga *)
Definition iga_op_ok (P : iga -> Prop) (o : iga_op) : Prop :=
  match o with GAssign y => P y | GIterWrite _ _ => False | _ => True end.

Lemma iga_loop_count : forall cands v n v' n',
  iga_mutation_loop v cands n = Some (v', n') -> (n <= n')%nat /\ (n' = n -> v' = v).
Proof.
  induction cands as [|[c g] r IH]; intros v n v' n' H; cbn [iga_mutation_loop] in H.
  - inversion H. subst. split; [lia|reflexivity].
  - destruct (nth_error v c) as [old|]; [|discriminate].
    destruct (negb (Z.eqb g old)).
    + destruct (set_nth v c g) as [v1|]; [|discriminate].
      apply IH in H. destruct H as [Hle _]. split; [lia|intro; lia].
    + apply IH in H. exact H.
Qed.

Lemma keep_same : forall C (hashf : C -> option hash) (x : cached C),
  cache_ok hashf x -> cache_ok hashf (keep x (content x)).
Proof. intros C hashf x H. apply cache_ok_keep_same; [exact H|reflexivity]. Qed.

Lemma iga_mutation_preserves : forall x cands y n,
  cache_ok hash_ga x -> iga_mutation x cands = Some (y, n) -> cache_ok hash_ga y.
Proof.
  intros x cands y n Hx. unfold iga_mutation.
  destruct (iga_mutation_loop (content x) cands 0) as [[v' k]|] eqn:E; [|discriminate].
  destruct (Nat.eqb k 0) eqn:Ek.
  - apply Nat.eqb_eq in Ek. subst k. apply iga_loop_count in E. destruct E as [_ E].
    rewrite (E eq_refl). intro H. inversion H. apply keep_same. exact Hx.
  - destruct (recompute hash_ga v') as [z|] eqn:Er; [|discriminate].
    intro H. inversion H. subst. apply (cache_ok_recompute hash_ga) in Er. tauto.
Qed.

Lemma iga_step_preserves : forall x o y,
  cache_ok hash_ga x -> iga_op_ok (cache_ok hash_ga) o -> iga_step x o = Some y -> cache_ok hash_ga y.
Proof.
  intros x o y Hx Hop Hs. destruct o; cbn [iga_step iga_op_ok] in *.
  - apply option_map_some in Hs. destruct Hs as [[h x'] [Hs ->]].
    apply (signature_correct hash_ga) in Hs; [|exact Hx]. cbn. tauto.
  - apply option_map_some in Hs. destruct Hs as [v' [_ ->]]. apply cache_ok_clear.
  - apply option_map_some in Hs. destruct Hs as [[z n] [Hs ->]]. cbn.
    apply (iga_mutation_preserves x cands z n Hx Hs).
  - assert (Hc : forall a b, iga_crossover a b cut1 cut2 = Some y -> cache_ok hash_ga y).
    { intros a b. unfold iga_crossover. destruct (_ && _); [|discriminate].
      intro Hr. apply (cache_ok_recompute hash_ga) in Hr. tauto. }
    destruct self_is_lhs; eapply Hc; exact Hs.
  - destruct parsed; inversion Hs; subst; [apply cache_ok_clear|exact Hx].
  - inversion Hs. subst. exact Hop.
  - contradiction.
Qed.

Definition iga_plain (o : iga_op) : Prop :=
  match o with GAssign _ | GIterWrite _ _ => False | _ => True end.
Inductive iga_reach : iga -> Prop :=
| gr_init : forall v, iga_reach (clear v)
| gr_step : forall x o y, iga_reach x -> iga_plain o -> iga_step x o = Some y -> iga_reach y.

Lemma iga_reach_ok : forall x, iga_reach x -> cache_ok hash_ga x.
Proof.
  induction 1 as [v|x o y Hr IH Hp Hs]; [apply cache_ok_clear|].
  apply (iga_step_preserves x o y IH); [|exact Hs]. destruct o; cbn in *; try contradiction; exact I.
Qed.

Lemma iga_never_stale : forall x h x',
  iga_reach x -> signature hash_ga x = Some (h, x') -> hash_ga (content x) = Some h.
Proof. intros x h x' Hr Hs. apply iga_reach_ok in Hr. apply (signature_correct hash_ga x h x' Hr Hs). Qed.

(* ================================================================= i_mep *)
(* [MCse g']: i_mep::cse() copies the individual together with its cached
   signature and rewires arguments; that this keeps the packed stream is the
   named hypothesis H_cse of the step (checked by the correspondence run) *)
Definition mep_op_ok (P : mep -> Prop) (x : mep) (o : mep_op) : Prop :=
  match o with
  | MAssign y => P y
  | MIterWrite _ _ => False
  | MCse g' => hash_mep g' = hash_mep (content x)
  | _ => True
  end.

Lemma mutation_loop_count : forall pc cands g n g' n',
  mutation_loop pc g cands n = Some (g', n') -> (n <= n')%nat /\ (n' = n -> g' = g).
Proof.
  induction cands as [|[l ge] r IH]; intros g n g' n' H; cbn [mutation_loop] in H.
  - inversion H. subst. split; [lia|reflexivity].
  - destruct (gene_at g l) as [old|]; [|discriminate].
    destruct (negb (gene_eqb pc old ge)).
    + apply IH in H. destruct H as [Hle _]. split; [lia|intro; lia].
    + apply IH in H. exact H.
Qed.

Lemma mep_mutation_preserves : forall pc x cands y n,
  cache_ok hash_mep x -> mep_mutation pc x cands = Some (y, n) ->
  cache_ok hash_mep y /\ (n = 0%nat -> content y = content x).
Proof.
  intros pc x cands y n Hx. unfold mep_mutation.
  destruct (mutation_loop pc (content x) cands 0) as [[g' k]|] eqn:E; [|discriminate].
  intro H. inversion H. subst. apply mutation_loop_count in E. destruct E as [_ E].
  destruct (Nat.eqb n 0) eqn:En.
  - apply Nat.eqb_eq in En. subst n. rewrite (E eq_refl). split; [apply keep_same; exact Hx|reflexivity].
  - split; [apply cache_ok_clear|]. intro Hn. subst n. discriminate.
Qed.

Lemma mep_crossover_clear : forall a b bb ls y, mep_crossover a b bb ls = Some y -> cache y = hzero.
Proof.
  intros a b bb ls y. unfold mep_crossover. destruct (copy_cells _ _ ls); [|discriminate].
  intro H. inversion H. reflexivity.
Qed.

Lemma mep_step_preserves : forall pc x o y,
  cache_ok hash_mep x -> mep_op_ok (cache_ok hash_mep) x o -> mep_step pc x o = Some y -> cache_ok hash_mep y.
Proof.
  intros pc x o y Hx Hop Hs. destruct o; cbn [mep_step mep_op_ok] in *.
  - apply option_map_some in Hs. destruct Hs as [[h x'] [Hs ->]].
    apply (signature_correct hash_mep) in Hs; [|exact Hx]. cbn. tauto.
  - destruct (negb _); inversion Hs; subst; [apply cache_ok_clear|exact Hx].
  - apply option_map_some in Hs. destruct Hs as [g' [_ ->]]. apply cache_ok_clear.
  - destruct (_ && _); [|discriminate]. inversion Hs. apply cache_ok_clear.
  - apply option_map_some in Hs. destruct Hs as [[z n] [Hs ->]]. cbn.
    apply (mep_mutation_preserves pc x cands z n Hx Hs).
  - left. destruct self_is_lhs; eapply mep_crossover_clear; exact Hs.
  - inversion Hs. subst. apply cache_ok_keep_same; assumption.
  - destruct parsed; inversion Hs; subst; [apply cache_ok_clear|exact Hx].
  - inversion Hs. subst. exact Hop.
  - contradiction.
Qed.

Definition mep_plain (x : mep) (o : mep_op) : Prop :=
  match o with
  | MAssign _ | MIterWrite _ _ => False
  | MCse g' => hash_mep g' = hash_mep (content x)
  | _ => True
  end.
Inductive mep_reach (pc : f64 -> f64 -> bool) : mep -> Prop :=
| mr_init : forall g, mep_reach pc (clear g)              (* i_mep(problem), i_mep(vector<gene>) *)
| mr_step : forall x o y, mep_reach pc x -> mep_plain x o -> mep_step pc x o = Some y -> mep_reach pc y.

Lemma mep_reach_ok : forall pc x, mep_reach pc x -> cache_ok hash_mep x.
Proof.
  induction 1 as [g|x o y Hr IH Hp Hs]; [apply cache_ok_clear|].
  apply (mep_step_preserves pc x o y IH); [|exact Hs]. destruct o; cbn in *; try contradiction; auto.
Qed.

Lemma mep_never_stale : forall pc x h x',
  mep_reach pc x -> signature hash_mep x = Some (h, x') -> hash_mep (content x) = Some h.
Proof. intros pc x h x' Hr Hs. apply mep_reach_ok in Hr. apply (signature_correct hash_mep x h x' Hr Hs). Qed.

(* ================================================================== team *)
Lemma hash_team_ext : forall ms ms', map (@content genome) ms = map (@content genome) ms' -> hash_team ms = hash_team ms'.
Proof.
  intros ms ms' H.
  assert (E : map member_hash ms = map member_hash ms').
  { assert (M : forall l : list mep, map member_hash l = map hash_mep (map (@content genome) l))
      by (intro l; rewrite map_map; reflexivity).
    rewrite (M ms), (M ms'), H. reflexivity. }
  unfold hash_team. apply f_equal. apply f_equal. exact E.
Qed.

Lemma team_hash_run_spec : forall ms acc h ms',
  Forall (cache_ok hash_mep) ms -> team_hash_run acc ms = Some (h, ms') ->
  Forall (cache_ok hash_mep) ms' /\ map (@content genome) ms' = map (@content genome) ms /\
  exists hs, all_some (map member_hash ms) = Some hs /\ h = fold_combine acc hs.
Proof.
  induction ms as [|m r IH]; intros acc h ms' Hall H; cbn [team_hash_run] in H.
  - inversion H. subst. split; [constructor|]. split; [reflexivity|]. exists []. split; reflexivity.
  - inversion Hall as [|? ? Hm Hr]. subst.
    destruct (signature hash_mep m) as [[hm m']|] eqn:Es; [|discriminate].
    destruct (team_hash_run (hcombine acc hm) r) as [[a r']|] eqn:Er; [|discriminate].
    inversion H. subst.
    apply (signature_correct hash_mep) in Es; [|exact Hm]. destruct Es as [Eh [Ec [_ Hok]]].
    apply IH in Er; [|exact Hr]. destruct Er as [Hall' [Hc [hs [Hhs Hh]]]].
    split; [constructor; assumption|]. split; [cbn [map]; rewrite Ec, Hc; reflexivity|].
    exists (hm :: hs). cbn [map all_some]. unfold member_hash at 1. rewrite Eh, Hhs. split; [reflexivity|exact Hh].
Qed.

Lemma team_signature_correct : forall t h t',
  team_ok t -> team_signature t = Some (h, t') ->
  hash_team (content t) = Some h /\ map (@content genome) (content t') = map (@content genome) (content t) /\ team_ok t'.
Proof.
  intros t h t' [Hall Hc] H. unfold team_signature in H.
  destruct (hempty (cache t)) eqn:Ee.
  - destruct (team_hash_run hzero (content t)) as [[h0 ms']|] eqn:Er; [|discriminate].
    inversion H. subst. apply team_hash_run_spec in Er; [|exact Hall].
    destruct Er as [Hall' [Hcont [hs [Hhs Hh]]]].
    assert (Eh : hash_team (content t) = Some h).
    { unfold hash_team. rewrite Hhs. cbn. rewrite Hh. reflexivity. }
    split; [exact Eh|]. split; [exact Hcont|]. split; [exact Hall'|].
    right. cbn. rewrite (hash_team_ext ms' (content t) Hcont). exact Eh.
  - inversion H. subst. destruct Hc as [Hz|Hh].
    + apply hempty_true in Hz. congruence.
    + split; [exact Hh|]. split; [reflexivity|]. split; [exact Hall|right; exact Hh].
Qed.

Lemma set_nth_spec : forall A (l : list A) i v l', set_nth l i v = Some l' ->
  forall (P : A -> Prop) B (f : A -> B), Forall P l -> P v ->
  (forall a, nth_error l i = Some a -> f v = f a) -> Forall P l' /\ map f l' = map f l.
Proof.
  induction l as [|a r IH]; intros i v l' H P B f Hall Hv Hf; [destruct i; discriminate|].
  inversion Hall as [|? ? Ha Hr]. subst. destruct i as [|k]; cbn [set_nth] in H.
  - inversion H. subst. split; [constructor; assumption|]. cbn. rewrite (Hf a eq_refl). reflexivity.
  - apply option_map_some in H. destruct H as [r' [H ->]].
    destruct (IH k v r' H P B f Hr Hv) as [H1 H2]; [intros b Hb; apply Hf; exact Hb|].
    split; [constructor; assumption|cbn; rewrite H2; reflexivity].
Qed.

Lemma team_mutation_loop_spec : forall pc ms cands ms' nm,
  Forall (cache_ok hash_mep) ms -> team_mutation_loop pc ms cands = Some (ms', nm) ->
  Forall (cache_ok hash_mep) ms' /\ (nm = 0%nat -> map (@content genome) ms' = map (@content genome) ms).
Proof.
  induction ms as [|m r IH]; intros cands ms' nm Hall H; destruct cands as [|c cr]; cbn [team_mutation_loop] in H;
    try discriminate.
  - inversion H. subst. split; [constructor|reflexivity].
  - inversion Hall as [|? ? Hm Hr]. subst.
    destruct (mep_mutation pc m c) as [[m' n]|] eqn:Em; [|discriminate].
    destruct (team_mutation_loop pc r cr) as [[r' k]|] eqn:Er; [|discriminate].
    inversion H. subst. apply mep_mutation_preserves in Em; [|exact Hm]. destruct Em as [Hm' Hn].
    apply IH in Er; [|exact Hr]. destruct Er as [Hr' Hk].
    split; [constructor; assumption|]. intro Hz. assert (n = 0 /\ k = 0)%nat as [-> ->] by lia.
    cbn [map]. rewrite (Hn eq_refl), (Hk eq_refl). reflexivity.
Qed.

Lemma team_crossover_loop_spec : forall lhs rhs ch ms,
  team_crossover_loop lhs rhs ch = Some ms -> Forall (cache_ok hash_mep) ms.
Proof.
  induction lhs as [|a l IH]; intros rhs ch ms H; destruct rhs as [|b r]; destruct ch as [|[bb ls] c];
    cbn [team_crossover_loop] in H; try discriminate.
  - inversion H. constructor.
  - destruct (mep_crossover a b bb ls) as [m|] eqn:Em; [|discriminate].
    destruct (team_crossover_loop l r c) as [r'|] eqn:Er; [|discriminate].
    inversion H. subst. constructor; [left; eapply mep_crossover_clear; exact Em|eapply IH; exact Er].
Qed.

Definition team_op_ok (P : team -> Prop) (o : team_op) : Prop :=
  match o with TAssign y => P y | _ => True end.

Lemma team_ok_keep : forall (t : team) ms', team_ok t -> Forall (cache_ok hash_mep) ms' ->
  map (@content genome) ms' = map (@content genome) (content t) -> team_ok (keep t ms').
Proof.
  intros t ms' [_ Hc] Hall Hcont. split; [exact Hall|].
  apply cache_ok_keep_same; [exact Hc|apply hash_team_ext; exact Hcont].
Qed.

Lemma team_step_preserves : forall pc t o t',
  team_ok t -> team_op_ok team_ok o -> team_step pc t o = Some t' -> team_ok t'.
Proof.
  intros pc t o t' Ht Hop Hs. destruct o; cbn [team_step team_op_ok] in *.
  - apply option_map_some in Hs. destruct Hs as [[h x'] [Hs ->]].
    apply team_signature_correct in Hs; [|exact Ht]. cbn. tauto.
  - destruct (nth_error (content t) j) as [m|] eqn:En; [|discriminate].
    destruct (signature hash_mep m) as [[h m']|] eqn:Es; [|discriminate].
    apply option_map_some in Hs. destruct Hs as [ms' [Hset ->]].
    destruct Ht as [Hall Hc].
    assert (Hm : cache_ok hash_mep m).
    { rewrite Forall_forall in Hall. apply Hall. eapply nth_error_In; exact En. }
    apply (signature_correct hash_mep) in Es; [|exact Hm]. destruct Es as [_ [Ec [_ Hok]]].
    destruct (set_nth_spec _ _ _ _ _ Hset (cache_ok hash_mep) _ (@content genome) Hall Hok) as [H1 H2].
    { intros a Ha. rewrite En in Ha. inversion Ha. subst. exact Ec. }
    apply team_ok_keep; [split; assumption|exact H1|exact H2].
  - destruct (team_mutation_loop pc (content t) cands) as [[ms' nm]|] eqn:El; [|discriminate].
    destruct Ht as [Hall Hc]. apply team_mutation_loop_spec in El; [|exact Hall]. destruct El as [Hall' Hz].
    inversion Hs. subst. destruct (Nat.eqb nm 0) eqn:En.
    + apply Nat.eqb_eq in En. apply team_ok_keep; [split; assumption|exact Hall'|exact (Hz En)].
    + split; [exact Hall'|apply cache_ok_clear].
  - apply option_map_some in Hs. destruct Hs as [ms [Hs ->]].
    split; [|apply cache_ok_clear]. cbn.
    destruct self_is_lhs; eapply team_crossover_loop_spec; exact Hs.
  - destruct parsed as [gs|]; inversion Hs; subst; [|exact Ht].
    split; [|apply cache_ok_clear]. cbn. rewrite Forall_forall. intros m Hm.
    apply in_map_iff in Hm. destruct Hm as [g [<- _]]. apply cache_ok_clear.
  - inversion Hs. subst. exact Hop.
Qed.

Definition team_plain (o : team_op) : Prop := match o with TAssign _ => False | _ => True end.
(* members handed to team(std::vector<T>) are themselves reachable individuals *)
Inductive team_reach (pc : f64 -> f64 -> bool) : team -> Prop :=
| tr_init : forall ms, Forall (mep_reach pc) ms -> team_reach pc (clear ms)
| tr_step : forall t o t', team_reach pc t -> team_plain o -> team_step pc t o = Some t' -> team_reach pc t'.

Lemma team_reach_ok : forall pc t, team_reach pc t -> team_ok t.
Proof.
  induction 1 as [ms Hms|t o t' Hr IH Hp Hs].
  - split; [|apply cache_ok_clear]. cbn. rewrite Forall_forall in *. intros m Hm. apply (mep_reach_ok pc). apply Hms. exact Hm.
  - apply (team_step_preserves pc t o t' IH); [|exact Hs]. destruct o; cbn in *; try contradiction; exact I.
Qed.

(* the team signature is the ordered fold of combine over the signatures of
   the members' current contents *)
Lemma team_signature_is_fold : forall pc t h t',
  team_reach pc t -> team_signature t = Some (h, t') ->
  exists hs, all_some (map member_hash (content t)) = Some hs /\
             h = fold_combine hzero hs.
Proof.
  intros pc t h t' Hr Hs. apply team_reach_ok in Hr. apply team_signature_correct in Hs; [|exact Hr].
  destruct Hs as [Hh _]. unfold hash_team in Hh.
  destruct (all_some _) as [hs|]; [|discriminate]. cbn in Hh. inversion Hh. exists hs. split; reflexivity.
Qed.
