(* C03: unsigned 64-bit arithmetic as N modulo 2^64 and little-endian byte
   (de)composition, for MurmurHash3 x64-128 and hash_t::combine.
   The wrap-around is explicit wherever the C++ uses std::uint64_t. *)
From Coq Require Import NArith ZArith List Lia.
Import ListNotations.
Local Open Scope N_scope.

Definition M64 : N := 18446744073709551616.          (* 2^64 *)
Definition byte := N.                                  (* values < 256 *)

Definition w64 (x : N) : N := x mod M64.
Definition add64 (a b : N) : N := (a + b) mod M64.
Definition mul64 (a b : N) : N := (a * b) mod M64.
Definition xor64 (a b : N) : N := N.lxor a b.
Definition shl64 (a k : N) : N := (N.shiftl a k) mod M64.
Definition shr64 (a k : N) : N := N.shiftr a k.
(* cache_hash.h rotl64: (x << r) | (x >> (64 - r)) *)
Definition rotl64 (x r : N) : N := N.lor (shl64 x r) (shr64 x (64 - r)).

(* little-endian value of a byte list (memcpy into an unsigned on x86-64) *)
Fixpoint of_le (l : list byte) : N :=
  match l with
  | [] => 0
  | b :: r => b + 256 * of_le r
  end.

(* the n low bytes of x, least significant first *)
Fixpoint le_bytes (n : nat) (x : N) : list byte :=
  match n with
  | O => []
  | S k => (x mod 256) :: le_bytes k (x / 256)
  end.

Definition le16 (x : N) : list byte := le_bytes 2 x.
Definition le32 (x : N) : list byte := le_bytes 4 x.
Definition le64 (x : N) : list byte := le_bytes 8 x.

Definition is_byte (b : byte) : Prop := b < 256.
