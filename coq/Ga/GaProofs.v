(* C17 -- lemmas about the vector individuals. *)
From Coq Require Import ZArith List Bool Lia ZifyBool.
From VV Require Import Base.F64 Ga.GaDefs.
Import ListNotations.
Local Open Scope Z_scope.

(* ------------------------------------------------------------ draws *)
Lemma next_int_spec : forall lo hi ds v ds',
  next_int lo hi ds = Some (v, ds') -> lo <= v < hi /\ ds = DInt lo hi v :: ds'.
Proof.
  intros lo hi ds v ds' H. unfold next_int in H.
  destruct ds as [|[lo' hi' v'|? ? ?|? ?] r]; try discriminate.
  destruct ((lo =? lo') && (hi =? hi') && (lo <=? v') && (v' <? hi)) eqn:E; [|discriminate].
  injection H as <- <-. split; [lia|]. f_equal. f_equal; lia.
Qed.

Lemma next_real_spec : forall lo hi ds v ds',
  next_real lo hi ds = Some (v, ds') ->
  F64.leb lo v = true /\ F64.leb v hi = true /\ exists lo' hi', ds = DReal lo' hi' v :: ds'.
Proof.
  intros lo hi ds v ds' H. unfold next_real in H.
  destruct ds as [|[? ? ?|lo' hi' v'|? ?] r]; try discriminate.
  destruct (same_bits lo lo' && same_bits hi hi' && F64.leb lo v' && F64.leb v' hi) eqn:E; [|discriminate].
  injection H as <- <-.
  apply andb_prop in E. destruct E as [E E4]. apply andb_prop in E. destruct E as [E E3].
  split; [exact E3|split; [exact E4|eauto]].
Qed.

Lemma next_bool_spec : forall p ds b ds',
  next_bool p ds = Some (b, ds') -> bool_contract p b = true /\ exists p', ds = DBool p' b :: ds'.
Proof.
  intros p ds b ds' H. unfold next_bool in H.
  destruct ds as [|[? ? ?|? ? ?|p' b'] r]; try discriminate.
  destruct (same_bits p p' && bool_contract p b') eqn:E; [|discriminate].
  injection H as <- <-. apply andb_prop in E. destruct E as [_ E]. split; [exact E|eauto].
Qed.

Lemma Forall2_len : forall (A B : Type) (R : A -> B -> Prop) l l', Forall2 R l l' -> length l = length l'.
Proof. induction 1; cbn; congruence. Qed.

(* ------------------------------------------------------------ i_ga *)
Definition in_range (ranges : list (Z * Z)) (g : list Z) : Prop :=
  Forall2 (fun r v => fst r <= v < snd r) ranges g.

Lemma in_range_length : forall ranges g, in_range ranges g -> length ranges = length g.
Proof. intros. eapply Forall2_len; eassumption. Qed.

Lemma in_range_b_spec : forall ranges g, in_range_b ranges g = true <-> in_range ranges g.
Proof.
  unfold in_range_b, in_range. induction ranges as [|[lo hi] rs IH]; intros [|v g]; cbn.
  - split; [constructor|reflexivity].
  - split; [discriminate|intro H; inversion H].
  - split; [discriminate|intro H; inversion H].
  - specialize (IH g). split.
    + intro H. apply andb_prop in H. destruct H as [Hl H]. apply andb_prop in H. destruct H as [Hv H].
      constructor; [cbn; lia|]. apply IH. rewrite Hl, H. reflexivity.
    + intro H. inversion H as [|? ? ? ? Hv Hr]; subst. cbn in Hv. apply IH in Hr.
      apply andb_prop in Hr. destruct Hr as [Hl Hf]. rewrite Hl, Hf.
      replace ((lo <=? v) && (v <? hi)) with true by lia. reflexivity.
Qed.

Lemma ga_create_genome_range : forall ranges ds g ds',
  ga_create_genome ranges ds = Some (g, ds') -> in_range ranges g.
Proof.
  induction ranges as [|[lo hi] rs IH]; intros ds g ds' H; cbn [ga_create_genome] in H.
  - injection H as <- <-. constructor.
  - destruct (roulette ds) as [[w ds1]|]; [|discriminate].
    destruct (next_int lo hi ds1) as [[v ds2]|] eqn:E; [|discriminate].
    destruct (ga_create_genome rs ds2) as [[g' ds3]|] eqn:E2; [|discriminate].
    injection H as <- <-. apply next_int_spec in E. destruct E as [E _].
    constructor; [exact E|]. eapply IH. exact E2.
Qed.

Lemma ga_create_range : forall ranges ds x ds',
  ga_create ranges ds = Some (x, ds') ->
  in_range ranges (ga_genome x) /\ length (ga_genome x) = length ranges /\ ga_age x = 0.
Proof.
  intros ranges ds x ds' H. unfold ga_create in H. destruct ranges as [|r rs]; [discriminate|].
  destruct (ga_create_genome (r :: rs) ds) as [[g ds2]|] eqn:E; [|discriminate].
  injection H as <- <-. cbn [ga_genome ga_age]. apply ga_create_genome_range in E.
  split; [exact E|]. split; [symmetry; apply in_range_length; exact E|reflexivity].
Qed.

(* a stream built from in-range values is accepted: the theorems are not vacuous *)
Fixpoint ga_stream (ranges : list (Z * Z)) (vs : list Z) : list draw :=
  match ranges, vs with
  | (lo, hi) :: rs, v :: vs' => DInt 0 100 0 :: DInt lo hi v :: ga_stream rs vs'
  | _, _ => []
  end.

Lemma ga_create_genome_accepts : forall ranges vs rest, in_range ranges vs ->
  ga_create_genome ranges (ga_stream ranges vs ++ rest) = Some (vs, rest).
Proof.
  induction ranges as [|[lo hi] rs IH]; intros vs rest H; inversion H as [|? ? ? ? Hv Hr]; subst.
  - reflexivity.
  - cbn [ga_stream app ga_create_genome roulette next_int]. cbn in Hv.
    replace ((0 =? 0) && (100 =? 100) && (0 <=? 0) && (0 <? 100)) with true by reflexivity.
    unfold next_int.
    replace ((lo =? lo) && (hi =? hi) && (lo <=? y) && (y <? hi)) with true by lia.
    rewrite (IH _ rest Hr). reflexivity.
Qed.

Lemma ga_mut_genome_range : forall pgm ranges g ds g' n ds',
  in_range ranges g -> ga_mut_genome pgm ranges g ds = Some (g', n, ds') ->
  in_range ranges g' /\ 0 <= n <= Z.of_nat (length g).
Proof.
  intros pgm ranges. induction ranges as [|[lo hi] rs IH]; intros g ds g' n ds' Hr H.
  - inversion Hr; subst. cbn in H. injection H as <- <- <-. split; [constructor|cbn; lia].
  - inversion Hr as [|? x ? xs Hx Hxs]; subst. cbn [ga_mut_genome] in H.
    destruct (next_bool pgm ds) as [[b ds1]|]; [|discriminate].
    destruct b.
    + destruct (roulette ds1) as [[w ds2]|]; [|discriminate].
      destruct (next_int lo hi ds2) as [[v ds3]|] eqn:E; [|discriminate].
      destruct (ga_mut_genome pgm rs xs ds3) as [[[g2 n2] ds4]|] eqn:E2; [|discriminate].
      injection H as <- <- <-. apply next_int_spec in E. destruct E as [E _].
      destruct (IH _ _ _ _ _ Hxs E2) as [I1 I2].
      split; [constructor; [exact E|exact I1]|]. cbn [length]. destruct (v =? x); lia.
    + destruct (ga_mut_genome pgm rs xs ds1) as [[[g2 n2] ds4]|] eqn:E2; [|discriminate].
      injection H as <- <- <-. destruct (IH _ _ _ _ _ Hxs E2) as [I1 I2].
      split; [constructor; [exact Hx|exact I1]|]. cbn [length]. lia.
Qed.

Lemma ga_mutation_range : forall pgm ranges x ds y n ds',
  in_range ranges (ga_genome x) -> ga_mutation pgm ranges x ds = Some (y, n, ds') ->
  in_range ranges (ga_genome y) /\ length (ga_genome y) = length (ga_genome x) /\ ga_age y = ga_age x /\
  0 <= n <= Z.of_nat (length (ga_genome x)).
Proof.
  intros pgm ranges x ds y n ds' Hr H. unfold ga_mutation in H.
  destruct (ga_mut_genome pgm ranges (ga_genome x) ds) as [[[g n2] ds2]|] eqn:E; [|discriminate].
  injection H as <- <- <-. cbn [ga_genome ga_age].
  destruct (ga_mut_genome_range _ _ _ _ _ _ _ Hr E) as [I1 I2].
  split; [exact I1|]. split; [|split; [reflexivity|exact I2]].
  rewrite <- (in_range_length _ _ I1). apply in_range_length. exact Hr.
Qed.

(* mutation with probability 0 changes nothing, with probability 1 redraws every gene *)
Lemma ga_mut_genome_p0 : forall pgm ranges g ds g' n ds',
  F64.eqb pgm F64.zero = true -> ga_mut_genome pgm ranges g ds = Some (g', n, ds') -> g' = g /\ n = 0.
Proof.
  intros pgm ranges. induction ranges as [|[lo hi] rs IH]; intros g ds g' n ds' Hp H; destruct g as [|x xs];
    cbn [ga_mut_genome] in H; try discriminate.
  - injection H as <- <- <-. auto.
  - destruct (next_bool pgm ds) as [[b ds1]|] eqn:Eb; [|discriminate].
    apply next_bool_spec in Eb. destruct Eb as [Eb _]. unfold bool_contract in Eb. rewrite Hp in Eb.
    destruct b; [discriminate|].
    destruct (ga_mut_genome pgm rs xs ds1) as [[[g2 n2] ds4]|] eqn:E2; [|discriminate].
    injection H as <- <- <-. destruct (IH _ _ _ _ _ Hp E2) as [-> ->]. auto.
Qed.

(* --- crossover *)
Lemma splice_from_length : forall l r i c1 c2, length l = length r -> length (splice_from i c1 c2 l r) = length l.
Proof.
  induction l as [|x l IH]; intros [|y r] i c1 c2 H; cbn in *; try discriminate; [reflexivity|].
  f_equal. apply IH. lia.
Qed.

Lemma splice_from_nth : forall l r i c1 c2 k, length l = length r ->
  nth_error (splice_from i c1 c2 l r) k =
  if (c1 <=? i + Z.of_nat k) && (i + Z.of_nat k <? c2) then nth_error l k else nth_error r k.
Proof.
  induction l as [|x l IH]; intros [|y r] i c1 c2 k H; cbn [length] in H; try discriminate.
  - cbn. destruct k; cbn; destruct ((c1 <=? _) && _); reflexivity.
  - cbn [splice_from]. destruct k as [|k].
    + cbn [nth_error]. replace (i + Z.of_nat 0) with i by lia.
      destruct ((c1 <=? i) && (i <? c2)); reflexivity.
    + cbn [nth_error]. rewrite IH by lia.
      replace (i + 1 + Z.of_nat k) with (i + Z.of_nat (S k)) by lia. reflexivity.
Qed.

Lemma splice_from_range : forall ranges l r i c1 c2,
  in_range ranges l -> in_range ranges r -> in_range ranges (splice_from i c1 c2 l r).
Proof.
  induction ranges as [|rg rs IH]; intros l r i c1 c2 Hl Hr; inversion Hl; inversion Hr; subst.
  - constructor.
  - cbn [splice_from]. constructor; [destruct ((c1 <=? i) && (i <? c2)); assumption|]. apply IH; assumption.
Qed.

Lemma ga_crossover_spec : forall l r ds child ds',
  ga_crossover l r ds = Some (child, ds') ->
  let n := Z.of_nat (length (ga_genome l)) in
  length (ga_genome l) = length (ga_genome r) /\ 2 <= n /\
  exists c1 c2, ga_cuts l ds = Some (c1, c2) /\ 0 <= c1 < n - 1 /\ c1 < c2 < n /\
    ga_genome child = splice_from 0 c1 c2 (ga_genome l) (ga_genome r) /\
    ga_age child = Z.max (ga_age l) (ga_age r).
Proof.
  intros l r ds child ds' H n. unfold ga_crossover in H. fold n in H.
  destruct (Nat.eqb (length (ga_genome l)) (length (ga_genome r))) eqn:El; [|discriminate].
  cbn [negb] in H. apply PeanoNat.Nat.eqb_eq in El.
  destruct (n <? 2) eqn:En; [discriminate|].
  destruct (next_int 0 (n - 1) ds) as [[c1 ds1]|] eqn:E1; [|discriminate].
  destruct (next_int (c1 + 1) n ds1) as [[c2 ds2]|] eqn:E2; [|discriminate].
  injection H as <- <-. cbn [ga_genome ga_age].
  split; [exact El|]. split; [lia|]. exists c1, c2.
  unfold ga_cuts. fold n. rewrite E1, E2.
  apply next_int_spec in E1. apply next_int_spec in E2. destruct E1 as [E1 _]. destruct E2 as [E2 _].
  split; [reflexivity|]. split; [lia|]. split; [lia|]. split; [reflexivity|].
  unfold set_older_age. destruct (ga_age r <? ga_age l) eqn:E; lia.
Qed.

(* --- every individual obtained by ANY sequence of creations, mutations and crossovers *)
Inductive ga_reachable (ranges : list (Z * Z)) : iga -> Prop :=
| gr_create : forall ds x ds', ga_create ranges ds = Some (x, ds') -> ga_reachable ranges x
| gr_mutate : forall pgm x ds y n ds', ga_reachable ranges x ->
    ga_mutation pgm ranges x ds = Some (y, n, ds') -> ga_reachable ranges y
| gr_cross : forall l r ds child ds', ga_reachable ranges l -> ga_reachable ranges r ->
    ga_crossover l r ds = Some (child, ds') -> ga_reachable ranges child.

Lemma ga_reachable_in_range : forall ranges x, ga_reachable ranges x ->
  in_range ranges (ga_genome x) /\ length (ga_genome x) = length ranges /\ 0 <= ga_age x.
Proof.
  intros ranges x H.
  induction H as [ds x ds' H|pgm x ds y n ds' _ IH H|l r ds child ds' _ IHl _ IHr H].
  - apply ga_create_range in H. destruct H as (H1 & H2 & H3). rewrite H3. repeat split; [exact H1|exact H2|lia].
  - destruct IH as (I1 & I2 & I3). destruct (ga_mutation_range _ _ _ _ _ _ _ I1 H) as (H1 & H2 & H3 & _).
    repeat split; [exact H1|congruence|lia].
  - destruct IHl as (L1 & L2 & L3). destruct IHr as (R1 & R2 & R3).
    apply ga_crossover_spec in H. destruct H as (Hlen & _ & c1 & c2 & _ & _ & _ & Hg & Ha).
    rewrite Hg, Ha. repeat split.
    + apply splice_from_range; assumption.
    + rewrite splice_from_length by exact Hlen. exact L2.
    + lia.
Qed.

(* ------------------------------------------------------------ i_de *)
Definition in_box (ranges : list (f64 * f64)) (g : list f64) : Prop :=
  Forall2 (fun r v => F64.leb (fst r) v = true /\ F64.leb v (snd r) = true) ranges g.

Lemma de_create_genome_box : forall ranges ds g ds',
  de_create_genome ranges ds = Some (g, ds') -> in_box ranges g.
Proof.
  induction ranges as [|[lo hi] rs IH]; intros ds g ds' H; cbn [de_create_genome] in H.
  - injection H as <- <-. constructor.
  - destruct (roulette ds) as [[w ds1]|]; [|discriminate].
    destruct (next_real lo hi ds1) as [[v ds2]|] eqn:E; [|discriminate].
    destruct (de_create_genome rs ds2) as [[g' ds3]|] eqn:E2; [|discriminate].
    injection H as <- <-. apply next_real_spec in E. destruct E as (E3 & E4 & _).
    constructor; [split; assumption|]. eapply IH. exact E2.
Qed.

Lemma de_create_box : forall ranges ds x ds',
  de_create ranges ds = Some (x, ds') ->
  in_box ranges (de_genome x) /\ length (de_genome x) = length ranges /\ de_age x = 0.
Proof.
  intros ranges ds x ds' H. unfold de_create in H. destruct ranges as [|r rs]; [discriminate|].
  destruct (de_create_genome (r :: rs) ds) as [[g ds2]|] eqn:E; [|discriminate].
  injection H as <- <-. cbn [de_genome de_age]. apply de_create_genome_box in E.
  split; [exact E|]. split; [symmetry; eapply Forall2_len; exact E|reflexivity].
Qed.

(* position-wise description of a trial vector *)
Inductive trial_rel (F : f64) : list f64 -> list f64 -> list f64 -> list f64 -> list f64 -> Prop :=
| trial_last : forall tv av bv cv, trial_rel F [tv] [av] [bv] [cv] [mutant F av bv cv]
| trial_cons : forall tv av bv cv x t a b c g,
    x = tv \/ x = mutant F av bv cv ->
    trial_rel F t a b c g ->
    trial_rel F (tv :: t) (av :: a) (bv :: b) (cv :: c) (x :: g).

Lemma dcg_nil_a : forall p rf t b c ds, de_cross_genome p rf t [] b c ds = None.
Proof. intros. destruct t as [|? [|? ?]]; reflexivity. Qed.
Lemma dcg_nil_b : forall p rf t a c ds, de_cross_genome p rf t a [] c ds = None.
Proof. intros. destruct t as [|? [|? ?]], a as [|? [|? ?]]; reflexivity. Qed.
Lemma dcg_nil_c : forall p rf t a b ds, de_cross_genome p rf t a b [] ds = None.
Proof. intros. destruct t as [|? [|? ?]], a as [|? [|? ?]], b as [|? [|? ?]]; reflexivity. Qed.
Lemma dcg_cons2 : forall p rf tv tv2 t av a bv b cv c ds,
  de_cross_genome p rf (tv :: tv2 :: t) (av :: a) (bv :: b) (cv :: c) ds =
  match next_bool p ds with None => None | Some (bit, ds1) =>
  match de_cross_genome p rf (tv2 :: t) a b c ds1 with None => None | Some (g, ds2) =>
  Some ((if bit then mutant rf av bv cv else tv) :: g, ds2) end end.
Proof. reflexivity. Qed.
Lemma dcg_last : forall p rf tv av a bv b cv c ds g ds',
  de_cross_genome p rf [tv] (av :: a) (bv :: b) (cv :: c) ds = Some (g, ds') ->
  a = [] /\ b = [] /\ c = [] /\ g = [mutant rf av bv cv] /\ ds' = ds.
Proof.
  intros. destruct a as [|? ?], b as [|? ?], c as [|? ?]; cbn in H; try discriminate H;
    try (destruct (next_bool p ds) as [[? ?]|]; discriminate H).
  injection H as <- <-. repeat split; reflexivity.
Qed.

Lemma de_cross_genome_rel : forall p rf t a b c ds g ds',
  de_cross_genome p rf t a b c ds = Some (g, ds') -> trial_rel rf t a b c g.
Proof.
  intros p rf t. induction t as [|tv t IH]; intros a b c ds g ds' H; [discriminate H|].
  destruct a as [|av a]; [rewrite dcg_nil_a in H; discriminate H|].
  destruct b as [|bv b]; [rewrite dcg_nil_b in H; discriminate H|].
  destruct c as [|cv c]; [rewrite dcg_nil_c in H; discriminate H|].
  destruct t as [|tv2 t].
  - apply dcg_last in H. destruct H as (-> & -> & -> & -> & _). constructor.
  - rewrite dcg_cons2 in H.
    destruct (next_bool p ds) as [[bit ds1]|]; [|discriminate H].
    destruct (de_cross_genome p rf (tv2 :: t) a b c ds1) as [[g2 ds2]|] eqn:E; [|discriminate H].
    injection H as <- <-. constructor; [destruct bit; auto|]. eapply IH. exact E.
Qed.

Lemma trial_rel_length : forall F t a b c g, trial_rel F t a b c g ->
  length g = length t /\ length a = length t /\ length b = length t /\ length c = length t.
Proof. induction 1 as [|? ? ? ? ? ? ? ? ? ? _ _ (I1 & I2 & I3 & I4)]; cbn; repeat split; congruence. Qed.

Lemma trial_rel_nth : forall F t a b c g, trial_rel F t a b c g ->
  forall i tv av bv cv, nth_error t i = Some tv -> nth_error a i = Some av ->
    nth_error b i = Some bv -> nth_error c i = Some cv ->
    exists x, nth_error g i = Some x /\ (x = tv \/ x = mutant F av bv cv).
Proof.
  induction 1 as [tv0 av0 bv0 cv0|tv0 av0 bv0 cv0 x t a b c g Hx _ IH]; intros i tv av bv cv Ht Ha Hb Hc.
  - destruct i as [|[|i]]; cbn in *; try discriminate.
    injection Ht as <-. injection Ha as <-. injection Hb as <-. injection Hc as <-. eauto.
  - destruct i as [|i]; cbn in *.
    + injection Ht as <-. injection Ha as <-. injection Hb as <-. injection Hc as <-. eauto.
    + eapply IH; eassumption.
Qed.

Lemma trial_rel_last : forall F t a b c g, trial_rel F t a b c g ->
  exists g0 a0 b0 c0 av bv cv, g = g0 ++ [mutant F av bv cv] /\ a = a0 ++ [av] /\ b = b0 ++ [bv] /\ c = c0 ++ [cv] /\
    length g0 = length a0 /\ length g0 = length b0 /\ length g0 = length c0.
Proof.
  induction 1 as [tv0 av0 bv0 cv0|tv0 av0 bv0 cv0 x t a b c g Hx _ IH].
  - exists [], [], [], [], av0, bv0, cv0. repeat split.
  - destruct IH as (g0 & a0 & b0 & c0 & av & bv & cv & -> & -> & -> & -> & L1 & L2 & L3).
    exists (x :: g0), (av0 :: a0), (bv0 :: b0), (cv0 :: c0), av, bv, cv. cbn. repeat split; congruence.
Qed.

Lemma de_crossover_spec : forall p flo fhi t a b c ds trial ds',
  de_crossover p flo fhi t a b c ds = Some (trial, ds') ->
  exists F, de_factor flo fhi ds = Some F /\ F64.leb flo F = true /\ F64.leb F fhi = true /\
    trial_rel F (de_genome t) (de_genome a) (de_genome b) (de_genome c) (de_genome trial) /\
    de_age trial = Z.max (Z.max (de_age t) (de_age c)) (Z.max (de_age a) (de_age b)).
Proof.
  intros p flo fhi t a b c ds trial ds' H. unfold de_crossover in H.
  destruct (next_real flo fhi ds) as [[rf ds1]|] eqn:E; [|discriminate].
  destruct (de_cross_genome p rf (de_genome t) (de_genome a) (de_genome b) (de_genome c) ds1) as [[g ds2]|] eqn:E2;
    [|discriminate].
  injection H as <- <-. exists rf. unfold de_factor. rewrite E.
  apply next_real_spec in E. destruct E as (E3 & E4 & _).
  split; [reflexivity|]. split; [exact E3|]. split; [exact E4|]. cbn [de_genome de_age].
  split; [eapply de_cross_genome_rel; exact E2|].
  unfold set_older_age. destruct (de_age c <? _) eqn:Ec; lia.
Qed.

(* with p = 0 every position but the last is the target's; with p = 1 every position is the mutant *)
Lemma de_cross_genome_p0 : forall p rf t a b c ds g ds',
  F64.eqb p F64.zero = true -> de_cross_genome p rf t a b c ds = Some (g, ds') ->
  exists t0 tl g1, t = t0 ++ [tl] /\ g = t0 ++ [g1].
Proof.
  intros p rf t. induction t as [|tv t IH]; intros a b c ds g ds' Hp H; [discriminate H|].
  destruct a as [|av a]; [rewrite dcg_nil_a in H; discriminate H|].
  destruct b as [|bv b]; [rewrite dcg_nil_b in H; discriminate H|].
  destruct c as [|cv c]; [rewrite dcg_nil_c in H; discriminate H|].
  destruct t as [|tv2 t].
  - apply dcg_last in H. destruct H as (-> & -> & -> & -> & _).
    exists [], tv, (mutant rf av bv cv). split; reflexivity.
  - rewrite dcg_cons2 in H.
    destruct (next_bool p ds) as [[bit ds1]|] eqn:Eb; [|discriminate H].
    apply next_bool_spec in Eb. destruct Eb as [Eb _]. unfold bool_contract in Eb. rewrite Hp in Eb.
    destruct bit; [discriminate Eb|].
    destruct (de_cross_genome p rf (tv2 :: t) a b c ds1) as [[g2 ds2]|] eqn:E; [|discriminate H].
    injection H as <- <-. destruct (IH _ _ _ _ _ _ Hp E) as (t0 & tl & g1 & Ht & Hg).
    exists (tv :: t0), tl, g1. rewrite Ht, Hg. split; reflexivity.
Qed.

(* ------------------------------------------------------------ accessors *)
Lemma list_set_spec : forall (A : Type) (l : list A) i v l', list_set l i v = Some l' ->
  length l' = length l /\ nth_error l' i = Some v /\ (forall k, k <> i -> nth_error l' k = nth_error l k) /\ (i < length l)%nat.
Proof.
  induction l as [|y r IH]; intros i v l' H; [discriminate H|]. destruct i as [|i]; cbn [list_set] in H.
  - injection H as <-. repeat split; try reflexivity; [|cbn; lia]. intros [|k] Hk; [contradiction|reflexivity].
  - destruct (list_set r i v) as [r'|] eqn:E; [|discriminate H]. injection H as <-.
    destruct (IH _ _ _ E) as (I1 & I2 & I3 & I4). cbn [length nth_error]. repeat split; [lia|exact I2| |lia].
    intros [|k] Hk; [reflexivity|]. cbn [nth_error]. apply I3. lia.
Qed.

Lemma list_set_total : forall (A : Type) (l : list A) i v, (i < length l)%nat -> exists l', list_set l i v = Some l'.
Proof.
  induction l as [|y r IH]; intros i v H; [cbn in H; lia|]. destruct i as [|i]; cbn [list_set]; [eauto|].
  destruct (IH i v ltac:(cbn in H; lia)) as [r' ->]. eauto.
Qed.

Lemma ga_set_spec : forall x i v y, ga_set x i v = Some y ->
  length (ga_genome y) = length (ga_genome x) /\ ga_get y i = Some v /\
  (forall k, k <> i -> ga_get y k = ga_get x k) /\ ga_age y = ga_age x /\ (i < length (ga_genome x))%nat.
Proof.
  intros x i v y H. unfold ga_set in H. destruct (list_set (ga_genome x) i v) as [g|] eqn:E; [|discriminate H].
  injection H as <-. destruct (list_set_spec _ _ _ _ _ E) as (H1 & H2 & H3 & H4). unfold ga_get. cbn [ga_genome ga_age]. auto.
Qed.

Lemma list_set_in_range : forall ranges g i v g' lo hi, in_range ranges g -> list_set g i v = Some g' ->
  nth_error ranges i = Some (lo, hi) -> lo <= v < hi -> in_range ranges g'.
Proof.
  induction ranges as [|rg rs IH]; intros g i v g' lo hi Hr Hs Hn Hv; inversion Hr as [|? x ? xs Hx Hxs]; subst; [discriminate Hs|].
  destruct i as [|i]; cbn [list_set] in Hs.
  - injection Hs as <-. cbn in Hn. injection Hn as ->. constructor; [exact Hv|exact Hxs].
  - destruct (list_set xs i v) as [r'|] eqn:E; [|discriminate Hs]. injection Hs as <-.
    constructor; [exact Hx|]. eapply IH; eassumption.
Qed.

(* the caller's duty: a value inside the interval of position i keeps the individual in range *)
Lemma ga_set_in_range : forall ranges x i v y lo hi, in_range ranges (ga_genome x) -> ga_set x i v = Some y ->
  nth_error ranges i = Some (lo, hi) -> lo <= v < hi -> in_range ranges (ga_genome y).
Proof.
  intros ranges x i v y lo hi Hr H Hn Hv. unfold ga_set in H.
  destruct (list_set (ga_genome x) i v) as [g|] eqn:E; [|discriminate H]. injection H as <-. cbn [ga_genome].
  eapply list_set_in_range; eassumption.
Qed.

Lemma de_assign_spec : forall x v y, de_assign x v = Some y ->
  de_genome y = v /\ de_age y = de_age x /\ length v = length (de_genome x).
Proof.
  intros x v y H. unfold de_assign in H. destruct (Nat.eqb (length v) (length (de_genome x))) eqn:E; [|discriminate H].
  injection H as <-. apply PeanoNat.Nat.eqb_eq in E. auto.
Qed.

Lemma ga_eqb_spec : forall x y, ga_eqb x y = true <-> ga_genome x = ga_genome y.
Proof.
  intros [g a] [h b]. unfold ga_eqb. cbn [ga_genome]. revert h. induction g as [|u g IH]; intros [|w h]; cbn [list_eqb]; try (split; [discriminate|discriminate]).
  - split; reflexivity.
  - rewrite andb_true_iff, Z.eqb_eq, IH. split; [intros [-> ->]; reflexivity|intro H; injection H; auto].
Qed.
